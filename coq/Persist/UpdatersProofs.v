(* C17 - what each updater does to a well-formed file (C17_update_correct): the pure meaning of
   the record readers/writers and copy loops, the open/commit steps in the stdio model, and the
   resulting theorems - for every buffering policy. *)
From LibcoapV Require Import Base.Tactics Base.Bytes Base.BytesProofs Persist.Fs Persist.FsProofs
  Persist.Records Persist.RecordsProofs Persist.Updaters Persist.Streams.
Local Open Scope Z_scope.

(* ------------------------------------------------------------------ membership in ps_rw *)
Ltac ps_rw_step :=
  cbv beta iota delta [negb ps_rd ps_wr];
  lazymatch goal with
  | |- ps_rw _ _ (PsRet _) => apply PsRwRet
  | |- ps_rw _ _ (PsDo (PoRead _ _) _) => apply PsRwRead; intro
  | |- ps_rw _ _ (PsDo (PoGets _ _) _) => apply PsRwGets; intro
  | |- ps_rw _ _ (PsDo (PoWrite _ _) _) => apply PsRwWrite; intro
  | |- ps_rw _ _ (PsDo (PoPrintf _ _) _) => apply PsRwPrintf; intro
  | |- ps_rw _ _ (match ?x with _ => _ end) => destruct x
  | |- ps_rw _ _ (if ?x then _ else _) => destruct x
  | |- ps_rw _ _ ((if ?x then _ else _) _) => destruct x
  | |- ps_rw _ _ ((match ?x with _ => _ end) _) => destruct x
  end.

Lemma ps_obs_read_rw : forall la lt ho hn, ps_rw ho hn (ps_obs_read la lt ho).
Proof. intros. unfold ps_obs_read. repeat ps_rw_step. Qed.

Lemma ps_obs_write_rw : forall ho hn r, ps_rw ho hn (ps_obs_write hn r).
Proof. intros. unfold ps_obs_write. repeat ps_rw_step. Qed.

Lemma ps_dyn_read_rw : forall ho hn, ps_rw ho hn (ps_dyn_read ho).
Proof. intros. unfold ps_dyn_read. repeat ps_rw_step. Qed.

Lemma ps_dyn_write_rw : forall ho hn r, ps_rw ho hn (ps_dyn_write hn r).
Proof. intros. unfold ps_dyn_write. repeat ps_rw_step. Qed.

Lemma ps_obs_copy_rw : forall la lt fuel ho hn skip, ps_rw ho hn (ps_obs_copy la lt fuel ho hn skip).
Proof.
  induction fuel as [|f IH]; intros; cbn [ps_obs_copy]; [constructor|].
  apply ps_rw_bind; [apply ps_obs_read_rw|]. intros [r|]; [|constructor].
  destruct (ps_beq (pso_key r) skip); [apply IH|].
  apply ps_rw_bind; [apply ps_obs_write_rw|]. intros [|]; [apply IH|constructor].
Qed.

Lemma ps_dyn_copy_rw : forall fuel ho hn name, ps_rw ho hn (ps_dyn_copy fuel ho hn name).
Proof.
  induction fuel as [|f IH]; intros; cbn [ps_dyn_copy]; [constructor|].
  apply ps_rw_bind; [apply ps_dyn_read_rw|]. intros [r|]; [|constructor].
  destruct (ps_beq name (psd_name r)); [apply IH|].
  apply ps_rw_bind; [apply ps_dyn_write_rw|]. intros [|]; [apply IH|constructor].
Qed.

Lemma ps_cnt_copy_rw : forall fuel ho hn name, ps_rw ho hn (ps_cnt_copy fuel ho hn name).
Proof.
  induction fuel as [|f IH]; intros; cbn [ps_cnt_copy]; [constructor|].
  apply PsRwGets. intros [h| |ok d|n]; try constructor.
  destruct ok; [|constructor]. destruct (ps_cnt_parse d) as [[k v]|]; [|constructor].
  destruct (ps_beq name k); [apply IH|].
  apply PsRwPrintf. intros [h'| |ok' d'|n]; try constructor.
  destruct (n <? 0); [constructor|apply IH].
Qed.

(* ------------------------------------------------------------------ pure meaning *)
Lemma ps_pure_rd : forall A h sz (k : option bytes -> ps_prog A) inp,
  ps_pure (ps_rd h sz k) inp =
  match ps_item sz inp with
  | Some (a, rest) => ps_pure (k (Some a)) rest
  | None => ps_pure (k None) (if 0 <? sz then [] else inp)
  end.
Proof. intros. unfold ps_rd. cbn [ps_pure]. destruct (ps_item sz inp) as [[a rest]|]; reflexivity. Qed.

Lemma ps_pure_wr : forall A h d (k : bool -> ps_prog A) inp,
  d <> [] ->
  ps_pure (ps_wr h d k) inp = let '(a, rest, out) := ps_pure (k true) inp in (a, rest, d ++ out).
Proof. intros. unfold ps_wr. cbn [ps_pure]. destruct d; [congruence|reflexivity]. Qed.

Lemma ps_len_nonnil : forall (l : bytes), 0 < len l -> l <> [].
Proof. intros l H E. subst. cbn in H. lia. Qed.

Lemma ps_beq_eq : forall a b, ps_beq a b = true <-> a = b.
Proof.
  induction a as [|x a IH]; intros [|y b]; cbn [ps_beq]; split; intro H; try discriminate;
    try reflexivity.
  - apply andb_true_iff in H. destruct H as [H1 H2]. apply Z.eqb_eq in H1. apply IH in H2.
    congruence.
  - inversion H; subst. apply andb_true_iff. split; [apply Z.eqb_refl|apply IH; reflexivity].
Qed.

Lemma ps_beq_refl : forall a, ps_beq a a = true.
Proof. intro. apply ps_beq_eq. reflexivity. Qed.

Lemma ps_pure_obs_read : forall la lt h r rest,
  0 < la -> 0 < lt -> ps_obs_wf la lt r ->
  ps_pure (ps_obs_read la lt h) (ps_obs_enc r ++ rest) = (Some r, rest, []).
Proof.
  intros la lt h [key proto listen tuple pkt osc] rest Hla Hlt (Hk & Hp & Hl & Ht & Hpk & Ho).
  cbn [pso_key pso_proto pso_listen pso_tuple pso_pkt pso_osc] in *.
  unfold ps_obs_read, ps_obs_enc. cbn [pso_key pso_proto pso_listen pso_tuple pso_pkt pso_osc].
  rewrite <- !app_assoc. unfold PS_MAX in *.
  rewrite ps_pure_rd, (ps_item_app PS_KEY key) by (assumption || reflexivity).
  rewrite ps_pure_rd, (ps_item_app PS_PROTO proto) by (assumption || reflexivity).
  rewrite ps_pure_rd, (ps_item_app la listen) by assumption.
  rewrite ps_pure_rd, (ps_item_app lt tuple) by assumption.
  rewrite ps_pure_rd, (ps_item_app PS_LEN (ps_enc_size (len pkt)))
    by (apply ps_len_enc_size || reflexivity).
  rewrite ps_dec_enc_size by lia.
  rewrite ps_size_ok_true by (unfold PS_MAX; lia). cbn [negb].
  rewrite ps_pure_rd, (ps_item_app (len pkt) pkt) by (reflexivity || lia).
  destruct osc as [o|].
  - rewrite <- !app_assoc.
    rewrite ps_pure_rd, (ps_item_app PS_LEN (ps_enc_size (len o)))
      by (apply ps_len_enc_size || reflexivity).
    rewrite ps_dec_enc_size by lia.
    destruct (Z.eqb_spec (len o) (-1)); [lia|].
    rewrite ps_size_ok_true by (unfold PS_MAX; lia). cbn [negb].
    rewrite ps_pure_rd, (ps_item_app (len o) o) by (reflexivity || lia). reflexivity.
  - rewrite ps_pure_rd, (ps_item_app PS_LEN (ps_enc_size (-1)))
      by (apply ps_len_enc_size || reflexivity).
    rewrite ps_dec_enc_size by lia. rewrite Z.eqb_refl. reflexivity.
Qed.

Lemma ps_pure_obs_read_eof : forall la lt h, ps_pure (ps_obs_read la lt h) [] = (None, [], []).
Proof. intros. unfold ps_obs_read. rewrite ps_pure_rd, ps_item_nil. reflexivity. Qed.

Lemma ps_pure_obs_write : forall la lt h r inp,
  0 < la -> 0 < lt -> ps_obs_wf la lt r ->
  ps_pure (ps_obs_write h r) inp = (true, inp, ps_obs_enc r).
Proof.
  intros la lt h [key proto listen tuple pkt osc] inp Hla Hlt (Hk & Hp & Hl & Ht & Hpk & Ho).
  cbn [pso_key pso_proto pso_listen pso_tuple pso_pkt pso_osc] in *.
  unfold ps_obs_write, ps_obs_enc. cbn [pso_key pso_proto pso_listen pso_tuple pso_pkt pso_osc].
  unfold PS_KEY, PS_PROTO in *.
  rewrite ps_pure_wr by (apply ps_len_nonnil; lia). cbn [negb].
  rewrite ps_pure_wr by (apply ps_len_nonnil; lia). cbn [negb].
  rewrite ps_pure_wr by (apply ps_len_nonnil; lia). cbn [negb].
  rewrite ps_pure_wr by (apply ps_len_nonnil; lia). cbn [negb].
  rewrite ps_pure_wr by (apply ps_len_nonnil; rewrite ps_len_enc_size; reflexivity). cbn [negb].
  rewrite ps_pure_wr by (apply ps_len_nonnil; lia). cbn [negb].
  destruct osc as [o|].
  - rewrite ps_pure_wr by (apply ps_len_nonnil; rewrite ps_len_enc_size; reflexivity). cbn [negb].
    rewrite ps_pure_wr by (apply ps_len_nonnil; lia). cbn [ps_pure].
    rewrite app_nil_r. reflexivity.
  - rewrite ps_pure_wr by (apply ps_len_nonnil; rewrite ps_len_enc_size; reflexivity).
    cbn [ps_pure]. rewrite app_nil_r. reflexivity.
Qed.

Lemma ps_pure_dyn_read : forall h r rest,
  ps_dyn_wf r -> ps_pure (ps_dyn_read h) (ps_dyn_enc r ++ rest) = (Some r, rest, []).
Proof.
  intros h [proto name pkt] rest (Hp & Hn & Hk). cbn [psd_proto psd_name psd_pkt] in *.
  unfold ps_dyn_read, ps_dyn_enc. cbn [psd_proto psd_name psd_pkt].
  rewrite <- !app_assoc. unfold PS_MAX in *. pose proof (len_nonneg name) as Hn0.
  rewrite ps_pure_rd, (ps_item_app PS_PROTO proto) by (assumption || reflexivity).
  rewrite ps_pure_rd, (ps_item_app PS_LEN (ps_enc_size (len name)))
    by (apply ps_len_enc_size || reflexivity).
  rewrite ps_dec_enc_size by lia.
  rewrite ps_size_ok_true by (unfold PS_MAX; lia). cbn [negb].
  destruct (Z.eqb_spec (len name) 0) as [E|E].
  - destruct name; [|rewrite len_cons in E; pose proof (len_nonneg name); lia]. cbn [app].
    rewrite ps_pure_rd, (ps_item_app PS_LEN (ps_enc_size (len pkt)))
      by (apply ps_len_enc_size || reflexivity).
    rewrite ps_dec_enc_size by lia.
    rewrite ps_size_ok_true by (unfold PS_MAX; lia). cbn [negb].
    rewrite ps_pure_rd, (ps_item_app (len pkt) pkt) by (reflexivity || lia). reflexivity.
  - rewrite ps_pure_rd, (ps_item_app (len name) name) by (reflexivity || lia).
    rewrite ps_pure_rd, (ps_item_app PS_LEN (ps_enc_size (len pkt)))
      by (apply ps_len_enc_size || reflexivity).
    rewrite ps_dec_enc_size by lia.
    rewrite ps_size_ok_true by (unfold PS_MAX; lia). cbn [negb].
    rewrite ps_pure_rd, (ps_item_app (len pkt) pkt) by (reflexivity || lia). reflexivity.
Qed.

Lemma ps_pure_dyn_read_eof : forall h, ps_pure (ps_dyn_read h) [] = (None, [], []).
Proof. intros. unfold ps_dyn_read. rewrite ps_pure_rd, ps_item_nil. reflexivity. Qed.

Lemma ps_pure_dyn_write : forall h r inp,
  ps_dyn_wf r -> ps_pure (ps_dyn_write h r) inp = (true, inp, ps_dyn_enc r).
Proof.
  intros h [proto name pkt] inp (Hp & Hn & Hk). cbn [psd_proto psd_name psd_pkt] in *.
  unfold ps_dyn_write, ps_dyn_enc. cbn [psd_proto psd_name psd_pkt]. unfold PS_PROTO in *.
  rewrite ps_pure_wr by (apply ps_len_nonnil; lia). cbn [negb].
  rewrite ps_pure_wr by (apply ps_len_nonnil; rewrite ps_len_enc_size; reflexivity). cbn [negb].
  destruct name as [|b name].
  - cbn [negb app].
    rewrite ps_pure_wr by (apply ps_len_nonnil; rewrite ps_len_enc_size; reflexivity). cbn [negb].
    rewrite ps_pure_wr by (apply ps_len_nonnil; lia). cbn [ps_pure].
    rewrite app_nil_r. reflexivity.
  - rewrite ps_pure_wr by discriminate. cbn [negb].
    rewrite ps_pure_wr by (apply ps_len_nonnil; rewrite ps_len_enc_size; reflexivity). cbn [negb].
    rewrite ps_pure_wr by (apply ps_len_nonnil; lia). cbn [ps_pure].
    rewrite app_nil_r. reflexivity.
Qed.

(* the specifications the copy loops are measured against *)
Definition ps_obs_without (key : bytes) (l : list ps_obs) : list ps_obs :=
  filter (fun r => negb (ps_beq (pso_key r) key)) l.
Definition ps_dyn_without (name : bytes) (l : list ps_dyn) : list ps_dyn :=
  filter (fun r => negb (ps_beq name (psd_name r))) l.
Definition ps_cnt_without (name : bytes) (l : list (bytes * Z)) : list (bytes * Z) :=
  filter (fun e => negb (ps_beq name (fst e))) l.

Lemma ps_pure_obs_copy : forall la lt ho hn skip l fuel,
  0 < la -> 0 < lt -> Forall (ps_obs_wf la lt) l -> (length l < fuel)%nat ->
  ps_pure (ps_obs_copy la lt fuel ho hn skip) (ps_obs_file l) =
  (Some true, [], ps_obs_file (ps_obs_without skip l)).
Proof.
  intros la lt ho hn skip l. induction l as [|r l IH]; intros fuel Hla Hlt Hwf Hf.
  - destruct fuel; [lia|]. cbn [ps_obs_copy ps_obs_file].
    rewrite ps_pure_bind, ps_pure_obs_read_eof. reflexivity.
  - destruct fuel; [cbn in Hf; lia|]. inversion Hwf; subst.
    cbn [ps_obs_copy ps_obs_file ps_obs_without filter].
    rewrite ps_pure_bind, ps_pure_obs_read by assumption.
    assert (Hl : (length l < fuel)%nat) by (cbn in Hf; lia).
    destruct (ps_beq (pso_key r) skip); cbn [negb].
    + rewrite (IH fuel) by assumption. reflexivity.
    + rewrite ps_pure_bind, (ps_pure_obs_write la lt) by assumption.
      rewrite (IH fuel) by assumption. cbn [app ps_obs_file]. reflexivity.
Qed.

Lemma ps_pure_dyn_copy : forall ho hn name l fuel,
  Forall ps_dyn_wf l -> (length l < fuel)%nat ->
  ps_pure (ps_dyn_copy fuel ho hn name) (ps_dyn_file l) =
  (Some true, [], ps_dyn_file (ps_dyn_without name l)).
Proof.
  intros ho hn name l. induction l as [|r l IH]; intros fuel Hwf Hf.
  - destruct fuel; [lia|]. cbn [ps_dyn_copy ps_dyn_file].
    rewrite ps_pure_bind, ps_pure_dyn_read_eof. reflexivity.
  - destruct fuel; [cbn in Hf; lia|]. inversion Hwf; subst.
    cbn [ps_dyn_copy ps_dyn_file ps_dyn_without filter].
    rewrite ps_pure_bind, ps_pure_dyn_read by assumption.
    assert (Hl : (length l < fuel)%nat) by (cbn in Hf; lia).
    destruct (ps_beq name (psd_name r)); cbn [negb].
    + rewrite (IH fuel) by assumption. reflexivity.
    + rewrite ps_pure_bind, ps_pure_dyn_write by assumption.
      rewrite (IH fuel) by assumption. cbn [app ps_dyn_file]. reflexivity.
Qed.

Lemma ps_cnt_file_app : forall a b, ps_cnt_file (a ++ b) = ps_cnt_file a ++ ps_cnt_file b.
Proof.
  induction a as [|[n v] a IH]; intro b; [reflexivity|].
  cbn [app ps_cnt_file]. rewrite IH, app_assoc. reflexivity.
Qed.
Lemma ps_obs_file_app : forall a b, ps_obs_file (a ++ b) = ps_obs_file a ++ ps_obs_file b.
Proof.
  induction a as [|r a IH]; intro b; [reflexivity|].
  cbn [app ps_obs_file]. rewrite IH, app_assoc. reflexivity.
Qed.
Lemma ps_dyn_file_app : forall a b, ps_dyn_file (a ++ b) = ps_dyn_file a ++ ps_dyn_file b.
Proof.
  induction a as [|r a IH]; intro b; [reflexivity|].
  cbn [app ps_dyn_file]. rewrite IH, app_assoc. reflexivity.
Qed.

Lemma ps_pure_cnt_copy : forall ho hn name l fuel,
  Forall ps_cnt_wf l -> (length l < fuel)%nat ->
  ps_pure (ps_cnt_copy fuel ho hn name) (ps_cnt_file l) =
  (Some true, [], ps_cnt_file (ps_cnt_without name l)).
Proof.
  intros ho hn name l. induction l as [|[n v] l IH]; intros fuel Hwf Hf.
  - destruct fuel; [lia|]. reflexivity.
  - destruct fuel; [cbn in Hf; lia|]. inversion Hwf as [|? ? [Hn Hv] Hl]; subst.
    cbn [fst snd] in *.
    cbn [ps_cnt_copy ps_cnt_file ps_cnt_without filter fst ps_pure].
    change (Z.to_nat (PS_LINE - 1)) with (Z.to_nat (PS_LINE - 1)).
    rewrite ps_cnt_line_first by assumption.
    pose proof (ps_cnt_line_nonempty n v) as Hne.
    destruct (ps_cnt_line n v) as [|b0 tl0] eqn:El; [congruence|]. rewrite <- El.
    rewrite ps_cnt_parse_line by assumption.
    rewrite drop_app_exact.
    assert (Hl' : (length l < fuel)%nat) by (cbn in Hf; lia).
    destruct (ps_beq name n); cbn [negb].
    + apply IH; assumption.
    + cbn [ps_pure].
      assert (Hlen : (len (ps_cnt_line n v) <? 0) = false).
      { pose proof (len_nonneg (ps_cnt_line n v)). lia. }
      rewrite Hlen, (IH fuel) by assumption. cbn [ps_cnt_file]. reflexivity.
Qed.

(* ------------------------------------------------------------------ open / commit *)
Section Steps.
  Variable pol : Z -> Z -> Z.

  Lemma ps_open_r_some : forall s n F,
    ps_get n (ps_fs s) = Some F ->
    exists s', ps_step pol (PoOpen n PsR) s = (PrH (ps_next s), s') /\
      ps_txr s' (ps_next s) F 0 /\ ps_fs s' = ps_fs s /\ ps_next s' = ps_next s + 1 /\
      (forall g, g <> ps_next s -> ps_hget g (ps_hs s') = ps_hget g (ps_hs s)).
  Proof.
    intros s n F H. unfold ps_step. rewrite H. eexists. split; [reflexivity|].
    split; [|split; [reflexivity|split; [reflexivity|]]].
    - split; [|pose proof (len_nonneg F); lia]. exists n, []. cbn [ps_hs]. apply ps_hget_hput_same.
    - intros g Hg. cbn [ps_hs]. apply ps_hget_hput_other. exact Hg.
  Qed.

  Lemma ps_open_r_none : forall s n,
    ps_get n (ps_fs s) = None -> ps_step pol (PoOpen n PsR) s = (PrNull, s).
  Proof. intros s n H. unfold ps_step. rewrite H. reflexivity. Qed.

  Lemma ps_open_w : forall s i,
    exists s', ps_step pol (PoOpen (PsTmp i) PsWp) s = (PrH (ps_next s), s') /\
      ps_txw s' (ps_next s) (PsTmp i) [] (ps_view s) /\ ps_next s' = ps_next s + 1 /\
      (forall g, g <> ps_next s -> ps_hget g (ps_hs s') = ps_hget g (ps_hs s)) /\
      (forall n, n <> PsTmp i -> ps_get n (ps_fs s') = ps_get n (ps_fs s)).
  Proof.
    intros s i. unfold ps_step. eexists. split; [reflexivity|].
    split; [|split; [reflexivity|split]].
    - split; [|split; [reflexivity|]].
      + exists PsWp, [], 0, [], []. split; [reflexivity|]. split; [|split].
        * cbn [ps_hs]. apply ps_hget_hput_same.
        * cbn [ps_fs]. apply ps_get_put_same.
        * reflexivity.
      + intro j. unfold ps_view. cbn [ps_fs]. apply ps_get_put_other. discriminate.
    - intros g Hg. cbn [ps_hs]. apply ps_hget_hput_other. exact Hg.
    - intros n Hn. cbn [ps_fs]. apply ps_get_put_other. exact Hn.
  Qed.

  (* fflush, fclose(new), [fclose(orig)], rename: the persistent file becomes exactly what
     was written, the other two stay *)
  Lemma ps_commit_run : forall s hn f W V horig,
    ps_txw s hn (PsTmp f) W V ->
    match horig with
    | Some ho => ho <> hn /\ exists F pos, ps_txr s ho F pos
    | None => True
    end ->
    exists s', ps_run pol (ps_commit hn horig f) s = (1, s') /\
      ps_view s' f = Some W /\ (forall j, j <> f -> ps_view s' j = V j).
  Proof.
    intros s hn f W V horig [(md & dd & q & pend & disk & Hw & Hh & Hd & HW) [_ HV]] Hne.
    unfold ps_commit. cbn [ps_run]. unfold ps_step at 1.
    (* fflush *)
    assert (Ho1 : ps_out pol s hn [] true false =
                  Some (mkPsS (ps_append (PsTmp f) (pend ++ []) (ps_fs s))
                              (ps_hput hn (mkPsH (PsTmp f) md dd q [] true) (ps_hs s)) (ps_next s))).
    { unfold ps_out. rewrite Hh. cbn [psh_open psh_mode psh_pend psh_name psh_data psh_pos].
      rewrite Hw. reflexivity. }
    rewrite Ho1. set (s1 := mkPsS _ _ _).
    assert (Hd1 : ps_get (PsTmp f) (ps_fs s1) = Some W).
    { subst s1. cbn [ps_fs]. rewrite (ps_get_append_same _ _ _ _ Hd), app_nil_r, HW. reflexivity. }
    assert (Hh1 : ps_hget hn (ps_hs s1) = Some (mkPsH (PsTmp f) md dd q [] true)).
    { subst s1. cbn [ps_hs]. apply ps_hget_hput_same. }
    assert (HV1 : forall i, ps_view s1 i = V i).
    { intro i. rewrite <- HV. subst s1. unfold ps_view. cbn [ps_fs].
      apply ps_get_append_other. discriminate. }
    unfold ps_then. cbn [ps_run]. unfold ps_step at 1. rewrite Hh1.
    cbn [psh_open psh_mode]. rewrite Hw.
    (* fclose new *)
    assert (Ho2 : ps_out pol s1 hn [] true true =
                  Some (mkPsS (ps_append (PsTmp f) ([] ++ []) (ps_fs s1))
                              (ps_hput hn (mkPsH (PsTmp f) md dd q [] false) (ps_hs s1)) (ps_next s1))).
    { unfold ps_out. rewrite Hh1. cbn [psh_open psh_mode psh_pend psh_name psh_data psh_pos].
      rewrite Hw. reflexivity. }
    rewrite Ho2. set (s2 := mkPsS _ _ _).
    assert (Hd2 : ps_get (PsTmp f) (ps_fs s2) = Some W).
    { subst s2. cbn [ps_fs app]. rewrite (ps_get_append_same _ _ _ _ Hd1), app_nil_r. reflexivity. }
    assert (HV2 : forall i, ps_view s2 i = V i).
    { intro i. rewrite <- HV1. subst s2. unfold ps_view. cbn [ps_fs].
      apply ps_get_append_other. discriminate. }
    (* after fclose(orig): some state s3 with the same files *)
    assert (Hfin : forall s3, ps_fs s3 = ps_fs s2 ->
              exists s', ps_run pol (PsDo (PoRename (PsTmp f) (PsBase f)) (fun _ => PsRet 1)) s3 = (1, s') /\
                         ps_view s' f = Some W /\ (forall j, j <> f -> ps_view s' j = V j)).
    { intros s3 E. cbn [ps_run]. unfold ps_step. rewrite E, Hd2. eexists. split; [reflexivity|].
      split.
      - unfold ps_view. cbn [ps_fs]. apply ps_get_put_same.
      - intros j Hj. rewrite <- HV2. unfold ps_view. cbn [ps_fs].
        rewrite ps_get_put_other by congruence. apply ps_get_del_other. discriminate. }
    destruct horig as [ho|]; unfold ps_close_opt.
    - destruct Hne as [Hne (F & pos & [(n & pd & Hho) _])].
      cbn [ps_run].
      assert (Hho2 : ps_hget ho (ps_hs s2) = Some (mkPsH n PsR F pos pd true)).
      { subst s2 s1. cbn [ps_hs]. rewrite !ps_hget_hput_other by exact Hne. exact Hho. }
      unfold ps_then. cbn [ps_run]. unfold ps_step at 1. rewrite Hho2. cbn [psh_open psh_mode ps_writable].
      apply Hfin. reflexivity.
    - apply Hfin. reflexivity.
  Qed.
End Steps.

(* ------------------------------------------------------------------ the common shape *)
Ltac ps_wo_step :=
  cbv beta iota delta [negb ps_wr];
  lazymatch goal with
  | |- ps_wo _ (PsRet _) => apply PsWoRet
  | |- ps_wo _ (PsDo (PoWrite _ _) _) => apply PsWoWrite; intro
  | |- ps_wo _ (PsDo (PoPrintf _ _) _) => apply PsWoPrintf; intro
  | |- ps_wo _ (match ?x with _ => _ end) => destruct x
  | |- ps_wo _ (if ?x then _ else _) => destruct x
  | |- ps_wo _ ((if ?x then _ else _) _) => destruct x
  | |- ps_wo _ ((match ?x with _ => _ end) _) => destruct x
  end.

Lemma ps_obs_write_wo : forall hn r, ps_wo hn (ps_obs_write hn r).
Proof. intros. unfold ps_obs_write. repeat ps_wo_step. Qed.
Lemma ps_dyn_write_wo : forall hn r, ps_wo hn (ps_dyn_write hn r).
Proof. intros. unfold ps_dyn_write. repeat ps_wo_step. Qed.
Lemma ps_cnt_put_wo : forall name v hn, ps_wo hn (ps_cnt_put name v hn).
Proof. intros. unfold ps_cnt_put. repeat ps_wo_step. Qed.
Lemma ps_no_tail_wo : forall hn, ps_wo hn (ps_no_tail hn).
Proof. intros. constructor. Qed.

Section Txn.
  Variable pol : Z -> Z -> Z.

  (* the original exists and is open for reading: copy loop over its contents F, then the tail *)
  Lemma ps_txn_body_some : forall f loop tail s ho F out1 out2,
    ps_txr s ho F 0 -> ho < ps_next s ->
    (forall hn, ps_rw ho hn (loop ho hn)) ->
    (forall hn, ps_wo hn (tail hn)) ->
    (forall hn, exists rest, ps_pure (loop ho hn) F = (Some true, rest, out1)) ->
    (forall hn inp, ps_pure (tail hn) inp = (true, inp, out2)) ->
    exists s', ps_run pol (ps_txn_body f loop tail (Some ho)) s = (1, s') /\
      ps_view s' f = Some (out1 ++ out2) /\ (forall j, j <> f -> ps_view s' j = ps_view s j).
  Proof.
    intros f loop tail s ho F out1 out2 Hr Hlt Hlrw Htwo Hlp Htp.
    unfold ps_txn_body, ps_open. cbn [ps_run].
    destruct (ps_open_w pol s f) as (s2 & E2 & Hw2 & Hn2 & Hg2 & Hfs2).
    rewrite E2. set (hn := ps_next s) in *.
    assert (Hne : ho <> hn) by lia.
    assert (Hr2 : ps_txr s2 ho F 0) by (eapply ps_txr_frame; [exact Hr|apply Hg2; exact Hne]).
    rewrite ps_run_bind.
    destruct (ps_rw_run pol ho hn _ (loop ho hn) (Hlrw hn) s2 F 0 (PsTmp f) [] (ps_view s)
                        Hne Hr2 Hw2) as (s3 & pos3 & Hrun3 & Hr3 & _ & Hw3 & _).
    destruct (Hlp hn) as [rest Hpl]. rewrite ps_drop_0, Hpl in Hrun3, Hw3.
    cbn [fst snd app] in Hrun3, Hw3. rewrite Hrun3.
    rewrite ps_run_bind.
    destruct (ps_wo_run pol hn _ (tail hn) (Htwo hn) s3 (PsTmp f) out1 (ps_view s) [] Hw3)
      as (s4 & Hrun4 & Hw4 & _ & Hg4).
    rewrite Htp in Hrun4, Hw4. cbn [fst snd] in Hrun4, Hw4. rewrite Hrun4.
    assert (Hr4 : ps_txr s4 ho F pos3) by (eapply ps_txr_frame; [exact Hr3|apply Hg4; exact Hne]).
    destruct (ps_commit_run pol s4 hn f (out1 ++ out2) (ps_view s) (Some ho) Hw4)
      as (s5 & Hrun5 & Hv5 & Ho5).
    { split; [exact Hne|]. exists F, pos3. exact Hr4. }
    exists s5. split; [exact Hrun5|]. split; [exact Hv5|exact Ho5].
  Qed.

  (* no original: only the tail is written *)
  Lemma ps_txn_body_none : forall f loop tail s out2,
    (forall hn, ps_wo hn (tail hn)) ->
    (forall hn inp, ps_pure (tail hn) inp = (true, inp, out2)) ->
    exists s', ps_run pol (ps_txn_body f loop tail None) s = (1, s') /\
      ps_view s' f = Some out2 /\ (forall j, j <> f -> ps_view s' j = ps_view s j).
  Proof.
    intros f loop tail s out2 Htwo Htp.
    unfold ps_txn_body, ps_open. cbn [ps_run].
    destruct (ps_open_w pol s f) as (s2 & E2 & Hw2 & Hn2 & Hg2 & Hfs2).
    rewrite E2. set (hn := ps_next s) in *.
    rewrite ps_run_bind. cbn [ps_run]. rewrite ps_run_bind.
    destruct (ps_wo_run pol hn _ (tail hn) (Htwo hn) s2 (PsTmp f) [] (ps_view s) [] Hw2)
      as (s4 & Hrun4 & Hw4 & _ & Hg4).
    rewrite Htp in Hrun4, Hw4. cbn [fst snd app] in Hrun4, Hw4. rewrite Hrun4.
    destruct (ps_commit_run pol s4 hn f out2 (ps_view s) None Hw4 I) as (s5 & Hrun5 & Hv5 & Ho5).
    exists s5. split; [exact Hrun5|]. split; [exact Hv5|exact Ho5].
  Qed.

  Theorem ps_txn_run_some : forall f must ret loop tail s F out1 out2,
    ps_view s f = Some F ->
    (forall ho hn, ps_rw ho hn (loop ho hn)) ->
    (forall hn, ps_wo hn (tail hn)) ->
    (forall ho hn, exists rest, ps_pure (loop ho hn) F = (Some true, rest, out1)) ->
    (forall hn inp, ps_pure (tail hn) inp = (true, inp, out2)) ->
    exists s', ps_run pol (ps_txn f must ret loop tail) s = (1, s') /\
      ps_view s' f = Some (out1 ++ out2) /\ (forall j, j <> f -> ps_view s' j = ps_view s j).
  Proof.
    intros f must ret loop tail s F out1 out2 HF Hlrw Htwo Hlp Htp.
    unfold ps_txn, ps_open. cbn [ps_run].
    destruct (ps_open_r_some pol s (PsBase f) F HF) as (s1 & E1 & Hr1 & Hf1 & Hn1 & Hg1).
    rewrite E1.
    assert (HV1 : forall i, ps_view s1 i = ps_view s i) by (apply ps_view_files; exact Hf1).
    destruct (ps_txn_body_some f loop tail s1 (ps_next s) F out1 out2 Hr1) as (s5 & Hrun & Hv & Ho);
      try assumption; try (intro; apply Hlrw); try (intro; apply Hlp); [lia|].
    exists s5. split; [destruct must; exact Hrun|]. split; [exact Hv|].
    intros j Hj. rewrite Ho by exact Hj. apply HV1.
  Qed.

  Theorem ps_txn_run_none : forall f ret loop tail s out2,
    ps_view s f = None ->
    (forall hn, ps_wo hn (tail hn)) ->
    (forall hn inp, ps_pure (tail hn) inp = (true, inp, out2)) ->
    exists s', ps_run pol (ps_txn f false ret loop tail) s = (1, s') /\
      ps_view s' f = Some out2 /\ (forall j, j <> f -> ps_view s' j = ps_view s j).
  Proof.
    intros f ret loop tail s out2 HF Htwo Htp.
    unfold ps_txn, ps_open. cbn [ps_run].
    rewrite (ps_open_r_none pol s (PsBase f) HF).
    apply ps_txn_body_none; assumption.
  Qed.

  (* the file does not exist and the updater gives up: nothing happens *)
  Theorem ps_txn_run_missing : forall f ret loop tail s,
    ps_view s f = None ->
    ps_run pol (ps_txn f true ret loop tail) s = (ret, s).
  Proof.
    intros f ret loop tail s HF. unfold ps_txn, ps_open. cbn [ps_run].
    rewrite (ps_open_r_none pol s (PsBase f) HF). reflexivity.
  Qed.

  (* -------------------------------------------------------------- C17_update_correct *)
  (* the abstract content of a persistent file: the records, or nothing when it is absent *)
  Definition ps_holds {X} (file : list X -> bytes) (v : option bytes) (l : list X) : Prop :=
    v = Some (file l) \/ (v = None /\ l = []).

  Theorem ps_obs_added_correct : forall la lt fuel a l s,
    0 < la -> 0 < lt -> Forall (ps_obs_wf la lt) l -> ps_obs_wf la lt a -> (length l < fuel)%nat ->
    ps_holds ps_obs_file (ps_view s PS_OBS) l ->
    exists s', ps_run pol (ps_obs_added la lt fuel a) s = (1, s') /\
      ps_view s' PS_OBS = Some (ps_obs_file (ps_obs_without (pso_key a) l ++ [a])) /\
      (forall j, j <> PS_OBS -> ps_view s' j = ps_view s j).
  Proof.
    intros la lt fuel a l s Hla Hlt Hwf Ha Hf [Hv|[Hv Hl]]; unfold ps_obs_added.
    - destruct (ps_txn_run_some PS_OBS false 0
                  (fun ho hn => ps_obs_copy la lt fuel ho hn (pso_key a)) (fun hn => ps_obs_write hn a)
                  s (ps_obs_file l) (ps_obs_file (ps_obs_without (pso_key a) l)) (ps_obs_enc a) Hv)
        as (s' & Hr & Hv' & Ho).
      + intros. apply ps_obs_copy_rw.
      + intros. apply ps_obs_write_wo.
      + intros. eexists. apply ps_pure_obs_copy; assumption.
      + intros. apply (ps_pure_obs_write la lt); assumption.
      + exists s'. split; [exact Hr|]. split; [|exact Ho].
        rewrite Hv', ps_obs_file_app. cbn [ps_obs_file]. rewrite app_nil_r. reflexivity.
    - subst l.
      destruct (ps_txn_run_none PS_OBS 0
                  (fun ho hn => ps_obs_copy la lt fuel ho hn (pso_key a)) (fun hn => ps_obs_write hn a)
                  s (ps_obs_enc a) Hv) as (s' & Hr & Hv' & Ho).
      + intros. apply ps_obs_write_wo.
      + intros. apply (ps_pure_obs_write la lt); assumption.
      + exists s'. split; [exact Hr|]. split; [|exact Ho].
        rewrite Hv'. cbn [ps_obs_without filter app ps_obs_file]. rewrite app_nil_r. reflexivity.
  Qed.

  Theorem ps_obs_deleted_correct : forall la lt fuel key l s,
    0 < la -> 0 < lt -> Forall (ps_obs_wf la lt) l -> (length l < fuel)%nat ->
    ps_view s PS_OBS = Some (ps_obs_file l) ->
    exists s', ps_run pol (ps_obs_deleted la lt fuel key) s = (1, s') /\
      ps_view s' PS_OBS = Some (ps_obs_file (ps_obs_without key l)) /\
      (forall j, j <> PS_OBS -> ps_view s' j = ps_view s j).
  Proof.
    intros la lt fuel key l s Hla Hlt Hwf Hf Hv. unfold ps_obs_deleted.
    destruct (ps_txn_run_some PS_OBS true 0
                (fun ho hn => ps_obs_copy la lt fuel ho hn key) ps_no_tail
                s (ps_obs_file l) (ps_obs_file (ps_obs_without key l)) [] Hv)
      as (s' & Hr & Hv' & Ho).
    - intros. apply ps_obs_copy_rw.
    - intros. apply ps_no_tail_wo.
    - intros. eexists. apply ps_pure_obs_copy; assumption.
    - intros. reflexivity.
    - exists s'. split; [exact Hr|]. split; [|exact Ho]. rewrite Hv', app_nil_r. reflexivity.
  Qed.

  Theorem ps_obs_deleted_missing : forall la lt fuel key s,
    ps_view s PS_OBS = None -> ps_run pol (ps_obs_deleted la lt fuel key) s = (0, s).
  Proof. intros. apply ps_txn_run_missing. assumption. Qed.

  Theorem ps_dyn_added_correct : forall fuel a l s,
    Forall ps_dyn_wf l -> ps_dyn_wf a -> (length l < fuel)%nat ->
    ps_holds ps_dyn_file (ps_view s PS_DYN) l ->
    exists s', ps_run pol (ps_dyn_added fuel a) s = (1, s') /\
      ps_view s' PS_DYN = Some (ps_dyn_file (ps_dyn_without (psd_name a) l ++ [a])) /\
      (forall j, j <> PS_DYN -> ps_view s' j = ps_view s j).
  Proof.
    intros fuel a l s Hwf Ha Hf [Hv|[Hv Hl]]; unfold ps_dyn_added.
    - destruct (ps_txn_run_some PS_DYN false 0
                  (fun ho hn => ps_dyn_copy fuel ho hn (psd_name a)) (fun hn => ps_dyn_write hn a)
                  s (ps_dyn_file l) (ps_dyn_file (ps_dyn_without (psd_name a) l)) (ps_dyn_enc a) Hv)
        as (s' & Hr & Hv' & Ho).
      + intros. apply ps_dyn_copy_rw.
      + intros. apply ps_dyn_write_wo.
      + intros. eexists. apply ps_pure_dyn_copy; assumption.
      + intros. apply ps_pure_dyn_write; assumption.
      + exists s'. split; [exact Hr|]. split; [|exact Ho].
        rewrite Hv', ps_dyn_file_app. cbn [ps_dyn_file]. rewrite app_nil_r. reflexivity.
    - subst l.
      destruct (ps_txn_run_none PS_DYN 0
                  (fun ho hn => ps_dyn_copy fuel ho hn (psd_name a)) (fun hn => ps_dyn_write hn a)
                  s (ps_dyn_enc a) Hv) as (s' & Hr & Hv' & Ho).
      + intros. apply ps_dyn_write_wo.
      + intros. apply ps_pure_dyn_write; assumption.
      + exists s'. split; [exact Hr|]. split; [|exact Ho].
        rewrite Hv'. cbn [ps_dyn_without filter app ps_dyn_file]. rewrite app_nil_r. reflexivity.
  Qed.

  Theorem ps_dyn_deleted_correct : forall fuel name l s,
    Forall ps_dyn_wf l -> (length l < fuel)%nat ->
    ps_view s PS_DYN = Some (ps_dyn_file l) ->
    exists s', ps_run pol (ps_dyn_deleted fuel name) s = (1, s') /\
      ps_view s' PS_DYN = Some (ps_dyn_file (ps_dyn_without name l)) /\
      (forall j, j <> PS_DYN -> ps_view s' j = ps_view s j).
  Proof.
    intros fuel name l s Hwf Hf Hv. unfold ps_dyn_deleted.
    destruct (ps_txn_run_some PS_DYN true 1
                (fun ho hn => ps_dyn_copy fuel ho hn name) ps_no_tail
                s (ps_dyn_file l) (ps_dyn_file (ps_dyn_without name l)) [] Hv)
      as (s' & Hr & Hv' & Ho).
    - intros. apply ps_dyn_copy_rw.
    - intros. apply ps_no_tail_wo.
    - intros. eexists. apply ps_pure_dyn_copy; assumption.
    - intros. reflexivity.
    - exists s'. split; [exact Hr|]. split; [|exact Ho]. rewrite Hv', app_nil_r. reflexivity.
  Qed.

  Theorem ps_dyn_deleted_missing : forall fuel name s,
    ps_view s PS_DYN = None -> ps_run pol (ps_dyn_deleted fuel name) s = (1, s).
  Proof. intros. apply ps_txn_run_missing. assumption. Qed.

  Lemma ps_pure_cnt_put : forall name v hn inp,
    ps_pure (ps_cnt_put name v hn) inp = (true, inp, ps_cnt_line name v).
  Proof.
    intros. unfold ps_cnt_put. cbn [ps_pure].
    assert (H : (len (ps_cnt_line name v) <? 0) = false).
    { pose proof (len_nonneg (ps_cnt_line name v)). lia. }
    rewrite H. cbn [negb]. rewrite app_nil_r. reflexivity.
  Qed.

  Theorem ps_cnt_track_correct : forall fuel name v l s,
    Forall ps_cnt_wf l -> (length l < fuel)%nat ->
    ps_holds ps_cnt_file (ps_view s PS_CNT) l ->
    exists s', ps_run pol (ps_cnt_track fuel name v) s = (1, s') /\
      ps_view s' PS_CNT = Some (ps_cnt_file (ps_cnt_without name l) ++ ps_cnt_line name v) /\
      (forall j, j <> PS_CNT -> ps_view s' j = ps_view s j).
  Proof.
    intros fuel name v l s Hwf Hf [Hv|[Hv Hl]]; unfold ps_cnt_track.
    - destruct (ps_txn_run_some PS_CNT false 0
                  (fun ho hn => ps_cnt_copy fuel ho hn name) (ps_cnt_put name v)
                  s (ps_cnt_file l) (ps_cnt_file (ps_cnt_without name l)) (ps_cnt_line name v) Hv)
        as (s' & Hr & Hv' & Ho).
      + intros. apply ps_cnt_copy_rw.
      + intros. apply ps_cnt_put_wo.
      + intros. eexists. apply ps_pure_cnt_copy; assumption.
      + intros. apply ps_pure_cnt_put.
      + exists s'. split; [exact Hr|]. split; [exact Hv'|exact Ho].
    - subst l.
      destruct (ps_txn_run_none PS_CNT 0
                  (fun ho hn => ps_cnt_copy fuel ho hn name) (ps_cnt_put name v)
                  s (ps_cnt_line name v) Hv) as (s' & Hr & Hv' & Ho).
      + intros. apply ps_cnt_put_wo.
      + intros. apply ps_pure_cnt_put.
      + exists s'. split; [exact Hr|]. split; [exact Hv'|exact Ho].
  Qed.

  (* with a name the text format can carry the new line is the entry (name, v) *)
  Corollary ps_cnt_track_entry : forall name v l,
    ps_name_ok name -> 0 <= v < 4294967296 ->
    ps_cnt_file (ps_cnt_without name l) ++ ps_cnt_line name v =
    ps_cnt_file (ps_cnt_without name l ++ [(name, v)]).
  Proof.
    intros. rewrite ps_cnt_file_app. cbn [ps_cnt_file]. rewrite app_nil_r. reflexivity.
  Qed.

  Theorem ps_cnt_deleted_correct : forall fuel name l s,
    Forall ps_cnt_wf l -> (length l < fuel)%nat ->
    ps_view s PS_CNT = Some (ps_cnt_file l) ->
    exists s', ps_run pol (ps_cnt_deleted fuel name) s = (1, s') /\
      ps_view s' PS_CNT = Some (ps_cnt_file (ps_cnt_without name l)) /\
      (forall j, j <> PS_CNT -> ps_view s' j = ps_view s j).
  Proof.
    intros fuel name l s Hwf Hf Hv. unfold ps_cnt_deleted.
    destruct (ps_txn_run_some PS_CNT true 0
                (fun ho hn => ps_cnt_copy fuel ho hn name) ps_no_tail
                s (ps_cnt_file l) (ps_cnt_file (ps_cnt_without name l)) [] Hv)
      as (s' & Hr & Hv' & Ho).
    - intros. apply ps_cnt_copy_rw.
    - intros. apply ps_no_tail_wo.
    - intros. eexists. apply ps_pure_cnt_copy; assumption.
    - intros. reflexivity.
    - exists s'. split; [exact Hr|]. split; [|exact Ho]. rewrite Hv', app_nil_r. reflexivity.
  Qed.

  Theorem ps_cnt_deleted_missing : forall fuel name s,
    ps_view s PS_CNT = None -> ps_run pol (ps_cnt_deleted fuel name) s = (0, s).
  Proof. intros. apply ps_txn_run_missing. assumption. Qed.
End Txn.

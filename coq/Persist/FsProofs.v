(* C17 - facts about the stdio/file-system model: finite-map lemmas, what each call can do to
   the three persistent files, and the crash theorem for programs that follow the
   write-temporary-then-rename discipline. *)
From LibcoapV Require Import Base.Tactics Base.Bytes Persist.Fs.
Local Open Scope Z_scope.

(* ------------------------------------------------------------------ names and maps *)
Lemma ps_name_eqb_eq : forall a b, ps_name_eqb a b = true <-> a = b.
Proof.
  intros [i|i] [j|j]; unfold ps_name_eqb; split; intro H; try discriminate; try congruence.
  - apply Z.eqb_eq in H. congruence.
  - inversion H. apply Z.eqb_refl.
  - apply Z.eqb_eq in H. congruence.
  - inversion H. apply Z.eqb_refl.
Qed.

Lemma ps_name_eqb_refl : forall a, ps_name_eqb a a = true.
Proof. intros. apply ps_name_eqb_eq. reflexivity. Qed.

Lemma ps_name_eqb_neq : forall a b, a <> b -> ps_name_eqb a b = false.
Proof.
  intros a b H. destruct (ps_name_eqb a b) eqn:E; [|reflexivity].
  apply ps_name_eqb_eq in E. contradiction.
Qed.

Lemma ps_name_eqb_sym : forall a b, ps_name_eqb a b = ps_name_eqb b a.
Proof.
  intros. destruct (ps_name_eqb a b) eqn:E.
  - apply ps_name_eqb_eq in E. subst. symmetry. apply ps_name_eqb_refl.
  - destruct (ps_name_eqb b a) eqn:E2; [|reflexivity].
    apply ps_name_eqb_eq in E2. subst. rewrite ps_name_eqb_refl in E. discriminate.
Qed.

Lemma ps_get_del_same : forall n fs, ps_get n (ps_del n fs) = None.
Proof.
  induction fs as [|[m b] tl IH]; [reflexivity|].
  cbn [ps_del]. destruct (ps_name_eqb n m) eqn:E; [exact IH|].
  cbn [ps_get]. rewrite E. exact IH.
Qed.

Lemma ps_get_del_other : forall n m fs, n <> m -> ps_get n (ps_del m fs) = ps_get n fs.
Proof.
  induction fs as [|[x b] tl IH]; intro H; [reflexivity|].
  cbn [ps_del ps_get]. destruct (ps_name_eqb m x) eqn:E.
  - apply ps_name_eqb_eq in E. subst x. rewrite (ps_name_eqb_neq n m H). apply IH. exact H.
  - cbn [ps_get]. destruct (ps_name_eqb n x); [reflexivity|]. apply IH. exact H.
Qed.

Lemma ps_get_put_same : forall n b fs, ps_get n (ps_put n b fs) = Some b.
Proof. intros. unfold ps_put. cbn [ps_get]. rewrite ps_name_eqb_refl. reflexivity. Qed.

Lemma ps_get_put_other : forall n m b fs, n <> m -> ps_get n (ps_put m b fs) = ps_get n fs.
Proof.
  intros. unfold ps_put. cbn [ps_get]. rewrite (ps_name_eqb_neq n m H).
  apply ps_get_del_other. exact H.
Qed.

Lemma ps_get_append_other : forall n m d fs, n <> m -> ps_get n (ps_append m d fs) = ps_get n fs.
Proof.
  intros. unfold ps_append. destruct (ps_get m fs); [|reflexivity].
  apply ps_get_put_other. exact H.
Qed.

Lemma ps_get_append_same : forall n d fs b,
  ps_get n fs = Some b -> ps_get n (ps_append n d fs) = Some (b ++ d).
Proof. intros. unfold ps_append. rewrite H. apply ps_get_put_same. Qed.

Lemma ps_hget_hput_same : forall h x hs, ps_hget h (ps_hput h x hs) = Some x.
Proof. intros. unfold ps_hput. cbn [ps_hget]. rewrite Z.eqb_refl. reflexivity. Qed.

Lemma ps_hget_hput_other : forall h g x hs, h <> g -> ps_hget h (ps_hput g x hs) = ps_hget h hs.
Proof.
  intros. unfold ps_hput. cbn [ps_hget].
  destruct (h =? g) eqn:E; [apply Z.eqb_eq in E; contradiction|reflexivity].
Qed.

Lemma ps_hget_hput : forall h g x hs,
  ps_hget h (ps_hput g x hs) = if h =? g then Some x else ps_hget h hs.
Proof. intros. unfold ps_hput. reflexivity. Qed.

Lemma ps_base_ne_tmp : forall i n, ps_is_tmp n = true -> PsBase i <> n.
Proof. intros i [j|j] H; [discriminate|congruence]. Qed.

(* ------------------------------------------------------------------ the discipline *)

(* calls that cannot change a persistent file as long as every open write stream is on a
   temporary file *)
Definition ps_quiet_op (op : ps_op) : bool :=
  match op with
  | PoOpen n PsR => true
  | PoOpen n _ => ps_is_tmp n
  | PoRename _ _ => false
  | PoRemove n => ps_is_tmp n
  | _ => true
  end.

(* the commit: rename("<file>.tmp", "<file>") *)
Definition ps_commit_op (op : ps_op) : bool :=
  match op with
  | PoRename (PsTmp i) (PsBase j) => i =? j
  | _ => false
  end.

Definition ps_tmpw (s : ps_sys) : Prop :=
  forall h x, ps_hget h (ps_hs s) = Some x -> psh_open x = true ->
              ps_writable (psh_mode x) = true -> ps_is_tmp (psh_name x) = true.

Lemma ps_tmpw_boot : forall fs, ps_tmpw (ps_boot fs).
Proof. intros fs h x H. discriminate. Qed.

Lemma ps_tmpw_crash : forall s, ps_tmpw (ps_crash s).
Proof. intros s h x H. discriminate. Qed.

Lemma ps_view_files : forall s s' , ps_fs s' = ps_fs s -> forall i, ps_view s' i = ps_view s i.
Proof. intros. unfold ps_view. rewrite H. reflexivity. Qed.

(* ps_out: the file written is the one the handle names *)
Lemma ps_out_spec : forall pol s h d fl cl s',
  ps_out pol s h d fl cl = Some s' ->
  exists x now later,
    ps_hget h (ps_hs s) = Some x /\ psh_open x = true /\ ps_writable (psh_mode x) = true /\
    now ++ later = psh_pend x ++ d /\ (fl = true -> later = []) /\
    ps_fs s' = ps_append (psh_name x) now (ps_fs s) /\
    ps_hs s' = ps_hput h (mkPsH (psh_name x) (psh_mode x) (psh_data x) (psh_pos x) later (negb cl)) (ps_hs s) /\
    ps_next s' = ps_next s.
Proof.
  intros pol s h d fl cl s' H. unfold ps_out in H.
  destruct (ps_hget h (ps_hs s)) as [x|] eqn:Hx; [|discriminate].
  destruct (psh_open x && ps_writable (psh_mode x)) eqn:Ho; [|discriminate].
  apply andb_true_iff in Ho. destruct Ho as [Ho Hw].
  destruct fl.
  - inversion H; subst; clear H. exists x, (psh_pend x ++ d), [].
    repeat split; try assumption; try reflexivity. apply app_nil_r.
  - unfold ps_push in H.
    set (all := psh_pend x ++ d) in *.
    set (n := ps_clip 0 (len all) (pol (len (psh_pend x)) (len d))) in *.
    inversion H; subst; clear H. exists x, (take n all), (drop n all).
    repeat split; try assumption; try reflexivity.
    + unfold take, drop. apply firstn_skipn.
    + intro; discriminate.
Qed.

Lemma ps_tmpw_hput : forall s' s h y,
  ps_tmpw s -> ps_hs s' = ps_hput h y (ps_hs s) ->
  (psh_open y = true -> ps_writable (psh_mode y) = true -> ps_is_tmp (psh_name y) = true) ->
  ps_tmpw s'.
Proof.
  intros s' s h y Hs Hh Hy g x Hg Ho Hw. rewrite Hh in Hg. rewrite ps_hget_hput in Hg.
  destruct (g =? h).
  - inversion Hg; subst. apply Hy; assumption.
  - eapply Hs; eassumption.
Qed.

(* a quiet call keeps the discipline and the persistent view *)
Lemma ps_quiet_step : forall pol op s,
  ps_tmpw s -> ps_quiet_op op = true ->
  ps_tmpw (snd (ps_step pol op s)) /\ forall i, ps_view (snd (ps_step pol op s)) i = ps_view s i.
Proof.
  intros pol op s Hs Hq. destruct op; cbn [ps_quiet_op] in Hq.
  - (* open *)
    destruct m; unfold ps_step.
    + destruct (ps_get n (ps_fs s)) eqn:E; cbn [snd].
      * split; [|intro; reflexivity].
        eapply ps_tmpw_hput; [exact Hs|reflexivity|]. cbn. intros; discriminate.
      * split; [exact Hs|intro; reflexivity].
    + cbn [snd]. split.
      * eapply ps_tmpw_hput; [exact Hs|reflexivity|]. cbn. intros; exact Hq.
      * intro i. unfold ps_view. cbn [ps_fs]. apply ps_get_put_other.
        apply ps_base_ne_tmp. exact Hq.
    + cbn [snd]. split.
      * eapply ps_tmpw_hput; [exact Hs|reflexivity|]. cbn. intros; exact Hq.
      * intro i. unfold ps_view. cbn [ps_fs].
        destruct (ps_get n (ps_fs s)); [reflexivity|].
        apply ps_get_put_other. apply ps_base_ne_tmp. exact Hq.
  - (* read *)
    unfold ps_step. destruct (ps_hget h (ps_hs s)) as [x|] eqn:Hx; [|split; [exact Hs|reflexivity]].
    destruct (psh_open x && negb (ps_writable (psh_mode x))) eqn:Ho; [|split; [exact Hs|reflexivity]].
    apply andb_true_iff in Ho. destruct Ho as [_ Hw]. apply negb_true_iff in Hw.
    destruct ((0 <? sz) && (psh_pos x + sz <=? len (psh_data x))); cbn [snd].
    + split; [|intro; reflexivity].
      eapply ps_tmpw_hput; [exact Hs|reflexivity|]. cbn. intros _ H. congruence.
    + destruct (0 <? sz); cbn [snd]; [|split; [exact Hs|reflexivity]].
      split; [|intro; reflexivity].
      eapply ps_tmpw_hput; [exact Hs|reflexivity|]. cbn. intros _ H. congruence.
  - (* gets *)
    unfold ps_step. destruct (ps_hget h (ps_hs s)) as [x|] eqn:Hx; [|split; [exact Hs|reflexivity]].
    destruct (psh_open x && negb (ps_writable (psh_mode x))) eqn:Ho; [|split; [exact Hs|reflexivity]].
    apply andb_true_iff in Ho. destruct Ho as [_ Hw]. apply negb_true_iff in Hw.
    destruct (ps_line (Z.to_nat (cap - 1)) (drop (psh_pos x) (psh_data x))); cbn [snd];
      [split; [exact Hs|reflexivity]|].
    split; [|intro; reflexivity].
    eapply ps_tmpw_hput; [exact Hs|reflexivity|]. cbn. intros _ H. congruence.
  - (* write *)
    unfold ps_step. destruct d as [|b d]; [split; [exact Hs|reflexivity]|].
    destruct (ps_out pol s h (b :: d) false false) as [s'|] eqn:E; cbn [snd];
      [|split; [exact Hs|reflexivity]].
    apply ps_out_spec in E. destruct E as (x & now & later & Hx & Ho & Hw & _ & _ & Hf & Hh & _).
    split.
    + eapply ps_tmpw_hput; [exact Hs|exact Hh|]. cbn. intros _ _. eapply Hs; eassumption.
    + intro i. unfold ps_view. rewrite Hf. apply ps_get_append_other.
      apply ps_base_ne_tmp. eapply Hs; eassumption.
  - (* printf *)
    unfold ps_step.
    destruct (ps_out pol s h d false false) as [s'|] eqn:E; cbn [snd];
      [|split; [exact Hs|reflexivity]].
    apply ps_out_spec in E. destruct E as (x & now & later & Hx & Ho & Hw & _ & _ & Hf & Hh & _).
    split.
    + eapply ps_tmpw_hput; [exact Hs|exact Hh|]. cbn. intros _ _. eapply Hs; eassumption.
    + intro i. unfold ps_view. rewrite Hf. apply ps_get_append_other.
      apply ps_base_ne_tmp. eapply Hs; eassumption.
  - (* flush *)
    unfold ps_step.
    destruct (ps_out pol s h [] true false) as [s'|] eqn:E; cbn [snd];
      [|split; [exact Hs|reflexivity]].
    apply ps_out_spec in E. destruct E as (x & now & later & Hx & Ho & Hw & _ & _ & Hf & Hh & _).
    split.
    + eapply ps_tmpw_hput; [exact Hs|exact Hh|]. cbn. intros _ _. eapply Hs; eassumption.
    + intro i. unfold ps_view. rewrite Hf. apply ps_get_append_other.
      apply ps_base_ne_tmp. eapply Hs; eassumption.
  - (* close *)
    unfold ps_step. destruct (ps_hget h (ps_hs s)) as [x|] eqn:Hx; [|split; [exact Hs|reflexivity]].
    destruct (psh_open x) eqn:Ho; [|split; [exact Hs|reflexivity]].
    destruct (ps_writable (psh_mode x)) eqn:Hw.
    + destruct (ps_out pol s h [] true true) as [s'|] eqn:E; cbn [snd];
        [|split; [exact Hs|reflexivity]].
      apply ps_out_spec in E.
      destruct E as (x' & now & later & Hx' & Ho' & Hw' & _ & _ & Hf & Hh & _).
      split.
      * eapply ps_tmpw_hput; [exact Hs|exact Hh|]. cbn. intros; discriminate.
      * intro i. unfold ps_view. rewrite Hf. apply ps_get_append_other.
        apply ps_base_ne_tmp. eapply Hs; eassumption.
    + cbn [snd]. split; [|intro; reflexivity].
      eapply ps_tmpw_hput; [exact Hs|reflexivity|]. cbn. intros; discriminate.
  - discriminate.
  - (* remove *)
    unfold ps_step. destruct (ps_get n (ps_fs s)); cbn [snd]; [|split; [exact Hs|reflexivity]].
    split; [exact Hs|].
    intro i. unfold ps_view. cbn [ps_fs]. apply ps_get_del_other.
    apply ps_base_ne_tmp. exact Hq.
Qed.

(* the commit replaces exactly one persistent file, by the whole temporary file *)
Lemma ps_commit_step : forall pol i s,
  ps_tmpw s ->
  let s' := snd (ps_step pol (PoRename (PsTmp i) (PsBase i)) s) in
  ps_tmpw s' /\
  match ps_get (PsTmp i) (ps_fs s) with
  | Some c => ps_view s' i = Some c /\ forall j, j <> i -> ps_view s' j = ps_view s j
  | None => forall j, ps_view s' j = ps_view s j
  end.
Proof.
  intros pol i s Hs. unfold ps_step.
  destruct (ps_get (PsTmp i) (ps_fs s)) as [c|] eqn:E; cbn [snd].
  - split; [exact Hs|]. split.
    + unfold ps_view. cbn [ps_fs]. apply ps_get_put_same.
    + intros j Hj. unfold ps_view. cbn [ps_fs].
      rewrite ps_get_put_other by congruence. apply ps_get_del_other. discriminate.
  - split; [exact Hs|reflexivity].
Qed.

(* programs that only make quiet calls and commits *)
Inductive ps_disc {A : Type} : ps_prog A -> Prop :=
| PsDiscRet : forall a, ps_disc (PsRet a)
| PsDiscDo : forall op k,
    ps_quiet_op op = true \/ ps_commit_op op = true ->
    (forall r, ps_disc (k r)) -> ps_disc (PsDo op k).

(* ... with at most one commit, after which only quiet calls follow *)
Inductive ps_disc0 {A : Type} : ps_prog A -> Prop :=
| PsDisc0Ret : forall a, ps_disc0 (PsRet a)
| PsDisc0Do : forall op k,
    ps_quiet_op op = true -> (forall r, ps_disc0 (k r)) -> ps_disc0 (PsDo op k).

Inductive ps_disc1 {A : Type} : ps_prog A -> Prop :=
| PsDisc1Ret : forall a, ps_disc1 (PsRet a)
| PsDisc1Quiet : forall op k,
    ps_quiet_op op = true -> (forall r, ps_disc1 (k r)) -> ps_disc1 (PsDo op k)
| PsDisc1Commit : forall op k,
    ps_commit_op op = true -> (forall r, ps_disc0 (k r)) -> ps_disc1 (PsDo op k).

Lemma ps_disc0_disc1 : forall A (p : ps_prog A), ps_disc0 p -> ps_disc1 p.
Proof. induction 1; [constructor|apply PsDisc1Quiet; assumption]. Qed.

Lemma ps_disc1_disc : forall A (p : ps_prog A), ps_disc1 p -> ps_disc p.
Proof.
  induction 1.
  - constructor.
  - constructor; [left; assumption|assumption].
  - constructor; [right; assumption|].
    intro r. specialize (H0 r). clear -H0. induction H0; constructor; auto.
Qed.

Lemma ps_disc_bind : forall A B (p : ps_prog A) (f : A -> ps_prog B),
  ps_disc p -> (forall a, ps_disc (f a)) -> ps_disc (ps_bind p f).
Proof.
  intros A B p f Hp Hf. induction Hp; cbn [ps_bind]; [apply Hf|].
  constructor; [assumption|]. intro r. apply H1.
Qed.

Lemma ps_disc0_bind : forall A B (p : ps_prog A) (f : A -> ps_prog B),
  ps_disc0 p -> (forall a, ps_disc0 (f a)) -> ps_disc0 (ps_bind p f).
Proof.
  intros A B p f Hp Hf. induction Hp; cbn [ps_bind]; [apply Hf|].
  constructor; [assumption|]. intro r. apply H1.
Qed.

(* a commit-free prefix followed by anything with at most one commit *)
Lemma ps_disc1_bind0 : forall A B (p : ps_prog A) (f : A -> ps_prog B),
  ps_disc0 p -> (forall a, ps_disc1 (f a)) -> ps_disc1 (ps_bind p f).
Proof.
  intros A B p f Hp Hf. induction Hp; cbn [ps_bind]; [apply Hf|].
  apply PsDisc1Quiet; [assumption|]. intro r. apply H1.
Qed.

Lemma ps_commit_op_shape : forall op, ps_commit_op op = true ->
  exists i, op = PoRename (PsTmp i) (PsBase i).
Proof.
  intros op H. destruct op; try discriminate. destruct a; try discriminate.
  destruct b; try discriminate. cbn in H. apply Z.eqb_eq in H. subst. eexists; reflexivity.
Qed.

Lemma ps_disc_step : forall pol op s,
  ps_tmpw s -> ps_quiet_op op = true \/ ps_commit_op op = true ->
  ps_tmpw (snd (ps_step pol op s)).
Proof.
  intros pol op s Hs [H|H].
  - apply ps_quiet_step; assumption.
  - apply ps_commit_op_shape in H. destruct H as [i ->].
    apply (ps_commit_step pol i s Hs).
Qed.

(* quiet programs never change the persistent view, however far they get *)
Lemma ps_disc0_view : forall pol A (p : ps_prog A), ps_disc0 p ->
  forall k s, ps_tmpw s -> forall i, ps_view (ps_runk pol p k s) i = ps_view s i.
Proof.
  intros pol A p Hp. induction Hp; intros n s Hs i.
  - destruct n; reflexivity.
  - destruct n; [reflexivity|]. cbn [ps_runk].
    destruct (ps_step pol op s) as [r s'] eqn:E.
    pose proof (ps_quiet_step pol op s Hs H) as [Ht Hv]. rewrite E in Ht, Hv. cbn [snd] in *.
    rewrite H1 by exact Ht. apply Hv.
Qed.

Lemma ps_runk_all : forall pol A (p : ps_prog A) s,
  exists n, forall k, (n <= k)%nat -> ps_runk pol p k s = snd (ps_run pol p s).
Proof.
  intros pol A p. induction p as [a|op k IH]; intro s.
  - exists O. intros n _. destruct n; reflexivity.
  - cbn [ps_run]. destruct (ps_step pol op s) as [r s'] eqn:E.
    destruct (IH r s') as [n Hn]. exists (S n). intros m Hm.
    destruct m; [lia|]. cbn [ps_runk]. rewrite E. apply Hn. lia.
Qed.

(* C17_atomic, general form for one updater: at any kill point the three persistent files
   are what they were before the updater started, or what they are when it has finished *)
Theorem ps_atomic1 : forall pol A (p : ps_prog A), ps_disc1 p ->
  forall s, ps_tmpw s -> forall k,
    (forall i, ps_view (ps_runk pol p k s) i = ps_view s i) \/
    (forall i, ps_view (ps_runk pol p k s) i = ps_view (snd (ps_run pol p s)) i).
Proof.
  intros pol A p Hp. induction Hp; intros s Hs n.
  - left. destruct n; reflexivity.
  - destruct n; [left; reflexivity|]. cbn [ps_runk ps_run].
    destruct (ps_step pol op s) as [r s'] eqn:E.
    pose proof (ps_quiet_step pol op s Hs H) as [Ht Hv]. rewrite E in Ht, Hv. cbn [snd] in *.
    destruct (H1 r s' Ht n) as [Hl|Hr].
    + left. intro i. rewrite Hl. apply Hv.
    + right. exact Hr.
  - destruct n; [left; reflexivity|]. cbn [ps_runk ps_run].
    destruct (ps_step pol op s) as [r s'] eqn:E.
    assert (Ht : ps_tmpw s').
    { pose proof (ps_disc_step pol op s Hs (or_intror H)) as X. rewrite E in X. exact X. }
    right. intro i.
    rewrite (ps_disc0_view pol A (k r) (H0 r) n s' Ht i).
    destruct (ps_runk_all pol A (k r) s') as [m Hm].
    rewrite <- (Hm m (le_n m)).
    symmetry. apply ps_disc0_view; [apply H0|exact Ht].
Qed.

(* general form for any disciplined program (whole histories): the persistent view at a kill
   point is the view right after one of the commits made so far, or the initial one *)
Fixpoint ps_commit_views (pol : Z -> Z -> Z) {A} (p : ps_prog A) (k : nat) (s : ps_sys)
  : list (Z -> option bytes) :=
  match k, p with
  | O, _ => []
  | _, PsRet _ => []
  | S k', PsDo op c =>
      let '(r, s') := ps_step pol op s in
      (if ps_commit_op op then [ps_view s'] else []) ++ ps_commit_views pol (c r) k' s'
  end.

Lemma ps_last_cons : forall (X : Type) (l : list X) (a d : X), last (a :: l) d = last l a.
Proof.
  induction l as [|b l IH]; intros a d; [reflexivity|].
  change (last (a :: b :: l) d) with (last (b :: l) d). rewrite (IH b d), (IH b a). reflexivity.
Qed.

Theorem ps_crash_view : forall pol A (p : ps_prog A), ps_disc p ->
  forall k s, ps_tmpw s ->
    forall i, ps_view (ps_runk pol p k s) i = last (ps_commit_views pol p k s) (ps_view s) i.
Proof.
  intros pol A p Hp. induction Hp; intros n s Hs i.
  - destruct n; reflexivity.
  - destruct n; [reflexivity|]. cbn [ps_runk ps_commit_views].
    destruct (ps_step pol op s) as [r s'] eqn:E.
    assert (Ht : ps_tmpw s').
    { pose proof (ps_disc_step pol op s Hs H) as X. rewrite E in X. exact X. }
    rewrite (H1 r n s' Ht i).
    destruct (ps_commit_op op) eqn:Ec.
    + cbn [app]. rewrite ps_last_cons. reflexivity.
    + cbn [app].
      destruct H as [H|H]; [|congruence].
      pose proof (ps_quiet_step pol op s Hs H) as [_ Hv]. rewrite E in Hv. cbn [snd] in Hv.
      destruct (ps_commit_views pol (k r) n s') eqn:El; [cbn [last]; apply Hv|].
      rewrite !ps_last_cons. reflexivity.
Qed.

(* C17 - the loaders (coap_op_obs_cnt_load_disk, coap_op_dyn_resource_load_disk,
   coap_op_observe_load_disk) on well-formed files: what they hand to the server and what they
   leave in the files. *)
From LibcoapV Require Import Base.Tactics Base.Bytes Base.BytesProofs Persist.Fs Persist.FsProofs
  Persist.Records Persist.RecordsProofs Persist.Updaters Persist.Streams Persist.UpdatersProofs
  Persist.Footprint.
Local Open Scope Z_scope.

(* ------------------------------------------------------------------ footprint of an updater *)
Lemma ps_rw_own : forall N ho hn A (p : ps_prog A) (H : Z -> Prop),
  ps_rw ho hn p -> H ho -> H hn -> ps_own N H p.
Proof.
  intros N ho hn A p H Hp Ho Hn. induction Hp.
  - constructor.
  - eapply PsOwnUse; [reflexivity|exact Ho|assumption].
  - eapply PsOwnUse; [reflexivity|exact Ho|assumption].
  - eapply PsOwnUse; [reflexivity|exact Hn|assumption].
  - eapply PsOwnUse; [reflexivity|exact Hn|assumption].
Qed.

Lemma ps_wo_own : forall N hn A (p : ps_prog A) (H : Z -> Prop),
  ps_wo hn p -> H hn -> ps_own N H p.
Proof.
  intros N hn A p H Hp Hn. induction Hp.
  - constructor.
  - eapply PsOwnUse; [reflexivity|exact Hn|assumption].
  - eapply PsOwnUse; [reflexivity|exact Hn|assumption].
Qed.

Definition ps_names_of (f : Z) (n : ps_name) : Prop := n = PsBase f \/ n = PsTmp f.

Lemma ps_close_opt_own : forall f A (H : Z -> Prop) (h : option Z) (k : ps_prog A),
  (forall x, h = Some x -> H x) -> ps_own (ps_names_of f) H k ->
  ps_own (ps_names_of f) H (ps_close_opt h k).
Proof.
  intros f A H [x|] k Hh Hk; unfold ps_close_opt, ps_then; [|exact Hk].
  eapply PsOwnUse; [reflexivity|apply Hh; reflexivity|]. intro; exact Hk.
Qed.

Lemma ps_fail_exit_own : forall f (H : Z -> Prop) hn ho,
  (forall x, hn = Some x -> H x) -> (forall x, ho = Some x -> H x) ->
  ps_own (ps_names_of f) H (ps_fail_exit hn ho (PsTmp f)).
Proof.
  intros. unfold ps_fail_exit. apply ps_close_opt_own; [assumption|].
  apply ps_close_opt_own; [assumption|]. unfold ps_then.
  apply PsOwnRemove; [right; reflexivity|]. intro; constructor.
Qed.

Lemma ps_commit_own : forall f (H : Z -> Prop) hn ho,
  H hn -> (forall x, ho = Some x -> H x) -> ps_own (ps_names_of f) H (ps_commit hn ho f).
Proof.
  intros f H hn ho Hn Ho. unfold ps_commit.
  eapply PsOwnUse; [reflexivity|exact Hn|]. intro r.
  assert (F : ps_own (ps_names_of f) H (ps_fail_exit (Some hn) ho (PsTmp f))).
  { apply ps_fail_exit_own; [intros x E; inversion E; subst; exact Hn|exact Ho]. }
  assert (C : ps_own (ps_names_of f) H (ps_then (PoClose hn) (ps_close_opt ho
                (ps_then (PoRename (PsTmp f) (PsBase f)) (PsRet 1))))).
  { unfold ps_then. eapply PsOwnUse; [reflexivity|exact Hn|]. intros _.
    apply ps_close_opt_own; [exact Ho|].
    apply PsOwnRename; [right; reflexivity|left; reflexivity|]. intro; constructor. }
  destruct r as [h| |ok d|n]; try exact F. destruct n; try exact F. exact C.
Qed.

Lemma ps_txn_own : forall f must ret loop tail,
  (forall ho hn, ps_rw ho hn (loop ho hn)) -> (forall hn, ps_wo hn (tail hn)) ->
  ps_own (ps_names_of f) (fun _ => False) (ps_txn f must ret loop tail).
Proof.
  intros f must ret loop tail Hl Ht. unfold ps_txn, ps_open.
  apply PsOwnOpen; [left; reflexivity|]. intro r.
  set (H1 := fun g : Z => False \/ r = PrH g).
  assert (Body : forall horig, (forall x, horig = Some x -> H1 x) ->
            ps_own (ps_names_of f) H1 (ps_txn_body f loop tail horig)).
  { intros horig Hor. unfold ps_txn_body, ps_open.
    apply PsOwnOpen; [right; reflexivity|]. intro r2.
    set (H2 := fun g : Z => H1 g \/ r2 = PrH g).
    assert (Hor2 : forall x, horig = Some x -> H2 x) by (intros x E; left; apply Hor; exact E).
    destruct r2 as [hn| | |]; try (apply ps_fail_exit_own; [intros x E; discriminate|exact Hor2]).
    assert (Hhn : H2 hn) by (right; reflexivity).
    apply ps_own_bind.
    - destruct horig as [ho|]; [|constructor].
      eapply ps_rw_own; [apply Hl|apply Hor2; reflexivity|exact Hhn].
    - intros c H' Hsub.
      assert (F : ps_own (ps_names_of f) H' (ps_fail_exit (Some hn) horig (PsTmp f))).
      { apply ps_fail_exit_own; [intros x E; inversion E; subst; apply Hsub; exact Hhn|].
        intros x E. apply Hsub. apply Hor2. exact E. }
      destruct c as [[|]|]; [|exact F|constructor].
      apply ps_own_bind; [eapply ps_wo_own; [apply Ht|apply Hsub; exact Hhn]|].
      intros ok H'' Hsub2. destruct ok.
      + apply ps_commit_own; [apply Hsub2; apply Hsub; exact Hhn|].
        intros x E. apply Hsub2. apply Hsub. apply Hor2. exact E.
      + eapply ps_own_weaken; [exact F|exact Hsub2]. }
  destruct r as [ho| | |]; destruct must; cbv beta iota; first [apply PsOwnRet|apply Body];
    intros x E; first [discriminate|inversion E; subst; right; reflexivity].
Qed.

(* a counter update in the middle of something else: the view changes at the counter file
   only, every stream that was open and every other file (temporaries included) is untouched *)
Theorem ps_cnt_track_frame : forall pol fuel name v l s,
  ps_wfh s -> Forall ps_cnt_wf l -> (length l < fuel)%nat ->
  ps_holds ps_cnt_file (ps_view s PS_CNT) l ->
  exists s', ps_run pol (ps_cnt_track fuel name v) s = (1, s') /\
    ps_view s' PS_CNT = Some (ps_cnt_file (ps_cnt_without name l) ++ ps_cnt_line name v) /\
    ps_wfh s' /\ ps_next s <= ps_next s' /\
    (forall g, g < ps_next s -> ps_hget g (ps_hs s') = ps_hget g (ps_hs s)) /\
    (forall n, n <> PsBase PS_CNT -> n <> PsTmp PS_CNT -> ps_get n (ps_fs s') = ps_get n (ps_fs s)).
Proof.
  intros pol fuel name v l s Hwf Hl Hf Hh.
  destruct (ps_cnt_track_correct pol fuel name v l s Hl Hf Hh) as (s' & Hr & Hv & _).
  exists s'. split; [exact Hr|]. split; [exact Hv|].
  pose proof (ps_footprint pol (ps_names_of PS_CNT) Z (fun _ => False) (ps_cnt_track fuel name v)) as FP.
  specialize (FP (ps_txn_own _ _ _ _ _ (fun ho hn => ps_cnt_copy_rw fuel ho hn name)
                             (ps_cnt_put_wo name v)) s (ps_next s) Hwf).
  rewrite Hr in FP. cbn [snd] in FP.
  destruct FP as (A1 & A2 & A3); [intros h x []|lia|].
  split; [pose proof (ps_wfh_run pol Z (ps_cnt_track fuel name v) s Hwf) as X; rewrite Hr in X; exact X|].
  split; [exact A1|]. split.
  - intros g Hg. apply A2; [exact Hg|tauto].
  - intros n H1 H2. apply A3. intros [E|E]; contradiction.
Qed.

(* ------------------------------------------------------------------ read-only programs *)
Inductive ps_ro (ho : Z) {A : Type} : ps_prog A -> Prop :=
| PsRoRet : forall a, ps_ro ho (PsRet a)
| PsRoRead : forall sz k, (forall r, ps_ro ho (k r)) -> ps_ro ho (PsDo (PoRead ho sz) k)
| PsRoGets : forall cap k, (forall r, ps_ro ho (k r)) -> ps_ro ho (PsDo (PoGets ho cap) k).

Lemma ps_ro_bind : forall ho A B (p : ps_prog A) (f : A -> ps_prog B),
  ps_ro ho p -> (forall a, ps_ro ho (f a)) -> ps_ro ho (ps_bind p f).
Proof.
  intros ho A B p f Hp Hf. induction Hp; cbn [ps_bind]; [apply Hf| |]; constructor; intro r; apply H0.
Qed.

Section Ro.
  Variable pol : Z -> Z -> Z.

  Theorem ps_ro_run : forall ho A (p : ps_prog A), ps_ro ho p ->
    forall s F pos, ps_txr s ho F pos ->
      exists s' pos',
        ps_run pol p s = (fst (fst (ps_pure p (drop pos F))), s') /\
        ps_txr s' ho F pos' /\ drop pos' F = snd (fst (ps_pure p (drop pos F))) /\
        ps_fs s' = ps_fs s /\ ps_next s' = ps_next s /\
        (forall g, g <> ho -> ps_hget g (ps_hs s') = ps_hget g (ps_hs s)).
  Proof.
    intros ho A p Hp. induction Hp; intros s F pos Hr.
    - exists s, pos. cbn [ps_run ps_pure fst snd]. repeat split; try reflexivity; apply Hr.
    - destruct (ps_step_read pol s ho F pos sz Hr) as (s1 & pos1 & Hs & Hr1 & Hd & Hf & Hn & Hg).
      cbn [ps_run ps_pure]. rewrite Hs.
      destruct (ps_item sz (drop pos F)) as [[a rest]|] eqn:Ei.
      + destruct (H0 (PrData true a) s1 F pos1 Hr1) as (s2 & pos2 & Hrun & Hr2 & Hd2 & Hf2 & Hn2 & Hg2).
        rewrite Hd in *. exists s2, pos2. rewrite Hrun.
        split; [reflexivity|]. split; [exact Hr2|]. split; [exact Hd2|].
        split; [congruence|]. split; [congruence|].
        intros g G. rewrite Hg2, Hg by exact G. reflexivity.
      + destruct (H0 (PrData false []) s1 F pos1 Hr1) as (s2 & pos2 & Hrun & Hr2 & Hd2 & Hf2 & Hn2 & Hg2).
        rewrite Hd in *. exists s2, pos2. rewrite Hrun.
        split; [reflexivity|]. split; [exact Hr2|]. split; [exact Hd2|].
        split; [congruence|]. split; [congruence|].
        intros g G. rewrite Hg2, Hg by exact G. reflexivity.
    - destruct (ps_step_gets pol s ho F pos cap Hr) as (s1 & Hs & Hr1 & Hf & Hn & Hg).
      cbn [ps_run ps_pure]. rewrite Hs.
      set (l := ps_line (Z.to_nat (cap - 1)) (drop pos F)) in *.
      destruct l as [|b tl] eqn:El.
      + change (len (@nil Z)) with 0 in Hr1. rewrite Z.add_0_r in Hr1.
        destruct (H0 (PrData false []) s1 F pos Hr1) as (s2 & pos2 & Hrun & Hr2 & Hd2 & Hf2 & Hn2 & Hg2).
        exists s2, pos2. rewrite Hrun.
        split; [reflexivity|]. split; [exact Hr2|]. split; [exact Hd2|].
        split; [congruence|]. split; [congruence|].
        intros g G. rewrite Hg2, Hg by exact G. reflexivity.
      + destruct (H0 (PrData true (b :: tl)) s1 F (pos + len (b :: tl)) Hr1)
          as (s2 & pos2 & Hrun & Hr2 & Hd2 & Hf2 & Hn2 & Hg2).
        assert (Hdd : drop (pos + len (b :: tl)) F = drop (len (b :: tl)) (drop pos F)).
        { symmetry. apply ps_drop_drop; [apply Hr|apply len_nonneg]. }
        rewrite Hdd in *. exists s2, pos2. rewrite Hrun.
        split; [reflexivity|]. split; [exact Hr2|]. split; [exact Hd2|].
        split; [congruence|]. split; [congruence|].
        intros g G. rewrite Hg2, Hg by exact G. reflexivity.
  Qed.

  (* fclose of a read stream *)
  Lemma ps_close_read : forall s ho F pos,
    ps_txr s ho F pos ->
    exists s', ps_step pol (PoClose ho) s = (PrInt 0, s') /\ ps_fs s' = ps_fs s /\
      ps_next s' = ps_next s /\ (forall g, g <> ho -> ps_hget g (ps_hs s') = ps_hget g (ps_hs s)).
  Proof.
    intros s ho F pos [(n & pend & Hh) _]. unfold ps_step. rewrite Hh.
    cbn [psh_open psh_mode ps_writable]. eexists. split; [reflexivity|].
    split; [reflexivity|]. split; [reflexivity|].
    intros g G. cbn [ps_hs]. apply ps_hget_hput_other. exact G.
  Qed.

  (* ---------------------------------------------------------------- counter file *)
  Lemma ps_cnt_load_loop_ro : forall fuel freq h acc, ps_ro h (ps_cnt_load_loop fuel freq h acc).
  Proof.
    induction fuel as [|f IH]; intros; cbn [ps_cnt_load_loop]; [constructor|].
    apply PsRoGets. intros [h'| |ok d|n]; try constructor.
    destruct ok; [|constructor]. destruct (ps_cnt_parse d) as [[k v]|]; [apply IH|constructor].
  Qed.

  Definition ps_rounded (freq : Z) (l : list (bytes * Z)) : list (bytes * Z) :=
    map (fun e => (fst e, ps_round freq (snd e))) l.

  Lemma ps_pure_cnt_load_loop : forall freq h l fuel acc,
    Forall ps_cnt_wf l -> (length l < fuel)%nat ->
    ps_pure (ps_cnt_load_loop fuel freq h acc) (ps_cnt_file l) =
    (Some (rev acc ++ ps_rounded freq l), [], []).
  Proof.
    intros freq h l. induction l as [|[n v] l IH]; intros fuel acc Hwf Hf.
    - destruct fuel; [lia|]. cbn [ps_cnt_load_loop ps_cnt_file ps_pure ps_line ps_rounded map].
      rewrite app_nil_r. reflexivity.
    - destruct fuel; [cbn in Hf; lia|]. inversion Hwf as [|? ? [Hn Hv] Hl]; subst.
      cbn [fst snd] in *. cbn [ps_cnt_load_loop ps_cnt_file ps_pure].
      rewrite ps_cnt_line_first by assumption.
      pose proof (ps_cnt_line_nonempty n v) as Hne.
      destruct (ps_cnt_line n v) as [|b0 tl0] eqn:El; [congruence|]. rewrite <- El.
      rewrite ps_cnt_parse_line by assumption. rewrite drop_app_exact.
      rewrite IH by (assumption || (cbn in Hf; lia)).
      cbn [rev ps_rounded map fst snd]. rewrite <- app_assoc. reflexivity.
  Qed.

  (* coap_op_obs_cnt_load_disk hands over exactly the lines of the file, rounded *)
  Theorem ps_cnt_load_correct : forall fuel freq l s,
    Forall ps_cnt_wf l -> (length l < fuel)%nat ->
    ps_holds ps_cnt_file (ps_view s PS_CNT) l ->
    exists s', ps_run pol (ps_cnt_load fuel freq) s = (Some (ps_rounded freq l), s') /\
      ps_fs s' = ps_fs s /\ ps_next s <= ps_next s' /\
      (forall g, g < ps_next s -> ps_hget g (ps_hs s') = ps_hget g (ps_hs s)).
  Proof.
    intros fuel freq l s Hwf Hf [Hv|[Hv Hl]]; unfold ps_cnt_load, ps_open; cbn [ps_run].
    - destruct (ps_open_r_some pol s (PsBase PS_CNT) _ Hv) as (s1 & E1 & Hr1 & Hf1 & Hn1 & Hg1).
      rewrite E1. rewrite ps_run_bind.
      destruct (ps_ro_run (ps_next s) _ _ (ps_cnt_load_loop_ro fuel freq (ps_next s) []) s1 _ 0 Hr1)
        as (s2 & pos2 & Hrun & Hr2 & _ & Hf2 & Hn2 & Hg2).
      rewrite ps_drop_0, ps_pure_cnt_load_loop in Hrun by assumption. cbn [fst snd rev app] in Hrun.
      rewrite Hrun. unfold ps_then. cbn [ps_run].
      destruct (ps_close_read s2 (ps_next s) _ pos2 Hr2) as (s3 & E3 & Hf3 & Hn3 & Hg3).
      rewrite E3. exists s3. split; [reflexivity|]. split; [congruence|]. split; [lia|].
      intros g G. rewrite Hg3, Hg2, Hg1 by lia. reflexivity.
    - subst l. rewrite (ps_open_r_none pol s _ Hv). exists s. cbn [ps_run ps_rounded map].
      split; [reflexivity|]. split; [reflexivity|]. split; [lia|]. reflexivity.
  Qed.

  (* ---------------------------------------------------------------- dynamic resources *)
  Lemma ps_dyn_read_ro : forall h, ps_ro h (ps_dyn_read h).
  Proof.
    intro h. unfold ps_dyn_read.
    repeat (cbv beta iota delta [negb ps_rd];
            lazymatch goal with
            | |- ps_ro _ (PsRet _) => apply PsRoRet
            | |- ps_ro _ (PsDo (PoRead _ _) _) => apply PsRoRead; intro
            | |- ps_ro _ (match ?x with _ => _ end) => destruct x
            | |- ps_ro _ (if ?x then _ else _) => destruct x
            | |- ps_ro _ ((if ?x then _ else _) _) => destruct x
            end).
  Qed.

  Lemma ps_dyn_load_loop_ro : forall (S : Type) fuel h (step : ps_dyn -> S -> option S) st,
    ps_ro h (ps_dyn_load_loop fuel h step st).
  Proof.
    induction fuel as [|f IH]; intros; cbn [ps_dyn_load_loop]; [constructor|].
    apply ps_ro_bind; [apply ps_dyn_read_ro|]. intros [r|]; [|constructor].
    destruct (step r st); [apply IH|constructor].
  Qed.

  (* the records are handed to the caller's step in file order, until a step gives up *)
  Fixpoint ps_dyn_fold {S : Type} (step : ps_dyn -> S -> option S) (l : list ps_dyn) (st : S) : S :=
    match l with
    | [] => st
    | r :: tl => match step r st with Some st' => ps_dyn_fold step tl st' | None => st end
    end.

  Lemma ps_pure_dyn_load_loop : forall (S : Type) (step : ps_dyn -> S -> option S) h l fuel st,
    Forall ps_dyn_wf l -> (length l < fuel)%nat ->
    fst (fst (ps_pure (ps_dyn_load_loop fuel h step st) (ps_dyn_file l))) =
    Some (ps_dyn_fold step l st).
  Proof.
    intros S step h l. induction l as [|r l IH]; intros fuel st Hwf Hf.
    - destruct fuel; [lia|]. cbn [ps_dyn_load_loop ps_dyn_file ps_dyn_fold].
      rewrite ps_pure_bind, ps_pure_dyn_read_eof. reflexivity.
    - destruct fuel; [cbn in Hf; lia|]. inversion Hwf; subst.
      cbn [ps_dyn_load_loop ps_dyn_file ps_dyn_fold].
      rewrite ps_pure_bind, ps_pure_dyn_read by assumption.
      destruct (step r st) as [st'|].
      + specialize (IH fuel st' H2 ltac:(cbn in Hf; lia)).
        destruct (ps_pure (ps_dyn_load_loop fuel h step st') (ps_dyn_file l)) as [[a rest] out].
        cbn [fst snd] in *. exact IH.
      + reflexivity.
  Qed.

  Theorem ps_dyn_load_correct : forall (S : Type) (step : ps_dyn -> S -> option S) fuel l st s,
    Forall ps_dyn_wf l -> (length l < fuel)%nat ->
    ps_holds ps_dyn_file (ps_view s PS_DYN) l ->
    exists s', ps_run pol (ps_dyn_load fuel step st) s = (Some (ps_dyn_fold step l st), s') /\
      ps_fs s' = ps_fs s /\ ps_next s <= ps_next s' /\
      (forall g, g < ps_next s -> ps_hget g (ps_hs s') = ps_hget g (ps_hs s)).
  Proof.
    intros S step fuel l st s Hwf Hf [Hv|[Hv Hl]]; unfold ps_dyn_load, ps_open; cbn [ps_run].
    - destruct (ps_open_r_some pol s (PsBase PS_DYN) _ Hv) as (s1 & E1 & Hr1 & Hf1 & Hn1 & Hg1).
      rewrite E1. rewrite ps_run_bind.
      destruct (ps_ro_run (ps_next s) _ _ (ps_dyn_load_loop_ro S fuel (ps_next s) step st) s1 _ 0 Hr1)
        as (s2 & pos2 & Hrun & Hr2 & _ & Hf2 & Hn2 & Hg2).
      rewrite ps_drop_0, ps_pure_dyn_load_loop in Hrun by assumption.
      rewrite Hrun. unfold ps_then. cbn [ps_run].
      destruct (ps_close_read s2 (ps_next s) _ pos2 Hr2) as (s3 & E3 & Hf3 & Hn3 & Hg3).
      rewrite E3. exists s3. split; [reflexivity|]. split; [congruence|]. split; [lia|].
      intros g G. rewrite Hg3, Hg2, Hg1 by lia. reflexivity.
    - subst l. rewrite (ps_open_r_none pol s _ Hv). exists s. cbn [ps_run ps_dyn_fold].
      split; [reflexivity|]. split; [reflexivity|]. split; [lia|]. reflexivity.
  Qed.
End Ro.

(* ------------------------------------------------------------------ observe file *)
Definition ps_rekey (k : bytes) (r : ps_obs) : ps_obs :=
  mkObs k (pso_proto r) (pso_listen r) (pso_tuple r) (pso_pkt r) (pso_osc r).

Section ObsLoad.
  Variable pol : Z -> Z -> Z.
  Variable S : Type.
  Variables la lt : Z.
  Hypothesis la_pos : 0 < la.
  Hypothesis lt_pos : 0 < lt.
  Variable step : ps_obs -> S -> ps_prog (S * option bytes).
  (* what one call of the caller's step (coap_persist_observe_add_lkd) does: to the caller's
     state, the key of the subscription it made, and to the counter file *)
  Variable spec : ps_obs -> S -> list (bytes * Z) -> S * option bytes * list (bytes * Z).
  Variable okS : S -> Prop.
  Variable cmax : nat.

  Definition ps_step_ok : Prop :=
    forall r st C s,
      okS st -> ps_wfh s -> Forall ps_cnt_wf C -> (length C < cmax)%nat ->
      ps_holds ps_cnt_file (ps_view s PS_CNT) C ->
      exists s',
        ps_run pol (step r st) s = ((fst (fst (spec r st C)), snd (fst (spec r st C))), s') /\
        okS (fst (fst (spec r st C))) /\
        Forall ps_cnt_wf (snd (spec r st C)) /\
        (length (snd (spec r st C)) <= Datatypes.S (length C))%nat /\
        ps_holds ps_cnt_file (ps_view s' PS_CNT) (snd (spec r st C)) /\
        (forall k, snd (fst (spec r st C)) = Some k -> len k = PS_KEY) /\
        ps_wfh s' /\ ps_next s <= ps_next s' /\
        (forall g, g < ps_next s -> ps_hget g (ps_hs s') = ps_hget g (ps_hs s)) /\
        (forall n, n <> PsBase PS_CNT -> n <> PsTmp PS_CNT -> ps_get n (ps_fs s') = ps_get n (ps_fs s)).

  Fixpoint ps_obs_fold (l : list ps_obs) (st : S) (C : list (bytes * Z))
    : S * list ps_obs * list (bytes * Z) :=
    match l with
    | [] => (st, [], C)
    | r :: tl =>
        let x := spec r st C in
        let y := ps_obs_fold tl (fst (fst x)) (snd x) in
        (fst (fst y),
         match snd (fst x) with Some k => ps_rekey k r :: snd (fst y) | None => snd (fst y) end,
         snd y)
    end.

  Lemma ps_txw_reframe : forall s s' hn tmp W V,
    ps_txw s hn tmp W V -> ps_hget hn (ps_hs s') = ps_hget hn (ps_hs s) ->
    ps_get tmp (ps_fs s') = ps_get tmp (ps_fs s) -> ps_txw s' hn tmp W (ps_view s').
  Proof.
    intros s s' hn tmp W V [(md & dd & q & pend & disk & Hw & Hh & Hd & HW) [Ht _]] E Ef.
    split; [|split; [exact Ht|reflexivity]].
    exists md, dd, q, pend, disk. repeat split; try assumption; congruence.
  Qed.

  Lemma ps_rekey_wf : forall k r, ps_obs_wf la lt r -> len k = PS_KEY -> ps_obs_wf la lt (ps_rekey k r).
  Proof.
    intros k r (H1 & H2 & H3 & H4 & H5 & H6) Hk. unfold ps_obs_wf, ps_rekey.
    cbn [pso_key pso_proto pso_listen pso_tuple pso_pkt pso_osc]. tauto.
  Qed.

  Hypothesis step_ok : ps_step_ok.

  Lemma ps_obs_load_loop_run : forall F ho hn rest fuel s pos W C st,
    (length rest < fuel)%nat -> Forall (ps_obs_wf la lt) rest ->
    ho <> hn -> ho < ps_next s -> hn < ps_next s -> ps_wfh s ->
    ps_txr s ho F pos -> drop pos F = ps_obs_file rest ->
    ps_txw s hn (PsTmp PS_OBS) W (ps_view s) ->
    okS st -> Forall ps_cnt_wf C -> (length C + length rest < cmax)%nat ->
    ps_holds ps_cnt_file (ps_view s PS_CNT) C ->
    exists s' pos',
      ps_run pol (ps_obs_load_loop la lt fuel ho hn step st) s =
        (Some (fst (fst (ps_obs_fold rest st C)), true), s') /\
      ps_txr s' ho F pos' /\
      ps_txw s' hn (PsTmp PS_OBS) (W ++ ps_obs_file (snd (fst (ps_obs_fold rest st C)))) (ps_view s') /\
      ps_holds ps_cnt_file (ps_view s' PS_CNT) (snd (ps_obs_fold rest st C)) /\
      Forall ps_cnt_wf (snd (ps_obs_fold rest st C)) /\
      okS (fst (fst (ps_obs_fold rest st C))) /\
      ps_wfh s' /\ ps_next s <= ps_next s' /\
      (forall i, i <> PS_CNT -> ps_view s' i = ps_view s i).
  Proof.
    intros F ho hn rest. induction rest as [|r rest IH];
      intros fuel s pos W C st Hf Hwf Hne Hho Hhn Hwfh Hr Hd Hw Hok HC Hlen Hcnt.
    - destruct fuel; [lia|]. cbn [ps_obs_load_loop ps_obs_fold fst snd ps_obs_file].
      rewrite ps_run_bind.
      destruct (ps_rw_run pol ho hn _ _ (ps_obs_read_rw la lt ho hn) s F pos (PsTmp PS_OBS) W
                          (ps_view s) Hne Hr Hw) as (s1 & pos1 & Hrun & Hr1 & _ & Hw1 & Hfr).
      cbn [ps_obs_file] in Hd. rewrite Hd, ps_pure_obs_read_eof in Hrun, Hw1.
      cbn [fst snd] in Hrun, Hw1. rewrite Hrun. cbn [ps_run].
      exists s1, pos1. rewrite app_nil_r in *.
      assert (HV : forall i, ps_view s1 i = ps_view s i) by (apply Hw1).
      split; [reflexivity|]. split; [exact Hr1|].
      split; [eapply ps_txw_reframe; [exact Hw1|reflexivity|reflexivity]|].
      split; [rewrite HV; exact Hcnt|]. split; [exact HC|]. split; [exact Hok|].
      split; [pose proof (ps_wfh_run pol _ (ps_obs_read la lt ho) s Hwfh) as X; rewrite Hrun in X; exact X|].
      split; [destruct Hfr as [E _]; lia|]. intros i _. apply HV.
    - destruct fuel; [cbn in Hf; lia|]. inversion Hwf as [|? ? Hr0 Hrest]; subst.
      cbn [ps_obs_load_loop]. rewrite ps_run_bind.
      destruct (ps_rw_run pol ho hn _ _ (ps_obs_read_rw la lt ho hn) s F pos (PsTmp PS_OBS) W
                          (ps_view s) Hne Hr Hw) as (s1 & pos1 & Hrun & Hr1 & Hd1 & Hw1 & Hfr1).
      cbn [ps_obs_file] in Hd. rewrite Hd, ps_pure_obs_read in Hrun, Hd1, Hw1 by assumption.
      cbn [fst snd] in Hrun, Hd1, Hw1. rewrite Hrun. rewrite app_nil_r in Hw1.
      assert (HV1 : forall i, ps_view s1 i = ps_view s i) by (apply Hw1).
      assert (Hwfh1 : ps_wfh s1).
      { pose proof (ps_wfh_run pol _ (ps_obs_read la lt ho) s Hwfh) as X. rewrite Hrun in X. exact X. }
      assert (Hn1 : ps_next s1 = ps_next s) by (apply Hfr1).
      (* the caller's step *)
      rewrite ps_run_bind.
      assert (Hcnt1 : ps_holds ps_cnt_file (ps_view s1 PS_CNT) C) by (rewrite HV1; exact Hcnt).
      destruct (step_ok r st C s1 Hok Hwfh1 HC ltac:(cbn in Hlen; lia) Hcnt1)
        as (s2 & Hrun2 & Hok2 & HC2 & Hlen2 & Hcnt2 & Hkey & Hwfh2 & Hn2 & Hg2 & Hfs2).
      rewrite Hrun2. cbn [fst snd].
      set (x := spec r st C) in *.
      assert (Hr2 : ps_txr s2 ho F pos1).
      { eapply ps_txr_frame; [exact Hr1|]. apply Hg2. lia. }
      assert (Hw2 : ps_txw s2 hn (PsTmp PS_OBS) W (ps_view s2)).
      { eapply ps_txw_reframe; [exact Hw1|apply Hg2; lia|apply Hfs2; discriminate]. }
      assert (HV2 : forall i, i <> PS_CNT -> ps_view s2 i = ps_view s i).
      { intros i Hi. rewrite <- HV1. unfold ps_view. apply Hfs2; [intro E; inversion E; contradiction|discriminate]. }
      cbn [ps_obs_fold]. fold x.
      destruct (snd (fst x)) as [k|] eqn:Ek.
      + (* written under the new key *)
        rewrite ps_run_bind.
        assert (Hrk : ps_obs_wf la lt (ps_rekey k r)) by (apply ps_rekey_wf; [exact Hr0|apply Hkey; reflexivity]).
        destruct (ps_rw_run pol ho hn _ _ (ps_obs_write_rw ho hn (ps_rekey k r)) s2 F pos1
                            (PsTmp PS_OBS) W (ps_view s2) Hne Hr2 Hw2)
          as (s3 & pos3 & Hrun3 & Hr3 & Hd3 & Hw3 & Hfr3).
        rewrite (ps_pure_obs_write la lt) in Hrun3, Hd3, Hw3 by assumption.
        cbn [fst snd] in Hrun3, Hd3, Hw3.
        change (mkObs k (pso_proto r) (pso_listen r) (pso_tuple r) (pso_pkt r) (pso_osc r))
          with (ps_rekey k r). rewrite Hrun3.
        assert (HV3 : forall i, ps_view s3 i = ps_view s2 i) by (apply Hw3).
        assert (Hwfh3 : ps_wfh s3).
        { pose proof (ps_wfh_run pol _ (ps_obs_write hn (ps_rekey k r)) s2 Hwfh2) as X.
          rewrite Hrun3 in X. exact X. }
        assert (Hn3 : ps_next s3 = ps_next s2) by (apply Hfr3).
        destruct (IH fuel s3 pos3 (W ++ ps_obs_enc (ps_rekey k r)) (snd x) (fst (fst x)))
          as (s4 & pos4 & Hrun4 & Hr4 & Hw4 & Hcnt4 & HC4 & Hok4 & Hwfh4 & Hn4 & HV4);
          try assumption; try lia.
        * cbn in Hf. lia.
        * rewrite Hd3, Hd1. reflexivity.
        * eapply ps_txw_reframe; [exact Hw3|reflexivity|reflexivity].
        * cbn in Hlen. lia.
        * rewrite HV3. exact Hcnt2.
        * exists s4, pos4. rewrite Hrun4. cbn [fst snd ps_obs_file].
          split; [reflexivity|]. split; [exact Hr4|].
          split; [rewrite <- app_assoc in Hw4; exact Hw4|].
          split; [exact Hcnt4|]. split; [exact HC4|]. split; [exact Hok4|].
          split; [exact Hwfh4|]. split; [lia|].
          intros i Hi. rewrite HV4, HV3 by exact Hi. apply HV2. exact Hi.
      + (* not re-created: not written *)
        destruct (IH fuel s2 pos1 W (snd x) (fst (fst x)))
          as (s4 & pos4 & Hrun4 & Hr4 & Hw4 & Hcnt4 & HC4 & Hok4 & Hwfh4 & Hn4 & HV4);
          try assumption; try lia.
        * cbn in Hf. lia.
        * cbn in Hlen. lia.
        * exists s4, pos4. rewrite Hrun4. cbn [fst snd].
          split; [reflexivity|]. split; [exact Hr4|]. split; [exact Hw4|].
          split; [exact Hcnt4|]. split; [exact HC4|]. split; [exact Hok4|].
          split; [exact Hwfh4|]. split; [lia|].
          intros i Hi. rewrite HV4 by exact Hi. apply HV2. exact Hi.
  Qed.

  (* coap_op_observe_load_disk: every record of the file is handed to the caller's step, in file
     order; the file is rewritten with exactly the records for which the step returned a key,
     under that key; the counter file ends up as the steps left it; the third file is untouched *)
  Theorem ps_obs_load_correct : forall fuel l C st s,
    (length l < fuel)%nat -> Forall (ps_obs_wf la lt) l -> ps_wfh s ->
    ps_view s PS_OBS = Some (ps_obs_file l) ->
    okS st -> Forall ps_cnt_wf C -> (length C + length l < cmax)%nat ->
    ps_holds ps_cnt_file (ps_view s PS_CNT) C ->
    exists s',
      ps_run pol (ps_obs_load la lt fuel step st) s = (Some (fst (fst (ps_obs_fold l st C))), s') /\
      ps_view s' PS_OBS = Some (ps_obs_file (snd (fst (ps_obs_fold l st C)))) /\
      ps_holds ps_cnt_file (ps_view s' PS_CNT) (snd (ps_obs_fold l st C)) /\
      ps_view s' PS_DYN = ps_view s PS_DYN /\
      okS (fst (fst (ps_obs_fold l st C))).
  Proof.
    intros fuel l C st s Hf Hwf Hwfh Hv Hok HC Hlen Hcnt.
    unfold ps_obs_load, ps_open. cbn [ps_run].
    destruct (ps_open_r_some pol s (PsBase PS_OBS) _ Hv) as (s1 & E1 & Hr1 & Hf1 & Hn1 & Hg1).
    rewrite E1. cbn [ps_run].
    destruct (ps_open_w pol s1 PS_OBS) as (s2 & E2 & Hw2 & Hn2 & Hg2 & Hfs2).
    rewrite E2. set (ho := ps_next s) in *. set (hn := ps_next s1) in *.
    assert (Hne : ho <> hn) by (subst ho hn; lia).
    assert (Hr2 : ps_txr s2 ho (ps_obs_file l) 0) by (eapply ps_txr_frame; [exact Hr1|apply Hg2; exact Hne]).
    assert (HV1 : forall i, ps_view s1 i = ps_view s i) by (apply ps_view_files; exact Hf1).
    assert (HV2 : forall i, ps_view s2 i = ps_view s i) by (intro i; rewrite <- HV1; apply Hw2).
    assert (Hwfh2 : ps_wfh s2).
    { pose proof (ps_wfh_step pol (PoOpen (PsBase PS_OBS) PsR) s Hwfh) as X1. rewrite E1 in X1.
      pose proof (ps_wfh_step pol (PoOpen (PsTmp PS_OBS) PsWp) s1 X1) as X2. rewrite E2 in X2. exact X2. }
    rewrite ps_run_bind.
    destruct (ps_obs_load_loop_run (ps_obs_file l) ho hn l fuel s2 0 [] C st)
      as (s3 & pos3 & Hrun3 & Hr3 & Hw3 & Hcnt3 & HC3 & Hok3 & Hwfh3 & Hn3 & HV3);
      try assumption; try (subst ho hn; lia).
    - apply ps_drop_0.
    - eapply ps_txw_reframe; [exact Hw2|reflexivity|reflexivity].
    - rewrite HV2. exact Hcnt.
    - rewrite Hrun3. cbn [app] in Hw3.
      rewrite ps_run_bind.
      destruct (ps_commit_run pol s3 hn PS_OBS _ (ps_view s3) (Some ho) Hw3) as (s4 & Hrun4 & Hv4 & Ho4).
      { split; [exact Hne|]. exists (ps_obs_file l), pos3. exact Hr3. }
      rewrite Hrun4. cbn [ps_run]. exists s4. split; [reflexivity|]. split; [exact Hv4|].
      split; [rewrite Ho4 by discriminate; exact Hcnt3|].
      split; [|exact Hok3].
      rewrite Ho4 by discriminate. rewrite HV3 by discriminate. apply HV2.
  Qed.
End ObsLoad.

(* C17 - restart from files that are coherent with a memory state (Coherence.ps_inv): the fresh
   process has every observable resource of that state, every observation with its token and
   cache key, and counters that are at least every Observe value sent. *)
From LibcoapV Require Import Base.Tactics Base.Bytes Base.BytesProofs Persist.Fs Persist.FsProofs
  Persist.Records Persist.RecordsProofs Persist.Updaters Persist.UpdatersProofs Persist.History
  Persist.LoadersProofs Persist.Server Persist.Restore Persist.MemLemmas Persist.EventCalls
  Persist.Counter Persist.Coherence.
Local Open Scope Z_scope.

Section RestoreCoh.
  Variable pol : Z -> Z -> Z.
  Variable app : bytes -> option (bytes * bool).
  Variable req : bytes -> option (bytes * bytes * bytes).
  Variable alloc : list bytes -> bytes.
  Variable c : ps_cfg.
  Variable m0 : ps_mem.
  Hypothesis alloc_len : forall live, len (alloc live) = PS_KEY.
  Hypothesis freq_pos : 0 < psc_freq c.
  Hypothesis freq_small : psc_freq c < 1000000.

  (* what the application registers itself in every process: observable resources, fresh *)
  Definition ps_fresh_rsrc (r : ps_rsrc) : Prop :=
    psr_observable r = true /\ psr_subs r = [] /\ ps_name_ok (psr_name r) /\
    0 <= psr_observe r < 16777216.

  Lemma ps_replace_forall : forall (Q : ps_rsrc -> Prop) new m,
    Forall Q m -> Q new -> Forall Q (ps_replace new m).
  Proof.
    intros Q new m H Hn. induction H; cbn [ps_replace]; [constructor|].
    destruct (ps_beq (psr_name new) (psr_name x)); constructor; assumption.
  Qed.

  Lemma ps_find_forall : forall (Q : ps_rsrc -> Prop) m n r, Forall Q m -> ps_find n m = Some r -> Q r.
  Proof. intros Q m n r H Hf. rewrite Forall_forall in H. apply H. eapply ps_find_in. exact Hf. Qed.

  Lemma ps_dyn_fold_fresh : forall D m,
    Forall ps_fresh_rsrc m ->
    (forall d, In d D -> app (psd_pkt d) = Some (psd_name d, true) /\ ps_name_ok (psd_name d)) ->
    Forall ps_fresh_rsrc (ps_dyn_fold (ps_dyn_step app) D m).
  Proof.
    induction D as [|d D IH]; intros m Hm HD; cbn [ps_dyn_fold]; [exact Hm|].
    destruct (HD d (or_introl eq_refl)) as [Ha Hn].
    unfold ps_dyn_step at 1. destruct (ps_find (psd_name d) m) eqn:E1.
    - apply IH; [exact Hm|]. intros x Hx. apply HD. right. exact Hx.
    - rewrite Ha, E1. apply IH; [|intros x Hx; apply HD; right; exact Hx].
      apply Forall_app. split; [exact Hm|]. constructor; [|constructor].
      unfold ps_fresh_rsrc. cbn [psr_observable psr_subs psr_name psr_observe]. unfold PS_OBSERVE0.
      split; [reflexivity|]. split; [reflexivity|]. split; [exact Hn|lia].
  Qed.

  Lemma ps_set_counts_fresh : forall l m,
    Forall ps_fresh_rsrc m -> Forall ps_fresh_rsrc (ps_set_counts l m).
  Proof.
    induction l as [|[k v] l IH]; intros m Hm; cbn [ps_set_counts]; [exact Hm|].
    apply IH. destruct (ps_find k m) as [r|] eqn:E; [|exact Hm].
    apply ps_replace_forall; [exact Hm|].
    destruct (ps_find_forall _ m k r Hm E) as (H1 & H2 & H3 & H4).
    unfold ps_fresh_rsrc. cbn [psr_observable psr_subs psr_name psr_observe].
    rewrite (ps_find_name k m r E) in H3. pose proof (Z.mod_pos_bound v 16777216).
    split; [exact H1|]. split; [exact H2|]. split; [exact H3|lia].
  Qed.

  Lemma ps_fresh_mem_ok : forall m, Forall ps_fresh_rsrc m -> ps_mem_ok m.
  Proof.
    intros m H. unfold ps_mem_ok. eapply Forall_impl; [|exact H].
    intros r (H1 & H2 & H3 & H4). split; [exact H3|]. split; [lia|]. rewrite H2. constructor.
  Qed.

  (* the counter a resource gets from its (unique) line *)
  Lemma ps_set_counts_other : forall l m n,
    ~ In n (map fst l) -> ps_find n (ps_set_counts l m) = ps_find n m.
  Proof.
    induction l as [|[k v] l IH]; intros m n Hn; cbn [ps_set_counts]; [reflexivity|].
    cbn [map fst In] in Hn. rewrite IH by tauto.
    destruct (ps_find k m) as [r|] eqn:E; [|reflexivity].
    apply ps_find_replace_other. cbn [psr_name]. apply ps_beq_false. intro X. apply Hn. left. congruence.
  Qed.

  Lemma ps_set_counts_line : forall l m n v r,
    NoDup (map fst l) -> In (n, v) l -> ps_find n m = Some r ->
    exists r', ps_find n (ps_set_counts l m) = Some r' /\ psr_observe r' = v mod 16777216.
  Proof.
    induction l as [|[k v0] l IH]; intros m n v r Hnd Hin Hf; [contradiction|].
    cbn [map fst] in Hnd. inversion Hnd as [|? ? Hk Hl]; subst. cbn [ps_set_counts].
    destruct Hin as [E|Hin].
    - inversion E; subst k v0. rewrite Hf. rewrite ps_set_counts_other by exact Hk.
      eexists. split; [apply (ps_find_replace_same _ m n r); [reflexivity|exact Hf]|reflexivity].
    - assert (Hne : n <> k) by (intro X; subst k; apply Hk; apply in_map_iff; exists (n, v); split; [reflexivity|exact Hin]).
      destruct (ps_find k m) as [rk|] eqn:Ek.
      + apply (IH _ n v r Hl Hin). rewrite ps_find_replace_other; [exact Hf|].
        cbn [psr_name]. apply ps_beq_false. exact Hne.
      + apply (IH m n v r Hl Hin Hf).
  Qed.

  (* re-creating the observations does not touch the counters *)
  Lemma ps_obs_step_spec_observe : forall r m C n,
    option_map psr_observe (ps_find n (fst (fst (ps_obs_step_spec req alloc c r m C)))) =
    option_map psr_observe (ps_find n m).
  Proof.
    intros r m C n. unfold ps_obs_step_spec.
    destruct (negb (ps_beq (pso_proto r) (psc_proto c))); [reflexivity|].
    destruct (negb (ps_beq (pso_listen r) (psc_listen c))); [reflexivity|].
    destruct (req (pso_pkt r)) as [[[name token] ck]|]; [|reflexivity].
    destruct (ps_find name m) as [rs|] eqn:Ef; [|reflexivity].
    destruct (negb (psr_observable rs)); [reflexivity|].
    destruct (ps_find_tok (pso_tuple r) token (psr_subs rs)); [reflexivity|]. cbn [fst snd].
    match goal with |- context [ps_replace ?x m] => set (new := x) end.
    rewrite (ps_find_replace_any new m name rs n eq_refl Ef).
    destruct (ps_beq n name) eqn:En; [|reflexivity]. apply ps_beq_eq in En. subst n. rewrite Ef. reflexivity.
  Qed.

  Lemma ps_obs_fold_observe : forall O m C n,
    option_map psr_observe (ps_find n (fst (fst (ps_obs_fold ps_mem (ps_obs_step_spec req alloc c) O m C)))) =
    option_map psr_observe (ps_find n m).
  Proof.
    induction O as [|r O IH]; intros m C n; cbn [ps_obs_fold fst snd]; [reflexivity|].
    rewrite IH. apply ps_obs_step_spec_observe.
  Qed.

  (* ---------------------------------------------------------------- the theorem *)
  Theorem ps_inv_restores : forall m A G fs,
    psc_dyn c = true -> psc_obs c = true -> psc_cnt c = true -> psc_unknown c = true ->
    0 < psc_la c -> 0 < psc_lt c ->
    Forall ps_fresh_rsrc m0 ->
    ps_inv app req c m0 m A G ->
    (ps_abs_size A + ps_abs_size A < psc_fuel c)%nat ->
    ps_holdsA (ps_boot fs) A ->
    exists mR,
      fst (ps_run pol (ps_startup app req alloc c m0) (ps_boot fs)) = Some mR /\
      (* every observable resource exists again *)
      (forall n r, ps_find n m = Some r -> psr_observable r = true -> ps_has mR n) /\
      (* every observation is re-established, with its session, token, cache key and request *)
      (forall n s, ps_insub m n s -> ps_present req mR (ps_obs_of c s)) /\
      (* the counters cover every Observe value sent: the next notification carries a greater one *)
      (forall n tu tok v rR, In (n, tu, tok, v) G -> ps_find n mR = Some rR -> v < psr_observe rR + 1).
  Proof.
    intros m A G fs Hd Ho Hc Hu Hla Hlt Hm0 Hi Hfuel (VD & VO & VC).
    set (D := ps_ol (ab_dyn A)). set (O := ps_ol (ab_obs A)). set (C := ps_ol (ab_cnt A)).
    destruct (iv_wf _ _ _ _ _ _ _ Hi) as (WD & WO & WC).
    assert (HD : Forall ps_dyn_wf D) by (subst D; destruct (ab_dyn A); [exact WD|constructor]).
    assert (HO : Forall (ps_obs_wf (psc_la c) (psc_lt c)) O) by (subst O; destruct (ab_obs A); [exact WO|constructor]).
    assert (HC : Forall ps_cnt_wf C) by (subst C; destruct (ab_cnt A); [exact WC|constructor]).
    assert (Hsz : (length D + length O + length C <= ps_abs_size A)%nat).
    { unfold ps_abs_size, ps_optlen. subst D O C. destruct (ab_dyn A), (ab_obs A), (ab_cnt A); cbn [ps_ol length]; lia. }
    assert (HvD : ps_holds ps_dyn_file (ps_view (ps_boot fs) PS_DYN) D) by (subst D; apply ps_holds_of; exact VD).
    assert (HvO : ps_holds ps_obs_file (ps_view (ps_boot fs) PS_OBS) O) by (subst O; apply ps_holds_of; exact VO).
    assert (HvC : ps_holds ps_cnt_file (ps_view (ps_boot fs) PS_CNT) C) by (subst C; apply ps_holds_of; exact VC).
    set (m1 := ps_dyn_fold (ps_dyn_step app) D m0).
    set (m2 := ps_set_counts (ps_rounded (psc_freq c) C) m1).
    assert (Hf1 : Forall ps_fresh_rsrc m1).
    { apply ps_dyn_fold_fresh; [exact Hm0|]. intros d Hd0. apply (iv_dynf _ _ _ _ _ _ _ Hi d Hd0). }
    assert (Hf2 : Forall ps_fresh_rsrc m2) by (apply ps_set_counts_fresh; exact Hf1).
    pose proof (ps_startup_mem pol app req alloc c Hla Hlt alloc_len m0 D O C fs Hd Ho Hc Hu HD HO HC
                  ltac:(lia) ltac:(lia) ltac:(lia) HvD HvO HvC (ps_fresh_mem_ok _ Hf2)) as Hrun.
    exists (ps_restored_mem app req alloc c m0 D O C). split; [exact Hrun|].
    (* resources *)
    assert (Hres : forall n r, ps_find n m = Some r -> psr_observable r = true -> ps_has m2 n).
    { intros n r Hf Hob. apply (proj2 (ps_set_counts_has pol app req (ps_rounded (psc_freq c) C) m1 n)).
      destruct (iv_dyn _ _ _ _ _ _ _ Hi n r Hf Hob) as [Hs|(d & Hd0 & Hdn)].
      - apply ps_dyn_fold_has. exact Hs.
      - rewrite <- Hdn. apply ps_dyn_restored; [|exact Hd0].
        intros d' Hd'. exists true. apply (iv_dynf _ _ _ _ _ _ _ Hi d' Hd'). }
    split; [intros n r Hf Hob; unfold ps_restored_mem; apply (proj2 (ps_obs_fold_has app req alloc c O m2 C n)); apply (Hres n r Hf Hob)|].
    split.
    - (* observations *)
      intros n s Hs. apply (ps_restored_observations app req alloc c m0 D O C).
      + intros n' rs Hf'. apply (ps_find_forall _ m2 n' rs Hf2 Hf').
      + intros rec Hr. destruct (iv_obs2 _ _ _ _ _ _ _ Hi rec Hr) as (n' & s' & Hs' & ->).
        destruct (iv_sub _ _ _ _ _ _ _ Hi n' s' Hs') as (Hreq & _).
        destruct Hs' as (r' & Hf' & Hin').
        destruct (iv_res _ _ _ _ _ _ _ Hi n' r' Hf') as (_ & _ & _ & Hobs').
        assert (Hob : psr_observable r' = true) by (apply Hobs'; intro X; rewrite X in Hin'; contradiction).
        pose proof (Hres n' r' Hf' Hob) as Hh. unfold ps_has in Hh.
        destruct (ps_find n' m2) as [rs|] eqn:E2; [|contradiction].
        split; [cbn [ps_obs_of pso_proto]; apply ps_beq_refl|].
        split; [cbn [ps_obs_of pso_listen]; apply ps_beq_refl|].
        exists n', (pss_token s'), (pss_ck s'), rs. cbn [ps_obs_of pso_pkt].
        split; [exact Hreq|]. split; [exact E2|]. apply (ps_find_forall _ m2 n' rs Hf2 E2).
      + apply (ps_nodup_map_transfer _ _ _ (ps_ktok req) pso_key O (iv_obs3 _ _ _ _ _ _ _ Hi)).
        intros a b Ha Hb E.
        destruct (iv_obs2 _ _ _ _ _ _ _ Hi a Ha) as (n1 & s1 & H1 & ->).
        destruct (iv_obs2 _ _ _ _ _ _ _ Hi b Hb) as (n2 & s2 & H2 & ->).
        destruct (iv_sub _ _ _ _ _ _ _ Hi n1 s1 H1) as (R1 & _).
        destruct (iv_sub _ _ _ _ _ _ _ Hi n2 s2 H2) as (R2 & _).
        unfold ps_ktok in E. cbn [ps_obs_of pso_pkt pso_tuple] in E. rewrite R1, R2 in E.
        inversion E; subst n2. cbn [ps_obs_of pso_key]. f_equal.
        apply (iv_tok _ _ _ _ _ _ _ Hi n1 s1 s2 H1 H2); assumption.
      + apply (ps_nodup_map_transfer _ _ _ (ps_kck req) pso_key O (iv_obs3 _ _ _ _ _ _ _ Hi)).
        intros a b Ha Hb E.
        destruct (iv_obs2 _ _ _ _ _ _ _ Hi a Ha) as (n1 & s1 & H1 & ->).
        destruct (iv_obs2 _ _ _ _ _ _ _ Hi b Hb) as (n2 & s2 & H2 & ->).
        destruct (iv_sub _ _ _ _ _ _ _ Hi n1 s1 H1) as (R1 & _).
        destruct (iv_sub _ _ _ _ _ _ _ Hi n2 s2 H2) as (R2 & _).
        unfold ps_kck in E. cbn [ps_obs_of pso_pkt pso_tuple] in E. rewrite R1, R2 in E.
        inversion E; subst n2. cbn [ps_obs_of pso_key]. f_equal.
        apply (iv_ck _ _ _ _ _ _ _ Hi n1 s1 s2 H1 H2); assumption.
      + apply (iv_obs1 _ _ _ _ _ _ _ Hi n s Hs).
    - (* counters *)
      intros n tu tok v rR Hin HfR.
      destruct (iv_sent _ _ _ _ _ _ _ Hi n tu tok v Hin) as (r & Hf & Hv & x & Hx).
      destruct (iv_cnt2 _ _ _ _ _ _ _ Hi n x r Hx Hf) as (Hx0 & Hxr).
      destruct (iv_res _ _ _ _ _ _ _ Hi n r Hf) as (_ & Hrange & _).
      (* the resource exists when the counters are assigned *)
      assert (Hh1 : ps_has m1 n).
      { apply (proj1 (ps_set_counts_has pol app req (ps_rounded (psc_freq c) C) m1 n)). fold m2.
        apply (proj1 (ps_obs_fold_has app req alloc c O m2 C n)). unfold ps_has. unfold ps_restored_mem in HfR.
        fold m1 m2 in HfR. rewrite HfR. discriminate. }
      unfold ps_has in Hh1. destruct (ps_find n m1) as [r1|] eqn:E1; [|contradiction].
      destruct (ps_set_counts_line (ps_rounded (psc_freq c) C) m1 n (ps_round (psc_freq c) x) r1)
        as (r2 & E2 & Hobs2).
      + unfold ps_rounded. rewrite map_map. cbn [fst]. apply (iv_cnt1 _ _ _ _ _ _ _ Hi).
      + unfold ps_rounded. apply in_map_iff. exists (n, x). split; [reflexivity|exact Hx].
      + exact E1.
      + pose proof (ps_obs_fold_observe O m2 C n) as Hsame. unfold ps_restored_mem in HfR.
        fold m1 m2 in HfR. fold m2 in E2. rewrite HfR, E2 in Hsame. cbn [option_map] in Hsame.
        inversion Hsame as [Heq]. rewrite Heq, Hobs2.
        unfold ps_bound in Hrange.
        assert (Hr : ps_round (psc_freq c) x = ps_rnd (psc_freq c) x) by (apply ps_round_rnd; lia).
        pose proof (ps_rnd_ge (psc_freq c) freq_pos x Hx0).
        assert (Hup : ps_rnd (psc_freq c) x <= x + psc_freq c - 1).
        { unfold ps_rnd. pose proof (Z.div_mod (x + psc_freq c) (psc_freq c) ltac:(lia)).
          pose proof (Z.mod_pos_bound (x + psc_freq c) (psc_freq c) freq_pos). nia. }
        rewrite Hr, Z.mod_small by lia. lia.
  Qed.
End RestoreCoh.

(* C17 - the record readers/writers, the six updaters and the counter/observe loaders of
   src/coap_subscribe.c as programs over the stdio model of Fs.v, call for call:

     ps_obs_read / ps_obs_write          coap_op_observe_read / coap_op_observe_write
     ps_dyn_read / ps_dyn_write          coap_op_dyn_resource_read / coap_op_dyn_resource_write
     ps_obs_added, ps_obs_deleted        coap_op_observe_added, coap_op_observe_deleted
     ps_cnt_track, ps_cnt_deleted        coap_op_obs_cnt_track_observe, coap_op_obs_cnt_deleted
     ps_dyn_added, ps_res_deleted        coap_op_dyn_resource_added, coap_op_resource_deleted
     ps_dyn_added_old                    coap_op_dyn_resource_added before the fix (fopen "a")

   Every loop runs on fuel; running out of fuel returns the distinguished value PS_FUEL, which
   the theorems prove unreachable when the fuel is at least the size of the file + 1.
   Return values: 1 / 0 as in C.  Memory allocation failures are not modelled (C18). *)
From Coq Require Import ZArith List Bool.
From LibcoapV Require Import Base.Bytes Persist.Fs Persist.Records.
Import ListNotations.
Local Open Scope Z_scope.

Definition PS_FUEL := -1.

(* file indices *)
Definition PS_DYN := 0.
Definition PS_OBS := 1.
Definition PS_CNT := 2.

Definition ps_rd {A} (h sz : Z) (k : option bytes -> ps_prog A) : ps_prog A :=
  PsDo (PoRead h sz) (fun r => match r with PrData true d => k (Some d) | _ => k None end).

Definition ps_wr {A} (h : Z) (d : bytes) (k : bool -> ps_prog A) : ps_prog A :=
  PsDo (PoWrite h d) (fun r => match r with PrInt 1 => k true | _ => k false end).

Definition ps_open {A} (n : ps_name) (m : ps_mode) (k : option Z -> ps_prog A) : ps_prog A :=
  PsDo (PoOpen n m) (fun r => match r with PrH h => k (Some h) | _ => k None end).

Definition ps_then {A} (op : ps_op) (k : ps_prog A) : ps_prog A := PsDo op (fun _ => k).

Definition ps_close_opt {A} (h : option Z) (k : ps_prog A) : ps_prog A :=
  match h with Some x => ps_then (PoClose x) k | None => k end.

(* the common failure exit: close what is open, remove the temporary file *)
Definition ps_fail_exit (hnew horig : option Z) (tmp : ps_name) : ps_prog Z :=
  ps_close_opt hnew (ps_close_opt horig (ps_then (PoRemove tmp) (PsRet 0))).

(* the common success exit: fflush, fclose new, fclose orig, rename *)
Definition ps_commit (hn : Z) (horig : option Z) (f : Z) : ps_prog Z :=
  PsDo (PoFlush hn) (fun r =>
    match r with
    | PrInt 0 =>
        ps_then (PoClose hn) (ps_close_opt horig
          (ps_then (PoRename (PsTmp f) (PsBase f)) (PsRet 1)))
    | _ => ps_fail_exit (Some hn) horig (PsTmp f)
    end).

(* The shape shared by all six updaters:
     fp_orig = fopen(file, "r");          [absent: some updaters give up here, some go on]
     fp_new = fopen(file.tmp, "w+");
     copy loop over fp_orig (skipped when it is NULL);
     optional tail (the new entry);
     fflush, fclose, fclose, rename   -  or the failure exit.
   loop: Some true = normal end, Some false = "goto fail", None = out of fuel. *)
Definition ps_txn_body (f : Z) (loop : Z -> Z -> ps_prog (option bool))
           (tail : Z -> ps_prog bool) (horig : option Z) : ps_prog Z :=
  ps_open (PsTmp f) PsWp (fun hnew =>
  match hnew with
  | None => ps_fail_exit None horig (PsTmp f)
  | Some hn =>
      ps_bind (match horig with
               | Some ho => loop ho hn
               | None => PsRet (Some true)
               end) (fun c =>
        match c with
        | None => PsRet PS_FUEL
        | Some false => ps_fail_exit (Some hn) horig (PsTmp f)
        | Some true =>
            ps_bind (tail hn) (fun ok =>
              if ok then ps_commit hn horig f
              else ps_fail_exit (Some hn) horig (PsTmp f))
        end)
  end).

Definition ps_txn (f : Z) (must_exist : bool) (ret_missing : Z)
           (loop : Z -> Z -> ps_prog (option bool)) (tail : Z -> ps_prog bool) : ps_prog Z :=
  ps_open (PsBase f) PsR (fun horig =>
  match horig, must_exist with
  | None, true => PsRet ret_missing
  | _, _ => ps_txn_body f loop tail horig
  end).

Definition ps_no_tail (hn : Z) : ps_prog bool := PsRet true.

(* ------------------------------------------------------------------ observe records *)

Definition ps_obs_read (la lt h : Z) : ps_prog (option ps_obs) :=
  ps_rd h PS_KEY (fun x => match x with None => PsRet None | Some key =>
  ps_rd h PS_PROTO (fun x => match x with None => PsRet None | Some proto =>
  ps_rd h la (fun x => match x with None => PsRet None | Some listen =>
  ps_rd h lt (fun x => match x with None => PsRet None | Some tuple =>
  ps_rd h PS_LEN (fun x => match x with None => PsRet None | Some sz =>
  if negb (ps_size_ok (ps_dec_size sz)) then PsRet None else
  ps_rd h (ps_dec_size sz) (fun x => match x with None => PsRet None | Some pkt =>
  ps_rd h PS_LEN (fun x => match x with None => PsRet None | Some sz2 =>
  if ps_dec_size sz2 =? -1 then PsRet (Some (mkObs key proto listen tuple pkt None)) else
  if negb (ps_size_ok (ps_dec_size sz2)) then PsRet None else
  ps_rd h (ps_dec_size sz2) (fun x => match x with None => PsRet None | Some osc =>
  PsRet (Some (mkObs key proto listen tuple pkt (Some osc)))
  end) end) end) end) end) end) end) end).

Definition ps_obs_write (h : Z) (r : ps_obs) : ps_prog bool :=
  ps_wr h (pso_key r) (fun ok => if negb ok then PsRet false else
  ps_wr h (pso_proto r) (fun ok => if negb ok then PsRet false else
  ps_wr h (pso_listen r) (fun ok => if negb ok then PsRet false else
  ps_wr h (pso_tuple r) (fun ok => if negb ok then PsRet false else
  ps_wr h (ps_enc_size (len (pso_pkt r))) (fun ok => if negb ok then PsRet false else
  ps_wr h (pso_pkt r) (fun ok => if negb ok then PsRet false else
  match pso_osc r with
  | Some o =>
      ps_wr h (ps_enc_size (len o)) (fun ok => if negb ok then PsRet false else
      ps_wr h o (fun ok => PsRet ok))
  | None => ps_wr h (ps_enc_size (-1)) (fun ok => PsRet ok)
  end)))))).

(* copy loop: every record whose key differs from [skip].
   Some true = end of records, Some false = a write failed, None = out of fuel *)
Fixpoint ps_obs_copy (la lt : Z) (fuel : nat) (ho hn : Z) (skip : bytes)
  : ps_prog (option bool) :=
  match fuel with
  | O => PsRet None
  | S f =>
      ps_bind (ps_obs_read la lt ho) (fun r =>
        match r with
        | None => PsRet (Some true)
        | Some r =>
            if ps_beq (pso_key r) skip then ps_obs_copy la lt f ho hn skip
            else ps_bind (ps_obs_write hn r) (fun ok =>
                   if ok then ps_obs_copy la lt f ho hn skip else PsRet (Some false))
        end)
  end.

(* coap_op_observe_added *)
Definition ps_obs_added (la lt : Z) (fuel : nat) (a : ps_obs) : ps_prog Z :=
  ps_txn PS_OBS false 0 (fun ho hn => ps_obs_copy la lt fuel ho hn (pso_key a))
         (fun hn => ps_obs_write hn a).

(* coap_op_observe_deleted *)
Definition ps_obs_deleted (la lt : Z) (fuel : nat) (key : bytes) : ps_prog Z :=
  ps_txn PS_OBS true 0 (fun ho hn => ps_obs_copy la lt fuel ho hn key) ps_no_tail.

(* ------------------------------------------------------------------ counter file *)

(* the fgets loop shared by track_observe and deleted: copy every line whose key is not [name] *)
Fixpoint ps_cnt_copy (fuel : nat) (ho hn : Z) (name : bytes) : ps_prog (option bool) :=
  match fuel with
  | O => PsRet None
  | S f =>
      PsDo (PoGets ho PS_LINE) (fun r =>
        match r with
        | PrData true line =>
            match ps_cnt_parse line with
            | None => PsRet (Some true)                     (* no blank: break *)
            | Some (k, v) =>
                if ps_beq name k then ps_cnt_copy f ho hn name
                else PsDo (PoPrintf hn (ps_cnt_line k v)) (fun r =>
                       match r with
                       | PrInt n => if n <? 0 then PsRet (Some false)
                                    else ps_cnt_copy f ho hn name
                       | _ => PsRet (Some false)
                       end)
            end
        | _ => PsRet (Some true)                            (* end of file *)
        end)
  end.

(* fprintf(fp_new, "%s %u\n", name, value) < 0 -> goto fail *)
Definition ps_cnt_put (name : bytes) (v : Z) (hn : Z) : ps_prog bool :=
  PsDo (PoPrintf hn (ps_cnt_line name v)) (fun r =>
    match r with
    | PrInt n => PsRet (negb (n <? 0))
    | _ => PsRet false
    end).

(* coap_op_obs_cnt_track_observe *)
Definition ps_cnt_track (fuel : nat) (name : bytes) (v : Z) : ps_prog Z :=
  ps_txn PS_CNT false 0 (fun ho hn => ps_cnt_copy fuel ho hn name) (ps_cnt_put name v).

(* coap_op_obs_cnt_deleted *)
Definition ps_cnt_deleted (fuel : nat) (name : bytes) : ps_prog Z :=
  ps_txn PS_CNT true 0 (fun ho hn => ps_cnt_copy fuel ho hn name) ps_no_tail.

(* ------------------------------------------------------------------ dynamic resources *)

Definition ps_dyn_read (h : Z) : ps_prog (option ps_dyn) :=
  ps_rd h PS_PROTO (fun x => match x with None => PsRet None | Some proto =>
  ps_rd h PS_LEN (fun x => match x with None => PsRet None | Some sz =>
  if negb (ps_size_ok (ps_dec_size sz)) then PsRet None else
  (if ps_dec_size sz =? 0 then fun k => k (Some []) else ps_rd h (ps_dec_size sz))
    (fun x => match x with None => PsRet None | Some name =>
  ps_rd h PS_LEN (fun x => match x with None => PsRet None | Some sz2 =>
  if negb (ps_size_ok (ps_dec_size sz2)) then PsRet None else
  ps_rd h (ps_dec_size sz2) (fun x => match x with None => PsRet None | Some pkt =>
  PsRet (Some (mkDyn proto name pkt))
  end) end) end) end) end).

Definition ps_dyn_write (h : Z) (r : ps_dyn) : ps_prog bool :=
  ps_wr h (psd_proto r) (fun ok => if negb ok then PsRet false else
  ps_wr h (ps_enc_size (len (psd_name r))) (fun ok => if negb ok then PsRet false else
  (match psd_name r with [] => fun k => k true | _ => ps_wr h (psd_name r) end)
    (fun ok => if negb ok then PsRet false else
  ps_wr h (ps_enc_size (len (psd_pkt r))) (fun ok => if negb ok then PsRet false else
  ps_wr h (psd_pkt r) (fun ok => PsRet ok))))).

(* the copy loop of the two dynamic-resource updaters: a failed write only ends the loop
   ("break"), it does not take the failure exit.  true = loop left, None = out of fuel *)
Fixpoint ps_dyn_copy (fuel : nat) (ho hn : Z) (name : bytes) : ps_prog (option bool) :=
  match fuel with
  | O => PsRet None
  | S f =>
      ps_bind (ps_dyn_read ho) (fun r =>
        match r with
        | None => PsRet (Some true)
        | Some r =>
            if ps_beq name (psd_name r) then ps_dyn_copy f ho hn name
            else ps_bind (ps_dyn_write hn r) (fun ok =>
                   if ok then ps_dyn_copy f ho hn name else PsRet (Some true))
        end)
  end.

(* coap_op_dyn_resource_added (after fix: the original is opened "r" and may be absent) *)
Definition ps_dyn_added (fuel : nat) (a : ps_dyn) : ps_prog Z :=
  ps_txn PS_DYN false 0 (fun ho hn => ps_dyn_copy fuel ho hn (psd_name a))
         (fun hn => ps_dyn_write hn a).

(* coap_op_dyn_resource_added as it was: fopen(file, "a"), then the same loop *)
Definition ps_dyn_added_old (fuel : nat) (a : ps_dyn) : ps_prog Z :=
  ps_open (PsBase PS_DYN) PsA (fun horig =>
  match horig with
  | None => PsRet 0
  | Some ho =>
      ps_open (PsTmp PS_DYN) PsWp (fun hnew =>
      match hnew with
      | None => ps_fail_exit None horig (PsTmp PS_DYN)
      | Some hn =>
          ps_bind (ps_dyn_copy fuel ho hn (psd_name a)) (fun c =>
            match c with
            | None => PsRet PS_FUEL
            | Some _ =>
                ps_bind (ps_dyn_write hn a) (fun ok =>
                  if ok then ps_commit hn horig PS_DYN
                  else ps_fail_exit (Some hn) horig (PsTmp PS_DYN))
            end)
      end)
  end).

(* the dynamic-resource half of coap_op_resource_deleted *)
Definition ps_dyn_deleted (fuel : nat) (name : bytes) : ps_prog Z :=
  ps_txn PS_DYN true 1 (fun ho hn => ps_dyn_copy fuel ho hn name) ps_no_tail.

(* coap_op_resource_deleted: the dynamic-resource entry first, the counter entry last (so that
   whatever a kill leaves of the resource still has its counter);
   [has_dyn] / [has_cnt]: whether that file was given to coap_persist_startup *)
Definition ps_res_deleted (fuel : nat) (has_dyn has_cnt : bool) (name : bytes) : ps_prog Z :=
  ps_bind (if has_dyn then ps_dyn_deleted fuel name else PsRet 1) (fun d =>
    if d =? PS_FUEL then PsRet PS_FUEL
    else if has_cnt then
      ps_bind (ps_cnt_deleted fuel name) (fun c => if c =? PS_FUEL then PsRet PS_FUEL else PsRet 1)
    else PsRet 1).

(* ------------------------------------------------------------------ loaders (file side) *)

(* coap_op_obs_cnt_load_disk: the (resource key, rounded value) pairs handed to
   coap_persist_set_observe_num, in file order *)
Definition ps_round (freq v : Z) : Z :=
  (((v + freq) mod 4294967296) / freq * freq - 1) mod 4294967296.

Fixpoint ps_cnt_load_loop (fuel : nat) (freq h : Z) (acc : list (bytes * Z))
  : ps_prog (option (list (bytes * Z))) :=
  match fuel with
  | O => PsRet None
  | S f =>
      PsDo (PoGets h PS_LINE) (fun r =>
        match r with
        | PrData true line =>
            match ps_cnt_parse line with
            | None => PsRet (Some (rev acc))
            | Some (k, v) => ps_cnt_load_loop f freq h ((k, ps_round freq v) :: acc)
            end
        | _ => PsRet (Some (rev acc))
        end)
  end.

Definition ps_cnt_load (fuel : nat) (freq : Z) : ps_prog (option (list (bytes * Z))) :=
  ps_open (PsBase PS_CNT) PsR (fun h =>
  match h with
  | None => PsRet (Some [])
  | Some h =>
      ps_bind (ps_cnt_load_loop fuel freq h []) (fun r =>
        ps_then (PoClose h) (PsRet r))
  end).

(* coap_op_dyn_resource_load_disk: for every record the caller's [step] (look the resource up,
   else parse the packet and run the application's handler) updates the caller's state;
   step = None is the "goto fail" exit (unparsable packet, no handler): the loop stops there *)
Fixpoint ps_dyn_load_loop {S : Type} (fuel : nat) (h : Z) (step : ps_dyn -> S -> option S)
         (st : S) : ps_prog (option S) :=
  match fuel with
  | O => PsRet None
  | S f =>
      ps_bind (ps_dyn_read h) (fun r =>
        match r with
        | None => PsRet (Some st)
        | Some r => match step r st with
                    | Some st' => ps_dyn_load_loop f h step st'
                    | None => PsRet (Some st)
                    end
        end)
  end.

Definition ps_dyn_load {S : Type} (fuel : nat) (step : ps_dyn -> S -> option S) (st : S)
  : ps_prog (option S) :=
  ps_open (PsBase PS_DYN) PsR (fun h =>
  match h with
  | None => PsRet (Some st)
  | Some h =>
      ps_bind (ps_dyn_load_loop fuel h step st) (fun r => ps_then (PoClose h) (PsRet r))
  end).

(* coap_op_observe_load_disk: every record is handed to [step] (coap_persist_observe_add_lkd:
   session + subscription are created, which may itself update the counter file); when it
   yields a new key the record is written to the new file under that key.
   result: (state, true) normal end, (state, false) a write failed, None out of fuel *)
Fixpoint ps_obs_load_loop {S : Type} (la lt : Z) (fuel : nat) (ho hn : Z)
         (step : ps_obs -> S -> ps_prog (S * option bytes)) (st : S)
  : ps_prog (option (S * bool)) :=
  match fuel with
  | O => PsRet None
  | S f =>
      ps_bind (ps_obs_read la lt ho) (fun r =>
        match r with
        | None => PsRet (Some (st, true))
        | Some r =>
            ps_bind (step r st) (fun x =>
              match snd x with
              | Some key =>
                  ps_bind (ps_obs_write hn (mkObs key (pso_proto r) (pso_listen r) (pso_tuple r)
                                                  (pso_pkt r) (pso_osc r))) (fun ok =>
                    if ok then ps_obs_load_loop la lt f ho hn step (fst x)
                    else PsRet (Some (fst x, false)))
              | None => ps_obs_load_loop la lt f ho hn step (fst x)
              end)
        end)
  end.

Definition ps_obs_load {S : Type} (la lt : Z) (fuel : nat)
           (step : ps_obs -> S -> ps_prog (S * option bytes)) (st : S) : ps_prog (option S) :=
  ps_open (PsBase PS_OBS) PsR (fun horig =>
  match horig with
  | None => PsRet (Some st)
  | Some ho =>
      ps_open (PsTmp PS_OBS) PsWp (fun hnew =>
      match hnew with
      | None => ps_bind (ps_fail_exit None horig (PsTmp PS_OBS)) (fun _ => PsRet (Some st))
      | Some hn =>
          ps_bind (ps_obs_load_loop la lt fuel ho hn step st) (fun c =>
            match c with
            | None => PsRet None
            | Some (st', false) =>
                ps_bind (ps_fail_exit (Some hn) horig (PsTmp PS_OBS)) (fun _ => PsRet (Some st'))
            | Some (st', true) =>
                ps_bind (ps_commit hn horig PS_OBS) (fun _ => PsRet (Some st'))
            end)
      end)
  end).

(* C17 - file-system and stdio model for the persistence code of src/coap_subscribe.c.

   Persistent state = a finite map from file names to byte strings (what the kernel holds, i.e.
   what is left when the process is killed).  A stdio stream (FILE) is a handle with a mode, a
   read snapshot + position (mode "r") or a user-space buffer of bytes that were handed to
   fwrite/fprintf but have not reached the kernel yet (modes "w+" and "a").  How much of that
   buffer the C library pushes to the kernel at each fwrite is NOT fixed by the model: it is the
   parameter [pol] (any function; the result is clipped), so every theorem proved for all [pol]
   holds for every buffering strategy (unbuffered, line/block buffered, fully buffered).
   fflush/fclose push everything.  rename(2) replaces the target atomically; a killed process
   loses exactly the handles (ps_crash): these two facts are the trusted assumptions about the
   operating system named in the notes.

   Only what the persistence code uses is modelled: fopen "r" / "w+" / "a", fread(p, size, 1, f),
   fgets, fwrite(p, size, 1, f), fprintf (as the bytes it produces), fflush, fclose, rename,
   remove.  A stream opened "a" or "w+" is never read by the code; reading it fails in the model
   (for "a" that is the C semantics: the stream is write-only). *)
From Coq Require Import ZArith List Bool.
From LibcoapV Require Import Base.Bytes.
Import ListNotations.
Local Open Scope Z_scope.

(* file names: the three persistence files are PsBase 0/1/2, "<file>.tmp" is PsTmp *)
Inductive ps_name := PsBase (i : Z) | PsTmp (i : Z).

Definition ps_name_eqb (a b : ps_name) : bool :=
  match a, b with
  | PsBase i, PsBase j => i =? j
  | PsTmp i, PsTmp j => i =? j
  | _, _ => false
  end.

Definition ps_is_tmp (n : ps_name) : bool :=
  match n with PsTmp _ => true | PsBase _ => false end.

Inductive ps_mode := PsR | PsWp | PsA.      (* "r"  "w+"  "a" *)

Definition ps_writable (m : ps_mode) : bool :=
  match m with PsR => false | _ => true end.

Record ps_handle := mkPsH {
  psh_name : ps_name;
  psh_mode : ps_mode;
  psh_data : bytes;       (* "r": contents at fopen time *)
  psh_pos  : Z;           (* "r": read position *)
  psh_pend : bytes;       (* "w+"/"a": bytes still in the user-space buffer *)
  psh_open : bool }.

Definition ps_files := list (ps_name * bytes).

Record ps_sys := mkPsS {
  ps_fs : ps_files;
  ps_hs : list (Z * ps_handle);
  ps_next : Z }.         (* next handle id; ids are never reused inside one process *)

Fixpoint ps_get (n : ps_name) (fs : ps_files) : option bytes :=
  match fs with
  | [] => None
  | (m, b) :: tl => if ps_name_eqb n m then Some b else ps_get n tl
  end.

Fixpoint ps_del (n : ps_name) (fs : ps_files) : ps_files :=
  match fs with
  | [] => []
  | (m, b) :: tl => if ps_name_eqb n m then ps_del n tl else (m, b) :: ps_del n tl
  end.

Definition ps_put (n : ps_name) (b : bytes) (fs : ps_files) : ps_files := (n, b) :: ps_del n fs.

Fixpoint ps_hget (h : Z) (hs : list (Z * ps_handle)) : option ps_handle :=
  match hs with
  | [] => None
  | (i, x) :: tl => if h =? i then Some x else ps_hget h tl
  end.

Definition ps_hput (h : Z) (x : ps_handle) (hs : list (Z * ps_handle)) := (h, x) :: hs.

(* operations and their results *)
Inductive ps_op :=
| PoOpen (n : ps_name) (m : ps_mode)
| PoRead (h : Z) (sz : Z)            (* fread(p, sz, 1, f) *)
| PoGets (h : Z) (cap : Z)           (* fgets(buf, cap, f) *)
| PoWrite (h : Z) (d : bytes)        (* fwrite(d, len d, 1, f) *)
| PoPrintf (h : Z) (d : bytes)       (* fprintf(f, ...) producing d *)
| PoFlush (h : Z)
| PoClose (h : Z)
| PoRename (a b : ps_name)
| PoRemove (n : ps_name).

Inductive ps_res :=
| PrH (h : Z)                        (* fopen: stream *)
| PrNull                             (* fopen: NULL *)
| PrData (ok : bool) (d : bytes)     (* fread: ok = (return value 1); fgets: ok = (non-NULL) *)
| PrInt (n : Z).                     (* return value of the other calls *)

(* buffering: of pend ++ d, the first n bytes reach the kernel now *)
Definition ps_clip (lo hi x : Z) : Z := Z.max lo (Z.min hi x).

Definition ps_push (pol : Z -> Z -> Z) (pend d : bytes) : bytes * bytes :=
  let all := pend ++ d in
  let n := ps_clip 0 (len all) (pol (len pend) (len d)) in
  (take n all, drop n all).

(* append to the file a handle was opened on (if the name still exists) *)
Definition ps_append (n : ps_name) (d : bytes) (fs : ps_files) : ps_files :=
  match ps_get n fs with
  | Some b => ps_put n (b ++ d) fs
  | None => fs
  end.

(* one line for fgets: at most cap-1 bytes, ending after the first newline *)
Fixpoint ps_line (fuel : nat) (l : bytes) : bytes :=
  match fuel, l with
  | O, _ => []
  | _, [] => []
  | S f, b :: tl => if b =? 10 then [b] else b :: ps_line f tl
  end.

Definition ps_out (pol : Z -> Z -> Z) (s : ps_sys) (h : Z) (d : bytes) (flush : bool)
           (close : bool) : option ps_sys :=
  match ps_hget h (ps_hs s) with
  | Some x =>
      if psh_open x && ps_writable (psh_mode x) then
        let '(now, later) := if flush then (psh_pend x ++ d, []) else ps_push pol (psh_pend x) d in
        Some (mkPsS (ps_append (psh_name x) now (ps_fs s))
                    (ps_hput h (mkPsH (psh_name x) (psh_mode x) (psh_data x) (psh_pos x) later
                                      (negb close)) (ps_hs s))
                    (ps_next s))
      else None
  | None => None
  end.

Definition ps_step (pol : Z -> Z -> Z) (op : ps_op) (s : ps_sys) : ps_res * ps_sys :=
  match op with
  | PoOpen n m =>
      match m with
      | PsR =>
          match ps_get n (ps_fs s) with
          | Some b => (PrH (ps_next s),
                       mkPsS (ps_fs s) (ps_hput (ps_next s) (mkPsH n PsR b 0 [] true) (ps_hs s))
                             (ps_next s + 1))
          | None => (PrNull, s)
          end
      | PsWp => (PrH (ps_next s),
                 mkPsS (ps_put n [] (ps_fs s))
                       (ps_hput (ps_next s) (mkPsH n PsWp [] 0 [] true) (ps_hs s)) (ps_next s + 1))
      | PsA => (PrH (ps_next s),
                mkPsS (match ps_get n (ps_fs s) with Some _ => ps_fs s | None => ps_put n [] (ps_fs s) end)
                      (ps_hput (ps_next s) (mkPsH n PsA [] 0 [] true) (ps_hs s)) (ps_next s + 1))
      end
  | PoRead h sz =>
      match ps_hget h (ps_hs s) with
      | Some x =>
          if psh_open x && negb (ps_writable (psh_mode x)) then
            if (0 <? sz) && (psh_pos x + sz <=? len (psh_data x)) then
              (PrData true (take sz (drop (psh_pos x) (psh_data x))),
               mkPsS (ps_fs s)
                     (ps_hput h (mkPsH (psh_name x) (psh_mode x) (psh_data x) (psh_pos x + sz)
                                       (psh_pend x) true) (ps_hs s)) (ps_next s))
            else if 0 <? sz then
              (* short item: the partial bytes are consumed, the stream is at end of file *)
              (PrData false [],
               mkPsS (ps_fs s)
                     (ps_hput h (mkPsH (psh_name x) (psh_mode x) (psh_data x) (len (psh_data x))
                                       (psh_pend x) true) (ps_hs s)) (ps_next s))
            else (PrData false [], s)
          else (PrData false [], s)
      | None => (PrData false [], s)
      end
  | PoGets h cap =>
      match ps_hget h (ps_hs s) with
      | Some x =>
          if psh_open x && negb (ps_writable (psh_mode x)) then
            let l := ps_line (Z.to_nat (cap - 1)) (drop (psh_pos x) (psh_data x)) in
            match l with
            | [] => (PrData false [], s)
            | _ => (PrData true l,
                    mkPsS (ps_fs s)
                          (ps_hput h (mkPsH (psh_name x) (psh_mode x) (psh_data x) (psh_pos x + len l)
                                            (psh_pend x) true) (ps_hs s)) (ps_next s))
            end
          else (PrData false [], s)
      | None => (PrData false [], s)
      end
  | PoWrite h d =>
      match d with
      | [] => (PrInt 0, s)                       (* fwrite(p, 0, 1, f) returns 0 *)
      | _ => match ps_out pol s h d false false with
             | Some s' => (PrInt 1, s')
             | None => (PrInt 0, s)
             end
      end
  | PoPrintf h d =>
      match ps_out pol s h d false false with
      | Some s' => (PrInt (len d), s')
      | None => (PrInt (-1), s)
      end
  | PoFlush h =>
      match ps_out pol s h [] true false with
      | Some s' => (PrInt 0, s')
      | None =>
          (* fflush on a read stream: nothing to write *)
          (PrInt 0, s)
      end
  | PoClose h =>
      match ps_hget h (ps_hs s) with
      | Some x =>
          if psh_open x then
            if ps_writable (psh_mode x) then
              match ps_out pol s h [] true true with
              | Some s' => (PrInt 0, s')
              | None => (PrInt (-1), s)
              end
            else (PrInt 0,
                  mkPsS (ps_fs s)
                        (ps_hput h (mkPsH (psh_name x) (psh_mode x) (psh_data x) (psh_pos x)
                                          (psh_pend x) false) (ps_hs s)) (ps_next s))
          else (PrInt (-1), s)
      | None => (PrInt (-1), s)
      end
  | PoRename a b =>
      match ps_get a (ps_fs s) with
      | Some c => (PrInt 0, mkPsS (ps_put b c (ps_del a (ps_fs s))) (ps_hs s) (ps_next s))
      | None => (PrInt (-1), s)
      end
  | PoRemove n =>
      match ps_get n (ps_fs s) with
      | Some _ => (PrInt 0, mkPsS (ps_del n (ps_fs s)) (ps_hs s) (ps_next s))
      | None => (PrInt (-1), s)
      end
  end.

(* a killed process: the files stay, every stream (and its unwritten buffer) is gone *)
Definition ps_crash (s : ps_sys) : ps_sys := mkPsS (ps_fs s) [] 0.

Definition ps_boot (fs : ps_files) : ps_sys := mkPsS fs [] 0.

(* programs: trees of operations; the continuation receives the result of the call *)
Inductive ps_prog (A : Type) : Type :=
| PsRet (a : A)
| PsDo (op : ps_op) (k : ps_res -> ps_prog A).
Arguments PsRet {A} a.
Arguments PsDo {A} op k.

Fixpoint ps_bind {A B} (p : ps_prog A) (f : A -> ps_prog B) : ps_prog B :=
  match p with
  | PsRet a => f a
  | PsDo op k => PsDo op (fun r => ps_bind (k r) f)
  end.

Fixpoint ps_run (pol : Z -> Z -> Z) {A} (p : ps_prog A) (s : ps_sys) : A * ps_sys :=
  match p with
  | PsRet a => (a, s)
  | PsDo op k => let '(r, s') := ps_step pol op s in ps_run pol (k r) s'
  end.

(* the system after the first k calls of p (all of them if p makes fewer) *)
Fixpoint ps_runk (pol : Z -> Z -> Z) {A} (p : ps_prog A) (k : nat) (s : ps_sys) : ps_sys :=
  match k, p with
  | O, _ => s
  | _, PsRet _ => s
  | S k', PsDo op c => let '(r, s') := ps_step pol op s in ps_runk pol (c r) k' s'
  end.

(* the calls p makes, with their results *)
Fixpoint ps_trace (pol : Z -> Z -> Z) {A} (p : ps_prog A) (s : ps_sys) : list (ps_op * ps_res) :=
  match p with
  | PsRet _ => []
  | PsDo op k => let '(r, s') := ps_step pol op s in (op, r) :: ps_trace pol (k r) s'
  end.

(* the persistent view: contents of the three files *)
Definition ps_view (s : ps_sys) (i : Z) : option bytes := ps_get (PsBase i) (ps_fs s).

(* the two policies used by the executable tie: nothing before fflush, and write-through *)
Definition ps_pol_lazy (_ _ : Z) : Z := 0.
Definition ps_pol_eager (a b : Z) : Z := a + b.

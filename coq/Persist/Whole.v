(* C17 - whole histories: the invariant of Coherence.v holds after every event of every history,
   the files at any kill point are the coherent files of the last event boundary plus a prefix of
   the interrupted event's updater calls, and a restart from coherent files gives back the
   memory state's resources, observations and counters (RestoreCoh.v). *)
From LibcoapV Require Import Base.Tactics Base.Bytes Base.BytesProofs Persist.Fs Persist.FsProofs
  Persist.Records Persist.RecordsProofs Persist.Updaters Persist.UpdatersProofs Persist.History
  Persist.Server Persist.Restore Persist.MemLemmas Persist.EventCalls Persist.Counter
  Persist.Coherence Persist.RestoreCoh.
Local Open Scope Z_scope.

Section Whole.
  Variable pol : Z -> Z -> Z.
  Variable app : bytes -> option (bytes * bool).
  Variable req : bytes -> option (bytes * bytes * bytes).
  Variable alloc : list bytes -> bytes.
  Variable c : ps_cfg.
  Variable m0 : ps_mem.
  Hypothesis alloc_fresh : forall live, ~ In (alloc live) live.
  Hypothesis alloc_len : forall live, len (alloc live) = PS_KEY.
  Hypothesis cfg_proto : len (psc_proto c) = PS_PROTO.
  Hypothesis cfg_listen : len (psc_listen c) = psc_la c.
  Hypothesis freq_pos : 0 < psc_freq c.
  Hypothesis freq_small : psc_freq c < 1000000.
  Hypothesis cfg_dyn : psc_dyn c = true.
  Hypothesis cfg_obs : psc_obs c = true.
  Hypothesis cfg_cnt : psc_cnt c = true.
  Hypothesis cfg_unknown : psc_unknown c = true.
  Hypothesis la_pos : 0 < psc_la c.
  Hypothesis lt_pos : 0 < psc_lt c.

  (* every event of the history has sound arguments in the memory state it meets *)
  Fixpoint ps_hist_ok (evs : list ps_event) (m : ps_mem) : Prop :=
    match evs with
    | [] => True
    | e :: tl => ps_evt_ok app req c e m /\ ps_hist_ok tl (fst (ps_ev_out alloc e m))
    end.

  Fixpoint ps_ghosts (evs : list ps_event) (m : ps_mem) (G : list ps_send) : list ps_send :=
    match evs with
    | [] => G
    | e :: tl => ps_ghosts tl (fst (ps_ev_out alloc e m)) (ps_ghost alloc e m G)
    end.

  Notation inv := (ps_inv app req c m0).

  Lemma ps_evt_ok_server : forall e m, ps_evt_ok app req c e m -> ps_ev_server e.
  Proof. intros [] m H; cbn in *; tauto. Qed.

  (* the invariant along a history *)
  Theorem ps_inv_history : forall evs m A G,
    inv m A G -> ps_hist_ok evs m ->
    inv (fst (ps_hist_state alloc c evs m A)) (snd (ps_hist_state alloc c evs m A)) (ps_ghosts evs m G) /\
    ps_hist_wf alloc c evs m.
  Proof.
    induction evs as [|e evs IH]; intros m A G Hi Hok; cbn [ps_hist_state ps_ghosts ps_hist_wf fst snd].
    - split; [exact Hi|exact I].
    - destruct Hok as [He Hok].
      destruct (ps_inv_event app req alloc c m0 alloc_fresh alloc_len cfg_proto cfg_listen freq_pos freq_small
                             e m A G Hi He) as [Hcw Hi'].
      destruct (IH _ _ _ Hi' Hok) as [Hf Hw].
      split; [exact Hf|]. split; [eapply ps_evt_ok_server; exact He|]. split; [exact Hcw|exact Hw].
  Qed.

  Lemma ps_hist_ok_app : forall evs1 rest m,
    ps_hist_ok (evs1 ++ rest) m ->
    ps_hist_ok evs1 m /\ forall A, ps_hist_ok rest (fst (ps_hist_state alloc c evs1 m A)).
  Proof.
    induction evs1 as [|e evs1 IH]; intros rest m H; cbn [List.app ps_hist_ok ps_hist_state] in *.
    - split; [exact I|intros A; exact H].
    - destruct H as [He H]. destruct (IH rest _ H) as [H1 H2]. split; [split; assumption|].
      intro A. apply H2.
  Qed.

  (* the fresh process: what the application registers, no files *)
  Definition ps_abs0 : ps_abs := mkAbs None None None.

  Lemma ps_inv_init :
    Forall (ps_fresh_rsrc) m0 -> NoDup (map psr_name m0) ->
    (forall r, In r m0 -> psr_observe r <= ps_bound c) ->
    inv m0 ps_abs0 [].
  Proof.
    intros Hm0 Hnd Hb.
    assert (Hnosub : forall n s, ~ ps_insub m0 n s).
    { intros n s (r & Hf & Hin). destruct (ps_find_forall _ m0 n r Hm0 Hf) as (_ & H2 & _).
      rewrite H2 in Hin. contradiction. }
    constructor; try (intros; exfalso; eapply Hnosub; eassumption); try (cbn; intros; contradiction).
    - exact Hnd.
    - intros n r Hf. destruct (ps_find_forall _ m0 n r Hm0 Hf) as (H1 & H2 & H3 & H4).
      rewrite (ps_find_name n m0 r Hf) in H3. split; [exact H3|].
      split; [split; [lia|apply Hb; eapply ps_find_in; exact Hf]|].
      rewrite H2. split; [constructor|]. intro X. contradiction.
    - cbn. repeat split; exact I.
    - intros n r Hf _. left. unfold ps_has. rewrite Hf. discriminate.
    - cbn. constructor.
    - cbn. constructor.
    - intros n r Hf Hs. destruct (ps_find_forall _ m0 n r Hm0 Hf) as (_ & H2 & _). contradiction.
  Qed.

  (* C17_atomic + C17_update_correct + coherence, over whole histories, at every kill point:
     evs1 = the events completed before the kill; the files hold the files A1 that are coherent
     with the memory state m1 after evs1, advanced by the first j updater calls of the event that
     was interrupted *)
  Theorem ps_whole_history : forall evs m A G sent s k,
    inv m A G -> ps_hist_ok evs m ->
    (ps_abs_size A + ps_hist_ncalls alloc c evs m < psc_fuel c)%nat ->
    ps_tmpw s -> ps_holdsA s A ->
    exists evs1 rest j,
      evs = evs1 ++ rest /\
      inv (fst (ps_hist_state alloc c evs1 m A)) (snd (ps_hist_state alloc c evs1 m A)) (ps_ghosts evs1 m G) /\
      ps_hist_ok rest (fst (ps_hist_state alloc c evs1 m A)) /\
      ps_holdsA (ps_runk pol (ps_hist alloc c evs m sent) k s)
        (ps_abs_calls (firstn j (match rest with
                                 | e :: _ => ps_ev_calls alloc c e (fst (ps_hist_state alloc c evs1 m A))
                                 | [] => []
                                 end)) (snd (ps_hist_state alloc c evs1 m A))).
  Proof.
    intros evs m A G sent s k Hi Hok Hsz Hs Hh.
    destruct (ps_inv_history evs m A G Hi Hok) as [_ Hwf].
    destruct (ps_hist_crash pol alloc c cfg_dyn cfg_obs cfg_cnt la_pos lt_pos evs m sent A s k
                            (iv_wf _ _ _ _ _ _ _ Hi) Hwf Hsz Hs Hh) as (evs1 & rest & j & He & Hj).
    exists evs1, rest, j. split; [exact He|]. subst evs.
    destruct (ps_hist_ok_app evs1 rest m Hok) as [Hok1 Hok2].
    split; [apply (ps_inv_history evs1 m A G Hi Hok1)|]. split; [apply Hok2|exact Hj].
  Qed.

  (* restart after a kill that falls on an updater boundary that is also an event boundary
     (between two events, or anywhere in an event that makes at most one updater call) *)
  Theorem ps_whole_restart : forall m A G s,
    Forall ps_fresh_rsrc m0 ->
    inv m A G -> (ps_abs_size A + ps_abs_size A < psc_fuel c)%nat -> ps_holdsA s A ->
    exists mR,
      fst (ps_run pol (ps_startup app req alloc c m0) (ps_boot (ps_fs s))) = Some mR /\
      (forall n r, ps_find n m = Some r -> psr_observable r = true -> ps_has mR n) /\
      (forall n su, ps_insub m n su -> ps_present req mR (ps_obs_of c su)) /\
      (forall n tu tok v rR, In (n, tu, tok, v) G -> ps_find n mR = Some rR -> v < psr_observe rR + 1).
  Proof.
    intros m A G s Hm0 Hi Hsz Hh.
    eapply ps_inv_restores; try eassumption.
  Qed.
End Whole.

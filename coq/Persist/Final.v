(* C17 - the theorem over whole histories and all kill points: restarting from the files left
   by a kill anywhere in any event history gives back the resources, observations and counters
   of the memory state after the last completed updater. *)
From LibcoapV Require Import Base.Tactics Base.Bytes Base.BytesProofs Persist.Fs Persist.FsProofs
  Persist.Records Persist.RecordsProofs Persist.Updaters Persist.UpdatersProofs Persist.History
  Persist.Server Persist.Restore Persist.MemLemmas Persist.EventCalls Persist.Counter
  Persist.Coherence Persist.RestoreCoh Persist.Whole Persist.Weak Persist.MidEvent.
Local Open Scope Z_scope.

Section Final.
  Variable pol : Z -> Z -> Z.
  Variable app : bytes -> option (bytes * bool).
  Variable req : bytes -> option (bytes * bytes * bytes).
  Variable alloc : list bytes -> bytes.
  Variable c : ps_cfg.
  Variable m0 : ps_mem.
  Hypothesis alloc_fresh : forall live, ~ In (alloc live) live.
  Hypothesis alloc_len : forall live, len (alloc live) = PS_KEY.
  Hypothesis cfg_proto : len (psc_proto c) = PS_PROTO.
  Hypothesis cfg_listen : len (psc_listen c) = psc_la c.
  Hypothesis freq_pos : 0 < psc_freq c.
  Hypothesis freq_small : psc_freq c < 1000000.
  Hypothesis cfg_dyn : psc_dyn c = true.
  Hypothesis cfg_obs : psc_obs c = true.
  Hypothesis cfg_cnt : psc_cnt c = true.
  Hypothesis cfg_unknown : psc_unknown c = true.
  Hypothesis la_pos : 0 < psc_la c.
  Hypothesis lt_pos : 0 < psc_lt c.
  Hypothesis m0_fresh : Forall ps_fresh_rsrc m0.

  Notation inv := (ps_inv app req c m0).
  Notation hstate := (ps_hist_state alloc c).

  Lemma ps_hist_state_size : forall evs m A,
    ps_abs_wf (psc_la c) (psc_lt c) A -> ps_hist_wf alloc c evs m ->
    (ps_abs_size (snd (hstate evs m A)) <= ps_abs_size A + ps_hist_ncalls alloc c evs m)%nat.
  Proof.
    induction evs as [|e evs IH]; intros m A HA Hw; cbn [ps_hist_state ps_hist_ncalls snd]; [lia|].
    destruct Hw as (_ & Hcw & Hw).
    destruct (ps_abs_calls_wf pol c _ A HA Hcw) as [HA' Hs'].
    specialize (IH _ _ HA' Hw). lia.
  Qed.

  Lemma ps_ncalls_app : forall evs1 rest m A,
    ps_hist_ncalls alloc c (evs1 ++ rest) m =
    (ps_hist_ncalls alloc c evs1 m + ps_hist_ncalls alloc c rest (fst (hstate evs1 m A)))%nat.
  Proof.
    induction evs1 as [|e evs1 IH]; intros rest m A; cbn [List.app ps_hist_ncalls ps_hist_state fst]; [reflexivity|].
    rewrite (IH rest _ (ps_abs_calls (ps_ev_calls alloc c e m) A)). lia.
  Qed.

  (* the memory state after the last completed updater, and the Observe values that count *)
  Definition ps_mem_last (rest : list ps_event) (m1 : ps_mem) (j : nat) : ps_mem :=
    match rest with e :: _ => ps_mem_at alloc c e m1 j | [] => m1 end.
  Definition ps_ghost_last (rest : list ps_event) (m1 : ps_mem) (G1 : list ps_send) (j : nat) : list ps_send :=
    match rest with e :: _ => ps_ghost_at alloc c e m1 G1 j | [] => G1 end.

  (* C17_restart_restores + C17_observe_monotone, over every history and every kill point *)
  Theorem ps_history_restart : forall evs m A G sent s k,
    inv m A G -> ps_hist_ok app req alloc c evs m ->
    (2 * (ps_abs_size A + ps_hist_ncalls alloc c evs m) < psc_fuel c)%nat ->
    ps_tmpw s -> ps_holdsA s A ->
    exists evs1 rest j mR,
      evs = evs1 ++ rest /\
      (j <= match rest with e :: _ => length (ps_ev_calls alloc c e (fst (hstate evs1 m A))) | [] => 0 end)%nat /\
      (* the files at the kill: those of the last event boundary, advanced by j updater calls *)
      ps_holdsA (ps_runk pol (ps_hist alloc c evs m sent) k s)
        (ps_abs_calls (firstn j (match rest with
                                 | e :: _ => ps_ev_calls alloc c e (fst (hstate evs1 m A))
                                 | [] => []
                                 end)) (snd (hstate evs1 m A))) /\
      (* a fresh process started on them *)
      fst (ps_run pol (ps_startup app req alloc c m0)
                  (ps_boot (ps_fs (ps_runk pol (ps_hist alloc c evs m sent) k s)))) = Some mR /\
      let mj := ps_mem_last rest (fst (hstate evs1 m A)) j in
      let Gj := ps_ghost_last rest (fst (hstate evs1 m A)) (ps_ghosts alloc evs1 m G) j in
      (forall n r, ps_find n mj = Some r -> psr_observable r = true -> ps_has mR n) /\
      (forall n su, ps_insub mj n su -> ps_present req mR (ps_obs_of c su)) /\
      (forall n tu tok v rR, In (n, tu, tok, v) Gj -> ps_find n mR = Some rR -> v < psr_observe rR + 1).
  Proof.
    intros evs m A G sent s k Hi Hok Hfuel Hs Hh.
    destruct (ps_whole_history pol app req alloc c m0 alloc_fresh alloc_len cfg_proto cfg_listen freq_pos
                freq_small cfg_dyn cfg_obs cfg_cnt la_pos lt_pos evs m A G sent s k Hi Hok ltac:(lia) Hs Hh)
      as (evs1 & rest & j0 & He & Hi1 & Hok1 & Hj).
    set (m1 := fst (hstate evs1 m A)) in *. set (A1 := snd (hstate evs1 m A)) in *.
    set (G1 := ps_ghosts alloc evs1 m G) in *.
    set (calls := match rest with e :: _ => ps_ev_calls alloc c e m1 | [] => [] end) in *.
    set (j := Nat.min j0 (length calls)).
    assert (Efn : firstn j0 calls = firstn j calls).
    { subst j. destruct (Nat.le_ge_cases j0 (length calls)) as [L|L].
      - rewrite Nat.min_l by exact L. reflexivity.
      - rewrite Nat.min_r by exact L. rewrite firstn_all2 by exact L. rewrite firstn_all. reflexivity. }
    rewrite Efn in Hj.
    assert (Hjl : (j <= length calls)%nat) by (subst j; apply Nat.le_min_r).
    (* sizes *)
    destruct (ps_inv_history app req alloc c m0 alloc_fresh alloc_len cfg_proto cfg_listen freq_pos freq_small
                             evs m A G Hi Hok) as [_ Hwf].
    destruct (ps_hist_ok_app app req alloc c evs1 rest m ltac:(rewrite <- He; exact Hok)) as [Hok0 _].
    destruct (ps_inv_history app req alloc c m0 alloc_fresh alloc_len cfg_proto cfg_listen freq_pos freq_small
                             evs1 m A G Hi Hok0) as [_ Hwf1].
    pose proof (ps_hist_state_size evs1 m A (iv_wf _ _ _ _ _ _ _ Hi) Hwf1) as Hsz1. fold A1 in Hsz1.
    assert (Hnc : (ps_hist_ncalls alloc c evs1 m + length calls <= ps_hist_ncalls alloc c evs m)%nat).
    { rewrite He, (ps_ncalls_app evs1 rest m A). fold m1. subst calls.
      destruct rest as [|e rest']; cbn [ps_hist_ncalls length]; lia. }
    (* the weak invariant at the kill point *)
    assert (Hw : ps_invw app req c m0 (ps_mem_last rest m1 j) (ps_abs_calls (firstn j calls) A1)
                         (ps_ghost_last rest m1 G1 j)).
    { unfold ps_mem_last, ps_ghost_last. subst calls. destruct rest as [|e rest'].
      - cbn [firstn]. destruct j; cbn [firstn ps_abs_calls]; apply (ps_inv_invw pol); exact Hi1.
      - destruct Hok1 as [He1 _].
        apply (ps_mid_invw app req alloc c m0 alloc_fresh alloc_len cfg_proto cfg_listen freq_pos freq_small
                           e m1 A1 G1 j Hi1 He1 Hjl). }
    assert (Hcwj : Forall (ps_call_wf (psc_la c) (psc_lt c)) (firstn j calls)).
    { apply ps_forall_firstn. subst calls. destruct rest as [|e rest']; [constructor|].
      destruct Hok1 as [He1 _].
      apply (ps_inv_event app req alloc c m0 alloc_fresh alloc_len cfg_proto cfg_listen freq_pos freq_small
                          e m1 A1 G1 Hi1 He1). }
    destruct (ps_abs_calls_wf pol c (firstn j calls) A1 (iv_wf _ _ _ _ _ _ _ Hi1) Hcwj) as [_ Hszj].
    assert (Hlenj : (length (firstn j calls) <= length calls)%nat) by (rewrite firstn_length; lia).
    destruct (ps_invw_restores pol app req alloc c m0 alloc_len freq_pos
                _ _ _ (ps_fs (ps_runk pol (ps_hist alloc c evs m sent) k s))
                cfg_dyn cfg_obs cfg_cnt cfg_unknown la_pos lt_pos m0_fresh Hw ltac:(lia) Hj)
      as (mR & Hrun & R1 & R2 & R3).
    exists evs1, rest, j, mR. split; [exact He|].
    split; [subst calls; destruct rest; [cbn [length] in Hjl|]; exact Hjl|]. split; [exact Hj|].
    split; [exact Hrun|]. cbn zeta. split; [exact R1|]. split; [exact R2|exact R3].
  Qed.
End Final.

(* what the theorem says about an interrupted DELETE: until its last call every Observe value
   sent before still counts, and until the dynamic-resource record goes the resource is part of
   the memory state that has to come back (with the observers whose records are still there) *)
Theorem ps_delete_window : forall alloc c name rest m G r j,
  ps_find name m = Some r ->
  let p := if ps_del_bump r && (ps_del_value r mod psc_freq c =? 0) then 1%nat else 0%nat in
  (j < length (ps_ev_calls alloc c (PsEvDel name) m))%nat ->
  ps_ghost_last alloc c (PsEvDel name :: rest) m G j = G /\
  ((1 <= j <= p + length (psr_subs r))%nat ->
   ps_mem_last alloc c (PsEvDel name :: rest) m j =
   ps_replace (mkRsrc name (psr_observable r) (ps_del_value r) (skipn (j - p) (psr_subs r))) m).
Proof.
  intros alloc c name rest m G r j Hf p Hj. unfold ps_ghost_last, ps_mem_last, ps_ghost_at, ps_mem_at. split.
  - destruct j as [|j']; [reflexivity|].
    destruct (Nat.leb_spec (length (ps_ev_calls alloc c (PsEvDel name) m)) (S j')); [lia|reflexivity].
  - intros [H1 H2]. destruct j as [|j']; [lia|]. rewrite Hf. fold p.
    destruct (Nat.leb_spec (S j') (p + length (psr_subs r))); [reflexivity|lia].
Qed.

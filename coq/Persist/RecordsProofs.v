(* C17 - round trip of the three record formats, for arbitrary binary content. *)
From LibcoapV Require Import Base.Tactics Base.Bytes Base.BytesProofs Persist.Fs Persist.Records.
Local Open Scope Z_scope.

(* ------------------------------------------------------------------ length fields *)
Lemma ps_len_le : forall n x, len (ps_le n x) = Z.of_nat n.
Proof.
  induction n as [|n IH]; intro x; [reflexivity|].
  cbn [ps_le]. rewrite len_cons, IH. lia.
Qed.

Lemma ps_unle_le : forall n x, 0 <= x -> ps_unle (ps_le n x) = x mod 256 ^ Z.of_nat n.
Proof.
  induction n as [|n IH]; intros x Hx.
  - cbn [ps_le ps_unle]. change (256 ^ Z.of_nat 0) with 1. rewrite Z.mod_1_r. reflexivity.
  - cbn [ps_le ps_unle]. rewrite IH by (apply Z.div_pos; lia).
    rewrite Nat2Z.inj_succ, Z.pow_succ_r by lia.
    rewrite (Z.rem_mul_r x 256 (256 ^ Z.of_nat n)); [reflexivity|lia|].
    apply Z.pow_pos_nonneg; lia.
Qed.

Lemma ps_dec_enc_size : forall x,
  -9223372036854775808 <= x < 9223372036854775808 -> ps_dec_size (ps_enc_size x) = x.
Proof.
  intros x Hx. unfold ps_dec_size, ps_enc_size.
  rewrite ps_unle_le by (apply Z.mod_pos_bound; lia).
  change (256 ^ Z.of_nat 8) with 18446744073709551616.
  rewrite Z.mod_mod by lia.
  destruct (Z.ltb_spec (x mod 18446744073709551616) 9223372036854775808); lia.
Qed.

Lemma ps_len_enc_size : forall x, len (ps_enc_size x) = PS_LEN.
Proof. intro. unfold ps_enc_size. rewrite ps_len_le. reflexivity. Qed.

(* ------------------------------------------------------------------ items *)
Lemma ps_item_app : forall n a rest, len a = n -> 0 < n -> ps_item n (a ++ rest) = Some (a, rest).
Proof.
  intros n a rest Hl Hn. unfold ps_item. subst n.
  rewrite len_app.
  assert (H : (0 <? len a) && (len a <=? len a + len rest) = true).
  { pose proof (len_nonneg rest). apply andb_true_iff. split; lia. }
  rewrite H, take_app_exact, drop_app_exact. reflexivity.
Qed.

Lemma ps_item_some : forall n l a rest,
  ps_item n l = Some (a, rest) -> l = a ++ rest /\ len a = n /\ 0 < n.
Proof.
  intros n l a rest H. unfold ps_item in H.
  destruct ((0 <? n) && (n <=? len l)) eqn:E; [|discriminate].
  apply andb_true_iff in E. destruct E as [E1 E2].
  inversion H; subst. split; [symmetry; apply take_drop|].
  split; [apply len_take|]; lia.
Qed.

Lemma ps_item_nil : forall n, ps_item n [] = None.
Proof.
  intro n. unfold ps_item. change (len (@nil Z)) with 0.
  destruct (Z.ltb_spec 0 n); destruct (Z.leb_spec n 0); try reflexivity; lia.
Qed.

Lemma ps_size_ok_true : forall n, 0 <= n <= PS_MAX -> ps_size_ok n = true.
Proof. intros. unfold ps_size_ok. apply andb_true_iff. split; lia. Qed.

(* ------------------------------------------------------------------ observe records *)
Theorem ps_obs_dec_enc : forall la lt r rest,
  0 < la -> 0 < lt -> ps_obs_wf la lt r ->
  ps_obs_dec la lt (ps_obs_enc r ++ rest) = Some (r, rest).
Proof.
  intros la lt [key proto listen tuple pkt osc] rest Hla Hlt (Hk & Hp & Hl & Ht & Hpk & Ho).
  cbn [pso_key pso_proto pso_listen pso_tuple pso_pkt pso_osc] in *.
  unfold ps_obs_dec, ps_obs_enc. cbn [pso_key pso_proto pso_listen pso_tuple pso_pkt pso_osc].
  rewrite <- !app_assoc.
  rewrite (ps_item_app PS_KEY key) by (assumption || reflexivity).
  rewrite (ps_item_app PS_PROTO proto) by (assumption || reflexivity).
  rewrite (ps_item_app la listen) by assumption.
  rewrite (ps_item_app lt tuple) by assumption.
  rewrite (ps_item_app PS_LEN (ps_enc_size (len pkt))) by (apply ps_len_enc_size || reflexivity).
  unfold PS_MAX in *.
  rewrite ps_dec_enc_size by lia.
  rewrite ps_size_ok_true by (unfold PS_MAX; lia). cbn [negb].
  rewrite (ps_item_app (len pkt) pkt) by (reflexivity || lia).
  destruct osc as [o|].
  - rewrite <- !app_assoc.
    rewrite (ps_item_app PS_LEN (ps_enc_size (len o))) by (apply ps_len_enc_size || reflexivity).
    rewrite ps_dec_enc_size by lia.
    destruct (Z.eqb_spec (len o) (-1)); [lia|].
    rewrite ps_size_ok_true by (unfold PS_MAX; lia). cbn [negb].
    rewrite (ps_item_app (len o) o) by (reflexivity || lia). reflexivity.
  - rewrite (ps_item_app PS_LEN (ps_enc_size (-1))) by (apply ps_len_enc_size || reflexivity).
    rewrite ps_dec_enc_size by lia. rewrite Z.eqb_refl. reflexivity.
Qed.

Theorem ps_dyn_dec_enc : forall r rest,
  ps_dyn_wf r -> ps_dyn_dec (ps_dyn_enc r ++ rest) = Some (r, rest).
Proof.
  intros [proto name pkt] rest (Hp & Hn & Hk).
  cbn [psd_proto psd_name psd_pkt] in *.
  unfold ps_dyn_dec, ps_dyn_enc. cbn [psd_proto psd_name psd_pkt].
  rewrite <- !app_assoc. unfold PS_MAX in *. pose proof (len_nonneg name) as Hn0.
  rewrite (ps_item_app PS_PROTO proto) by (assumption || reflexivity).
  rewrite (ps_item_app PS_LEN (ps_enc_size (len name))) by (apply ps_len_enc_size || reflexivity).
  rewrite ps_dec_enc_size by lia.
  rewrite ps_size_ok_true by (unfold PS_MAX; lia). cbn [negb].
  destruct (Z.eqb_spec (len name) 0) as [E|E].
  - destruct name; [|rewrite len_cons in E; pose proof (len_nonneg name); lia]. cbn [app].
    rewrite (ps_item_app PS_LEN (ps_enc_size (len pkt))) by (apply ps_len_enc_size || reflexivity).
    rewrite ps_dec_enc_size by lia.
    rewrite ps_size_ok_true by (unfold PS_MAX; lia). cbn [negb].
    rewrite (ps_item_app (len pkt) pkt) by (reflexivity || lia). reflexivity.
  - rewrite (ps_item_app (len name) name) by (reflexivity || lia).
    rewrite (ps_item_app PS_LEN (ps_enc_size (len pkt))) by (apply ps_len_enc_size || reflexivity).
    rewrite ps_dec_enc_size by lia.
    rewrite ps_size_ok_true by (unfold PS_MAX; lia). cbn [negb].
    rewrite (ps_item_app (len pkt) pkt) by (reflexivity || lia). reflexivity.
Qed.

(* a whole file: the copy loops and the loaders see exactly the records that were written *)
Theorem ps_obs_all_file : forall la lt l fuel,
  0 < la -> 0 < lt -> Forall (ps_obs_wf la lt) l -> (length l < fuel)%nat ->
  ps_obs_all la lt fuel (ps_obs_file l) = l.
Proof.
  intros la lt l. induction l as [|r l IH]; intros fuel Hla Hlt Hwf Hf.
  - destruct fuel; [lia|]. cbn [ps_obs_all ps_obs_file].
    unfold ps_obs_dec. rewrite ps_item_nil. reflexivity.
  - destruct fuel; [cbn in Hf; lia|]. cbn [ps_obs_all ps_obs_file].
    inversion Hwf; subst.
    rewrite ps_obs_dec_enc by assumption.
    f_equal. apply IH; try assumption. cbn in Hf. lia.
Qed.

Theorem ps_dyn_all_file : forall l fuel,
  Forall ps_dyn_wf l -> (length l < fuel)%nat -> ps_dyn_all fuel (ps_dyn_file l) = l.
Proof.
  induction l as [|r l IH]; intros fuel Hwf Hf.
  - destruct fuel; [lia|]. cbn [ps_dyn_all ps_dyn_file].
    unfold ps_dyn_dec. rewrite ps_item_nil. reflexivity.
  - destruct fuel; [cbn in Hf; lia|]. cbn [ps_dyn_all ps_dyn_file].
    inversion Hwf; subst.
    rewrite ps_dyn_dec_enc by assumption.
    f_equal. apply IH; try assumption. cbn in Hf. lia.
Qed.

(* why ps_obs_wf / ps_dyn_wf ask for non-empty packets: an item of 0 bytes cannot be read back
   (fread(p, 0, 1, f) returns 0) *)
Lemma ps_item_zero : forall l, ps_item 0 l = None.
Proof. intro l. unfold ps_item. reflexivity. Qed.

(* ------------------------------------------------------------------ the text format *)
Definition ps_digit (b : Z) : Prop := 48 <= b <= 57.

Lemma ps_digs_digit : forall d rest a,
  ps_digit d -> ps_digs (d :: rest) a = ps_digs rest (a * 10 + (d - 48)).
Proof.
  intros d rest a [H1 H2]. cbn [ps_digs].
  destruct (Z.leb_spec 48 d); [|lia]. destruct (Z.leb_spec d 57); [|lia]. reflexivity.
Qed.

(* value accumulated by the printed digits: the printer's own recursion, on numbers *)
Fixpoint ps_shift (fuel : nat) (a n : Z) : Z :=
  match fuel with
  | O => a
  | S f => if n <? 10 then a * 10 + n else ps_shift f a (n / 10) * 10 + n mod 10
  end.

Lemma ps_digs_digits : forall fuel n acc a,
  0 <= n -> ps_digs (ps_digits_fuel fuel n acc) a = ps_digs acc (ps_shift fuel a n).
Proof.
  induction fuel as [|f IH]; intros n acc a Hn; [reflexivity|].
  cbn [ps_digits_fuel ps_shift]. destruct (Z.ltb_spec n 10).
  - rewrite ps_digs_digit by (unfold ps_digit; lia). f_equal. lia.
  - rewrite IH by (apply Z.div_pos; lia).
    rewrite ps_digs_digit by (unfold ps_digit; pose proof (Z.mod_pos_bound n 10); lia).
    f_equal. lia.
Qed.

Lemma ps_shift_zero : forall fuel n, 0 <= n < 10 ^ Z.of_nat fuel -> ps_shift fuel 0 n = n.
Proof.
  induction fuel as [|f IH]; intros n Hn.
  - change (10 ^ Z.of_nat 0) with 1 in Hn. cbn [ps_shift]. lia.
  - cbn [ps_shift]. destruct (Z.ltb_spec n 10); [lia|].
    rewrite IH.
    + pose proof (Z.div_mod n 10). lia.
    + rewrite Nat2Z.inj_succ, Z.pow_succ_r in Hn by lia.
      split; [apply Z.div_pos; lia|]. apply Z.div_lt_upper_bound; lia.
Qed.

(* the printed digits are digits *)
Lemma ps_digits_are_digits : forall fuel n acc,
  0 <= n -> Forall ps_digit acc -> Forall ps_digit (ps_digits_fuel fuel n acc).
Proof.
  induction fuel as [|f IH]; intros n acc Hn Ha; [exact Ha|].
  cbn [ps_digits_fuel]. destruct (Z.ltb_spec n 10).
  - constructor; [unfold ps_digit; lia|exact Ha].
  - apply IH; [apply Z.div_pos; lia|].
    constructor; [unfold ps_digit; pose proof (Z.mod_pos_bound n 10); lia|exact Ha].
Qed.

Lemma ps_digits_nonempty : forall fuel n acc, ps_digits_fuel (S fuel) n acc <> [].
Proof.
  intros fuel. induction fuel as [|f IH]; intros n acc.
  - cbn [ps_digits_fuel]. destruct (n <? 10); discriminate.
  - change (ps_digits_fuel (S (S f)) n acc) with
      (if n <? 10 then (48 + n) :: acc
       else ps_digits_fuel (S f) (n / 10) ((48 + n mod 10) :: acc)).
    destruct (n <? 10); [discriminate|apply IH].
Qed.

Lemma ps_digits_len : forall fuel k n acc,
  0 <= n < 10 ^ Z.of_nat (S k) -> len (ps_digits_fuel fuel n acc) <= Z.of_nat (S k) + len acc.
Proof.
  induction fuel as [|f IH]; intros k n acc Hn; [cbn [ps_digits_fuel]; lia|].
  cbn [ps_digits_fuel]. destruct (Z.ltb_spec n 10).
  - rewrite len_cons. lia.
  - destruct k as [|k].
    + change (10 ^ Z.of_nat 1) with 10 in Hn. lia.
    + assert (Hd : 0 <= n / 10 < 10 ^ Z.of_nat (S k)).
      { rewrite (Nat2Z.inj_succ (S k)), Z.pow_succ_r in Hn by lia.
        split; [apply Z.div_pos; lia|]. apply Z.div_lt_upper_bound; lia. }
      specialize (IH k (n / 10) ((48 + n mod 10) :: acc) Hd). rewrite len_cons in IH. lia.
Qed.

Lemma ps_atoi_dec : forall v rest,
  0 <= v < 4294967296 -> (forall b tl, rest = b :: tl -> ~ ps_digit b) ->
  ps_atoi (ps_dec v ++ rest) = v.
Proof.
  intros v rest Hv Hrest. unfold ps_atoi, ps_dec.
  pose proof (ps_digits_are_digits 20 v [] (proj1 Hv) (Forall_nil _)) as Hd.
  pose proof (ps_digits_nonempty 19 v []) as Hne.
  destruct (ps_digits_fuel 20 v []) as [|d ds] eqn:E; [congruence|].
  assert (Hdd : ps_digit d) by (inversion Hd; assumption).
  cbn [app ps_skip_sp].
  assert (Hsp : ps_isspace d = false).
  { unfold ps_isspace, ps_digit in *.
    destruct (Z.eqb_spec d 32); [lia|]. destruct (Z.leb_spec 9 d); destruct (Z.leb_spec d 13);
      try reflexivity; lia. }
  rewrite Hsp.
  assert (H45 : (d =? 45) = false) by (unfold ps_digit in Hdd; lia).
  assert (H43 : (d =? 43) = false) by (unfold ps_digit in Hdd; lia).
  rewrite H45, H43. cbn [orb].
  assert (Hval : ps_digs (d :: ds ++ rest) 0 = v).
  { change (d :: ds ++ rest) with ((d :: ds) ++ rest). rewrite <- E.
    (* digits, then something that is not a digit *)
    assert (G : forall l a, Forall ps_digit l -> ps_digs (l ++ rest) a = ps_digs (l ++ []) a).
    { induction l as [|x l IH]; intros a Hl.
      - cbn [app]. destruct rest as [|b tl]; [reflexivity|].
        specialize (Hrest b tl eq_refl). cbn [ps_digs]. unfold ps_digit in Hrest.
        destruct (Z.leb_spec 48 b); destruct (Z.leb_spec b 57); try reflexivity. lia.
      - inversion Hl; subst. cbn [app]. rewrite !ps_digs_digit by assumption. apply IH. assumption. }
    rewrite G by (rewrite E; exact Hd). rewrite app_nil_r.
    rewrite ps_digs_digits by lia. cbn [ps_digs].
    apply ps_shift_zero. change (10 ^ Z.of_nat 20) with 100000000000000000000. lia. }
  rewrite Hval. rewrite Z.min_r by lia. rewrite Z.max_r by lia. apply Z.mod_small. exact Hv.
Qed.

Definition ps_name_ok (n : bytes) : Prop :=
  Forall (fun b => b <> 0 /\ b <> 32 /\ b <> 10) n /\ len n <= PS_LINE - 13.

Lemma ps_name_okb_spec : forall n, ps_name_okb n = true <-> ps_name_ok n.
Proof.
  intro n. unfold ps_name_okb, ps_name_ok. rewrite andb_true_iff, forallb_forall, Forall_forall.
  split; intros [H1 H2]; (split; [|lia]); intros b Hb; specialize (H1 b Hb).
  - apply negb_true_iff in H1. apply orb_false_iff in H1. destruct H1 as [H1 H3].
    apply orb_false_iff in H1. destruct H1 as [H1 H4]. lia.
  - apply negb_true_iff. destruct (Z.eqb_spec b 0), (Z.eqb_spec b 32), (Z.eqb_spec b 10);
      try reflexivity; lia.
Qed.

Lemma ps_cstr_noz : forall l rest, Forall (fun b => b <> 0) l -> ps_cstr (l ++ rest) = l ++ ps_cstr rest.
Proof.
  induction l as [|b l IH]; intros rest H; [reflexivity|].
  inversion H; subst. cbn [app ps_cstr]. destruct (Z.eqb_spec b 0); [contradiction|].
  rewrite IH by assumption. reflexivity.
Qed.

Lemma ps_split_sp_app : forall l rest, Forall (fun b => b <> 32) l ->
  ps_split_sp (l ++ 32 :: rest) = Some (l, rest).
Proof.
  induction l as [|b l IH]; intros rest H.
  - reflexivity.
  - inversion H; subst. cbn [app ps_split_sp]. destruct (Z.eqb_spec b 32); [contradiction|].
    rewrite IH by assumption. reflexivity.
Qed.

Lemma ps_digit_facts : forall l, Forall ps_digit l ->
  Forall (fun b => b <> 0) l /\ Forall (fun b => b <> 10) l.
Proof.
  induction 1 as [|b l Hb Hl [IH1 IH2]]; [split; constructor|].
  unfold ps_digit in Hb. split; constructor; try assumption; lia.
Qed.

(* parsing one printed line gives back name and value *)
Theorem ps_cnt_parse_line : forall n v,
  ps_name_ok n -> 0 <= v < 4294967296 -> ps_cnt_parse (ps_cnt_line n v) = Some (n, v).
Proof.
  intros n v [Hn Hl] Hv. unfold ps_cnt_parse, ps_cnt_line.
  assert (Hnz : Forall (fun b => b <> 0) n) by (eapply Forall_impl; [|exact Hn]; cbn; tauto).
  assert (Hns : Forall (fun b => b <> 32) n) by (eapply Forall_impl; [|exact Hn]; cbn; tauto).
  rewrite (Z.mod_small v) by lia.
  assert (Hc : ps_cstr n = n).
  { rewrite <- (app_nil_r n) at 1. rewrite ps_cstr_noz by assumption. cbn [ps_cstr]. apply app_nil_r. }
  rewrite Hc.
  pose proof (ps_digits_are_digits 20 v [] (proj1 Hv) (Forall_nil _)) as Hd.
  destruct (ps_digit_facts _ Hd) as [Hdz _].
  rewrite ps_cstr_noz by assumption.
  cbn [app ps_cstr]. destruct (Z.eqb_spec 32 0); [lia|].
  change (32 :: ps_cstr (ps_dec v ++ [10])) with ([32] ++ ps_cstr (ps_dec v ++ [10])).
  cbn [app]. rewrite ps_split_sp_app by assumption.
  unfold ps_dec at 1. rewrite ps_cstr_noz by exact Hdz. cbn [ps_cstr].
  destruct (Z.eqb_spec 10 0); [lia|]. fold (ps_dec v).
  rewrite ps_atoi_dec; [reflexivity|exact Hv|].
  intros b tl E. inversion E; subst. unfold ps_digit. lia.
Qed.

(* fgets takes exactly one printed line off the front of the file *)
Lemma ps_line_app : forall l rest fuel,
  Forall (fun b => b <> 10) l -> (length l < fuel)%nat ->
  ps_line fuel (l ++ 10 :: rest) = l ++ [10].
Proof.
  induction l as [|b l IH]; intros rest fuel H Hf.
  - destruct fuel; [lia|]. reflexivity.
  - destruct fuel; [cbn in Hf; lia|]. inversion H; subst. cbn [app ps_line].
    destruct (Z.eqb_spec b 10); [contradiction|]. rewrite IH; [reflexivity|assumption|].
    cbn in Hf. lia.
Qed.

Lemma ps_cnt_line_first : forall n v rest,
  ps_name_ok n -> 0 <= v < 4294967296 ->
  ps_line (Z.to_nat (PS_LINE - 1)) (ps_cnt_line n v ++ rest) = ps_cnt_line n v.
Proof.
  intros n v rest [Hn Hl] Hv. unfold ps_cnt_line.
  assert (Hnz : Forall (fun b => b <> 0) n) by (eapply Forall_impl; [|exact Hn]; cbn; tauto).
  assert (Hnn : Forall (fun b => b <> 10) n) by (eapply Forall_impl; [|exact Hn]; cbn; tauto).
  assert (Hc : ps_cstr n = n).
  { rewrite <- (app_nil_r n) at 1. rewrite ps_cstr_noz by assumption. cbn [ps_cstr]. apply app_nil_r. }
  rewrite Hc, (Z.mod_small v) by lia.
  pose proof (ps_digits_are_digits 20 v [] (proj1 Hv) (Forall_nil _)) as Hd.
  destruct (ps_digit_facts _ Hd) as [_ Hdn].
  replace ((n ++ [32] ++ ps_dec v ++ [10]) ++ rest) with ((n ++ [32] ++ ps_dec v) ++ 10 :: rest)
    by (rewrite <- !app_assoc; reflexivity).
  rewrite ps_line_app.
  - rewrite <- !app_assoc. reflexivity.
  - apply Forall_app. split; [exact Hnn|]. apply Forall_app. split; [|exact Hdn].
    constructor; [lia|constructor].
  - assert (Hdl : len (ps_dec v) <= 10).
    { pose proof (ps_digits_len 20 9 v []) as X. change (len (@nil Z)) with 0 in X.
      change (10 ^ Z.of_nat 10) with 10000000000 in X. unfold ps_dec. lia. }
    assert (len (n ++ [32] ++ ps_dec v) < PS_LINE - 1).
    { rewrite !len_app. change (len [32]) with 1. unfold PS_LINE in *. lia. }
    unfold len in H. unfold PS_LINE in *. lia.
Qed.

(* the whole counter file *)
Definition ps_cnt_wf (e : bytes * Z) : Prop := ps_name_ok (fst e) /\ 0 <= snd e < 4294967296.

Lemma ps_cnt_line_nonempty : forall n v, ps_cnt_line n v <> [].
Proof. intros. unfold ps_cnt_line. destruct (ps_cstr n); discriminate. Qed.

Theorem ps_cnt_all_file : forall l fuel,
  Forall ps_cnt_wf l -> (length l < fuel)%nat -> ps_cnt_all fuel (ps_cnt_file l) = l.
Proof.
  induction l as [|[n v] l IH]; intros fuel Hwf Hf.
  - destruct fuel; [lia|]. reflexivity.
  - destruct fuel; [cbn in Hf; lia|]. inversion Hwf as [|? ? [Hn Hv] Hl]; subst.
    cbn [fst snd] in *. cbn [ps_cnt_all ps_cnt_file].
    rewrite ps_cnt_line_first by assumption.
    pose proof (ps_cnt_line_nonempty n v) as Hne.
    destruct (ps_cnt_line n v) as [|b0 tl0] eqn:El; [congruence|]. rewrite <- El.
    rewrite ps_cnt_parse_line by assumption.
    rewrite drop_app_exact. f_equal. apply IH; [assumption|]. cbn in Hf. lia.
Qed.

(* a name with a blank does not come back: the text format is not injective outside ps_name_ok *)
Lemma ps_cnt_blank_name_refuted :
  exists n v, 0 <= v < 4294967296 /\ ps_cnt_parse (ps_cnt_line n v) <> Some (n, v).
Proof. exists [97; 32; 98], 7. split; [lia|]. vm_compute. discriminate. Qed.

(* ... nor does a name that makes the line longer than the readers' buffer *)
Lemma ps_cnt_long_name_refuted :
  exists n v, Forall (fun b => b <> 0 /\ b <> 32 /\ b <> 10) n /\ 0 <= v < 4294967296 /\
    ps_cnt_all 5 (ps_cnt_file [(n, v); ([98], 1)]) <> [(n, v); ([98], 1)].
Proof.
  exists (repeat 97 1500), 7. split; [apply Forall_forall; intros x Hx; apply repeat_spec in Hx; lia|].
  split; [lia|]. vm_compute. discriminate.
Qed.

(* C17 - the three on-disk record formats of src/coap_subscribe.c, as pure encoders/decoders
   over byte strings (the stream versions that issue fread/fwrite calls are in Updaters.v).

   observe record (coap_op_observe_write / coap_op_observe_read):
       key(8)  proto(4)  listen address (la bytes)  address tuple (lt bytes)
       length(8, little endian)  packet   length | -1 (8)  [oscore info]
   dynamic resource record (coap_op_dyn_resource_write / _read):
       proto(4)  length(8)  name  length(8)  packet
   counter file (text): one line "<name> <decimal>\n" per resource.

   key, proto, listen and tuple are raw memory images (pointer, enum, coap_address_t,
   coap_addr_tuple_t): opaque byte strings of fixed size here; la and lt are parameters (their
   values are read from the compiled code on every run).  A length field is a ssize_t:
   8 bytes, little endian, two's complement; the readers reject < 0 and > 0x10000, and - because
   fread(p, 0, 1, f) returns 0 - also a length of 0, except for the name of a dynamic resource
   (the root resource has the empty name; the code skips the fread/fwrite of 0 bytes there). *)
From Coq Require Import ZArith List Bool.
From LibcoapV Require Import Base.Bytes Persist.Fs.
Import ListNotations.
Local Open Scope Z_scope.

Definition PS_KEY := 8.
Definition PS_PROTO := 4.
Definition PS_LEN := 8.
Definition PS_MAX := 65536.       (* 0x10000 *)
Definition PS_LINE := 1500.       (* char buf[1500] of the counter-file readers *)

Fixpoint ps_beq (a b : bytes) : bool :=
  match a, b with
  | [], [] => true
  | x :: a', y :: b' => (x =? y) && ps_beq a' b'
  | _, _ => false
  end.

(* little-endian, n bytes *)
Fixpoint ps_le (n : nat) (x : Z) : bytes :=
  match n with
  | O => []
  | S m => (x mod 256) :: ps_le m (x / 256)
  end.

Fixpoint ps_unle (l : bytes) : Z :=
  match l with
  | [] => 0
  | b :: tl => b + 256 * ps_unle tl
  end.

Definition ps_enc_size (x : Z) : bytes := ps_le 8 (x mod 18446744073709551616).

(* signed reading of 8 bytes *)
Definition ps_dec_size (l : bytes) : Z :=
  let u := ps_unle l in
  if u <? 9223372036854775808 then u else u - 18446744073709551616.

Record ps_obs := mkObs {
  pso_key : bytes; pso_proto : bytes; pso_listen : bytes; pso_tuple : bytes;
  pso_pkt : bytes; pso_osc : option bytes }.

Record ps_dyn := mkDyn { psd_proto : bytes; psd_name : bytes; psd_pkt : bytes }.

Definition ps_obs_enc (r : ps_obs) : bytes :=
  pso_key r ++ pso_proto r ++ pso_listen r ++ pso_tuple r ++
  ps_enc_size (len (pso_pkt r)) ++ pso_pkt r ++
  match pso_osc r with
  | Some o => ps_enc_size (len o) ++ o
  | None => ps_enc_size (-1)
  end.

Definition ps_dyn_enc (r : ps_dyn) : bytes :=
  psd_proto r ++ ps_enc_size (len (psd_name r)) ++ psd_name r ++
  ps_enc_size (len (psd_pkt r)) ++ psd_pkt r.

Fixpoint ps_obs_file (l : list ps_obs) : bytes :=
  match l with [] => [] | r :: tl => ps_obs_enc r ++ ps_obs_file tl end.

Fixpoint ps_dyn_file (l : list ps_dyn) : bytes :=
  match l with [] => [] | r :: tl => ps_dyn_enc r ++ ps_dyn_file tl end.

(* one item of n bytes from the front: fread(p, n, 1, f) on the remaining bytes *)
Definition ps_item (n : Z) (l : bytes) : option (bytes * bytes) :=
  if (0 <? n) && (n <=? len l) then Some (take n l, drop n l) else None.

Definition ps_size_ok (n : Z) : bool := (0 <=? n) && (n <=? PS_MAX).

(* coap_op_observe_read on the remaining bytes of the stream *)
Definition ps_obs_dec (la lt : Z) (l : bytes) : option (ps_obs * bytes) :=
  match ps_item PS_KEY l with None => None | Some (key, l) =>
  match ps_item PS_PROTO l with None => None | Some (proto, l) =>
  match ps_item la l with None => None | Some (listen, l) =>
  match ps_item lt l with None => None | Some (tuple, l) =>
  match ps_item PS_LEN l with None => None | Some (sz, l) =>
  if negb (ps_size_ok (ps_dec_size sz)) then None else
  match ps_item (ps_dec_size sz) l with None => None | Some (pkt, l) =>
  match ps_item PS_LEN l with None => None | Some (sz2, l) =>
  if ps_dec_size sz2 =? -1 then Some (mkObs key proto listen tuple pkt None, l) else
  if negb (ps_size_ok (ps_dec_size sz2)) then None else
  match ps_item (ps_dec_size sz2) l with None => None | Some (osc, l) =>
  Some (mkObs key proto listen tuple pkt (Some osc), l)
  end end end end end end end end.

(* coap_op_dyn_resource_read *)
Definition ps_dyn_dec (l : bytes) : option (ps_dyn * bytes) :=
  match ps_item PS_PROTO l with None => None | Some (proto, l) =>
  match ps_item PS_LEN l with None => None | Some (sz, l) =>
  if negb (ps_size_ok (ps_dec_size sz)) then None else
  match (if ps_dec_size sz =? 0 then Some ([], l) else ps_item (ps_dec_size sz) l) with
  | None => None | Some (name, l) =>
  match ps_item PS_LEN l with None => None | Some (sz2, l) =>
  if negb (ps_size_ok (ps_dec_size sz2)) then None else
  match ps_item (ps_dec_size sz2) l with None => None | Some (pkt, l) =>
  Some (mkDyn proto name pkt, l)
  end end end end end.

(* all records up to the first one that does not read (what every copy loop sees) *)
Fixpoint ps_obs_all (la lt : Z) (fuel : nat) (l : bytes) : list ps_obs :=
  match fuel with
  | O => []
  | S f => match ps_obs_dec la lt l with
           | Some (r, rest) => r :: ps_obs_all la lt f rest
           | None => []
           end
  end.

Fixpoint ps_dyn_all (fuel : nat) (l : bytes) : list ps_dyn :=
  match fuel with
  | O => []
  | S f => match ps_dyn_dec l with
           | Some (r, rest) => r :: ps_dyn_all f rest
           | None => []
           end
  end.

Definition ps_obs_wf (la lt : Z) (r : ps_obs) : Prop :=
  len (pso_key r) = PS_KEY /\ len (pso_proto r) = PS_PROTO /\ len (pso_listen r) = la /\
  len (pso_tuple r) = lt /\ 1 <= len (pso_pkt r) <= PS_MAX /\
  match pso_osc r with Some o => 1 <= len o <= PS_MAX | None => True end.

Definition ps_dyn_wf (r : ps_dyn) : Prop :=
  len (psd_proto r) = PS_PROTO /\ len (psd_name r) <= PS_MAX /\ 1 <= len (psd_pkt r) <= PS_MAX.

Definition ps_obs_wfb (la lt : Z) (r : ps_obs) : bool :=
  (len (pso_key r) =? PS_KEY) && (len (pso_proto r) =? PS_PROTO) && (len (pso_listen r) =? la) &&
  (len (pso_tuple r) =? lt) && (1 <=? len (pso_pkt r)) && (len (pso_pkt r) <=? PS_MAX) &&
  match pso_osc r with Some o => (1 <=? len o) && (len o <=? PS_MAX) | None => true end.

Definition ps_dyn_wfb (r : ps_dyn) : bool :=
  (len (psd_proto r) =? PS_PROTO) && (len (psd_name r) <=? PS_MAX) &&
  (1 <=? len (psd_pkt r)) && (len (psd_pkt r) <=? PS_MAX).

(* ------------------------------------------------------------------ counter file (text) *)

(* a C string: the bytes before the first NUL *)
Fixpoint ps_cstr (l : bytes) : bytes :=
  match l with
  | [] => []
  | b :: tl => if b =? 0 then [] else b :: ps_cstr tl
  end.

(* decimal digits of n >= 0 (printf %u) *)
Fixpoint ps_digits_fuel (fuel : nat) (n : Z) (acc : bytes) : bytes :=
  match fuel with
  | O => acc
  | S f => if n <? 10 then (48 + n) :: acc
           else ps_digits_fuel f (n / 10) ((48 + n mod 10) :: acc)
  end.
Definition ps_dec (n : Z) : bytes := ps_digits_fuel 20 n [].

(* "%s %u\n" *)
Definition ps_cnt_line (name : bytes) (v : Z) : bytes :=
  ps_cstr name ++ [32] ++ ps_dec (v mod 4294967296) ++ [10].

Fixpoint ps_cnt_file (l : list (bytes * Z)) : bytes :=
  match l with [] => [] | (n, v) :: tl => ps_cnt_line n v ++ ps_cnt_file tl end.

(* split a C string at the first blank: strchr(buf, ' ') *)
Fixpoint ps_split_sp (l : bytes) : option (bytes * bytes) :=
  match l with
  | [] => None
  | b :: tl => if b =? 32 then Some ([], tl)
               else match ps_split_sp tl with
                    | Some (a, r) => Some (b :: a, r)
                    | None => None
                    end
  end.

(* atoi: blanks, optional sign, digits; glibc: (int) strtol(s, NULL, 10) *)
Definition ps_isspace (b : Z) : bool := (b =? 32) || ((9 <=? b) && (b <=? 13)).
Fixpoint ps_skip_sp (l : bytes) : bytes :=
  match l with
  | b :: tl => if ps_isspace b then ps_skip_sp tl else l
  | [] => []
  end.
Fixpoint ps_digs (l : bytes) (acc : Z) : Z :=
  match l with
  | b :: tl => if (48 <=? b) && (b <=? 57) then ps_digs tl (acc * 10 + (b - 48)) else acc
  | [] => acc
  end.
Definition ps_atoi (l : bytes) : Z :=
  let l := ps_skip_sp l in
  let neg := match l with b :: _ => b =? 45 | [] => false end in
  let l := match l with
           | b :: tl => if (b =? 45) || (b =? 43) then tl else l
           | [] => l
           end in
  let v := ps_digs l 0 in
  let v := if neg then - v else v in
  (* strtol saturates at LONG_MIN/LONG_MAX, atoi keeps the low 32 bits, the code stores it in
     a uint32_t *)
  let v := Z.max (-9223372036854775808) (Z.min 9223372036854775807 v) in
  v mod 4294967296.

(* one line as the readers see it: (resource key, value), or None when there is no blank *)
Definition ps_cnt_parse (line : bytes) : option (bytes * Z) :=
  match ps_split_sp (ps_cstr line) with
  | Some (k, rest) => Some (k, ps_atoi rest)
  | None => None
  end.

(* all entries of a counter file as the fgets loops see them (stop at the first line without
   a blank) *)
Fixpoint ps_cnt_all (fuel : nat) (l : bytes) : list (bytes * Z) :=
  match fuel with
  | O => []
  | S f =>
      match ps_line (Z.to_nat (PS_LINE - 1)) l with
      | [] => []
      | line => match ps_cnt_parse line with
                | Some e => e :: ps_cnt_all f (drop (len line) l)
                | None => []
                end
      end
  end.

(* a resource name the text format can carry: no NUL, blank or newline, and the line fits *)
Definition ps_name_okb (n : bytes) : bool :=
  forallb (fun b => negb ((b =? 0) || (b =? 32) || (b =? 10))) n && (len n <=? PS_LINE - 13).

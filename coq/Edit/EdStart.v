(* C04 - where well-formed PDUs come from (the builder of C01, the parser of C03) and what the
   edits preserve beyond structure (value bytes, per-option length limits), so that the result
   of an edit list can be put on the wire and parsed back (C01's round trip). *)
From LibcoapV Require Import Base.Tactics Base.Bytes Base.BytesProofs Wire.OptCodec
  Wire.OptCodecProofs Wire.Pdu Wire.PduProofs Wire.ParseSound Wire.Build Edit.EdSpec
  Edit.EdBytes Edit.EdLemmas Edit.EdSpecProofs Edit.EdIter Edit.EdPatch Edit.EdBytesProofs.
Local Open Scope Z_scope.

(* ---- parsed from the wire ---- *)

Lemma ed_opt_wf_ok o : opt_wf o -> ed_opt_ok o.
Proof. intros (H1 & H2 & _). split; assumption. Qed.

Theorem ed_start_wire_rep pr bs max :
  wfb bs -> 0 <= max ->
  match ed_b_start_wire pr bs max with
  | Some p => exists q, ed_start_wire pr bs max = Some q /\ p = ed_of_pdu q /\ ed_pwf q /\
                        parse pr bs = Some (p_msg q)
  | None => ed_start_wire pr bs max = None
  end.
Proof.
  intros Hb Hm. unfold ed_b_start_wire, ed_start_wire.
  destruct bs as [|b0 r] eqn:Ebs; [reflexivity|]. rewrite <- Ebs in *.
  destruct (parse pr bs) as [m|] eqn:EP; [|reflexivity].
  destruct (parse_sound_body pr bs m Hb EP) as
    (b0' & r' & Hbs & Hdrop & _ & Htl & _ & Hwf & Hasc & _ & _ & _).
  assert (b0' = b0) by (rewrite Ebs in Hbs; inversion Hbs; reflexivity). subst b0'.
  exists (mkPdu m max). split; [reflexivity|]. split.
  - unfold ed_of_pdu, ed_of_msg. cbn [p_msg p_max]. rewrite Hdrop. reflexivity.
  - split; [|reflexivity]. split; [|assumption]. cbn [p_msg]. constructor; try assumption.
    eapply Forall_impl; [|exact Hwf]. apply ed_opt_wf_ok.
Qed.

(* ---- built through the API (Wire/Build.v) ---- *)

Definition ed_bop_ok (o : bop) : Prop :=
  match o with
  | OpOpt n v => 0 <= n <= 65535 /\ len v <= 65804
  | _ => True
  end.

Lemma ed_pwf_apply_op q o : ed_pwf q -> ed_bop_ok o -> ed_pwf (snd (apply_op q o)).
Proof.
  intros [W Hm] Ho. destruct o as [t|n v|d]; cbn [apply_op ed_bop_ok] in *.
  - repeat case_if; cbn [snd]; try (split; assumption).
    split; [|assumption]. destruct W as [H1 H2 H3]. constructor; cbn; try assumption. lia.
  - destruct (m_payload (p_msg q)); [|split; assumption].
    case_if; cbn [snd]; [split; assumption|].
    assert (Hraw : forall q0 n0 v0, ed_pwf q0 -> 0 <= n0 <= 65535 -> len v0 <= 65804 ->
                   ed_pwf (snd (add_opt_raw q0 n0 v0))).
    { intros q0 n0 v0 [W0 M0] Hn0 Hv0. split; [apply ed_mwf_add_opt_raw; assumption|].
      unfold add_opt_raw. repeat case_if; cbn; assumption. }
    apply Hraw; try tauto. case_if; [|split; assumption].
    apply Hraw; [split; assumption|lia|unfold len; cbn; lia].
  - destruct d; cbn [snd]; [split; assumption|].
    destruct (m_payload (p_msg q)); [|split; assumption].
    case_if; cbn [snd]; [|split; assumption].
    split; [|assumption]. destruct W as [H1 H2 H3]. constructor; cbn; assumption.
Qed.

Theorem ed_pwf_build ops : forall q,
  ed_pwf q -> Forall ed_bop_ok ops -> ed_pwf (snd (run_ops q ops)).
Proof.
  induction ops as [|o tl IH]; intros q W Hops; [assumption|].
  inversion Hops as [|? ? Ho Htl]; subst. cbn [run_ops].
  pose proof (ed_pwf_apply_op q o W Ho) as W1.
  destruct (apply_op q o) as [r q1]. cbn [snd] in W1.
  specialize (IH q1 W1 Htl). destruct (run_ops q1 tl) as [rs q2]. exact IH.
Qed.

Lemma ed_pwf_init ty code mid max : 0 <= max -> ed_pwf (pdu_init ty code mid max).
Proof.
  intros H. split; [|assumption]. constructor; cbn; [unfold len; cbn; lia|constructor|exact I].
Qed.

Theorem ed_pwf_built ops ty code mid max :
  0 <= max -> Forall ed_bop_ok ops -> ed_pwf (snd (run_ops (pdu_init ty code mid max) ops)).
Proof. intros. apply ed_pwf_build; [apply ed_pwf_init|]; assumption. Qed.

(* ---- beyond structure: value bytes and the per-option length limits ---- *)

Definition ed_op_fine (code : Z) (e : ed_op) : Prop :=
  match e with
  | EdInsert n v | EdUpdate n v =>
      0 <= n <= 65535 /\ len v <= 65804 /\ wfb v /\ limit_ok code n (len v) = true
  | EdRemove n => 0 <= n <= 65535
  | EdToken t => wfb t
  end.

Lemma ed_op_fine_ok code e : ed_op_fine code e -> ed_op_ok e.
Proof. destruct e; cbn; tauto. Qed.

(* what msg_wf says about the option list *)
Definition ed_opts_fine (code : Z) (l : list opt) : Prop :=
  Forall opt_wf l /\ limits_ok code l = true.

Lemma ed_opts_fine_insert code n v l :
  ed_opts_fine code l -> opt_wf (n, v) -> limit_ok code n (len v) = true ->
  ed_opts_fine code (insert_opt n v l).
Proof.
  intros [H1 H2] Ho Hl. unfold ed_opts_fine, limits_ok in *.
  induction l as [|[a b] tl IH]; cbn [insert_opt].
  - split; [constructor; [assumption|constructor]|]. cbn [forallb fst snd]. rewrite Hl. reflexivity.
  - inversion H1; subst. cbn [forallb fst snd] in H2. apply andb_true_iff in H2.
    destruct H2 as [Ha Ht]. destruct (a <=? n).
    + destruct (IH H4 Ht) as [I1 I2]. split; [constructor; assumption|].
      cbn [forallb fst snd]. rewrite Ha, I2. reflexivity.
    + split; [constructor; [assumption|constructor; assumption]|].
      cbn [forallb fst snd]. rewrite Hl, Ha, Ht. reflexivity.
Qed.

Lemma ed_opts_fine_app code l1 l2 :
  ed_opts_fine code (l1 ++ l2) <-> ed_opts_fine code l1 /\ ed_opts_fine code l2.
Proof.
  unfold ed_opts_fine, limits_ok. rewrite Forall_app, forallb_app, andb_true_iff. tauto.
Qed.

Lemma ed_opts_fine_cons code o l :
  ed_opts_fine code (o :: l) <->
  (opt_wf o /\ limit_ok code (fst o) (len (snd o)) = true) /\ ed_opts_fine code l.
Proof.
  unfold ed_opts_fine, limits_ok. cbn [forallb]. rewrite andb_true_iff. split.
  - intros [H1 H2]. inversion H1; subst. tauto.
  - intros [[H1 H2] [H3 H4]]. split; [constructor; assumption|tauto].
Qed.

Lemma ed_msg_wf_set_opts q os :
  msg_wf (p_msg q) -> m_code (p_msg q) <> 0 -> ed_opts_fine (m_code (p_msg q)) os ->
  ascending 0 os -> msg_wf (p_msg (set_opts q os)).
Proof.
  intros [A B C D E F G H] Hc [O1 O2] Ha.
  constructor; cbn [set_opts p_msg m_type m_code m_mid m_token m_opts m_payload]; try assumption.
  - split; assumption.
  - intros; contradiction.
Qed.

Lemma ed_msg_wf_fine q : msg_wf (p_msg q) -> ed_opts_fine (m_code (p_msg q)) (m_opts (p_msg q)).
Proof. intros [A B C D [E1 E2] F G H]. split; assumption. Qed.

Lemma ed_msg_wf_add_opt_raw q n v :
  msg_wf (p_msg q) -> m_code (p_msg q) <> 0 -> 0 <= n <= 65535 -> len v <= 65804 -> wfb v ->
  limit_ok (m_code (p_msg q)) n (len v) = true ->
  msg_wf (p_msg (snd (add_opt_raw q n v))) /\
  m_code (p_msg (snd (add_opt_raw q n v))) = m_code (p_msg q).
Proof.
  intros W Hc Hn Hv Hb Hl. unfold add_opt_raw. repeat case_if; cbn [snd]; try (split; [assumption|reflexivity]).
  split; [|reflexivity]. apply ed_msg_wf_set_opts; try assumption.
  - apply ed_opts_fine_insert; [apply ed_msg_wf_fine; assumption| |assumption].
    unfold opt_wf. cbn [fst snd]. tauto.
  - apply ed_insert_opt_asc; [destruct W as [_ _ _ _ [_ A] _ _ _]; exact A|lia].
Qed.

Lemma ed_msg_wf_hop_step q n :
  msg_wf (p_msg q) -> m_code (p_msg q) <> 0 ->
  msg_wf (p_msg (ed_hop_step q n)) /\ m_code (p_msg (ed_hop_step q n)) = m_code (p_msg q).
Proof.
  intros W Hc. unfold ed_hop_step, ed_hop_trigger.
  destruct (is_request (m_code (p_msg q))) eqn:Er; cbn [andb]; [|split; [assumption|reflexivity]].
  case_if; [|split; [assumption|reflexivity]].
  apply ed_msg_wf_add_opt_raw; try assumption; try lia.
  - unfold len; cbn; lia.
  - repeat constructor; unfold is_byte; lia.
  - unfold is_request in Er. unfold limit_ok.
    replace (224 <=? m_code (p_msg q)) with false by lia. reflexivity.
Qed.

Lemma ed_msg_wf_insert q n v :
  msg_wf (p_msg q) -> m_code (p_msg q) <> 0 -> ed_op_fine (m_code (p_msg q)) (EdInsert n v) ->
  msg_wf (p_msg (snd (ed_insert q n v))).
Proof.
  intros W Hc (Hn & Hv & Hb & Hl). unfold ed_insert, ed_add_internal.
  case_if; [apply ed_msg_wf_add_opt_raw; assumption|].
  case_if; cbn [snd]; [assumption|].
  destruct (ed_msg_wf_hop_step q n W Hc) as [W1 C1].
  apply ed_msg_wf_add_opt_raw; try assumption; rewrite C1; assumption.
Qed.

Theorem ed_msg_wf_apply q e :
  msg_wf (p_msg q) -> m_code (p_msg q) <> 0 -> ed_op_fine (m_code (p_msg q)) e ->
  msg_wf (p_msg (snd (ed_apply q e))).
Proof.
  intros W Hc He. destruct e as [n v|n v|n|t]; cbn [ed_apply].
  - apply ed_msg_wf_insert; assumption.
  - unfold ed_update.
    destruct (ed_find_cases n (m_opts (p_msg q))) as [[-> _]|(l1 & w & l2 & Ho & Hf & ->)].
    + apply ed_msg_wf_insert; assumption.
    + destruct He as (Hn & Hv & Hb & Hl).
      case_if; cbn [snd]; [|assumption]. rewrite Ho, ed_replace_first_split by assumption.
      pose proof (ed_msg_wf_fine q W) as F. rewrite Ho in F.
      apply ed_opts_fine_app in F. destruct F as [F1 F2].
      apply ed_opts_fine_cons in F2. destruct F2 as [_ F2].
      apply ed_msg_wf_set_opts; try assumption.
      * apply ed_opts_fine_app. split; [assumption|]. apply ed_opts_fine_cons.
        split; [|assumption]. cbn [fst snd]. split; [|assumption].
        unfold opt_wf. cbn [fst snd]. tauto.
      * destruct W as [_ _ _ _ [_ A] _ _ _]. rewrite Ho in A. eapply ed_asc_replace. exact A.
  - unfold ed_remove.
    destruct (ed_find_cases n (m_opts (p_msg q))) as [[-> _]|(l1 & w & l2 & Ho & Hf & ->)];
      cbn [snd]; [assumption|].
    rewrite Ho, ed_remove_first_split by assumption.
    pose proof (ed_msg_wf_fine q W) as F. rewrite Ho in F.
    apply ed_opts_fine_app in F. destruct F as [F1 F2].
    apply ed_opts_fine_cons in F2. destruct F2 as [_ F2].
    apply ed_msg_wf_set_opts; try assumption.
    + apply ed_opts_fine_app. split; assumption.
    + destruct W as [_ _ _ _ [_ A] _ _ _]. rewrite Ho in A. eapply ed_asc_remove. exact A.
  - unfold ed_token. destruct (65804 <? len t) eqn:E; cbn [snd]; [assumption|].
    case_if; cbn [snd]; [|assumption]. destruct W as [A B C D E' F G H].
    constructor; cbn [ed_with_token p_msg m_type m_code m_mid m_token m_opts m_payload];
      try assumption.
    + split; [lia|exact He].
    + intros; contradiction.
Qed.

Lemma ed_code_apply q e : m_code (p_msg (snd (ed_apply q e))) = m_code (p_msg q).
Proof. pose proof (ed_apply_keeps q e) as K. cbv zeta in K. tauto. Qed.

Theorem ed_msg_wf_run es : forall q,
  msg_wf (p_msg q) -> m_code (p_msg q) <> 0 -> Forall (ed_op_fine (m_code (p_msg q))) es ->
  msg_wf (p_msg (snd (ed_run q es))).
Proof.
  induction es as [|e tl IH]; intros q W Hc Hes; [assumption|].
  inversion Hes as [|? ? He Htl]; subst. cbn [ed_run].
  pose proof (ed_msg_wf_apply q e W Hc He) as W1. pose proof (ed_code_apply q e) as C1.
  destruct (ed_apply q e) as [r q1]. cbn [snd] in W1, C1.
  rewrite <- C1 in Hc, Htl. specialize (IH q1 W1 Hc Htl).
  destruct (ed_run q1 tl) as [rs q2]. exact IH.
Qed.

(* ---- edits, then the wire, then the parser ---- *)

Lemma ed_serialize_of_pdu pr q :
  serialize pr (p_msg q) = header pr (p_msg q) ++ eb_buf (ed_of_pdu q).
Proof. reflexivity. Qed.

Theorem ed_edits_then_wire pr q es p' rs :
  ed_pwf q -> Forall ed_op_ok es ->
  ed_b_run (ed_of_pdu q) es = Some (rs, p') ->
  msg_wf (p_msg (snd (ed_run q es))) ->
  rs = fst (ed_run q es) /\
  ed_abs p' = Some (p_msg (snd (ed_run q es))) /\
  parse pr (header pr (p_msg (snd (ed_run q es))) ++ eb_buf p') =
    Some (norm_fields pr (p_msg (snd (ed_run q es)))).
Proof.
  intros W Hes Hrun Hwf. rewrite (ed_b_run_refines es q W Hes) in Hrun.
  inversion Hrun; subst. split; [reflexivity|]. split.
  - apply ed_abs_of_pdu. apply ed_pwf_run; assumption.
  - rewrite <- ed_serialize_of_pdu. apply parse_serialize. assumption.
Qed.

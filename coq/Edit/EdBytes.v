(* C04 - byte level of the in-place edits of src/coap_pdu.c.

   The C functions are transcribed on the byte buffer  token[0 .. used_size)  of a coap_pdu_t:

     coap_option_iterator_init / coap_option_next      ed_it_init / ed_it_next
     the three search loops                            ed_walk (greater-than / equal)
     coap_pdu_check_resize                             ed_fits (+ ed_grow: the bytes made available)
     coap_add_option_internal                          ed_b_add_internal (ed_b_append = its tail)
     coap_insert_option                                ed_b_insert (ed_b_inplace = the in-place path,
                                                       ed_patch_insert = the six header cases)
     coap_update_option                                ed_b_update
     coap_remove_option                                ed_b_remove (ed_patch_remove = the six cases)
     coap_add_token / coap_update_token                ed_b_add_token / ed_b_token
     coap_pdu_duplicate_lkd                            ed_b_dup
     the accessors used by the dump                    ed_abs

   Conventions.
   - The buffer of the model is exactly the used bytes; [ed_grow] appends the bytes a successful
     coap_pdu_check_resize guarantees beyond used_size (their content is [ed_junk]; no result
     depends on it - the refinement theorems of EdBytesProofs.v equate every result with a
     canonical encoding in which no junk byte occurs).
   - memmove / memcpy / single byte stores are checked: a store or a move that leaves the
     bytes the function is entitled to makes the model stuck ([None]).  [None] is also the result
     when a loop runs out of fuel or when the C would dereference NULL (the asserts of
     coap_insert_option).  The theorems show that none of this happens on a well-formed PDU.
   - (coap_opt_t)x is [x mod 256], x & 0x0f is [x mod 16], x << 4 is [x * 16], x >> 8 is [x / 256].
   - alloc_size is not modelled: coap_pdu_init and coap_pdu_resize keep alloc_size <= max_size
     whenever max_size <> 0, so coap_pdu_check_resize(size) fails exactly when max_size <> 0 and
     size > max_size (allocation failure is C18's subject).
   - A realloc moves the buffer; the C then searches the option again.  In the model the second
     search is the first one (same function of the same bytes). *)
From Coq Require Import ZArith List Bool.
From LibcoapV Require Import Base.Bytes Wire.OptCodec Wire.Pdu Wire.Build Edit.EdSpec.
Import ListNotations.
Local Open Scope Z_scope.

Record ed_bpdu := mkEb {
  eb_type : Z; eb_code : Z; eb_mid : Z;
  eb_buf : bytes;          (* token[0 .. used_size) *)
  eb_etl : Z;              (* e_token_length *)
  eb_tlen : Z;             (* actual_token.length; actual_token.s = token + bias(length) *)
  eb_maxopt : Z;           (* max_opt *)
  eb_data : Z;             (* data - token, 0 when data == NULL *)
  eb_max : Z }.            (* max_size *)

Definition ed_used (p : ed_bpdu) : Z := len (eb_buf p).

Notation "x <- a ;; b" := (match a with Some x => b | None => None end)
  (at level 61, a at next level, right associativity).

(* ---- checked byte operations ---- *)

Definition ed_junk : Z := 165.
Definition ed_grow (s : bytes) (extra : Z) : bytes := s ++ repeat ed_junk (Z.to_nat extra).

Definition ed_memmove (s : bytes) (dst src n : Z) : option bytes :=
  if (0 <=? dst) && (0 <=? src) && (0 <=? n) && (dst + n <=? len s) && (src + n <=? len s)
  then Some (take dst s ++ take n (drop src s) ++ drop (dst + n) s) else None.

Definition ed_bwrite (s : bytes) (dst : Z) (e : bytes) : option bytes :=
  if (0 <=? dst) && (dst + len e <=? len s)
  then Some (take dst s ++ e ++ drop (dst + len e) s) else None.

Fixpoint ed_poke (i : nat) (b : Z) (s : bytes) : option bytes :=
  match s, i with
  | [], _ => None
  | _ :: tl, O => Some (b :: tl)
  | x :: tl, S j => match ed_poke j b tl with Some r => Some (x :: r) | None => None end
  end.

Definition ed_peek (i : nat) (s : bytes) : option Z := nth_error s i.

Definition ed_u8 (x : Z) : Z := x mod 256.
Definition ed_lo (b : Z) : Z := b mod 16.

Definition ed_fits (max size : Z) : bool := (max =? 0) || (size <=? max).

(* ---- option iterator (COAP_OPT_ALL) ---- *)

(* position of next_option, the bytes from there to used_size, number of the last option *)
Definition ed_it := (Z * bytes * Z)%type.

Definition ed_it_init (p : ed_bpdu) : option ed_it :=
  if ed_used p <=? eb_etl p then None
  else Some (eb_etl p, drop (eb_etl p) (eb_buf p), 0).

(* one delivered option: where it starts, the bytes from there, its delta and value, and the
   iterator afterwards *)
Record ed_hit := mkHit {
  eh_pos : Z; eh_suf : bytes; eh_delta : Z; eh_val : bytes; eh_num : Z; eh_st : ed_it }.

Definition ed_it_next (st : ed_it) : option ed_hit :=
  let '(pos, rest, num) := st in
  match rest with
  | [] => None
  | b :: _ =>
      if b =? PAYLOAD_START then None else
      match opt_parse rest with
      | None => None
      | Some (d, v, rest') =>
          let num' := (num + d) mod 65536 in
          Some (mkHit pos rest d v num' (pos + (len rest - len rest'), rest', num'))
      end
  end.

Inductive ed_found :=
| EfFuel
| EfEnd (prev : Z)                       (* the loop ended with option == NULL *)
| EfAt (h : ed_hit) (prev : Z).          (* the loop stopped at h; prev = number before it *)

(* while ((option = coap_option_next(&oi))) { if (stop(oi.number)) break; prev = oi.number; } *)
Fixpoint ed_walk (fuel : nat) (stop : Z -> bool) (st : ed_it) (prev : Z) : ed_found :=
  match fuel with
  | O => EfFuel
  | S f =>
      match ed_it_next st with
      | None => EfEnd prev
      | Some h => if stop (eh_num h) then EfAt h prev else ed_walk f stop (eh_st h) (eh_num h)
      end
  end.

Definition ed_fuel (p : ed_bpdu) : nat := S (length (eb_buf p)).

Definition ed_search (p : ed_bpdu) (stop : Z -> bool) : ed_found :=
  match ed_it_init p with
  | None => EfEnd 0
  | Some st => ed_walk (ed_fuel p) stop st 0
  end.

(* all options in order, as the dump sees them *)
Fixpoint ed_collect (fuel : nat) (st : ed_it) : option (list opt) :=
  match fuel with
  | O => None
  | S f =>
      match ed_it_next st with
      | None => Some []
      | Some h => match ed_collect f (eh_st h) with
                  | Some l => Some ((eh_num h, eh_val h) :: l)
                  | None => None
                  end
      end
  end.

Definition ed_b_opts (p : ed_bpdu) : option (list opt) :=
  match ed_it_init p with
  | None => Some []
  | Some st => ed_collect (ed_fuel p) st
  end.

(* ---- accessors: coap_pdu_get_token, option iterator, coap_get_data ---- *)

Definition ed_bias (l : Z) : Z := if l <? 13 then 0 else if l <? 269 then 1 else 2.

Definition ed_b_tok (p : ed_bpdu) : bytes :=
  take (eb_tlen p) (drop (ed_bias (eb_tlen p)) (eb_buf p)).

Definition ed_b_payload (p : ed_bpdu) : bytes :=
  if eb_data p =? 0 then [] else drop (eb_data p) (eb_buf p).

Definition ed_abs (p : ed_bpdu) : option msg :=
  os <- ed_b_opts p ;;
  Some (mkMsg (eb_type p) (eb_code p) (eb_mid p) (ed_b_tok p) os (ed_b_payload p)).

(* ---- from the abstract message to the buffer (what the builder / the parser leave) ---- *)

Definition ed_of_msg (m : msg) (max : Z) : ed_bpdu :=
  let ta := token_area (m_token m) in
  let buf := ta ++ content_area m in
  mkEb (m_type m) (m_code m) (m_mid m) buf (len ta) (len (m_token m)) (last_num (m_opts m))
       (match m_payload m with [] => 0 | _ => len buf - len (m_payload m) end) max.

Definition ed_of_pdu (q : pdu) : ed_bpdu := ed_of_msg (p_msg q) (p_max q).

(* coap_pdu_parse on wire bytes: the buffer is what follows the framing header *)
Definition ed_b_start_wire (pr : proto) (bs : bytes) (max : Z) : option ed_bpdu :=
  match bs with
  | [] => None
  | b0 :: _ =>
      match parse pr bs with
      | None => None
      | Some m =>
          let buf := drop (header_size pr b0) bs in
          Some (mkEb (m_type m) (m_code m) (m_mid m) buf (len (token_area (m_token m)))
                     (len (m_token m)) (last_num (m_opts m))
                     (match m_payload m with [] => 0 | _ => len buf - len (m_payload m) end) max)
      end
  end.

Definition ed_set_buf (p : ed_bpdu) (buf : bytes) (data : Z) : ed_bpdu :=
  mkEb (eb_type p) (eb_code p) (eb_mid p) buf (eb_etl p) (eb_tlen p) (eb_maxopt p) data (eb_max p).

Definition ed_set_maxopt (p : ed_bpdu) (mo : Z) : ed_bpdu :=
  mkEb (eb_type p) (eb_code p) (eb_mid p) (eb_buf p) (eb_etl p) (eb_tlen p) mo (eb_data p)
       (eb_max p).

Definition ed_shift_data (p : ed_bpdu) (by_ : Z) : Z :=
  if eb_data p =? 0 then 0 else eb_data p + by_.

(* ---- coap_add_option_internal, tail: encode at the end of the options ---- *)

Definition ed_b_append (p : ed_bpdu) (n : Z) (v : bytes) : option (bool * ed_bpdu) :=
  let used := ed_used p in
  let optsize := opt_encode_size (n - eb_maxopt p) (len v) in
  if negb (ed_fits (eb_max p) (used + optsize)) then Some (false, p) else
  let g := ed_grow (eb_buf p) optsize in
  mv <- (if eb_data p =? 0 then Some (g, used)
         else
           (* memmove(&data[optsize-1], &data[-1], used_size - (data - token) + 1) *)
           s <- ed_memmove g (eb_data p + optsize - 1) (eb_data p - 1) (used - eb_data p + 1) ;;
           Some (s, eb_data p - 1)) ;;
  let '(s, at_) := mv in
  s' <- ed_bwrite s at_ (opt_enc (n - eb_maxopt p) v) ;;
  Some (true, ed_set_maxopt (ed_set_buf p (take (used + optsize) s') (ed_shift_data p optsize)) n).

(* ---- coap_insert_option, in-place path (number < max_opt) ---- *)

(* the header of the following option gets its new delta; result: patched bytes and [shrink] *)
Definition ed_patch_insert (dold dnew : Z) (s : bytes) : option (bytes * Z) :=
  b0 <- ed_peek 0 s ;;
  let nib := ed_u8 (ed_lo b0 + ed_u8 (dnew * 16)) in
  if dold <? 13 then
    s1 <- ed_poke 0 nib s ;; Some (s1, 0)
  else if (dold <? 269) && (dnew <? 13) then
    s1 <- ed_poke 1 nib s ;; Some (s1, 1)
  else if (dold <? 269) && (dnew <? 269) then
    s1 <- ed_poke 1 (ed_u8 (dnew - 13)) s ;; Some (s1, 0)
  else if dnew <? 13 then
    s1 <- ed_poke 2 nib s ;; Some (s1, 2)
  else if dnew <? 269 then
    s1 <- ed_poke 1 (ed_u8 (ed_lo b0 + 208)) s ;;
    s2 <- ed_poke 2 (ed_u8 (dnew - 13)) s1 ;; Some (s2, 1)
  else
    s1 <- ed_poke 1 (ed_u8 ((dnew - 269) / 256)) s ;;
    s2 <- ed_poke 2 ((dnew - 269) mod 256) s1 ;; Some (s2, 0).

Definition ed_b_inplace (p : ed_bpdu) (n : Z) (v : bytes) : option (bool * ed_bpdu) :=
  match ed_search p (fun k => n <? k) with
  | EfFuel => None
  | EfEnd _ => None                                   (* assert(option != NULL) *)
  | EfAt h prev =>
      let used := ed_used p in
      let shift := opt_encode_size (n - prev) (len v) in
      match opt_parse (eh_suf h) with
      | None => Some (false, p)
      | Some (dold, _, _) =>
          let dnew := eh_num h - n in
          if (dnew =? 0) && negb (repeatable n) then Some (false, p) else
          if negb (ed_fits (eb_max p) (used + shift)) then Some (false, p) else
          let g := ed_grow (eh_suf h) shift in
          ps <- ed_patch_insert dold dnew g ;;
          let '(s1, shrink) := ps in
          (* memmove(&option[shift], &option[shrink], used_size - (option - token) - shrink) *)
          s2 <- ed_memmove s1 shift shrink (len (eh_suf h) - shrink) ;;
          s3 <- ed_bwrite s2 0 (opt_enc (n - prev) v) ;;
          let used' := used + shift - shrink in
          Some (true, ed_set_buf p (take (eh_pos h) (eb_buf p) ++ take (used' - eh_pos h) s3)
                                 (ed_shift_data p (shift - shrink)))
      end
  end.

(* ---- coap_add_option_internal ---- *)

Definition ed_b_has (p : ed_bpdu) (n : Z) : option bool :=
  match ed_search p (fun k => k =? n) with
  | EfFuel => None
  | EfEnd _ => Some false
  | EfAt _ _ => Some true
  end.

(* without the RFC 8768 step (which cannot trigger for the Hop-Limit option itself) *)
Definition ed_b_add_plain (p : ed_bpdu) (n : Z) (v : bytes) : option (bool * ed_bpdu) :=
  if (n =? eb_maxopt p) && negb (repeatable n) then Some (false, p) else
  if n <? eb_maxopt p then ed_b_inplace p n v else ed_b_append p n v.

Definition ed_b_add_internal (p : ed_bpdu) (n : Z) (v : bytes) : option (bool * ed_bpdu) :=
  if (n =? eb_maxopt p) && negb (repeatable n) then Some (false, p) else
  p1 <- (if is_request (eb_code p) && ((n =? 35) || (n =? 39)) then
           has <- ed_b_has p 16 ;;
           if has then Some p else
             (* coap_insert_option(pdu, COAP_OPTION_HOP_LIMIT, 1, &16), result ignored *)
             r <- (if eb_maxopt p <=? 16 then ed_b_add_plain p 16 [16]
                   else ed_b_inplace p 16 [16]) ;;
             Some (snd r)
         else Some p) ;;
  if n <? eb_maxopt p1 then ed_b_inplace p1 n v else ed_b_append p1 n v.

Definition ed_b_insert (p : ed_bpdu) (n : Z) (v : bytes) : option (bool * ed_bpdu) :=
  if eb_maxopt p <=? n then ed_b_add_internal p n v else ed_b_inplace p n v.

(* ---- coap_update_option ---- *)

Definition ed_b_update (p : ed_bpdu) (n : Z) (v : bytes) : option (bool * ed_bpdu) :=
  match ed_search p (fun k => k =? n) with
  | EfFuel => None
  | EfEnd _ => ed_b_insert p n v
  | EfAt h _ =>
      match opt_parse (eh_suf h) with
      | None => Some (false, p)
      | Some (d, _, rest) =>
          let used := ed_used p in
          let old := len (eh_suf h) - len rest in
          let new := opt_encode_size d (len v) in
          if (old <? new) && negb (ed_fits (eb_max p) (used + new - old)) then Some (false, p) else
          let g := ed_grow (eh_suf h) (new - old) in
          (* memmove(&option[new], &option[old], used_size - (option - token) - old) *)
          s1 <- (if new =? old then Some g
                 else ed_memmove g new old (len (eh_suf h) - old)) ;;
          s2 <- ed_bwrite s1 0 (opt_enc d v) ;;
          let used' := used + new - old in
          Some (true, ed_set_buf p (take (eh_pos h) (eb_buf p) ++ take (used' - eh_pos h) s2)
                                 (ed_shift_data p (new - old)))
      end
  end.

(* ---- coap_remove_option ---- *)

(* [s] = the bytes from the option to remove, [k] = index of the next option in [s];
   result: patched bytes and the index the remaining bytes are moved down from *)
Definition ed_patch_remove (dthis dnext : Z) (k : nat) (s : bytes) : option (bytes * Z) :=
  let od := dthis + dnext in
  let kz := Z.of_nat k in
  bk <- ed_peek k s ;;
  if od <? 13 then
    s1 <- ed_poke k (ed_u8 (ed_lo bk + ed_u8 (od * 16))) s ;; Some (s1, kz)
  else if (od <? 269) && (dnext <? 13) then
    match k with
    | O => None
    | S k1 =>
        s1 <- ed_poke k1 (ed_u8 (ed_lo bk + 208)) s ;;
        s2 <- ed_poke k (ed_u8 (od - 13)) s1 ;; Some (s2, kz - 1)
    end
  else if od <? 269 then
    s1 <- ed_poke (S k) (ed_u8 (od - 13)) s ;; Some (s1, kz)
  else if dnext <? 13 then
    match k with
    | S (S k2) =>
        s1 <- ed_poke k2 (ed_u8 (ed_lo bk + 224)) s ;;
        s2 <- ed_poke (S k2) (ed_u8 ((od - 269) / 256)) s1 ;;
        s3 <- ed_poke k ((od - 269) mod 256) s2 ;; Some (s3, kz - 2)
    | _ => None       (* the 1-byte shuffle branch: see ed_b_remove *)
    end
  else if dnext <? 269 then
    match k with
    | O => None
    | S k1 =>
        s1 <- ed_poke k1 (ed_u8 (ed_lo bk + 224)) s ;;
        s2 <- ed_poke k (ed_u8 ((od - 269) / 256)) s1 ;;
        s3 <- ed_poke (S k) ((od - 269) mod 256) s2 ;; Some (s3, kz - 1)
    end
  else
    s1 <- ed_poke (S k) (ed_u8 ((od - 269) / 256)) s ;;
    s2 <- ed_poke (S (S k)) ((od - 269) mod 256) s1 ;; Some (s2, kz).

Definition ed_b_remove (p : ed_bpdu) (n : Z) : option (bool * ed_bpdu) :=
  match ed_search p (fun k => k =? n) with
  | EfFuel => None
  | EfEnd _ => Some (false, p)
  | EfAt h _ =>
      match opt_parse (eh_suf h) with
      | None => Some (false, p)
      | Some (dthis, vthis, _) =>
          let s := eh_suf h in
          match ed_it_next (eh_st h) with
          | Some hn =>
              match opt_parse (eh_suf hn) with
              | None => Some (false, p)
              | Some (dnext, _, _) =>
                  let k := eh_pos hn - eh_pos h in
                  let od := dthis + dnext in
                  (* next_option - option < 2 with opt_delta >= 269 and decode_next.delta < 13:
                     shuffle everything up by one byte first *)
                  pre <- (if negb (od <? 269) && (dnext <? 13) && (k <? 2) then
                            if negb (ed_fits (eb_max p) (ed_used p + 1)) then Some (None)
                            else
                              s1 <- ed_memmove (ed_grow s 1) (k + 1) k (len s - k) ;;
                              Some (Some (s1, k + 1, 1))
                          else Some (Some (s, k, 0))) ;;
                  match pre with
                  | None => Some (false, p)
                  | Some (s0, k0, grown) =>
                      ps <- ed_patch_remove dthis dnext (Z.to_nat k0) s0 ;;
                      let '(s1, src) := ps in
                      (* memmove(option, next_option, used_size - (next_option - token)) *)
                      s2 <- ed_memmove s1 0 src (len s + grown - src) ;;
                      Some (true, ed_set_buf p (take (eh_pos h) (eb_buf p) ++
                                                take (len s + grown - src) s2)
                                             (ed_shift_data p (grown - src)))
                  end
              end
          | None =>
              (* last option: next_option = option + coap_opt_encode_size(delta, length) *)
              let src := opt_encode_size dthis (len vthis) in
              s2 <- (if len s - src =? 0 then Some s
                     else ed_memmove s 0 src (len s - src)) ;;
              Some (true, ed_set_maxopt
                            (ed_set_buf p (take (eh_pos h) (eb_buf p) ++ take (len s - src) s2)
                                        (ed_shift_data p (- src)))
                            (eb_maxopt p - dthis))
          end
      end
  end.

(* ---- coap_add_token / coap_update_token ---- *)

Definition ed_b_add_token (p : ed_bpdu) (t : bytes) : option (bool * ed_bpdu) :=
  if negb (ed_used p =? 0) then Some (false, p) else
  let l := len t in
  if 65804 <? l then Some (false, p) else
  let nl := l + ed_bias l in
  if negb (ed_fits (eb_max p) nl) then Some (false, p) else
  s <- ed_bwrite (ed_grow [] nl) 0 (token_area t) ;;
  Some (true, mkEb (eb_type p) (eb_code p) (eb_mid p) s nl l 0 0 (eb_max p)).

(* [etl_store] is how the new e_token_length is stored: the identity in the repaired code, the
   8-bit cast of the pinned code (ed_b_token_cast8 below) *)
Definition ed_b_token_gen (etl_store : Z -> Z) (p : ed_bpdu) (t : bytes)
  : option (bool * ed_bpdu) :=
  if ed_used p =? 0 then ed_b_add_token p t else
  let used := ed_used p in
  let l := len t in
  if 65804 <? l then Some (false, p) else
  let nl := l + ed_bias l in
  let etl := eb_etl p in
  r <- (if nl =? etl then Some (Some (eb_buf p, 0))
        else if etl <? nl then
          if negb (ed_fits (eb_max p) (used + nl - etl)) then Some None
          else
            (* memmove(&token[nl - etl], token, used_size) *)
            s <- ed_memmove (ed_grow (eb_buf p) (nl - etl)) (nl - etl) 0 used ;;
            Some (Some (s, nl - etl))
        else
          (* used_size -= etl - nl; memmove(token, &token[etl - nl], used_size) *)
          s <- ed_memmove (eb_buf p) 0 (etl - nl) (used - (etl - nl)) ;;
          Some (Some (take (used - (etl - nl)) s, nl - etl))) ;;
  match r with
  | None => Some (false, p)
  | Some (s, by_) =>
      s' <- ed_bwrite s 0 (token_area t) ;;
      Some (true, mkEb (eb_type p) (eb_code p) (eb_mid p) s' (etl_store nl) l (eb_maxopt p)
                       (ed_shift_data p by_) (eb_max p))
  end.

Definition ed_b_token := ed_b_token_gen (fun x => x).
(* the code as pinned: pdu->e_token_length = (uint8_t)(len + bias) *)
Definition ed_b_token_cast8 := ed_b_token_gen (fun x => x mod 256).

(* ---- edit lists ---- *)

Definition ed_b_apply (p : ed_bpdu) (e : ed_op) : option (bool * ed_bpdu) :=
  match e with
  | EdInsert n v => ed_b_insert p n v
  | EdUpdate n v => ed_b_update p n v
  | EdRemove n => ed_b_remove p n
  | EdToken t => ed_b_token p t
  end.

Fixpoint ed_b_run (p : ed_bpdu) (es : list ed_op) : option (list bool * ed_bpdu) :=
  match es with
  | [] => Some ([], p)
  | e :: tl =>
      r <- ed_b_apply p e ;;
      rs <- ed_b_run (snd r) tl ;;
      Some (fst r :: fst rs, snd rs)
  end.

(* ---- coap_pdu_duplicate_lkd ---- *)

(* [mid'] = coap_new_message_id_lkd, [smax] = coap_session_max_pdu_size_lkd, [drop] = the
   numbers in drop_options ([None] = NULL).  Result [Some None] = NULL returned. *)
Fixpoint ed_b_readd (p : ed_bpdu) (l : list opt) : option (option ed_bpdu) :=
  match l with
  | [] => Some (Some p)
  | (n, v) :: tl =>
      r <- ed_b_add_internal p n v ;;
      if fst r then ed_b_readd (snd r) tl else Some None
  end.

Definition ed_b_dup (old : ed_bpdu) (mid' smax : Z) (t : bytes) (drop_ : option (list Z))
  : option (option ed_bpdu) :=
  let mx := Z.max (eb_max old) smax in
  let p0 := mkEb (eb_type old) (eb_code old) mid' [] 0 0 0 0 mx in
  r <- ed_b_add_token p0 t ;;               (* return value ignored *)
  let p1 := snd r in
  match drop_ with
  | None =>
      let used := ed_used old in
      let length := used - eb_etl old -
                    (if eb_data old =? 0 then 0 else used - eb_data old + 1) in
      (* coap_pdu_resize(pdu, length + pdu->e_token_length) *)
      if negb (ed_fits mx (length + eb_etl p1)) then Some None else
      s <- ed_bwrite (ed_grow (eb_buf p1) length) (eb_etl p1)
                     (take length (drop (eb_etl old) (eb_buf old))) ;;
      Some (Some (ed_set_maxopt (ed_set_buf p1 s 0) (eb_maxopt old)))
  | Some dl =>
      os <- ed_b_opts old ;;
      ed_b_readd p1 (filter (fun o => negb (existsb (Z.eqb (fst o)) dl)) os)
  end.

(* ---- the builder calls at byte level: coap_pdu_init, coap_add_token, coap_add_option,
        coap_add_data (what a "freshly built" message is made with) ---- *)

Definition ed_b_init (ty code mid max : Z) : ed_bpdu := mkEb ty code mid [] 0 0 0 0 max.

(* coap_add_data -> coap_add_data_after: coap_pdu_resize(used_size + len + 1), marker, payload *)
Definition ed_b_add_data (p : ed_bpdu) (d : bytes) : option (bool * ed_bpdu) :=
  match d with
  | [] => Some (true, p)
  | _ =>
      if negb (eb_data p =? 0) then Some (false, p) else
      let used := ed_used p in
      if negb (ed_fits (eb_max p) (used + len d + 1)) then Some (false, p) else
      s <- ed_bwrite (ed_grow (eb_buf p) (len d + 1)) used (PAYLOAD_START :: d) ;;
      Some (true, ed_set_buf p s (used + 1))
  end.

Definition ed_b_build_op (p : ed_bpdu) (o : bop) : option (bool * ed_bpdu) :=
  match o with
  | OpToken t => ed_b_add_token p t
  | OpOpt n v =>
      (* coap_add_option: refused once there is payload *)
      if negb (eb_data p =? 0) then Some (false, p) else ed_b_add_internal p n v
  | OpData d => ed_b_add_data p d
  end.

Fixpoint ed_b_build (p : ed_bpdu) (ops : list bop) : option (list bool * ed_bpdu) :=
  match ops with
  | [] => Some ([], p)
  | o :: tl =>
      r <- ed_b_build_op p o ;;
      rs <- ed_b_build (snd r) tl ;;
      Some (fst r :: fst rs, snd rs)
  end.

(* ---- coap_update_token on a PDU that belongs to a session and has an encoded header
        (pdu->hdr_size && pdu->session): the header in memory, token - hdr_size .. token ----
   [h] = the header bytes before the call.  The C re-encodes the header when the stored
   e_token_length changed; on the used_size == 0 path (coap_add_token) the repaired code
   re-encodes when a token was added, the pinned code ([fixed] = false) never did. *)
Definition ed_b_token_hdr_gen (fixed : bool) (pr : proto) (h : bytes) (p : ed_bpdu) (t : bytes)
  : option (bool * ed_bpdu * bytes) :=
  r <- ed_b_token p t ;;
  if negb (fst r) then Some (r, h) else
  let reenc :=
    if ed_used p =? 0 then fixed && negb (eb_etl (snd r) =? 0)
    else negb (eb_etl p =? eb_etl (snd r)) in
  if reenc then m <- ed_abs (snd r) ;; Some (r, header pr m) else Some (r, h).

Definition ed_b_token_hdr := ed_b_token_hdr_gen true.

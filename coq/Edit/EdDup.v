(* C04 - coap_pdu_duplicate_lkd: the byte-level transcription builds the PDU the specification
   describes (fresh PDU, new token, no payload, options copied as a block or re-added one by
   one past the drop filter). *)
From LibcoapV Require Import Base.Tactics Base.Bytes Base.BytesProofs Wire.OptCodec
  Wire.OptCodecProofs Wire.Pdu Wire.PduProofs Wire.Build Edit.EdSpec Edit.EdBytes Edit.EdLemmas
  Edit.EdSpecProofs Edit.EdIter Edit.EdPatch Edit.EdBytesProofs.
Local Open Scope Z_scope.

Lemma ed_max_add_opt_raw q n v : p_max (snd (add_opt_raw q n v)) = p_max q.
Proof. unfold add_opt_raw. repeat case_if; reflexivity. Qed.

Lemma ed_max_add_internal q n v : p_max (snd (ed_add_internal q n v)) = p_max q.
Proof.
  unfold ed_add_internal. case_if; [reflexivity|]. rewrite ed_max_add_opt_raw.
  unfold ed_hop_step. case_if; [apply ed_max_add_opt_raw|reflexivity].
Qed.

Lemma ed_b_readd_refines l : forall q,
  ed_pwf q -> Forall ed_opt_ok l ->
  ed_b_readd (ed_of_pdu q) l = Some (option_map ed_of_pdu (ed_readd q l)).
Proof.
  induction l as [|[n v] tl IH]; intros q [W Hm] Hl; [reflexivity|].
  inversion Hl as [|? ? [Hn Hv] Htl]; subst. cbn [fst snd] in Hn, Hv.
  cbn [ed_b_readd ed_readd].
  rewrite ed_b_add_internal_refines by assumption. cbn [fst snd].
  pose proof (ed_mwf_add_internal q n v W Hn Hv) as W1.
  pose proof (ed_max_add_internal q n v) as M1.
  destruct (ed_add_internal q n v) as [r q1]. cbn [fst snd] in *.
  destruct r; [|reflexivity]. apply IH; [split; [assumption|lia]|assumption].
Qed.

Lemma ed_bwrite_end_exact (P J E : bytes) :
  len E = len J -> ed_bwrite (P ++ J) (len P) E = Some (P ++ E).
Proof.
  intros H. pose proof (len_nonneg P). pose proof (len_nonneg E).
  unfold ed_bwrite. rewrite len_app.
  replace ((0 <=? len P) && (len P + len E <=? len P + len J)) with true by lia.
  rewrite take_app_exact. rewrite ed_drop_all by (rewrite len_app; lia).
  rewrite app_nil_r. reflexivity.
Qed.

Theorem ed_b_dup_refines q mid' smax t drop_ :
  ed_pwf q -> 0 <= smax ->
  ed_b_dup (ed_of_pdu q) mid' smax t drop_ =
  Some (option_map ed_of_pdu (ed_dup q mid' smax t drop_)).
Proof.
  intros [W Hm] Hs. unfold ed_b_dup, ed_dup.
  set (m := p_msg q). set (mx := Z.max (p_max q) smax).
  change (eb_max (ed_of_pdu q)) with (p_max q). fold mx.
  set (q0 := mkPdu (mkMsg (m_type m) (m_code m) mid' [] [] []) mx).
  change (mkEb (eb_type (ed_of_pdu q)) (eb_code (ed_of_pdu q)) mid' [] 0 0 0 0 mx)
    with (ed_of_pdu q0).
  assert (Hadd : ed_b_add_token (ed_of_pdu q0) t = ed_b_token (ed_of_pdu q0) t) by reflexivity.
  rewrite Hadd, ed_b_token_refines by (cbn; lia). cbn [snd].
  pose proof (ed_apply_keeps q0 (EdToken t)) as K. cbv zeta in K. cbn [ed_apply] in K.
  destruct K as (_ & _ & _ & Kp & Kmax & Ko).
  assert (W1 : ed_pwf (snd (ed_token q0 t))).
  { split; [apply ed_mwf_token|rewrite Kmax; cbn; lia].
    constructor; cbn; [unfold len; cbn; lia|constructor|exact I]. }
  set (q1 := snd (ed_token q0 t)) in *.
  cbn [q0 p_msg m_opts m_payload p_max] in Ko, Kp, Kmax.
  destruct drop_ as [dl|].
  - (* options re-added one by one *)
    rewrite ed_b_opts_of_pdu by assumption. fold m.
    apply ed_b_readd_refines; [assumption|].
    destruct W as [_ Hok _]. fold m in Hok. clear - Hok.
    induction Hok as [|o l Ho Hl IH]; cbn [filter]; [constructor|].
    destruct (negb (existsb (Z.eqb (fst o)) dl)); [constructor; assumption|assumption].
  - (* options copied as a block *)
    set (TA := token_area (m_token m)). set (OE := opts_enc 0 (m_opts m)).
    set (PA := payload_area (m_payload m)).
    set (T1 := token_area (m_token (p_msg q1))).
    assert (Hb : eb_buf (ed_of_pdu q) = TA ++ OE ++ PA) by reflexivity.
    assert (Hb1 : eb_buf (ed_of_pdu q1) = T1).
    { rewrite ed_buf_of_pdu, Ko, Kp. cbn [opts_enc payload_area app]. apply app_nil_r. }
    assert (Hlen : ed_used (ed_of_pdu q) - eb_etl (ed_of_pdu q) -
                   (if eb_data (ed_of_pdu q) =? 0 then 0
                    else ed_used (ed_of_pdu q) - eb_data (ed_of_pdu q) + 1) = len OE).
    { unfold ed_used. rewrite Hb, !len_app. change (eb_etl (ed_of_pdu q)) with (len TA).
      pose proof (ed_shift_data_of_pdu q 0) as Hd. unfold ed_shift_data in Hd.
      change (p_msg q) with m in Hd.
      subst PA. destruct (m_payload m) as [|x xs] eqn:Ep.
      - destruct (eb_data (ed_of_pdu q) =? 0) eqn:E0; cbn [payload_area]; [|lia].
        change (len (@nil Z)) with 0. lia.
      - destruct (eb_data (ed_of_pdu q) =? 0) eqn:E0.
        + cbn [ed_of_pdu ed_of_msg eb_data] in E0. change (p_msg q) with m in E0. rewrite Ep in E0.
          change (content_area m) with (OE ++ payload_area (m_payload m)) in E0. rewrite Ep in E0.
          cbn [payload_area] in E0. rewrite !len_app, len_cons in E0.
          pose proof (len_nonneg (token_area (m_token m))). pose proof (len_nonneg OE). lia.
        + rewrite Hb in Hd. try rewrite Ep in Hd. cbn [payload_area] in *.
          rewrite !len_app, len_cons in Hd. rewrite len_cons. lia. }
    rewrite Hlen. change (eb_etl (ed_of_pdu q1)) with (len T1).
    change (ed_fits mx (len OE + len T1)) with ((mx =? 0) || (len OE + len T1 <=? mx)).
    unfold fits. rewrite Kmax. fold T1 OE.
    replace (len T1 + len OE <=? mx) with (len OE + len T1 <=? mx) by lia.
    destruct ((mx =? 0) || (len OE + len T1 <=? mx)); cbn [negb option_map]; [|reflexivity].
    rewrite Hb1, Hb. change (eb_etl (ed_of_pdu q)) with (len TA).
    rewrite drop_app_exact, take_app_exact.
    unfold ed_grow. rewrite ed_bwrite_end_exact by (rewrite ed_len_repeat; pose proof (len_nonneg OE); lia).
    f_equal. f_equal. change (eb_maxopt (ed_of_pdu q)) with (last_num (m_opts m)).
    apply ed_of_pdu_set_opts'; [|rewrite Kp; reflexivity|reflexivity].
    rewrite Kp. cbn [payload_area]. rewrite app_nil_r. reflexivity.
Qed.

(* C04 - theorems about the specification level (Edit/EdSpec.v): an edit changes only what it
   names.  For each edit the option list before and after is split explicitly, so that "every
   option not named keeps its number, value and position" is the shape of the statement; token
   and payload are untouched by the option edits, options and payload by the token edit. *)
From LibcoapV Require Import Base.Tactics Base.Bytes Base.BytesProofs Wire.OptCodec
  Wire.OptCodecProofs Wire.Pdu Wire.PduProofs Wire.Build Edit.EdSpec.
Local Open Scope Z_scope.

(* ---- structural well-formedness of the abstract message ---- *)

Definition ed_opt_ok (o : opt) : Prop := 0 <= fst o <= 65535 /\ len (snd o) <= 65804.

Record ed_mwf (m : msg) : Prop := {
  emw_token : len (m_token m) <= 65804;
  emw_opts : Forall ed_opt_ok (m_opts m);
  emw_asc : ascending 0 (m_opts m) }.

(* number of the last option of [l], [p] if there is none *)
Definition ed_lastn (p : Z) (l : list opt) : Z := fst (last l (p, [])).

Lemma ed_last_default {A} (l : list A) d d' : l <> [] -> last l d = last l d'.
Proof.
  induction l as [|x tl IH]; intros H; [congruence|].
  destruct tl as [|y tl']; [reflexivity|].
  change (last (x :: y :: tl') d) with (last (y :: tl') d).
  change (last (x :: y :: tl') d') with (last (y :: tl') d'). apply IH. discriminate.
Qed.

Lemma ed_lastn_nil p : ed_lastn p [] = p.
Proof. reflexivity. Qed.

Lemma ed_lastn_cons p n v tl : ed_lastn p ((n, v) :: tl) = ed_lastn n tl.
Proof.
  unfold ed_lastn. destruct tl as [|y tl']; [reflexivity|].
  change (last ((n, v) :: y :: tl') (p, [])) with (last (y :: tl') (p, [])).
  f_equal. apply ed_last_default. discriminate.
Qed.

Lemma ed_lastn_app p l1 l2 : ed_lastn p (l1 ++ l2) = ed_lastn (ed_lastn p l1) l2.
Proof.
  revert p. induction l1 as [|[n v] tl IH]; intros p; [reflexivity|].
  cbn [app]. rewrite !ed_lastn_cons. apply IH.
Qed.

Lemma ed_last_num_lastn l : last_num l = ed_lastn 0 l.
Proof. reflexivity. Qed.

Lemma ed_opts_enc_app l1 : forall p l2,
  opts_enc p (l1 ++ l2) = opts_enc p l1 ++ opts_enc (ed_lastn p l1) l2.
Proof.
  induction l1 as [|[n v] tl IH]; intros p l2; [reflexivity|].
  cbn [app opts_enc]. rewrite IH, ed_lastn_cons, <- app_assoc. reflexivity.
Qed.

Lemma ed_ascending_app l1 : forall p l2,
  ascending p (l1 ++ l2) <-> ascending p l1 /\ ascending (ed_lastn p l1) l2.
Proof.
  induction l1 as [|[n v] tl IH]; intros p l2.
  - cbn [app ascending]. rewrite ed_lastn_nil. tauto.
  - cbn [app ascending fst]. rewrite IH, ed_lastn_cons. tauto.
Qed.

Lemma ed_ascending_lastn l : forall p, ascending p l -> p <= ed_lastn p l.
Proof.
  induction l as [|[n v] tl IH]; intros p H; [rewrite ed_lastn_nil; lia|].
  cbn [ascending fst] in H. destruct H as [H1 H2]. rewrite ed_lastn_cons.
  specialize (IH n H2). lia.
Qed.

Lemma ed_ascending_weaken l : forall p p', p' <= p -> ascending p l -> ascending p' l.
Proof.
  destruct l as [|[n v] tl]; intros p p' H A; [exact I|].
  cbn [ascending fst] in *. split; [lia|tauto].
Qed.

(* every number of an ascending list lies between the bound and the last number *)
Lemma ed_ascending_bounds l : forall p, ascending p l ->
  Forall (fun o => p <= fst o <= ed_lastn p l) l.
Proof.
  induction l as [|[n v] tl IH]; intros p H; [constructor|].
  cbn [ascending fst] in H. destruct H as [H1 H2]. rewrite ed_lastn_cons.
  pose proof (ed_ascending_lastn tl n H2) as Hl.
  constructor; [cbn [fst]; lia|].
  specialize (IH n H2). eapply Forall_impl; [|exact IH]. cbn. intros o Ho. lia.
Qed.

(* ---- splitting an option list at the first option that satisfies a test ---- *)

Lemma ed_split_first (stop : Z -> bool) (l : list opt) :
  Forall (fun o => stop (fst o) = false) l \/
  exists l1 k w l2, l = l1 ++ (k, w) :: l2 /\
                    Forall (fun o => stop (fst o) = false) l1 /\ stop k = true.
Proof.
  induction l as [|[n v] tl IH]; [left; constructor|].
  destruct (stop n) eqn:E.
  - right. exists [], n, v, tl. split; [reflexivity|]. split; [constructor|assumption].
  - destruct IH as [IH|(l1 & k & w & l2 & -> & H1 & H2)].
    + left. constructor; assumption.
    + right. exists ((n, v) :: l1), k, w, l2. split; [reflexivity|].
      split; [constructor; assumption|assumption].
Qed.

(* ---- the list functions of the specification on a split list ---- *)

Lemma ed_insert_opt_split n v l1 : forall k w l2,
  Forall (fun o => (n <? fst o) = false) l1 -> (n <? k) = true ->
  insert_opt n v (l1 ++ (k, w) :: l2) = l1 ++ (n, v) :: (k, w) :: l2.
Proof.
  induction l1 as [|[a b] tl IH]; intros k w l2 H1 H2.
  - cbn [app insert_opt]. replace (k <=? n) with false by lia. reflexivity.
  - inversion H1; subst. cbn [fst] in *. cbn [app insert_opt].
    replace (a <=? n) with true by lia. rewrite IH by assumption. reflexivity.
Qed.

Lemma ed_insert_opt_end n v l :
  Forall (fun o => (n <? fst o) = false) l -> insert_opt n v l = l ++ [(n, v)].
Proof.
  induction l as [|[a b] tl IH]; intros H; [reflexivity|].
  inversion H; subst. cbn [fst] in *. cbn [app insert_opt].
  replace (a <=? n) with true by lia. rewrite IH by assumption. reflexivity.
Qed.

Lemma ed_prev_num_split n l1 : forall p k w l2,
  Forall (fun o => (n <? fst o) = false) l1 -> (n <? k) = true ->
  prev_num n p (l1 ++ (k, w) :: l2) = ed_lastn p l1.
Proof.
  induction l1 as [|[a b] tl IH]; intros p k w l2 H1 H2.
  - cbn [app prev_num]. replace (k <=? n) with false by lia. reflexivity.
  - inversion H1; subst. cbn [fst] in *. cbn [app prev_num].
    replace (a <=? n) with true by lia. rewrite ed_lastn_cons. apply IH; assumption.
Qed.

Lemma ed_find_split n l1 : forall w l2,
  Forall (fun o => (fst o =? n) = false) l1 -> ed_find n (l1 ++ (n, w) :: l2) = Some w.
Proof.
  induction l1 as [|[a b] tl IH]; intros w l2 H.
  - cbn [app ed_find]. rewrite Z.eqb_refl. reflexivity.
  - inversion H; subst. cbn [fst] in *. cbn [app ed_find]. rewrite H2. apply IH. assumption.
Qed.

Lemma ed_find_none n l : Forall (fun o => (fst o =? n) = false) l -> ed_find n l = None.
Proof.
  induction l as [|[a b] tl IH]; intros H; [reflexivity|].
  inversion H; subst. cbn [fst] in *. cbn [ed_find]. rewrite H2. apply IH. assumption.
Qed.

Lemma ed_replace_first_split n v l1 : forall w l2,
  Forall (fun o => (fst o =? n) = false) l1 ->
  ed_replace_first n v (l1 ++ (n, w) :: l2) = l1 ++ (n, v) :: l2.
Proof.
  induction l1 as [|[a b] tl IH]; intros w l2 H.
  - cbn [app ed_replace_first]. rewrite Z.eqb_refl. reflexivity.
  - inversion H; subst. cbn [fst] in *. cbn [app ed_replace_first]. rewrite H2.
    rewrite IH by assumption. reflexivity.
Qed.

Lemma ed_remove_first_split n l1 : forall w l2,
  Forall (fun o => (fst o =? n) = false) l1 ->
  ed_remove_first n (l1 ++ (n, w) :: l2) = l1 ++ l2.
Proof.
  induction l1 as [|[a b] tl IH]; intros w l2 H.
  - cbn [app ed_remove_first]. rewrite Z.eqb_refl. reflexivity.
  - inversion H; subst. cbn [fst] in *. cbn [app ed_remove_first]. rewrite H2.
    rewrite IH by assumption. reflexivity.
Qed.

Lemma ed_has_opt_false n l :
  has_opt n l = false <-> Forall (fun o => (fst o =? n) = false) l.
Proof.
  unfold has_opt. induction l as [|[a b] tl IH]; cbn [existsb fst].
  - split; [constructor|reflexivity].
  - rewrite orb_false_iff, IH. split.
    + intros [H1 H2]. constructor; assumption.
    + intros H. inversion H; subst. split; assumption.
Qed.

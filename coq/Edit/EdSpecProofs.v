(* C04 - theorems about the specification level (Edit/EdSpec.v): an edit changes only what it
   names.  For each edit the option list before and after is split explicitly, so that "every
   option not named keeps its number, value and position" is the shape of the statement; token
   and payload are untouched by the option edits, options and payload by the token edit. *)
From LibcoapV Require Import Base.Tactics Base.Bytes Base.BytesProofs Wire.OptCodec
  Wire.OptCodecProofs Wire.Pdu Wire.PduProofs Wire.Build Edit.EdSpec.
Local Open Scope Z_scope.

(* ---- structural well-formedness of the abstract message ---- *)

Definition ed_opt_ok (o : opt) : Prop := 0 <= fst o <= 65535 /\ len (snd o) <= 65804.

Record ed_mwf (m : msg) : Prop := {
  emw_token : len (m_token m) <= 65804;
  emw_opts : Forall ed_opt_ok (m_opts m);
  emw_asc : ascending 0 (m_opts m) }.

(* number of the last option of [l], [p] if there is none *)
Definition ed_lastn (p : Z) (l : list opt) : Z := fst (last l (p, [])).

Lemma ed_last_default {A} (l : list A) d d' : l <> [] -> last l d = last l d'.
Proof.
  induction l as [|x tl IH]; intros H; [congruence|].
  destruct tl as [|y tl']; [reflexivity|].
  change (last (x :: y :: tl') d) with (last (y :: tl') d).
  change (last (x :: y :: tl') d') with (last (y :: tl') d'). apply IH. discriminate.
Qed.

Lemma ed_lastn_nil p : ed_lastn p [] = p.
Proof. reflexivity. Qed.

Lemma ed_lastn_cons p n v tl : ed_lastn p ((n, v) :: tl) = ed_lastn n tl.
Proof.
  unfold ed_lastn. destruct tl as [|y tl']; [reflexivity|].
  change (last ((n, v) :: y :: tl') (p, [])) with (last (y :: tl') (p, [])).
  f_equal. apply ed_last_default. discriminate.
Qed.

Lemma ed_lastn_app p l1 l2 : ed_lastn p (l1 ++ l2) = ed_lastn (ed_lastn p l1) l2.
Proof.
  revert p. induction l1 as [|[n v] tl IH]; intros p; [reflexivity|].
  cbn [app]. rewrite !ed_lastn_cons. apply IH.
Qed.

Lemma ed_last_num_lastn l : last_num l = ed_lastn 0 l.
Proof. reflexivity. Qed.

Lemma ed_opts_enc_app l1 : forall p l2,
  opts_enc p (l1 ++ l2) = opts_enc p l1 ++ opts_enc (ed_lastn p l1) l2.
Proof.
  induction l1 as [|[n v] tl IH]; intros p l2; [reflexivity|].
  cbn [app opts_enc]. rewrite IH, ed_lastn_cons, <- app_assoc. reflexivity.
Qed.

Lemma ed_ascending_app l1 : forall p l2,
  ascending p (l1 ++ l2) <-> ascending p l1 /\ ascending (ed_lastn p l1) l2.
Proof.
  induction l1 as [|[n v] tl IH]; intros p l2.
  - cbn [app ascending]. rewrite ed_lastn_nil. tauto.
  - cbn [app ascending fst]. rewrite IH, ed_lastn_cons. tauto.
Qed.

Lemma ed_ascending_lastn l : forall p, ascending p l -> p <= ed_lastn p l.
Proof.
  induction l as [|[n v] tl IH]; intros p H; [rewrite ed_lastn_nil; lia|].
  cbn [ascending fst] in H. destruct H as [H1 H2]. rewrite ed_lastn_cons.
  specialize (IH n H2). lia.
Qed.

Lemma ed_ascending_weaken l : forall p p', p' <= p -> ascending p l -> ascending p' l.
Proof.
  destruct l as [|[n v] tl]; intros p p' H A; [exact I|].
  cbn [ascending fst] in *. split; [lia|tauto].
Qed.

(* every number of an ascending list lies between the bound and the last number *)
Lemma ed_ascending_bounds l : forall p, ascending p l ->
  Forall (fun o => p <= fst o <= ed_lastn p l) l.
Proof.
  induction l as [|[n v] tl IH]; intros p H; [constructor|].
  cbn [ascending fst] in H. destruct H as [H1 H2]. rewrite ed_lastn_cons.
  pose proof (ed_ascending_lastn tl n H2) as Hl.
  constructor; [cbn [fst]; lia|].
  specialize (IH n H2). eapply Forall_impl; [|exact IH]. cbn. intros o Ho. lia.
Qed.

(* ---- splitting an option list at the first option that satisfies a test ---- *)

Lemma ed_split_first (stop : Z -> bool) (l : list opt) :
  Forall (fun o => stop (fst o) = false) l \/
  exists l1 k w l2, l = l1 ++ (k, w) :: l2 /\
                    Forall (fun o => stop (fst o) = false) l1 /\ stop k = true.
Proof.
  induction l as [|[n v] tl IH]; [left; constructor|].
  destruct (stop n) eqn:E.
  - right. exists [], n, v, tl. split; [reflexivity|]. split; [constructor|assumption].
  - destruct IH as [IH|(l1 & k & w & l2 & -> & H1 & H2)].
    + left. constructor; assumption.
    + right. exists ((n, v) :: l1), k, w, l2. split; [reflexivity|].
      split; [constructor; assumption|assumption].
Qed.

(* ---- the list functions of the specification on a split list ---- *)

Lemma ed_insert_opt_split n v l1 : forall k w l2,
  Forall (fun o => (n <? fst o) = false) l1 -> (n <? k) = true ->
  insert_opt n v (l1 ++ (k, w) :: l2) = l1 ++ (n, v) :: (k, w) :: l2.
Proof.
  induction l1 as [|[a b] tl IH]; intros k w l2 H1 H2.
  - cbn [app insert_opt]. replace (k <=? n) with false by lia. reflexivity.
  - inversion H1; subst. cbn [fst] in *. cbn [app insert_opt].
    replace (a <=? n) with true by lia. rewrite IH by assumption. reflexivity.
Qed.

Lemma ed_insert_opt_end n v l :
  Forall (fun o => (n <? fst o) = false) l -> insert_opt n v l = l ++ [(n, v)].
Proof.
  induction l as [|[a b] tl IH]; intros H; [reflexivity|].
  inversion H; subst. cbn [fst] in *. cbn [app insert_opt].
  replace (a <=? n) with true by lia. rewrite IH by assumption. reflexivity.
Qed.

Lemma ed_prev_num_split n l1 : forall p k w l2,
  Forall (fun o => (n <? fst o) = false) l1 -> (n <? k) = true ->
  prev_num n p (l1 ++ (k, w) :: l2) = ed_lastn p l1.
Proof.
  induction l1 as [|[a b] tl IH]; intros p k w l2 H1 H2.
  - cbn [app prev_num]. replace (k <=? n) with false by lia. reflexivity.
  - inversion H1; subst. cbn [fst] in *. cbn [app prev_num].
    replace (a <=? n) with true by lia. rewrite ed_lastn_cons. apply IH; assumption.
Qed.

Lemma ed_find_split n l1 : forall w l2,
  Forall (fun o => (fst o =? n) = false) l1 -> ed_find n (l1 ++ (n, w) :: l2) = Some w.
Proof.
  induction l1 as [|[a b] tl IH]; intros w l2 H.
  - cbn [app ed_find]. rewrite Z.eqb_refl. reflexivity.
  - inversion H; subst. cbn [fst] in *. cbn [app ed_find]. rewrite H2. apply IH. assumption.
Qed.

Lemma ed_find_none n l : Forall (fun o => (fst o =? n) = false) l -> ed_find n l = None.
Proof.
  induction l as [|[a b] tl IH]; intros H; [reflexivity|].
  inversion H; subst. cbn [fst] in *. cbn [ed_find]. rewrite H2. apply IH. assumption.
Qed.

Lemma ed_replace_first_split n v l1 : forall w l2,
  Forall (fun o => (fst o =? n) = false) l1 ->
  ed_replace_first n v (l1 ++ (n, w) :: l2) = l1 ++ (n, v) :: l2.
Proof.
  induction l1 as [|[a b] tl IH]; intros w l2 H.
  - cbn [app ed_replace_first]. rewrite Z.eqb_refl. reflexivity.
  - inversion H; subst. cbn [fst] in *. cbn [app ed_replace_first]. rewrite H2.
    rewrite IH by assumption. reflexivity.
Qed.

Lemma ed_remove_first_split n l1 : forall w l2,
  Forall (fun o => (fst o =? n) = false) l1 ->
  ed_remove_first n (l1 ++ (n, w) :: l2) = l1 ++ l2.
Proof.
  induction l1 as [|[a b] tl IH]; intros w l2 H.
  - cbn [app ed_remove_first]. rewrite Z.eqb_refl. reflexivity.
  - inversion H; subst. cbn [fst] in *. cbn [app ed_remove_first]. rewrite H2.
    rewrite IH by assumption. reflexivity.
Qed.

Lemma ed_has_opt_false n l :
  has_opt n l = false <-> Forall (fun o => (fst o =? n) = false) l.
Proof.
  unfold has_opt. induction l as [|[a b] tl IH]; cbn [existsb fst].
  - split; [constructor|reflexivity].
  - rewrite orb_false_iff, IH. split.
    + intros [H1 H2]. constructor; assumption.
    + intros H. inversion H; subst. split; assumption.
Qed.

(* ---- the edits keep the message structurally well-formed ---- *)

Definition ed_op_ok (e : ed_op) : Prop :=
  match e with
  | EdInsert n v | EdUpdate n v => 0 <= n <= 65535 /\ len v <= 65804
  | EdRemove n => 0 <= n <= 65535
  | EdToken _ => True
  end.

Lemma ed_insert_opt_ok n v l :
  Forall ed_opt_ok l -> ed_opt_ok (n, v) -> Forall ed_opt_ok (insert_opt n v l).
Proof.
  intros Hl Ho. induction l as [|[a b] tl IH]; cbn [insert_opt].
  - constructor; [assumption|constructor].
  - inversion Hl; subst. destruct (a <=? n); constructor; auto.
Qed.

Lemma ed_insert_opt_asc n v l : forall p,
  ascending p l -> p <= n -> ascending p (insert_opt n v l).
Proof.
  induction l as [|[a b] tl IH]; intros p Ha Hp; cbn [insert_opt].
  - cbn [ascending fst]. auto.
  - cbn [ascending fst] in Ha. destruct Ha as [H1 H2]. destruct (a <=? n) eqn:E.
    + cbn [ascending fst]. split; [assumption|]. apply IH; [assumption|lia].
    + cbn [ascending fst]. split; [assumption|]. split; [lia|assumption].
Qed.

Lemma ed_last_num_insert n v l : forall p,
  ascending p l -> ed_lastn p (insert_opt n v l) = Z.max n (ed_lastn p l) \/
                   (l = [] /\ ed_lastn p (insert_opt n v l) = n).
Proof.
  induction l as [|[a b] tl IH]; intros p Ha.
  - right. split; reflexivity.
  - left. cbn [ascending fst] in Ha. destruct Ha as [H1 H2]. cbn [insert_opt].
    pose proof (ed_ascending_lastn tl a H2) as Hl.
    destruct (a <=? n) eqn:E.
    + rewrite !ed_lastn_cons. destruct (IH a H2) as [->|[-> ->]]; [reflexivity|].
      rewrite ed_lastn_nil. lia.
    + rewrite !ed_lastn_cons. lia.
Qed.

Lemma ed_last_num_insert_max n v l :
  ascending 0 l -> 0 <= n -> last_num (insert_opt n v l) = Z.max n (last_num l).
Proof.
  intros Ha Hn. change (ed_lastn 0 (insert_opt n v l) = Z.max n (ed_lastn 0 l)).
  destruct (ed_last_num_insert n v l 0 Ha) as [H|[-> H]]; [assumption|].
  rewrite H, ed_lastn_nil. lia.
Qed.

Lemma ed_mwf_set_opts q os :
  ed_mwf (p_msg q) -> Forall ed_opt_ok os -> ascending 0 os -> ed_mwf (p_msg (set_opts q os)).
Proof. intros [H1 _ _] H2 H3. constructor; assumption. Qed.

Lemma ed_mwf_add_opt_raw q n v :
  ed_mwf (p_msg q) -> 0 <= n <= 65535 -> len v <= 65804 ->
  ed_mwf (p_msg (snd (add_opt_raw q n v))).
Proof.
  intros W Hn Hv. unfold add_opt_raw. repeat case_if; cbn [snd]; try assumption.
  destruct W as [H1 H2 H3]. apply ed_mwf_set_opts; [constructor; assumption| |].
  - apply ed_insert_opt_ok; [assumption|]. split; assumption.
  - apply ed_insert_opt_asc; [assumption|lia].
Qed.

Lemma ed_mwf_hop_step q n : ed_mwf (p_msg q) -> ed_mwf (p_msg (ed_hop_step q n)).
Proof.
  intros W. unfold ed_hop_step. case_if; [|assumption].
  apply ed_mwf_add_opt_raw; [assumption|lia|]. unfold len. cbn. lia.
Qed.

Lemma ed_mwf_add_internal q n v :
  ed_mwf (p_msg q) -> 0 <= n <= 65535 -> len v <= 65804 ->
  ed_mwf (p_msg (snd (ed_add_internal q n v))).
Proof.
  intros W Hn Hv. unfold ed_add_internal. case_if; cbn [snd]; [assumption|].
  apply ed_mwf_add_opt_raw; try assumption. apply ed_mwf_hop_step. assumption.
Qed.

Lemma ed_mwf_insert q n v :
  ed_mwf (p_msg q) -> 0 <= n <= 65535 -> len v <= 65804 ->
  ed_mwf (p_msg (snd (ed_insert q n v))).
Proof.
  intros W Hn Hv. unfold ed_insert. case_if.
  - apply ed_mwf_add_opt_raw; assumption.
  - apply ed_mwf_add_internal; assumption.
Qed.

Lemma ed_asc_remove l1 : forall p (x : opt) l2,
  ascending p (l1 ++ x :: l2) -> ascending p (l1 ++ l2).
Proof.
  intros p x l2 H. apply ed_ascending_app in H. destruct H as [H1 H2].
  apply ed_ascending_app. split; [assumption|].
  cbn [ascending] in H2. destruct H2 as [H2 H3].
  eapply ed_ascending_weaken; [|exact H3]. assumption.
Qed.

Lemma ed_asc_replace l1 : forall p n (w v : bytes) l2,
  ascending p (l1 ++ (n, w) :: l2) -> ascending p (l1 ++ (n, v) :: l2).
Proof.
  intros p n w v l2 H. apply ed_ascending_app in H. destruct H as [H1 H2].
  apply ed_ascending_app. split; assumption.
Qed.

(* the first option numbered n, if any, splits the list *)
Lemma ed_find_cases n l :
  (ed_find n l = None /\ Forall (fun o => (fst o =? n) = false) l) \/
  exists l1 w l2, l = l1 ++ (n, w) :: l2 /\ Forall (fun o => (fst o =? n) = false) l1 /\
                  ed_find n l = Some w.
Proof.
  destruct (ed_split_first (fun k => k =? n) l) as [H|(l1 & k & w & l2 & -> & H1 & H2)].
  - left. split; [apply ed_find_none|]; assumption.
  - right. assert (k = n) by lia. subst k. exists l1, w, l2.
    split; [reflexivity|]. split; [assumption|]. apply ed_find_split. assumption.
Qed.

Lemma ed_forall_app_inv' {A} (P : A -> Prop) l1 x l2 :
  Forall P (l1 ++ x :: l2) -> Forall P l1 /\ P x /\ Forall P l2.
Proof.
  intros H. apply Forall_app in H. destruct H as [H1 H2]. inversion H2; subst. tauto.
Qed.

Lemma ed_mwf_update q n v :
  ed_mwf (p_msg q) -> 0 <= n <= 65535 -> len v <= 65804 ->
  ed_mwf (p_msg (snd (ed_update q n v))).
Proof.
  intros W Hn Hv. unfold ed_update.
  destruct (ed_find_cases n (m_opts (p_msg q))) as [[-> _]|(l1 & w & l2 & Ho & Hf & ->)].
  - apply ed_mwf_insert; assumption.
  - case_if; cbn [snd]; [|assumption]. rewrite Ho, ed_replace_first_split by assumption.
    destruct W as [H1 H2 H3]. rewrite Ho in H2, H3. apply ed_mwf_set_opts.
    + constructor; rewrite ?Ho; assumption.
    + apply ed_forall_app_inv' in H2. destruct H2 as (A & _ & B).
      apply Forall_app. split; [assumption|]. constructor; [split; assumption|assumption].
    + eapply ed_asc_replace. exact H3.
Qed.

Lemma ed_mwf_remove q n : ed_mwf (p_msg q) -> ed_mwf (p_msg (snd (ed_remove q n))).
Proof.
  intros W. unfold ed_remove.
  destruct (ed_find_cases n (m_opts (p_msg q))) as [[-> _]|(l1 & w & l2 & Ho & Hf & ->)];
    cbn [snd]; [assumption|].
  rewrite Ho, ed_remove_first_split by assumption.
  destruct W as [H1 H2 H3]. rewrite Ho in H2, H3. apply ed_mwf_set_opts.
  - constructor; rewrite ?Ho; assumption.
  - apply ed_forall_app_inv' in H2. destruct H2 as (A & _ & B). apply Forall_app. tauto.
  - eapply ed_asc_remove. exact H3.
Qed.

Lemma ed_mwf_token q t : ed_mwf (p_msg q) -> ed_mwf (p_msg (snd (ed_token q t))).
Proof.
  intros W. unfold ed_token. destruct (65804 <? len t) eqn:E; cbn [snd]; [assumption|].
  case_if; cbn [snd]; [|assumption]. destruct W as [H1 H2 H3].
  constructor; cbn [ed_with_token p_msg m_token m_opts]; try assumption. lia.
Qed.

Theorem ed_mwf_apply q e :
  ed_mwf (p_msg q) -> ed_op_ok e -> ed_mwf (p_msg (snd (ed_apply q e))).
Proof.
  intros W He. destruct e as [n v|n v|n|t]; cbn [ed_apply ed_op_ok] in *.
  - apply ed_mwf_insert; tauto.
  - apply ed_mwf_update; tauto.
  - apply ed_mwf_remove; assumption.
  - apply ed_mwf_token; assumption.
Qed.

(* ---- what an edit changes, and only that ---- *)

(* coap_insert_option / add: all old options keep number, value and relative position; the new
   one sits after the last option whose number is <= n; token, payload, header untouched.
   The implicit Hop-Limit step is the one exception the code makes (RFC 8768): it can put
   (16, [16]) in as well - [ed_hop_step]. *)
Theorem ed_add_opt_raw_frame q n v r q' :
  ascending 0 (m_opts (p_msg q)) -> add_opt_raw q n v = (r, q') ->
  (r = false /\ q' = q) \/
  (r = true /\ exists l1 l2,
      m_opts (p_msg q) = l1 ++ l2 /\ q' = set_opts q (l1 ++ (n, v) :: l2) /\
      Forall (fun o => fst o <= n) l1 /\ Forall (fun o => n < fst o) l2).
Proof.
  intros Ha. unfold add_opt_raw. case_if; [intros H; inversion H; subst; left; tauto|].
  case_if; intros H; inversion H; subst; [|left; tauto]. right. split; [reflexivity|].
  destruct (ed_split_first (fun k => n <? k) (m_opts (p_msg q)))
    as [Hall|(l1 & k & w & l2 & Ho & Hsf & Hst)].
  - exists (m_opts (p_msg q)), []. rewrite app_nil_r. split; [reflexivity|].
    rewrite ed_insert_opt_end by assumption. split; [reflexivity|]. split; [|constructor].
    eapply Forall_impl; [|exact Hall]. cbn. intros; lia.
  - exists l1, ((k, w) :: l2). split; [assumption|]. rewrite Ho.
    rewrite ed_insert_opt_split by assumption. split; [reflexivity|]. split.
    + eapply Forall_impl; [|exact Hsf]. cbn. intros; lia.
    + rewrite Ho in Ha. apply ed_ascending_app in Ha. destruct Ha as [_ Ha].
      cbn [ascending fst] in Ha. destruct Ha as [_ Ha].
      pose proof (ed_ascending_bounds _ _ Ha) as B.
      constructor; [cbn [fst]; lia|].
      eapply Forall_impl; [|exact B]. cbn. intros o Ho'. lia.
Qed.

(* coap_update_option of a present option: exactly the first option numbered n gets the value *)
Theorem ed_update_frame q n v r q' :
  ed_update q n v = (r, q') -> ed_find n (m_opts (p_msg q)) <> None ->
  (r = false /\ q' = q) \/
  (r = true /\ exists l1 w l2,
      m_opts (p_msg q) = l1 ++ (n, w) :: l2 /\ q' = set_opts q (l1 ++ (n, v) :: l2) /\
      Forall (fun o => fst o <> n) l1).
Proof.
  unfold ed_update.
  destruct (ed_find_cases n (m_opts (p_msg q))) as [[-> _]|(l1 & w & l2 & Ho & Hf & ->)];
    [congruence|]. intros H _.
  case_if_in H; inversion H; subst; [|left; tauto]. right. split; [reflexivity|].
  exists l1, w, l2. split; [assumption|]. rewrite Ho, ed_replace_first_split by assumption.
  split; [reflexivity|]. eapply Forall_impl; [|exact Hf]. cbn. intros; lia.
Qed.

(* coap_remove_option: fails iff no option is numbered n; otherwise exactly the first such
   option disappears *)
Theorem ed_remove_frame q n r q' :
  ed_remove q n = (r, q') ->
  (r = false /\ q' = q /\ Forall (fun o => fst o <> n) (m_opts (p_msg q))) \/
  (r = true /\ exists l1 w l2,
      m_opts (p_msg q) = l1 ++ (n, w) :: l2 /\ q' = set_opts q (l1 ++ l2) /\
      Forall (fun o => fst o <> n) l1).
Proof.
  unfold ed_remove.
  destruct (ed_find_cases n (m_opts (p_msg q))) as [[-> Hn]|(l1 & w & l2 & Ho & Hf & ->)];
    intros H; inversion H; subst.
  - left. split; [reflexivity|]. split; [reflexivity|].
    eapply Forall_impl; [|exact Hn]. cbn. intros; lia.
  - right. split; [reflexivity|]. exists l1, w, l2. split; [assumption|].
    rewrite Ho, ed_remove_first_split by assumption. split; [reflexivity|].
    eapply Forall_impl; [|exact Hf]. cbn. intros; lia.
Qed.

(* coap_update_token: only the token changes *)
Theorem ed_token_frame q t r q' :
  ed_token q t = (r, q') ->
  (r = false /\ q' = q) \/ (r = true /\ q' = ed_with_token q t /\ len t <= 65804).
Proof.
  unfold ed_token. destruct (65804 <? len t) eqn:E; [intros H; inversion H; left; tauto|].
  case_if; intros H; inversion H; subst; [right|left; tauto].
  split; [reflexivity|]. split; [reflexivity|lia].
Qed.

(* no option edit touches token, payload or the header fields; the token edit touches only the
   token *)
Theorem ed_apply_keeps q e :
  let q' := snd (ed_apply q e) in
  m_type (p_msg q') = m_type (p_msg q) /\ m_code (p_msg q') = m_code (p_msg q) /\
  m_mid (p_msg q') = m_mid (p_msg q) /\ m_payload (p_msg q') = m_payload (p_msg q) /\
  p_max q' = p_max q /\
  match e with
  | EdToken _ => m_opts (p_msg q') = m_opts (p_msg q)
  | _ => m_token (p_msg q') = m_token (p_msg q)
  end.
Proof.
  assert (Hraw : forall q n v, let q' := snd (add_opt_raw q n v) in
    m_type (p_msg q') = m_type (p_msg q) /\ m_code (p_msg q') = m_code (p_msg q) /\
    m_mid (p_msg q') = m_mid (p_msg q) /\ m_payload (p_msg q') = m_payload (p_msg q) /\
    p_max q' = p_max q /\ m_token (p_msg q') = m_token (p_msg q)).
  { intros q0 n v. unfold add_opt_raw. repeat case_if; cbn; tauto. }
  assert (Hins : forall q n v, let q' := snd (ed_insert q n v) in
    m_type (p_msg q') = m_type (p_msg q) /\ m_code (p_msg q') = m_code (p_msg q) /\
    m_mid (p_msg q') = m_mid (p_msg q) /\ m_payload (p_msg q') = m_payload (p_msg q) /\
    p_max q' = p_max q /\ m_token (p_msg q') = m_token (p_msg q)).
  { intros q0 n v. unfold ed_insert, ed_add_internal. case_if; [apply Hraw|].
    case_if; [cbn; tauto|].
    pose proof (Hraw (ed_hop_step q0 n) n v) as H1. cbv zeta in H1.
    assert (H2 : let q1 := ed_hop_step q0 n in
      m_type (p_msg q1) = m_type (p_msg q0) /\ m_code (p_msg q1) = m_code (p_msg q0) /\
      m_mid (p_msg q1) = m_mid (p_msg q0) /\ m_payload (p_msg q1) = m_payload (p_msg q0) /\
      p_max q1 = p_max q0 /\ m_token (p_msg q1) = m_token (p_msg q0)).
    { unfold ed_hop_step. case_if; [apply Hraw|cbn; tauto]. }
    cbv zeta in *. destruct H1 as (a1 & a2 & a3 & a4 & a5 & a6).
    destruct H2 as (b1 & b2 & b3 & b4 & b5 & b6).
    rewrite a1, a2, a3, a4, a5, a6. tauto. }
  destruct e as [n v|n v|n|t]; cbn [ed_apply].
  - apply Hins.
  - unfold ed_update. destruct (ed_find n (m_opts (p_msg q))); [|apply Hins].
    case_if; cbn; tauto.
  - unfold ed_remove. destruct (ed_find n (m_opts (p_msg q))); cbn; tauto.
  - unfold ed_token. repeat case_if; cbn; tauto.
Qed.

(* ---- refused edits; when an edit is refused ---- *)

Lemma ed_add_opt_raw_refused q n v : fst (add_opt_raw q n v) = false -> snd (add_opt_raw q n v) = q.
Proof. unfold add_opt_raw. repeat case_if; cbn [fst snd]; congruence. Qed.

(* a refused edit leaves the message as it was - except that coap_add_option_internal may already
   have put the implicit Hop-Limit in (RFC 8768) before it refuses Proxy-Uri / Proxy-Scheme *)
Theorem ed_apply_refused q e :
  fst (ed_apply q e) = false ->
  snd (ed_apply q e) = q \/
  exists n v, (e = EdInsert n v \/ e = EdUpdate n v) /\ ed_hop_trigger (p_msg q) n = true /\
              snd (ed_apply q e) = snd (add_opt_raw q 16 [16]).
Proof.
  assert (Hins : forall n v, fst (ed_insert q n v) = false ->
    snd (ed_insert q n v) = q \/
    (ed_hop_trigger (p_msg q) n = true /\ snd (ed_insert q n v) = snd (add_opt_raw q 16 [16]))).
  { intros n v. unfold ed_insert, ed_add_internal. case_if.
    - intros H. left. apply ed_add_opt_raw_refused. assumption.
    - case_if; [left; reflexivity|]. intros H. apply ed_add_opt_raw_refused in H. rewrite H.
      unfold ed_hop_step. destruct (ed_hop_trigger (p_msg q) n); [right; tauto|left; reflexivity]. }
  destruct e as [n v|n v|n|t]; cbn [ed_apply].
  - intros H. destruct (Hins n v H) as [->|[H1 H2]]; [left; reflexivity|].
    right. exists n, v. tauto.
  - unfold ed_update. destruct (ed_find n (m_opts (p_msg q))).
    + case_if; cbn [fst snd]; [discriminate|left; reflexivity].
    + intros H. destruct (Hins n v H) as [->|[H1 H2]]; [left; reflexivity|].
      right. exists n, v. tauto.
  - unfold ed_remove. destruct (ed_find n (m_opts (p_msg q))); cbn [fst snd];
      [discriminate|left; reflexivity].
  - unfold ed_token. repeat case_if; cbn [fst snd]; try discriminate; left; reflexivity.
Qed.

(* coap_remove_option succeeds exactly when an option with that number is present *)
Theorem ed_remove_succeeds_iff q n :
  fst (ed_remove q n) = true <-> has_opt n (m_opts (p_msg q)) = true.
Proof.
  unfold ed_remove.
  destruct (ed_find_cases n (m_opts (p_msg q))) as [[-> Hn]|(l1 & w & l2 & Ho & Hf & ->)];
    cbn [fst].
  - apply ed_has_opt_false in Hn. rewrite Hn. split; discriminate.
  - split; [|reflexivity]. intros _. unfold has_opt. rewrite Ho, existsb_app.
    cbn [existsb fst]. rewrite Z.eqb_refl, orb_true_r. reflexivity.
Qed.

(* coap_update_token succeeds exactly when the token can be encoded and the message with the new
   token does not exceed max_size (shrinking or equal-size replacement always succeeds) *)
Theorem ed_token_succeeds_iff q t :
  fst (ed_token q t) = true <->
  len t <= 65804 /\
  (len (token_area t) <= len (token_area (m_token (p_msg q))) \/ p_max q = 0 \/
   used (p_msg (ed_with_token q t)) <= p_max q).
Proof.
  unfold ed_token, fits, used, ed_with_token, content_area.
  cbn [p_msg p_max m_token m_opts m_payload].
  destruct (65804 <? len t) eqn:E; cbn [fst]; [split; [discriminate|lia]|].
  case_if; cbn [fst]; split; intros H; try discriminate; try reflexivity; lia.
Qed.

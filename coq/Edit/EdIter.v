(* C04 - what the option iterator and the three search loops of coap_pdu.c compute on a buffer
   that is the canonical encoding of an option list. *)
From LibcoapV Require Import Base.Tactics Base.Bytes Base.BytesProofs Wire.OptCodec
  Wire.OptCodecProofs Wire.Pdu Wire.PduProofs Wire.Build Edit.EdSpec Edit.EdBytes Edit.EdLemmas
  Edit.EdSpecProofs.
Local Open Scope Z_scope.

Lemma ed_it_next_opt pos num d w rest :
  0 <= d <= 65535 -> len w <= 65804 -> 0 <= num -> num + d <= 65535 ->
  ed_it_next (pos, opt_enc d w ++ rest, num) =
  Some (mkHit pos (opt_enc d w ++ rest) d w (num + d)
              (pos + len (opt_enc d w), rest, num + d)).
Proof.
  intros Hd Hw Hn Hs. unfold ed_it_next.
  destruct (opt_enc_first d w rest ltac:(lia)) as (b & tl & Heq & Hb).
  rewrite Heq. replace (b =? PAYLOAD_START) with false by lia. rewrite <- Heq.
  rewrite opt_parse_enc by lia.
  replace ((num + d) mod 65536) with (num + d) by lia.
  rewrite len_app. replace (len (opt_enc d w) + len rest - len rest) with (len (opt_enc d w)) by lia.
  reflexivity.
Qed.

Lemma ed_it_next_tail pos num tail : tail_ok tail -> ed_it_next (pos, tail, num) = None.
Proof. intros [->|[p ->]]; reflexivity. Qed.

Definition ed_stopfalse (stop : Z -> bool) (l : list opt) : Prop :=
  Forall (fun o => stop (fst o) = false) l.

Lemma ed_walk_found stop l1 : forall pos prev fuel k w l2 tail,
  0 <= prev -> ascending prev (l1 ++ (k, w) :: l2) -> Forall ed_opt_ok (l1 ++ (k, w) :: l2) ->
  ed_stopfalse stop l1 -> stop k = true -> (length l1 < fuel)%nat ->
  ed_walk fuel stop (pos, opts_enc prev (l1 ++ (k, w) :: l2) ++ tail, prev) prev =
  EfAt (mkHit (pos + len (opts_enc prev l1))
              (opt_enc (k - ed_lastn prev l1) w ++ opts_enc k l2 ++ tail)
              (k - ed_lastn prev l1) w k
              (pos + len (opts_enc prev l1) + len (opt_enc (k - ed_lastn prev l1) w),
               opts_enc k l2 ++ tail, k))
       (ed_lastn prev l1).
Proof.
  induction l1 as [|[n v] tl IH]; intros pos prev fuel k w l2 tail Hp Hasc Hok Hsf Hst Hfu.
  - cbn [app] in *. cbn [ascending fst] in Hasc. inversion Hok as [|? ? Ho _]; subst.
    destruct Ho as [Hk Hw]. cbn [fst snd] in *.
    destruct fuel as [|f]; [cbn [length] in Hfu; lia|].
    cbn [opts_enc ed_walk]. rewrite <- app_assoc.
    rewrite ed_it_next_opt by lia. cbn [eh_num eh_st].
    replace (prev + (k - prev)) with k by lia. rewrite Hst.
    rewrite ed_lastn_nil. cbn [opts_enc]. rewrite len_nil.
    replace (pos + 0) with pos by lia. reflexivity.
  - cbn [app] in *. cbn [ascending fst] in Hasc. destruct Hasc as [Hpn Hasc].
    inversion Hok as [|? ? Ho Hok']; subst. destruct Ho as [Hn Hv]. cbn [fst snd] in *.
    inversion Hsf as [|? ? Hs1 Hsf']; subst. cbn [fst] in Hs1.
    destruct fuel as [|f]; [cbn [length] in Hfu; lia|].
    cbn [opts_enc ed_walk]. rewrite <- app_assoc.
    rewrite ed_it_next_opt by lia. cbn [eh_num eh_st].
    replace (prev + (n - prev)) with n by lia. rewrite Hs1.
    rewrite IH; try assumption; try lia.
    2:{ cbn [length] in Hfu. lia. }
    rewrite ed_lastn_cons. rewrite len_app.
    replace (pos + len (opt_enc (n - prev) v) + len (opts_enc n tl))
      with (pos + (len (opt_enc (n - prev) v) + len (opts_enc n tl))) by lia.
    reflexivity.
Qed.

Lemma ed_walk_end stop l : forall pos prev fuel tail,
  0 <= prev -> ascending prev l -> Forall ed_opt_ok l -> ed_stopfalse stop l -> tail_ok tail ->
  (length l < fuel)%nat ->
  ed_walk fuel stop (pos, opts_enc prev l ++ tail, prev) prev = EfEnd (ed_lastn prev l).
Proof.
  induction l as [|[n v] tl IH]; intros pos prev fuel tail Hp Hasc Hok Hsf Htl Hfu.
  - destruct fuel as [|f]; [cbn [length] in Hfu; lia|].
    cbn [opts_enc app ed_walk]. rewrite ed_it_next_tail by assumption. reflexivity.
  - cbn [ascending fst] in Hasc. destruct Hasc as [Hpn Hasc].
    inversion Hok as [|? ? Ho Hok']; subst. destruct Ho as [Hn Hv]. cbn [fst snd] in *.
    inversion Hsf as [|? ? Hs1 Hsf']; subst. cbn [fst] in Hs1.
    destruct fuel as [|f]; [cbn [length] in Hfu; lia|].
    cbn [opts_enc ed_walk]. rewrite <- app_assoc.
    rewrite ed_it_next_opt by lia. cbn [eh_num eh_st].
    replace (prev + (n - prev)) with n by lia. rewrite Hs1.
    rewrite IH; try assumption; try lia.
    2:{ cbn [length] in Hfu. lia. }
    rewrite ed_lastn_cons. reflexivity.
Qed.

Lemma ed_collect_all l : forall pos prev fuel tail,
  0 <= prev -> ascending prev l -> Forall ed_opt_ok l -> tail_ok tail -> (length l < fuel)%nat ->
  ed_collect fuel (pos, opts_enc prev l ++ tail, prev) = Some l.
Proof.
  induction l as [|[n v] tl IH]; intros pos prev fuel tail Hp Hasc Hok Htl Hfu.
  - destruct fuel as [|f]; [cbn [length] in Hfu; lia|].
    cbn [opts_enc app ed_collect]. rewrite ed_it_next_tail by assumption. reflexivity.
  - cbn [ascending fst] in Hasc. destruct Hasc as [Hpn Hasc].
    inversion Hok as [|? ? Ho Hok']; subst. destruct Ho as [Hn Hv]. cbn [fst snd] in *.
    destruct fuel as [|f]; [cbn [length] in Hfu; lia|].
    cbn [opts_enc ed_collect]. rewrite <- app_assoc.
    rewrite ed_it_next_opt by lia. cbn [eh_num eh_st eh_val].
    replace (prev + (n - prev)) with n by lia.
    rewrite IH; try assumption; try lia. reflexivity.
    cbn [length] in Hfu. lia.
Qed.

(* ---- on the buffer of a well-formed PDU ---- *)

Lemma ed_payload_tail_ok pl : tail_ok (payload_area pl).
Proof. unfold tail_ok, payload_area. destruct pl; [left|right; eexists]; reflexivity. Qed.

Lemma ed_buf_of_pdu q :
  eb_buf (ed_of_pdu q) = token_area (m_token (p_msg q)) ++ opts_enc 0 (m_opts (p_msg q)) ++
                         payload_area (m_payload (p_msg q)).
Proof. reflexivity. Qed.

Lemma ed_fuel_enough q l1 l2 :
  m_opts (p_msg q) = l1 ++ l2 -> (length l1 < ed_fuel (ed_of_pdu q))%nat.
Proof.
  intros H. unfold ed_fuel. rewrite ed_buf_of_pdu, !app_length.
  pose proof (opts_enc_length (m_opts (p_msg q)) 0) as Hl. rewrite H in Hl at 1.
  rewrite app_length in Hl. lia.
Qed.

Lemma ed_opt_enc_pos d v : 1 <= len (opt_enc d v).
Proof.
  unfold opt_enc, opt_hdr. rewrite len_app, len_cons.
  pose proof (len_nonneg (ext_bytes d ++ ext_bytes (len v))). pose proof (len_nonneg v). lia.
Qed.

Lemma ed_it_init_some q :
  m_opts (p_msg q) <> [] \/ m_payload (p_msg q) <> [] ->
  ed_it_init (ed_of_pdu q) =
  Some (len (token_area (m_token (p_msg q))),
        opts_enc 0 (m_opts (p_msg q)) ++ payload_area (m_payload (p_msg q)), 0).
Proof.
  intros H. unfold ed_it_init, ed_used. rewrite ed_buf_of_pdu.
  cbn [ed_of_pdu ed_of_msg eb_etl eb_buf]. rewrite len_app.
  set (c := opts_enc 0 (m_opts (p_msg q)) ++ payload_area (m_payload (p_msg q))).
  assert (Hc : 1 <= len c).
  { subst c. rewrite len_app. destruct H as [H|H].
    - destruct (m_opts (p_msg q)) as [|[n v] tl]; [congruence|]. cbn [opts_enc].
      rewrite len_app. pose proof (ed_opt_enc_pos (n - 0) v).
      pose proof (len_nonneg (opts_enc n tl)).
      pose proof (len_nonneg (payload_area (m_payload (p_msg q)))). lia.
    - destruct (m_payload (p_msg q)) as [|x xs]; [congruence|]. cbn [payload_area].
      rewrite len_cons. pose proof (len_nonneg (x :: xs)).
      pose proof (len_nonneg (opts_enc 0 (m_opts (p_msg q)))). lia. }
  replace (len (token_area (m_token (p_msg q))) + len c <=? len (token_area (m_token (p_msg q))))
    with false by lia.
  unfold content_area. fold c. rewrite drop_app_exact. reflexivity.
Qed.

Lemma ed_search_found q stop l1 k w l2 :
  ed_mwf (p_msg q) -> m_opts (p_msg q) = l1 ++ (k, w) :: l2 ->
  ed_stopfalse stop l1 -> stop k = true ->
  let ta := len (token_area (m_token (p_msg q))) in
  let tail := payload_area (m_payload (p_msg q)) in
  ed_search (ed_of_pdu q) stop =
  EfAt (mkHit (ta + len (opts_enc 0 l1))
              (opt_enc (k - ed_lastn 0 l1) w ++ opts_enc k l2 ++ tail)
              (k - ed_lastn 0 l1) w k
              (ta + len (opts_enc 0 l1) + len (opt_enc (k - ed_lastn 0 l1) w),
               opts_enc k l2 ++ tail, k))
       (ed_lastn 0 l1).
Proof.
  intros W Ho Hsf Hst ta tail. destruct W as [_ Hok Hasc].
  unfold ed_search. rewrite ed_it_init_some.
  2:{ left. rewrite Ho. destruct l1; discriminate. }
  rewrite Ho in *. apply ed_walk_found; try assumption; try lia.
  apply (ed_fuel_enough q l1 ((k, w) :: l2)). assumption.
Qed.

Lemma ed_search_none q stop :
  ed_mwf (p_msg q) -> ed_stopfalse stop (m_opts (p_msg q)) ->
  exists pr, ed_search (ed_of_pdu q) stop = EfEnd pr.
Proof.
  intros W Hsf. destruct W as [_ Hok Hasc]. unfold ed_search.
  destruct (m_opts (p_msg q)) as [|o tl] eqn:Eo.
  - destruct (ed_it_init (ed_of_pdu q)) as [[[pos rest] num]|] eqn:Ei; [|eexists; reflexivity].
    destruct (m_payload (p_msg q)) as [|x xs] eqn:Ep.
    + unfold ed_it_init, ed_used in Ei. rewrite ed_buf_of_pdu, Eo, Ep in Ei.
      cbn [opts_enc payload_area app ed_of_pdu ed_of_msg eb_etl] in Ei.
      rewrite app_nil_r in Ei. rewrite Z.leb_refl in Ei. discriminate.
    + rewrite ed_it_init_some in Ei by (right; rewrite Ep; discriminate).
      inversion Ei; subst. rewrite Eo. unfold ed_fuel. cbn [ed_walk opts_enc app].
      rewrite ed_it_next_tail by apply ed_payload_tail_ok. eexists; reflexivity.
  - rewrite ed_it_init_some by (left; rewrite Eo; discriminate). rewrite Eo.
    eexists. apply ed_walk_end; try assumption; try lia.
    + apply ed_payload_tail_ok.
    + apply (ed_fuel_enough q (o :: tl) []). rewrite app_nil_r. assumption.
Qed.

Lemma ed_b_opts_of_pdu q : ed_mwf (p_msg q) -> ed_b_opts (ed_of_pdu q) = Some (m_opts (p_msg q)).
Proof.
  intros W. destruct W as [_ Hok Hasc]. unfold ed_b_opts.
  destruct (m_opts (p_msg q)) as [|o tl] eqn:Eo.
  - destruct (ed_it_init (ed_of_pdu q)) as [[[pos rest] num]|] eqn:Ei; [|reflexivity].
    destruct (m_payload (p_msg q)) as [|x xs] eqn:Ep.
    + unfold ed_it_init, ed_used in Ei. rewrite ed_buf_of_pdu, Eo, Ep in Ei.
      cbn [opts_enc payload_area app ed_of_pdu ed_of_msg eb_etl] in Ei.
      rewrite app_nil_r in Ei. rewrite Z.leb_refl in Ei. discriminate.
    + rewrite ed_it_init_some in Ei by (right; rewrite Ep; discriminate).
      inversion Ei; subst. rewrite Eo. unfold ed_fuel. cbn [ed_collect opts_enc app].
      rewrite ed_it_next_tail by apply ed_payload_tail_ok. reflexivity.
  - rewrite ed_it_init_some by (left; rewrite Eo; discriminate). rewrite Eo.
    apply ed_collect_all; try assumption; try lia.
    + apply ed_payload_tail_ok.
    + apply (ed_fuel_enough q (o :: tl) []). rewrite app_nil_r. assumption.
Qed.

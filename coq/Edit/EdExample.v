(* C04 - non-vacuity: a concrete message (extended token, options whose deltas sit in all three
   classes, payload) meets every hypothesis of the theorems, and a concrete edit list makes the
   neighbour's header go large->small, small->large, changes a value across the 12/13 length
   boundary and replaces the token by one of 300 bytes. *)
From LibcoapV Require Import Base.Tactics Base.Bytes Base.BytesProofs Wire.OptCodec
  Wire.OptCodecProofs Wire.Pdu Wire.PduProofs Wire.Build Edit.EdSpec Edit.EdBytes
  Edit.EdSpecProofs Edit.EdBytesProofs Edit.EdStart.
Local Open Scope Z_scope.

Definition ed_ex_pdu : pdu :=
  mkPdu (mkMsg 0 1 7 (repeat 5 13) [(11, [97]); (300, []); (2000, [1; 2])] [1]) 0.

Definition ed_ex_edits : list ed_op :=
  [EdInsert 290 [9]; EdRemove 11; EdUpdate 2000 (repeat 0 13); EdToken (repeat 7 300);
   EdRemove 290; EdRemove 5].

Lemma ed_wfb_by_compute l : wfbb l = true -> wfb l.
Proof. apply wfbb_spec. Qed.

Example ed_ex_pwf : ed_pwf ed_ex_pdu.
Proof.
  split; [|cbn; lia]. constructor; cbn [ed_ex_pdu p_msg m_token m_opts].
  - vm_compute. discriminate.
  - repeat constructor; cbn [fst snd]; try lia; vm_compute; discriminate.
  - cbn [ascending fst]. lia.
Qed.

Example ed_ex_msg_wf : msg_wf (p_msg ed_ex_pdu).
Proof.
  constructor; cbn [ed_ex_pdu p_msg m_type m_code m_mid m_token m_opts m_payload].
  - lia.
  - lia.
  - lia.
  - split; [vm_compute; discriminate|apply ed_wfb_by_compute; reflexivity].
  - split; [|cbn [ascending fst]; lia].
    repeat constructor; cbn [fst snd]; try lia; try (vm_compute; discriminate);
      unfold is_byte; lia.
  - reflexivity.
  - repeat constructor; unfold is_byte; lia.
  - discriminate.
Qed.

Example ed_ex_fine : Forall (ed_op_fine (m_code (p_msg ed_ex_pdu))) ed_ex_edits.
Proof.
  repeat constructor; cbn [ed_op_fine]; try lia; try (vm_compute; discriminate);
    try reflexivity; try (apply ed_wfb_by_compute; reflexivity).
Qed.

(* what the edits return and leave, on the specification *)
Example ed_ex_run :
  ed_run ed_ex_pdu ed_ex_edits =
  ([true; true; true; true; true; false],
   mkPdu (mkMsg 0 1 7 (repeat 7 300) [(300, []); (2000, repeat 0 13)] [1]) 0).
Proof. vm_compute. reflexivity. Qed.

(* and on the bytes (by computation; the general statement is ed_b_run_refines) *)
Example ed_ex_b_run :
  ed_b_run (ed_of_pdu ed_ex_pdu) ed_ex_edits =
  Some (fst (ed_run ed_ex_pdu ed_ex_edits), ed_of_pdu (snd (ed_run ed_ex_pdu ed_ex_edits))).
Proof. vm_compute. reflexivity. Qed.

Theorem ed_ex_nonvacuous :
  ed_pwf ed_ex_pdu /\ msg_wf (p_msg ed_ex_pdu) /\ m_code (p_msg ed_ex_pdu) <> 0 /\
  Forall (ed_op_fine (m_code (p_msg ed_ex_pdu))) ed_ex_edits /\
  fst (ed_run ed_ex_pdu ed_ex_edits) = [true; true; true; true; true; false] /\
  m_opts (p_msg (snd (ed_run ed_ex_pdu ed_ex_edits))) = [(300, []); (2000, repeat 0 13)] /\
  len (m_token (p_msg (snd (ed_run ed_ex_pdu ed_ex_edits)))) = 300.
Proof.
  split; [exact ed_ex_pwf|]. split; [exact ed_ex_msg_wf|]. split; [discriminate|].
  split; [exact ed_ex_fine|]. rewrite ed_ex_run. repeat split.
Qed.

(* C04 - coap_update_token keeps an already encoded UDP header in step with the token: after the
   call the header in memory is the header of the new message.  (Option edits do not touch the
   header, and the UDP header does not depend on options or payload.) *)
From LibcoapV Require Import Base.Tactics Base.Bytes Base.BytesProofs Wire.OptCodec
  Wire.OptCodecProofs Wire.Pdu Wire.PduProofs Wire.Build Edit.EdSpec Edit.EdBytes Edit.EdLemmas
  Edit.EdSpecProofs Edit.EdIter Edit.EdPatch Edit.EdBytesProofs.
Local Open Scope Z_scope.

Lemma ed_header_udp_token m1 m2 :
  m_type m1 = m_type m2 -> m_code m1 = m_code m2 -> m_mid m1 = m_mid m2 ->
  len (m_token m1) = len (m_token m2) -> header UDP m1 = header UDP m2.
Proof.
  intros H1 H2 H3 H4. unfold header, tkl_nib. rewrite H1, H2, H3, H4. reflexivity.
Qed.

Lemma ed_token_area_len_inj t1 t2 :
  len (token_area t1) = len (token_area t2) -> len t1 = len t2.
Proof.
  rewrite !ed_token_area_len. unfold ed_bias.
  pose proof (len_nonneg t1). pose proof (len_nonneg t2). repeat case_if; lia.
Qed.

Theorem ed_b_token_hdr_in_step q t :
  ed_pwf q ->
  ed_b_token_hdr UDP (header UDP (p_msg q)) (ed_of_pdu q) t =
  Some (fst (ed_token q t), ed_of_pdu (snd (ed_token q t)),
        header UDP (p_msg (snd (ed_token q t)))).
Proof.
  intros [W Hm]. unfold ed_b_token_hdr, ed_b_token_hdr_gen.
  rewrite ed_b_token_refines by assumption. cbn [fst snd].
  pose proof (ed_token_frame q t (fst (ed_token q t)) (snd (ed_token q t))
                (surjective_pairing _)) as F.
  destruct F as [[Hr Hq]|(Hr & Hq & Hl)]; rewrite Hr; cbn [negb].
  - rewrite Hq. reflexivity.
  - rewrite Hq. rewrite <- Hq at 1 2 3.
    assert (W' : ed_mwf (p_msg (ed_with_token q t))).
    { rewrite <- Hq. apply ed_mwf_token. assumption. }
    assert (Hhdr : len (token_area t) = len (token_area (m_token (p_msg q))) ->
                   header UDP (p_msg q) = header UDP (p_msg (ed_with_token q t))).
    { intros E. apply ed_header_udp_token; try reflexivity.
      cbn [ed_with_token p_msg m_token]. symmetry. apply ed_token_area_len_inj. exact E. }
    rewrite Hq.
    change (eb_etl (ed_of_pdu (ed_with_token q t))) with (len (token_area t)).
    change (eb_etl (ed_of_pdu q)) with (len (token_area (m_token (p_msg q)))).
    rewrite ed_abs_of_pdu by assumption.
    rewrite ed_used_of_pdu. unfold used.
    pose proof (len_nonneg (token_area (m_token (p_msg q)))) as H0.
    pose proof (len_nonneg (content_area (p_msg q))) as H1.
    destruct (len (token_area (m_token (p_msg q))) + len (content_area (p_msg q)) =? 0) eqn:Eu.
    + cbn [andb]. destruct (len (token_area t) =? 0) eqn:E0; cbn [negb]; [|reflexivity].
      rewrite Hhdr by lia. reflexivity.
    + destruct (len (token_area (m_token (p_msg q))) =? len (token_area t)) eqn:E1; cbn [negb];
        [|reflexivity].
      rewrite Hhdr by lia. reflexivity.
Qed.

(* the code as pinned left a stale header when the PDU had nothing in it yet *)
Theorem ed_b_token_hdr_prefix_refuted :
  exists q t, ed_pwf q /\
    match ed_b_token_hdr_gen false UDP (header UDP (p_msg q)) (ed_of_pdu q) t with
    | Some (r, p', h') => r = true /\ ed_abs p' = Some (p_msg (snd (ed_token q t))) /\
                          h' <> header UDP (p_msg (snd (ed_token q t)))
    | None => False
    end.
Proof.
  exists (mkPdu (mkMsg 0 1 7 [] [] []) 0), [1; 2]. split.
  - split; [|cbn; lia]. constructor; cbn; [unfold len; cbn; lia|constructor|exact I].
  - vm_compute. split; [reflexivity|]. split; [reflexivity|]. discriminate.
Qed.

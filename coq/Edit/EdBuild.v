(* C04 - "freshly built": the builder calls (coap_pdu_init, coap_add_token, coap_add_option,
   coap_add_data), transcribed on the buffer, refine the abstract builder of Wire/Build.v; so a
   message built through the API is a well-formed PDU in the sense of the edit theorems, byte for
   byte. *)
From LibcoapV Require Import Base.Tactics Base.Bytes Base.BytesProofs Wire.OptCodec
  Wire.OptCodecProofs Wire.Pdu Wire.PduProofs Wire.Build Edit.EdSpec Edit.EdBytes Edit.EdLemmas
  Edit.EdSpecProofs Edit.EdIter Edit.EdPatch Edit.EdBytesProofs Edit.EdStart Edit.EdDup.
Local Open Scope Z_scope.

Lemma ed_b_init_of_pdu ty code mid max :
  ed_b_init ty code mid max = ed_of_pdu (pdu_init ty code mid max).
Proof. reflexivity. Qed.

Lemma ed_data_zero_iff q : (eb_data (ed_of_pdu q) =? 0) = true <-> m_payload (p_msg q) = [].
Proof.
  pose proof (ed_shift_data_of_pdu q 0) as H. unfold ed_shift_data in H.
  destruct (eb_data (ed_of_pdu q) =? 0) eqn:E.
  - split; [intros _|reflexivity]. destruct (m_payload (p_msg q)) as [|x xs] eqn:Ep; [reflexivity|].
    exfalso. rewrite ed_buf_of_pdu, Ep in H. cbn [payload_area] in H.
    rewrite !len_app, len_cons in H.
    pose proof (len_nonneg (token_area (m_token (p_msg q)))).
    pose proof (len_nonneg (opts_enc 0 (m_opts (p_msg q)))). lia.
  - split; [discriminate|]. intros Ep. exfalso.
    cbn [ed_of_pdu ed_of_msg eb_data] in E. rewrite Ep in E. discriminate.
Qed.

Lemma ed_b_build_token_refines q t :
  0 <= p_max q ->
  ed_b_add_token (ed_of_pdu q) t =
  Some (fst (apply_op q (OpToken t)), ed_of_pdu (snd (apply_op q (OpToken t)))).
Proof.
  intros Hm. cbn [apply_op]. rewrite <- ed_used_of_pdu.
  destruct (ed_used (ed_of_pdu q) =? 0) eqn:Eu; cbn [negb].
  - assert (Hadd : ed_b_add_token (ed_of_pdu q) t = ed_b_token (ed_of_pdu q) t).
    { unfold ed_b_token, ed_b_token_gen. rewrite Eu. reflexivity. }
    rewrite Hadd, ed_b_token_refines by assumption. f_equal.
    unfold ed_token. destruct (65804 <? len t) eqn:El; [reflexivity|].
    rewrite ed_used_of_pdu in Eu. unfold used in *.
    pose proof (len_nonneg (token_area (m_token (p_msg q)))).
    pose proof (len_nonneg (content_area (p_msg q))). pose proof (len_nonneg (token_area t)).
    replace (len (token_area (m_token (p_msg q))) + len (content_area (p_msg q)) +
             (len (token_area t) - len (token_area (m_token (p_msg q))))) with (len (token_area t)) by lia.
    assert (Hf : (len (token_area t) - len (token_area (m_token (p_msg q))) <=? 0) ||
                 fits q (len (token_area t)) = fits q (len (token_area t))).
    { destruct (len (token_area t) - len (token_area (m_token (p_msg q))) <=? 0) eqn:E0; [|reflexivity].
      unfold fits. lia. }
    rewrite Hf. destruct (fits q (len (token_area t))); reflexivity.
  - unfold ed_b_add_token. rewrite Eu. reflexivity.
Qed.

Lemma ed_apply_op_opt q n v :
  m_payload (p_msg q) = [] -> apply_op q (OpOpt n v) = ed_add_internal q n v.
Proof.
  intros Ep. cbn [apply_op]. rewrite Ep. unfold ed_add_internal, ed_hop_step, ed_hop_trigger.
  reflexivity.
Qed.

Lemma ed_b_build_data_refines q d :
  ed_b_add_data (ed_of_pdu q) d =
  Some (fst (apply_op q (OpData d)), ed_of_pdu (snd (apply_op q (OpData d)))).
Proof.
  unfold ed_b_add_data. cbn [apply_op]. destruct d as [|x xs]; [reflexivity|].
  destruct (eb_data (ed_of_pdu q) =? 0) eqn:E0.
  - apply ed_data_zero_iff in E0. rewrite E0. cbn [negb].
    rewrite ed_used_of_pdu, ed_fits_of_pdu.
    destruct (fits q (used (p_msg q) + len (x :: xs) + 1)) eqn:Ef; cbn [negb fst snd]; [|reflexivity].
    unfold ed_grow. rewrite <- ed_used_of_pdu. unfold ed_used.
    pose proof (len_nonneg (x :: xs)).
    rewrite ed_bwrite_end_exact by (rewrite ed_len_repeat, len_cons; lia).
    f_equal. f_equal.
    unfold ed_set_buf, ed_of_pdu, ed_of_msg. cbn [p_msg p_max m_type m_code m_mid m_token m_opts
      m_payload eb_type eb_code eb_mid eb_buf eb_etl eb_tlen eb_maxopt eb_max].
    unfold content_area. cbn [m_opts m_payload]. rewrite E0. cbn [payload_area].
    rewrite app_nil_r. f_equal.
    + rewrite <- !app_assoc. reflexivity.
    + rewrite !len_app, !len_cons. lia.
  - assert (Hp : m_payload (p_msg q) <> []).
    { intros Hc. apply ed_data_zero_iff in Hc. congruence. }
    destruct (m_payload (p_msg q)); [congruence|]. reflexivity.
Qed.

Theorem ed_b_build_op_refines q o :
  ed_pwf q -> ed_bop_ok o ->
  ed_b_build_op (ed_of_pdu q) o = Some (fst (apply_op q o), ed_of_pdu (snd (apply_op q o))).
Proof.
  intros [W Hm] Ho. destruct o as [t|n v|d]; cbn [ed_b_build_op].
  - apply ed_b_build_token_refines. assumption.
  - destruct (eb_data (ed_of_pdu q) =? 0) eqn:E0; cbn [negb].
    + apply ed_data_zero_iff in E0. rewrite ed_apply_op_opt by assumption.
      cbn [ed_bop_ok] in Ho. apply ed_b_add_internal_refines; tauto.
    + assert (Hp : m_payload (p_msg q) <> []).
      { intros Hc. apply ed_data_zero_iff in Hc. congruence. }
      cbn [apply_op]. destruct (m_payload (p_msg q)); [congruence|]. reflexivity.
  - apply ed_b_build_data_refines.
Qed.

Theorem ed_b_build_refines ops : forall q,
  ed_pwf q -> Forall ed_bop_ok ops ->
  ed_b_build (ed_of_pdu q) ops = Some (fst (run_ops q ops), ed_of_pdu (snd (run_ops q ops))).
Proof.
  induction ops as [|o tl IH]; intros q W Hops; [reflexivity|].
  inversion Hops as [|? ? Ho Htl]; subst. cbn [ed_b_build run_ops].
  rewrite (ed_b_build_op_refines q o W Ho). cbn [fst snd].
  pose proof (ed_pwf_apply_op q o W Ho) as W1.
  destruct (apply_op q o) as [r q1]. cbn [fst snd] in *.
  rewrite (IH q1 W1 Htl). destruct (run_ops q1 tl) as [rs q2]. reflexivity.
Qed.

(* built through the API from coap_pdu_init: the byte-level result is the canonical buffer of the
   abstract builder's message, which is well-formed *)
Theorem ed_built_refines ops ty code mid max :
  0 <= max -> Forall ed_bop_ok ops ->
  let q := snd (run_ops (pdu_init ty code mid max) ops) in
  ed_b_build (ed_b_init ty code mid max) ops =
    Some (fst (run_ops (pdu_init ty code mid max) ops), ed_of_pdu q) /\ ed_pwf q.
Proof.
  intros Hm Hops q. split.
  - rewrite ed_b_init_of_pdu. apply ed_b_build_refines; [apply ed_pwf_init|]; assumption.
  - apply ed_pwf_built; assumption.
Qed.

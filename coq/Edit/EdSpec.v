(* C04 - specification level of the in-place edits of src/coap_pdu.c on the abstract message of
   Wire/Pdu.v (token, ordered option list, payload):

     coap_insert_option   ed_insert     after the last option whose number is <= n
     coap_update_option   ed_update     first option numbered n gets the value, else insert
     coap_remove_option   ed_remove     first option numbered n, fails if there is none
     coap_update_token    ed_token      token replaced, nothing else
     coap_pdu_duplicate   ed_dup        token replaced, payload dropped, options kept/filtered

   Space rule (coap_pdu_check_resize / coap_pdu_resize): a step that asks for [size] bytes of
   token+option+payload area fails exactly when max_size <> 0 and size > max_size ([fits] of
   Wire/Build.v).  What each C function asks for is transcribed:
     - coap_insert_option asks for used_size + shift (its [shrink] is still 0 at that point, so
       the bytes the following option's header is about to lose are not credited);
     - coap_add_option_internal (reached when n >= max_opt) asks for used_size + optsize, after
       the repeat check and after the implicit Hop-Limit step;
     - coap_update_option asks only when the option grows, for used_size + new - old;
     - coap_update_token asks only when the token area grows, for used_size + growth
       (with used_size = 0 it hands over to coap_add_token, which asks for the same amount);
     - coap_remove_option never asks (its one coap_pdu_check_resize call sits in a branch that
       no encodable option pair can reach, see Edit/EdBytes.v).
   Allocation failure itself is C18's subject and is not modelled. *)
From Coq Require Import ZArith List Bool.
From LibcoapV Require Import Base.Bytes Wire.OptCodec Wire.Pdu Wire.Build.
Import ListNotations.
Local Open Scope Z_scope.

Inductive ed_op :=
| EdInsert (n : Z) (v : bytes)
| EdUpdate (n : Z) (v : bytes)
| EdRemove (n : Z)
| EdToken (t : bytes).

(* ---- list operations the edits stand for ---- *)

(* value of the first option numbered n (coap_check_option) *)
Fixpoint ed_find (n : Z) (l : list opt) : option bytes :=
  match l with
  | [] => None
  | (k, w) :: tl => if k =? n then Some w else ed_find n tl
  end.

Fixpoint ed_replace_first (n : Z) (v : bytes) (l : list opt) : list opt :=
  match l with
  | [] => []
  | (k, w) :: tl => if k =? n then (n, v) :: tl else (k, w) :: ed_replace_first n v tl
  end.

Fixpoint ed_remove_first (n : Z) (l : list opt) : list opt :=
  match l with
  | [] => []
  | (k, w) :: tl => if k =? n then tl else (k, w) :: ed_remove_first n tl
  end.

Definition ed_with_token (p : pdu) (t : bytes) : pdu :=
  let m := p_msg p in
  mkPdu (mkMsg (m_type m) (m_code m) (m_mid m) t (m_opts m) (m_payload m)) (p_max p).

(* ---- coap_insert_option ---- *)

(* RFC 8768 step of coap_add_option_internal: a request that gets Proxy-Uri / Proxy-Scheme and
   has no Hop-Limit gets Hop-Limit 16 first *)
Definition ed_hop_trigger (m : msg) (n : Z) : bool :=
  is_request (m_code m) && ((n =? 35) || (n =? 39)) && negb (has_opt 16 (m_opts m)).

Definition ed_hop_step (p : pdu) (n : Z) : pdu :=
  if ed_hop_trigger (p_msg p) n then snd (add_opt_raw p 16 [16]) else p.

(* coap_add_option_internal *)
Definition ed_add_internal (p : pdu) (n : Z) (v : bytes) : bool * pdu :=
  let mx := last_num (m_opts (p_msg p)) in
  if (n =? mx) && negb (repeatable n) then (false, p)
  else add_opt_raw (ed_hop_step p n) n v.

Definition ed_insert (p : pdu) (n : Z) (v : bytes) : bool * pdu :=
  let mx := last_num (m_opts (p_msg p)) in
  if n <? mx then add_opt_raw p n v                (* in-place path: no repeat check *)
  else ed_add_internal p n v.

(* ---- coap_update_option ---- *)

(* size of an encoded option apart from its delta extension, which an update does not change:
   coap_opt_encode_size(delta, new) - coap_opt_encode_size(delta, old) does not depend on delta *)
Definition ed_vsize (v : bytes) : Z := opt_encode_size 0 (len v).

Definition ed_update (p : pdu) (n : Z) (v : bytes) : bool * pdu :=
  let m := p_msg p in
  match ed_find n (m_opts m) with
  | None => ed_insert p n v
  | Some w =>
      let grow := ed_vsize v - ed_vsize w in
      if (grow <=? 0) || fits p (used m + grow)
      then (true, set_opts p (ed_replace_first n v (m_opts m)))
      else (false, p)
  end.

(* ---- coap_remove_option ---- *)

Definition ed_remove (p : pdu) (n : Z) : bool * pdu :=
  let m := p_msg p in
  match ed_find n (m_opts m) with
  | None => (false, p)
  | Some _ => (true, set_opts p (ed_remove_first n (m_opts m)))
  end.

(* ---- coap_update_token ---- *)

Definition ed_token (p : pdu) (t : bytes) : bool * pdu :=
  let m := p_msg p in
  if 65804 <? len t then (false, p) else
  let grow := len (token_area t) - len (token_area (m_token m)) in
  if (grow <=? 0) || fits p (used m + grow) then (true, ed_with_token p t) else (false, p).

(* ---- edit lists ---- *)

Definition ed_apply (p : pdu) (e : ed_op) : bool * pdu :=
  match e with
  | EdInsert n v => ed_insert p n v
  | EdUpdate n v => ed_update p n v
  | EdRemove n => ed_remove p n
  | EdToken t => ed_token p t
  end.

Fixpoint ed_run (p : pdu) (es : list ed_op) : list bool * pdu :=
  match es with
  | [] => ([], p)
  | e :: tl => let (r, p1) := ed_apply p e in
               let (rs, p2) := ed_run p1 tl in (r :: rs, p2)
  end.

(* ---- coap_pdu_duplicate_lkd ----
   A fresh PDU (same type and code, message id [mid'], max_size = max(old max_size, what the
   session allows)) gets the token [t] (silently no token if that is refused), no payload, and
   the options of the old PDU: all of them, copied as a block, when there is no filter; otherwise
   those whose number is not in the filter, re-added one by one with coap_add_option_internal
   (so the repeat check and the implicit Hop-Limit step apply again).  [None] = NULL. *)
Fixpoint ed_readd (p : pdu) (l : list opt) : option pdu :=
  match l with
  | [] => Some p
  | (n, v) :: tl =>
      let (r, p1) := ed_add_internal p n v in
      if r then ed_readd p1 tl else None
  end.

Definition ed_dup (q : pdu) (mid' smax : Z) (t : bytes) (drop_ : option (list Z)) : option pdu :=
  let m := p_msg q in
  let mx := Z.max (p_max q) smax in
  let p0 := mkPdu (mkMsg (m_type m) (m_code m) mid' [] [] []) mx in
  let p1 := snd (ed_token p0 t) in
  match drop_ with
  | None =>
      if fits p1 (len (token_area (m_token (p_msg p1))) + len (opts_enc 0 (m_opts m)))
      then Some (set_opts p1 (m_opts m)) else None
  | Some dl =>
      ed_readd p1 (filter (fun o => negb (existsb (Z.eqb (fst o)) dl)) (m_opts m))
  end.

(* the starting message of a case that is given as wire bytes: coap_pdu_parse, then max_size *)
Definition ed_start_wire (pr : proto) (bs : bytes) (max : Z) : option pdu :=
  match parse pr bs with
  | None => None
  | Some m => Some (mkPdu m max)
  end.

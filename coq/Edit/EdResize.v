(* C04 - coap_pdu_check_resize / coap_pdu_resize (src/coap_pdu.c:282-339) on the numbers
   alloc_size, max_size, requested size.  The byte-level model of the edits (Edit/EdBytes.v) uses
   only the verdict [ed_fits max size]; this file transcribes the doubling loop and shows that,
   as long as alloc_size <= max_size (or max_size = 0 = unlimited) - which coap_pdu_init
   establishes and both functions keep -, coap_pdu_check_resize(size) succeeds exactly when
   [ed_fits max size], makes at least [size] bytes available and keeps the invariant. *)
From LibcoapV Require Import Base.Tactics Base.Bytes Edit.EdBytes.
Local Open Scope Z_scope.

(* while (size > new_size) new_size *= 2; *)
Fixpoint ed_double (fuel : nat) (size ns : Z) : option Z :=
  match fuel with
  | O => None
  | S f => if ns <? size then ed_double f size (ns * 2) else Some ns
  end.

(* coap_pdu_resize(pdu, new_size): result and the new alloc_size *)
Definition ed_pdu_resize (alloc max new_size : Z) : bool * Z :=
  if alloc <? new_size then
    if negb (max =? 0) && (max <? new_size) then (false, alloc) else (true, new_size)
  else (true, new_size).

(* coap_pdu_check_resize(pdu, size) *)
Definition ed_check_resize (alloc max size : Z) : option (bool * Z) :=
  if alloc <? size then
    match ed_double 64 size (Z.max 256 (alloc * 2)) with
    | None => None
    | Some ns =>
        if negb (max =? 0) && (max <? ns) then
          if max <? size then Some (false, alloc) else Some (ed_pdu_resize alloc max max)
        else Some (ed_pdu_resize alloc max ns)
    end
  else Some (true, alloc).

Lemma ed_double_ok f : forall size ns,
  0 < ns -> size <= ns * 2 ^ Z.of_nat f ->
  exists r, ed_double (S f) size ns = Some r /\ size <= r /\ ns <= r.
Proof.
  induction f as [|f IH]; intros size ns Hns Hs.
  - cbn [ed_double]. change (2 ^ Z.of_nat 0) with 1 in Hs.
    replace (ns <? size) with false by lia. exists ns. split; [reflexivity|lia].
  - cbn [ed_double]. destruct (ns <? size) eqn:E.
    + destruct (IH size (ns * 2) ltac:(lia)) as (r & Hr & H1 & H2).
      { rewrite Nat2Z.inj_succ, Z.pow_succ_r in Hs by lia.
        replace (ns * 2 * 2 ^ Z.of_nat f) with (ns * (2 * 2 ^ Z.of_nat f)) by ring. exact Hs. }
      exists r. cbn [ed_double] in Hr. split; [exact Hr|lia].
    + exists ns. split; [reflexivity|lia].
Qed.

Theorem ed_check_resize_spec alloc max size :
  0 <= alloc -> 0 <= max -> (max = 0 \/ alloc <= max) -> 0 <= size < 2 ^ 64 ->
  exists a',
    ed_check_resize alloc max size = Some (ed_fits max size, a') /\
    (ed_fits max size = true -> size <= a' /\ alloc <= a' /\ (max = 0 \/ a' <= max)) /\
    (ed_fits max size = false -> a' = alloc).
Proof.
  intros Ha Hm Hinv Hs. unfold ed_check_resize, ed_fits.
  destruct (alloc <? size) eqn:E1.
  2:{ exists alloc. replace ((max =? 0) || (size <=? max)) with true by lia.
      split; [reflexivity|]. split; [lia|discriminate]. }
  destruct (ed_double_ok 63 size (Z.max 256 (alloc * 2)) ltac:(lia)) as (ns & Hd & H1 & H2).
  { change (2 ^ Z.of_nat 63) with 9223372036854775808.
    change (2 ^ 64) with 18446744073709551616 in Hs. lia. }
  change (S 63) with 64%nat in Hd. rewrite Hd. unfold ed_pdu_resize.
  destruct (max =? 0) eqn:E2; cbn [negb andb orb].
  - replace (alloc <? ns) with true by lia. exists ns. split; [reflexivity|].
    split; [lia|discriminate].
  - destruct (max <? ns) eqn:E3.
    + destruct (max <? size) eqn:E4.
      * exists alloc. replace (size <=? max) with false by lia. split; [reflexivity|].
        split; [discriminate|reflexivity].
      * replace (alloc <? max) with true by lia. rewrite Z.ltb_irrefl. exists max. replace (size <=? max) with true by lia.
        split; [reflexivity|]. split; [lia|discriminate].
    + replace (alloc <? ns) with true by lia.
      exists ns. replace (size <=? max) with true by lia. split; [reflexivity|].
      split; [lia|discriminate].
Qed.

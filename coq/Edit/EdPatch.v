(* C04 - the header patches of coap_insert_option and coap_remove_option: in each of the
   delta-class cases the bytes of the neighbouring option's header become the header for the
   new delta (possibly one or two bytes shorter / longer). *)
From LibcoapV Require Import Base.Tactics Base.Bytes Base.BytesProofs Wire.OptCodec
  Wire.OptCodecProofs Wire.Pdu Wire.PduProofs Wire.Build Edit.EdSpec Edit.EdBytes Edit.EdLemmas.
Local Open Scope Z_scope.

Ltac ed_decide :=
  repeat match goal with
  | |- context [?a <? ?b] =>
      first [replace (a <? b) with true by lia | replace (a <? b) with false by lia]
  end.

(* ---- coap_insert_option: the following option's delta drops from dold to dnew ---- *)

Lemma ed_patch_insert_ok dold dnew l R :
  0 < dnew <= dold -> dold <= 65535 -> 0 <= l <= 65804 ->
  exists X,
    ed_patch_insert dold dnew (opt_hdr dold l ++ R) =
      Some (X ++ opt_hdr dnew l ++ R, ext_size dold - ext_size dnew) /\
    len X = ext_size dold - ext_size dnew.
Proof.
  intros Hd Hdo Hl. pose proof (ext_nib_range l ltac:(lia)) as Hn.
  unfold ed_patch_insert, opt_hdr. remember (ext_nib l) as nl. remember (ext_bytes l) as el.
  unfold ext_nib, ext_bytes, ext_size, ed_u8, ed_lo.
  cbn [app ed_peek nth_error].
  destruct (dold <? 13) eqn:E1.
  - ed_decide. cbn [app ed_poke]. exists []. split; [|reflexivity]. cbn [app].
    replace (((16 * dold + nl) mod 16 + (dnew * 16) mod 256) mod 256) with (16 * dnew + nl) by lia.
    reflexivity.
  - destruct (dold <? 269) eqn:E2.
    + destruct (dnew <? 13) eqn:E3; cbn [andb].
      * ed_decide. cbn [app ed_poke]. exists [16 * 13 + nl]. split; [|reflexivity]. cbn [app].
        replace (((16 * 13 + nl) mod 16 + (dnew * 16) mod 256) mod 256) with (16 * dnew + nl) by lia.
        reflexivity.
      * ed_decide. cbn [andb app ed_poke]. exists []. split; [|reflexivity]. cbn [app].
        replace ((dnew - 13) mod 256) with (dnew - 13) by lia. reflexivity.
    + cbn [andb]. destruct (dnew <? 13) eqn:E3.
      * cbn [app ed_poke]. exists [16 * 14 + nl; (dold - 269) / 256 mod 256].
        split; [|reflexivity]. cbn [app].
        replace (((16 * 14 + nl) mod 16 + (dnew * 16) mod 256) mod 256) with (16 * dnew + nl) by lia.
        reflexivity.
      * destruct (dnew <? 269) eqn:E4.
        -- cbn [app ed_poke]. exists [16 * 14 + nl]. split; [|reflexivity]. cbn [app].
           replace (((16 * 14 + nl) mod 16 + 208) mod 256) with (16 * 13 + nl) by lia.
           replace ((dnew - 13) mod 256) with (dnew - 13) by lia. reflexivity.
        -- cbn [app ed_poke]. exists []. split; [|reflexivity]. cbn [app].
           replace (((dnew - 269) / 256) mod 256) with ((dnew - 269) / 256 mod 256) by reflexivity.
           reflexivity.
Qed.

(* ---- coap_remove_option: the following option's delta grows from dnext to dthis + dnext ---- *)

Lemma ed_poke_app (A : bytes) : forall j b B,
  ed_poke (length A + j) b (A ++ B) =
  match ed_poke j b B with Some r => Some (A ++ r) | None => None end.
Proof.
  induction A as [|a tl IH]; intros j b B.
  - cbn [length app Nat.add]. destruct (ed_poke j b B); reflexivity.
  - cbn [length app Nat.add ed_poke]. rewrite IH. destruct (ed_poke j b B); reflexivity.
Qed.

Lemma ed_poke_app0 (A : bytes) b B :
  ed_poke (length A) b (A ++ B) =
  match ed_poke 0 b B with Some r => Some (A ++ r) | None => None end.
Proof. rewrite <- ed_poke_app. f_equal. lia. Qed.

Lemma ed_poke_app1 (A : bytes) b B :
  ed_poke (S (length A)) b (A ++ B) =
  match ed_poke 1 b B with Some r => Some (A ++ r) | None => None end.
Proof. rewrite <- ed_poke_app. f_equal. lia. Qed.

Lemma ed_poke_app2 (A : bytes) b B :
  ed_poke (S (S (length A))) b (A ++ B) =
  match ed_poke 2 b B with Some r => Some (A ++ r) | None => None end.
Proof. rewrite <- ed_poke_app. f_equal. lia. Qed.

Lemma ed_poke_0 b x t : ed_poke 0 b (x :: t) = Some (b :: t).
Proof. reflexivity. Qed.
Lemma ed_poke_1 b x y t : ed_poke 1 b (x :: y :: t) = Some (x :: b :: t).
Proof. reflexivity. Qed.
Lemma ed_poke_2 b x y z t : ed_poke 2 b (x :: y :: z :: t) = Some (x :: y :: b :: t).
Proof. reflexivity. Qed.

Lemma ed_peek_app (A : bytes) j B : ed_peek (length A + j) (A ++ B) = ed_peek j B.
Proof.
  unfold ed_peek. rewrite nth_error_app2 by lia. f_equal. lia.
Qed.

Lemma ed_split_last1 (E : bytes) : 1 <= len E -> exists E1 x, E = E1 ++ [x].
Proof.
  intros H. destruct (exists_last (l := E)) as (E1 & x & ->).
  - intros ->. unfold len in H. cbn in H. lia.
  - exists E1, x. reflexivity.
Qed.

Lemma ed_split_last2 (E : bytes) : 2 <= len E -> exists E1 x y, E = E1 ++ [x; y].
Proof.
  intros H. destruct (ed_split_last1 E ltac:(lia)) as (E0 & y & ->).
  rewrite len_app in H. change (len [y]) with 1 in H.
  destruct (ed_split_last1 E0 ltac:(lia)) as (E1 & x & ->).
  exists E1, x, y. rewrite <- app_assoc. reflexivity.
Qed.

Lemma ed_patch_remove_ok dthis dnext l (E R : bytes) :
  0 <= dthis -> 0 <= dnext -> dthis + dnext <= 65535 -> 0 <= l <= 65804 ->
  1 <= len E -> (13 <= dthis -> 2 <= len E) ->
  exists X,
    ed_patch_remove dthis dnext (length E) (E ++ opt_hdr dnext l ++ R) =
      Some (X ++ opt_hdr (dthis + dnext) l ++ R, len X) /\
    len X = len E - (ext_size (dthis + dnext) - ext_size dnext).
Proof.
  intros Ht Hx Hs Hl HE1 HE2. pose proof (ext_nib_range l ltac:(lia)) as Hn.
  unfold ed_patch_remove. set (od := dthis + dnext).
  assert (Hpk : ed_peek (length E) (E ++ opt_hdr dnext l ++ R) = Some (16 * ext_nib dnext + ext_nib l)).
  { replace (length E) with (length E + 0)%nat by lia. rewrite ed_peek_app. reflexivity. }
  rewrite Hpk. clear Hpk.
  unfold opt_hdr. remember (ext_nib l) as nl. remember (ext_bytes l) as el.
  unfold ext_nib, ext_bytes, ext_size, ed_u8, ed_lo.
  destruct (od <? 13) eqn:E1.
  - (* both small *)
    assert (dnext < 13) by lia. ed_decide. cbn [app].
    rewrite ed_poke_app0, ed_poke_0. cbv beta iota.
    exists E. split; [|lia]. unfold len.
    replace (((16 * dnext + nl) mod 16 + (od * 16) mod 256) mod 256) with (16 * od + nl) by lia.
    reflexivity.
  - destruct (od <? 269) eqn:E2; cbn [andb].
    + destruct (dnext <? 13) eqn:E3.
      * (* small -> medium: one byte of the removed option is reused *)
        destruct (ed_split_last1 E HE1) as (E1' & x & ->).
        replace (length (E1' ++ [x])) with (S (length E1')) by (rewrite app_length; cbn [length]; lia).
        cbn [app]. rewrite <- app_assoc. cbn [app].
        rewrite ed_poke_app0, ed_poke_0. cbv beta iota.
        rewrite ed_poke_app1, ed_poke_1. cbv beta iota.
        exists E1'. split.
        -- replace (Z.of_nat (S (length E1')) - 1) with (len E1') by (unfold len; lia).
           replace (((16 * dnext + nl) mod 16 + 208) mod 256) with (16 * 13 + nl) by lia.
           replace ((od - 13) mod 256) with (od - 13) by lia. reflexivity.
        -- rewrite len_app. change (len [x]) with 1. lia.
      * (* medium -> medium *)
        assert (dnext < 269) by lia. ed_decide. cbn [app].
        rewrite ed_poke_app1, ed_poke_1. cbv beta iota.
        exists E. split; [|lia]. unfold len.
        replace ((od - 13) mod 256) with (od - 13) by lia. reflexivity.
    + destruct (dnext <? 13) eqn:E3.
      * (* small -> large: two bytes of the removed option are reused *)
        destruct (ed_split_last2 E (HE2 ltac:(lia))) as (E1' & x & y & ->).
        replace (length (E1' ++ [x; y])) with (S (S (length E1')))
          by (rewrite app_length; cbn [length]; lia).
        cbn [app]. rewrite <- app_assoc. cbn [app].
        rewrite ed_poke_app0, ed_poke_0. cbv beta iota.
        rewrite ed_poke_app1, ed_poke_1. cbv beta iota.
        rewrite ed_poke_app2, ed_poke_2. cbv beta iota.
        exists E1'. split.
        -- replace (Z.of_nat (S (S (length E1'))) - 2) with (len E1') by (unfold len; lia).
           replace (((16 * dnext + nl) mod 16 + 224) mod 256) with (16 * 14 + nl) by lia.
           reflexivity.
        -- rewrite len_app. change (len [x; y]) with 2. lia.
      * destruct (dnext <? 269) eqn:E4.
        -- (* medium -> large *)
           destruct (ed_split_last1 E HE1) as (E1' & x & ->).
           replace (length (E1' ++ [x])) with (S (length E1')) by (rewrite app_length; cbn [length]; lia).
           cbn [app]. rewrite <- app_assoc. cbn [app].
           rewrite ed_poke_app0, ed_poke_0. cbv beta iota.
           rewrite ed_poke_app1, ed_poke_1. cbv beta iota.
           rewrite ed_poke_app2, ed_poke_2. cbv beta iota.
           exists E1'. split.
           ++ replace (Z.of_nat (S (length E1')) - 1) with (len E1') by (unfold len; lia).
              replace (((16 * 13 + nl) mod 16 + 224) mod 256) with (16 * 14 + nl) by lia.
              reflexivity.
           ++ rewrite len_app. change (len [x]) with 1. lia.
        -- (* large -> large *)
           cbn [app].
           rewrite ed_poke_app1, ed_poke_1. cbv beta iota.
           rewrite ed_poke_app2, ed_poke_2. cbv beta iota.
           exists E. split; [|lia]. unfold len. reflexivity.
Qed.

(* C04 - size accounting of the edits: max_size is respected (a message that fits still fits after
   any edit), removal never grows the message, and a refusal for lack of space is conservative by
   at most the two bytes the neighbour's header may shrink by. *)
From LibcoapV Require Import Base.Tactics Base.Bytes Base.BytesProofs Wire.OptCodec
  Wire.OptCodecProofs Wire.Pdu Wire.PduProofs Wire.Build Edit.EdSpec Edit.EdBytes Edit.EdLemmas
  Edit.EdSpecProofs Edit.EdIter Edit.EdPatch Edit.EdBytesProofs.
Local Open Scope Z_scope.

Definition ed_size_inv (q : pdu) : Prop := p_max q = 0 \/ used (p_msg q) <= p_max q.

Lemma ed_used_set_opts q os :
  used (p_msg (set_opts q os)) =
  used (p_msg q) - len (opts_enc 0 (m_opts (p_msg q))) + len (opts_enc 0 os).
Proof.
  unfold used, set_opts, content_area. cbn [p_msg m_token m_opts m_payload]. rewrite !len_app. lia.
Qed.

Lemma ed_len_insert_mid l1 p n v k w l2 :
  len (opts_enc p (l1 ++ (n, v) :: (k, w) :: l2)) =
  len (opts_enc p (l1 ++ (k, w) :: l2)) + opt_encode_size (n - ed_lastn p l1) (len v) +
  opt_encode_size (k - n) (len w) - opt_encode_size (k - ed_lastn p l1) (len w).
Proof.
  rewrite !ed_opts_enc_app. cbn [opts_enc]. rewrite !len_app, !opt_enc_len. lia.
Qed.

Lemma ed_len_insert_end l p n v :
  len (opts_enc p (l ++ [(n, v)])) =
  len (opts_enc p l) + opt_encode_size (n - ed_lastn p l) (len v).
Proof.
  rewrite ed_opts_enc_app. cbn [opts_enc]. rewrite !len_app, opt_enc_len. rewrite len_nil. lia.
Qed.

Lemma ed_len_replace l1 p n (v w : bytes) l2 :
  len (opts_enc p (l1 ++ (n, v) :: l2)) =
  len (opts_enc p (l1 ++ (n, w) :: l2)) +
  opt_encode_size (n - ed_lastn p l1) (len v) - opt_encode_size (n - ed_lastn p l1) (len w).
Proof.
  rewrite !ed_opts_enc_app. cbn [opts_enc]. rewrite !len_app, !opt_enc_len. lia.
Qed.

Lemma ed_ext_size_add a b : 0 <= a -> 0 <= b -> ext_size (a + b) <= ext_size a + ext_size b + 1.
Proof. intros Ha Hb. unfold ext_size. repeat case_if; lia. Qed.

Lemma ed_len_remove l1 p n (w : bytes) l2 :
  ascending p (l1 ++ (n, w) :: l2) ->
  len (opts_enc p (l1 ++ l2)) <= len (opts_enc p (l1 ++ (n, w) :: l2)).
Proof.
  intros Ha. apply ed_ascending_app in Ha. destruct Ha as [_ Ha]. cbn [ascending fst] in Ha.
  destruct Ha as [Hpn Ha].
  rewrite !ed_opts_enc_app. cbn [opts_enc]. rewrite !len_app, opt_enc_len.
  pose proof (len_nonneg w) as Hw. pose proof (ed_ext_size_range (len w)) as He.
  pose proof (ed_ext_size_range (n - ed_lastn p l1)) as Hd.
  destruct l2 as [|[k2 w2] l3].
  - cbn [opts_enc]. rewrite len_nil. unfold opt_encode_size. lia.
  - cbn [ascending fst] in Ha. destruct Ha as [Hnk _]. cbn [opts_enc]. rewrite !len_app, !opt_enc_len.
    unfold opt_encode_size.
    pose proof (ed_ext_size_add (n - ed_lastn p l1) (k2 - n) ltac:(lia) ltac:(lia)) as Hx.
    replace (n - ed_lastn p l1 + (k2 - n)) with (k2 - ed_lastn p l1) in Hx by lia. lia.
Qed.

(* the size of the message with the option inserted: the size coap_insert_option asks for, minus
   what the neighbour's header shrinks by *)
Definition ed_ins_prev (q : pdu) (n : Z) : Z :=
  if n <? last_num (m_opts (p_msg q)) then prev_num n 0 (m_opts (p_msg q))
  else last_num (m_opts (p_msg q)).

Lemma ed_insert_result_size q n v :
  ed_mwf (p_msg q) -> 0 <= n ->
  exists shrink,
    0 <= shrink <= 2 /\
    used (p_msg (set_opts q (insert_opt n v (m_opts (p_msg q))))) + shrink =
      used (p_msg q) + opt_encode_size (n - ed_ins_prev q n) (len v).
Proof.
  intros [_ Hok Hasc] Hn. rewrite ed_used_set_opts. unfold ed_ins_prev.
  destruct (ed_split_first (fun k => n <? k) (m_opts (p_msg q)))
    as [Hall|(l1 & k & w & l2 & Ho & Hsf & Hst)].
  - exists 0. split; [lia|].
    rewrite ed_insert_opt_end by assumption. rewrite ed_len_insert_end.
    pose proof (ed_lastn_le_all _ 0 n Hn Hall) as Hle.
    change (ed_lastn 0 (m_opts (p_msg q))) with (last_num (m_opts (p_msg q))) in *.
    replace (n <? last_num (m_opts (p_msg q))) with false by lia. lia.
  - rewrite Ho in Hasc. pose proof Hasc as Hasc'. apply ed_ascending_app in Hasc'.
    destruct Hasc' as [Ha1 Ha2]. cbn [ascending fst] in Ha2. destruct Ha2 as [Hpk Ha3].
    pose proof (ed_ascending_lastn l1 0 Ha1) as Hp0.
    pose proof (ed_lastn_le_all l1 0 n Hn Hsf) as Hpn.
    assert (Hprev : (if n <? last_num (m_opts (p_msg q)) then prev_num n 0 (m_opts (p_msg q))
                     else last_num (m_opts (p_msg q))) = ed_lastn 0 l1).
    { rewrite Ho.
      assert (Hkl : k <= last_num (l1 ++ (k, w) :: l2)).
      { change (k <= ed_lastn 0 (l1 ++ (k, w) :: l2)). rewrite ed_lastn_app, ed_lastn_cons.
        apply ed_ascending_lastn. assumption. }
      replace (n <? last_num (l1 ++ (k, w) :: l2)) with true by lia.
      apply ed_prev_num_split; assumption. }
    rewrite Hprev.
    exists (ext_size (k - ed_lastn 0 l1) - ext_size (k - n)).
    pose proof (ed_ext_size_mono (k - n) (k - ed_lastn 0 l1) ltac:(lia)).
    pose proof (ed_ext_size_range (k - ed_lastn 0 l1)). pose proof (ed_ext_size_range (k - n)).
    split; [lia|].
    rewrite Ho, ed_insert_opt_split by assumption. rewrite ed_len_insert_mid.
    unfold opt_encode_size. lia.
Qed.

Lemma ed_add_opt_raw_size q n v :
  ed_mwf (p_msg q) -> 0 <= n ->
  fst (add_opt_raw q n v) = true ->
  exists shrink,
    0 <= shrink <= 2 /\
    used (p_msg (snd (add_opt_raw q n v))) + shrink =
      used (p_msg q) + opt_encode_size (n - ed_ins_prev q n) (len v) /\
    fits q (used (p_msg q) + opt_encode_size (n - ed_ins_prev q n) (len v)) = true.
Proof.
  intros W Hn. destruct (ed_insert_result_size q n v W Hn) as (shrink & Hs & Hu).
  unfold add_opt_raw. fold (ed_ins_prev q n).
  destruct ((n =? last_num (m_opts (p_msg q))) && negb (repeatable n)); [discriminate|].
  destruct (fits q (used (p_msg q) + opt_encode_size (n - ed_ins_prev q n) (len v))) eqn:Ef;
    [|discriminate].
  intros _. cbn [snd]. exists shrink. tauto.
Qed.

Lemma ed_size_inv_add_opt_raw q n v :
  ed_mwf (p_msg q) -> 0 <= n -> ed_size_inv q -> ed_size_inv (snd (add_opt_raw q n v)).
Proof.
  intros W Hn Hi. destruct (fst (add_opt_raw q n v)) eqn:Er.
  - destruct (ed_add_opt_raw_size q n v W Hn Er) as (shrink & Hs & Hu & Hf).
    unfold ed_size_inv. assert (Hmx : p_max (snd (add_opt_raw q n v)) = p_max q) by (unfold add_opt_raw; repeat case_if; reflexivity). rewrite Hmx. unfold fits in Hf. lia.
  - rewrite ed_add_opt_raw_refused by assumption. assumption.
Qed.

Lemma ed_size_inv_insert q n v :
  ed_mwf (p_msg q) -> 0 <= n <= 65535 -> len v <= 65804 -> ed_size_inv q ->
  ed_size_inv (snd (ed_insert q n v)).
Proof.
  intros W Hn Hv Hi. unfold ed_insert, ed_add_internal.
  case_if; [apply ed_size_inv_add_opt_raw; try assumption; lia|].
  case_if; cbn [snd]; [assumption|].
  apply ed_size_inv_add_opt_raw; [apply ed_mwf_hop_step; assumption|lia|].
  unfold ed_hop_step. case_if; [|assumption].
  apply ed_size_inv_add_opt_raw; try assumption; lia.
Qed.

Theorem ed_size_inv_apply q e :
  ed_pwf q -> ed_op_ok e -> ed_size_inv q -> ed_size_inv (snd (ed_apply q e)).
Proof.
  intros [W Hm] He Hi. pose proof W as [_ Hok Hasc].
  destruct e as [n v|n v|n|t]; cbn [ed_apply ed_op_ok] in *.
  - apply ed_size_inv_insert; tauto.
  - unfold ed_update.
    destruct (ed_find_cases n (m_opts (p_msg q))) as [[-> _]|(l1 & w & l2 & Ho & Hf & ->)].
    + apply ed_size_inv_insert; tauto.
    + destruct ((ed_vsize v - ed_vsize w <=? 0) ||
                fits q (used (p_msg q) + (ed_vsize v - ed_vsize w))) eqn:Ec; cbn [snd]; [|assumption].
      unfold ed_size_inv. cbn [set_opts p_max]. rewrite ed_used_set_opts.
      rewrite Ho at 2. rewrite ed_replace_first_split by assumption.
      rewrite Ho at 1. rewrite (ed_len_replace l1 0 n v w l2).
      unfold ed_size_inv in Hi. unfold fits in Ec. unfold ed_vsize, opt_encode_size in *. lia.
  - unfold ed_remove.
    destruct (ed_find_cases n (m_opts (p_msg q))) as [[-> _]|(l1 & w & l2 & Ho & Hf & ->)];
      cbn [snd]; [assumption|].
    unfold ed_size_inv. cbn [set_opts p_max]. rewrite ed_used_set_opts.
    rewrite Ho at 2. rewrite ed_remove_first_split by assumption.
    rewrite Ho in Hasc. pose proof (ed_len_remove l1 0 n w l2 Hasc) as Hr.
    rewrite Ho at 1. unfold ed_size_inv in Hi. lia.
  - unfold ed_token. destruct (65804 <? len t) eqn:El; cbn [snd]; [assumption|].
    destruct ((len (token_area t) - len (token_area (m_token (p_msg q))) <=? 0) ||
              fits q (used (p_msg q) + (len (token_area t) - len (token_area (m_token (p_msg q))))))
      eqn:Ec; cbn [snd]; [|assumption].
    unfold ed_size_inv, used, ed_with_token, content_area in *.
    cbn [p_msg p_max m_token m_opts m_payload]. unfold fits in Ec. lia.
Qed.

Theorem ed_size_inv_run es : forall q,
  ed_pwf q -> Forall ed_op_ok es -> ed_size_inv q -> ed_size_inv (snd (ed_run q es)).
Proof.
  induction es as [|e tl IH]; intros q W Hes Hi; [assumption|].
  inversion Hes as [|? ? He Htl]; subst. cbn [ed_run].
  pose proof (ed_pwf_apply q e W He) as W1. pose proof (ed_size_inv_apply q e W He Hi) as I1.
  destruct (ed_apply q e) as [r q1]. cbn [snd] in W1, I1.
  specialize (IH q1 W1 Htl I1). destruct (ed_run q1 tl) as [rs q2]. exact IH.
Qed.

(* removal never makes the message longer (the bytes the neighbour's header grows by are taken
   from the removed option) *)
Theorem ed_remove_not_longer q n :
  ed_mwf (p_msg q) -> used (p_msg (snd (ed_remove q n))) <= used (p_msg q).
Proof.
  intros [_ _ Hasc]. unfold ed_remove.
  destruct (ed_find_cases n (m_opts (p_msg q))) as [[-> _]|(l1 & w & l2 & Ho & Hf & ->)];
    cbn [snd]; [lia|].
  rewrite ed_used_set_opts. rewrite Ho at 2. rewrite ed_remove_first_split by assumption.
  rewrite Ho in Hasc. pose proof (ed_len_remove l1 0 n w l2 Hasc) as Hr. rewrite Ho at 1. lia.
Qed.

(* an insertion refused for lack of space: the message with the option would have exceeded
   max_size - 2 (the request does not credit the 0..2 bytes the next header shrinks by) *)
Theorem ed_add_opt_raw_refusal_conservative q n v :
  ed_mwf (p_msg q) -> 0 <= n ->
  fst (add_opt_raw q n v) = false ->
  (n =? last_num (m_opts (p_msg q))) && negb (repeatable n) = false ->
  p_max q <> 0 /\
  p_max q - 2 < used (p_msg (set_opts q (insert_opt n v (m_opts (p_msg q))))).
Proof.
  intros W Hn Hr Hrep. destruct (ed_insert_result_size q n v W Hn) as (shrink & Hs & Hu).
  unfold add_opt_raw in Hr. fold (ed_ins_prev q n) in Hr. rewrite Hrep in Hr.
  destruct (fits q (used (p_msg q) + opt_encode_size (n - ed_ins_prev q n) (len v))) eqn:Ef;
    [discriminate|].
  unfold fits in Ef. lia.
Qed.

(* the refinement in the shape "abstraction of the bytes after = edit applied to the abstraction of
   the bytes before", with the refusal clause *)
Theorem ed_b_apply_abs q e :
  ed_pwf q -> ed_op_ok e ->
  exists r p',
    ed_b_apply (ed_of_pdu q) e = Some (r, p') /\
    ed_abs (ed_of_pdu q) = Some (p_msg q) /\
    r = fst (ed_apply q e) /\
    ed_abs p' = Some (p_msg (snd (ed_apply q e))) /\
    (r = false ->
     p' = ed_of_pdu q \/
     exists n v, (e = EdInsert n v \/ e = EdUpdate n v) /\ ed_hop_trigger (p_msg q) n = true /\
                 p' = ed_of_pdu (snd (add_opt_raw q 16 [16]))).
Proof.
  intros W He. exists (fst (ed_apply q e)), (ed_of_pdu (snd (ed_apply q e))).
  split; [apply ed_b_apply_refines; assumption|].
  split; [apply ed_abs_of_pdu; destruct W; assumption|].
  split; [reflexivity|].
  split; [apply ed_abs_of_pdu; apply (ed_pwf_apply q e W He)|].
  intros Hr. destruct (ed_apply_refused q e Hr) as [->|(n & v & H1 & H2 & ->)].
  - left. reflexivity.
  - right. exists n, v. tauto.
Qed.

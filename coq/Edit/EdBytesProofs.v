(* C04 - the byte-level edits (Edit/EdBytes.v) refine the edits on the abstract message
   (Edit/EdSpec.v): on the buffer of a well-formed PDU every C function, transcribed, returns
   what the specification returns and leaves exactly the buffer / bookkeeping of the
   specification's result.  In particular the model never gets stuck there (no store or move
   outside the bytes it is entitled to, no NULL option, no fuel exhaustion). *)
From LibcoapV Require Import Base.Tactics Base.Bytes Base.BytesProofs Wire.OptCodec
  Wire.OptCodecProofs Wire.Pdu Wire.PduProofs Wire.Build Edit.EdSpec Edit.EdBytes Edit.EdLemmas
  Edit.EdSpecProofs Edit.EdIter Edit.EdPatch.
Local Open Scope Z_scope.

(* ---- bookkeeping of ed_of_pdu ---- *)

Lemma ed_used_of_pdu q : ed_used (ed_of_pdu q) = used (p_msg q).
Proof. unfold ed_used, used. rewrite ed_buf_of_pdu, len_app. reflexivity. Qed.

Lemma ed_fits_of_pdu q size : ed_fits (eb_max (ed_of_pdu q)) size = fits q size.
Proof. reflexivity. Qed.

Lemma ed_maxopt_of_pdu q : eb_maxopt (ed_of_pdu q) = last_num (m_opts (p_msg q)).
Proof. reflexivity. Qed.

(* two PDUs with the same header fields, token and payload: equal as soon as buffer, max_opt
   and data offset agree *)
Lemma ed_of_pdu_set_opts q os buf data :
  buf = token_area (m_token (p_msg q)) ++ opts_enc 0 os ++ payload_area (m_payload (p_msg q)) ->
  data = (match m_payload (p_msg q) with [] => 0 | _ => len buf - len (m_payload (p_msg q)) end) ->
  ed_set_maxopt (ed_set_buf (ed_of_pdu q) buf data) (last_num os) = ed_of_pdu (set_opts q os).
Proof.
  intros -> ->. unfold ed_set_maxopt, ed_set_buf, ed_of_pdu, ed_of_msg, set_opts, content_area.
  cbn [eb_type eb_code eb_mid eb_buf eb_etl eb_tlen eb_maxopt eb_data eb_max p_msg p_max m_type
       m_code m_mid m_token m_opts m_payload]. reflexivity.
Qed.

Lemma ed_set_maxopt_same p : ed_set_maxopt p (eb_maxopt p) = p.
Proof. destruct p; reflexivity. Qed.

Lemma ed_shift_data_of_pdu q by_ :
  ed_shift_data (ed_of_pdu q) by_ =
  match m_payload (p_msg q) with
  | [] => 0
  | _ => len (eb_buf (ed_of_pdu q)) + by_ - len (m_payload (p_msg q))
  end.
Proof.
  unfold ed_shift_data. cbn [ed_of_pdu ed_of_msg eb_data eb_buf].
  destruct (m_payload (p_msg q)) as [|x xs] eqn:Ep; [reflexivity|].
  set (buf := token_area (m_token (p_msg q)) ++ content_area (p_msg q)).
  assert (H : len (x :: xs) + 1 <= len buf).
  { subst buf. unfold content_area. rewrite Ep. cbn [payload_area]. rewrite !len_app, !len_cons. pose proof (len_nonneg xs).
    pose proof (len_nonneg (token_area (m_token (p_msg q)))).
    pose proof (len_nonneg (opts_enc 0 (m_opts (p_msg q)))). lia. }
  replace (len buf - len (x :: xs) =? 0) with false by lia. lia.
Qed.

Lemma ed_bwrite_end (P J E : bytes) :
  len E <= len J ->
  exists W, ed_bwrite (P ++ J) (len P) E = Some W /\ take (len P + len E) W = P ++ E.
Proof.
  intros H. pose proof (len_nonneg P). pose proof (len_nonneg E).
  unfold ed_bwrite. rewrite len_app.
  replace ((0 <=? len P) && (len P + len E <=? len P + len J)) with true by lia.
  eexists. split; [reflexivity|].
  rewrite take_app_exact. rewrite ed_take_app by lia. f_equal.
  replace (len E) with (len E + 0) at 1 by lia. rewrite ed_take_app by lia.
  rewrite ed_take_0. apply app_nil_r.
Qed.

Lemma ed_lastn_le_all l : forall p n,
  p <= n -> Forall (fun o => (n <? fst o) = false) l -> ed_lastn p l <= n.
Proof.
  induction l as [|[a b] tl IH]; intros p n Hp H; [rewrite ed_lastn_nil; lia|].
  inversion H; subst. cbn [fst] in *. rewrite ed_lastn_cons. apply IH; [lia|assumption].
Qed.

Lemma ed_all_le_last l : forall p, ascending p l ->
  Forall (fun o => (ed_lastn p l <? fst o) = false) l.
Proof.
  intros p H. pose proof (ed_ascending_bounds l p H) as B.
  eapply Forall_impl; [|exact B]. cbn. intros o Ho. lia.
Qed.

Lemma ed_gap0 (X Y J E : bytes) a b :
  len X = b -> len E = a -> a <= b + len J ->
  exists M W,
    ed_memmove (X ++ Y ++ J) a b (len Y) = Some M /\
    ed_bwrite M 0 E = Some W /\
    take (a + len Y) W = E ++ Y.
Proof. intros H1 H2 H3. exact (ed_gap [] X Y J E a b H1 H2 H3). Qed.

Lemma ed_opt_hdr_len d l : len (opt_hdr d l) = 1 + ext_size d + ext_size l.
Proof. unfold opt_hdr. rewrite len_cons, len_app, !ext_bytes_len. lia. Qed.

Lemma ed_ext_size_range x : 0 <= ext_size x <= 2.
Proof. unfold ext_size. repeat case_if; lia. Qed.

Lemma ed_ext_size_mono a b : a <= b -> ext_size a <= ext_size b.
Proof. unfold ext_size. intros H. repeat case_if; lia. Qed.

(* ---- coap_insert_option, in-place path: the byte surgery ---- *)

Lemma ed_inplace_bytes dold dnew (w R E : bytes) shift :
  0 < dnew <= dold -> dold <= 65535 -> len w <= 65804 -> len E = shift ->
  exists s1 s2 s3,
    ed_patch_insert dold dnew (ed_grow (opt_enc dold w ++ R) shift) =
      Some (s1, ext_size dold - ext_size dnew) /\
    ed_memmove s1 shift (ext_size dold - ext_size dnew)
               (len (opt_enc dold w ++ R) - (ext_size dold - ext_size dnew)) = Some s2 /\
    ed_bwrite s2 0 E = Some s3 /\
    take (len (opt_enc dold w ++ R) + shift - (ext_size dold - ext_size dnew)) s3 =
      E ++ opt_enc dnew w ++ R.
Proof.
  intros Hd Hdo Hw HE. pose proof (len_nonneg w) as Hw0. pose proof (len_nonneg E) as HE0.
  set (J := repeat ed_junk (Z.to_nat shift)).
  assert (HJ : len J = shift) by (subst J; rewrite ed_len_repeat; lia).
  unfold ed_grow. fold J. unfold opt_enc. rewrite <- !app_assoc.
  destruct (ed_patch_insert_ok dold dnew (len w) (w ++ R ++ J) Hd Hdo ltac:(lia))
    as (X & HP & HX).
  rewrite HP.
  set (Y := opt_hdr dnew (len w) ++ w ++ R).
  pose proof (ed_ext_size_mono dnew dold ltac:(lia)) as Hm.
  destruct (ed_gap0 X Y J E shift (ext_size dold - ext_size dnew) HX HE ltac:(lia))
    as (M & Wr & HM & HW & HT).
  assert (HY : len (opt_hdr dold (len w) ++ w ++ R) - (ext_size dold - ext_size dnew) = len Y).
  { subst Y. rewrite !len_app, !ed_opt_hdr_len. lia. }
  exists (X ++ opt_hdr dnew (len w) ++ w ++ R ++ J), M, Wr.
  split; [reflexivity|]. split.
  { rewrite HY. subst Y. rewrite <- !app_assoc in HM. exact HM. }
  split; [exact HW|].
  replace (len (opt_hdr dold (len w) ++ w ++ R) + shift - (ext_size dold - ext_size dnew))
    with (shift + len Y) by lia.
  rewrite HT. subst Y. reflexivity.
Qed.

Lemma ed_forall_app_inv {A} (P : A -> Prop) l1 x l2 :
  Forall P (l1 ++ x :: l2) -> Forall P l1 /\ P x /\ Forall P l2.
Proof.
  intros H. apply Forall_app in H. destruct H as [H1 H2]. inversion H2; subst. tauto.
Qed.

Lemma ed_last_num_insert_mid l1 (x y : opt) l2 :
  last_num (l1 ++ x :: y :: l2) = last_num (l1 ++ y :: l2).
Proof.
  change (ed_lastn 0 (l1 ++ x :: y :: l2) = ed_lastn 0 (l1 ++ y :: l2)).
  destruct x as [a b], y as [c d]. rewrite !ed_lastn_app, !ed_lastn_cons. reflexivity.
Qed.

Lemma ed_b_inplace_refines q n v :
  ed_mwf (p_msg q) -> 0 <= n -> n < last_num (m_opts (p_msg q)) -> len v <= 65804 ->
  ed_b_inplace (ed_of_pdu q) n v =
  Some (fst (add_opt_raw q n v), ed_of_pdu (snd (add_opt_raw q n v))).
Proof.
  intros W Hn Hlt Hv. pose proof W as [Htok Hok Hasc].
  destruct (ed_split_first (fun k => n <? k) (m_opts (p_msg q)))
    as [Hall|(l1 & k & w & l2 & Ho & Hsf & Hst)].
  { pose proof (ed_lastn_le_all _ 0 n Hn Hall) as Hc. rewrite ed_last_num_lastn in Hlt. lia. }
  assert (Hasc' := Hasc). rewrite Ho in Hasc'. apply ed_ascending_app in Hasc'.
  destruct Hasc' as [Ha1 Ha2]. cbn [ascending fst] in Ha2. destruct Ha2 as [Hpk Ha3].
  assert (Hok' := Hok). rewrite Ho in Hok'. apply ed_forall_app_inv in Hok'.
  destruct Hok' as (Hok1 & [Hk Hw] & Hok2). cbn [fst snd] in Hk, Hw.
  pose proof (ed_ascending_lastn l1 0 Ha1) as Hp0.
  pose proof (ed_lastn_le_all l1 0 n Hn Hsf) as Hpn.
  set (p1 := ed_lastn 0 l1) in *.
  (* the specification side *)
  assert (Hspec : add_opt_raw q n v =
    if fits q (used (p_msg q) + opt_encode_size (n - p1) (len v))
    then (true, set_opts q (l1 ++ (n, v) :: (k, w) :: l2)) else (false, q)).
  { unfold add_opt_raw. replace (n =? last_num (m_opts (p_msg q))) with false by lia.
    cbn [andb]. replace (n <? last_num (m_opts (p_msg q))) with true by lia.
    rewrite Ho. rewrite ed_prev_num_split by assumption.
    rewrite ed_insert_opt_split by assumption. reflexivity. }
  rewrite Hspec. clear Hspec.
  (* the byte side *)
  unfold ed_b_inplace. rewrite (ed_search_found q (fun k => n <? k) l1 k w l2 W Ho Hsf Hst).
  cbn [eh_suf eh_num eh_pos]. fold p1.
  rewrite opt_parse_enc by lia.
  replace (k - n =? 0) with false by lia. cbn [andb].
  rewrite ed_used_of_pdu, ed_fits_of_pdu.
  destruct (fits q (used (p_msg q) + opt_encode_size (n - p1) (len v))) eqn:Ef;
    cbn [negb fst snd]; [|reflexivity].
  set (PA := payload_area (m_payload (p_msg q))).
  set (R := opts_enc k l2 ++ PA).
  set (E := opt_enc (n - p1) v).
  assert (HE : len E = opt_encode_size (n - p1) (len v)) by apply opt_enc_len.
  destruct (ed_inplace_bytes (k - p1) (k - n) w R E _ ltac:(lia) ltac:(lia) Hw HE)
    as (s1 & s2 & s3 & H1 & H2 & H3 & H4).
  rewrite H1. cbv beta iota zeta. rewrite H2, H3.
  f_equal. f_equal.
  (* the resulting PDU *)
  set (TA := token_area (m_token (p_msg q))).
  assert (Hbuf : eb_buf (ed_of_pdu q) = (TA ++ opts_enc 0 l1) ++ opt_enc (k - p1) w ++ R).
  { rewrite ed_buf_of_pdu, Ho, ed_opts_enc_app. cbn [opts_enc]. fold p1 TA PA. subst R.
    rewrite <- !app_assoc. reflexivity. }
  assert (Hlen : len (eb_buf (ed_of_pdu q)) = used (p_msg q)) by apply ed_used_of_pdu.
  assert (Hpos : TA ++ opts_enc 0 l1 = take (len TA + len (opts_enc 0 l1)) (eb_buf (ed_of_pdu q))).
  { rewrite Hbuf, <- len_app. symmetry. apply take_app_exact. }
  rewrite <- Hpos.
  replace (used (p_msg q) + opt_encode_size (n - p1) (len v) - (ext_size (k - p1) - ext_size (k - n)) -
           (len TA + len (opts_enc 0 l1)))
    with (len (opt_enc (k - p1) w ++ R) + opt_encode_size (n - p1) (len v) -
          (ext_size (k - p1) - ext_size (k - n))).
  2:{ rewrite <- Hlen, Hbuf, !len_app. lia. }
  rewrite H4.
  rewrite <- (ed_of_pdu_set_opts q (l1 ++ (n, v) :: (k, w) :: l2)
               ((TA ++ opts_enc 0 l1) ++ E ++ opt_enc (k - n) w ++ R)
               (ed_shift_data (ed_of_pdu q)
                  (opt_encode_size (n - p1) (len v) - (ext_size (k - p1) - ext_size (k - n))))).
  - replace (last_num (l1 ++ (n, v) :: (k, w) :: l2)) with (eb_maxopt (ed_of_pdu q)).
    + reflexivity.
    + rewrite ed_maxopt_of_pdu, Ho. symmetry. apply ed_last_num_insert_mid.
  - rewrite ed_opts_enc_app. cbn [opts_enc]. fold p1 TA PA. subst E R.
    rewrite <- !app_assoc. reflexivity.
  - rewrite ed_shift_data_of_pdu. destruct (m_payload (p_msg q)); [reflexivity|].
    rewrite Hbuf, !len_app. subst E. rewrite !opt_enc_len. unfold opt_encode_size. lia.
Qed.

(* C04 - the byte-level edits (Edit/EdBytes.v) refine the edits on the abstract message
   (Edit/EdSpec.v): on the buffer of a well-formed PDU every C function, transcribed, returns
   what the specification returns and leaves exactly the buffer / bookkeeping of the
   specification's result.  In particular the model never gets stuck there (no store or move
   outside the bytes it is entitled to, no NULL option, no fuel exhaustion). *)
From LibcoapV Require Import Base.Tactics Base.Bytes Base.BytesProofs Wire.OptCodec
  Wire.OptCodecProofs Wire.Pdu Wire.PduProofs Wire.Build Edit.EdSpec Edit.EdBytes Edit.EdLemmas
  Edit.EdSpecProofs Edit.EdIter Edit.EdPatch.
Local Open Scope Z_scope.

(* ---- bookkeeping of ed_of_pdu ---- *)

Lemma ed_used_of_pdu q : ed_used (ed_of_pdu q) = used (p_msg q).
Proof. unfold ed_used, used. rewrite ed_buf_of_pdu, len_app. reflexivity. Qed.

Lemma ed_fits_of_pdu q size : ed_fits (eb_max (ed_of_pdu q)) size = fits q size.
Proof. reflexivity. Qed.

Lemma ed_maxopt_of_pdu q : eb_maxopt (ed_of_pdu q) = last_num (m_opts (p_msg q)).
Proof. reflexivity. Qed.

(* two PDUs with the same header fields, token and payload: equal as soon as buffer, max_opt
   and data offset agree *)
Lemma ed_of_pdu_set_opts q os buf data :
  buf = token_area (m_token (p_msg q)) ++ opts_enc 0 os ++ payload_area (m_payload (p_msg q)) ->
  data = (match m_payload (p_msg q) with [] => 0 | _ => len buf - len (m_payload (p_msg q)) end) ->
  ed_set_maxopt (ed_set_buf (ed_of_pdu q) buf data) (last_num os) = ed_of_pdu (set_opts q os).
Proof.
  intros -> ->. unfold ed_set_maxopt, ed_set_buf, ed_of_pdu, ed_of_msg, set_opts, content_area.
  cbn [eb_type eb_code eb_mid eb_buf eb_etl eb_tlen eb_maxopt eb_data eb_max p_msg p_max m_type
       m_code m_mid m_token m_opts m_payload]. reflexivity.
Qed.

Lemma ed_of_pdu_set_opts' q os buf data mo :
  buf = token_area (m_token (p_msg q)) ++ opts_enc 0 os ++ payload_area (m_payload (p_msg q)) ->
  data = (match m_payload (p_msg q) with [] => 0 | _ => len buf - len (m_payload (p_msg q)) end) ->
  mo = last_num os ->
  ed_set_maxopt (ed_set_buf (ed_of_pdu q) buf data) mo = ed_of_pdu (set_opts q os).
Proof. intros H1 H2 ->. apply ed_of_pdu_set_opts; assumption. Qed.

Lemma ed_set_maxopt_same p : ed_set_maxopt p (eb_maxopt p) = p.
Proof. destruct p; reflexivity. Qed.

Lemma ed_shift_data_of_pdu q by_ :
  ed_shift_data (ed_of_pdu q) by_ =
  match m_payload (p_msg q) with
  | [] => 0
  | _ => len (eb_buf (ed_of_pdu q)) + by_ - len (m_payload (p_msg q))
  end.
Proof.
  unfold ed_shift_data. cbn [ed_of_pdu ed_of_msg eb_data eb_buf].
  destruct (m_payload (p_msg q)) as [|x xs] eqn:Ep; [reflexivity|].
  set (buf := token_area (m_token (p_msg q)) ++ content_area (p_msg q)).
  assert (H : len (x :: xs) + 1 <= len buf).
  { subst buf. unfold content_area. rewrite Ep. cbn [payload_area]. rewrite !len_app, !len_cons. pose proof (len_nonneg xs).
    pose proof (len_nonneg (token_area (m_token (p_msg q)))).
    pose proof (len_nonneg (opts_enc 0 (m_opts (p_msg q)))). lia. }
  replace (len buf - len (x :: xs) =? 0) with false by lia. lia.
Qed.

Lemma ed_bwrite_end (P J E : bytes) :
  len E <= len J ->
  exists W, ed_bwrite (P ++ J) (len P) E = Some W /\ take (len P + len E) W = P ++ E.
Proof.
  intros H. pose proof (len_nonneg P). pose proof (len_nonneg E).
  unfold ed_bwrite. rewrite len_app.
  replace ((0 <=? len P) && (len P + len E <=? len P + len J)) with true by lia.
  eexists. split; [reflexivity|].
  rewrite take_app_exact. rewrite ed_take_app by lia. f_equal.
  replace (len E) with (len E + 0) at 1 by lia. rewrite ed_take_app by lia.
  rewrite ed_take_0. apply app_nil_r.
Qed.

Lemma ed_lastn_le_all l : forall p n,
  p <= n -> Forall (fun o => (n <? fst o) = false) l -> ed_lastn p l <= n.
Proof.
  induction l as [|[a b] tl IH]; intros p n Hp H; [rewrite ed_lastn_nil; lia|].
  inversion H; subst. cbn [fst] in *. rewrite ed_lastn_cons. apply IH; [lia|assumption].
Qed.

Lemma ed_all_le_last l : forall p, ascending p l ->
  Forall (fun o => (ed_lastn p l <? fst o) = false) l.
Proof.
  intros p H. pose proof (ed_ascending_bounds l p H) as B.
  eapply Forall_impl; [|exact B]. cbn. intros o Ho. lia.
Qed.

Lemma ed_gap0 (X Y J E : bytes) a b :
  len X = b -> len E = a -> a <= b + len J ->
  exists M W,
    ed_memmove (X ++ Y ++ J) a b (len Y) = Some M /\
    ed_bwrite M 0 E = Some W /\
    take (a + len Y) W = E ++ Y.
Proof. intros H1 H2 H3. exact (ed_gap [] X Y J E a b H1 H2 H3). Qed.

Lemma ed_opt_hdr_len d l : len (opt_hdr d l) = 1 + ext_size d + ext_size l.
Proof. unfold opt_hdr. rewrite len_cons, len_app, !ext_bytes_len. lia. Qed.

Lemma ed_ext_size_range x : 0 <= ext_size x <= 2.
Proof. unfold ext_size. repeat case_if; lia. Qed.

Lemma ed_ext_size_mono a b : a <= b -> ext_size a <= ext_size b.
Proof. unfold ext_size. intros H. repeat case_if; lia. Qed.

(* ---- coap_insert_option, in-place path: the byte surgery ---- *)

Lemma ed_inplace_bytes dold dnew (w R E : bytes) shift :
  0 < dnew <= dold -> dold <= 65535 -> len w <= 65804 -> len E = shift ->
  exists s1 s2 s3,
    ed_patch_insert dold dnew (ed_grow (opt_enc dold w ++ R) shift) =
      Some (s1, ext_size dold - ext_size dnew) /\
    ed_memmove s1 shift (ext_size dold - ext_size dnew)
               (len (opt_enc dold w ++ R) - (ext_size dold - ext_size dnew)) = Some s2 /\
    ed_bwrite s2 0 E = Some s3 /\
    take (len (opt_enc dold w ++ R) + shift - (ext_size dold - ext_size dnew)) s3 =
      E ++ opt_enc dnew w ++ R.
Proof.
  intros Hd Hdo Hw HE. pose proof (len_nonneg w) as Hw0. pose proof (len_nonneg E) as HE0.
  set (J := repeat ed_junk (Z.to_nat shift)).
  assert (HJ : len J = shift) by (subst J; rewrite ed_len_repeat; lia).
  unfold ed_grow. fold J. unfold opt_enc. rewrite <- !app_assoc.
  destruct (ed_patch_insert_ok dold dnew (len w) (w ++ R ++ J) Hd Hdo ltac:(lia))
    as (X & HP & HX).
  rewrite HP.
  set (Y := opt_hdr dnew (len w) ++ w ++ R).
  pose proof (ed_ext_size_mono dnew dold ltac:(lia)) as Hm.
  destruct (ed_gap0 X Y J E shift (ext_size dold - ext_size dnew) HX HE ltac:(lia))
    as (M & Wr & HM & HW & HT).
  assert (HY : len (opt_hdr dold (len w) ++ w ++ R) - (ext_size dold - ext_size dnew) = len Y).
  { subst Y. rewrite !len_app, !ed_opt_hdr_len. lia. }
  exists (X ++ opt_hdr dnew (len w) ++ w ++ R ++ J), M, Wr.
  split; [reflexivity|]. split.
  { rewrite HY. subst Y. rewrite <- !app_assoc in HM. exact HM. }
  split; [exact HW|].
  replace (len (opt_hdr dold (len w) ++ w ++ R) + shift - (ext_size dold - ext_size dnew))
    with (shift + len Y) by lia.
  rewrite HT. subst Y. reflexivity.
Qed.

Lemma ed_forall_app_inv {A} (P : A -> Prop) l1 x l2 :
  Forall P (l1 ++ x :: l2) -> Forall P l1 /\ P x /\ Forall P l2.
Proof.
  intros H. apply Forall_app in H. destruct H as [H1 H2]. inversion H2; subst. tauto.
Qed.

Lemma ed_last_num_insert_mid l1 (x y : opt) l2 :
  last_num (l1 ++ x :: y :: l2) = last_num (l1 ++ y :: l2).
Proof.
  change (ed_lastn 0 (l1 ++ x :: y :: l2) = ed_lastn 0 (l1 ++ y :: l2)).
  destruct x as [a b], y as [c d]. rewrite !ed_lastn_app, !ed_lastn_cons. reflexivity.
Qed.

Lemma ed_b_inplace_refines q n v :
  ed_mwf (p_msg q) -> 0 <= n -> n < last_num (m_opts (p_msg q)) -> len v <= 65804 ->
  ed_b_inplace (ed_of_pdu q) n v =
  Some (fst (add_opt_raw q n v), ed_of_pdu (snd (add_opt_raw q n v))).
Proof.
  intros W Hn Hlt Hv. pose proof W as [Htok Hok Hasc].
  destruct (ed_split_first (fun k => n <? k) (m_opts (p_msg q)))
    as [Hall|(l1 & k & w & l2 & Ho & Hsf & Hst)].
  { pose proof (ed_lastn_le_all _ 0 n Hn Hall) as Hc. rewrite ed_last_num_lastn in Hlt. lia. }
  assert (Hasc' := Hasc). rewrite Ho in Hasc'. apply ed_ascending_app in Hasc'.
  destruct Hasc' as [Ha1 Ha2]. cbn [ascending fst] in Ha2. destruct Ha2 as [Hpk Ha3].
  assert (Hok' := Hok). rewrite Ho in Hok'. apply ed_forall_app_inv in Hok'.
  destruct Hok' as (Hok1 & [Hk Hw] & Hok2). cbn [fst snd] in Hk, Hw.
  pose proof (ed_ascending_lastn l1 0 Ha1) as Hp0.
  pose proof (ed_lastn_le_all l1 0 n Hn Hsf) as Hpn.
  set (p1 := ed_lastn 0 l1) in *.
  (* the specification side *)
  assert (Hspec : add_opt_raw q n v =
    if fits q (used (p_msg q) + opt_encode_size (n - p1) (len v))
    then (true, set_opts q (l1 ++ (n, v) :: (k, w) :: l2)) else (false, q)).
  { unfold add_opt_raw. replace (n =? last_num (m_opts (p_msg q))) with false by lia.
    cbn [andb]. replace (n <? last_num (m_opts (p_msg q))) with true by lia.
    rewrite Ho. rewrite ed_prev_num_split by assumption.
    rewrite ed_insert_opt_split by assumption. reflexivity. }
  rewrite Hspec. clear Hspec.
  (* the byte side *)
  unfold ed_b_inplace. rewrite (ed_search_found q (fun k => n <? k) l1 k w l2 W Ho Hsf Hst).
  cbn [eh_suf eh_num eh_pos]. fold p1.
  rewrite opt_parse_enc by lia.
  replace (k - n =? 0) with false by lia. cbn [andb].
  rewrite ed_used_of_pdu, ed_fits_of_pdu.
  destruct (fits q (used (p_msg q) + opt_encode_size (n - p1) (len v))) eqn:Ef;
    cbn [negb fst snd]; [|reflexivity].
  set (PA := payload_area (m_payload (p_msg q))).
  set (R := opts_enc k l2 ++ PA).
  set (E := opt_enc (n - p1) v).
  assert (HE : len E = opt_encode_size (n - p1) (len v)) by apply opt_enc_len.
  destruct (ed_inplace_bytes (k - p1) (k - n) w R E _ ltac:(lia) ltac:(lia) Hw HE)
    as (s1 & s2 & s3 & H1 & H2 & H3 & H4).
  rewrite H1. cbv beta iota zeta. rewrite H2, H3.
  f_equal. f_equal.
  (* the resulting PDU *)
  set (TA := token_area (m_token (p_msg q))).
  assert (Hbuf : eb_buf (ed_of_pdu q) = (TA ++ opts_enc 0 l1) ++ opt_enc (k - p1) w ++ R).
  { rewrite ed_buf_of_pdu, Ho, ed_opts_enc_app. cbn [opts_enc]. fold p1 TA PA. subst R.
    rewrite <- !app_assoc. reflexivity. }
  assert (Hlen : len (eb_buf (ed_of_pdu q)) = used (p_msg q)) by apply ed_used_of_pdu.
  assert (Hpos : TA ++ opts_enc 0 l1 = take (len TA + len (opts_enc 0 l1)) (eb_buf (ed_of_pdu q))).
  { rewrite Hbuf, <- len_app. symmetry. apply take_app_exact. }
  rewrite <- Hpos.
  replace (used (p_msg q) + opt_encode_size (n - p1) (len v) - (ext_size (k - p1) - ext_size (k - n)) -
           (len TA + len (opts_enc 0 l1)))
    with (len (opt_enc (k - p1) w ++ R) + opt_encode_size (n - p1) (len v) -
          (ext_size (k - p1) - ext_size (k - n))).
  2:{ rewrite <- Hlen, Hbuf, !len_app. lia. }
  rewrite H4.
  rewrite <- (ed_of_pdu_set_opts q (l1 ++ (n, v) :: (k, w) :: l2)
               ((TA ++ opts_enc 0 l1) ++ E ++ opt_enc (k - n) w ++ R)
               (ed_shift_data (ed_of_pdu q)
                  (opt_encode_size (n - p1) (len v) - (ext_size (k - p1) - ext_size (k - n))))).
  - replace (last_num (l1 ++ (n, v) :: (k, w) :: l2)) with (eb_maxopt (ed_of_pdu q)).
    + reflexivity.
    + rewrite ed_maxopt_of_pdu, Ho. symmetry. apply ed_last_num_insert_mid.
  - rewrite ed_opts_enc_app. cbn [opts_enc]. fold p1 TA PA. subst E R.
    rewrite <- !app_assoc. reflexivity.
  - rewrite ed_shift_data_of_pdu. destruct (m_payload (p_msg q)); [reflexivity|].
    rewrite Hbuf, !len_app. subst E. rewrite !opt_enc_len. unfold opt_encode_size. lia.
Qed.

(* ---- coap_add_option_internal, tail: encode after the last option ---- *)

Lemma ed_b_append_refines q n v :
  ed_mwf (p_msg q) -> last_num (m_opts (p_msg q)) <= n <= 65535 -> len v <= 65804 ->
  ((n =? last_num (m_opts (p_msg q))) && negb (repeatable n) = false) ->
  ed_b_append (ed_of_pdu q) n v =
  Some (fst (add_opt_raw q n v), ed_of_pdu (snd (add_opt_raw q n v))).
Proof.
  intros W Hn Hv Hrep. pose proof W as [Htok Hok Hasc].
  set (mx := last_num (m_opts (p_msg q))) in *.
  pose proof (ed_ascending_lastn _ 0 Hasc) as Hmx0.
  change (ed_lastn 0 (m_opts (p_msg q))) with mx in Hmx0.
  assert (Hspec : add_opt_raw q n v =
    if fits q (used (p_msg q) + opt_encode_size (n - mx) (len v))
    then (true, set_opts q (m_opts (p_msg q) ++ [(n, v)])) else (false, q)).
  { unfold add_opt_raw. fold mx. rewrite Hrep. replace (n <? mx) with false by lia.
    rewrite ed_insert_opt_end; [reflexivity|].
    pose proof (ed_all_le_last _ 0 Hasc) as Hl. eapply Forall_impl; [|exact Hl].
    cbn. intros o Ho. change (ed_lastn 0 (m_opts (p_msg q))) with mx in Ho. lia. }
  rewrite Hspec. clear Hspec.
  unfold ed_b_append. rewrite ed_used_of_pdu, ed_fits_of_pdu, ed_maxopt_of_pdu. fold mx.
  destruct (fits q (used (p_msg q) + opt_encode_size (n - mx) (len v))) eqn:Ef;
    cbn [negb fst snd]; [|reflexivity].
  set (sz := opt_encode_size (n - mx) (len v)).
  set (E := opt_enc (n - mx) v).
  assert (HE : len E = sz) by apply opt_enc_len.
  assert (Hsz : 0 <= sz) by (rewrite <- HE; apply len_nonneg).
  set (TA := token_area (m_token (p_msg q))).
  set (OE := opts_enc 0 (m_opts (p_msg q))).
  set (J := repeat ed_junk (Z.to_nat sz)).
  assert (HJ : len J = sz) by (subst J; rewrite ed_len_repeat; lia).
  assert (Hlen : len (eb_buf (ed_of_pdu q)) = used (p_msg q)) by apply ed_used_of_pdu.
  assert (Hres : forall buf', buf' = (TA ++ OE) ++ E ++ payload_area (m_payload (p_msg q)) ->
    ed_set_maxopt (ed_set_buf (ed_of_pdu q) buf' (ed_shift_data (ed_of_pdu q) sz)) n =
    ed_of_pdu (set_opts q (m_opts (p_msg q) ++ [(n, v)]))).
  { intros buf' ->.
    rewrite <- (ed_of_pdu_set_opts q (m_opts (p_msg q) ++ [(n, v)])
                 ((TA ++ OE) ++ E ++ payload_area (m_payload (p_msg q)))
                 (ed_shift_data (ed_of_pdu q) sz)).
    - f_equal. change (n = ed_lastn 0 (m_opts (p_msg q) ++ [(n, v)])).
      rewrite ed_lastn_app, ed_lastn_cons, ed_lastn_nil. reflexivity.
    - rewrite ed_opts_enc_app. cbn [opts_enc]. change (ed_lastn 0 (m_opts (p_msg q))) with mx.
      subst TA OE E. rewrite <- !app_assoc. cbn [app]. reflexivity.
    - rewrite ed_shift_data_of_pdu. destruct (m_payload (p_msg q)) eqn:Ep; [reflexivity|].
      rewrite ed_buf_of_pdu, Ep. fold TA OE. rewrite !len_app. lia. }
  unfold ed_grow. fold J.
  destruct (m_payload (p_msg q)) as [|x xs] eqn:Ep.
  - (* no payload: encode at used_size *)
    assert (Hd : eb_data (ed_of_pdu q) = 0).
    { cbn [ed_of_pdu ed_of_msg eb_data]. rewrite Ep. reflexivity. }
    rewrite Hd. cbn [Z.eqb]. cbv beta iota zeta.
    assert (Hb : eb_buf (ed_of_pdu q) = TA ++ OE).
    { rewrite ed_buf_of_pdu, Ep. cbn [payload_area]. rewrite app_nil_r. reflexivity. }
    rewrite Hb. rewrite Hb in Hlen.
    destruct (ed_bwrite_end (TA ++ OE) J E ltac:(lia)) as (Wr & HW & HT).
    rewrite <- Hlen. rewrite HW. f_equal. f_equal.
    replace (len (TA ++ OE) + sz) with (len (TA ++ OE) + len E) by lia. rewrite HT. apply Hres. cbn [payload_area]. rewrite <- !app_assoc, app_nil_r.
    reflexivity.
  - (* payload: move marker + payload up, encode where the marker was *)
    set (PA := PAYLOAD_START :: x :: xs).
    assert (Hb : eb_buf (ed_of_pdu q) = (TA ++ OE) ++ PA).
    { rewrite ed_buf_of_pdu, Ep. cbn [payload_area]. rewrite <- app_assoc. reflexivity. }
    assert (Hd : eb_data (ed_of_pdu q) = len (TA ++ OE) + 1).
    { cbn [ed_of_pdu ed_of_msg eb_data]. rewrite Ep. fold TA.
      change (content_area (p_msg q)) with (OE ++ payload_area (m_payload (p_msg q))).
      rewrite Ep. cbn [payload_area]. rewrite !len_app. subst PA. rewrite len_cons. lia. }
    pose proof (len_nonneg (TA ++ OE)) as Hp0.
    rewrite Hd. replace (len (TA ++ OE) + 1 =? 0) with false by lia.
    destruct (ed_gap (TA ++ OE) [] PA J E sz 0 eq_refl HE ltac:(lia)) as (M & Wr & HM & HW & HT).
    cbn [app] in HM.
    rewrite Hb. rewrite Hb in Hlen. rewrite len_app in Hlen.
    replace (len (TA ++ OE) + 1 + sz - 1) with (len (TA ++ OE) + sz) by lia.
    replace (len (TA ++ OE) + 1 - 1) with (len (TA ++ OE) + 0) by lia.
    replace (used (p_msg q) - (len (TA ++ OE) + 1) + 1) with (len PA) by lia.
    rewrite <- app_assoc. rewrite HM.
    replace (len (TA ++ OE) + 0) with (len (TA ++ OE)) by lia.
    rewrite HW. f_equal. f_equal.
    replace (used (p_msg q) + sz) with (len (TA ++ OE) + sz + len PA) by lia.
    rewrite HT. apply Hres. cbn [payload_area]. rewrite <- !app_assoc. reflexivity.
Qed.

(* ---- coap_add_option_internal / coap_insert_option ---- *)

Lemma ed_b_add_plain_refines q n v :
  ed_mwf (p_msg q) -> 0 <= n <= 65535 -> len v <= 65804 ->
  ed_b_add_plain (ed_of_pdu q) n v =
  Some (fst (add_opt_raw q n v), ed_of_pdu (snd (add_opt_raw q n v))).
Proof.
  intros W Hn Hv. unfold ed_b_add_plain. rewrite ed_maxopt_of_pdu.
  destruct ((n =? last_num (m_opts (p_msg q))) && negb (repeatable n)) eqn:Er.
  - unfold add_opt_raw. rewrite Er. reflexivity.
  - destruct (n <? last_num (m_opts (p_msg q))) eqn:El.
    + apply ed_b_inplace_refines; try assumption; lia.
    + apply ed_b_append_refines; try assumption; lia.
Qed.

Lemma ed_b_has_of_pdu q n :
  ed_mwf (p_msg q) -> ed_b_has (ed_of_pdu q) n = Some (has_opt n (m_opts (p_msg q))).
Proof.
  intros W. unfold ed_b_has.
  destruct (ed_split_first (fun k => k =? n) (m_opts (p_msg q)))
    as [Hall|(l1 & k & w & l2 & Ho & Hsf & Hst)].
  - destruct (ed_search_none q (fun k => k =? n) W Hall) as [pr ->].
    apply ed_has_opt_false in Hall. rewrite Hall. reflexivity.
  - rewrite (ed_search_found q (fun k => k =? n) l1 k w l2 W Ho Hsf Hst).
    f_equal. symmetry. unfold has_opt. rewrite Ho, existsb_app. cbn [existsb fst].
    rewrite Hst. rewrite orb_true_r. reflexivity.
Qed.

Lemma ed_add_opt_raw_last q n v :
  ed_mwf (p_msg q) -> 0 <= n ->
  last_num (m_opts (p_msg (snd (add_opt_raw q n v)))) = last_num (m_opts (p_msg q)) \/
  last_num (m_opts (p_msg (snd (add_opt_raw q n v)))) = n /\ last_num (m_opts (p_msg q)) <= n.
Proof.
  intros [_ _ Ha] Hn. unfold add_opt_raw. repeat case_if; cbn [snd]; try (left; reflexivity);
    cbn [set_opts p_msg m_opts]; rewrite ed_last_num_insert_max by assumption; lia.
Qed.

Lemma ed_b_add_internal_refines q n v :
  ed_mwf (p_msg q) -> 0 <= n <= 65535 -> len v <= 65804 ->
  ed_b_add_internal (ed_of_pdu q) n v =
  Some (fst (ed_add_internal q n v), ed_of_pdu (snd (ed_add_internal q n v))).
Proof.
  intros W Hn Hv. unfold ed_b_add_internal, ed_add_internal. rewrite ed_maxopt_of_pdu.
  set (mx := last_num (m_opts (p_msg q))).
  destruct ((n =? mx) && negb (repeatable n)) eqn:Er; [reflexivity|].
  (* the RFC 8768 step *)
  assert (Hhop :
    (if is_request (eb_code (ed_of_pdu q)) && ((n =? 35) || (n =? 39))
     then has <- ed_b_has (ed_of_pdu q) 16 ;;
          (if has then Some (ed_of_pdu q)
           else r <- (if mx <=? 16 then ed_b_add_plain (ed_of_pdu q) 16 [16]
                      else ed_b_inplace (ed_of_pdu q) 16 [16]) ;; Some (snd r))
     else Some (ed_of_pdu q)) = Some (ed_of_pdu (ed_hop_step q n))).
  { unfold ed_hop_step, ed_hop_trigger. change (eb_code (ed_of_pdu q)) with (m_code (p_msg q)).
    destruct (is_request (m_code (p_msg q)) && ((n =? 35) || (n =? 39))) eqn:Et;
      cbn [andb]; [|reflexivity].
    rewrite ed_b_has_of_pdu by assumption.
    destruct (has_opt 16 (m_opts (p_msg q))); cbn [negb]; [reflexivity|].
    assert (H16 : len [16] <= 65804) by (unfold len; cbn; lia).
    destruct (mx <=? 16) eqn:E16; subst mx.
    - rewrite ed_b_add_plain_refines by (try assumption; lia). reflexivity.
    - rewrite ed_b_inplace_refines by (try assumption; lia). reflexivity. }
  rewrite Hhop. clear Hhop.
  pose proof (ed_mwf_hop_step q n W) as W1.
  set (q1 := ed_hop_step q n) in *. rewrite ed_maxopt_of_pdu.
  (* the repeat check is not hit again after the step *)
  assert (Hr1 : (n =? last_num (m_opts (p_msg q1))) && negb (repeatable n) = false).
  { subst q1. unfold ed_hop_step, ed_hop_trigger.
    destruct (is_request (m_code (p_msg q)) && ((n =? 35) || (n =? 39)) &&
              negb (has_opt 16 (m_opts (p_msg q)))) eqn:Et; [|exact Er].
    destruct (ed_add_opt_raw_last q 16 [16] W ltac:(lia)) as [->|[-> _]]; [exact Er|].
    assert (n = 35 \/ n = 39) by lia. replace (n =? 16) with false by lia. reflexivity. }
  destruct (n <? last_num (m_opts (p_msg q1))) eqn:El.
  - apply ed_b_inplace_refines; try assumption; lia.
  - apply ed_b_append_refines; try assumption; lia.
Qed.

Lemma ed_b_insert_refines q n v :
  ed_mwf (p_msg q) -> 0 <= n <= 65535 -> len v <= 65804 ->
  ed_b_insert (ed_of_pdu q) n v =
  Some (fst (ed_insert q n v), ed_of_pdu (snd (ed_insert q n v))).
Proof.
  intros W Hn Hv. unfold ed_b_insert, ed_insert. rewrite ed_maxopt_of_pdu.
  destruct (n <? last_num (m_opts (p_msg q))) eqn:El.
  - replace (last_num (m_opts (p_msg q)) <=? n) with false by lia.
    apply ed_b_inplace_refines; try assumption; lia.
  - replace (last_num (m_opts (p_msg q)) <=? n) with true by lia.
    apply ed_b_add_internal_refines; assumption.
Qed.

(* ---- coap_update_option ---- *)

Lemma ed_bwrite_front (X Y E : bytes) :
  len E = len X -> ed_bwrite (X ++ Y) 0 E = Some (E ++ Y).
Proof.
  intros H. pose proof (len_nonneg E). pose proof (len_nonneg Y).
  unfold ed_bwrite. rewrite len_app.
  replace ((0 <=? 0) && (0 + len E <=? len X + len Y)) with true by lia.
  rewrite ed_take_0. cbn [app]. replace (0 + len E) with (len X) by lia.
  rewrite drop_app_exact. reflexivity.
Qed.

Lemma ed_last_num_replace l1 n (w v : bytes) l2 :
  last_num (l1 ++ (n, v) :: l2) = last_num (l1 ++ (n, w) :: l2).
Proof.
  change (ed_lastn 0 (l1 ++ (n, v) :: l2) = ed_lastn 0 (l1 ++ (n, w) :: l2)).
  rewrite !ed_lastn_app, !ed_lastn_cons. reflexivity.
Qed.

Lemma ed_b_update_refines q n v :
  ed_mwf (p_msg q) -> 0 <= n <= 65535 -> len v <= 65804 ->
  ed_b_update (ed_of_pdu q) n v =
  Some (fst (ed_update q n v), ed_of_pdu (snd (ed_update q n v))).
Proof.
  intros W Hn Hv. pose proof W as [Htok Hok Hasc]. unfold ed_b_update, ed_update.
  destruct (ed_split_first (fun k => k =? n) (m_opts (p_msg q)))
    as [Hall|(l1 & k & w & l2 & Ho & Hsf & Hst)].
  { destruct (ed_search_none q (fun k => k =? n) W Hall) as [pr ->].
    rewrite ed_find_none by assumption. apply ed_b_insert_refines; assumption. }
  assert (k = n) by lia. subst k.
  rewrite (ed_search_found q (fun k => k =? n) l1 n w l2 W Ho Hsf Hst).
  cbn [eh_suf eh_pos].
  assert (Hfind : ed_find n (m_opts (p_msg q)) = Some w)
    by (rewrite Ho; apply ed_find_split; assumption).
  rewrite Hfind.
  assert (Hasc' := Hasc). rewrite Ho in Hasc'. apply ed_ascending_app in Hasc'.
  destruct Hasc' as [Ha1 Ha2]. cbn [ascending fst] in Ha2. destruct Ha2 as [Hpk Ha3].
  assert (Hok' := Hok). rewrite Ho in Hok'. apply ed_forall_app_inv in Hok'.
  destruct Hok' as (Hok1 & [Hk Hw] & Hok2). cbn [fst snd] in Hk, Hw.
  pose proof (ed_ascending_lastn l1 0 Ha1) as Hp0.
  set (p1 := ed_lastn 0 l1) in *. set (d := n - p1).
  set (PA := payload_area (m_payload (p_msg q))).
  set (R := opts_enc n l2 ++ PA).
  rewrite opt_parse_enc by lia.
  rewrite len_app. replace (len (opt_enc d w) + len R - len R) with (len (opt_enc d w)) by lia.
  rewrite opt_enc_len.
  set (old := opt_encode_size d (len w)). set (new := opt_encode_size d (len v)).
  assert (Hgrow : ed_vsize v - ed_vsize w = new - old).
  { unfold ed_vsize, new, old, opt_encode_size. lia. }
  rewrite Hgrow. rewrite ed_used_of_pdu, ed_fits_of_pdu.
  replace (used (p_msg q) + new - old) with (used (p_msg q) + (new - old)) by lia.
  destruct ((new - old <=? 0) || fits q (used (p_msg q) + (new - old))) eqn:Ec.
  2:{ replace ((old <? new) && negb (fits q (used (p_msg q) + (new - old)))) with true
        by (destruct (fits q (used (p_msg q) + (new - old))); lia). reflexivity. }
  replace ((old <? new) && negb (fits q (used (p_msg q) + (new - old)))) with false
    by (destruct (fits q (used (p_msg q) + (new - old))); lia).
  cbn [fst snd].
  set (E := opt_enc d v). set (X := opt_enc d w).
  assert (HE : len E = new) by apply opt_enc_len.
  assert (HX : len X = old) by apply opt_enc_len.
  pose proof (len_nonneg E) as HE0. pose proof (len_nonneg X) as HX0. pose proof (len_nonneg R) as HR0.
  set (TA := token_area (m_token (p_msg q))).
  assert (Hbuf : eb_buf (ed_of_pdu q) = (TA ++ opts_enc 0 l1) ++ X ++ R).
  { rewrite ed_buf_of_pdu, Ho, ed_opts_enc_app. cbn [opts_enc]. fold p1 d TA PA. subst R X.
    rewrite <- !app_assoc. reflexivity. }
  assert (Hlen : len (eb_buf (ed_of_pdu q)) = used (p_msg q)) by apply ed_used_of_pdu.
  assert (Hpos : take (len TA + len (opts_enc 0 l1)) (eb_buf (ed_of_pdu q)) = TA ++ opts_enc 0 l1).
  { rewrite Hbuf, <- len_app. apply take_app_exact. }
  rewrite Hpos.
  assert (Hres : forall buf', buf' = (TA ++ opts_enc 0 l1) ++ E ++ R ->
    ed_set_buf (ed_of_pdu q) buf' (ed_shift_data (ed_of_pdu q) (new - old)) =
    ed_of_pdu (set_opts q (ed_replace_first n v (m_opts (p_msg q))))).
  { intros buf' ->. rewrite Ho, ed_replace_first_split by assumption.
    change (ed_set_buf (ed_of_pdu q) ((TA ++ opts_enc 0 l1) ++ E ++ R)
              (ed_shift_data (ed_of_pdu q) (new - old)))
      with (ed_set_maxopt (ed_set_buf (ed_of_pdu q) ((TA ++ opts_enc 0 l1) ++ E ++ R)
              (ed_shift_data (ed_of_pdu q) (new - old))) (eb_maxopt (ed_of_pdu q))).
    apply ed_of_pdu_set_opts'.
    3:{ rewrite (ed_last_num_replace l1 n w v l2), <- Ho. reflexivity. }
    - rewrite ed_opts_enc_app. cbn [opts_enc]. fold p1 d TA PA. subst E R.
      rewrite <- !app_assoc. reflexivity.
    - rewrite ed_shift_data_of_pdu. destruct (m_payload (p_msg q)); [reflexivity|].
      rewrite Hbuf, !len_app. lia. }
  replace (used (p_msg q) + (new - old) - (len TA + len (opts_enc 0 l1)))
    with (new + len R) by (rewrite <- Hlen, Hbuf, !len_app; lia).
  destruct (new =? old) eqn:Eno.
  - assert (new = old) by lia. rewrite ed_grow_neg by lia.
    fold X. rewrite ed_bwrite_front by lia. f_equal. f_equal.
    rewrite ed_take_all by (rewrite len_app; lia). apply Hres. reflexivity.
  - unfold ed_grow. set (J := repeat ed_junk (Z.to_nat (new - old))).
    assert (HJ : len J = Z.max 0 (new - old)) by (subst J; rewrite ed_len_repeat; lia).
    destruct (ed_gap0 X R J E new old HX HE ltac:(lia)) as (M & Wr & HM & HW & HT).
    fold X. rewrite <- app_assoc.
    replace (old + len R - old) with (len R) by lia.
    rewrite HM, HW. f_equal. f_equal. rewrite HT. apply Hres. reflexivity.
Qed.

(* ---- coap_remove_option ---- *)

Lemma ed_opt_enc_len2 d v : 13 <= d -> 2 <= len (opt_enc d v).
Proof.
  intros H. rewrite opt_enc_len. unfold opt_encode_size.
  pose proof (ed_ext_size_range (len v)). pose proof (len_nonneg v).
  assert (1 <= ext_size d) by (unfold ext_size; repeat case_if; lia). lia.
Qed.

Lemma ed_b_remove_refines q n :
  ed_mwf (p_msg q) -> 0 <= n ->
  ed_b_remove (ed_of_pdu q) n =
  Some (fst (ed_remove q n), ed_of_pdu (snd (ed_remove q n))).
Proof.
  intros W Hn. pose proof W as [Htok Hok Hasc]. unfold ed_b_remove, ed_remove.
  destruct (ed_split_first (fun k => k =? n) (m_opts (p_msg q)))
    as [Hall|(l1 & k & w & l2 & Ho & Hsf & Hst)].
  { destruct (ed_search_none q (fun k => k =? n) W Hall) as [pr ->].
    rewrite ed_find_none by assumption. reflexivity. }
  assert (k = n) by lia. subst k.
  rewrite (ed_search_found q (fun k => k =? n) l1 n w l2 W Ho Hsf Hst).
  cbn [eh_suf eh_pos eh_st].
  assert (Hfind : ed_find n (m_opts (p_msg q)) = Some w)
    by (rewrite Ho; apply ed_find_split; assumption).
  rewrite Hfind. cbn [fst snd].
  assert (Hasc' := Hasc). rewrite Ho in Hasc'. apply ed_ascending_app in Hasc'.
  destruct Hasc' as [Ha1 Ha2]. cbn [ascending fst] in Ha2. destruct Ha2 as [Hpk Ha3].
  assert (Hok' := Hok). rewrite Ho in Hok'. apply ed_forall_app_inv in Hok'.
  destruct Hok' as (Hok1 & [Hk Hw] & Hok2). cbn [fst snd] in Hk, Hw.
  pose proof (ed_ascending_lastn l1 0 Ha1) as Hp0.
  set (p1 := ed_lastn 0 l1) in *. set (d := n - p1).
  set (PA := payload_area (m_payload (p_msg q))).
  set (TA := token_area (m_token (p_msg q))).
  rewrite opt_parse_enc by lia.
  set (X := opt_enc d w).
  assert (HX : len X = opt_encode_size d (len w)) by apply opt_enc_len.
  pose proof (ed_opt_enc_pos d w) as HX1. fold X in HX1.
  assert (Hbuf : eb_buf (ed_of_pdu q) = (TA ++ opts_enc 0 l1) ++ X ++ opts_enc n l2 ++ PA).
  { rewrite ed_buf_of_pdu, Ho, ed_opts_enc_app. cbn [opts_enc]. fold p1 d TA PA X.
    rewrite <- !app_assoc. reflexivity. }
  assert (Hpos : take (len TA + len (opts_enc 0 l1)) (eb_buf (ed_of_pdu q)) = TA ++ opts_enc 0 l1).
  { rewrite Hbuf, <- len_app. apply take_app_exact. }
  rewrite Hpos.
  rewrite Ho, ed_remove_first_split by assumption.
  destruct l2 as [|[k2 w2] l3].
  - (* the last option *)
    cbn [opts_enc app]. rewrite ed_it_next_tail by apply ed_payload_tail_ok.
    fold X. rewrite <- HX. rewrite len_app.
    replace (len X + len PA - len X) with (len PA) by lia.
    assert (Hres : ed_set_maxopt
              (ed_set_buf (ed_of_pdu q) ((TA ++ opts_enc 0 l1) ++ PA)
                          (ed_shift_data (ed_of_pdu q) (- len X)))
              (eb_maxopt (ed_of_pdu q) - d) = ed_of_pdu (set_opts q (l1 ++ []))).
    { apply ed_of_pdu_set_opts'.
      - rewrite app_nil_r, <- app_assoc. reflexivity.
      - rewrite ed_shift_data_of_pdu. destruct (m_payload (p_msg q)); [reflexivity|].
        rewrite Hbuf. cbn [opts_enc app]. rewrite !len_app. lia.
      - rewrite ed_maxopt_of_pdu, Ho, app_nil_r.
        change (ed_lastn 0 (l1 ++ [(n, w)]) - d = ed_lastn 0 l1).
        rewrite ed_lastn_app, ed_lastn_cons, ed_lastn_nil. subst d p1. lia. }
    destruct (len PA =? 0) eqn:Ep.
    + assert (HPA : PA = []).
      { destruct PA; [reflexivity|]. rewrite len_cons in Ep. pose proof (len_nonneg PA). lia. }
      rewrite HPA in *. rewrite ed_take_0. rewrite <- Hres. reflexivity.
    + destruct (ed_move_down X PA) as (M & HM & HT). rewrite HM, HT. rewrite <- Hres. reflexivity.
  - (* an option follows: its header takes the combined delta *)
    cbn [ascending fst] in Ha3. destruct Ha3 as [Hnk Ha4].
    inversion Hok2 as [|? ? [Hk2 Hw2] Hok3]; subst. cbn [fst snd] in Hk2, Hw2.
    cbn [opts_enc]. rewrite <- app_assoc.
    rewrite ed_it_next_opt by lia. cbn [eh_suf eh_pos].
    rewrite opt_parse_enc by lia.
    set (dn := k2 - n). set (R := opts_enc k2 l3 ++ PA).
    replace (len TA + len (opts_enc 0 l1) + len X - (len TA + len (opts_enc 0 l1)))
      with (len X) by lia.
    assert (Hsh : negb (d + dn <? 269) && (dn <? 13) && (len X <? 2) = false).
    { destruct (d + dn <? 269) eqn:E1; [reflexivity|]. destruct (dn <? 13) eqn:E2; [|reflexivity].
      pose proof (ed_opt_enc_len2 d w ltac:(lia)) as H2. fold X in H2. cbn [negb andb]. lia. }
    rewrite Hsh. cbv beta iota zeta.
    replace (opt_enc dn w2 ++ R) with (opt_hdr dn (len w2) ++ w2 ++ R)
      by (unfold opt_enc; rewrite <- app_assoc; reflexivity).
    assert (Hnat : Z.to_nat (len X) = length X) by (unfold len; lia).
    rewrite Hnat.
    destruct (ed_patch_remove_ok d dn (len w2) X (w2 ++ R) ltac:(lia) ltac:(lia) ltac:(lia)
                ltac:(pose proof (len_nonneg w2); lia) HX1
                ltac:(intros; apply ed_opt_enc_len2; assumption))
      as (X' & HP & HX').
    rewrite HP. cbv beta iota zeta.
    set (Y := opt_hdr (d + dn) (len w2) ++ w2 ++ R).
    assert (HY : len (X ++ opt_hdr dn (len w2) ++ w2 ++ R) + 0 - len X' = len Y).
    { subst Y. rewrite !len_app, !ed_opt_hdr_len. lia. }
    rewrite HY.
    destruct (ed_move_down X' Y) as (M & HM & HT). rewrite HM, HT.
    f_equal. f_equal.
    change (ed_set_buf (ed_of_pdu q) ((TA ++ opts_enc 0 l1) ++ Y)
              (ed_shift_data (ed_of_pdu q) (0 - len X')))
      with (ed_set_maxopt (ed_set_buf (ed_of_pdu q) ((TA ++ opts_enc 0 l1) ++ Y)
              (ed_shift_data (ed_of_pdu q) (0 - len X'))) (eb_maxopt (ed_of_pdu q))).
    apply ed_of_pdu_set_opts'.
    + rewrite ed_opts_enc_app. cbn [opts_enc]. fold p1 TA PA. subst Y R.
      replace (d + dn) with (k2 - p1) by (subst d dn; lia).
      unfold opt_enc. rewrite <- !app_assoc. reflexivity.
    + rewrite ed_shift_data_of_pdu. destruct (m_payload (p_msg q)); [reflexivity|].
      rewrite Hbuf. cbn [opts_enc]. fold dn.
      replace (opt_enc dn w2) with (opt_hdr dn (len w2) ++ w2) by reflexivity. subst Y R.
      rewrite !len_app, !ed_opt_hdr_len. rewrite !len_app, !ed_opt_hdr_len in HY. lia.
    + rewrite ed_maxopt_of_pdu, Ho. apply ed_last_num_insert_mid.
Qed.

(* ---- coap_add_token / coap_update_token ---- *)

Lemma ed_token_area_len t : len (token_area t) = len t + ed_bias (len t).
Proof.
  unfold token_area, ed_bias. repeat case_if; rewrite ?len_cons, ?len_app; try lia.
  unfold be16. change (len [((len t - 269) / 256) mod 256; (len t - 269) mod 256]) with 2. lia.
Qed.

Lemma ed_drop_app_le {A} n (a b : list A) : 0 <= n <= len a -> drop n (a ++ b) = drop n a ++ b.
Proof.
  intros H. unfold drop, len in *. rewrite skipn_app.
  replace (Z.to_nat n - length a)%nat with 0%nat by lia. reflexivity.
Qed.

Lemma ed_token_grow_bytes (T C J E : bytes) g :
  len J = g -> 0 < g -> len E = g + len T ->
  exists M, ed_memmove ((T ++ C) ++ J) g 0 (len (T ++ C)) = Some M /\
            ed_bwrite M 0 E = Some (E ++ C).
Proof.
  intros HJ Hg HE. pose proof (len_nonneg T). pose proof (len_nonneg C).
  unfold ed_memmove. rewrite !len_app.
  replace ((0 <=? g) && (0 <=? 0) && (0 <=? len T + len C) &&
           (g + (len T + len C) <=? len T + len C + len J) &&
           (0 + (len T + len C) <=? len T + len C + len J)) with true by lia.
  eexists. split; [reflexivity|].
  rewrite ed_drop_0. rewrite <- len_app. rewrite take_app_exact.
  rewrite (ed_drop_all (g + len (T ++ C))) by (rewrite !len_app; lia).
  rewrite app_nil_r.
  set (G := take g ((T ++ C) ++ J)).
  assert (HH : len G = g) by (subst G; apply len_take; rewrite !len_app; lia).
  rewrite app_assoc.
  apply ed_bwrite_front. rewrite len_app. lia.
Qed.

Lemma ed_content_empty m :
  len (content_area m) = 0 -> m_opts m = [] /\ m_payload m = [].
Proof.
  unfold content_area. rewrite len_app.
  pose proof (len_nonneg (opts_enc 0 (m_opts m))). pose proof (len_nonneg (payload_area (m_payload m))).
  intros H1. split.
  - destruct (m_opts m) as [|[n v] tl]; [reflexivity|]. cbn [opts_enc] in *.
    rewrite len_app in *. pose proof (ed_opt_enc_pos (n - 0) v). pose proof (len_nonneg (opts_enc n tl)). lia.
  - destruct (m_payload m) as [|x xs]; [reflexivity|]. cbn [payload_area] in *.
    rewrite len_cons in *. pose proof (len_nonneg (x :: xs)). lia.
Qed.

Lemma ed_of_pdu_with_token q t by_ :
  by_ = len (token_area t) - len (token_area (m_token (p_msg q))) ->
  mkEb (m_type (p_msg q)) (m_code (p_msg q)) (m_mid (p_msg q))
       (token_area t ++ content_area (p_msg q)) (len (token_area t)) (len t)
       (last_num (m_opts (p_msg q))) (ed_shift_data (ed_of_pdu q) by_) (p_max q) =
  ed_of_pdu (ed_with_token q t).
Proof.
  intros ->. rewrite ed_shift_data_of_pdu. unfold ed_of_pdu, ed_of_msg, ed_with_token.
  cbn [p_msg p_max m_type m_code m_mid m_token m_opts m_payload eb_buf].
  unfold content_area. cbn [m_opts m_payload]. f_equal.
  destruct (m_payload (p_msg q)); [reflexivity|]. rewrite !len_app. lia.
Qed.

Lemma ed_b_token_refines q t :
  0 <= p_max q ->
  ed_b_token (ed_of_pdu q) t =
  Some (fst (ed_token q t), ed_of_pdu (snd (ed_token q t))).
Proof.
  intros Hmax. unfold ed_b_token, ed_b_token_gen, ed_token.
  set (m := p_msg q). set (T := token_area (m_token m)). set (C := content_area m).
  set (E := token_area t).
  pose proof (len_nonneg T) as HT0. pose proof (len_nonneg C) as HC0. pose proof (len_nonneg E) as HE0.
  assert (Hused : ed_used (ed_of_pdu q) = len T + len C) by (apply ed_used_of_pdu).
  assert (Hbuf : eb_buf (ed_of_pdu q) = T ++ C) by reflexivity.
  assert (HnlE : len t + ed_bias (len t) = len E) by (symmetry; apply ed_token_area_len).
  assert (Hres : forall by_, by_ = len E - len T ->
    mkEb (eb_type (ed_of_pdu q)) (eb_code (ed_of_pdu q)) (eb_mid (ed_of_pdu q)) (E ++ C)
         (len E) (len t) (eb_maxopt (ed_of_pdu q)) (ed_shift_data (ed_of_pdu q) by_)
         (eb_max (ed_of_pdu q)) = ed_of_pdu (ed_with_token q t)).
  { intros by_ Hby. apply ed_of_pdu_with_token. exact Hby. }
  destruct (ed_used (ed_of_pdu q) =? 0) eqn:Eu.
  - (* coap_add_token on an empty PDU *)
    assert (HT : len T = 0) by lia. assert (HC : len C = 0) by lia.
    destruct (ed_content_empty m HC) as [Hno Hnp].
    unfold ed_b_add_token. rewrite Eu. cbn [negb].
    destruct (65804 <? len t) eqn:El; [reflexivity|].
    rewrite HnlE. rewrite ed_fits_of_pdu.
    fold T. fold E. unfold used. fold m T C.
    replace (len T + len C + (len E - len T)) with (len E) by lia.
    assert (Hfit : (len E - len T <=? 0) || fits q (len E) = fits q (len E)).
    { destruct (len E - len T <=? 0) eqn:E0; [|reflexivity].
      unfold fits. assert (len E = 0) by lia. lia. }
    rewrite Hfit. destruct (fits q (len E)) eqn:Ef; cbn [negb fst snd]; [|reflexivity].
    unfold ed_grow. cbn [app].
    rewrite <- (app_nil_r (repeat ed_junk (Z.to_nat (len E)))).
    rewrite ed_bwrite_front by (rewrite ed_len_repeat; lia).
    f_equal. f_equal. rewrite <- (Hres (len E - len T) eq_refl).
    assert (HCn : C = []) by (destruct C; [reflexivity|rewrite len_cons in HC; pose proof (len_nonneg C); lia]).
    rewrite HCn. f_equal.
    * rewrite ed_maxopt_of_pdu. fold m. rewrite Hno. reflexivity.
    * rewrite ed_shift_data_of_pdu. fold m. rewrite Hnp. reflexivity.
  - destruct (65804 <? len t) eqn:El; [reflexivity|].
    rewrite HnlE. change (eb_etl (ed_of_pdu q)) with (len T).
    rewrite ed_fits_of_pdu, Hused. fold T E. unfold used. fold m T C.
    destruct (len E =? len T) eqn:E1.
    + (* same size: only the token bytes change *)
      replace (len E - len T <=? 0) with true by lia. cbn [orb fst snd].
      rewrite Hbuf. rewrite ed_bwrite_front by lia. f_equal. f_equal.
      apply Hres. lia.
    + destruct (len T <? len E) eqn:E2.
      * (* the token area grows: everything moves up *)
        replace (len E - len T <=? 0) with false by lia. cbn [orb].
        replace (len T + len C + len E - len T) with (len T + len C + (len E - len T)) by lia.
        destruct (fits q (len T + len C + (len E - len T))) eqn:Ef; cbn [negb fst snd];
          [|reflexivity].
        unfold ed_grow. rewrite Hbuf.
        set (J := repeat ed_junk (Z.to_nat (len E - len T))).
        assert (HJ : len J = len E - len T) by (subst J; rewrite ed_len_repeat; lia).
        destruct (ed_token_grow_bytes T C J E (len E - len T) HJ ltac:(lia) ltac:(lia))
          as (M & HM & HW).
        rewrite len_app in HM. rewrite HM, HW. f_equal. f_equal. apply Hres. reflexivity.
      * (* the token area shrinks: everything moves down *)
        replace (len E - len T <=? 0) with true by lia. cbn [orb fst snd].
        rewrite Hbuf. unfold ed_memmove. rewrite len_app.
        replace ((0 <=? 0) && (0 <=? len T - len E) &&
                 (0 <=? len T + len C - (len T - len E)) &&
                 (0 + (len T + len C - (len T - len E)) <=? len T + len C) &&
                 (len T - len E + (len T + len C - (len T - len E)) <=? len T + len C))
          with true by lia.
        rewrite ed_take_0. cbn [app].
        assert (Hd : drop (len T - len E) (T ++ C) = drop (len T - len E) T ++ C)
          by (apply ed_drop_app_le; lia).
        assert (Hdl : len (drop (len T - len E) T) = len E)
          by (rewrite len_drop by lia; lia).
        rewrite Hd.
        rewrite (ed_take_all (len T + len C - (len T - len E)) (drop (len T - len E) T ++ C))
          by (rewrite len_app; lia).
        rewrite ed_take_app_le by (rewrite len_app; lia).
        rewrite ed_take_all by (rewrite len_app; lia).
        rewrite ed_bwrite_front by lia. f_equal. f_equal. apply Hres. lia.
Qed.

(* ---- all edits, edit lists ---- *)

Definition ed_pwf (q : pdu) : Prop := ed_mwf (p_msg q) /\ 0 <= p_max q.

Theorem ed_b_apply_refines q e :
  ed_pwf q -> ed_op_ok e ->
  ed_b_apply (ed_of_pdu q) e = Some (fst (ed_apply q e), ed_of_pdu (snd (ed_apply q e))).
Proof.
  intros [W Hm] He. destruct e as [n v|n v|n|t]; cbn [ed_b_apply ed_apply ed_op_ok] in *.
  - apply ed_b_insert_refines; tauto.
  - apply ed_b_update_refines; tauto.
  - apply ed_b_remove_refines; [assumption|lia].
  - apply ed_b_token_refines; assumption.
Qed.

Theorem ed_pwf_apply q e : ed_pwf q -> ed_op_ok e -> ed_pwf (snd (ed_apply q e)).
Proof.
  intros [W Hm] He. split; [apply ed_mwf_apply; assumption|].
  pose proof (ed_apply_keeps q e) as K. cbv zeta in K. destruct K as (_ & _ & _ & _ & K & _).
  rewrite K. assumption.
Qed.

Theorem ed_b_run_refines es : forall q,
  ed_pwf q -> Forall ed_op_ok es ->
  ed_b_run (ed_of_pdu q) es = Some (fst (ed_run q es), ed_of_pdu (snd (ed_run q es))).
Proof.
  induction es as [|e tl IH]; intros q W Hes; [reflexivity|].
  inversion Hes as [|? ? He Htl]; subst. cbn [ed_b_run ed_run].
  rewrite (ed_b_apply_refines q e W He). cbn [fst snd].
  pose proof (ed_pwf_apply q e W He) as W1.
  destruct (ed_apply q e) as [r q1]. cbn [fst snd] in *.
  rewrite (IH q1 W1 Htl). destruct (ed_run q1 tl) as [rs q2]. reflexivity.
Qed.

Theorem ed_pwf_run es : forall q,
  ed_pwf q -> Forall ed_op_ok es -> ed_pwf (snd (ed_run q es)).
Proof.
  induction es as [|e tl IH]; intros q W Hes; [assumption|].
  inversion Hes as [|? ? He Htl]; subst. cbn [ed_run].
  pose proof (ed_pwf_apply q e W He) as W1.
  destruct (ed_apply q e) as [r q1]. cbn [snd] in W1.
  specialize (IH q1 W1 Htl). destruct (ed_run q1 tl) as [rs q2]. exact IH.
Qed.

(* ---- the accessors read the abstract message back ---- *)

Lemma ed_b_tok_of_pdu q :
  len (m_token (p_msg q)) <= 65804 -> ed_b_tok (ed_of_pdu q) = m_token (p_msg q).
Proof.
  intros H. unfold ed_b_tok. cbn [ed_of_pdu ed_of_msg eb_tlen eb_buf].
  set (t := m_token (p_msg q)) in *. pose proof (len_nonneg t).
  unfold token_area, ed_bias.
  destruct (len t <? 13) eqn:E1.
  - rewrite ed_drop_0. apply take_app_exact.
  - destruct (len t <? 269) eqn:E2.
    + cbn [app]. change (drop 1 (len t - 13 :: t ++ content_area (p_msg q)))
        with (t ++ content_area (p_msg q)). apply take_app_exact.
    + unfold be16. cbn [app].
      change (drop 2 (((len t - 269) / 256) mod 256 :: (len t - 269) mod 256 :: t ++ content_area (p_msg q)))
        with (t ++ content_area (p_msg q)). apply take_app_exact.
Qed.

Lemma ed_b_payload_of_pdu q : ed_b_payload (ed_of_pdu q) = m_payload (p_msg q).
Proof.
  unfold ed_b_payload. pose proof (ed_shift_data_of_pdu q 0) as H.
  unfold ed_shift_data in H. destruct (eb_data (ed_of_pdu q) =? 0) eqn:E.
  - destruct (m_payload (p_msg q)) as [|x xs] eqn:Ep; [reflexivity|].
    cbn [ed_of_pdu ed_of_msg eb_data eb_buf] in E. rewrite Ep in E.
    rewrite len_app in E. unfold content_area in E. rewrite Ep in E. cbn [payload_area] in E.
    rewrite len_app, len_cons in E.
    pose proof (len_nonneg (token_area (m_token (p_msg q)))).
    pose proof (len_nonneg (opts_enc 0 (m_opts (p_msg q)))). lia.
  - destruct (m_payload (p_msg q)) as [|x xs] eqn:Ep.
    + cbn [ed_of_pdu ed_of_msg eb_data] in E. rewrite Ep in E. discriminate.
    + replace (eb_data (ed_of_pdu q)) with (eb_data (ed_of_pdu q) + 0) by lia. rewrite H.
      rewrite ed_buf_of_pdu, Ep. cbn [payload_area].
      set (A := token_area (m_token (p_msg q)) ++ opts_enc 0 (m_opts (p_msg q)) ++ [PAYLOAD_START]).
      replace (token_area (m_token (p_msg q)) ++ opts_enc 0 (m_opts (p_msg q)) ++ PAYLOAD_START :: x :: xs)
        with (A ++ x :: xs) by (subst A; rewrite <- !app_assoc; reflexivity).
      rewrite len_app. replace (len A + len (x :: xs) + 0 - len (x :: xs)) with (len A) by lia.
      apply drop_app_exact.
Qed.

Theorem ed_abs_of_pdu q : ed_mwf (p_msg q) -> ed_abs (ed_of_pdu q) = Some (p_msg q).
Proof.
  intros W. unfold ed_abs. rewrite ed_b_opts_of_pdu by assumption.
  rewrite ed_b_tok_of_pdu by (destruct W; assumption). rewrite ed_b_payload_of_pdu.
  destruct q as [[ty co mi tk os pl] mx]. reflexivity.
Qed.

(* C04 - the transcription of coap_update_token as pinned (e_token_length stored through an 8-bit
   cast, [ed_b_token_cast8]) does not refine the specification: witness by computation. *)
From LibcoapV Require Import Base.Tactics Base.Bytes Wire.OptCodec Wire.Pdu Wire.Build
  Edit.EdSpec Edit.EdBytes.
Local Open Scope Z_scope.

Definition ed_wit_pdu : pdu :=
  mkPdu (mkMsg 0 1 7 [1; 2] [(11, [97; 98]); (60, [1])] [255; 0]) 0.
Definition ed_wit_token : bytes := repeat 7 255.

(* what the accessors show after the update is not the message with the token replaced *)
Definition ed_refines_step (f : ed_bpdu -> bytes -> option (bool * ed_bpdu)) (q : pdu) (t : bytes)
  : Prop :=
  match f (ed_of_pdu q) t with
  | Some (r, p') => r = fst (ed_token q t) /\ ed_abs p' = Some (p_msg (snd (ed_token q t)))
  | None => False
  end.

Theorem ed_token_cast8_refuted :
  exists q t, len t <= 65804 /\ ed_abs (ed_of_pdu q) = Some (p_msg q) /\
              ~ ed_refines_step ed_b_token_cast8 q t.
Proof.
  exists ed_wit_pdu, ed_wit_token. split; [vm_compute; discriminate|].
  split; [vm_compute; reflexivity|].
  unfold ed_refines_step. vm_compute. intros [_ H]. discriminate H.
Qed.

(* the same step with e_token_length stored unchanged is fine on this witness (the general
   statement is ed_b_token_refines in EdBytesProofs.v) *)
Example ed_token_fixed_on_witness : ed_refines_step ed_b_token ed_wit_pdu ed_wit_token.
Proof. unfold ed_refines_step. vm_compute. split; reflexivity. Qed.

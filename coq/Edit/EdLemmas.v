(* C04 - list / byte-operation lemmas used by the refinement proofs of Edit/EdBytesProofs.v. *)
From LibcoapV Require Import Base.Tactics Base.Bytes Base.BytesProofs Wire.OptCodec
  Wire.OptCodecProofs Wire.Pdu Wire.PduProofs Wire.Build Edit.EdSpec Edit.EdBytes.
Local Open Scope Z_scope.

(* ---- take / drop with Z indices ---- *)

Lemma ed_take_0 {A} (l : list A) : take 0 l = [].
Proof. reflexivity. Qed.

Lemma ed_drop_0 {A} (l : list A) : drop 0 l = l.
Proof. reflexivity. Qed.

Lemma ed_take_neg {A} n (l : list A) : n <= 0 -> take n l = [].
Proof. intros H. unfold take. replace (Z.to_nat n) with 0%nat by lia. reflexivity. Qed.

Lemma ed_take_all {A} n (l : list A) : len l <= n -> take n l = l.
Proof. unfold take, len. intros H. apply firstn_all2. lia. Qed.

Lemma ed_drop_all {A} n (l : list A) : len l <= n -> drop n l = [].
Proof. unfold drop, len. intros H. apply skipn_all2. lia. Qed.

Lemma ed_take_app {A} n (a b : list A) :
  0 <= n -> take (len a + n) (a ++ b) = a ++ take n b.
Proof.
  intros H. unfold take, len. rewrite firstn_app.
  replace (Z.to_nat (Z.of_nat (length a) + n) - length a)%nat with (Z.to_nat n) by lia.
  rewrite firstn_all2 by lia. reflexivity.
Qed.

Lemma ed_drop_app {A} n (a b : list A) :
  0 <= n -> drop (len a + n) (a ++ b) = drop n b.
Proof.
  intros H. unfold drop, len. rewrite skipn_app.
  replace (Z.to_nat (Z.of_nat (length a) + n) - length a)%nat with (Z.to_nat n) by lia.
  rewrite skipn_all2 by lia. reflexivity.
Qed.

Lemma ed_take_app_le {A} n (a b : list A) : n <= len a -> take n (a ++ b) = take n a.
Proof.
  intros H. unfold take, len in *. rewrite firstn_app.
  replace (Z.to_nat n - length a)%nat with 0%nat by lia. cbn [firstn]. apply app_nil_r.
Qed.

Lemma ed_len_repeat {A} (x : A) n : len (repeat x n) = Z.of_nat n.
Proof. unfold len. rewrite repeat_length. reflexivity. Qed.

Lemma ed_len_grow s extra : 0 <= extra -> len (ed_grow s extra) = len s + extra.
Proof. intros H. unfold ed_grow. rewrite len_app, ed_len_repeat. lia. Qed.

Lemma ed_grow_neg s extra : extra <= 0 -> ed_grow s extra = s.
Proof.
  intros H. unfold ed_grow. replace (Z.to_nat extra) with 0%nat by lia. cbn [repeat].
  apply app_nil_r.
Qed.

(* ---- the move-and-encode step shared by insert / update / append ----
   buffer  P ++ X ++ Y ++ J :  X (b bytes) is overwritten, Y is kept, J (junk) is what
   coap_pdu_check_resize made available; E (a bytes) is encoded at the start of X after Y has
   been moved to start a bytes after P. *)
Lemma ed_gap (P X Y J E : bytes) a b :
  len X = b -> len E = a -> a <= b + len J ->
  exists M W,
    ed_memmove (P ++ X ++ Y ++ J) (len P + a) (len P + b) (len Y) = Some M /\
    ed_bwrite M (len P) E = Some W /\
    take (len P + a + len Y) W = P ++ E ++ Y.
Proof.
  intros HX HE Ha.
  pose proof (len_nonneg P). pose proof (len_nonneg X). pose proof (len_nonneg Y).
  pose proof (len_nonneg J). pose proof (len_nonneg E).
  set (S := P ++ X ++ Y ++ J).
  assert (HS : len S = len P + b + len Y + len J) by (subst S; rewrite !len_app; lia).
  unfold ed_memmove.
  replace ((0 <=? len P + a) && (0 <=? len P + b) && (0 <=? len Y) &&
           (len P + a + len Y <=? len S) && (len P + b + len Y <=? len S)) with true by lia.
  eexists; eexists. split; [reflexivity|].
  assert (Hd : take (len Y) (drop (len P + b) S) = Y).
  { subst S. rewrite ed_drop_app by lia. rewrite <- HX.
    replace (len X) with (len X + 0) by lia. rewrite ed_drop_app by lia. rewrite ed_drop_0.
    apply take_app_exact. }
  rewrite Hd.
  assert (Ht : len (take (len P + a) S) = len P + a) by (apply len_take; lia).
  assert (Htp : take (len P) (take (len P + a) S ++ Y ++ drop (len P + a + len Y) S) = P).
  { rewrite ed_take_app_le by lia. subst S. unfold take. rewrite firstn_firstn.
    replace (Init.Nat.min (Z.to_nat (len P)) (Z.to_nat (len P + a))) with (Z.to_nat (len P)) by lia.
    fold (take (len P) (P ++ X ++ Y ++ J)). apply take_app_exact. }
  unfold ed_bwrite.
  match goal with |- context [?c && ?d] => replace (c && d) with true end.
  2:{ rewrite !len_app, Ht. rewrite len_drop by lia. lia. }
  split; [reflexivity|].
  rewrite Htp.
  assert (Hdr : drop (len P + len E) (take (len P + a) S ++ Y ++ drop (len P + a + len Y) S)
                = Y ++ drop (len P + a + len Y) S).
  { rewrite HE. rewrite <- Ht at 1. replace (len (take (len P + a) S)) with
      (len (take (len P + a) S) + 0) by lia. rewrite ed_drop_app by lia. apply ed_drop_0. }
  rewrite Hdr.
  replace (len P + a + len Y) with (len P + (len E + len Y)) by lia.
  rewrite ed_take_app by lia. f_equal.
  rewrite ed_take_app by lia. f_equal.
  replace (len Y) with (len Y + 0) at 1 by lia. rewrite ed_take_app by lia.
  rewrite ed_take_0. apply app_nil_r.
Qed.

(* the move of coap_remove_option: everything from index [len X] goes to index 0 *)
Lemma ed_move_down (X Y : bytes) :
  exists M, ed_memmove (X ++ Y) 0 (len X) (len Y) = Some M /\ take (len Y) M = Y.
Proof.
  pose proof (len_nonneg X). pose proof (len_nonneg Y).
  unfold ed_memmove. rewrite len_app.
  replace ((0 <=? 0) && (0 <=? len X) && (0 <=? len Y) && (0 + len Y <=? len X + len Y) &&
           (len X + len Y <=? len X + len Y)) with true by lia.
  eexists. split; [reflexivity|].
  rewrite ed_take_0. cbn [app]. rewrite drop_app_exact.
  rewrite (ed_take_all (len Y) Y) by lia.
  replace (len Y) with (len Y + 0) at 1 by lia. rewrite ed_take_app by lia.
  rewrite ed_take_0. apply app_nil_r.
Qed.

(* C01 - wire codec round trip.  Statements only; proofs live in Wire/*Proofs.v. *)
From LibcoapV Require Import Base.Tactics Base.Bytes Wire.OptCodec Wire.OptCodecProofs Wire.Pdu
  Wire.PduProofs.
Local Open Scope Z_scope.

(* every option header/value form round-trips, for every delta and every value length the
   format can carry, whatever follows *)
Theorem C01_opt_roundtrip : forall d v rest,
  0 <= d <= 65535 -> len v <= 65804 ->
  opt_parse (opt_enc d v ++ rest) = Some (d, v, rest).
Proof. exact opt_parse_enc. Qed.
Print Assumptions C01_opt_roundtrip.

(* coap_opt_encode_size is the number of bytes coap_opt_encode writes *)
Theorem C01_encode_size : forall d v, len (opt_enc d v) = opt_encode_size d (len v).
Proof. exact opt_enc_len. Qed.
Print Assumptions C01_encode_size.

(* every well-formed abstract message, on every framing, parses back to itself *)
Theorem C01_serialize_parse : forall p m,
  msg_wf m -> parse p (serialize p m) = Some (norm_fields p m).
Proof. exact parse_serialize. Qed.
Print Assumptions C01_serialize_parse.

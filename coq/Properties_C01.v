(* C01 - wire codec round trip.  Statements only; proofs live in Wire/*Proofs.v. *)
From LibcoapV Require Import Base.Tactics Base.Bytes Wire.OptCodec Wire.OptCodecProofs Wire.Pdu
  Wire.PduProofs Wire.Build Wire.BuildProofs.
From LibcoapV Require Import Wire.InsertBytes Wire.InsertBytesProofs.
Local Open Scope Z_scope.

(* every option header/value form round-trips, for every delta and every value length the
   format can carry, whatever follows *)
Theorem C01_opt_roundtrip : forall d v rest,
  0 <= d <= 65535 -> len v <= 65804 ->
  opt_parse (opt_enc d v ++ rest) = Some (d, v, rest).
Proof. exact opt_parse_enc. Qed.
Print Assumptions C01_opt_roundtrip.

(* coap_opt_encode_size is the number of bytes coap_opt_encode writes *)
Theorem C01_encode_size : forall d v, len (opt_enc d v) = opt_encode_size d (len v).
Proof. exact opt_enc_len. Qed.
Print Assumptions C01_encode_size.

(* every well-formed abstract message, on every framing, parses back to itself *)
Theorem C01_serialize_parse : forall p m,
  msg_wf m -> parse p (serialize p m) = Some (norm_fields p m).
Proof. exact parse_serialize. Qed.
Print Assumptions C01_serialize_parse.

(* ---- the builder API (model Wire/Build.v, run against coap_pdu_init / coap_add_token /
        coap_add_option / coap_add_data on every check) ---- *)

(* an accepted option lands after the last option whose number is <= n: nothing else moves *)
Theorem C01_insert_position : forall n v l,
  exists a b, l = a ++ b /\ insert_opt n v l = a ++ (n, v) :: b /\
              Forall (fun o => fst o <= n) a /\
              match b with [] => True | o :: _ => n < fst o end.
Proof. exact insert_opt_split. Qed.
Print Assumptions C01_insert_position.

(* an operation the API refuses disturbs nothing already present: header fields, token and
   payload unchanged, the options present before all still there with their values in the same
   order (the one possible addition is the implicit Hop-Limit of a Proxy-Uri/Proxy-Scheme add) *)
Theorem C01_refused_is_noop : forall p o,
  fst (apply_op p o) = false ->
  let m := p_msg p in let m' := p_msg (snd (apply_op p o)) in
  same_header m m' /\ m_token m' = m_token m /\ m_payload m' = m_payload m /\
  subseq (m_opts m) (m_opts m') /\
  (m_opts m' = m_opts m \/ m_opts m' = insert_opt 16 [16] (m_opts m)).
Proof. exact refused_is_noop. Qed.
Print Assumptions C01_refused_is_noop.

(* an accepted operation changes only what it names *)
Theorem C01_accepted_changes_only_named : forall p o,
  fst (apply_op p o) = true ->
  let m := p_msg p in let m' := p_msg (snd (apply_op p o)) in
  same_header m m' /\
  match o with
  | OpToken t => m_token m' = t /\ m_opts m' = m_opts m /\ m_payload m' = m_payload m
  | OpOpt n v => m_token m' = m_token m /\ m_payload m' = m_payload m /\
                 subseq (m_opts m) (m_opts m') /\
                 (m_opts m' = insert_opt n v (m_opts m) \/
                  m_opts m' = insert_opt n v (insert_opt 16 [16] (m_opts m)))
  | OpData d => m_token m' = m_token m /\ m_opts m' = m_opts m /\
                (m_payload m' = d \/ (d = [] /\ m_payload m' = m_payload m))
  end.
Proof. exact accepted_changes_only_named. Qed.
Print Assumptions C01_accepted_changes_only_named.

(* options already present survive any further operation list, in order *)
Theorem C01_keeps_options : forall ops p,
  subseq (m_opts (p_msg p)) (m_opts (p_msg (snd (run_ops p ops)))).
Proof. exact run_ops_keeps_options. Qed.
Print Assumptions C01_keeps_options.

(* every message the API can build - any header fields, any operation list in any order,
   any maximum size - round-trips on every framing, provided the values respect the per-option
   limits and a 0.00 message stays empty *)
Theorem C01_built_message_roundtrips : forall pr ty code mid max ops,
  0 <= ty <= 3 -> 0 <= code <= 255 -> 0 <= mid <= 65535 ->
  Forall op_ok ops ->
  let m := p_msg (snd (run_ops (pdu_init ty code mid max) ops)) in
  limits_ok code (m_opts m) = true ->
  (code = 0 -> m_token m = [] /\ m_opts m = [] /\ m_payload m = []) ->
  parse pr (serialize pr m) = Some (norm_fields pr m).
Proof. exact built_message_roundtrips. Qed.
Print Assumptions C01_built_message_roundtrips.

(* for every maximum PDU size the token+option+payload area of what was built stays within it *)
Theorem C01_built_message_within_max : forall ty code mid max ops,
  Forall op_ok ops -> 0 < max ->
  used (p_msg (snd (run_ops (pdu_init ty code mid max) ops))) <= max.
Proof. exact built_message_within_max. Qed.
Print Assumptions C01_built_message_within_max.

(* non-vacuity: out-of-order build, extended token, implicit Hop-Limit, a refused repeat *)
Theorem C01_demo_build :
  let (rs, p) := run_ops (pdu_init 0 1 4660 0) demo_ops in
  rs = [true; true; true; true; true; false; true; true; true] /\
  m_opts (p_msg p) =
    [(11, [97]); (11, [98]); (12, [0]); (16, [16]); (39, [99]); (60, [0]); (60000, [1])] /\
  parse UDP (serialize UDP (p_msg p)) = Some (p_msg p) /\
  parse TCP (serialize TCP (p_msg p)) = Some (norm_fields TCP (p_msg p)) /\
  parse WS (serialize WS (p_msg p)) = Some (norm_fields WS (p_msg p)).
Proof. exact demo_build. Qed.
Print Assumptions C01_demo_build.

(* the out-of-order add at the byte level: coap_insert_option's in-place edit (locate the next
   option, re-encode its delta field in place - the header may shrink by one or two bytes -,
   move the tail, write the new option; Wire/InsertBytes.v, transcribed branch by branch) turns
   the canonical encoding of any ascending well-formed option list holding an option with a
   larger number into the canonical encoding of [insert_opt n v l], and leaves whatever follows
   the options (marker, payload) as it was *)
Theorem C01_insert_bytes_refine : forall n v l tail,
  ascending 0 l -> Forall opt_wf l -> 0 <= n -> Exists (fun o => n < fst o) l ->
  bi_insert (opts_enc 0 l ++ tail) n v = Some (opts_enc 0 (insert_opt n v l) ++ tail).
Proof. exact bi_insert_refines. Qed.
Print Assumptions C01_insert_bytes_refine.

(* the six (old delta, new delta) classes of the header patch *)
Theorem C01_insert_header_patch : forall d_old d_new w rest,
  1 <= d_new -> d_new <= d_old -> d_old <= 65535 ->
  bi_patch (opt_enc d_old w ++ rest) d_old d_new = opt_enc d_new w ++ rest.
Proof. exact bi_patch_enc. Qed.
Print Assumptions C01_insert_header_patch.

Theorem C01_insert_bytes_demo :
  bi_insert (opts_enc 0 [(3, [104]); (65000, [1; 2])] ++ [255; 9]) 11 [97] =
    Some (opts_enc 0 [(3, [104]); (11, [97]); (65000, [1; 2])] ++ [255; 9]) /\
  bi_insert (opts_enc 0 [(300, [7])]) 299 [] = Some (opts_enc 0 [(299, []); (300, [7])]) /\
  bi_insert (opts_enc 0 [(300, [7])]) 40 [5] = Some (opts_enc 0 [(40, [5]); (300, [7])]) /\
  bi_insert (opts_enc 0 [(20, [7])]) 12 [5] = Some (opts_enc 0 [(12, [5]); (20, [7])]).
Proof. exact bi_insert_demo. Qed.
Print Assumptions C01_insert_bytes_demo.

(* C13 - advertised thread safety: concurrent API use is serialised and never deadlocks.
   Statements only; the model is Lock/LockModel.v, the proofs are in Lock/LockProofs.v.

   lk_gen_cfg (Gen/LockConfig.v) is regenerated from the source tree and its build
   configuration on every run: what the lock macros expand to, whether the lock functions are
   compiled in, what coap_threadsafe_is_supported() returns, whether every COAP_API function and
   every application-callback invocation follows the discipline.  All theorems below are about
   that regenerated configuration, for ANY number of threads running ANY programs
   (sequences of API calls whose bodies touch library state and invoke callbacks of the four
   macro kinds and the I/O wait, the callbacks calling the API again, to any depth). *)
From LibcoapV Require Import Base.Tactics Lock.LockModel Lock.LockProofs Lock.LockBounds
  Gen.LockConfig.
Local Open Scope Z_scope.

(* the configuration found in the tree follows the discipline: locking compiled in, reported as
   such, every macro balanced, wrappers and call sites fine.  By computation: a source change
   that breaks the balance breaks this proof. *)
Theorem C13_config_ok : lk_cfg_wf lk_gen_cfg = true.
Proof. reflexivity. Qed.
Print Assumptions C13_config_ok.

(* "when coap_threadsafe_is_supported() reports support": it reports exactly what is compiled *)
Theorem C13_claim_consistent : lk_reports lk_gen_cfg = lk_compiled lk_gen_cfg.
Proof. reflexivity. Qed.
Print Assumptions C13_claim_consistent.

(* the same tree with COAP_THREAD_RECURSIVE_CHECK=1 (enabled by default by the autoconf build,
   off in the cmake build): the other variant of every lock macro follows the discipline too ... *)
Theorem C13_config_ok_recursive_check : lk_cfg_wf lk_gen_cfg_rc = true.
Proof. reflexivity. Qed.
Print Assumptions C13_config_ok_recursive_check.

(* ... and its variant of coap_lock_lock_func (trylock first) takes, in every reachable state and
   for every caller, the decision of the variant the theorems below are stated for *)
Theorem C13_recursive_check_same_decisions : forall (progs : list (list lk_op)),
  Forall (fun p => lk_wfprog p = true) progs -> forall s t,
  lk_reach (lk_init progs) s -> lk_lock_func_rc t (lk_l s) = lk_lock_func t (lk_l s).
Proof. exact lk_rc_same_reachable. Qed.
Print Assumptions C13_recursive_check_same_decisions.

(* the configuration produced by the repository's second build system (./autogen.sh &&
   ./configure with its defaults: thread safety and the recursive-lock check both on) *)
Theorem C13_config_ok_autoconf : lk_cfg_wf lk_gen_cfg_autoconf = true.
Proof. reflexivity. Qed.
Print Assumptions C13_config_ok_autoconf.

Theorem C13_claim_consistent_all_configurations :
  lk_reports lk_gen_cfg_rc = lk_compiled lk_gen_cfg_rc /\
  lk_reports lk_gen_cfg_autoconf = lk_compiled lk_gen_cfg_autoconf /\
  lk_flat lk_gen_cfg_rc = lk_flat lk_gen_cfg /\ lk_flat lk_gen_cfg_autoconf = lk_flat lk_gen_cfg.
Proof. repeat split; reflexivity. Qed.
Print Assumptions C13_claim_consistent_all_configurations.

(* library state is accessed by one thread at a time *)
Theorem C13_mutex : forall (progs : list lk_calls) s i j,
  lk_reach (lk_init (map (lk_flat lk_gen_cfg) progs)) s ->
  lk_accessing s i -> lk_accessing s j -> i = j.
Proof. exact (lk_cfg_mutex lk_gen_cfg C13_config_ok). Qed.
Print Assumptions C13_mutex.

(* ... and that thread is the one recorded as the owner of the held mutex *)
Theorem C13_access_owns : forall (progs : list lk_calls) s i,
  lk_reach (lk_init (map (lk_flat lk_gen_cfg) progs)) s -> lk_accessing s i ->
  lk_held (lk_l s) = true /\ lk_pid (lk_l s) = lk_tid i.
Proof. exact (lk_cfg_access_owns lk_gen_cfg C13_config_ok). Qed.
Print Assumptions C13_access_owns.

(* a callback may re-enter the public API: the thread that owns the mutex is never refused,
   whatever its next instruction is (a nested coap_lock_lock_func in particular), and it always
   has a next instruction *)
Theorem C13_reentry : forall (progs : list lk_calls) s i,
  lk_reach (lk_init (map (lk_flat lk_gen_cfg) progs)) s ->
  lk_held (lk_l s) = true -> lk_pid (lk_l s) = lk_tid i ->
  exists s', lk_step i s = Some s'.
Proof. exact (lk_cfg_reentry lk_gen_cfg C13_config_ok). Qed.
Print Assumptions C13_reentry.

(* after a top-level API call has returned (the thread's remaining program is a sequence of
   complete calls) the thread does not own the lock; whenever the mutex is free, and whenever
   all threads have returned, global_lock = {unlocked, pid 0, in_callback 0, lock_count 0} *)
Theorem C13_released : forall (progs : list lk_calls) s,
  lk_reach (lk_init (map (lk_flat lk_gen_cfg) progs)) s ->
  (forall i rest, nth_error (lk_thr s) i = Some (lk_flat lk_gen_cfg rest) ->
                  lk_pid (lk_l s) <> lk_tid i) /\
  (lk_held (lk_l s) = false -> lk_l s = lk_lock0) /\
  (lk_all_doneb s = true -> lk_l s = lk_lock0).
Proof. exact (lk_cfg_released lk_gen_cfg C13_config_ok). Qed.
Print Assumptions C13_released.

(* no deadlock: in every reachable state in which some thread has not returned, some thread can
   move (programs are finite: callbacks and waits terminate) *)
Theorem C13_no_deadlock : forall (progs : list lk_calls) s,
  lk_reach (lk_init (map (lk_flat lk_gen_cfg) progs)) s -> lk_all_doneb s = false ->
  exists i s', lk_step i s = Some s'.
Proof. exact (lk_cfg_no_deadlock lk_gen_cfg C13_config_ok). Qed.
Print Assumptions C13_no_deadlock.

(* every call completes: each step consumes one instruction (executions are bounded by the
   program size), and from every reachable state all threads can run to completion, leaving the
   lock in its initial state; with C13_no_deadlock, every maximal execution does *)
Theorem C13_completes : forall (progs : list lk_calls) s,
  lk_reach (lk_init (map (lk_flat lk_gen_cfg) progs)) s ->
  (lk_total s <= lk_total (lk_init (map (lk_flat lk_gen_cfg) progs)))%nat /\
  exists sched,
    lk_reach (lk_init (map (lk_flat lk_gen_cfg) progs)) (lk_run sched s) /\
    lk_all_doneb (lk_run sched s) = true /\ lk_l (lk_run sched s) = lk_lock0.
Proof. exact (lk_cfg_completes lk_gen_cfg C13_config_ok). Qed.
Print Assumptions C13_completes.

(* every maximal execution ends with all calls completed and the lock released: a state in
   which no thread can move is a state in which all threads have returned *)
Theorem C13_quiescent_is_done : forall (progs : list (list lk_op)),
  Forall (fun p => lk_wfprog p = true) progs -> forall s,
  lk_reach (lk_init progs) s -> (forall i, lk_step i s = None) ->
  lk_all_doneb s = true /\ lk_l s = lk_lock0.
Proof. exact lk_quiescent_is_done. Qed.
Print Assumptions C13_quiescent_is_done.

(* "no thread blocks forever once the others return" *)
Theorem C13_last_thread_runs : forall (progs : list lk_calls) s i o rest,
  lk_reach (lk_init (map (lk_flat lk_gen_cfg) progs)) s ->
  nth_error (lk_thr s) i = Some (o :: rest) ->
  (forall j, j <> i -> nth_error (lk_thr s) j = Some [] \/ nth_error (lk_thr s) j = None) ->
  exists s', lk_step i s = Some s'.
Proof. exact (lk_cfg_last_thread_runs lk_gen_cfg C13_config_ok). Qed.
Print Assumptions C13_last_thread_runs.

(* in_callback and lock_count never go below zero (the unsigned C counters do not wrap) and
   lock_count is zero whenever in_callback is *)
Theorem C13_counters : forall (progs : list lk_calls) s,
  lk_reach (lk_init (map (lk_flat lk_gen_cfg) progs)) s ->
  0 <= lk_incb (lk_l s) /\ 0 <= lk_cnt (lk_l s) /\ (lk_incb (lk_l s) = 0 -> lk_cnt (lk_l s) = 0).
Proof. exact (lk_cfg_counters lk_gen_cfg C13_config_ok). Qed.
Print Assumptions C13_counters.

(* ... and never exceed the frame-stack height the programs need (one frame per nested call,
   callback and access): the uint32_t counters of the C code hold the model's values for every
   program nested less than 2^31 deep *)
Theorem C13_counters_bounded : forall (progs : list lk_calls) D s,
  0 <= D -> Forall (fun p => lk_height p <= D) progs ->
  lk_reach (lk_init (map (lk_flat lk_gen_cfg) progs)) s ->
  0 <= lk_incb (lk_l s) <= D /\ 0 <= lk_cnt (lk_l s) <= D.
Proof. exact (lk_cfg_counters_bounded lk_gen_cfg C13_config_ok). Qed.
Print Assumptions C13_counters_bounded.

(* the same for arbitrary instruction streams that pass the bracket checker lk_wfprog (more
   general than the streams of structured programs) *)
Theorem C13_mutex_any_wellformed_stream : forall (progs : list (list lk_op)),
  Forall (fun p => lk_wfprog p = true) progs -> forall s i j,
  lk_reach (lk_init progs) s -> lk_accessing s i -> lk_accessing s j -> i = j.
Proof. exact lk_mutex. Qed.
Print Assumptions C13_mutex_any_wellformed_stream.

Theorem C13_no_deadlock_any_wellformed_stream : forall (progs : list (list lk_op)),
  Forall (fun p => lk_wfprog p = true) progs -> forall s,
  lk_reach (lk_init progs) s -> lk_all_doneb s = false -> exists i s', lk_step i s = Some s'.
Proof. exact lk_progress. Qed.
Print Assumptions C13_no_deadlock_any_wellformed_stream.

(* the unlocked read in coap_lock_lock_func (known finding C13-F3): thread i evaluates
   "global_lock.in_callback && coap_thread_pid == global_lock.pid" before it has the mutex.
   Whatever the other threads do between its read of in_callback (state s1), its read of pid
   (state s2) and the moment it acts, the outcome is the one of the atomic test in s; if the test
   is true (i is the re-entering owner) no other thread can move at all. *)
Theorem C13_racy_read_safe : forall (progs : list (list lk_op)),
  Forall (fun p => lk_wfprog p = true) progs -> forall s s1 s2 i,
  lk_reach (lk_init progs) s -> lk_others i s s1 -> lk_others i s1 s2 ->
  lk_reentry_test i s1 s2 = lk_reentry_test i s s /\
  lk_reentry_test i s2 s2 = lk_reentry_test i s s /\
  (lk_reentry_test i s s = true -> s1 = s /\ s2 = s).
Proof. exact lk_racy_read_safe. Qed.
Print Assumptions C13_racy_read_safe.

(* while a thread owns the mutex, no other thread can take any step *)
Theorem C13_owner_excludes : forall (progs : list (list lk_op)),
  Forall (fun p => lk_wfprog p = true) progs -> forall s i j,
  lk_reach (lk_init progs) s -> lk_pid (lk_l s) = lk_tid i -> j <> i -> lk_step j s = None.
Proof. exact lk_owner_excludes. Qed.
Print Assumptions C13_owner_excludes.

(* the two defects that were in the tree (fixed by /repo commits 0dc3221 and b19334a): with the
   old macro / the old build switch the faithful model violates the property; the witnesses are
   two-thread schedules, kept in corpus/C13 and replayed on the real code on every run *)
Theorem C13_released_refuted_double_increment :
  exists progs sched,
    let s := lk_run sched (lk_init (map (lk_flat lk_cfg_double_inc) progs)) in
    nth_error (lk_thr s) 0 = Some [] /\ lk_held (lk_l s) = true /\
    lk_stuckb s = true /\ lk_verdict s = 2.
Proof. exact lk_double_inc_refuted. Qed.
Print Assumptions C13_released_refuted_double_increment.

Theorem C13_mutex_refuted_cmake_on :
  lk_reports lk_cfg_cmake_on = true /\
  exists progs sched,
    let s := lk_run sched (lk_init (map (lk_flat lk_cfg_cmake_on) progs)) in
    lk_accessingb s 0 = true /\ lk_accessingb s 1 = true /\ lk_verdict s = 1.
Proof. exact lk_cmake_on_refuted. Qed.
Print Assumptions C13_mutex_refuted_cmake_on.

(* both old configurations fail the well-formedness test, the canonical one passes *)
Theorem C13_wf_test_discriminates :
  lk_cfg_wf lk_cfg_double_inc = false /\ lk_cfg_wf lk_cfg_cmake_on = false /\
  lk_cfg_wf lk_canon = true.
Proof. exact lk_historical_cfgs_rejected. Qed.
Print Assumptions C13_wf_test_discriminates.

(* non-vacuity: a reachable state of three threads with a thread two callbacks deep
   (in_callback = 2, lock_count = 2) inside an access, a second thread waiting for the lock, the
   third in the I/O wait *)
Theorem C13_nonvacuous :
  let progs := [lk_ex_nested; lk_ex_work; lk_ex_io] in
  lk_cfg_wf lk_canon = true /\
  exists sched,
    let s := lk_run sched (lk_init (map (lk_flat lk_canon) progs)) in
    lk_reach (lk_init (map (lk_flat lk_canon) progs)) s /\
    lk_l s = lk_mk (lk_tid 0) 2 2 /\ lk_accessingb s 0 = true /\
    lk_enabledb s 1 = false /\ lk_enabledb s 0 = true /\ lk_verdict s = 0.
Proof. exact lk_nonvacuous. Qed.
Print Assumptions C13_nonvacuous.

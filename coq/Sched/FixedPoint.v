(* C06 - the Q.6 fixed-point computation of the initial retransmission timeout.
   Transcription of coap_calc_timeout() and of the macros Q / ACK_TIMEOUT / ACK_RANDOM_FACTOR /
   FP1 / SHR_FP of src/coap_net.c, with C's integer types made explicit (as repaired by the
   /repo ca7875d):
     Q(frac, v)   = (uint32_t)((1<<frac)*v.integer_part + ((1<<frac)*v.fractional_part + 500)/1000)
     step 1 (u64) : ((uint64_t)(ARF - FP1) * r + (1 << 7)) >> 8      (ARF - FP1 in uint32_t)
     step 2 (u64) : ((result + FP1) * AT + (1 << 5)) >> 6
     step 3 (u64) : (COAP_TICKS_PER_SECOND * result + (1 << 5)) >> 6
     return         result > UINT_MAX ? UINT_MAX : (unsigned int)result
   and of the function as it was before (uint16_t Q values, unsigned int steps): fp_calc_timeout_old.
   Definitions only. *)
From Coq Require Import ZArith List.
Import ListNotations.
Local Open Scope Z_scope.

Definition fp_frac_bits : Z := 6.        (* FRAC_BITS *)
Definition fp_max_bits : Z := 8.         (* MAX_BITS  *)
Definition fp_one : Z := 64.             (* FP1 = Q(FRAC_BITS, {1,0}) = 1 << FRAC_BITS *)
Definition fp_tps : Z := 1000.           (* COAP_TICKS_PER_SECOND on POSIX: one tick = 1 ms *)

Definition fp_u16 (x : Z) : Z := x mod 65536.
Definition fp_u32 (x : Z) : Z := x mod 4294967296.
Definition fp_u64 (x : Z) : Z := x mod 18446744073709551616.
Definition fp_uint_max : Z := 4294967295.

(* Q(FRAC_BITS, {ip, fp}) before the cast, and with it *)
Definition fp_Qraw (ip fp : Z) : Z := fp_one * ip + (fp_one * fp + 500) / 1000.
Definition fp_Q (ip fp : Z) : Z := fp_u32 (fp_Qraw ip fp).
Definition fp_Q_old (ip fp : Z) : Z := fp_u16 (fp_Qraw ip fp).

(* SHR_FP(val, frac) for frac = 8 and 6: add half, shift right (floor division; on the signed
   int of step 1 gcc's >> is arithmetic, i.e. floor as well) *)
Definition fp_shr8 (v : Z) : Z := (v + 128) / 256.
Definition fp_shr6 (v : Z) : Z := (v + 32) / 64.

(* coap_calc_timeout(session, r) as a function of the two Q.6 values *)
Definition fp_calc_q (AT ARF r : Z) : Z :=
  let r1 := fp_u64 (fp_u64 (fp_u32 (ARF - fp_one) * r) + 128) / 256 in
  let r2 := fp_u64 (fp_u64 (fp_u64 (r1 + fp_one) * AT) + 32) / 64 in
  let r3 := fp_u64 (fp_u64 (fp_tps * r2) + 32) / 64 in
  if fp_uint_max <? r3 then fp_uint_max else r3.

(* the function before the repair: int / unsigned int / uint64 steps on uint16_t Q values *)
Definition fp_calc_q_old (AT ARF r : Z) : Z :=
  let r1 := fp_u32 (fp_shr8 ((ARF - fp_one) * r)) in
  let r2 := fp_u32 (fp_u32 (fp_u32 (r1 + fp_one) * AT) + 32) / 64 in
  fp_u32 (fp_shr6 (fp_tps * r2)).
Definition fp_calc_timeout_old (at_ip at_fp arf_ip arf_fp r : Z) : Z :=
  fp_calc_q_old (fp_Q_old at_ip at_fp) (fp_Q_old arf_ip arf_fp) r.

(* ... and of the session settings {integer_part, fractional_part} of ack_timeout and
   ack_random_factor *)
Definition fp_calc_timeout (at_ip at_fp arf_ip arf_fp r : Z) : Z :=
  fp_calc_q (fp_Q at_ip at_fp) (fp_Q arf_ip arf_fp) r.

(* the two ends of the range in ticks, for Q.6 values A (timeout) and F (factor):
   A seconds -> ticks, rounded to nearest; (A*F) rounded to Q.6, then to ticks *)
Definition fp_ticks (q : Z) : Z := fp_shr6 (fp_tps * q).
Definition fp_mulq (a b : Z) : Z := fp_shr6 (a * b).
Definition fp_lo (A : Z) : Z := fp_ticks A.
Definition fp_hi (A F : Z) : Z := fp_ticks (fp_mulq F A).

(* a setting as the setters accept it: uint16_t integer_part > 0, fractional_part < 1000 *)
Definition fp_setting_ok (ip fp : Z) : Prop :=
  1 <= ip < 65536 /\ 0 <= fp < 1000.
Definition fp_setting_okb (ip fp : Z) : bool :=
  (1 <=? ip) && (ip <? 65536) && (0 <=? fp) && (fp <? 1000).

(* the setting in milliseconds (= ticks) *)
Definition fp_ms (ip fp : Z) : Z := 1000 * ip + fp.

(* row of all 256 random bytes, for the exhaustive leaf sweep *)
Fixpoint fp_row_go (n : nat) (AT ARF r : Z) : list Z :=
  match n with
  | O => []
  | S k => fp_calc_q AT ARF r :: fp_row_go k AT ARF (r + 1)
  end.
Definition fp_calc_row (at_ip at_fp arf_ip arf_fp : Z) : list Z :=
  fp_row_go 256 (fp_Q at_ip at_fp) (fp_Q arf_ip arf_fp) 0.

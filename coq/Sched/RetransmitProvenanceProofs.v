(* C06 - provenance (proofs): every datagram the machine transmits is the unchanged byte string of
   a message that was submitted, on the session it was submitted on, and the timeout T it is
   scheduled with is coap_calc_timeout of THAT session's settings and the one random byte drawn
   at submission.  With fp_timeout_range this puts every T of every trace into
   [ACK_TIMEOUT, ACK_TIMEOUT * ACK_RANDOM_FACTOR] of its session. *)
From LibcoapV Require Import Base.Tactics Sched.FixedPoint Sched.FixedPointProofs Sched.SendQueue
  Sched.SendQueueProofs Sched.Retransmit Sched.RetransmitProofs.
From Coq Require Import Sorting.Permutation.
Local Open Scope Z_scope.

Definition rt_cfg_T (cfg : rt_cfg) (r : Z) : Z :=
  fp_calc_timeout (rc_at_ip cfg) (rc_at_fp cfg) (rc_arf_ip cfg) (rc_arf_fp cfg) r.

(* node n stems from a submission among the events E *)
Definition rt_node_from (E : list rt_event) (n : sq_node) : Prop :=
  exists cfg r, In (RtSend (qn_sess n) (qn_mid n) (qn_bytes n) cfg r) E /\
                qn_timeout n = rt_cfg_T cfg r /\ qn_max n = rc_max cfg.

Definition rt_out_from (E : list rt_event) (o : rt_out) : Prop :=
  match o with
  | RoTx _ _ s b _ T => exists m cfg r, In (RtSend s m b cfg r) E /\ T = rt_cfg_T cfg r
  | RoNack _ _ s _ m _ mx => exists b cfg r, In (RtSend s m b cfg r) E /\ mx = rc_max cfg
  | _ => True
  end.

Lemma rt_node_from_mono : forall E E' n, (forall e, In e E -> In e E') -> rt_node_from E n -> rt_node_from E' n.
Proof. intros E E' n Sub (cfg & r & I & A & B). exists cfg, r. auto. Qed.

Lemma rt_out_from_mono : forall E E' o, (forall e, In e E -> In e E') -> rt_out_from E o -> rt_out_from E' o.
Proof.
  intros E E' o Sub H. destruct o; cbn in *; auto.
  - destruct H as (m & cfg & r & I & A). exists m, cfg, r. auto.
  - destruct H as (b & cfg & r & I & A). exists b, cfg, r. auto.
Qed.

Definition rt_pinv (E : list rt_event) (st : rt_state) : Prop :=
  Forall (rt_node_from E) (rt_nodes (rs_q st)) /\ Forall (rt_node_from E) (rt_held (rs_sess st)).

Lemma rt_node_from_bump : forall E n c, rt_node_from E n -> rt_node_from E (rt_bump_node n c).
Proof. intros E n c (cfg & r & I & A & B). exists cfg, r. cbn [rt_bump_node qn_sess qn_mid qn_bytes qn_timeout qn_max]. auto. Qed.

Lemma rt_enqueue_pinv : forall E st n d, rt_pinv E st -> rt_node_from E n -> rt_pinv E (rt_enqueue st n d).
Proof.
  intros E st n d (P & H) Hn. destruct (rt_enqueue_nodes st n d) as (Pm & _ & _ & S). split.
  - eapply Permutation_Forall; [apply Permutation_sym; exact Pm|]. constructor; assumption.
  - rewrite S. exact H.
Qed.

Lemma rt_release_go_pinv : forall E dq st ns ca,
  Forall (rt_node_from E) (rt_nodes (rs_q st)) -> Forall (rt_node_from E) dq ->
  match rt_release_go st ns ca dq with
  | (st2, ca2, dq2, o) =>
      Forall (rt_node_from E) (rt_nodes (rs_q st2)) /\ Forall (rt_node_from E) dq2 /\
      Forall (rt_out_from E) o /\ rs_sess st2 = rs_sess st
  end.
Proof.
  intros E. induction dq as [|n dq IH]; intros st ns ca P H; cbn [rt_release_go].
  - repeat split; auto.
  - destruct (ns <=? ca); [repeat split; auto|].
    inversion H as [|? ? Hn H']; subst.
    set (c := qn_cnt n + 1). set (st1 := rt_enqueue st (rt_bump_node n c) (qn_timeout n * 2 ^ c)).
    destruct (rt_enqueue_nodes st (rt_bump_node n c) (qn_timeout n * 2 ^ c)) as (Pm & _ & _ & S). fold st1 in Pm, S.
    assert (P1 : Forall (rt_node_from E) (rt_nodes (rs_q st1))).
    { eapply Permutation_Forall; [apply Permutation_sym; exact Pm|]. constructor; [apply rt_node_from_bump; exact Hn|exact P]. }
    specialize (IH st1 ns (ca + 1) P1 H'). destruct (rt_release_go st1 ns (ca + 1) dq) as [[[st2 ca2] dq2] o2].
    destruct IH as (P2 & H2 & O2 & S2). split; [exact P2|]. split; [exact H2|]. split; [|congruence].
    constructor; [|exact O2]. destruct Hn as (cfg & r & I & A & B). cbn. exists (qn_mid n), cfg, r. auto.
Qed.

Lemma rt_pinv_held_split : forall E st s, rt_pinv E st ->
  exists rest, Forall (rt_node_from E) (si_hold (rt_sget s (rs_sess st))) /\ Forall (rt_node_from E) rest /\
    forall e, Permutation (rt_held (rt_sset s e (rs_sess st))) (si_hold e ++ rest).
Proof.
  intros E st s (_ & H). destruct (rt_held_get_set s (rs_sess st)) as (rest & P1 & P2).
  exists rest. eapply Permutation_Forall in H; [|exact P1]. apply Forall_app in H. destruct H. auto.
Qed.

Lemma rt_release_pinv : forall E st s, rt_pinv E st ->
  rt_pinv E (fst (rt_release st s)) /\ Forall (rt_out_from E) (snd (rt_release st s)).
Proof.
  intros E st s P. destruct (rt_pinv_held_split E st s P) as (rest & Hs & Hr & P2). destruct P as (Pq & _).
  unfold rt_release. set (si := rt_sget s (rs_sess st)) in *.
  pose proof (rt_release_go_pinv E (si_hold si) st (si_nstart si) (si_active si) Pq Hs) as G.
  destruct (rt_release_go st (si_nstart si) (si_active si) (si_hold si)) as [[[st1 ca] dq] o].
  destruct G as (P1 & H1 & O1 & S1). cbn [fst snd]. split; [|exact O1]. split; [exact P1|].
  cbn [rt_set_sess rs_sess]. rewrite S1.
  eapply Permutation_Forall; [apply Permutation_sym; apply (P2 (rt_mk_sinfo (si_nstart si) ca dq))|].
  apply Forall_app. auto.
Qed.

Lemma rt_pinv_set_same_hold : forall E st s e, si_hold e = si_hold (rt_sget s (rs_sess st)) ->
  rt_pinv E st -> rt_pinv E (rt_set_sess st (rt_sset s e (rs_sess st))).
Proof.
  intros E st s e He P. destruct (rt_pinv_held_split E st s P) as (rest & Hs & Hr & P2). destruct P as (Pq & _).
  split; [exact Pq|]. cbn [rt_set_sess rs_sess].
  eapply Permutation_Forall; [apply Permutation_sym; apply (P2 e)|]. rewrite He. apply Forall_app. auto.
Qed.

Lemma rt_free_slot_pinv : forall E st s, rt_pinv E st ->
  rt_pinv E (fst (rt_free_slot st s)) /\ Forall (rt_out_from E) (snd (rt_free_slot st s)).
Proof.
  intros E st s P. unfold rt_free_slot. destruct (0 <? si_active (rt_sget s (rs_sess st))).
  - apply rt_release_pinv. apply rt_pinv_set_same_hold; [reflexivity|exact P].
  - cbn. split; [exact P|constructor].
Qed.

Lemma rt_free_slots_pinv : forall E k st s, rt_pinv E st ->
  rt_pinv E (fst (rt_free_slots k st s)) /\ Forall (rt_out_from E) (snd (rt_free_slots k st s)).
Proof.
  intros E. induction k as [|k IH]; intros st s P; cbn [rt_free_slots].
  - cbn. split; [exact P|constructor].
  - destruct (rt_free_slot_pinv E st s P) as [P1 O1]. destruct (rt_free_slot st s) as [st1 o1]. cbn [fst snd] in *.
    destruct (IH st1 s P1) as [P2 O2]. destruct (rt_free_slots k st1 s) as [st2 o2]. cbn [fst snd] in *.
    split; [exact P2|]. apply Forall_app. auto.
Qed.

Lemma rt_retransmit_pinv : forall E st n,
  rt_pinv E st -> rt_node_from E n ->
  rt_pinv E (fst (rt_retransmit st n)) /\ Forall (rt_out_from E) (snd (rt_retransmit st n)).
Proof.
  intros E st n P Hn. unfold rt_retransmit.
  destruct (qn_cnt n <? qn_max n).
  - set (c := (qn_cnt n + 1) mod 256).
    assert (P1 : rt_pinv E (rt_enqueue st (rt_bump_node n c) (qn_timeout n * 2 ^ c))).
    { apply rt_enqueue_pinv; [exact P|apply rt_node_from_bump; exact Hn]. }
    destruct (_ <=? _); cbn [fst snd].
    + split; [exact P1|repeat constructor].
    + split; [apply rt_pinv_set_same_hold; [reflexivity|exact P1]|].
      constructor; [|constructor]. destruct Hn as (cfg & r & I & A & B). cbn. exists (qn_mid n), cfg, r. auto.
  - destruct (rt_free_slot_pinv E st (qn_sess n) P) as [P1 O1].
    destruct (rt_free_slot st (qn_sess n)) as [st1 o1]. cbn [fst snd] in *.
    split; [exact P1|]. apply Forall_app. split; [exact O1|]. constructor; [|constructor].
    destruct Hn as (cfg & r & I & A & B). cbn. exists (qn_bytes n), cfg, r. auto.
Qed.

Lemma rt_pinv_set_q : forall E st q', rt_pinv E st ->
  (forall n, In n (rt_nodes q') -> In n (rt_nodes (rs_q st))) -> rt_pinv E (rt_set_q st q').
Proof.
  intros E st q' (P & H) Sub. split; [|exact H]. cbn [rt_set_q rs_q]. rewrite Forall_forall in *.
  intros n I. apply P. apply Sub. exact I.
Qed.

Lemma rt_fire_pinv : forall E fuel st, rt_pinv E st ->
  rt_pinv E (fst (rt_fire fuel st)) /\ Forall (rt_out_from E) (snd (rt_fire fuel st)).
Proof.
  intros E. induction fuel as [|f IH]; intros st P; cbn [rt_fire].
  - cbn [fst snd]. split; [exact P|]. destruct (rt_due st); repeat constructor.
  - destruct (rt_due st); [|cbn; split; [exact P|constructor]].
    destruct (sq_pop (rs_q st)) as [[[t n] q']|] eqn:Pp; [|cbn; split; [exact P|constructor]].
    pose proof (rt_nodes_pop _ _ _ _ Pp) as EN.
    assert (Hn : rt_node_from E n).
    { destruct P as (Pq & _). rewrite EN in Pq. inversion Pq; assumption. }
    assert (P1 : rt_pinv E (rt_set_q st q')).
    { apply rt_pinv_set_q; [exact P|]. intros x I. rewrite EN. right. exact I. }
    destruct (rt_retransmit_pinv E (rt_set_q st q') n P1 Hn) as [P2 O2].
    destruct (rt_retransmit (rt_set_q st q') n) as [st1 o1]. cbn [fst snd] in *.
    destruct (IH st1 P2) as [P3 O3]. destruct (rt_fire f st1) as [st2 o2]. cbn [fst snd] in *.
    split; [exact P3|]. apply Forall_app. auto.
Qed.

Lemma rt_fire_all_pinv : forall E st, rt_pinv E st ->
  rt_pinv E (fst (rt_fire_all st)) /\ Forall (rt_out_from E) (snd (rt_fire_all st)).
Proof. intros. unfold rt_fire_all. apply rt_fire_pinv. assumption. Qed.

Lemma rt_removed_pinv : forall E st s m t n q', rt_pinv E st -> sq_remove (rs_q st) s m = Some ((t, n), q') ->
  rt_pinv E (rt_set_q st q') /\ rt_node_from E n.
Proof.
  intros E st s m t n q' P Rm. destruct (rt_nodes_remove _ _ _ _ _ _ Rm) as [Pm _]. split.
  - apply rt_pinv_set_q; [exact P|]. intros x I. eapply Permutation_in; [apply Permutation_sym; exact Pm|]. right. exact I.
  - destruct P as (Pq & _). rewrite Forall_forall in Pq. apply Pq.
    eapply Permutation_in; [apply Permutation_sym; exact Pm|]. left. reflexivity.
Qed.

Lemma rt_step_pinv : forall E st ev, rt_pinv E st ->
  rt_pinv (E ++ [ev]) (fst (rt_step st ev)) /\ Forall (rt_out_from (E ++ [ev])) (snd (rt_step st ev)).
Proof.
  intros E st ev P.
  assert (Sub : forall e, In e E -> In e (E ++ [ev])) by (intros; apply in_or_app; auto).
  assert (P' : rt_pinv (E ++ [ev]) st).
  { destruct P as (Pq & Ph). split; (eapply Forall_impl; [|eassumption]); intros n; apply rt_node_from_mono; exact Sub. }
  clear P. set (E' := E ++ [ev]) in *.
  assert (Last : In ev E') by (apply in_or_app; right; left; reflexivity).
  destruct ev as [dt|s m b cfg r| |s m|s m|s m tok|s reason|s m|tmo|]; cbn [rt_step].
  - cbn. split; [exact P'|constructor].
  - unfold rt_send. set (T := fp_calc_timeout _ _ _ _ _).
    destruct (rt_pinv_held_split E' st s P') as (rest & Hs & Hr & P2). pose proof P' as (Pq & _).
    set (si := rt_sget s (rs_sess st)) in *.
    destruct (si_nstart si <=? si_active si).
    + destruct (existsb _ _); cbn [fst snd]; [split; [exact P'|repeat constructor]|].
      split; [|repeat constructor]. split; [exact Pq|]. cbn [rs_sess].
      eapply Permutation_Forall; [apply Permutation_sym; apply P2|]. cbn [si_hold].
      apply Forall_app. split; [|exact Hr]. apply Forall_app. split; [exact Hs|].
      constructor; [|constructor]. exists cfg, r. cbn [qn_sess qn_mid qn_bytes qn_timeout qn_max]. auto.
    + cbn [fst snd]. split.
      * apply rt_enqueue_pinv.
        -- split; [exact Pq|]. cbn [rs_sess]. eapply Permutation_Forall; [apply Permutation_sym; apply P2|].
           cbn [si_hold]. apply Forall_app. auto.
        -- exists cfg, r. cbn [qn_sess qn_mid qn_bytes qn_timeout qn_max]. auto.
      * constructor; [|repeat constructor]. cbn. exists m, cfg, r. auto.
  - unfold rt_tick. destruct (rt_fire_all_pinv E' st P') as [P1 O1].
    destruct (rt_fire_all st) as [st1 o]. destruct (rt_wait st1) as [w hd].
    cbn [fst snd] in *. split; [exact P1|]. apply Forall_app. split; [exact O1|repeat constructor].
  - unfold rt_ack. destruct (sq_remove (rs_q st) s m) as [[[t n] q']|] eqn:Rm.
    + destruct (rt_removed_pinv E' st s m t n q' P' Rm) as [P1 Hn].
      destruct (rt_free_slot_pinv E' _ s P1) as [P2 O2]. destruct (rt_free_slot (rt_set_q st q') s) as [st1 o1].
      cbn [fst snd] in *. destruct (rt_fire_all_pinv E' st1 P2) as [P3 O3]. destruct (rt_fire_all st1) as [st2 o2].
      cbn [fst snd] in *. split; [exact P3|]. constructor; [exact I|]. apply Forall_app. auto.
    + apply rt_fire_all_pinv. exact P'.
  - unfold rt_rst. destruct (sq_remove (rs_q st) s m) as [[[t n] q']|] eqn:Rm.
    + destruct (rt_removed_pinv E' st s m t n q' P' Rm) as [P1 Hn].
      destruct (rt_free_slot_pinv E' _ s P1) as [P2 O2]. destruct (rt_free_slot (rt_set_q st q') s) as [st1 o1].
      cbn [fst snd] in *. destruct (rt_fire_all_pinv E' st1 P2) as [P3 O3]. destruct (rt_fire_all st1) as [st2 o2].
      cbn [fst snd] in *. split; [exact P3|]. apply Forall_app. split; [exact O2|]. constructor; [|exact O3].
      destruct Hn as (cfg & r & I & A & B). cbn. exists (qn_bytes n), cfg, r. auto.
    + destruct (rt_fire_all_pinv E' st P') as [P2 O2]. destruct (rt_fire_all st) as [st1 o]. cbn [fst snd] in *.
      split; [exact P2|]. constructor; [exact I|exact O2].
  - unfold rt_non.
    pose proof (rt_nodes_cancel (rt_tok_match s tok) (rs_q st)) as Pm.
    destruct (sq_cancel (rt_tok_match s tok) (rs_q st)) as [rm q']. cbn [fst snd] in Pm.
    assert (P1 : rt_pinv E' (rt_set_q st q')).
    { apply rt_pinv_set_q; [exact P'|]. intros x I. eapply Permutation_in; [apply Permutation_sym; exact Pm|].
      apply in_or_app. right. exact I. }
    destruct (rt_free_slots_pinv E' (length rm) _ s P1) as [P2 O2].
    destruct (rt_free_slots (length rm) (rt_set_q st q') s) as [st1 o1]. cbn [fst snd] in *.
    destruct (rt_fire_all_pinv E' st1 P2) as [P3 O3]. destruct (rt_fire_all st1) as [st2 o2]. cbn [fst snd] in *.
    split; [exact P3|]. apply Forall_app. split; [|apply Forall_app; auto].
    rewrite Forall_forall. intros x I. apply in_map_iff in I. destruct I as (y & Y & _). subst x. exact I.
  - unfold rt_disconnect.
    pose proof (rt_nodes_cancel (rt_sess_match s) (rs_q st)) as Pm.
    destruct (sq_cancel (rt_sess_match s) (rs_q st)) as [rm q']. cbn [fst snd] in *.
    destruct (rt_pinv_held_split E' st s P') as (rest & Hs & Hr & P2). pose proof P' as (Pq & _).
    set (si := rt_sget s (rs_sess st)) in *.
    assert (Hrm : Forall (rt_node_from E') rm).
    { eapply Permutation_Forall in Pq; [|exact Pm]. apply Forall_app in Pq. tauto. }
    split.
    + split.
      * cbn [rt_set_sess rt_set_q rs_q]. eapply Permutation_Forall in Pq; [|exact Pm]. apply Forall_app in Pq. tauto.
      * cbn [rt_set_sess rs_sess]. eapply Permutation_Forall; [apply Permutation_sym; apply P2|]. cbn [si_hold app]. exact Hr.
    + assert (Hg : Forall (rt_node_from E') (si_hold si ++ rm)) by (apply Forall_app; auto).
      destruct (si_hold si ++ rm) as [|n0 g] eqn:Eg; [repeat constructor|]. rewrite <- Eg in *.
      rewrite Forall_forall. intros x I. apply in_map_iff in I. destruct I as (y & Y & Iy). subst x.
      rewrite Forall_forall in Hg. destruct (Hg y Iy) as (cfg & r & I2 & A & B). cbn. exists (qn_bytes y), cfg, r. auto.
  - unfold rt_delete. destruct (sq_remove (rs_q st) s m) as [[[t n] q']|] eqn:Rm; cbn [fst snd].
    + destruct (rt_removed_pinv E' st s m t n q' P' Rm) as [P1 _]. split; [exact P1|repeat constructor].
    + split; [exact P'|constructor].
  - unfold rt_io_process.
    destruct (rt_fire_all_pinv E' st P') as [P1 O1]. destruct (rt_fire_all st) as [st1 o1]. cbn [fst snd] in *.
    destruct (rt_wait st1) as [w hd]. set (et := rt_epoll_timeout w tmo).
    set (st2 := rt_set_now st1 _).
    assert (P2 : rt_pinv E' st2) by exact P1.
    destruct (rt_fire_all_pinv E' st2 P2) as [P3 O3]. destruct (rt_fire_all st2) as [st3 o3]. cbn [fst snd] in *.
    split; [exact P3|]. apply Forall_app. split; [exact O1|]. constructor; [exact I|].
    apply Forall_app. split; [exact O3|repeat constructor].
  - cbn. split; [exact P'|repeat constructor].
Qed.

Lemma rt_run_pinv : forall evs E st, rt_pinv E st ->
  rt_pinv (E ++ evs) (fst (rt_run st evs)) /\ Forall (rt_out_from (E ++ evs)) (snd (rt_run st evs)).
Proof.
  induction evs as [|ev rest IH]; intros E st P; cbn [rt_run].
  - rewrite app_nil_r. cbn. split; [exact P|constructor].
  - destruct (rt_step_pinv E st ev P) as [P1 O1]. destruct (rt_step st ev) as [st1 o1]. cbn [fst snd] in *.
    assert (EE : (E ++ [ev]) ++ rest = E ++ ev :: rest) by (rewrite <- app_assoc; reflexivity).
    destruct (IH (E ++ [ev]) st1 P1) as [P2 O2]. rewrite EE in P2, O2.
    destruct (rt_run st1 rest) as [st2 o2]. cbn [fst snd] in *.
    split; [exact P2|].
    apply Forall_app. split; [|exact O2].
    eapply Forall_impl; [|exact O1]. intros o. apply rt_out_from_mono.
    intros e I. rewrite <- EE. apply in_or_app. left. exact I.
Qed.

Lemma rt_pinv_init : forall t0 nst, rt_pinv [] (rt_init t0 nst).
Proof. intros. unfold rt_pinv, rt_init. cbn [rs_q rs_sess rt_nodes map]. rewrite rt_held_init. split; constructor. Qed.

(* every transmitted datagram: bytes, session and T of a submitted message *)
Theorem rt_tx_provenance : forall t0 nst evs t u s b c T,
  In (RoTx t u s b c T) (snd (rt_run (rt_init t0 nst) evs)) ->
  exists m cfg r, In (RtSend s m b cfg r) evs /\ T = rt_cfg_T cfg r.
Proof.
  intros t0 nst evs t u s b c T I.
  destruct (rt_run_pinv evs [] (rt_init t0 nst) (rt_pinv_init t0 nst)) as [_ O]. cbn [app] in O.
  rewrite Forall_forall in O. apply (O _ I).
Qed.

(* hence every T of every trace lies in the range of its session's settings *)
Theorem rt_tx_timeout_in_range : forall t0 nst evs t u s b c T,
  (forall s' m b' cfg r, In (RtSend s' m b' cfg r) evs ->
     fp_setting_ok (rc_at_ip cfg) (rc_at_fp cfg) /\ fp_setting_ok (rc_arf_ip cfg) (rc_arf_fp cfg) /\
     0 <= r <= 255) ->
  In (RoTx t u s b c T) (snd (rt_run (rt_init t0 nst) evs)) ->
  exists m cfg r, In (RtSend s m b cfg r) evs /\
    fp_lo (fp_Q (rc_at_ip cfg) (rc_at_fp cfg)) <= T <=
    fp_hi (fp_Q (rc_at_ip cfg) (rc_at_fp cfg)) (fp_Q (rc_arf_ip cfg) (rc_arf_fp cfg)) /\
    fp_ms (rc_at_ip cfg) (rc_at_fp cfg) - 8 <= T /\
    1000 * T <= (fp_ms (rc_at_ip cfg) (rc_at_fp cfg) + 8) * (fp_ms (rc_arf_ip cfg) (rc_arf_fp cfg) + 8) + 8313.
Proof.
  intros t0 nst evs t u s b c T Ok I.
  destruct (rt_tx_provenance _ _ _ _ _ _ _ _ _ I) as (m & cfg & r & Is & ET).
  exists m, cfg, r. split; [exact Is|].
  destruct (Ok _ _ _ _ _ Is) as (Ha & Hf & Hr).
  destruct (fp_timeout_range _ _ _ _ r Ha Hf Hr) as (B & L & H & _). unfold rt_cfg_T in ET. rewrite <- ET in B.
  split; [exact B|]. split; [lia|]. lia.
Qed.

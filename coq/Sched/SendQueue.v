(* C06 - the send queue of pending retransmissions: a list ordered by time in which each node
   stores its time RELATIVE TO ITS PREDECESSOR (the head: relative to sendqueue_basetime).
   Transcription of coap_insert_node, coap_pop_next, coap_remove_from_queue and
   coap_adjust_basetime of src/coap_net.c.  Definitions only.
   Times are coap_tick_t (uint64_t) in C; here they are unbounded integers - see the notes for
   the no-overflow assumption. *)
From Coq Require Import ZArith List Bool.
Import ListNotations.
Local Open Scope Z_scope.

(* coap_queue_t without next/t: the per-message back-off state.  qn_uid is a ghost field (the
   position of the message in the order of submission) used to tell messages apart in the
   theorems; the code never looks at it. *)
Record sq_node := sq_mk_node {
  qn_uid : Z;
  qn_sess : Z;           (* session (identity) *)
  qn_mid : Z;            (* id *)
  qn_cnt : Z;            (* retransmit_cnt *)
  qn_timeout : Z;        (* timeout: the randomised initial timeout in ticks *)
  qn_max : Z;            (* session->max_retransmit *)
  qn_bytes : list Z      (* the encoded PDU *)
}.

Definition sq_entry : Type := Z * sq_node.      (* (t, node) *)
Definition sq_queue : Type := list sq_entry.

(* add d to the relative time of the first element (it loses its predecessor) *)
Definition sq_bump (d : Z) (q : sq_queue) : sq_queue :=
  match q with
  | [] => []
  | (t1, n1) :: r => (t1 + d, n1) :: r
  end.

(* the do-while loop of coap_insert_node: t is relative to the element before rest *)
Fixpoint sq_ins_go (t : Z) (n : sq_node) (rest : sq_queue) : sq_queue :=
  match rest with
  | [] => [(t, n)]
  | (t1, n1) :: rest' =>
      if t1 <=? t then (t1, n1) :: sq_ins_go (t - t1) n rest'
      else (t, n) :: (t1 - t, n1) :: rest'
  end.

(* coap_insert_node(&queue, node) with node->t = t (relative to the base time) *)
Definition sq_insert (q : sq_queue) (t : Z) (n : sq_node) : sq_queue :=
  match q with
  | [] => [(t, n)]
  | (t0, n0) :: rest =>
      if t <? t0 then (t, n) :: (t0 - t, n0) :: rest
      else (t0, n0) :: sq_ins_go (t - t0) n rest
  end.

(* coap_pop_next *)
Definition sq_pop (q : sq_queue) : option (sq_entry * sq_queue) :=
  match q with
  | [] => None
  | (t0, n0) :: rest => Some ((t0, n0), sq_bump t0 rest)
  end.

(* coap_remove_from_queue(&queue, session, id, &node): first node of that session with that id *)
Definition sq_match (s m : Z) (n : sq_node) : bool := (qn_sess n =? s) && (qn_mid n =? m).

Fixpoint sq_remove (q : sq_queue) (s m : Z) : option (sq_entry * sq_queue) :=
  match q with
  | [] => None
  | (t0, n0) :: rest =>
      if sq_match s m n0 then Some ((t0, n0), sq_bump t0 rest)
      else match sq_remove rest s m with
           | None => None
           | Some (e, rest') => Some (e, (t0, n0) :: rest')
           end
  end.

(* coap_cancel_all_messages (all nodes of a session with a given token) and
   coap_cancel_session_messages (all nodes of a session): every node that satisfies p is unlinked
   and its time is added to its successor (/repo f424a16; before that commit it was not, see
   sq_cancel_nobump).  carry = the time of the unlinked nodes directly in front. *)
Fixpoint sq_cancel_go (p : sq_node -> bool) (carry : Z) (q : sq_queue) : list sq_node * sq_queue :=
  match q with
  | [] => ([], [])
  | (t, n) :: rest =>
      if p n then let (rm, q') := sq_cancel_go p (carry + t) rest in (n :: rm, q')
      else let (rm, q') := sq_cancel_go p 0 rest in (rm, (t + carry, n) :: q')
  end.
Definition sq_cancel (p : sq_node -> bool) (q : sq_queue) : list sq_node * sq_queue :=
  sq_cancel_go p 0 q.

(* the two functions as they were before f424a16: plain unlinking *)
Fixpoint sq_cancel_nobump (p : sq_node -> bool) (q : sq_queue) : list sq_node * sq_queue :=
  match q with
  | [] => ([], [])
  | (t, n) :: rest =>
      let (rm, q') := sq_cancel_nobump p rest in
      if p n then (n :: rm, q') else (rm, (t, n) :: q')
  end.

(* coap_adjust_basetime(ctx, now): returns (number of expired nodes, new basetime, new queue).
   Transcribed as written, including the assignment q->t = delta - t to the first node that has
   not expired (see sq_adjust_shifts_deadline in SendQueueProofs.v). *)
Fixpoint sq_adj_go (delta t : Z) (q : sq_queue) : Z * sq_queue :=
  match q with
  | [] => (0, [])
  | (tq, n) :: rest =>
      if t + tq <? delta then
        let (c, r) := sq_adj_go delta (t + tq) rest in (c + 1, (0, n) :: r)
      else (0, (delta - t, n) :: rest)
  end.

Definition sq_adjust_basetime (base : Z) (q : sq_queue) (now : Z) : Z * Z * sq_queue :=
  let delta := now - base in
  match q with
  | [] => (0, base + delta, [])
  | (t0, n0) :: rest =>
      if delta <=? 0 then (0, base + delta, (t0 - delta, n0) :: rest)
      else let (c, q') := sq_adj_go delta 0 q in (c, base + delta, q')
  end.

(* ---- abstraction: absolute deadlines ---- *)
Fixpoint sq_abs (base : Z) (q : sq_queue) : list (Z * sq_node) :=
  match q with
  | [] => []
  | (t, n) :: rest => (base + t, n) :: sq_abs (base + t) rest
  end.

(* specification of insertion on absolute deadlines: after every entry that is not later *)
Fixpoint sq_spec_insert (d : Z) (n : sq_node) (l : list (Z * sq_node)) : list (Z * sq_node) :=
  match l with
  | [] => [(d, n)]
  | (d1, n1) :: r =>
      if d1 <=? d then (d1, n1) :: sq_spec_insert d n r else (d, n) :: (d1, n1) :: r
  end.

(* specification of removal: the first entry of that session with that id *)
Fixpoint sq_spec_remove (l : list (Z * sq_node)) (s m : Z) : option ((Z * sq_node) * list (Z * sq_node)) :=
  match l with
  | [] => None
  | (d, n) :: r =>
      if sq_match s m n then Some ((d, n), r)
      else match sq_spec_remove r s m with
           | None => None
           | Some (e, r') => Some (e, (d, n) :: r')
           end
  end.

(* well-formed: relative times after the head are not negative *)
Definition sq_wf (q : sq_queue) : Prop :=
  match q with [] => True | _ :: rest => Forall (fun e => 0 <= fst e) rest end.

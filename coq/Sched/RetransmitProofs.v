(* C06 - one outcome per message: invariants of the retransmission machine (proofs).
   For EVERY event sequence (any number of messages and sessions, ACK/RST at any time, repeated
   or for unknown ids, any tick times) the outputs that concern one message are
        Tx b, Tx b, ..., Tx b  [ Acked | Nack r ]
   with the same bytes b each time, at most max_retransmit + 1 transmissions, and nothing after
   the outcome; a message without outcome is still in the queue. *)
From LibcoapV Require Import Base.Tactics Sched.FixedPoint Sched.SendQueue Sched.SendQueueProofs
  Sched.Retransmit.
From Coq Require Import Sorting.Permutation.
Local Open Scope Z_scope.

(* ------------------------------------------------------------------ the nodes of a queue *)
Definition rt_nodes (q : sq_queue) : list sq_node := map snd q.

Lemma rt_nodes_ins_go : forall q t n, Permutation (rt_nodes (sq_ins_go t n q)) (n :: rt_nodes q).
Proof.
  induction q as [|[t1 n1] rest IH]; intros t n; [apply Permutation_refl|].
  cbn [sq_ins_go]. destruct (t1 <=? t).
  - cbn [rt_nodes map snd]. fold (rt_nodes (sq_ins_go (t - t1) n rest)).
    eapply Permutation_trans; [apply perm_skip; apply IH|]. apply perm_swap.
  - apply Permutation_refl.
Qed.

Lemma rt_nodes_insert : forall q t n, Permutation (rt_nodes (sq_insert q t n)) (n :: rt_nodes q).
Proof. intros. rewrite sq_insert_eq_go. apply rt_nodes_ins_go. Qed.

Lemma rt_nodes_bump : forall d q, rt_nodes (sq_bump d q) = rt_nodes q.
Proof. intros d [|[t n] r]; reflexivity. Qed.

Lemma rt_nodes_pop : forall q t n q', sq_pop q = Some ((t, n), q') -> rt_nodes q = n :: rt_nodes q'.
Proof.
  intros [|[t0 n0] rest] t n q' H; [discriminate|]. cbn in H. inversion H; subst.
  cbn. rewrite rt_nodes_bump. reflexivity.
Qed.

Lemma rt_nodes_remove : forall q s m t n q', sq_remove q s m = Some ((t, n), q') ->
  Permutation (rt_nodes q) (n :: rt_nodes q') /\ sq_match s m n = true.
Proof.
  induction q as [|[t0 n0] rest IH]; intros s m t n q' H; [discriminate|].
  cbn [sq_remove] in H. destruct (sq_match s m n0) eqn:E.
  - inversion H; subst. cbn. rewrite rt_nodes_bump. split; [apply Permutation_refl|exact E].
  - destruct (sq_remove rest s m) as [[[t1 n1] r1]|] eqn:R; [|discriminate].
    inversion H; subst. destruct (IH s m t n r1 R) as [P M]. split; [|exact M].
    cbn. eapply Permutation_trans; [apply perm_skip; exact P|]. apply perm_swap.
Qed.

Lemma rt_remove_none_nodes : forall q s m, sq_remove q s m = None ->
  Forall (fun n => sq_match s m n = false) (rt_nodes q).
Proof.
  induction q as [|[t0 n0] rest IH]; intros s m H; [constructor|].
  cbn [sq_remove] in H. destruct (sq_match s m n0) eqn:E; [discriminate|].
  destruct (sq_remove rest s m) as [[e r]|] eqn:R; [discriminate|].
  cbn. constructor; [exact E|apply IH; exact R].
Qed.

Lemma rt_nodes_cancel : forall p q,
  Permutation (rt_nodes q) (fst (sq_cancel p q) ++ rt_nodes (snd (sq_cancel p q))).
Proof.
  intros p q. unfold sq_cancel. generalize 0 as carry. induction q as [|[t n] rest IH]; intros carry.
  - apply Permutation_refl.
  - cbn [sq_cancel_go]. destruct (p n).
    + specialize (IH (carry + t)). destruct (sq_cancel_go p (carry + t) rest) as [rm q'].
      cbn [fst snd rt_nodes map app] in *. apply perm_skip. exact IH.
    + specialize (IH 0). destruct (sq_cancel_go p 0 rest) as [rm q'].
      cbn [fst snd rt_nodes map app] in *. apply Permutation_cons_app. exact IH.
Qed.

(* ------------------------------------------------------------------ projection on one message *)
Inductive rt_tag := PTx (b : list Z) | PNack (r c mx : Z) | PAcked.

Definition rt_proj1 (u : Z) (o : rt_out) : list rt_tag :=
  match o with
  | RoTx _ u' _ b _ _ => if u' =? u then [PTx b] else []
  | RoNack _ u' _ r _ c mx => if u' =? u then [PNack r c mx] else []
  | RoAcked _ u' => if u' =? u then [PAcked] else []
  | _ => []
  end.
Definition rt_proj (u : Z) (tr : list rt_out) : list rt_tag := flat_map (rt_proj1 u) tr.

Lemma rt_proj_app : forall u a b, rt_proj u (a ++ b) = rt_proj u a ++ rt_proj u b.
Proof. intros. unfold rt_proj. apply flat_map_app. Qed.

(* a closed history: transmissions of the same bytes, then exactly one outcome *)
(* an outcome after j retransmissions: removed by an ACK, or one NACK call - and if its reason is
   TOO_MANY_RETRIES then j is exactly the message's max_retransmit (the other reasons: RST from
   the peer, or the reason given to coap_session_disconnected) *)
Definition rt_outcome_ok (j : nat) (o : rt_tag) : Prop :=
  match o with
  | PAcked => True
  | PNack r c mx => Z.of_nat j = c /\ 0 <= c <= mx /\ mx <= 255 /\
                    (r = rt_NACK_TOO_MANY_RETRIES -> c = mx)
  | PTx _ => False
  end.
Definition rt_closed (l : list rt_tag) : Prop :=
  exists b j o, l = repeat (PTx b) (S j) ++ [o] /\ (j <= 255)%nat /\ rt_outcome_ok j o.
(* an open history of a queued node: cnt + 1 transmissions of its bytes *)
Definition rt_open (n : sq_node) (l : list rt_tag) : Prop :=
  l = repeat (PTx (qn_bytes n)) (S (Z.to_nat (qn_cnt n))).

Definition rt_node_ok (tr : list rt_out) (k : Z) (n : sq_node) : Prop :=
  0 <= qn_uid n < k /\ 0 <= qn_cnt n <= qn_max n /\ qn_max n <= 255 /\
  rt_open n (rt_proj (qn_uid n) tr).

(* the relation between the outputs so far, the number of accepted messages and the queue *)
Definition rt_rel (tr : list rt_out) (k : Z) (ns : list sq_node) : Prop :=
  0 <= k /\
  NoDup (map qn_uid ns) /\
  Forall (rt_node_ok tr k) ns /\
  (forall u, ~ In u (map qn_uid ns) ->
     (0 <= u < k -> rt_closed (rt_proj u tr)) /\ (~ 0 <= u < k -> rt_proj u tr = [])).

Lemma rt_rel_perm : forall tr k ns ns', Permutation ns ns' -> rt_rel tr k ns -> rt_rel tr k ns'.
Proof.
  intros tr k ns ns' P (K & D & F & C). split; [exact K|]. split; [|split].
  - eapply Permutation_NoDup; [apply Permutation_map; exact P|exact D].
  - eapply Permutation_Forall; eauto.
  - intros u Hu. apply C. intros I. apply Hu.
    eapply Permutation_in; [apply Permutation_map; exact P|exact I].
Qed.

Lemma rt_rel_init : rt_rel [] 0 [].
Proof.
  split; [lia|]. split; [constructor|]. split; [constructor|].
  intros u _. split; [lia|reflexivity].
Qed.

(* outputs that mention no message *)
Definition rt_neutral (o : list rt_out) : Prop := forall u, rt_proj u o = [].

Lemma rt_rel_neutral : forall tr k ns o, rt_neutral o -> rt_rel tr k ns -> rt_rel (tr ++ o) k ns.
Proof.
  intros tr k ns o N (K & D & F & C). split; [exact K|]. split; [exact D|]. split.
  - eapply Forall_impl; [|exact F]. intros n (A & B & M & O). repeat split; try lia.
    unfold rt_open in *. rewrite rt_proj_app, N, app_nil_r. exact O.
  - intros u Hu. rewrite rt_proj_app, N, app_nil_r. apply C. exact Hu.
Qed.

(* a new message: fresh uid k, transmitted once *)
Lemma rt_rel_add : forall tr k ns t s m b T mx,
  0 <= mx <= 255 ->
  rt_rel tr k ns ->
  rt_rel (tr ++ [RoTx t k s b 0 T; RoSent m]) (k + 1) (sq_mk_node k s m 0 T mx b :: ns).
Proof.
  intros tr k ns t s m b T mx Hmx (K & D & F & C).
  assert (Fresh : ~ In k (map qn_uid ns)).
  { intros I. apply in_map_iff in I. destruct I as (n & E & I).
    rewrite Forall_forall in F. destruct (F n I) as (A & _). lia. }
  split; [lia|]. split; [|split].
  - cbn. constructor; assumption.
  - constructor.
    + unfold rt_node_ok, rt_open. cbn [qn_uid qn_cnt qn_max qn_bytes]. repeat split; try lia.
      rewrite rt_proj_app. destruct (C k Fresh) as [_ E]. rewrite E by lia.
      cbn. rewrite Z.eqb_refl. reflexivity.
    + rewrite Forall_forall in *. intros n I. destruct (F n I) as (A & B & M & O).
      repeat split; try lia. unfold rt_open in *. rewrite rt_proj_app.
      assert (Ne : (k =? qn_uid n) = false) by lia.
      cbn. rewrite Ne. cbn. rewrite app_nil_r. exact O.
  - intros u Hu. cbn in Hu. assert (Hk : u <> k) by (intros X; apply Hu; left; congruence). assert (Hn : ~ In u (map qn_uid ns)) by tauto.
    rewrite rt_proj_app. assert (Ne : (k =? u) = false) by lia.
    cbn. rewrite Ne. cbn. rewrite app_nil_r.
    destruct (C u Hn) as [C1 C2]. split; intros; [apply C1|apply C2]; lia.
Qed.

(* the head node is transmitted again and its counter goes up *)
Lemma rt_rel_bump : forall tr k n ns t,
  qn_cnt n < qn_max n ->
  rt_rel tr k (n :: ns) ->
  rt_rel (tr ++ [RoTx t (qn_uid n) (qn_sess n) (qn_bytes n) ((qn_cnt n + 1) mod 256) (qn_timeout n)]) k
         (sq_mk_node (qn_uid n) (qn_sess n) (qn_mid n) ((qn_cnt n + 1) mod 256) (qn_timeout n)
                     (qn_max n) (qn_bytes n) :: ns).
Proof.
  intros tr k n ns t Hc (K & D & F & C). inversion F as [|? ? (A & B & M & O) F']; subst.
  cbn in D. inversion D as [|? ? Dn D']; subst.
  assert (Em : (qn_cnt n + 1) mod 256 = qn_cnt n + 1) by (apply Z.mod_small; lia).
  split; [exact K|]. split; [|split].
  - cbn. constructor; assumption.
  - constructor.
    + unfold rt_node_ok, rt_open in *. cbn [qn_uid qn_cnt qn_max qn_bytes]. rewrite Em.
      repeat split; try lia. rewrite rt_proj_app, O. cbn [rt_proj flat_map rt_proj1].
      rewrite Z.eqb_refl. change ([PTx (qn_bytes n)] ++ []) with [PTx (qn_bytes n)].
      replace (Z.to_nat (qn_cnt n + 1)) with (S (Z.to_nat (qn_cnt n))) by lia.
      rewrite <- repeat_cons. reflexivity.
    + rewrite Forall_forall in *. intros n' I. destruct (F' n' I) as (A' & B' & M' & O').
      repeat split; try lia. unfold rt_open in *. rewrite rt_proj_app.
      assert (Ne : (qn_uid n =? qn_uid n') = false).
      { apply Z.eqb_neq. intros E. apply Dn. rewrite E. apply in_map. exact I. }
      cbn. rewrite Ne. cbn. rewrite app_nil_r. exact O'.
  - intros u Hu. cbn [map qn_uid] in Hu. cbn in Hu.
    assert (Ne : (qn_uid n =? u) = false) by (apply Z.eqb_neq; tauto).
    rewrite rt_proj_app. cbn. rewrite Ne. cbn. rewrite app_nil_r. apply C. cbn. tauto.
Qed.

(* the head node leaves the queue with one outcome *)
Lemma rt_rel_drop : forall tr k n ns o tag,
  (rt_node_ok tr k n -> rt_outcome_ok (Z.to_nat (qn_cnt n)) tag) ->
  rt_proj (qn_uid n) o = [tag] ->
  (forall u, u <> qn_uid n -> rt_proj u o = []) ->
  rt_rel tr k (n :: ns) ->
  rt_rel (tr ++ o) k ns.
Proof.
  intros tr k n ns o tag Ho Po Pother (K & D & F & C).
  inversion F as [|? ? NO F']; subst. pose proof (Ho NO) as Ho'. destruct NO as (A & B & M & O).
  cbn in D. inversion D as [|? ? Dn D']; subst.
  split; [exact K|]. split; [exact D'|]. split.
  - rewrite Forall_forall in *. intros n' I. destruct (F' n' I) as (A' & B' & M' & O').
    repeat split; try lia. unfold rt_open in *. rewrite rt_proj_app, Pother, app_nil_r; [exact O'|].
    intros E. apply Dn. rewrite <- E. apply in_map. exact I.
  - intros u Hu. rewrite rt_proj_app. destruct (Z.eq_dec u (qn_uid n)) as [E|Ne].
    + subst u. rewrite Po. split; [|intros; lia]. intros _.
      unfold rt_open in O. rewrite O. exists (qn_bytes n), (Z.to_nat (qn_cnt n)), tag.
      split; [reflexivity|]. split; [lia|exact Ho'].
    + rewrite Pother by exact Ne. rewrite app_nil_r. apply C. cbn.
      intros [X|X]; [apply Ne; congruence|apply Hu; exact X].
Qed.

(* several nodes leave the queue, each with the ghost mark of an implicit acknowledgement *)
Lemma rt_rel_drop_acked : forall t rm tr k ns,
  rt_rel tr k (rm ++ ns) ->
  rt_rel (tr ++ map (fun n => RoAcked t (qn_uid n)) rm) k ns.
Proof.
  induction rm as [|n rm IH]; intros tr k ns R; cbn [map app] in *.
  - rewrite app_nil_r. exact R.
  - replace (tr ++ RoAcked t (qn_uid n) :: map (fun n0 => RoAcked t (qn_uid n0)) rm)
      with ((tr ++ [RoAcked t (qn_uid n)]) ++ map (fun n0 => RoAcked t (qn_uid n0)) rm)
      by (rewrite <- app_assoc; reflexivity).
    apply IH. eapply rt_rel_drop with (n := n) (tag := PAcked); [intros _; exact I| | |exact R].
    + cbn. rewrite Z.eqb_refl. reflexivity.
    + intros u Hu. cbn. assert (X : (qn_uid n =? u) = false) by lia. rewrite X. reflexivity.
Qed.

(* several nodes leave the queue, each with one NACK call of the same reason *)
Lemma rt_rel_drop_nacked : forall t reason rm tr k ns,
  reason <> rt_NACK_TOO_MANY_RETRIES ->
  rt_rel tr k (rm ++ ns) ->
  rt_rel (tr ++ map (rt_nack_of t reason) rm) k ns.
Proof.
  intros t reason. induction rm as [|n rm IH]; intros tr k ns Hr R; cbn [map app] in *.
  - rewrite app_nil_r. exact R.
  - replace (tr ++ rt_nack_of t reason n :: map (rt_nack_of t reason) rm)
      with ((tr ++ [rt_nack_of t reason n]) ++ map (rt_nack_of t reason) rm)
      by (rewrite <- app_assoc; reflexivity).
    apply IH; [exact Hr|].
    eapply rt_rel_drop with (n := n) (tag := PNack reason (qn_cnt n) (qn_max n)); [| | |exact R].
    + intros (A & B & M & O). cbn. repeat split; try lia; intros X; contradiction.
    + cbn. rewrite Z.eqb_refl. reflexivity.
    + intros u Hu. cbn. assert (X : (qn_uid n =? u) = false) by lia. rewrite X. reflexivity.
Qed.

(* ------------------------------------------------------------------ the machine keeps it *)
Lemma rt_enqueue_nodes : forall st n d,
  Permutation (rt_nodes (rs_q (rt_enqueue st n d))) (n :: rt_nodes (rs_q st)) /\
  rs_uid (rt_enqueue st n d) = rs_uid st /\ rs_now (rt_enqueue st n d) = rs_now st.
Proof.
  intros st n d. unfold rt_enqueue. destruct (rs_q st) as [|e q] eqn:E.
  - cbn. repeat split. apply Permutation_refl.
  - cbn [rs_q rt_set_q rs_uid rs_now]. repeat split. apply rt_nodes_insert.
Qed.

Lemma rt_retransmit_rel : forall st n tr,
  rt_rel tr (rs_uid st) (n :: rt_nodes (rs_q st)) ->
  let (st', o) := rt_retransmit st n in
  rt_rel (tr ++ o) (rs_uid st') (rt_nodes (rs_q st')) /\ rs_now st' = rs_now st.
Proof.
  intros st n tr R. unfold rt_retransmit. destruct (qn_cnt n <? qn_max n) eqn:E.
  - set (n' := sq_mk_node _ _ _ _ _ _ _).
    destruct (rt_enqueue_nodes st n' (qn_timeout n * 2 ^ ((qn_cnt n + 1) mod 256))) as (P & U & N).
    split; [|exact N]. rewrite U.
    eapply rt_rel_perm; [apply Permutation_sym; exact P|]. apply rt_rel_bump; [lia|exact R].
  - split; [|reflexivity].
    eapply rt_rel_drop with (n := n) (tag := PNack rt_NACK_TOO_MANY_RETRIES (qn_cnt n) (qn_max n));
      [intros (A & B & M & O); cbn; repeat split; try lia | | |exact R].
    + cbn. rewrite Z.eqb_refl. reflexivity.
    + intros u Hu. cbn. assert (X : (qn_uid n =? u) = false) by lia. rewrite X. reflexivity.
Qed.

Lemma rt_fire_rel : forall fuel st tr,
  rt_rel tr (rs_uid st) (rt_nodes (rs_q st)) ->
  let (st', o) := rt_fire fuel st in
  rt_rel (tr ++ o) (rs_uid st') (rt_nodes (rs_q st')) /\ rs_now st' = rs_now st.
Proof.
  induction fuel as [|f IH]; intros st tr R; cbn [rt_fire].
  - split; [|reflexivity]. apply rt_rel_neutral; [|exact R].
    intros u. destruct (rt_due st); reflexivity.
  - destruct (rt_due st).
    + destruct (sq_pop (rs_q st)) as [[[t n] q']|] eqn:P.
      * pose proof (rt_nodes_pop _ _ _ _ P) as EN.
        pose proof (rt_retransmit_rel (rt_set_q st q') n tr) as H1.
        cbn [rt_set_q rs_uid rs_q] in H1. rewrite <- EN in H1. specialize (H1 R).
        destruct (rt_retransmit (rt_set_q st q') n) as [st1 o1].
        destruct H1 as [R1 N1]. specialize (IH st1 (tr ++ o1) R1).
        destruct (rt_fire f st1) as [st2 o2]. destruct IH as [R2 N2].
        rewrite app_assoc. split; [exact R2|]. rewrite N2, N1. reflexivity.
      * split; [|reflexivity]. rewrite app_nil_r. exact R.
    + split; [|reflexivity]. rewrite app_nil_r. exact R.
Qed.

(* events the theorems quantify over: time does not run backwards; max_retransmit as the
   setter accepts it (> 0) and within the 8-bit counter *)
Definition rt_ev_ok (ev : rt_event) : Prop :=
  match ev with
  | RtAdvance dt => 0 <= dt
  | RtSend _ _ _ cfg _ => 1 <= rc_max cfg <= 255
  | RtDisconnect _ reason => reason <> rt_NACK_TOO_MANY_RETRIES /\ reason <> rt_NACK_ICMP_ISSUE
  | _ => True
  end.

Lemma rt_step_rel : forall st ev tr,
  rt_ev_ok ev ->
  rt_rel tr (rs_uid st) (rt_nodes (rs_q st)) ->
  let (st', o) := rt_step st ev in
  rt_rel (tr ++ o) (rs_uid st') (rt_nodes (rs_q st')).
Proof.
  intros st ev tr Hev R. destruct ev as [dt|s m b cfg r| |s m|s m|s m tok|s reason|s m|tmo|]; cbn [rt_step].
  - cbn. rewrite app_nil_r. exact R.
  - unfold rt_send. set (T := fp_calc_timeout _ _ _ _ _).
    set (n := sq_mk_node _ _ _ _ _ _ _). set (st1 := rt_mk_state _ _ _ _).
    destruct (rt_enqueue_nodes st1 n T) as (P & U & _). rewrite U. cbn [st1 rs_uid rs_q] in *.
    eapply rt_rel_perm; [apply Permutation_sym; exact P|].
    apply rt_rel_add; [cbn in Hev; lia|exact R].
  - unfold rt_tick, rt_fire_all.
    pose proof (rt_fire_rel (rt_budget (rs_q st)) st tr R) as H.
    destruct (rt_fire (rt_budget (rs_q st)) st) as [st1 o]. destruct H as [H _].
    destruct (rt_wait st1) as [w hd]. rewrite app_assoc. apply rt_rel_neutral; [|exact H].
    intros u; reflexivity.
  - unfold rt_ack, rt_fire_all. destruct (sq_remove (rs_q st) s m) as [[[t n] q']|] eqn:Rm.
    + destruct (rt_nodes_remove _ _ _ _ _ _ Rm) as [P _].
      assert (R1 : rt_rel (tr ++ [RoAcked (rs_now st) (qn_uid n)]) (rs_uid st) (rt_nodes q')).
      { eapply rt_rel_drop with (n := n) (tag := PAcked); [intros _; exact I| | |].
        - cbn. rewrite Z.eqb_refl. reflexivity.
        - intros u Hu. cbn. assert (X : (qn_uid n =? u) = false) by lia. rewrite X. reflexivity.
        - eapply rt_rel_perm; [exact P|exact R]. }
      pose proof (rt_fire_rel (rt_budget (rs_q (rt_set_q st q'))) (rt_set_q st q') _ R1) as H.
      destruct (rt_fire _ (rt_set_q st q')) as [st1 o]. destruct H as [H _].
      rewrite <- app_assoc in H. exact H.
    + pose proof (rt_fire_rel (rt_budget (rs_q st)) st tr R) as H.
      destruct (rt_fire (rt_budget (rs_q st)) st) as [st1 o]. destruct H as [H _]. exact H.
  - unfold rt_rst, rt_fire_all. destruct (sq_remove (rs_q st) s m) as [[[t n] q']|] eqn:Rm.
    + destruct (rt_nodes_remove _ _ _ _ _ _ Rm) as [P _].
      assert (R1 : rt_rel (tr ++ [RoNack (rs_now st) (qn_uid n) (qn_sess n) rt_NACK_RST (qn_mid n)
                                         (qn_cnt n) (qn_max n)])
                          (rs_uid st) (rt_nodes q')).
      { eapply rt_rel_drop with (n := n) (tag := PNack rt_NACK_RST (qn_cnt n) (qn_max n));
          [intros (A & B & M & O); cbn; repeat split; try lia; intros X; discriminate| | |].
        - cbn. rewrite Z.eqb_refl. reflexivity.
        - intros u Hu. cbn. assert (X : (qn_uid n =? u) = false) by lia. rewrite X. reflexivity.
        - eapply rt_rel_perm; [exact P|exact R]. }
      pose proof (rt_fire_rel (rt_budget (rs_q (rt_set_q st q'))) (rt_set_q st q') _ R1) as H.
      destruct (rt_fire _ (rt_set_q st q')) as [st1 o]. destruct H as [H _].
      rewrite <- app_assoc in H. exact H.
    + assert (R1 : rt_rel (tr ++ [RoNackNoPdu (rs_now st) s rt_NACK_RST m]) (rs_uid st) (rt_nodes (rs_q st))).
      { apply rt_rel_neutral; [intros u; reflexivity|exact R]. }
      pose proof (rt_fire_rel (rt_budget (rs_q st)) st _ R1) as H.
      destruct (rt_fire (rt_budget (rs_q st)) st) as [st1 o]. destruct H as [H _].
      rewrite <- app_assoc in H. exact H.
  - unfold rt_non, rt_fire_all.
    pose proof (rt_nodes_cancel (rt_tok_match s tok) (rs_q st)) as P.
    destruct (sq_cancel (rt_tok_match s tok) (rs_q st)) as [rm q']. cbn [fst snd] in P.
    assert (R1 : rt_rel (tr ++ map (fun n => RoAcked (rs_now st) (qn_uid n)) rm) (rs_uid st) (rt_nodes q')).
    { apply rt_rel_drop_acked. eapply rt_rel_perm; [exact P|exact R]. }
    pose proof (rt_fire_rel (rt_budget (rs_q (rt_set_q st q'))) (rt_set_q st q') _ R1) as H.
    destruct (rt_fire _ (rt_set_q st q')) as [st1 o]. destruct H as [H _].
    rewrite <- app_assoc in H. exact H.
  - unfold rt_disconnect.
    pose proof (rt_nodes_cancel (rt_sess_match s) (rs_q st)) as P.
    destruct (sq_cancel (rt_sess_match s) (rs_q st)) as [rm q']. cbn [fst snd rt_set_q rs_uid rs_q] in *.
    destruct rm as [|n rm].
    + apply rt_rel_neutral; [intros u; reflexivity|]. eapply rt_rel_perm; [exact P|exact R].
    + apply rt_rel_drop_nacked; [cbn in Hev; tauto|]. eapply rt_rel_perm; [exact P|exact R].
  - unfold rt_delete. destruct (sq_remove (rs_q st) s m) as [[[t n] q']|] eqn:Rm.
    + destruct (rt_nodes_remove _ _ _ _ _ _ Rm) as [P _]. cbn [rt_set_q rs_uid rs_q].
      eapply rt_rel_drop with (n := n) (tag := PAcked); [intros _; exact I| | |].
      * cbn. rewrite Z.eqb_refl. reflexivity.
      * intros u Hu. cbn. assert (X : (qn_uid n =? u) = false) by lia. rewrite X. reflexivity.
      * eapply rt_rel_perm; [exact P|exact R].
    + rewrite app_nil_r. exact R.
  - unfold rt_io_process, rt_fire_all.
    pose proof (rt_fire_rel (rt_budget (rs_q st)) st tr R) as H1.
    destruct (rt_fire (rt_budget (rs_q st)) st) as [st1 o1]. destruct H1 as [R1 _].
    destruct (rt_wait st1) as [w hd]. set (et := rt_epoll_timeout w tmo).
    set (st2 := rt_mk_state _ (rs_base st1) (rs_q st1) (rs_uid st1)).
    assert (R2 : rt_rel ((tr ++ o1) ++ [RoEpoll (rs_now st1) et]) (rs_uid st2) (rt_nodes (rs_q st2)))
      by (apply rt_rel_neutral; [intros u; reflexivity|exact R1]).
    pose proof (rt_fire_rel (rt_budget (rs_q st2)) st2 _ R2) as H3.
    destruct (rt_fire (rt_budget (rs_q st2)) st2) as [st3 o3]. destruct H3 as [R3 _].
    replace (tr ++ o1 ++ RoEpoll (rs_now st1) et :: o3 ++ [RoIoRet (rs_now st3) (rs_now st3 - rs_now st)])
      with ((((tr ++ o1) ++ [RoEpoll (rs_now st1) et]) ++ o3) ++ [RoIoRet (rs_now st3) (rs_now st3 - rs_now st)])
      by (repeat rewrite <- app_assoc; reflexivity).
    apply rt_rel_neutral; [intros u; reflexivity|exact R3].
  - apply rt_rel_neutral; [intros u; reflexivity|exact R].
Qed.

Lemma rt_run_rel : forall evs st tr,
  Forall rt_ev_ok evs ->
  rt_rel tr (rs_uid st) (rt_nodes (rs_q st)) ->
  let (st', o) := rt_run st evs in
  rt_rel (tr ++ o) (rs_uid st') (rt_nodes (rs_q st')).
Proof.
  induction evs as [|ev rest IH]; intros st tr F R; cbn [rt_run].
  - rewrite app_nil_r. exact R.
  - inversion F; subst. pose proof (rt_step_rel st ev tr H1 R) as H.
    destruct (rt_step st ev) as [st1 o1]. specialize (IH st1 (tr ++ o1) H2 H).
    destruct (rt_run st1 rest) as [st2 o2]. rewrite app_assoc. exact IH.
Qed.

(* ------------------------------------------------------------------ C06_one_outcome *)
(* the three possible shapes of a message's history *)
Definition rt_shape (l : list rt_tag) : Prop :=
  l = [] \/                                                   (* never accepted *)
  (exists b j, l = repeat (PTx b) (S j) /\ (j <= 255)%nat) \/ (* pending: transmissions only *)
  rt_closed l.                                                (* transmissions, one outcome *)

Theorem rt_one_outcome : forall t0 evs u,
  Forall rt_ev_ok evs ->
  let (st, tr) := rt_run (rt_init t0) evs in
  rt_shape (rt_proj u tr) /\
  (* pending <-> still queued, and then it was transmitted retransmit_cnt + 1 times, at most
     max_retransmit + 1 *)
  (forall n, In n (rt_nodes (rs_q st)) -> qn_uid n = u ->
     rt_proj u tr = repeat (PTx (qn_bytes n)) (S (Z.to_nat (qn_cnt n))) /\
     0 <= qn_cnt n <= qn_max n) /\
  (~ In u (map qn_uid (rt_nodes (rs_q st))) -> rt_proj u tr = [] \/ rt_closed (rt_proj u tr)).
Proof.
  intros t0 evs u F.
  pose proof (rt_run_rel evs (rt_init t0) [] F rt_rel_init) as H.
  destruct (rt_run (rt_init t0) evs) as [st tr]. cbn [app] in H.
  destruct H as (K & D & Fn & C).
  assert (Q : forall n, In n (rt_nodes (rs_q st)) -> qn_uid n = u ->
     rt_proj u tr = repeat (PTx (qn_bytes n)) (S (Z.to_nat (qn_cnt n))) /\
     0 <= qn_cnt n <= qn_max n /\ qn_max n <= 255).
  { intros n I E. rewrite Forall_forall in Fn. destruct (Fn n I) as (A & B & M & O).
    subst u. unfold rt_open in O. tauto. }
  assert (Cl : ~ In u (map qn_uid (rt_nodes (rs_q st))) -> rt_proj u tr = [] \/ rt_closed (rt_proj u tr)).
  { intros Hu. destruct (C u Hu) as [C1 C2].
    destruct (Z_le_gt_dec 0 u); [destruct (Z_lt_le_dec u (rs_uid st))|].
    - right. apply C1. lia.
    - left. apply C2. lia.
    - left. apply C2. lia. }
  split; [|split].
  - destruct (in_dec Z.eq_dec u (map qn_uid (rt_nodes (rs_q st)))) as [I|NI].
    + apply in_map_iff in I. destruct I as (n & E & I). destruct (Q n I E) as (P & B & M).
      right; left. exists (qn_bytes n), (Z.to_nat (qn_cnt n)). split; [exact P|lia].
    + destruct (Cl NI) as [E|E]; [left; exact E|right; right; exact E].
  - intros n I E. destruct (Q n I E) as (P & B & M). tauto.
  - exact Cl.
Qed.

(* ------------------------------------------------------------------ other ids, other sessions *)
(* An ACK or RST whose (session, mid) is not in the queue is, for the queue, just a prepare call
   whose result nobody sees (plus, for RST, a handler call without PDU). *)
Theorem rt_unknown_ack_rst : forall st s m,
  sq_remove (rs_q st) s m = None ->
  rt_step st (RtAck s m) = rt_fire_all st /\
  rt_step st (RtRst s m) =
    (fst (rt_fire_all st), RoNackNoPdu (rs_now st) s rt_NACK_RST m :: snd (rt_fire_all st)).
Proof.
  intros st s m H. cbn [rt_step]. unfold rt_ack, rt_rst. rewrite H.
  destruct (rt_fire_all st); split; reflexivity.
Qed.

(* One that is in the queue removes exactly the first node of that session with that mid; all
   other messages - other mids, other sessions - keep their deadlines and counters. *)
Theorem rt_known_ack_rst : forall st s m t n q',
  sq_remove (rs_q st) s m = Some ((t, n), q') ->
  qn_sess n = s /\ qn_mid n = m /\
  (exists l1 l2 d, sq_abs (rs_base st) (rs_q st) = l1 ++ (d, n) :: l2 /\
                   sq_abs (rs_base st) q' = l1 ++ l2 /\
                   Forall (fun x => sq_match s m (snd x) = false) l1) /\
  rt_step st (RtAck s m) =
    (fst (rt_fire_all (rt_set_q st q')), RoAcked (rs_now st) (qn_uid n) :: snd (rt_fire_all (rt_set_q st q'))) /\
  rt_step st (RtRst s m) =
    (fst (rt_fire_all (rt_set_q st q')),
     RoNack (rs_now st) (qn_uid n) (qn_sess n) rt_NACK_RST (qn_mid n) (qn_cnt n) (qn_max n)
       :: snd (rt_fire_all (rt_set_q st q'))).
Proof.
  intros st s m t n q' H.
  destruct (sq_remove_others _ (rs_base st) _ _ _ _ _ H) as (l1 & l2 & d & E1 & E2 & M & F).
  unfold sq_match in M. apply andb_true_iff in M. destruct M as [M1 M2].
  split; [lia|]. split; [lia|]. split; [exists l1, l2, d; auto|].
  cbn [rt_step]. unfold rt_ack, rt_rst. rewrite H.
  destruct (rt_fire_all (rt_set_q st q')); split; reflexivity.
Qed.

(* ------------------------------------------------------------------ session disconnect *)
(* coap_session_disconnected: exactly the session's messages leave the queue, each with one NACK
   call, in queue order; the messages of all other sessions keep deadline and place *)
Theorem rt_disconnect_spec : forall st s reason,
  let (st', o) := rt_disconnect st s reason in
  sq_abs (rs_base st') (rs_q st') =
    filter (fun e => negb (rt_sess_match s (snd e))) (sq_abs (rs_base st) (rs_q st)) /\
  rs_now st' = rs_now st /\
  let rm := filter (rt_sess_match s) (rt_nodes (rs_q st)) in
  o = match rm with
      | [] => [RoNackNoPdu (rs_now st) s reason 0]
      | _ => map (rt_nack_of (rs_now st) reason) rm
      end.
Proof.
  intros st s reason. unfold rt_disconnect.
  destruct (sq_abs_cancel (rt_sess_match s) (rs_q st) (rs_base st)) as [A B].
  destruct (sq_cancel (rt_sess_match s) (rs_q st)) as [rm q']. cbn [fst snd] in *.
  cbn [rt_set_q rs_base rs_q rs_now]. split; [exact A|]. split; [reflexivity|].
  unfold rt_nodes. rewrite <- B. reflexivity.
Qed.

(* before the repair the first queued message of the session was reported twice *)
Theorem rt_disconnect_old_double_nack : exists st s reason u,
  reason <> rt_NACK_TOO_MANY_RETRIES /\ reason <> rt_NACK_ICMP_ISSUE /\
  rt_proj u (snd (rt_disconnect_old st s reason)) = [PNack reason 0 4; PNack reason 0 4].
Proof.
  exists (rt_mk_state 600 0 [(2000, sq_mk_node 0 0 10 0 2000 4 []); (500, sq_mk_node 1 1 20 0 2000 4 [])] 2),
         0, 1, 0.
  split; [discriminate|]. split; [discriminate|]. vm_compute. reflexivity.
Qed.

(* ------------------------------------------------------------------ deleting a linked node *)
(* coap_delete_node on a queued node: exactly that node leaves, silently; every other message
   keeps deadline, counter and place; nothing queued under that (session, mid): nothing happens *)
Theorem rt_delete_spec : forall st s m,
  (forall t n q', sq_remove (rs_q st) s m = Some ((t, n), q') ->
     rt_delete st s m = (rt_set_q st q', [RoAcked (rs_now st) (qn_uid n)]) /\
     exists l1 l2 d, sq_abs (rs_base st) (rs_q st) = l1 ++ (d, n) :: l2 /\
                     sq_abs (rs_base st) q' = l1 ++ l2) /\
  (sq_remove (rs_q st) s m = None -> rt_delete st s m = (st, [])).
Proof.
  intros st s m. split.
  - intros t n q' H. unfold rt_delete. rewrite H. split; [reflexivity|].
    destruct (sq_remove_others _ (rs_base st) _ _ _ _ _ H) as (l1 & l2 & d & E1 & E2 & _ & _).
    exists l1, l2, d. auto.
  - intros H. unfold rt_delete. rewrite H. reflexivity.
Qed.

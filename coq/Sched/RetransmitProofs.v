(* C06 - one outcome per message: invariants of the retransmission machine (proofs).
   For EVERY event sequence (any number of messages and sessions, ACK/RST at any time, repeated
   or for unknown ids, any tick times) the outputs that concern one message are
        Tx b, Tx b, ..., Tx b  [ Acked | Nack r ]
   with the same bytes b each time, at most max_retransmit + 1 transmissions, and nothing after
   the outcome; a message without outcome is still in the queue. *)
From LibcoapV Require Import Base.Tactics Sched.FixedPoint Sched.SendQueue Sched.SendQueueProofs
  Sched.Retransmit.
From Coq Require Import Sorting.Permutation.
Local Open Scope Z_scope.

(* ------------------------------------------------------------------ the nodes of a queue *)
Definition rt_nodes (q : sq_queue) : list sq_node := map snd q.

Lemma rt_nodes_ins_go : forall q t n, Permutation (rt_nodes (sq_ins_go t n q)) (n :: rt_nodes q).
Proof.
  induction q as [|[t1 n1] rest IH]; intros t n; [apply Permutation_refl|].
  cbn [sq_ins_go]. destruct (t1 <=? t).
  - cbn [rt_nodes map snd]. fold (rt_nodes (sq_ins_go (t - t1) n rest)).
    eapply Permutation_trans; [apply perm_skip; apply IH|]. apply perm_swap.
  - apply Permutation_refl.
Qed.

Lemma rt_nodes_insert : forall q t n, Permutation (rt_nodes (sq_insert q t n)) (n :: rt_nodes q).
Proof. intros. rewrite sq_insert_eq_go. apply rt_nodes_ins_go. Qed.

Lemma rt_nodes_bump : forall d q, rt_nodes (sq_bump d q) = rt_nodes q.
Proof. intros d [|[t n] r]; reflexivity. Qed.

Lemma rt_nodes_pop : forall q t n q', sq_pop q = Some ((t, n), q') -> rt_nodes q = n :: rt_nodes q'.
Proof.
  intros [|[t0 n0] rest] t n q' H; [discriminate|]. cbn in H. inversion H; subst.
  cbn. rewrite rt_nodes_bump. reflexivity.
Qed.

Lemma rt_nodes_remove : forall q s m t n q', sq_remove q s m = Some ((t, n), q') ->
  Permutation (rt_nodes q) (n :: rt_nodes q') /\ sq_match s m n = true.
Proof.
  induction q as [|[t0 n0] rest IH]; intros s m t n q' H; [discriminate|].
  cbn [sq_remove] in H. destruct (sq_match s m n0) eqn:E.
  - inversion H; subst. cbn. rewrite rt_nodes_bump. split; [apply Permutation_refl|exact E].
  - destruct (sq_remove rest s m) as [[[t1 n1] r1]|] eqn:R; [|discriminate].
    inversion H; subst. destruct (IH s m t n r1 R) as [P M]. split; [|exact M].
    cbn. eapply Permutation_trans; [apply perm_skip; exact P|]. apply perm_swap.
Qed.

Lemma rt_remove_none_nodes : forall q s m, sq_remove q s m = None ->
  Forall (fun n => sq_match s m n = false) (rt_nodes q).
Proof.
  induction q as [|[t0 n0] rest IH]; intros s m H; [constructor|].
  cbn [sq_remove] in H. destruct (sq_match s m n0) eqn:E; [discriminate|].
  destruct (sq_remove rest s m) as [[e r]|] eqn:R; [discriminate|].
  cbn. constructor; [exact E|apply IH; exact R].
Qed.

Lemma rt_nodes_cancel : forall p q,
  Permutation (rt_nodes q) (fst (sq_cancel p q) ++ rt_nodes (snd (sq_cancel p q))).
Proof.
  intros p q. unfold sq_cancel. generalize 0 as carry. induction q as [|[t n] rest IH]; intros carry.
  - apply Permutation_refl.
  - cbn [sq_cancel_go]. destruct (p n).
    + specialize (IH (carry + t)). destruct (sq_cancel_go p (carry + t) rest) as [rm q'].
      cbn [fst snd rt_nodes map app] in *. apply perm_skip. exact IH.
    + specialize (IH 0). destruct (sq_cancel_go p 0 rest) as [rm q'].
      cbn [fst snd rt_nodes map app] in *. apply Permutation_cons_app. exact IH.
Qed.

(* ------------------------------------------------------------------ projection on one message *)
Inductive rt_tag := PTx (b : list Z) | PNack (r c mx : Z) | PAcked.

Definition rt_proj1 (u : Z) (o : rt_out) : list rt_tag :=
  match o with
  | RoTx _ u' _ b _ _ => if u' =? u then [PTx b] else []
  | RoNack _ u' _ r _ c mx => if u' =? u then [PNack r c mx] else []
  | RoAcked _ u' => if u' =? u then [PAcked] else []
  | _ => []
  end.
Definition rt_proj (u : Z) (tr : list rt_out) : list rt_tag := flat_map (rt_proj1 u) tr.

Lemma rt_proj_app : forall u a b, rt_proj u (a ++ b) = rt_proj u a ++ rt_proj u b.
Proof. intros. unfold rt_proj. apply flat_map_app. Qed.

(* a closed history: transmissions of the same bytes, then exactly one outcome *)
(* an outcome after j transmissions: removed by an ACK (or implicitly acknowledged, or deleted), or
   one NACK call - the node's counter c then is j - 1, and if the reason is TOO_MANY_RETRIES then
   c is exactly the message's max_retransmit (the other reasons: RST from the peer, or the reason
   given to coap_session_disconnected; only the latter can hit a message that still waits for an
   NSTART slot: c = -1, j = 0) *)
Definition rt_outcome_ok (j : nat) (o : rt_tag) : Prop :=
  match o with
  | PAcked => True
  | PNack r c mx => Z.of_nat j = c + 1 /\ -1 <= c <= mx /\ mx <= 255 /\
                    (r = rt_NACK_TOO_MANY_RETRIES -> c = mx)
  | PTx _ => False
  end.
Definition rt_closed (l : list rt_tag) : Prop :=
  exists b j o, l = repeat (PTx b) j ++ [o] /\ (j <= 256)%nat /\ rt_outcome_ok j o.
(* an open history of a pending node: cnt + 1 transmissions of its bytes (none while it waits
   for a slot, cnt = -1) *)
Definition rt_open (n : sq_node) (l : list rt_tag) : Prop :=
  l = repeat (PTx (qn_bytes n)) (Z.to_nat (qn_cnt n + 1)).

Definition rt_node_ok (tr : list rt_out) (k : Z) (n : sq_node) : Prop :=
  0 <= qn_uid n < k /\ -1 <= qn_cnt n <= qn_max n /\ 0 <= qn_max n <= 255 /\
  rt_open n (rt_proj (qn_uid n) tr).

(* the relation between the outputs so far, the number of accepted messages and the pending
   messages (queued or waiting for a slot) *)
Definition rt_rel (tr : list rt_out) (k : Z) (ns : list sq_node) : Prop :=
  0 <= k /\
  NoDup (map qn_uid ns) /\
  Forall (rt_node_ok tr k) ns /\
  (forall u, ~ In u (map qn_uid ns) ->
     (0 <= u < k -> rt_closed (rt_proj u tr)) /\ (~ 0 <= u < k -> rt_proj u tr = [])).

Lemma rt_rel_perm : forall tr k ns ns', Permutation ns ns' -> rt_rel tr k ns -> rt_rel tr k ns'.
Proof.
  intros tr k ns ns' P (K & D & F & C). split; [exact K|]. split; [|split].
  - eapply Permutation_NoDup; [apply Permutation_map; exact P|exact D].
  - eapply Permutation_Forall; eauto.
  - intros u Hu. apply C. intros I. apply Hu.
    eapply Permutation_in; [apply Permutation_map; exact P|exact I].
Qed.

Lemma rt_rel_init : rt_rel [] 0 [].
Proof.
  split; [lia|]. split; [constructor|]. split; [constructor|].
  intros u _. split; [lia|reflexivity].
Qed.

(* outputs that mention no message *)
Definition rt_neutral (o : list rt_out) : Prop := forall u, rt_proj u o = [].

Lemma rt_rel_neutral : forall tr k ns o, rt_neutral o -> rt_rel tr k ns -> rt_rel (tr ++ o) k ns.
Proof.
  intros tr k ns o N (K & D & F & C). split; [exact K|]. split; [exact D|]. split.
  - eapply Forall_impl; [|exact F]. intros n (A & B & M & O). repeat split; try lia.
    unfold rt_open in *. rewrite rt_proj_app, N, app_nil_r. exact O.
  - intros u Hu. rewrite rt_proj_app, N, app_nil_r. apply C. exact Hu.
Qed.

(* a new message with fresh uid k: o is what the trace gets (its first transmission, or nothing
   while it waits), c its counter (0, or -1) *)
Lemma rt_rel_add_gen : forall tr k ns s m b T mx c o,
  0 <= mx <= 255 -> -1 <= c <= 0 ->
  rt_proj k o = repeat (PTx b) (Z.to_nat (c + 1)) ->
  (forall u, u <> k -> rt_proj u o = []) ->
  rt_rel tr k ns ->
  rt_rel (tr ++ o) (k + 1) (sq_mk_node k s m c T mx b :: ns).
Proof.
  intros tr k ns s m b T mx c o Hmx Hc Po Pother (K & D & F & C).
  assert (Fresh : ~ In k (map qn_uid ns)).
  { intros I. apply in_map_iff in I. destruct I as (n & E & I).
    rewrite Forall_forall in F. destruct (F n I) as (A & _). lia. }
  split; [lia|]. split; [|split].
  - cbn. constructor; assumption.
  - constructor.
    + unfold rt_node_ok, rt_open. cbn [qn_uid qn_cnt qn_max qn_bytes]. repeat split; try lia.
      rewrite rt_proj_app. destruct (C k Fresh) as [_ E]. rewrite E by lia. exact Po.
    + rewrite Forall_forall in *. intros n I. destruct (F n I) as (A & B & M & O).
      repeat split; try lia. unfold rt_open in *. rewrite rt_proj_app, Pother, app_nil_r; [exact O|lia].
  - intros u Hu. cbn in Hu. assert (Hk : u <> k) by (intros X; apply Hu; left; congruence).
    assert (Hn : ~ In u (map qn_uid ns)) by tauto.
    rewrite rt_proj_app, (Pother u Hk), app_nil_r.
    destruct (C u Hn) as [C1 C2]. split; intros; [apply C1|apply C2]; lia.
Qed.

Lemma rt_rel_add : forall tr k ns t s m b T mx,
  0 <= mx <= 255 ->
  rt_rel tr k ns ->
  rt_rel (tr ++ [RoTx t k s b 0 T; RoSent m]) (k + 1) (sq_mk_node k s m 0 T mx b :: ns).
Proof.
  intros. apply rt_rel_add_gen; auto; try lia.
  - cbn. rewrite Z.eqb_refl. reflexivity.
  - intros u Hu. cbn. assert (X : (k =? u) = false) by lia. rewrite X. reflexivity.
Qed.

Lemma rt_rel_add_held : forall tr k ns s m b T mx,
  0 <= mx <= 255 ->
  rt_rel tr k ns ->
  rt_rel (tr ++ [RoSent m]) (k + 1) (sq_mk_node k s m (-1) T mx b :: ns).
Proof. intros. apply rt_rel_add_gen; auto; try lia; reflexivity. Qed.

(* a pending node is transmitted (again, or for the first time) and its counter goes up *)
Lemma rt_rel_bump : forall tr k n ns t c,
  c = qn_cnt n + 1 -> qn_cnt n < qn_max n ->
  rt_rel tr k (n :: ns) ->
  rt_rel (tr ++ [RoTx t (qn_uid n) (qn_sess n) (qn_bytes n) c (qn_timeout n)]) k
         (rt_bump_node n c :: ns).
Proof.
  intros tr k n ns t c Ec Hc (K & D & F & C). inversion F as [|? ? (A & B & M & O) F']; subst.
  cbn in D. inversion D as [|? ? Dn D']; subst.
  split; [exact K|]. split; [|split].
  - cbn. constructor; assumption.
  - constructor.
    + unfold rt_node_ok, rt_open, rt_bump_node in *. cbn [qn_uid qn_cnt qn_max qn_bytes].
      repeat split; try lia. rewrite rt_proj_app, O. cbn [rt_proj flat_map rt_proj1].
      rewrite Z.eqb_refl. change ([PTx (qn_bytes n)] ++ []) with [PTx (qn_bytes n)].
      replace (Z.to_nat (qn_cnt n + 1 + 1)) with (S (Z.to_nat (qn_cnt n + 1))) by lia.
      rewrite <- repeat_cons. reflexivity.
    + rewrite Forall_forall in *. intros n' I. destruct (F' n' I) as (A' & B' & M' & O').
      repeat split; try lia. unfold rt_open in *. rewrite rt_proj_app.
      assert (Ne : (qn_uid n =? qn_uid n') = false).
      { apply Z.eqb_neq. intros E. apply Dn. rewrite E. apply in_map. exact I. }
      cbn. rewrite Ne. cbn. rewrite app_nil_r. exact O'.
  - intros u Hu. cbn [map qn_uid rt_bump_node] in Hu. cbn in Hu.
    assert (Ne : (qn_uid n =? u) = false) by (apply Z.eqb_neq; tauto).
    rewrite rt_proj_app. cbn. rewrite Ne. cbn. rewrite app_nil_r. apply C. cbn. tauto.
Qed.

(* a pending node ends with one outcome *)
Lemma rt_rel_drop : forall tr k n ns o tag,
  (rt_node_ok tr k n -> rt_outcome_ok (Z.to_nat (qn_cnt n + 1)) tag) ->
  rt_proj (qn_uid n) o = [tag] ->
  (forall u, u <> qn_uid n -> rt_proj u o = []) ->
  rt_rel tr k (n :: ns) ->
  rt_rel (tr ++ o) k ns.
Proof.
  intros tr k n ns o tag Ho Po Pother (K & D & F & C).
  inversion F as [|? ? NO F']; subst. pose proof (Ho NO) as Ho'. destruct NO as (A & B & M & O).
  cbn in D. inversion D as [|? ? Dn D']; subst.
  split; [exact K|]. split; [exact D'|]. split.
  - rewrite Forall_forall in *. intros n' I. destruct (F' n' I) as (A' & B' & M' & O').
    repeat split; try lia. unfold rt_open in *. rewrite rt_proj_app, Pother, app_nil_r; [exact O'|].
    intros E. apply Dn. rewrite <- E. apply in_map. exact I.
  - intros u Hu. rewrite rt_proj_app. destruct (Z.eq_dec u (qn_uid n)) as [E|Ne].
    + subst u. rewrite Po. split; [|intros; lia]. intros _.
      unfold rt_open in O. rewrite O. exists (qn_bytes n), (Z.to_nat (qn_cnt n + 1)), tag.
      split; [reflexivity|]. split; [lia|exact Ho'].
    + rewrite Pother by exact Ne. rewrite app_nil_r. apply C. cbn.
      intros [X|X]; [apply Ne; congruence|apply Hu; exact X].
Qed.

(* several nodes end, each with the ghost mark of an (implicit) acknowledgement *)
Lemma rt_rel_drop_acked : forall t rm tr k ns,
  rt_rel tr k (rm ++ ns) ->
  rt_rel (tr ++ map (fun n => RoAcked t (qn_uid n)) rm) k ns.
Proof.
  induction rm as [|n rm IH]; intros tr k ns R; cbn [map app] in *.
  - rewrite app_nil_r. exact R.
  - replace (tr ++ RoAcked t (qn_uid n) :: map (fun n0 => RoAcked t (qn_uid n0)) rm)
      with ((tr ++ [RoAcked t (qn_uid n)]) ++ map (fun n0 => RoAcked t (qn_uid n0)) rm)
      by (rewrite <- app_assoc; reflexivity).
    apply IH. eapply rt_rel_drop with (n := n) (tag := PAcked); [intros _; exact I| | |exact R].
    + cbn. rewrite Z.eqb_refl. reflexivity.
    + intros u Hu. cbn. assert (X : (qn_uid n =? u) = false) by lia. rewrite X. reflexivity.
Qed.

(* several nodes end, each with one NACK call of the same reason *)
Lemma rt_rel_drop_nacked : forall t reason rm tr k ns,
  reason <> rt_NACK_TOO_MANY_RETRIES ->
  rt_rel tr k (rm ++ ns) ->
  rt_rel (tr ++ map (rt_nack_of t reason) rm) k ns.
Proof.
  intros t reason. induction rm as [|n rm IH]; intros tr k ns Hr R; cbn [map app] in *.
  - rewrite app_nil_r. exact R.
  - replace (tr ++ rt_nack_of t reason n :: map (rt_nack_of t reason) rm)
      with ((tr ++ [rt_nack_of t reason n]) ++ map (rt_nack_of t reason) rm)
      by (rewrite <- app_assoc; reflexivity).
    apply IH; [exact Hr|].
    eapply rt_rel_drop with (n := n) (tag := PNack reason (qn_cnt n) (qn_max n)); [| | |exact R].
    + intros (A & B & M & O). cbn. repeat split; try lia; intros X; contradiction.
    + cbn. rewrite Z.eqb_refl. reflexivity.
    + intros u Hu. cbn. assert (X : (qn_uid n =? u) = false) by lia. rewrite X. reflexivity.
Qed.

(* ------------------------------------------------------------------ the session table *)
Lemma rt_sget_sset : forall s e tbl, rt_sget s (rt_sset s e tbl) = e.
Proof.
  intros s e. induction tbl as [|[k e0] r IH]; cbn.
  - rewrite Z.eqb_refl. reflexivity.
  - destruct (k =? s) eqn:E; cbn; rewrite E; [reflexivity|exact IH].
Qed.

Lemma rt_sget_sset_other : forall s s' e tbl, s' <> s -> rt_sget s' (rt_sset s e tbl) = rt_sget s' tbl.
Proof.
  intros s s' e tbl Hs. induction tbl as [|[k e0] r IH]; cbn.
  - assert (X : (s =? s') = false) by lia. rewrite X. reflexivity.
  - destruct (k =? s) eqn:E; cbn.
    + assert (X : (k =? s') = false) by lia. rewrite X. reflexivity.
    + destruct (k =? s'); [reflexivity|exact IH].
Qed.

Lemma rt_sset_sset : forall s e1 e2 tbl, rt_sset s e2 (rt_sset s e1 tbl) = rt_sset s e2 tbl.
Proof.
  intros s e1 e2. induction tbl as [|[k e0] r IH]; cbn.
  - rewrite Z.eqb_refl. reflexivity.
  - destruct (k =? s) eqn:E; cbn; rewrite E; [reflexivity|]. rewrite IH. reflexivity.
Qed.

(* the waiting messages of the table: those of session s, and the rest which an update of s
   does not touch *)
Lemma rt_held_get_set : forall s tbl, exists rest,
  Permutation (rt_held tbl) (si_hold (rt_sget s tbl) ++ rest) /\
  forall e, Permutation (rt_held (rt_sset s e tbl)) (si_hold e ++ rest).
Proof.
  intros s. induction tbl as [|[k e0] r IH].
  - exists []. split; [apply Permutation_refl|]. intros e. cbn. apply Permutation_refl.
  - cbn [rt_sget rt_sset]. destruct (k =? s) eqn:E.
    + exists (rt_held r). split; [apply Permutation_refl|]. intros e. apply Permutation_refl.
    + destruct IH as (rest & P1 & P2). exists (si_hold e0 ++ rest). split.
      * cbn [rt_held flat_map snd]. fold (rt_held r).
        eapply Permutation_trans; [apply Permutation_app_head; exact P1|].
        rewrite !app_assoc. apply Permutation_app_tail. apply Permutation_app_comm.
      * intros e. cbn [rt_held flat_map snd]. fold (rt_held (rt_sset s e r)).
        eapply Permutation_trans; [apply Permutation_app_head; apply P2|].
        rewrite !app_assoc. apply Permutation_app_tail. apply Permutation_app_comm.
Qed.

(* every entry of the table keeps con_active between 0 and NSTART *)
Definition rt_sinfo_ok (e : rt_sinfo) : Prop := 0 <= si_active e <= si_nstart e /\ 1 <= si_nstart e.
Definition rt_slots_ok (tbl : list (Z * rt_sinfo)) : Prop := Forall (fun p => rt_sinfo_ok (snd p)) tbl.

Lemma rt_sget_ok : forall s tbl, rt_slots_ok tbl -> rt_sinfo_ok (rt_sget s tbl).
Proof.
  intros s. induction tbl as [|[k e] r IH]; intros H; cbn.
  - unfold rt_sinfo_ok. cbn. lia.
  - inversion H; subst. destruct (k =? s); [assumption|apply IH; assumption].
Qed.

Lemma rt_sset_ok : forall s e tbl, rt_sinfo_ok e -> rt_slots_ok tbl -> rt_slots_ok (rt_sset s e tbl).
Proof.
  intros s e. induction tbl as [|[k e0] r IH]; intros He H; cbn.
  - constructor; [exact He|constructor].
  - inversion H; subst. destruct (k =? s); constructor; auto. apply IH; assumption.
Qed.

(* all pending messages of a state *)
Definition rt_live (st : rt_state) : list sq_node := rt_nodes (rs_q st) ++ rt_held (rs_sess st).

(* the invariant behind one_outcome: rt_rel over the pending messages (plus those in extra: a node
   that has just been taken out of the queue and is being processed); the waiting ones have
   counter -1; slots are within NSTART *)
Definition rt_invx (tr : list rt_out) (st : rt_state) (extra : list sq_node) : Prop :=
  rt_rel tr (rs_uid st) (extra ++ rt_live st) /\
  Forall (fun n => qn_cnt n = -1) (rt_held (rs_sess st)) /\
  rt_slots_ok (rs_sess st).
Definition rt_inv (tr : list rt_out) (st : rt_state) : Prop := rt_invx tr st [].

(* ------------------------------------------------------------------ the machine keeps it *)
Lemma rt_enqueue_nodes : forall st n d,
  Permutation (rt_nodes (rs_q (rt_enqueue st n d))) (n :: rt_nodes (rs_q st)) /\
  rs_uid (rt_enqueue st n d) = rs_uid st /\ rs_now (rt_enqueue st n d) = rs_now st /\
  rs_sess (rt_enqueue st n d) = rs_sess st.
Proof.
  intros st n d. unfold rt_enqueue. destruct (rs_q st) as [|e q] eqn:E.
  - cbn. repeat split. apply Permutation_refl.
  - cbn [rs_q rt_set_q rs_uid rs_now rs_sess]. repeat split. apply rt_nodes_insert.
Qed.

(* releasing waiting messages: each one moves to the queue with its first transmission *)
Lemma rt_release_go_rel : forall dq st ns ca tr extra rest,
  rt_rel tr (rs_uid st) (extra ++ rt_nodes (rs_q st) ++ dq ++ rest) ->
  Forall (fun n => qn_cnt n = -1) dq -> 0 <= ca <= ns ->
  match rt_release_go st ns ca dq with
  | (st2, ca2, dq2, o) =>
      rt_rel (tr ++ o) (rs_uid st2) (extra ++ rt_nodes (rs_q st2) ++ dq2 ++ rest) /\
      rs_uid st2 = rs_uid st /\ rs_sess st2 = rs_sess st /\ rs_now st2 = rs_now st /\
      Forall (fun n => qn_cnt n = -1) dq2 /\ 0 <= ca2 <= ns
  end.
Proof.
  induction dq as [|n dq IH]; intros st ns ca tr extra rest R H Hca; cbn [rt_release_go].
  - rewrite app_nil_r. split; [exact R|]. repeat split; try lia. constructor.
  - destruct (ns <=? ca) eqn:Ens; [rewrite app_nil_r; split; [exact R|]; repeat split; try lia; exact H|].
    inversion H as [|? ? Hn H']; subst.
    set (c := qn_cnt n + 1). set (st1 := rt_enqueue st (rt_bump_node n c) (qn_timeout n * 2 ^ c)).
    destruct (rt_enqueue_nodes st (rt_bump_node n c) (qn_timeout n * 2 ^ c)) as (P & U & N & S).
    fold st1 in P, U, N, S.
    assert (R1 : rt_rel (tr ++ [RoTx (rs_now st) (qn_uid n) (qn_sess n) (qn_bytes n) c (qn_timeout n)])
                        (rs_uid st1) (extra ++ rt_nodes (rs_q st1) ++ dq ++ rest)).
    { rewrite U.
      eapply rt_rel_perm with (ns := rt_bump_node n c :: (extra ++ rt_nodes (rs_q st) ++ dq ++ rest)).
      - apply Permutation_sym.
        eapply Permutation_trans; [apply Permutation_app_head; apply Permutation_app_tail; exact P|].
        cbn [app]. apply Permutation_sym. apply Permutation_middle.
      - assert (Rn : rt_rel tr (rs_uid st) (n :: extra ++ rt_nodes (rs_q st) ++ dq ++ rest)).
        { eapply rt_rel_perm; [|exact R]. apply Permutation_sym.
          eapply Permutation_trans; [apply Permutation_middle|]. apply Permutation_app_head.
          eapply Permutation_trans; [apply Permutation_middle|]. apply Permutation_refl. }
        destruct Rn as (K & D & F & C). inversion F as [|? ? (A & B & M & O) F']; subst.
        apply rt_rel_bump; [reflexivity|lia|]. split; [exact K|split; [exact D|split; [exact F|exact C]]]. }
    specialize (IH st1 ns (ca + 1) _ extra rest R1 H' ltac:(lia)).
    destruct (rt_release_go st1 ns (ca + 1) dq) as [[[st2 ca2] dq2] o2].
    destruct IH as (R2 & U2 & S2 & N2 & H2 & C2).
    replace (tr ++ RoTx (rs_now st) (qn_uid n) (qn_sess n) (qn_bytes n) c (qn_timeout n) :: o2)
      with ((tr ++ [RoTx (rs_now st) (qn_uid n) (qn_sess n) (qn_bytes n) c (qn_timeout n)]) ++ o2)
      by (rewrite <- app_assoc; reflexivity).
    split; [exact R2|]. split; [congruence|]. split; [congruence|]. split; [congruence|]. split; [exact H2|exact C2].
Qed.

Lemma rt_release_inv : forall st s tr extra, rt_invx tr st extra ->
  rt_invx (tr ++ snd (rt_release st s)) (fst (rt_release st s)) extra /\
  rs_now (fst (rt_release st s)) = rs_now st.
Proof.
  intros st s tr extra (R & H & SO). unfold rt_release.
  destruct (rt_held_get_set s (rs_sess st)) as (rest & P1 & P2).
  pose proof (rt_sget_ok s _ SO) as Oks.
  set (si := rt_sget s (rs_sess st)) in *.
  assert (Hs : Forall (fun n => qn_cnt n = -1) (si_hold si)).
  { eapply Permutation_Forall in H; [|exact P1]. apply Forall_app in H. tauto. }
  assert (Hr : Forall (fun n => qn_cnt n = -1) rest).
  { eapply Permutation_Forall in H; [|exact P1]. apply Forall_app in H. tauto. }
  assert (R0 : rt_rel tr (rs_uid st) (extra ++ rt_nodes (rs_q st) ++ si_hold si ++ rest)).
  { eapply rt_rel_perm; [|exact R]. unfold rt_live. apply Permutation_app_head.
    apply Permutation_app_head. exact P1. }
  destruct Oks as [Oa On].
  pose proof (rt_release_go_rel (si_hold si) st (si_nstart si) (si_active si) tr extra rest R0 Hs Oa) as G.
  destruct (rt_release_go st (si_nstart si) (si_active si) (si_hold si)) as [[[st1 ca] dq] o].
  destruct G as (R1 & U1 & S1 & N1 & H1 & C1). cbn [fst snd]. split; [|exact N1].
  split; [|split].
  - cbn [rt_set_sess rs_uid]. unfold rt_live. cbn [rt_set_sess rs_q rs_sess]. rewrite S1.
    eapply rt_rel_perm; [|exact R1]. apply Permutation_app_head. apply Permutation_app_head.
    apply Permutation_sym. apply (P2 (rt_mk_sinfo (si_nstart si) ca dq)).
  - cbn [rt_set_sess rs_sess]. rewrite S1.
    eapply Permutation_Forall; [apply Permutation_sym; apply (P2 (rt_mk_sinfo (si_nstart si) ca dq))|].
    apply Forall_app. auto.
  - cbn [rt_set_sess rs_sess]. rewrite S1. apply rt_sset_ok; [|exact SO].
    unfold rt_sinfo_ok. cbn. lia.
Qed.

(* an update of a session's entry that keeps its waiting messages *)
Lemma rt_invx_set_same_hold : forall tr st extra s e,
  si_hold e = si_hold (rt_sget s (rs_sess st)) -> rt_sinfo_ok e ->
  rt_invx tr st extra -> rt_invx tr (rt_set_sess st (rt_sset s e (rs_sess st))) extra.
Proof.
  intros tr st extra s e He Oe (R & H & SO). destruct (rt_held_get_set s (rs_sess st)) as (rest & P1 & P2).
  assert (P : Permutation (rt_held (rt_sset s e (rs_sess st))) (rt_held (rs_sess st))).
  { eapply Permutation_trans; [apply P2|]. rewrite He. apply Permutation_sym. exact P1. }
  split; [|split].
  - cbn [rt_set_sess rs_uid]. unfold rt_live in *. cbn [rt_set_sess rs_q rs_sess].
    eapply rt_rel_perm; [|exact R]. apply Permutation_app_head. apply Permutation_app_head.
    apply Permutation_sym. exact P.
  - cbn [rt_set_sess rs_sess]. eapply Permutation_Forall; [apply Permutation_sym; exact P|exact H].
  - cbn [rt_set_sess rs_sess]. apply rt_sset_ok; assumption.
Qed.

Lemma rt_free_slot_inv : forall st s tr extra, rt_invx tr st extra ->
  rt_invx (tr ++ snd (rt_free_slot st s)) (fst (rt_free_slot st s)) extra /\
  rs_now (fst (rt_free_slot st s)) = rs_now st.
Proof.
  intros st s tr extra I. unfold rt_free_slot.
  destruct (0 <? si_active (rt_sget s (rs_sess st))) eqn:E.
  - set (st0 := rt_set_sess st _).
    assert (I0 : rt_invx tr st0 extra).
    { apply rt_invx_set_same_hold; [reflexivity| |exact I].
      destruct I as (_ & _ & SO). destruct (rt_sget_ok s _ SO) as [Oa On]. unfold rt_sinfo_ok. cbn. lia. }
    destruct (rt_release_inv st0 s tr extra I0) as [I1 N1]. split; [exact I1|]. rewrite N1. reflexivity.
  - cbn [fst snd]. rewrite app_nil_r. split; [exact I|reflexivity].
Qed.

Lemma rt_free_slots_inv : forall k st s tr extra, rt_invx tr st extra ->
  rt_invx (tr ++ snd (rt_free_slots k st s)) (fst (rt_free_slots k st s)) extra /\
  rs_now (fst (rt_free_slots k st s)) = rs_now st.
Proof.
  induction k as [|k IH]; intros st s tr extra I; cbn [rt_free_slots].
  - cbn. rewrite app_nil_r. auto.
  - destruct (rt_free_slot_inv st s tr extra I) as [I1 N1]. destruct (rt_free_slot st s) as [st1 o1].
    cbn [fst snd] in *. destruct (IH st1 s _ extra I1) as [I2 N2]. destruct (rt_free_slots k st1 s) as [st2 o2].
    cbn [fst snd] in *. rewrite app_assoc. split; [exact I2|congruence].
Qed.

(* the node that is being processed ends with one outcome *)
Lemma rt_invx_drop : forall tr st n extra o tag,
  (rt_node_ok tr (rs_uid st) n -> rt_outcome_ok (Z.to_nat (qn_cnt n + 1)) tag) ->
  rt_proj (qn_uid n) o = [tag] -> (forall u, u <> qn_uid n -> rt_proj u o = []) ->
  rt_invx tr st (n :: extra) -> rt_invx (tr ++ o) st extra.
Proof.
  intros tr st n extra o tag Ho Po Pother (R & H & SO). split; [|split; [exact H|exact SO]].
  eapply rt_rel_drop; eauto.
Qed.

Lemma rt_invx_neutral : forall tr st extra o, rt_neutral o -> rt_invx tr st extra -> rt_invx (tr ++ o) st extra.
Proof. intros tr st extra o N (R & H & SO). split; [apply rt_rel_neutral; assumption|split; assumption]. Qed.

(* a state change that keeps uid, table and the queue's nodes up to order *)
Lemma rt_invx_same : forall tr st st' extra,
  rs_uid st' = rs_uid st -> rs_sess st' = rs_sess st ->
  Permutation (rt_nodes (rs_q st')) (rt_nodes (rs_q st)) ->
  rt_invx tr st extra -> rt_invx tr st' extra.
Proof.
  intros tr st st' extra U S P (R & H & SO). split; [|split; rewrite S; assumption].
  rewrite U. unfold rt_live in *. rewrite S. eapply rt_rel_perm; [|exact R].
  apply Permutation_app_head. apply Permutation_app_tail. apply Permutation_sym. exact P.
Qed.

Lemma rt_tok_drop_acked : forall n u, u <> qn_uid n -> rt_proj u [RoAcked 0 (qn_uid n)] = [].
Proof. intros n u Hu. cbn. assert (X : (qn_uid n =? u) = false) by lia. rewrite X. reflexivity. Qed.

Lemma rt_retransmit_rel : forall st n tr,
  rt_invx tr st [n] ->
  let (st', o) := rt_retransmit st n in
  rt_inv (tr ++ o) st' /\ rs_now st' = rs_now st.
Proof.
  intros st n tr I. unfold rt_retransmit. destruct (qn_cnt n <? qn_max n) eqn:E.
  - destruct I as (R & H & SO). cbn [app] in R.
    pose proof R as (K & D & F & C). inversion F as [|? ? (A & B & M & O) F']; subst.
    assert (Em : (qn_cnt n + 1) mod 256 = qn_cnt n + 1) by (apply Z.mod_small; lia).
    rewrite Em. set (c := qn_cnt n + 1).
    set (st1 := rt_enqueue st (rt_bump_node n c) (qn_timeout n * 2 ^ c)).
    destruct (rt_enqueue_nodes st (rt_bump_node n c) (qn_timeout n * 2 ^ c)) as (P & U & N & S).
    fold st1 in P, U, N, S.
    assert (I1 : rt_inv (tr ++ [RoTx (rs_now st) (qn_uid n) (qn_sess n) (qn_bytes n) c (qn_timeout n)]) st1).
    { split; [|rewrite S; split; assumption]. cbn [app]. rewrite U. unfold rt_live. rewrite S.
      eapply rt_rel_perm with (ns := rt_bump_node n c :: rt_live st).
      - unfold rt_live. apply Permutation_sym.
        eapply Permutation_trans; [apply Permutation_app_tail; exact P|]. apply Permutation_refl.
      - apply rt_rel_bump; [reflexivity|lia|exact R]. }
    pose proof (rt_sget_ok (qn_sess n) (rs_sess st1) ltac:(rewrite S; exact SO)) as [Oa On].
    set (si := rt_sget (qn_sess n) (rs_sess st1)) in *.
    assert (Lt : (si_nstart si <=? (if 0 <? si_active si then si_active si - 1 else si_active si)) = false).
    { destruct (0 <? si_active si) eqn:E0; lia. }
    rewrite Lt. split; [|cbn [rt_set_sess rs_now]; exact N].
    apply rt_invx_set_same_hold; [reflexivity| |exact I1].
    unfold rt_sinfo_ok. cbn. destruct (0 <? si_active si) eqn:E0; lia.
  - destruct (rt_free_slot_inv st (qn_sess n) tr [n] I) as [I1 N1].
    destruct (rt_free_slot st (qn_sess n)) as [st1 o1]. cbn [fst snd] in *.
    split; [|exact N1]. rewrite app_assoc.
    eapply rt_invx_drop with (n := n) (tag := PNack rt_NACK_TOO_MANY_RETRIES (qn_cnt n) (qn_max n)); [| | |exact I1].
    + intros (A & B & M & O). cbn. repeat split; try lia.
    + cbn. rewrite Z.eqb_refl. reflexivity.
    + intros u Hu. cbn. assert (X : (qn_uid n =? u) = false) by lia. rewrite X. reflexivity.
Qed.

Lemma rt_fire_rel : forall fuel st tr,
  rt_inv tr st ->
  let (st', o) := rt_fire fuel st in
  rt_inv (tr ++ o) st' /\ rs_now st' = rs_now st.
Proof.
  induction fuel as [|f IH]; intros st tr R; cbn [rt_fire].
  - split; [|reflexivity]. apply rt_invx_neutral; [|exact R].
    intros u. destruct (rt_due st); reflexivity.
  - destruct (rt_due st).
    + destruct (sq_pop (rs_q st)) as [[[t n] q']|] eqn:P.
      * pose proof (rt_nodes_pop _ _ _ _ P) as EN.
        assert (I0 : rt_invx tr (rt_set_q st q') [n]).
        { destruct R as (R & H & SO). split; [|split; assumption].
          cbn [rt_set_q rs_uid app]. unfold rt_live in *. cbn [rt_set_q rs_q rs_sess app] in *.
          rewrite EN in R. exact R. }
        pose proof (rt_retransmit_rel (rt_set_q st q') n tr I0) as H1.
        destruct (rt_retransmit (rt_set_q st q') n) as [st1 o1].
        destruct H1 as [R1 N1]. specialize (IH st1 (tr ++ o1) R1).
        destruct (rt_fire f st1) as [st2 o2]. destruct IH as [R2 N2].
        rewrite app_assoc. split; [exact R2|]. rewrite N2, N1. reflexivity.
      * split; [|reflexivity]. rewrite app_nil_r. exact R.
    + split; [|reflexivity]. rewrite app_nil_r. exact R.
Qed.

Lemma rt_fire_all_rel : forall st tr, rt_inv tr st ->
  rt_inv (tr ++ snd (rt_fire_all st)) (fst (rt_fire_all st)) /\ rs_now (fst (rt_fire_all st)) = rs_now st.
Proof.
  intros st tr I. unfold rt_fire_all. pose proof (rt_fire_rel (rt_budget_all st) st tr I) as H.
  destruct (rt_fire (rt_budget_all st) st). exact H.
Qed.

(* events the theorems quantify over: time does not run backwards; max_retransmit as the
   setter accepts it (> 0) and within the 8-bit counter *)
Definition rt_ev_ok (ev : rt_event) : Prop :=
  match ev with
  | RtAdvance dt => 0 <= dt
  | RtSend _ _ _ cfg _ => 1 <= rc_max cfg <= 255
  | RtDisconnect _ reason => reason <> rt_NACK_TOO_MANY_RETRIES /\ reason <> rt_NACK_ICMP_ISSUE
  | _ => True
  end.

(* a node that was found in (and taken out of) the queue: the rest plus the node *)
Lemma rt_inv_removed : forall tr st s m t n q',
  sq_remove (rs_q st) s m = Some ((t, n), q') -> rt_inv tr st -> rt_invx tr (rt_set_q st q') [n].
Proof.
  intros tr st s m t n q' Rm (R & H & SO). destruct (rt_nodes_remove _ _ _ _ _ _ Rm) as [P _].
  split; [|split; assumption]. cbn [rt_set_q rs_uid app]. unfold rt_live in *. cbn [rt_set_q rs_q rs_sess app] in *.
  eapply rt_rel_perm; [|exact R]. apply (Permutation_app_tail _ P).
Qed.

Lemma rt_step_rel : forall st ev tr,
  rt_ev_ok ev -> rt_inv tr st ->
  let (st', o) := rt_step st ev in rt_inv (tr ++ o) st'.
Proof.
  intros st ev tr Hev R. destruct ev as [dt|s m b cfg r| |s m|s m|s m tok|s reason|s m|tmo|]; cbn [rt_step].
  - rewrite app_nil_r. eapply rt_invx_same; [| | |exact R]; reflexivity || apply Permutation_refl.
  - unfold rt_send. set (T := fp_calc_timeout _ _ _ _ _).
    destruct R as (R & H & SO). cbn [app] in R.
    destruct (rt_held_get_set s (rs_sess st)) as (rest & P1 & P2).
    pose proof (rt_sget_ok s _ SO) as [Oa On]. set (si := rt_sget s (rs_sess st)) in *.
    destruct (si_nstart si <=? si_active si) eqn:Efull.
    + destruct (existsb (fun n => qn_mid n =? m) (si_hold si)).
      * apply rt_invx_neutral; [intros u; reflexivity|]. split; [exact R|split; assumption].
      * set (n := sq_mk_node (rs_uid st) s m (-1) T (rc_max cfg) b).
        set (e := rt_mk_sinfo (si_nstart si) (si_active si) (si_hold si ++ [n])).
        assert (Ph : Permutation (rt_held (rt_sset s e (rs_sess st))) (n :: rt_held (rs_sess st))).
        { eapply Permutation_trans; [apply P2|]. cbn [e si_hold].
          eapply Permutation_trans; [|apply perm_skip; apply Permutation_sym; exact P1].
          rewrite <- app_assoc. apply Permutation_sym. apply Permutation_middle. }
        split; [|split].
        -- cbn [rs_uid app]. unfold rt_live. cbn [rs_q rs_sess].
           eapply rt_rel_perm with (ns := n :: rt_live st).
           ++ unfold rt_live. apply Permutation_sym.
              eapply Permutation_trans; [apply Permutation_app_head; exact Ph|].
              apply Permutation_sym. apply Permutation_middle.
           ++ apply rt_rel_add_held; [cbn in Hev; lia|exact R].
        -- cbn [rs_sess]. eapply Permutation_Forall; [apply Permutation_sym; exact Ph|].
           constructor; [reflexivity|exact H].
        -- cbn [rs_sess]. apply rt_sset_ok; [|exact SO]. unfold rt_sinfo_ok. cbn. lia.
    + set (n := sq_mk_node (rs_uid st) s m 0 T (rc_max cfg) b).
      set (e := rt_mk_sinfo (si_nstart si) (si_active si + 1) (si_hold si)).
      set (st1 := rt_mk_state (rs_now st) (rs_base st) (rs_q st) (rs_uid st + 1) (rt_sset s e (rs_sess st))).
      destruct (rt_enqueue_nodes st1 n T) as (P & U & _ & S).
      assert (Ph : Permutation (rt_held (rt_sset s e (rs_sess st))) (rt_held (rs_sess st))).
      { eapply Permutation_trans; [apply P2|]. apply Permutation_sym. exact P1. }
      split; [|split].
      * cbn [app]. rewrite U. unfold rt_live. rewrite S. cbn [st1 rs_uid rs_q rs_sess] in *.
        eapply rt_rel_perm with (ns := n :: rt_live st).
        -- unfold rt_live. apply Permutation_sym.
           eapply Permutation_trans; [apply Permutation_app_tail; exact P|]. cbn [app]. apply perm_skip.
           apply Permutation_app_head. exact Ph.
        -- apply rt_rel_add; [cbn in Hev; lia|exact R].
      * rewrite S. cbn [st1 rs_sess]. eapply Permutation_Forall; [apply Permutation_sym; exact Ph|exact H].
      * rewrite S. cbn [st1 rs_sess]. apply rt_sset_ok; [|exact SO]. unfold rt_sinfo_ok. cbn. lia.
  - unfold rt_tick. destruct (rt_fire_all_rel st tr R) as [H _].
    destruct (rt_fire_all st) as [st1 o]. cbn [fst snd] in H.
    destruct (rt_wait st1) as [w hd]. rewrite app_assoc. apply rt_invx_neutral; [|exact H].
    intros u; reflexivity.
  - unfold rt_ack. destruct (sq_remove (rs_q st) s m) as [[[t n] q']|] eqn:Rm.
    + pose proof (rt_inv_removed tr st s m t n q' Rm R) as I0.
      assert (I1 : rt_inv (tr ++ [RoAcked (rs_now st) (qn_uid n)]) (rt_set_q st q')).
      { eapply rt_invx_drop with (n := n) (tag := PAcked); [intros _; exact I| | |exact I0].
        - cbn. rewrite Z.eqb_refl. reflexivity.
        - intros u Hu. cbn. assert (X : (qn_uid n =? u) = false) by lia. rewrite X. reflexivity. }
      destruct (rt_free_slot_inv (rt_set_q st q') s _ [] I1) as [I2 _].
      destruct (rt_free_slot (rt_set_q st q') s) as [st1 o1]. cbn [fst snd] in I2.
      destruct (rt_fire_all_rel st1 _ I2) as [I3 _]. destruct (rt_fire_all st1) as [st2 o2]. cbn [fst snd] in I3.
      replace (tr ++ RoAcked (rs_now st) (qn_uid n) :: o1 ++ o2)
        with (((tr ++ [RoAcked (rs_now st) (qn_uid n)]) ++ o1) ++ o2)
        by (repeat rewrite <- app_assoc; reflexivity).
      exact I3.
    + destruct (rt_fire_all_rel st tr R) as [H _]. destruct (rt_fire_all st). exact H.
  - unfold rt_rst. destruct (sq_remove (rs_q st) s m) as [[[t n] q']|] eqn:Rm.
    + pose proof (rt_inv_removed tr st s m t n q' Rm R) as I0.
      destruct (rt_free_slot_inv (rt_set_q st q') s tr [n] I0) as [I1 _].
      destruct (rt_free_slot (rt_set_q st q') s) as [st1 o1]. cbn [fst snd] in I1.
      set (o0 := [RoNack (rs_now st) (qn_uid n) (qn_sess n) rt_NACK_RST (qn_mid n) (qn_cnt n) (qn_max n)]).
      assert (I2 : rt_inv ((tr ++ o1) ++ o0) st1).
      { eapply rt_invx_drop with (n := n) (tag := PNack rt_NACK_RST (qn_cnt n) (qn_max n)); [| | |exact I1].
        - intros (A & B & M & O). cbn. repeat split; try lia; intros X; discriminate.
        - cbn. rewrite Z.eqb_refl. reflexivity.
        - intros u Hu. cbn. assert (X : (qn_uid n =? u) = false) by lia. rewrite X. reflexivity. }
      destruct (rt_fire_all_rel st1 _ I2) as [I3 _]. destruct (rt_fire_all st1) as [st2 o2]. cbn [fst snd] in I3.
      replace (tr ++ o1 ++ RoNack (rs_now st) (qn_uid n) (qn_sess n) rt_NACK_RST (qn_mid n) (qn_cnt n) (qn_max n) :: o2)
        with (((tr ++ o1) ++ o0) ++ o2) by (unfold o0; repeat rewrite <- app_assoc; reflexivity).
      exact I3.
    + assert (R1 : rt_inv (tr ++ [RoNackNoPdu (rs_now st) s rt_NACK_RST m]) st)
        by (apply rt_invx_neutral; [intros u; reflexivity|exact R]).
      destruct (rt_fire_all_rel st _ R1) as [H _]. destruct (rt_fire_all st) as [st1 o]. cbn [fst snd] in H.
      rewrite <- app_assoc in H. exact H.
  - unfold rt_non.
    pose proof (rt_nodes_cancel (rt_tok_match s tok) (rs_q st)) as P.
    destruct (sq_cancel (rt_tok_match s tok) (rs_q st)) as [rm q']. cbn [fst snd] in P.
    set (o0 := map (fun n => RoAcked (rs_now st) (qn_uid n)) rm).
    assert (I1 : rt_inv (tr ++ o0) (rt_set_q st q')).
    { destruct R as (R & H & SO). split; [|split; assumption]. cbn [app rt_set_q rs_uid].
      unfold rt_live in *. cbn [rt_set_q rs_q rs_sess app] in *.
      apply rt_rel_drop_acked. eapply rt_rel_perm; [|exact R].
      rewrite app_assoc. apply Permutation_app_tail. exact P. }
    destruct (rt_free_slots_inv (length rm) (rt_set_q st q') s _ [] I1) as [I2 _].
    destruct (rt_free_slots (length rm) (rt_set_q st q') s) as [st1 o1]. cbn [fst snd] in I2.
    destruct (rt_fire_all_rel st1 _ I2) as [I3 _]. destruct (rt_fire_all st1) as [st2 o2]. cbn [fst snd] in I3.
    replace (tr ++ o0 ++ o1 ++ o2) with (((tr ++ o0) ++ o1) ++ o2) by (repeat rewrite <- app_assoc; reflexivity).
    exact I3.
  - unfold rt_disconnect.
    pose proof (rt_nodes_cancel (rt_sess_match s) (rs_q st)) as P.
    destruct (sq_cancel (rt_sess_match s) (rs_q st)) as [rm q']. cbn [fst snd] in P.
    destruct R as (R & H & SO). cbn [app] in R.
    destruct (rt_held_get_set s (rs_sess st)) as (rest & P1 & P2).
    pose proof (rt_sget_ok s _ SO) as [Oa On]. set (si := rt_sget s (rs_sess st)) in *.
    set (e := rt_mk_sinfo (si_nstart si) 0 []).
    assert (Ph : Permutation (rt_held (rt_sset s e (rs_sess st))) rest) by (apply (P2 e)).
    assert (Pl : Permutation (rt_live st) ((si_hold si ++ rm) ++ rt_nodes q' ++ rest)).
    { unfold rt_live. eapply Permutation_trans; [apply Permutation_app; [exact P|exact P1]|].
      replace ((rm ++ rt_nodes q') ++ si_hold si ++ rest) with (((rm ++ rt_nodes q') ++ si_hold si) ++ rest)
        by (rewrite <- app_assoc; reflexivity).
      replace ((si_hold si ++ rm) ++ rt_nodes q' ++ rest) with (((si_hold si ++ rm) ++ rt_nodes q') ++ rest)
        by (rewrite <- !app_assoc; reflexivity).
      apply Permutation_app_tail.
      eapply Permutation_trans; [apply Permutation_app_comm|]. rewrite app_assoc. apply Permutation_refl. }
    assert (Hrest : Forall (fun n => qn_cnt n = -1) rest).
    { eapply Permutation_Forall in H; [|exact P1]. apply Forall_app in H. tauto. }
    assert (G : rt_rel (tr ++ map (rt_nack_of (rs_now st) reason) (si_hold si ++ rm)) (rs_uid st)
                       (rt_nodes q' ++ rest)).
    { apply rt_rel_drop_nacked; [cbn in Hev; tauto|]. eapply rt_rel_perm; [exact Pl|exact R]. }
    split; [|split].
    + cbn [app rt_set_sess rt_set_q rs_uid]. unfold rt_live. cbn [rt_set_sess rt_set_q rs_q rs_sess].
      eapply rt_rel_perm with (ns := rt_nodes q' ++ rest);
        [apply Permutation_app_head; apply Permutation_sym; exact Ph|].
      destruct (si_hold si ++ rm) eqn:Eg; [|exact G].
      cbn [map] in G. rewrite app_nil_r in G. apply rt_rel_neutral; [intros u; reflexivity|exact G].
    + cbn [rt_set_sess rs_sess]. eapply Permutation_Forall; [apply Permutation_sym; exact Ph|exact Hrest].
    + cbn [rt_set_sess rs_sess]. apply rt_sset_ok; [|exact SO]. unfold rt_sinfo_ok. cbn. lia.
  - unfold rt_delete. destruct (sq_remove (rs_q st) s m) as [[[t n] q']|] eqn:Rm.
    + pose proof (rt_inv_removed tr st s m t n q' Rm R) as I0.
      eapply rt_invx_drop with (n := n) (tag := PAcked); [intros _; exact I| | |exact I0].
      * cbn. rewrite Z.eqb_refl. reflexivity.
      * intros u Hu. cbn. assert (X : (qn_uid n =? u) = false) by lia. rewrite X. reflexivity.
    + rewrite app_nil_r. exact R.
  - unfold rt_io_process.
    destruct (rt_fire_all_rel st tr R) as [R1 _]. destruct (rt_fire_all st) as [st1 o1]. cbn [fst snd] in R1.
    destruct (rt_wait st1) as [w hd]. set (et := rt_epoll_timeout w tmo).
    set (st2 := rt_set_now st1 _).
    assert (R2 : rt_inv ((tr ++ o1) ++ [RoEpoll (rs_now st1) et]) st2).
    { apply rt_invx_neutral; [intros u; reflexivity|].
      eapply rt_invx_same; [| | |exact R1]; reflexivity || apply Permutation_refl. }
    destruct (rt_fire_all_rel st2 _ R2) as [R3 _]. destruct (rt_fire_all st2) as [st3 o3]. cbn [fst snd] in R3.
    replace (tr ++ o1 ++ RoEpoll (rs_now st1) et :: o3 ++ [RoIoRet (rs_now st3) (rs_now st3 - rs_now st)])
      with ((((tr ++ o1) ++ [RoEpoll (rs_now st1) et]) ++ o3) ++ [RoIoRet (rs_now st3) (rs_now st3 - rs_now st)])
      by (repeat rewrite <- app_assoc; reflexivity).
    apply rt_invx_neutral; [intros u; reflexivity|exact R3].
  - apply rt_invx_neutral; [intros u; reflexivity|exact R].
Qed.

Lemma rt_run_rel : forall evs st tr,
  Forall rt_ev_ok evs -> rt_inv tr st ->
  let (st', o) := rt_run st evs in rt_inv (tr ++ o) st'.
Proof.
  induction evs as [|ev rest IH]; intros st tr F R; cbn [rt_run].
  - rewrite app_nil_r. exact R.
  - inversion F; subst. pose proof (rt_step_rel st ev tr H1 R) as H.
    destruct (rt_step st ev) as [st1 o1]. specialize (IH st1 (tr ++ o1) H2 H).
    destruct (rt_run st1 rest) as [st2 o2]. rewrite app_assoc. exact IH.
Qed.

(* the initial state: sessions with their NSTART (at least 1), nothing pending *)
Definition rt_nst_ok (nst : list (Z * Z)) : Prop := Forall (fun p => 1 <= snd p) nst.

Lemma rt_held_init : forall nst, rt_held (map (fun p => (fst p, rt_mk_sinfo (snd p) 0 [])) nst) = [].
Proof. induction nst as [|p r IH]; [reflexivity|]. cbn. exact IH. Qed.

Lemma rt_inv_init : forall t0 nst, rt_nst_ok nst -> rt_inv [] (rt_init t0 nst).
Proof.
  intros t0 nst H. unfold rt_inv, rt_invx, rt_init, rt_live. cbn [rs_uid rs_q rs_sess app rt_nodes map].
  rewrite rt_held_init. split; [exact rt_rel_init|]. split; [constructor|].
  unfold rt_slots_ok. rewrite Forall_map. eapply Forall_impl; [|exact H].
  intros p Hp. unfold rt_sinfo_ok. cbn in *. lia.
Qed.

(* ------------------------------------------------------------------ C06_one_outcome *)
(* the three possible shapes of a message's history *)
Definition rt_shape (l : list rt_tag) : Prop :=
  l = [] \/                                                   (* never accepted, or waiting for a slot *)
  (exists b j, l = repeat (PTx b) (S j) /\ (j <= 255)%nat) \/ (* pending: transmissions only *)
  rt_closed l.                                                (* transmissions, one outcome *)

Theorem rt_one_outcome : forall t0 nst evs u,
  rt_nst_ok nst -> Forall rt_ev_ok evs ->
  let (st, tr) := rt_run (rt_init t0 nst) evs in
  rt_shape (rt_proj u tr) /\
  (* pending <-> still queued or waiting for a slot, and then it was transmitted
     retransmit_cnt + 1 times (not yet: counter -1), at most max_retransmit + 1 *)
  (forall n, In n (rt_live st) -> qn_uid n = u ->
     rt_proj u tr = repeat (PTx (qn_bytes n)) (Z.to_nat (qn_cnt n + 1)) /\
     -1 <= qn_cnt n <= qn_max n) /\
  (~ In u (map qn_uid (rt_live st)) -> rt_proj u tr = [] \/ rt_closed (rt_proj u tr)).
Proof.
  intros t0 nst evs u Hn F.
  pose proof (rt_run_rel evs (rt_init t0 nst) [] F (rt_inv_init t0 nst Hn)) as H.
  destruct (rt_run (rt_init t0 nst) evs) as [st tr]. cbn [app] in H.
  destruct H as ((K & D & Fn & C) & _ & _). cbn [app] in *.
  assert (Q : forall n, In n (rt_live st) -> qn_uid n = u ->
     rt_proj u tr = repeat (PTx (qn_bytes n)) (Z.to_nat (qn_cnt n + 1)) /\
     -1 <= qn_cnt n <= qn_max n /\ qn_max n <= 255).
  { intros n I E. rewrite Forall_forall in Fn. destruct (Fn n I) as (A & B & M & O).
    subst u. unfold rt_open in O. split; [exact O|lia]. }
  assert (Cl : ~ In u (map qn_uid (rt_live st)) -> rt_proj u tr = [] \/ rt_closed (rt_proj u tr)).
  { intros Hu. destruct (C u Hu) as [C1 C2].
    destruct (Z_le_gt_dec 0 u); [destruct (Z_lt_le_dec u (rs_uid st))|].
    - right. apply C1. lia.
    - left. apply C2. lia.
    - left. apply C2. lia. }
  split; [|split].
  - destruct (in_dec Z.eq_dec u (map qn_uid (rt_live st))) as [I|NI].
    + apply in_map_iff in I. destruct I as (n & E & I). destruct (Q n I E) as (P & B & M).
      destruct (Z.eq_dec (qn_cnt n) (-1)) as [Em|Em].
      * left. rewrite P, Em. reflexivity.
      * right; left. exists (qn_bytes n), (Z.to_nat (qn_cnt n)). split; [|lia].
        rewrite P. f_equal. lia.
    + destruct (Cl NI) as [E|E]; [left; exact E|right; right; exact E].
  - intros n I E. destruct (Q n I E) as (P & B & M). tauto.
  - exact Cl.
Qed.

(* ------------------------------------------------------------------ other ids, other sessions *)
(* An ACK or RST whose (session, mid) is not in the queue is, for the queue, just a prepare call
   whose result nobody sees (plus, for RST, a handler call without PDU). *)
Theorem rt_unknown_ack_rst : forall st s m,
  sq_remove (rs_q st) s m = None ->
  rt_step st (RtAck s m) = rt_fire_all st /\
  rt_step st (RtRst s m) =
    (fst (rt_fire_all st), RoNackNoPdu (rs_now st) s rt_NACK_RST m :: snd (rt_fire_all st)).
Proof.
  intros st s m H. cbn [rt_step]. unfold rt_ack, rt_rst. rewrite H.
  destruct (rt_fire_all st); split; reflexivity.
Qed.

(* One that is in the queue removes exactly the first node of that session with that mid; all
   other messages - other mids, other sessions - keep their deadlines and counters. *)
Theorem rt_known_ack_rst : forall st s m t n q',
  sq_remove (rs_q st) s m = Some ((t, n), q') ->
  qn_sess n = s /\ qn_mid n = m /\
  (exists l1 l2 d, sq_abs (rs_base st) (rs_q st) = l1 ++ (d, n) :: l2 /\
                   sq_abs (rs_base st) q' = l1 ++ l2 /\
                   Forall (fun x => sq_match s m (snd x) = false) l1) /\
  (* the freed NSTART slot goes to a waiting message of that session (if any), then a prepare *)
  rt_step st (RtAck s m) =
    (let (st1, o1) := rt_free_slot (rt_set_q st q') s in
     let (st2, o2) := rt_fire_all st1 in
     (st2, RoAcked (rs_now st) (qn_uid n) :: o1 ++ o2)) /\
  rt_step st (RtRst s m) =
    (let (st1, o1) := rt_free_slot (rt_set_q st q') s in
     let (st2, o2) := rt_fire_all st1 in
     (st2, o1 ++ RoNack (rs_now st) (qn_uid n) (qn_sess n) rt_NACK_RST (qn_mid n) (qn_cnt n) (qn_max n) :: o2)).
Proof.
  intros st s m t n q' H.
  destruct (sq_remove_others _ (rs_base st) _ _ _ _ _ H) as (l1 & l2 & d & E1 & E2 & M & F).
  unfold sq_match in M. apply andb_true_iff in M. destruct M as [M1 M2].
  split; [lia|]. split; [lia|]. split; [exists l1, l2, d; auto|].
  cbn [rt_step]. unfold rt_ack, rt_rst. rewrite H. split; reflexivity.
Qed.

(* ------------------------------------------------------------------ session disconnect *)
(* coap_session_disconnected: exactly the session's messages leave the queue, each with one NACK
   call, in queue order; the messages of all other sessions keep deadline and place *)
Theorem rt_disconnect_spec : forall st s reason,
  let (st', o) := rt_disconnect st s reason in
  sq_abs (rs_base st') (rs_q st') =
    filter (fun e => negb (rt_sess_match s (snd e))) (sq_abs (rs_base st) (rs_q st)) /\
  rs_now st' = rs_now st /\
  (* first the messages of the session that wait for a slot, then its queued ones *)
  let rm := si_hold (rt_sget s (rs_sess st)) ++ filter (rt_sess_match s) (rt_nodes (rs_q st)) in
  o = match rm with
      | [] => [RoNackNoPdu (rs_now st) s reason 0]
      | _ => map (rt_nack_of (rs_now st) reason) rm
      end /\
  si_hold (rt_sget s (rs_sess st')) = [] /\ si_active (rt_sget s (rs_sess st')) = 0.
Proof.
  intros st s reason. unfold rt_disconnect.
  destruct (sq_abs_cancel (rt_sess_match s) (rs_q st) (rs_base st)) as [A B].
  destruct (sq_cancel (rt_sess_match s) (rs_q st)) as [rm q']. cbn [fst snd] in *.
  cbn [rt_set_sess rt_set_q rs_base rs_q rs_now rs_sess]. split; [exact A|]. split; [reflexivity|].
  rewrite rt_sget_sset. cbn [si_hold si_active]. split; [|split; reflexivity].
  unfold rt_nodes. rewrite <- B. reflexivity.
Qed.

(* before the repair the first queued message of the session was reported twice *)
Theorem rt_disconnect_old_double_nack : exists st s reason u,
  reason <> rt_NACK_TOO_MANY_RETRIES /\ reason <> rt_NACK_ICMP_ISSUE /\
  rt_proj u (snd (rt_disconnect_old st s reason)) = [PNack reason 0 4; PNack reason 0 4].
Proof.
  exists (rt_mk_state 600 0 [(2000, sq_mk_node 0 0 10 0 2000 4 []); (500, sq_mk_node 1 1 20 0 2000 4 [])] 2 []),
         0, 1, 0.
  split; [discriminate|]. split; [discriminate|]. vm_compute. reflexivity.
Qed.

(* ------------------------------------------------------------------ deleting a linked node *)
(* coap_delete_node on a queued node: exactly that node leaves, silently; every other message
   keeps deadline, counter and place; nothing queued under that (session, mid): nothing happens *)
Theorem rt_delete_spec : forall st s m,
  (forall t n q', sq_remove (rs_q st) s m = Some ((t, n), q') ->
     rt_delete st s m = (rt_set_q st q', [RoAcked (rs_now st) (qn_uid n)]) /\
     exists l1 l2 d, sq_abs (rs_base st) (rs_q st) = l1 ++ (d, n) :: l2 /\
                     sq_abs (rs_base st) q' = l1 ++ l2) /\
  (sq_remove (rs_q st) s m = None -> rt_delete st s m = (st, [])).
Proof.
  intros st s m. split.
  - intros t n q' H. unfold rt_delete. rewrite H. split; [reflexivity|].
    destruct (sq_remove_others _ (rs_base st) _ _ _ _ _ H) as (l1 & l2 & d & E1 & E2 & _ & _).
    exists l1, l2, d. auto.
  - intros H. unfold rt_delete. rewrite H. reflexivity.
Qed.

(* ------------------------------------------------------------------ the two places where T is drawn *)
Theorem rt_send_free_spec : forall st s m b cfg r,
  si_active (rt_sget s (rs_sess st)) < si_nstart (rt_sget s (rs_sess st)) ->
  snd (rt_send st s m b cfg r) =
  [RoTx (rs_now st) (rs_uid st) s b 0
        (fp_calc_timeout (rc_at_ip cfg) (rc_at_fp cfg) (rc_arf_ip cfg) (rc_arf_fp cfg) r);
   RoSent m].
Proof.
  intros st s m b cfg r H. unfold rt_send.
  assert (E : (si_nstart (rt_sget s (rs_sess st)) <=? si_active (rt_sget s (rs_sess st))) = false) by lia.
  rewrite E. reflexivity.
Qed.

Theorem rt_send_held_spec : forall st s m b cfg r,
  let si := rt_sget s (rs_sess st) in
  si_nstart si <= si_active si ->
  existsb (fun n => qn_mid n =? m) (si_hold si) = false ->
  let st' := fst (rt_send st s m b cfg r) in
  snd (rt_send st s m b cfg r) = [RoSent m] /\ rs_q st' = rs_q st /\
  si_hold (rt_sget s (rs_sess st')) =
    si_hold si ++ [sq_mk_node (rs_uid st) s m (-1)
                     (fp_calc_timeout (rc_at_ip cfg) (rc_at_fp cfg) (rc_arf_ip cfg) (rc_arf_fp cfg) r)
                     (rc_max cfg) b].
Proof.
  intros st s m b cfg r si H Ex st'. unfold st', rt_send. fold si.
  assert (E : (si_nstart si <=? si_active si) = true) by lia. rewrite E, Ex. cbn [fst snd rs_q rs_sess].
  rewrite rt_sget_sset. cbn [si_hold]. auto.
Qed.

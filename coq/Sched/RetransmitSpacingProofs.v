(* C06 - the back-off law for EVERY driver and every traffic (proofs).
   Whatever the tick times, the answers of the peer and the other messages are:
   - the deadline of a queued message is (time of its last transmission) + T * 2^retransmit_cnt,
     with T the timeout computed when it was accepted - T never changes;
   - the j-th transmission of a message (j = 0 the first) carries counter j, and transmission
     j+1 is never earlier than T * 2^j after transmission j.
   Together with rt_wait_sound (a prepare call leaves nothing behind that is due) this fixes the
   schedule for any driver: a retransmission happens at the first prepare call or datagram
   arrival at or after its deadline. *)
From LibcoapV Require Import Base.Tactics Sched.FixedPoint Sched.SendQueue Sched.SendQueueProofs
  Sched.Retransmit Sched.RetransmitProofs Sched.RetransmitTimeProofs.
From Coq Require Import Sorting.Permutation.
Local Open Scope Z_scope.

Definition rt_tx3 : Type := (Z * Z * Z)%type.      (* time, retransmit_cnt, timeout *)

Definition rt_tproj1 (u : Z) (o : rt_out) : list rt_tx3 :=
  match o with
  | RoTx t u' _ _ c T => if u' =? u then [(t, c, T)] else []
  | _ => []
  end.
Definition rt_tproj (u : Z) (tr : list rt_out) : list rt_tx3 := flat_map (rt_tproj1 u) tr.

Lemma rt_tproj_app : forall u a b, rt_tproj u (a ++ b) = rt_tproj u a ++ rt_tproj u b.
Proof. intros. unfold rt_tproj. apply flat_map_app. Qed.

(* a chain of transmissions: counters 0, 1, 2, ..., one T, gaps of at least T * 2^counter *)
Inductive rt_chain : list rt_tx3 -> Prop :=
| rt_ch_nil : rt_chain []
| rt_ch_first : forall t T, rt_chain [(t, 0, T)]
| rt_ch_next : forall l t c T t',
    rt_chain (l ++ [(t, c, T)]) -> 0 <= c -> t + T * 2 ^ c <= t' ->
    rt_chain ((l ++ [(t, c, T)]) ++ [(t', c + 1, T)]).

(* what a queue entry knows about its message's transmissions *)
Definition rt_entry_ok (tr : list rt_out) (e : Z * sq_node) : Prop :=
  exists l t, rt_tproj (qn_uid (snd e)) tr = l ++ [(t, qn_cnt (snd e), qn_timeout (snd e))] /\
              fst e = t + qn_timeout (snd e) * 2 ^ qn_cnt (snd e).

Definition rt_sinv (tr : list rt_out) (st : rt_state) : Prop :=
  Forall (rt_entry_ok tr) (sq_abs (rs_base st) (rs_q st)) /\
  (forall u, rt_chain (rt_tproj u tr)) /\
  (forall u, rs_uid st <= u -> rt_tproj u tr = []).

(* outputs without a transmission of u do not change what is known about u *)
Definition rt_no_tx (o : list rt_out) : Prop := forall u, rt_tproj u o = [].

Lemma rt_no_tx_acked : forall t rm, rt_no_tx (map (fun n => RoAcked t (qn_uid n)) rm).
Proof. intros t rm u. induction rm as [|x rm IH]; [reflexivity|]. cbn. exact IH. Qed.

Lemma rt_no_tx_nacked : forall t reason rm, rt_no_tx (map (rt_nack_of t reason) rm).
Proof. intros t reason rm u. induction rm as [|x rm IH]; [reflexivity|]. cbn. exact IH. Qed.

Lemma rt_entry_ok_other : forall tr o e, rt_tproj (qn_uid (snd e)) o = [] ->
  rt_entry_ok tr e -> rt_entry_ok (tr ++ o) e.
Proof.
  intros tr o e N (l & t & E & D). exists l, t. rewrite rt_tproj_app, N, app_nil_r. auto.
Qed.

Lemma rt_sinv_no_tx : forall tr st o, rt_no_tx o -> rt_sinv tr st -> rt_sinv (tr ++ o) st.
Proof.
  intros tr st o N (F & C & Z0). split; [|split].
  - eapply Forall_impl; [|exact F]. intros e He. apply rt_entry_ok_other; [apply N|exact He].
  - intros u. rewrite rt_tproj_app, N, app_nil_r. apply C.
  - intros u Hu. rewrite rt_tproj_app, N, app_nil_r. apply Z0. exact Hu.
Qed.

(* the absolute view after coap_wait_ack / re-insertion: the new entry is due at now + delay *)
Lemma rt_abs_enqueue : forall st n d,
  (rs_q st <> [] -> True) ->
  Permutation (sq_abs (rs_base (rt_enqueue st n d)) (rs_q (rt_enqueue st n d)))
              ((rs_now st + d, n) :: sq_abs (rs_base st) (rs_q st)).
Proof.
  intros st n d _. unfold rt_enqueue. destruct (rs_q st) as [|e q] eqn:E.
  - cbn. apply Permutation_refl.
  - cbn [rs_base rs_q rt_set_q]. rewrite sq_abs_insert.
    replace (rs_base st + (rs_now st - rs_base st + d)) with (rs_now st + d) by lia.
    apply Permutation_sym. apply sq_spec_insert_perm.
Qed.

Lemma rt_nodes_abs : forall q base, map snd (sq_abs base q) = rt_nodes q.
Proof. induction q as [|[t n] r IH]; intros base; [reflexivity|]. cbn. f_equal. apply IH. Qed.

(* uids of queue entries are distinct (from rt_rel), so a transmission of one node says nothing
   about the others *)
Lemma rt_other_uids : forall tr k n ns, rt_rel tr k (n :: ns) ->
  Forall (fun n' => qn_uid n' <> qn_uid n) ns.
Proof.
  intros tr k n ns (_ & D & _ & _). cbn in D. inversion D; subst.
  rewrite Forall_forall. intros n' I E. apply H1. rewrite <- E. apply in_map. exact I.
Qed.

Lemma rt_retransmit_sinv : forall st n tr d,
  rt_rel tr (rs_uid st) (n :: rt_nodes (rs_q st)) ->
  rt_sinv tr st -> rt_entry_ok tr (d, n) -> d <= rs_now st ->
  let (st', o) := rt_retransmit st n in rt_sinv (tr ++ o) st'.
Proof.
  intros st n tr d R (F & C & Z0) (l & t & E & D) Due. cbn [fst snd] in E, D.
  pose proof (rt_other_uids _ _ _ _ R) as Oth.
  destruct R as (_ & _ & Fn & _). inversion Fn as [|? ? (A & B & M & _) _]; subst.
  unfold rt_retransmit. destruct (qn_cnt n <? qn_max n) eqn:Ec.
  - assert (Em : (qn_cnt n + 1) mod 256 = qn_cnt n + 1) by (apply Z.mod_small; lia).
    rewrite Em.
    set (n' := sq_mk_node (qn_uid n) (qn_sess n) (qn_mid n) (qn_cnt n + 1) (qn_timeout n) (qn_max n) (qn_bytes n)).
    set (o := [RoTx (rs_now st) (qn_uid n) (qn_sess n) (qn_bytes n) (qn_cnt n + 1) (qn_timeout n)]).
    assert (To : rt_tproj (qn_uid n) o = [(rs_now st, qn_cnt n + 1, qn_timeout n)]).
    { cbn. rewrite Z.eqb_refl. reflexivity. }
    assert (Tother : forall u, u <> qn_uid n -> rt_tproj u o = []).
    { intros u Hu. cbn. assert (X : (qn_uid n =? u) = false) by lia. rewrite X. reflexivity. }
    split; [|split].
    + eapply Permutation_Forall; [apply Permutation_sym; apply rt_abs_enqueue; auto|].
      constructor.
      * exists (l ++ [(t, qn_cnt n, qn_timeout n)]), (rs_now st). cbn [fst snd n' qn_uid qn_cnt qn_timeout].
        rewrite rt_tproj_app, E, To. split; reflexivity.
      * rewrite Forall_forall in *. intros e I. apply rt_entry_ok_other; [|apply F; exact I].
        apply Tother. apply Oth. rewrite <- (rt_nodes_abs _ (rs_base st)). apply in_map. exact I.
    + intros u. rewrite rt_tproj_app. destruct (Z.eq_dec u (qn_uid n)) as [->|Ne].
      * rewrite E, To. apply rt_ch_next; [rewrite <- E; apply C|lia|lia].
      * rewrite (Tother u Ne), app_nil_r. apply C.
    + intros u Hu. destruct (rt_enqueue_nodes st n' (qn_timeout n * 2 ^ (qn_cnt n + 1))) as (_ & U & _).
      rewrite U in Hu. rewrite rt_tproj_app, (Z0 u Hu). apply Tother. lia.
  - apply rt_sinv_no_tx; [intros u; reflexivity|]. split; [exact F|split; [exact C|exact Z0]].
Qed.

Lemma rt_due_head : forall st, rt_due st = true ->
  exists t0 n0 rest, rs_q st = (t0, n0) :: rest /\ rs_base st + t0 <= rs_now st.
Proof.
  intros st D. unfold rt_due in D. destruct (rs_q st) as [|[t0 n0] rest]; [discriminate|].
  exists t0, n0, rest. split; [reflexivity|lia].
Qed.

Lemma rt_fire_sinv : forall fuel st tr,
  rt_rel tr (rs_uid st) (rt_nodes (rs_q st)) -> rt_sinv tr st ->
  let (st', o) := rt_fire fuel st in rt_sinv (tr ++ o) st'.
Proof.
  induction fuel as [|f IH]; intros st tr R S; cbn [rt_fire].
  - apply rt_sinv_no_tx; [|exact S]. intros u. destruct (rt_due st); reflexivity.
  - destruct (rt_due st) eqn:Du; [|rewrite app_nil_r; exact S].
    destruct (rt_due_head st Du) as (t0 & n0 & rest & Q & Le).
    rewrite Q. cbn [sq_pop].
    destruct S as (F & C & Z0). rewrite Q in F. cbn [sq_abs] in F. inversion F as [|? ? He F']; subst.
    assert (R' : rt_rel tr (rs_uid (rt_set_q st (sq_bump t0 rest))) (n0 :: rt_nodes (rs_q (rt_set_q st (sq_bump t0 rest))))).
    { cbn [rt_set_q rs_uid rs_q]. rewrite rt_nodes_bump. rewrite Q in R. exact R. }
    assert (S' : rt_sinv tr (rt_set_q st (sq_bump t0 rest))).
    { split; [|split; [exact C|exact Z0]]. cbn [rt_set_q rs_base rs_q]. rewrite sq_abs_bump. exact F'. }
    pose proof (rt_retransmit_sinv (rt_set_q st (sq_bump t0 rest)) n0 tr (rs_base st + t0) R' S' He Le) as H1.
    pose proof (rt_retransmit_rel (rt_set_q st (sq_bump t0 rest)) n0 tr R') as H2.
    destruct (rt_retransmit (rt_set_q st (sq_bump t0 rest)) n0) as [st1 o1]. destruct H2 as [R1 _].
    specialize (IH st1 (tr ++ o1) R1 H1). destruct (rt_fire f st1) as [st2 o2].
    rewrite app_assoc. exact IH.
Qed.

Lemma rt_sinv_sub : forall tr st q',
  rt_sinv tr st -> (forall e, In e (sq_abs (rs_base st) q') -> In e (sq_abs (rs_base st) (rs_q st))) ->
  rt_sinv tr (rt_set_q st q').
Proof.
  intros tr st q' (F & C & Z0) Sub. split; [|split; [exact C|exact Z0]].
  cbn [rt_set_q rs_base rs_q]. rewrite Forall_forall in *. intros e I. apply F. apply Sub. exact I.
Qed.

Lemma rt_step_sinv : forall st ev tr,
  rt_ev_ok ev -> rt_rel tr (rs_uid st) (rt_nodes (rs_q st)) -> rt_sinv tr st ->
  let (st', o) := rt_step st ev in rt_sinv (tr ++ o) st'.
Proof.
  intros st ev tr Hev R S. destruct ev as [dt|s m b cfg r| |s m|s m|s m tok|s reason|s m|tmo|]; cbn [rt_step].
  - rewrite app_nil_r. destruct S as (F & C & Z0). split; [exact F|split; [exact C|exact Z0]].
  - unfold rt_send. set (T := fp_calc_timeout _ _ _ _ _).
    set (n := sq_mk_node _ _ _ _ _ _ _). set (st1 := rt_mk_state _ _ _ _).
    destruct S as (F & C & Z0).
    set (o := [RoTx (rs_now st) (rs_uid st) s b 0 T; RoSent m]).
    assert (To : rt_tproj (rs_uid st) o = [(rs_now st, 0, T)]) by (cbn; rewrite Z.eqb_refl; reflexivity).
    assert (Tother : forall u, u <> rs_uid st -> rt_tproj u o = []).
    { intros u Hu. cbn. assert (X : (rs_uid st =? u) = false) by lia. rewrite X. reflexivity. }
    assert (Fresh : Forall (fun e => qn_uid (snd e) <> rs_uid st) (sq_abs (rs_base st) (rs_q st))).
    { destruct R as (_ & _ & Fn & _). rewrite Forall_forall in *. intros e I.
      assert (In (snd e) (rt_nodes (rs_q st))) by (rewrite <- (rt_nodes_abs _ (rs_base st)); apply in_map; exact I).
      destruct (Fn _ H) as (A & _). lia. }
    split; [|split].
    + eapply Permutation_Forall; [apply Permutation_sym; apply (rt_abs_enqueue st1 n T); auto|].
      cbn [st1 rs_now rs_base rs_q]. constructor.
      * exists [], (rs_now st). cbn [fst snd n qn_uid qn_cnt qn_timeout].
        rewrite rt_tproj_app, (Z0 (rs_uid st)) by lia. rewrite To. split; [reflexivity|].
        rewrite Z.pow_0_r. lia.
      * rewrite Forall_forall in *. intros e I. apply rt_entry_ok_other; [|apply F; exact I].
        apply Tother. apply Fresh. exact I.
    + intros u. rewrite rt_tproj_app. destruct (Z.eq_dec u (rs_uid st)) as [->|Ne].
      * rewrite (Z0 (rs_uid st)) by lia. rewrite To. apply rt_ch_first.
      * rewrite (Tother u Ne), app_nil_r. apply C.
    + intros u Hu. destruct (rt_enqueue_nodes st1 n T) as (_ & U & _). rewrite U in Hu.
      cbn [st1 rs_uid] in Hu. rewrite rt_tproj_app, (Z0 u) by lia. apply Tother. lia.
  - unfold rt_tick, rt_fire_all.
    pose proof (rt_fire_sinv (rt_budget (rs_q st)) st tr R S) as H.
    destruct (rt_fire (rt_budget (rs_q st)) st) as [st1 o]. destruct (rt_wait st1) as [w hd].
    rewrite app_assoc. apply rt_sinv_no_tx; [intros u; reflexivity|exact H].
  - unfold rt_ack, rt_fire_all. destruct (sq_remove (rs_q st) s m) as [[[t n] q']|] eqn:Rm.
    + destruct (rt_nodes_remove _ _ _ _ _ _ Rm) as [P _].
      destruct (sq_remove_others _ (rs_base st) _ _ _ _ _ Rm) as (l1 & l2 & d & E1 & E2 & _ & _).
      assert (S1 : rt_sinv (tr ++ [RoAcked (rs_now st) (qn_uid n)]) (rt_set_q st q')).
      { apply rt_sinv_no_tx; [intros u; reflexivity|]. apply rt_sinv_sub; [exact S|].
        intros e I. rewrite E2 in I. rewrite E1. apply in_app_or in I. apply in_or_app.
        destruct I; [left|right; right]; assumption. }
      assert (R1 : rt_rel (tr ++ [RoAcked (rs_now st) (qn_uid n)]) (rs_uid st) (rt_nodes q')).
      { eapply rt_rel_drop with (n := n) (tag := PAcked); [intros _; exact I| | |].
        - cbn. rewrite Z.eqb_refl. reflexivity.
        - intros u Hu. cbn. assert (X : (qn_uid n =? u) = false) by lia. rewrite X. reflexivity.
        - eapply rt_rel_perm; [exact P|exact R]. }
      pose proof (rt_fire_sinv (rt_budget (rs_q (rt_set_q st q'))) (rt_set_q st q') _ R1 S1) as H.
      destruct (rt_fire _ (rt_set_q st q')) as [st1 o]. rewrite <- app_assoc in H. exact H.
    + pose proof (rt_fire_sinv (rt_budget (rs_q st)) st tr R S) as H.
      destruct (rt_fire (rt_budget (rs_q st)) st) as [st1 o]. exact H.
  - unfold rt_rst, rt_fire_all. destruct (sq_remove (rs_q st) s m) as [[[t n] q']|] eqn:Rm.
    + destruct (rt_nodes_remove _ _ _ _ _ _ Rm) as [P _].
      destruct (sq_remove_others _ (rs_base st) _ _ _ _ _ Rm) as (l1 & l2 & d & E1 & E2 & _ & _).
      set (o0 := [RoNack (rs_now st) (qn_uid n) (qn_sess n) rt_NACK_RST (qn_mid n) (qn_cnt n) (qn_max n)]).
      assert (S1 : rt_sinv (tr ++ o0) (rt_set_q st q')).
      { apply rt_sinv_no_tx; [intros u; reflexivity|]. apply rt_sinv_sub; [exact S|].
        intros e I. rewrite E2 in I. rewrite E1. apply in_app_or in I. apply in_or_app.
        destruct I; [left|right; right]; assumption. }
      assert (R1 : rt_rel (tr ++ o0) (rs_uid st) (rt_nodes q')).
      { eapply rt_rel_drop with (n := n) (tag := PNack rt_NACK_RST (qn_cnt n) (qn_max n));
          [intros (A & B & M & O); cbn; repeat split; try lia; intros X; discriminate| | |].
        - cbn. rewrite Z.eqb_refl. reflexivity.
        - intros u Hu. cbn. assert (X : (qn_uid n =? u) = false) by lia. rewrite X. reflexivity.
        - eapply rt_rel_perm; [exact P|exact R]. }
      pose proof (rt_fire_sinv (rt_budget (rs_q (rt_set_q st q'))) (rt_set_q st q') _ R1 S1) as H.
      destruct (rt_fire _ (rt_set_q st q')) as [st1 o]. rewrite <- app_assoc in H. exact H.
    + set (o0 := [RoNackNoPdu (rs_now st) s rt_NACK_RST m]).
      assert (S1 : rt_sinv (tr ++ o0) st) by (apply rt_sinv_no_tx; [intros u; reflexivity|exact S]).
      assert (R1 : rt_rel (tr ++ o0) (rs_uid st) (rt_nodes (rs_q st)))
        by (apply rt_rel_neutral; [intros u; reflexivity|exact R]).
      pose proof (rt_fire_sinv (rt_budget (rs_q st)) st _ R1 S1) as H.
      destruct (rt_fire (rt_budget (rs_q st)) st) as [st1 o]. rewrite <- app_assoc in H. exact H.
  - unfold rt_non, rt_fire_all.
    pose proof (rt_nodes_cancel (rt_tok_match s tok) (rs_q st)) as P.
    pose proof (sq_abs_cancel (rt_tok_match s tok) (rs_q st) (rs_base st)) as [A _].
    destruct (sq_cancel (rt_tok_match s tok) (rs_q st)) as [rm q']. cbn [fst snd] in *.
    set (o0 := map (fun n => RoAcked (rs_now st) (qn_uid n)) rm).
    assert (N0 : rt_no_tx o0) by apply rt_no_tx_acked.
    assert (S1 : rt_sinv (tr ++ o0) (rt_set_q st q')).
    { apply rt_sinv_no_tx; [exact N0|]. apply rt_sinv_sub; [exact S|].
      intros e I. rewrite A in I. apply filter_In in I. tauto. }
    assert (R1 : rt_rel (tr ++ o0) (rs_uid st) (rt_nodes q')).
    { apply rt_rel_drop_acked. eapply rt_rel_perm; [exact P|exact R]. }
    pose proof (rt_fire_sinv (rt_budget (rs_q (rt_set_q st q'))) (rt_set_q st q') _ R1 S1) as H.
    destruct (rt_fire _ (rt_set_q st q')) as [st1 o]. rewrite <- app_assoc in H. exact H.
  - unfold rt_disconnect.
    pose proof (sq_abs_cancel (rt_sess_match s) (rs_q st) (rs_base st)) as [A _].
    destruct (sq_cancel (rt_sess_match s) (rs_q st)) as [rm q']. cbn [fst snd] in *.
    apply rt_sinv_no_tx.
    + destruct rm; [intros u; reflexivity|apply rt_no_tx_nacked].
    + apply rt_sinv_sub; [exact S|]. intros e I. rewrite A in I. apply filter_In in I. tauto.
  - unfold rt_delete. destruct (sq_remove (rs_q st) s m) as [[[t n] q']|] eqn:Rm.
    + destruct (sq_remove_others _ (rs_base st) _ _ _ _ _ Rm) as (l1 & l2 & d & E1 & E2 & _ & _).
      apply rt_sinv_no_tx; [intros u; reflexivity|]. apply rt_sinv_sub; [exact S|].
      intros e I. rewrite E2 in I. rewrite E1. apply in_app_or in I. apply in_or_app.
      destruct I; [left|right; right]; assumption.
    + rewrite app_nil_r. exact S.
  - unfold rt_io_process, rt_fire_all.
    pose proof (rt_fire_sinv (rt_budget (rs_q st)) st tr R S) as H1.
    pose proof (rt_fire_rel (rt_budget (rs_q st)) st tr R) as H1r.
    destruct (rt_fire (rt_budget (rs_q st)) st) as [st1 o1]. destruct H1r as [R1 _].
    destruct (rt_wait st1) as [w hd]. set (et := rt_epoll_timeout w tmo).
    set (st2 := rt_mk_state _ (rs_base st1) (rs_q st1) (rs_uid st1)).
    assert (S2 : rt_sinv ((tr ++ o1) ++ [RoEpoll (rs_now st1) et]) st2).
    { apply rt_sinv_no_tx; [intros u; reflexivity|]. destruct H1 as (F & C & Z0).
      split; [exact F|split; [exact C|exact Z0]]. }
    assert (R2 : rt_rel ((tr ++ o1) ++ [RoEpoll (rs_now st1) et]) (rs_uid st2) (rt_nodes (rs_q st2)))
      by (apply rt_rel_neutral; [intros u; reflexivity|exact R1]).
    pose proof (rt_fire_sinv (rt_budget (rs_q st2)) st2 _ R2 S2) as H3.
    destruct (rt_fire (rt_budget (rs_q st2)) st2) as [st3 o3].
    replace (tr ++ o1 ++ RoEpoll (rs_now st1) et :: o3 ++ [RoIoRet (rs_now st3) (rs_now st3 - rs_now st)])
      with ((((tr ++ o1) ++ [RoEpoll (rs_now st1) et]) ++ o3) ++ [RoIoRet (rs_now st3) (rs_now st3 - rs_now st)])
      by (repeat rewrite <- app_assoc; reflexivity).
    apply rt_sinv_no_tx; [intros u; reflexivity|exact H3].
  - apply rt_sinv_no_tx; [intros u; reflexivity|exact S].
Qed.

Lemma rt_run_sinv : forall evs st tr,
  Forall rt_ev_ok evs -> rt_rel tr (rs_uid st) (rt_nodes (rs_q st)) -> rt_sinv tr st ->
  let (st', o) := rt_run st evs in
  rt_sinv (tr ++ o) st' /\ rt_rel (tr ++ o) (rs_uid st') (rt_nodes (rs_q st')).
Proof.
  induction evs as [|ev rest IH]; intros st tr F R S; cbn [rt_run].
  - rewrite app_nil_r. auto.
  - inversion F; subst. pose proof (rt_step_sinv st ev tr H1 R S) as HS.
    pose proof (rt_step_rel st ev tr H1 R) as HR.
    destruct (rt_step st ev) as [st1 o1]. specialize (IH st1 (tr ++ o1) H2 HR HS).
    destruct (rt_run st1 rest) as [st2 o2]. rewrite app_assoc. exact IH.
Qed.

Lemma rt_sinv_init : forall t0, rt_sinv [] (rt_init t0).
Proof. intros. split; [constructor|]. split; intros; [constructor|reflexivity]. Qed.

(* ------------------------------------------------------------------ reading a chain *)
Lemma rt_chain_last : forall l t c T, rt_chain (l ++ [(t, c, T)]) -> c = Z.of_nat (length l).
Proof.
  intros l t c T H. remember (l ++ [(t, c, T)]) as L eqn:E. revert l t c T E.
  induction H as [|t1 T1|l1 t1 c1 T1 t2 H IH Hc Hle]; intros l t c T E.
  - destruct l; discriminate.
  - destruct l as [|a l]; [inversion E; reflexivity|]. destruct l; discriminate.
  - apply app_inj_tail in E. destruct E as [E1 E2]. inversion E2; subst.
    rewrite app_length. cbn [length]. rewrite (IH _ _ _ _ eq_refl). lia.
Qed.

Lemma rt_chain_nth : forall L, rt_chain L ->
  forall i t c T, nth_error L i = Some (t, c, T) ->
    c = Z.of_nat i /\
    forall t' c' T', nth_error L (S i) = Some (t', c', T') -> T' = T /\ t + T * 2 ^ c <= t'.
Proof.
  intros L H. induction H as [|t1 T1|l1 t1 c1 T1 t2 H IH Hc Hle]; intros i t c T N.
  - destruct i; discriminate.
  - destruct i as [|i]; [|destruct i; discriminate]. cbn in N. inversion N; subst.
    split; [reflexivity|]. intros t' c' T' N'. discriminate.
  - set (L1 := l1 ++ [(t1, c1, T1)]) in *.
    assert (Len : length L1 = S (length l1)) by (unfold L1; rewrite app_length; cbn; lia).
    pose proof (rt_chain_last l1 t1 c1 T1 H) as Ec.
    destruct (Nat.lt_ge_cases i (length L1)) as [Lt|Ge].
    + rewrite nth_error_app1 in N by exact Lt. destruct (IH i t c T N) as [Ei Nx].
      split; [exact Ei|]. intros t' c' T' N'.
      destruct (Nat.lt_ge_cases (S i) (length L1)) as [Lt2|Ge2].
      * rewrite nth_error_app1 in N' by exact Lt2. apply (Nx t' c' T' N').
      * assert (Ei2 : i = length l1) by lia. subst i.
        rewrite nth_error_app2 in N' by lia. replace (S (length l1) - length L1)%nat with 0%nat in N' by lia.
        cbn in N'. inversion N'; subst.
        unfold L1 in N. rewrite nth_error_app2 in N by lia. rewrite Nat.sub_diag in N. cbn in N.
        inversion N; subst. split; [reflexivity|exact Hle].
    + rewrite nth_error_app2 in N by exact Ge.
      destruct (i - length L1)%nat as [|k] eqn:Ek; [|destruct k; discriminate].
      cbn in N. inversion N; subst. split; [lia|].
      intros t' c' T' N'. rewrite nth_error_app2 in N' by lia.
      replace (S i - length L1)%nat with 1%nat in N' by lia. discriminate.
Qed.

(* ------------------------------------------------------------------ the theorems *)
(* transmission number i of a message carries counter i; the next one comes with the same T,
   no earlier than T * 2^i after it *)
Theorem rt_spacing : forall t0 evs u,
  Forall rt_ev_ok evs ->
  let tr := snd (rt_run (rt_init t0) evs) in
  forall i t c T, nth_error (rt_tproj u tr) i = Some (t, c, T) ->
    c = Z.of_nat i /\
    forall t' c' T', nth_error (rt_tproj u tr) (S i) = Some (t', c', T') ->
      T' = T /\ t + T * 2 ^ Z.of_nat i <= t'.
Proof.
  intros t0 evs u F tr i t c T N.
  pose proof (rt_run_sinv evs (rt_init t0) [] F rt_rel_init (rt_sinv_init t0)) as H.
  unfold tr in *. destruct (rt_run (rt_init t0) evs) as [st o]. cbn [app snd] in *.
  destruct H as [(_ & C & _) _]. destruct (rt_chain_nth _ (C u) i t c T N) as [Ei Nx].
  split; [exact Ei|]. intros t' c' T' N'. rewrite <- Ei. apply (Nx t' c' T' N').
Qed.

(* the deadline of every queued message: last transmission + T * 2^retransmit_cnt, where the
   last transmission is the one with counter retransmit_cnt and T is the node's timeout *)
Theorem rt_deadline_law : forall t0 evs d n,
  Forall rt_ev_ok evs ->
  let st := fst (rt_run (rt_init t0) evs) in
  let tr := snd (rt_run (rt_init t0) evs) in
  In (d, n) (sq_abs (rs_base st) (rs_q st)) ->
  exists l t, rt_tproj (qn_uid n) tr = l ++ [(t, qn_cnt n, qn_timeout n)] /\
              d = t + qn_timeout n * 2 ^ qn_cnt n.
Proof.
  intros t0 evs d n F st tr I.
  pose proof (rt_run_sinv evs (rt_init t0) [] F rt_rel_init (rt_sinv_init t0)) as H.
  unfold st, tr in *. destruct (rt_run (rt_init t0) evs) as [st' o]. cbn [app fst snd] in *.
  destruct H as [(Fa & _ & _) _]. rewrite Forall_forall in Fa. apply (Fa (d, n) I).
Qed.


(* ------------------------------------------------------------------ giving up is never early *)
(* every NACK TOO_MANY_RETRIES in the trace comes no earlier than T * 2^cnt after the last
   transmission of that message (cnt = its counter then = max_retransmit, C06_one_outcome) *)
Definition rt_giveup_ok (before : list rt_out) (o : rt_out) : Prop :=
  match o with
  | RoNack t u _ r _ c _ =>
      r = rt_NACK_TOO_MANY_RETRIES ->
      exists l tl T, rt_tproj u before = l ++ [(tl, c, T)] /\ tl + T * 2 ^ c <= t
  | _ => True
  end.
Definition rt_giveups_ok (tr : list rt_out) : Prop :=
  forall tr1 o tr2, tr = tr1 ++ o :: tr2 -> rt_giveup_ok tr1 o.

Lemma rt_giveups_nil : rt_giveups_ok [].
Proof. intros tr1 o tr2 E. destruct tr1; discriminate. Qed.

Lemma rt_giveups_snoc : forall tr o, rt_giveups_ok tr -> rt_giveup_ok tr o -> rt_giveups_ok (tr ++ [o]).
Proof.
  intros tr o G Ho tr1 x tr2 E. apply app_eq_app in E. destruct E as [l [[E1 E2]|[E1 E2]]].
  - destruct l as [|a l'].
    + cbn in E2. inversion E2; subst. rewrite app_nil_r in Ho. exact Ho.
    + cbn in E2. inversion E2; subst. apply (G tr1 a l' eq_refl).
  - destruct l as [|a l'].
    + cbn in E2. inversion E2; subst. rewrite app_nil_r. exact Ho.
    + cbn in E2. inversion E2. destruct l'; discriminate.
Qed.

(* outputs that contain no give-up *)
Definition rt_no_giveup (o : list rt_out) : Prop :=
  Forall (fun x => match x with RoNack _ _ _ r _ _ _ => r <> rt_NACK_TOO_MANY_RETRIES | _ => True end) o.

Lemma rt_giveups_app : forall o tr, rt_giveups_ok tr -> rt_no_giveup o -> rt_giveups_ok (tr ++ o).
Proof.
  induction o as [|x o IH]; intros tr G N; [rewrite app_nil_r; exact G|].
  inversion N; subst. replace (tr ++ x :: o) with ((tr ++ [x]) ++ o) by (rewrite <- app_assoc; reflexivity).
  apply IH; [|assumption]. apply rt_giveups_snoc; [exact G|].
  destruct x; cbn; auto. intros E. contradiction.
Qed.

Lemma rt_no_giveup_acked : forall t rm, rt_no_giveup (map (fun n => RoAcked t (qn_uid n)) rm).
Proof. intros. unfold rt_no_giveup. induction rm; cbn; constructor; auto. Qed.

Lemma rt_no_giveup_nacked : forall t reason rm, reason <> rt_NACK_TOO_MANY_RETRIES ->
  rt_no_giveup (map (rt_nack_of t reason) rm).
Proof. intros. unfold rt_no_giveup. induction rm; cbn; constructor; auto. Qed.

Lemma rt_retransmit_ginv : forall st n tr d,
  rt_entry_ok tr (d, n) -> d <= rs_now st -> rt_giveups_ok tr ->
  rt_giveups_ok (tr ++ snd (rt_retransmit st n)).
Proof.
  intros st n tr d (l & t & E & D) Due G. cbn [fst snd] in E, D.
  unfold rt_retransmit. destruct (qn_cnt n <? qn_max n); cbn [snd].
  - apply rt_giveups_app; [exact G|]. repeat constructor.
  - apply rt_giveups_snoc; [exact G|]. cbn. intros _. exists l, t, (qn_timeout n). split; [exact E|lia].
Qed.

Lemma rt_fire_ginv : forall fuel st tr,
  rt_rel tr (rs_uid st) (rt_nodes (rs_q st)) -> rt_sinv tr st -> rt_giveups_ok tr ->
  rt_giveups_ok (tr ++ snd (rt_fire fuel st)).
Proof.
  induction fuel as [|f IH]; intros st tr R S G; cbn [rt_fire].
  - cbn [snd]. apply rt_giveups_app; [exact G|]. destruct (rt_due st); repeat constructor.
  - destruct (rt_due st) eqn:Du; [|cbn; rewrite app_nil_r; exact G].
    destruct (rt_due_head st Du) as (t0 & n0 & rest & Q & Le).
    rewrite Q. cbn [sq_pop].
    destruct S as (F & C & Z0). rewrite Q in F. cbn [sq_abs] in F. inversion F as [|? ? He F']; subst.
    assert (R' : rt_rel tr (rs_uid (rt_set_q st (sq_bump t0 rest))) (n0 :: rt_nodes (rs_q (rt_set_q st (sq_bump t0 rest))))).
    { cbn [rt_set_q rs_uid rs_q]. rewrite rt_nodes_bump. rewrite Q in R. exact R. }
    assert (S' : rt_sinv tr (rt_set_q st (sq_bump t0 rest))).
    { split; [|split; [exact C|exact Z0]]. cbn [rt_set_q rs_base rs_q]. rewrite sq_abs_bump. exact F'. }
    pose proof (rt_retransmit_sinv (rt_set_q st (sq_bump t0 rest)) n0 tr (rs_base st + t0) R' S' He Le) as H1.
    pose proof (rt_retransmit_rel (rt_set_q st (sq_bump t0 rest)) n0 tr R') as H2.
    pose proof (rt_retransmit_ginv (rt_set_q st (sq_bump t0 rest)) n0 tr (rs_base st + t0) He Le G) as H3.
    destruct (rt_retransmit (rt_set_q st (sq_bump t0 rest)) n0) as [st1 o1]. destruct H2 as [R1 _].
    cbn [snd] in H3. specialize (IH st1 (tr ++ o1) R1 H1 H3).
    destruct (rt_fire f st1) as [st2 o2]. cbn [snd] in *. rewrite app_assoc. exact IH.
Qed.

Lemma rt_step_ginv : forall st ev tr,
  rt_ev_ok ev -> rt_rel tr (rs_uid st) (rt_nodes (rs_q st)) -> rt_sinv tr st -> rt_giveups_ok tr ->
  rt_giveups_ok (tr ++ snd (rt_step st ev)).
Proof.
  intros st ev tr Hev R S G. destruct ev as [dt|s m b cfg r| |s m|s m|s m tok|s reason|s m|tmo|]; cbn [rt_step].
  - cbn. rewrite app_nil_r. exact G.
  - unfold rt_send. cbn [snd]. apply rt_giveups_app; [exact G|]. repeat constructor.
  - unfold rt_tick, rt_fire_all.
    pose proof (rt_fire_ginv (rt_budget (rs_q st)) st tr R S G) as H.
    destruct (rt_fire (rt_budget (rs_q st)) st) as [st1 o]. destruct (rt_wait st1) as [w hd].
    cbn [snd] in *. rewrite app_assoc. apply rt_giveups_app; [exact H|]. repeat constructor.
  - unfold rt_ack, rt_fire_all. destruct (sq_remove (rs_q st) s m) as [[[t n] q']|] eqn:Rm.
    + destruct (rt_nodes_remove _ _ _ _ _ _ Rm) as [P _].
      destruct (sq_remove_others _ (rs_base st) _ _ _ _ _ Rm) as (l1 & l2 & d & E1 & E2 & _ & _).
      set (o0 := [RoAcked (rs_now st) (qn_uid n)]).
      assert (S1 : rt_sinv (tr ++ o0) (rt_set_q st q')).
      { apply rt_sinv_no_tx; [intros u; reflexivity|]. apply rt_sinv_sub; [exact S|].
        intros e I. rewrite E2 in I. rewrite E1. apply in_app_or in I. apply in_or_app.
        destruct I; [left|right; right]; assumption. }
      assert (R1 : rt_rel (tr ++ o0) (rs_uid st) (rt_nodes q')).
      { eapply rt_rel_drop with (n := n) (tag := PAcked); [intros _; exact I| | |].
        - cbn. rewrite Z.eqb_refl. reflexivity.
        - intros u Hu. cbn. assert (X : (qn_uid n =? u) = false) by lia. rewrite X. reflexivity.
        - eapply rt_rel_perm; [exact P|exact R]. }
      assert (G1 : rt_giveups_ok (tr ++ o0)) by (apply rt_giveups_app; [exact G|repeat constructor]).
      pose proof (rt_fire_ginv (rt_budget (rs_q (rt_set_q st q'))) (rt_set_q st q') _ R1 S1 G1) as H.
      destruct (rt_fire _ (rt_set_q st q')) as [st1 o]. cbn [snd] in *. rewrite <- app_assoc in H. exact H.
    + apply (rt_fire_ginv (rt_budget (rs_q st)) st tr R S G).
  - unfold rt_rst, rt_fire_all. destruct (sq_remove (rs_q st) s m) as [[[t n] q']|] eqn:Rm.
    + destruct (rt_nodes_remove _ _ _ _ _ _ Rm) as [P _].
      destruct (sq_remove_others _ (rs_base st) _ _ _ _ _ Rm) as (l1 & l2 & d & E1 & E2 & _ & _).
      set (o0 := [RoNack (rs_now st) (qn_uid n) (qn_sess n) rt_NACK_RST (qn_mid n) (qn_cnt n) (qn_max n)]).
      assert (S1 : rt_sinv (tr ++ o0) (rt_set_q st q')).
      { apply rt_sinv_no_tx; [intros u; reflexivity|]. apply rt_sinv_sub; [exact S|].
        intros e I. rewrite E2 in I. rewrite E1. apply in_app_or in I. apply in_or_app.
        destruct I; [left|right; right]; assumption. }
      assert (R1 : rt_rel (tr ++ o0) (rs_uid st) (rt_nodes q')).
      { eapply rt_rel_drop with (n := n) (tag := PNack rt_NACK_RST (qn_cnt n) (qn_max n));
          [intros (A & B & M & O); cbn; repeat split; try lia; intros X; discriminate| | |].
        - cbn. rewrite Z.eqb_refl. reflexivity.
        - intros u Hu. cbn. assert (X : (qn_uid n =? u) = false) by lia. rewrite X. reflexivity.
        - eapply rt_rel_perm; [exact P|exact R]. }
      assert (G1 : rt_giveups_ok (tr ++ o0)).
      { apply rt_giveups_app; [exact G|]. constructor; [|constructor]. unfold rt_NACK_RST, rt_NACK_TOO_MANY_RETRIES. lia. }
      pose proof (rt_fire_ginv (rt_budget (rs_q (rt_set_q st q'))) (rt_set_q st q') _ R1 S1 G1) as H.
      destruct (rt_fire _ (rt_set_q st q')) as [st1 o]. cbn [snd] in *. rewrite <- app_assoc in H. exact H.
    + set (o0 := [RoNackNoPdu (rs_now st) s rt_NACK_RST m]).
      assert (S1 : rt_sinv (tr ++ o0) st) by (apply rt_sinv_no_tx; [intros u; reflexivity|exact S]).
      assert (R1 : rt_rel (tr ++ o0) (rs_uid st) (rt_nodes (rs_q st)))
        by (apply rt_rel_neutral; [intros u; reflexivity|exact R]).
      assert (G1 : rt_giveups_ok (tr ++ o0)) by (apply rt_giveups_app; [exact G|repeat constructor]).
      pose proof (rt_fire_ginv (rt_budget (rs_q st)) st _ R1 S1 G1) as H.
      destruct (rt_fire (rt_budget (rs_q st)) st) as [st1 o]. cbn [snd] in *. rewrite <- app_assoc in H. exact H.
  - unfold rt_non, rt_fire_all.
    pose proof (rt_nodes_cancel (rt_tok_match s tok) (rs_q st)) as P.
    pose proof (sq_abs_cancel (rt_tok_match s tok) (rs_q st) (rs_base st)) as [A _].
    destruct (sq_cancel (rt_tok_match s tok) (rs_q st)) as [rm q']. cbn [fst snd] in *.
    set (o0 := map (fun n => RoAcked (rs_now st) (qn_uid n)) rm).
    assert (S1 : rt_sinv (tr ++ o0) (rt_set_q st q')).
    { apply rt_sinv_no_tx; [apply rt_no_tx_acked|]. apply rt_sinv_sub; [exact S|].
      intros e I. rewrite A in I. apply filter_In in I. tauto. }
    assert (R1 : rt_rel (tr ++ o0) (rs_uid st) (rt_nodes q')).
    { apply rt_rel_drop_acked. eapply rt_rel_perm; [exact P|exact R]. }
    assert (G1 : rt_giveups_ok (tr ++ o0)) by (apply rt_giveups_app; [exact G|apply rt_no_giveup_acked]).
    pose proof (rt_fire_ginv (rt_budget (rs_q (rt_set_q st q'))) (rt_set_q st q') _ R1 S1 G1) as H.
    destruct (rt_fire _ (rt_set_q st q')) as [st1 o]. cbn [snd] in *. rewrite <- app_assoc in H. exact H.
  - unfold rt_disconnect. destruct (sq_cancel (rt_sess_match s) (rs_q st)) as [rm q']. cbn [snd].
    apply rt_giveups_app; [exact G|]. destruct rm as [|n rm]; [repeat constructor|].
    apply rt_no_giveup_nacked. cbn in Hev. tauto.
  - unfold rt_delete. destruct (sq_remove (rs_q st) s m) as [[[t n] q']|]; cbn [snd].
    + apply rt_giveups_app; [exact G|repeat constructor].
    + rewrite app_nil_r. exact G.
  - unfold rt_io_process, rt_fire_all.
    pose proof (rt_fire_sinv (rt_budget (rs_q st)) st tr R S) as H1.
    pose proof (rt_fire_rel (rt_budget (rs_q st)) st tr R) as H1r.
    pose proof (rt_fire_ginv (rt_budget (rs_q st)) st tr R S G) as H1g.
    destruct (rt_fire (rt_budget (rs_q st)) st) as [st1 o1]. destruct H1r as [R1 _]. cbn [snd] in H1g.
    destruct (rt_wait st1) as [w hd]. set (et := rt_epoll_timeout w tmo).
    set (st2 := rt_mk_state _ (rs_base st1) (rs_q st1) (rs_uid st1)).
    assert (S2 : rt_sinv ((tr ++ o1) ++ [RoEpoll (rs_now st1) et]) st2).
    { apply rt_sinv_no_tx; [intros u; reflexivity|]. destruct H1 as (F & C & Z0).
      split; [exact F|split; [exact C|exact Z0]]. }
    assert (R2 : rt_rel ((tr ++ o1) ++ [RoEpoll (rs_now st1) et]) (rs_uid st2) (rt_nodes (rs_q st2)))
      by (apply rt_rel_neutral; [intros u; reflexivity|exact R1]).
    assert (G2 : rt_giveups_ok ((tr ++ o1) ++ [RoEpoll (rs_now st1) et]))
      by (apply rt_giveups_app; [exact H1g|repeat constructor]).
    pose proof (rt_fire_ginv (rt_budget (rs_q st2)) st2 _ R2 S2 G2) as H3.
    destruct (rt_fire (rt_budget (rs_q st2)) st2) as [st3 o3]. cbn [snd] in *.
    replace (tr ++ o1 ++ RoEpoll (rs_now st1) et :: o3 ++ [RoIoRet (rs_now st3) (rs_now st3 - rs_now st)])
      with ((((tr ++ o1) ++ [RoEpoll (rs_now st1) et]) ++ o3) ++ [RoIoRet (rs_now st3) (rs_now st3 - rs_now st)])
      by (repeat rewrite <- app_assoc; reflexivity).
    apply rt_giveups_app; [exact H3|repeat constructor].
  - cbn [snd]. apply rt_giveups_app; [exact G|repeat constructor].
Qed.

Lemma rt_run_ginv : forall evs st tr,
  Forall rt_ev_ok evs -> rt_rel tr (rs_uid st) (rt_nodes (rs_q st)) -> rt_sinv tr st ->
  rt_giveups_ok tr -> rt_giveups_ok (tr ++ snd (rt_run st evs)).
Proof.
  induction evs as [|ev rest IH]; intros st tr F R S G; cbn [rt_run].
  - cbn. rewrite app_nil_r. exact G.
  - inversion F; subst. pose proof (rt_step_sinv st ev tr H1 R S) as HS.
    pose proof (rt_step_rel st ev tr H1 R) as HR. pose proof (rt_step_ginv st ev tr H1 R S G) as HG.
    destruct (rt_step st ev) as [st1 o1]. cbn [snd] in HG. specialize (IH st1 (tr ++ o1) H2 HR HS HG).
    destruct (rt_run st1 rest) as [st2 o2]. cbn [snd] in *. rewrite app_assoc. exact IH.
Qed.

Theorem rt_giveup_not_early : forall t0 evs tr1 t u s m c mx tr2,
  Forall rt_ev_ok evs ->
  snd (rt_run (rt_init t0) evs) = tr1 ++ RoNack t u s rt_NACK_TOO_MANY_RETRIES m c mx :: tr2 ->
  exists l tl T, rt_tproj u tr1 = l ++ [(tl, c, T)] /\ tl + T * 2 ^ c <= t.
Proof.
  intros t0 evs tr1 t u s m c mx tr2 F E.
  pose proof (rt_run_ginv evs (rt_init t0) [] F rt_rel_init (rt_sinv_init t0) rt_giveups_nil) as G.
  cbn [app] in G. specialize (G tr1 _ tr2 E). cbn in G. apply G. reflexivity.
Qed.

(* C06 - the back-off law for EVERY driver and every traffic (proofs).
   Whatever the tick times, the answers of the peer and the other messages are:
   - the deadline of a queued message is (time of its last transmission) + T * 2^retransmit_cnt,
     with T the timeout computed when it was accepted - T never changes;
   - the j-th transmission of a message (j = 0 the first) carries counter j, and transmission
     j+1 is never earlier than T * 2^j after transmission j.
   Together with rt_wait_sound (a prepare call leaves nothing behind that is due) this fixes the
   schedule for any driver: a retransmission happens at the first prepare call or datagram
   arrival at or after its deadline. *)
From LibcoapV Require Import Base.Tactics Sched.FixedPoint Sched.SendQueue Sched.SendQueueProofs
  Sched.Retransmit Sched.RetransmitProofs Sched.RetransmitTimeProofs.
From Coq Require Import Sorting.Permutation.
Local Open Scope Z_scope.

Definition rt_tx3 : Type := (Z * Z * Z)%type.      (* time, retransmit_cnt, timeout *)

Definition rt_tproj1 (u : Z) (o : rt_out) : list rt_tx3 :=
  match o with
  | RoTx t u' _ _ c T => if u' =? u then [(t, c, T)] else []
  | _ => []
  end.
Definition rt_tproj (u : Z) (tr : list rt_out) : list rt_tx3 := flat_map (rt_tproj1 u) tr.

Lemma rt_tproj_app : forall u a b, rt_tproj u (a ++ b) = rt_tproj u a ++ rt_tproj u b.
Proof. intros. unfold rt_tproj. apply flat_map_app. Qed.

(* a chain of transmissions: counters 0, 1, 2, ..., one T, gaps of at least T * 2^counter *)
Inductive rt_chain : list rt_tx3 -> Prop :=
| rt_ch_nil : rt_chain []
| rt_ch_first : forall t T, rt_chain [(t, 0, T)]
| rt_ch_next : forall l t c T t',
    rt_chain (l ++ [(t, c, T)]) -> 0 <= c -> t + T * 2 ^ c <= t' ->
    rt_chain ((l ++ [(t, c, T)]) ++ [(t', c + 1, T)]).

(* what a queue entry knows about its message's transmissions *)
Definition rt_entry_ok (tr : list rt_out) (e : Z * sq_node) : Prop :=
  exists l t, rt_tproj (qn_uid (snd e)) tr = l ++ [(t, qn_cnt (snd e), qn_timeout (snd e))] /\
              fst e = t + qn_timeout (snd e) * 2 ^ qn_cnt (snd e).

(* outputs without a transmission *)
Definition rt_no_tx (o : list rt_out) : Prop := forall u, rt_tproj u o = [].

Lemma rt_no_tx_acked : forall t rm, rt_no_tx (map (fun n => RoAcked t (qn_uid n)) rm).
Proof. intros t rm u. induction rm as [|x rm IH]; [reflexivity|]. cbn. exact IH. Qed.

Lemma rt_no_tx_nacked : forall t reason rm, rt_no_tx (map (rt_nack_of t reason) rm).
Proof. intros t reason rm u. induction rm as [|x rm IH]; [reflexivity|]. cbn. exact IH. Qed.

(* ------------------------------------------------------------------ giving up is never early *)
(* every NACK TOO_MANY_RETRIES in the trace comes no earlier than T * 2^cnt after the last
   transmission of that message (cnt = its counter then = max_retransmit, C06_one_outcome) *)
Definition rt_giveup_ok (before : list rt_out) (o : rt_out) : Prop :=
  match o with
  | RoNack t u _ r _ c _ =>
      r = rt_NACK_TOO_MANY_RETRIES ->
      exists l tl T, rt_tproj u before = l ++ [(tl, c, T)] /\ tl + T * 2 ^ c <= t
  | _ => True
  end.
Definition rt_giveups_ok (tr : list rt_out) : Prop :=
  forall tr1 o tr2, tr = tr1 ++ o :: tr2 -> rt_giveup_ok tr1 o.

Lemma rt_giveups_nil : rt_giveups_ok [].
Proof. intros tr1 o tr2 E. destruct tr1; discriminate. Qed.

Lemma rt_giveups_snoc : forall tr o, rt_giveups_ok tr -> rt_giveup_ok tr o -> rt_giveups_ok (tr ++ [o]).
Proof.
  intros tr o G Ho tr1 x tr2 E. apply app_eq_app in E. destruct E as [l [[E1 E2]|[E1 E2]]].
  - destruct l as [|a l'].
    + cbn in E2. inversion E2; subst. rewrite app_nil_r in Ho. exact Ho.
    + cbn in E2. inversion E2; subst. apply (G tr1 a l' eq_refl).
  - destruct l as [|a l'].
    + cbn in E2. inversion E2; subst. rewrite app_nil_r. exact Ho.
    + cbn in E2. inversion E2. destruct l'; discriminate.
Qed.

(* outputs that contain no give-up *)
Definition rt_no_giveup (o : list rt_out) : Prop :=
  Forall (fun x => match x with RoNack _ _ _ r _ _ _ => r <> rt_NACK_TOO_MANY_RETRIES | _ => True end) o.

Lemma rt_giveups_app : forall o tr, rt_giveups_ok tr -> rt_no_giveup o -> rt_giveups_ok (tr ++ o).
Proof.
  induction o as [|x o IH]; intros tr G N; [rewrite app_nil_r; exact G|].
  inversion N; subst. replace (tr ++ x :: o) with ((tr ++ [x]) ++ o) by (rewrite <- app_assoc; reflexivity).
  apply IH; [|assumption]. apply rt_giveups_snoc; [exact G|].
  destruct x; cbn; auto. intros E. contradiction.
Qed.

Lemma rt_no_giveup_acked : forall t rm, rt_no_giveup (map (fun n => RoAcked t (qn_uid n)) rm).
Proof. intros. unfold rt_no_giveup. induction rm; cbn; constructor; auto. Qed.

Lemma rt_no_giveup_nacked : forall t reason rm, reason <> rt_NACK_TOO_MANY_RETRIES ->
  rt_no_giveup (map (rt_nack_of t reason) rm).
Proof. intros. unfold rt_no_giveup. induction rm; cbn; constructor; auto. Qed.

(* the invariant: every queue entry knows its last transmission; the transmissions of every
   message form a chain; messages not yet accepted and messages that wait for a slot have none;
   no give-up so far was early *)
Definition rt_sinvg (tr : list rt_out) (st : rt_state) (hl : list sq_node) : Prop :=
  Forall (rt_entry_ok tr) (sq_abs (rs_base st) (rs_q st)) /\
  (forall u, rt_chain (rt_tproj u tr)) /\
  (forall u, rs_uid st <= u -> rt_tproj u tr = []) /\
  Forall (fun n => rt_tproj (qn_uid n) tr = []) hl /\
  rt_giveups_ok tr.
Definition rt_sinv (tr : list rt_out) (st : rt_state) : Prop := rt_sinvg tr st (rt_held (rs_sess st)).

Lemma rt_entry_ok_other : forall tr o e, rt_tproj (qn_uid (snd e)) o = [] ->
  rt_entry_ok tr e -> rt_entry_ok (tr ++ o) e.
Proof.
  intros tr o e N (l & t & E & D). exists l, t. rewrite rt_tproj_app, N, app_nil_r. auto.
Qed.

(* outputs without transmission and without give-up change nothing *)
Lemma rt_sinv_quiet : forall tr st o, rt_no_tx o -> rt_no_giveup o -> rt_sinv tr st -> rt_sinv (tr ++ o) st.
Proof.
  intros tr st o N NG (F & C & Z0 & H & G). split; [|split; [|split; [|split]]].
  - eapply Forall_impl; [|exact F]. intros e He. apply rt_entry_ok_other; [apply N|exact He].
  - intros u. rewrite rt_tproj_app, N, app_nil_r. apply C.
  - intros u Hu. rewrite rt_tproj_app, N, app_nil_r. apply Z0. exact Hu.
  - eapply Forall_impl; [|exact H]. intros n Hn. rewrite rt_tproj_app, N, app_nil_r. exact Hn.
  - apply rt_giveups_app; assumption.
Qed.

(* the absolute view after coap_wait_ack / re-insertion: the new entry is due at now + delay *)
Lemma rt_abs_enqueue : forall st n d,
  Permutation (sq_abs (rs_base (rt_enqueue st n d)) (rs_q (rt_enqueue st n d)))
              ((rs_now st + d, n) :: sq_abs (rs_base st) (rs_q st)).
Proof.
  intros st n d. unfold rt_enqueue. destruct (rs_q st) as [|e q] eqn:E.
  - cbn. apply Permutation_refl.
  - cbn [rs_base rs_q rt_set_q]. rewrite sq_abs_insert.
    replace (rs_base st + (rs_now st - rs_base st + d)) with (rs_now st + d) by lia.
    apply Permutation_sym. apply sq_spec_insert_perm.
Qed.

Lemma rt_nodes_abs : forall q base, map snd (sq_abs base q) = rt_nodes q.
Proof. induction q as [|[t n] r IH]; intros base; [reflexivity|]. cbn. f_equal. apply IH. Qed.

(* a message (uid below rs_uid, different from the uids of all other pending messages) is
   transmitted and (re-)enters the queue with the matching deadline *)
Lemma rt_sinvg_tx : forall tr st hl n' c,
  c = qn_cnt n' -> qn_uid n' < rs_uid st ->
  rt_chain (rt_tproj (qn_uid n') tr ++ [(rs_now st, c, qn_timeout n')]) ->
  Forall (fun x => qn_uid x <> qn_uid n') (rt_nodes (rs_q st) ++ hl) ->
  rt_sinvg tr st hl ->
  rt_sinvg (tr ++ [RoTx (rs_now st) (qn_uid n') (qn_sess n') (qn_bytes n') c (qn_timeout n')])
           (rt_enqueue st n' (qn_timeout n' * 2 ^ c)) hl.
Proof.
  intros tr st hl n' c Ec Hu Hch Oth (F & C & Z0 & H & G).
  set (o := [RoTx (rs_now st) (qn_uid n') (qn_sess n') (qn_bytes n') c (qn_timeout n')]).
  assert (To : rt_tproj (qn_uid n') o = [(rs_now st, c, qn_timeout n')]) by (cbn; rewrite Z.eqb_refl; reflexivity).
  assert (Tother : forall u, u <> qn_uid n' -> rt_tproj u o = []).
  { intros u Hn. cbn. assert (X : (qn_uid n' =? u) = false) by lia. rewrite X. reflexivity. }
  destruct (rt_enqueue_nodes st n' (qn_timeout n' * 2 ^ c)) as (_ & U & _ & S).
  apply Forall_app in Oth. destruct Oth as [Oq Oh].
  split; [|split; [|split; [|split]]].
  - eapply Permutation_Forall; [apply Permutation_sym; apply rt_abs_enqueue|]. constructor.
    + exists (rt_tproj (qn_uid n') tr), (rs_now st). cbn [fst snd]. rewrite rt_tproj_app, To, Ec. split; reflexivity.
    + rewrite Forall_forall in *. intros e I. apply rt_entry_ok_other; [|apply F; exact I].
      apply Tother. apply Oq. rewrite <- (rt_nodes_abs _ (rs_base st)). apply in_map. exact I.
  - intros u. rewrite rt_tproj_app. destruct (Z.eq_dec u (qn_uid n')) as [->|Ne].
    + rewrite To. exact Hch.
    + rewrite (Tother u Ne), app_nil_r. apply C.
  - intros u Hge. rewrite U in Hge. rewrite rt_tproj_app, (Z0 u Hge). apply Tother. lia.
  - rewrite Forall_forall in *. intros x I. rewrite rt_tproj_app, (H x I).
    apply Tother. apply Oh. exact I.
  - apply rt_giveups_app; [exact G|]. repeat constructor.
Qed.

Lemma rt_sinv_tx : forall tr st n' c,
  c = qn_cnt n' -> qn_uid n' < rs_uid st ->
  rt_chain (rt_tproj (qn_uid n') tr ++ [(rs_now st, c, qn_timeout n')]) ->
  Forall (fun x => qn_uid x <> qn_uid n') (rt_live st) ->
  rt_sinv tr st ->
  rt_sinv (tr ++ [RoTx (rs_now st) (qn_uid n') (qn_sess n') (qn_bytes n') c (qn_timeout n')])
          (rt_enqueue st n' (qn_timeout n' * 2 ^ c)).
Proof.
  intros tr st n' c Ec Hu Hch Oth S. unfold rt_sinv.
  destruct (rt_enqueue_nodes st n' (qn_timeout n' * 2 ^ c)) as (_ & _ & _ & Sx). rewrite Sx.
  apply rt_sinvg_tx; assumption.
Qed.

(* queue and waiting list shrink (or are permuted) *)
Lemma rt_sinv_sub : forall tr st st',
  rs_uid st' = rs_uid st ->
  (forall e, In e (sq_abs (rs_base st') (rs_q st')) -> In e (sq_abs (rs_base st) (rs_q st))) ->
  (forall n, In n (rt_held (rs_sess st')) -> In n (rt_held (rs_sess st))) ->
  rt_sinv tr st -> rt_sinv tr st'.
Proof.
  intros tr st st' U Sq Sh (F & C & Z0 & H & G). split; [|split; [exact C|split; [|split; [|exact G]]]].
  - rewrite Forall_forall in *. intros e I. apply F. apply Sq. exact I.
  - intros u Hu. apply Z0. lia.
  - rewrite Forall_forall in *. intros n I. apply H. apply Sh. exact I.
Qed.

(* uids: distinct among the pending messages, and below rs_uid (from rt_rel) *)
Lemma rt_rel_uids : forall tr k L, rt_rel tr k L ->
  NoDup (map qn_uid L) /\ Forall (fun n => qn_uid n < k) L.
Proof.
  intros tr k L (_ & D & F & _). split; [exact D|].
  eapply Forall_impl; [|exact F]. intros n (A & _). lia.
Qed.

Lemma rt_nodup_others : forall (l1 l2 : list sq_node) n,
  NoDup (map qn_uid (l1 ++ n :: l2)) -> Forall (fun x => qn_uid x <> qn_uid n) (l1 ++ l2).
Proof.
  intros l1 l2 n D. rewrite map_app in D. cbn [map] in D. apply NoDup_remove_2 in D.
  rewrite Forall_forall. intros x I E. apply D. rewrite <- map_app. rewrite <- E. apply in_map. exact I.
Qed.

(* releasing waiting messages *)
Lemma rt_release_go_sinv : forall dq st ns ca tr extra rest,
  rt_rel tr (rs_uid st) (extra ++ rt_nodes (rs_q st) ++ dq ++ rest) ->
  Forall (fun n => qn_cnt n = -1) dq ->
  rt_sinvg tr st (dq ++ rest) ->
  match rt_release_go st ns ca dq with
  | (st2, ca2, dq2, o) => rt_sinvg (tr ++ o) st2 (dq2 ++ rest)
  end.
Proof.
  induction dq as [|n dq IH]; intros st ns ca tr extra rest R Hm S; cbn [rt_release_go].
  - rewrite app_nil_r. exact S.
  - destruct (ns <=? ca); [rewrite app_nil_r; exact S|].
    inversion Hm as [|? ? Hn Hm']; subst.
    set (c := qn_cnt n + 1). set (n' := rt_bump_node n c).
    set (st1 := rt_enqueue st n' (qn_timeout n * 2 ^ c)).
    destruct (rt_rel_uids _ _ _ R) as [D Ub].
    assert (Dn : Forall (fun x => qn_uid x <> qn_uid n) ((extra ++ rt_nodes (rs_q st)) ++ dq ++ rest)).
    { apply rt_nodup_others. rewrite <- app_assoc. exact D. }
    assert (Un : qn_uid n < rs_uid st).
    { rewrite Forall_forall in Ub. apply Ub. apply in_or_app. right. apply in_or_app. right. left. reflexivity. }
    pose proof S as (F & C & Z0 & H & G). cbn [app] in H. inversion H as [|? ? Hn0 H']; subst.
    assert (Sv : rt_sinvg tr st (dq ++ rest)) by (split; [exact F|split; [exact C|split; [exact Z0|split; [exact H'|exact G]]]]).
    assert (Ov : Forall (fun x => qn_uid x <> qn_uid n') (rt_nodes (rs_q st) ++ dq ++ rest)).
    { apply Forall_app in Dn. destruct Dn as [Dq Dr]. apply Forall_app in Dq. destruct Dq as [_ Dq].
      apply Forall_app. split; assumption. }
    assert (Ch : rt_chain (rt_tproj (qn_uid n') tr ++ [(rs_now st, c, qn_timeout n')])).
    { cbn [n' rt_bump_node qn_uid qn_timeout]. rewrite Hn0. unfold c. rewrite Hn. cbn [app].
      replace (-1 + 1) with 0 by lia. apply rt_ch_first. }
    pose proof (rt_sinvg_tx tr st (dq ++ rest) n' c eq_refl Un Ch Ov Sv) as S1.
    cbn [n' rt_bump_node qn_uid qn_sess qn_bytes qn_timeout] in S1. fold n' in S1. fold st1 in S1.
    set (o1 := [RoTx (rs_now st) (qn_uid n) (qn_sess n) (qn_bytes n) c (qn_timeout n)]) in *.
    destruct (rt_enqueue_nodes st n' (qn_timeout n * 2 ^ c)) as (P & U & N & Sx).
    fold st1 in P, U, N, Sx.
    assert (R1 : rt_rel (tr ++ o1) (rs_uid st1) (extra ++ rt_nodes (rs_q st1) ++ dq ++ rest)).
    { rewrite U.
      eapply rt_rel_perm with (ns := n' :: (extra ++ rt_nodes (rs_q st) ++ dq ++ rest)).
      - apply Permutation_sym.
        eapply Permutation_trans; [apply Permutation_app_head; apply Permutation_app_tail; exact P|].
        cbn [app]. apply Permutation_sym. apply Permutation_middle.
      - assert (Rn : rt_rel tr (rs_uid st) (n :: extra ++ rt_nodes (rs_q st) ++ dq ++ rest)).
        { eapply rt_rel_perm; [|exact R]. apply Permutation_sym.
          eapply Permutation_trans; [apply Permutation_middle|]. apply Permutation_app_head.
          eapply Permutation_trans; [apply Permutation_middle|]. apply Permutation_refl. }
        destruct Rn as (K & Dd & Ff & Cc). inversion Ff as [|? ? (A & B & M & O) F'']; subst.
        apply rt_rel_bump; [reflexivity|lia|]. split; [exact K|split; [exact Dd|split; [exact Ff|exact Cc]]]. }
    specialize (IH st1 ns (ca + 1) (tr ++ o1) extra rest R1 Hm' S1).
    destruct (rt_release_go st1 ns (ca + 1) dq) as [[[st2 ca2] dq2] o2].
    replace (tr ++ RoTx (rs_now st) (qn_uid n) (qn_sess n) (qn_bytes n) c (qn_timeout n) :: o2)
      with ((tr ++ o1) ++ o2) by (unfold o1; rewrite <- app_assoc; reflexivity).
    exact IH.
Qed.

Lemma rt_release_sinv : forall st s tr extra,
  rt_invx tr st extra -> rt_sinv tr st ->
  rt_sinv (tr ++ snd (rt_release st s)) (fst (rt_release st s)).
Proof.
  intros st s tr extra (R & Hm & SO) (F & C & Z0 & H & G). unfold rt_release.
  destruct (rt_held_get_set s (rs_sess st)) as (rest & P1 & P2).
  set (si := rt_sget s (rs_sess st)) in *.
  assert (Hs : Forall (fun n => qn_cnt n = -1) (si_hold si)).
  { eapply Permutation_Forall in Hm; [|exact P1]. apply Forall_app in Hm. tauto. }
  assert (R0 : rt_rel tr (rs_uid st) (extra ++ rt_nodes (rs_q st) ++ si_hold si ++ rest)).
  { eapply rt_rel_perm; [|exact R]. unfold rt_live. apply Permutation_app_head.
    apply Permutation_app_head. exact P1. }
  assert (S0 : rt_sinvg tr st (si_hold si ++ rest)).
  { split; [exact F|split; [exact C|split; [exact Z0|split; [|exact G]]]].
    eapply Permutation_Forall; [exact P1|exact H]. }
  pose proof (rt_release_go_sinv (si_hold si) st (si_nstart si) (si_active si) tr extra rest R0 Hs S0) as X.
  pose proof (rt_release_go_rel (si_hold si) st (si_nstart si) (si_active si) tr extra rest R0 Hs) as Y.
  destruct (rt_sget_ok s _ SO) as [Oa On]. specialize (Y Oa).
  destruct (rt_release_go st (si_nstart si) (si_active si) (si_hold si)) as [[[st1 ca] dq] o].
  destruct X as (F1 & C1 & Z1 & H1 & G1). destruct Y as (_ & U1 & S1 & _). cbn [fst snd].
  split; [exact F1|]. split; [exact C1|]. split; [exact Z1|]. split; [|exact G1].
  cbn [rt_set_sess rs_sess]. rewrite S1.
  eapply Permutation_Forall; [apply Permutation_sym; apply (P2 (rt_mk_sinfo (si_nstart si) ca dq))|exact H1].
Qed.

Lemma rt_sinv_set_same_hold : forall tr st s e,
  si_hold e = si_hold (rt_sget s (rs_sess st)) ->
  rt_sinv tr st -> rt_sinv tr (rt_set_sess st (rt_sset s e (rs_sess st))).
Proof.
  intros tr st s e He S. destruct (rt_held_get_set s (rs_sess st)) as (rest & P1 & P2).
  apply (rt_sinv_sub tr st); [reflexivity|auto|  |exact S].
  intros n I. cbn [rt_set_sess rs_sess] in I. eapply Permutation_in; [|exact I].
  eapply Permutation_trans; [apply P2|]. rewrite He. apply Permutation_sym. exact P1.
Qed.

Lemma rt_free_slot_sinv : forall st s tr extra,
  rt_invx tr st extra -> rt_sinv tr st ->
  rt_sinv (tr ++ snd (rt_free_slot st s)) (fst (rt_free_slot st s)).
Proof.
  intros st s tr extra I S. unfold rt_free_slot. destruct (0 <? si_active (rt_sget s (rs_sess st))) eqn:E.
  - set (e := rt_mk_sinfo _ _ _). set (st0 := rt_set_sess st _).
    assert (I0 : rt_invx tr st0 extra).
    { apply rt_invx_set_same_hold; [reflexivity| |exact I].
      destruct I as (_ & _ & SO). destruct (rt_sget_ok s _ SO) as [Oa On]. unfold rt_sinfo_ok, e. cbn. lia. }
    apply (rt_release_sinv st0 s tr extra I0). apply rt_sinv_set_same_hold; [reflexivity|exact S].
  - cbn [fst snd]. rewrite app_nil_r. exact S.
Qed.

Lemma rt_free_slots_sinv : forall k st s tr,
  rt_inv tr st -> rt_sinv tr st ->
  rt_sinv (tr ++ snd (rt_free_slots k st s)) (fst (rt_free_slots k st s)).
Proof.
  induction k as [|k IH]; intros st s tr I S; cbn [rt_free_slots].
  - cbn. rewrite app_nil_r. exact S.
  - pose proof (rt_free_slot_sinv st s tr [] I S) as S1.
    destruct (rt_free_slot_inv st s tr [] I) as [I1 _].
    destruct (rt_free_slot st s) as [st1 o1]. cbn [fst snd] in *.
    pose proof (IH st1 s _ I1 S1) as S2. destruct (rt_free_slots k st1 s) as [st2 o2].
    cbn [fst snd] in *. rewrite app_assoc. exact S2.
Qed.

Lemma rt_proj_nil_tproj_nil : forall u o, rt_proj u o = [] -> rt_tproj u o = [].
Proof.
  intros u. induction o as [|a o IH]; intros H; [reflexivity|].
  change (rt_proj u (a :: o)) with (rt_proj1 u a ++ rt_proj u o) in H.
  apply app_eq_nil in H. destruct H as [H1 H2].
  change (rt_tproj u (a :: o)) with (rt_tproj1 u a ++ rt_tproj u o). rewrite (IH H2), app_nil_r.
  destruct a; cbn in *; try reflexivity. destruct (uid =? u); [discriminate|reflexivity].
Qed.

(* one iteration of the prepare loop: n was the head, due at d <= now *)
Lemma rt_retransmit_sinv : forall st n tr d,
  rt_invx tr st [n] -> rt_sinv tr st -> rt_entry_ok tr (d, n) -> d <= rs_now st ->
  let (st', o) := rt_retransmit st n in rt_sinv (tr ++ o) st'.
Proof.
  intros st n tr d I S (l & t & E & D) Due. cbn [fst snd] in E, D.
  pose proof I as (R & Hm & SO). cbn [app] in R.
  destruct (rt_rel_uids _ _ _ R) as [Dd Ub].
  assert (Oth : Forall (fun x => qn_uid x <> qn_uid n) (rt_live st)).
  { apply (rt_nodup_others [] (rt_live st) n). exact Dd. }
  assert (Un : qn_uid n < rs_uid st) by (inversion Ub; assumption).
  pose proof R as (_ & _ & Fn & _). inversion Fn as [|? ? (A & B & M & _) _]; subst.
  unfold rt_retransmit. destruct (qn_cnt n <? qn_max n) eqn:Ec.
  - assert (Em : (qn_cnt n + 1) mod 256 = qn_cnt n + 1) by (apply Z.mod_small; lia).
    rewrite Em. set (c := qn_cnt n + 1). set (n' := rt_bump_node n c).
    assert (Ch : rt_chain (rt_tproj (qn_uid n') tr ++ [(rs_now st, c, qn_timeout n')])).
    { cbn [n' rt_bump_node qn_uid qn_timeout]. rewrite E.
      destruct S as (_ & C & _). specialize (C (qn_uid n)). rewrite E in C.
      assert (0 <= qn_cnt n).
      { destruct (Z_le_gt_dec 0 (qn_cnt n)); [assumption|]. exfalso.
        (* a chain ends with a non-negative counter *)
        clear - C g B. remember (l ++ [(t, qn_cnt n, qn_timeout n)]) as L eqn:EL.
        destruct C as [|t1 T1|l1 t1 c1 T1 t2 C' Hc Hle].
        - destruct l; discriminate.
        - destruct l as [|a l]; [inversion EL; lia|destruct l; discriminate].
        - apply app_inj_tail in EL. destruct EL as [_ X]. inversion X. lia. }
      apply rt_ch_next; [exact C|assumption|lia]. }
    pose proof (rt_sinv_tx tr st n' c eq_refl Un Ch Oth S) as S1.
    cbn [n' rt_bump_node qn_uid qn_sess qn_bytes qn_timeout] in S1.
    destruct (rt_sget_ok (qn_sess n) (rs_sess (rt_enqueue st (rt_bump_node n c) (qn_timeout n * 2 ^ c)))) as [Oa On].
    { destruct (rt_enqueue_nodes st (rt_bump_node n c) (qn_timeout n * 2 ^ c)) as (_ & _ & _ & Sx). rewrite Sx. exact SO. }
    set (si := rt_sget (qn_sess n) _) in *.
    assert (Lt : (si_nstart si <=? (if 0 <? si_active si then si_active si - 1 else si_active si)) = false).
    { destruct (0 <? si_active si) eqn:E0; lia. }
    rewrite Lt. apply rt_sinv_set_same_hold; [reflexivity|exact S1].
  - pose proof (rt_free_slot_sinv st (qn_sess n) tr [n] I S) as S1.
    destruct (rt_free_slot_inv st (qn_sess n) tr [n] I) as [_ N1].
    destruct (rt_free_slot st (qn_sess n)) as [st1 o1] eqn:Ef. cbn [fst snd] in *.
    rewrite app_assoc. destruct S1 as (F1 & C1 & Z1 & H1 & G1).
    assert (Tq : rt_tproj (qn_uid n) (tr ++ o1) = l ++ [(t, qn_cnt n, qn_timeout n)]).
    { (* the released messages are others *)
      rewrite rt_tproj_app, E.
      assert (X : rt_tproj (qn_uid n) o1 = []).
      { destruct (rt_free_slot_inv st (qn_sess n) tr [n] I) as [(R1 & _ & _) _]. rewrite Ef in R1. cbn [fst snd app] in R1.
        destruct R1 as (_ & _ & Fn1 & _). inversion Fn1 as [|? ? (_ & _ & _ & O1) _]; subst.
        destruct R as (_ & _ & Fn0 & _). inversion Fn0 as [|? ? (_ & _ & _ & O0) _]; subst.
        (* compare the tag projections: unchanged, hence no RoTx of this uid in o1 *)
        unfold rt_open in O0, O1. rewrite rt_proj_app, O0 in O1.
        assert (Pn : rt_proj (qn_uid n) o1 = []).
        { destruct (rt_proj (qn_uid n) o1); [reflexivity|].
          apply (f_equal (@length _)) in O1. rewrite app_length, repeat_length in O1. cbn in O1. lia. }
        apply rt_proj_nil_tproj_nil. exact Pn. }
      rewrite X, app_nil_r. reflexivity. }
    split; [|split; [|split; [|split]]].
    + eapply Forall_impl; [|exact F1]. intros e He. apply rt_entry_ok_other; [reflexivity|exact He].
    + intros u. rewrite rt_tproj_app. cbn. rewrite app_nil_r. apply C1.
    + intros u Hu. rewrite rt_tproj_app. cbn. rewrite app_nil_r. apply Z1. exact Hu.
    + eapply Forall_impl; [|exact H1]. intros x Hx. rewrite rt_tproj_app. cbn. rewrite app_nil_r. exact Hx.
    + apply rt_giveups_snoc; [exact G1|]. cbn. intros _.
      exists l, t, (qn_timeout n). split; [exact Tq|lia].
Qed.

Lemma rt_due_head : forall st, rt_due st = true ->
  exists t0 n0 rest, rs_q st = (t0, n0) :: rest /\ rs_base st + t0 <= rs_now st.
Proof.
  intros st D. unfold rt_due in D. destruct (rs_q st) as [|[t0 n0] rest]; [discriminate|].
  exists t0, n0, rest. split; [reflexivity|lia].
Qed.

Lemma rt_fire_sinv : forall fuel st tr,
  rt_inv tr st -> rt_sinv tr st ->
  let (st', o) := rt_fire fuel st in rt_sinv (tr ++ o) st'.
Proof.
  induction fuel as [|f IH]; intros st tr R S; cbn [rt_fire].
  - apply rt_sinv_quiet; [| |exact S]; [intros u|]; destruct (rt_due st); try reflexivity; repeat constructor.
  - destruct (rt_due st) eqn:Du; [|rewrite app_nil_r; exact S].
    destruct (rt_due_head st Du) as (t0 & n0 & rest & Q & Le).
    rewrite Q. cbn [sq_pop].
    assert (I0 : rt_invx tr (rt_set_q st (sq_bump t0 rest)) [n0]).
    { destruct R as (R & H & SO). split; [|split; assumption].
      cbn [rt_set_q rs_uid app]. unfold rt_live in *. cbn [rt_set_q rs_q rs_sess app] in *.
      rewrite rt_nodes_bump. rewrite Q in R. exact R. }
    pose proof S as (F & C & Z0 & H & G). rewrite Q in F. cbn [sq_abs] in F. inversion F as [|? ? He F']; subst.
    assert (S' : rt_sinv tr (rt_set_q st (sq_bump t0 rest))).
    { apply (rt_sinv_sub tr st); [reflexivity| |auto|exact S].
      intros e I. cbn [rt_set_q rs_base rs_q] in I. rewrite sq_abs_bump in I. rewrite Q. cbn [sq_abs]. right. exact I. }
    pose proof (rt_retransmit_sinv (rt_set_q st (sq_bump t0 rest)) n0 tr (rs_base st + t0) I0 S' He Le) as H1.
    pose proof (rt_retransmit_rel (rt_set_q st (sq_bump t0 rest)) n0 tr I0) as H2.
    destruct (rt_retransmit (rt_set_q st (sq_bump t0 rest)) n0) as [st1 o1]. destruct H2 as [R1 _].
    specialize (IH st1 (tr ++ o1) R1 H1). destruct (rt_fire f st1) as [st2 o2].
    rewrite app_assoc. exact IH.
Qed.

Lemma rt_fire_all_sinv : forall st tr, rt_inv tr st -> rt_sinv tr st ->
  rt_sinv (tr ++ snd (rt_fire_all st)) (fst (rt_fire_all st)).
Proof.
  intros st tr I S. unfold rt_fire_all. pose proof (rt_fire_sinv (rt_budget_all st) st tr I S) as H.
  destruct (rt_fire (rt_budget_all st) st). exact H.
Qed.

(* removing entries from the queue *)
Lemma rt_sinv_set_q_sub : forall tr st q',
  (forall e, In e (sq_abs (rs_base st) q') -> In e (sq_abs (rs_base st) (rs_q st))) ->
  rt_sinv tr st -> rt_sinv tr (rt_set_q st q').
Proof. intros tr st q' Sub S. apply (rt_sinv_sub tr st); [reflexivity|exact Sub|auto|exact S]. Qed.

Lemma rt_removed_sub : forall st s m t n q', sq_remove (rs_q st) s m = Some ((t, n), q') ->
  forall e, In e (sq_abs (rs_base st) q') -> In e (sq_abs (rs_base st) (rs_q st)).
Proof.
  intros st s m t n q' Rm e I.
  destruct (sq_remove_others _ (rs_base st) _ _ _ _ _ Rm) as (l1 & l2 & d & E1 & E2 & _ & _).
  rewrite E2 in I. rewrite E1. apply in_app_or in I. apply in_or_app. destruct I; [left|right; right]; assumption.
Qed.

Lemma rt_step_sinv : forall st ev tr,
  rt_ev_ok ev -> rt_inv tr st -> rt_sinv tr st ->
  let (st', o) := rt_step st ev in rt_sinv (tr ++ o) st'.
Proof.
  intros st ev tr Hev R S. destruct ev as [dt|s m b cfg r| |s m|s m|s m tok|s reason|s m|tmo|]; cbn [rt_step].
  - rewrite app_nil_r. apply (rt_sinv_sub tr st); auto.
  - unfold rt_send. set (T := fp_calc_timeout _ _ _ _ _).
    pose proof R as (Rr & Hm & SO). cbn [app] in Rr.
    destruct (rt_rel_uids _ _ _ Rr) as [Dd Ub].
    destruct (rt_held_get_set s (rs_sess st)) as (rest & P1 & P2).
    set (si := rt_sget s (rs_sess st)) in *.
    pose proof S as (F & C & Z0 & H & G).
    destruct (si_nstart si <=? si_active si).
    + destruct (existsb (fun n => qn_mid n =? m) (si_hold si)).
      * apply rt_sinv_quiet; [intros u; reflexivity|repeat constructor|exact S].
      * set (n := sq_mk_node (rs_uid st) s m (-1) T (rc_max cfg) b).
        set (e := rt_mk_sinfo (si_nstart si) (si_active si) (si_hold si ++ [n])).
        apply rt_sinv_quiet; [intros u; reflexivity|repeat constructor|].
        split; [exact F|split; [exact C|split; [|split; [|exact G]]]].
        -- intros u Hu. cbn [rs_uid] in Hu. apply Z0. lia.
        -- cbn [rs_sess]. eapply Permutation_Forall; [apply Permutation_sym; apply (P2 e)|]. cbn [e si_hold].
           eapply Permutation_Forall in H; [|exact P1]. apply Forall_app in H. destruct H as [Hs Hr].
           apply Forall_app. split; [|exact Hr]. apply Forall_app. split; [exact Hs|].
           constructor; [|constructor]. cbn [n qn_uid]. apply Z0. lia.
    + set (n := sq_mk_node (rs_uid st) s m 0 T (rc_max cfg) b).
      set (e := rt_mk_sinfo (si_nstart si) (si_active si + 1) (si_hold si)).
      set (st1 := rt_mk_state (rs_now st) (rs_base st) (rs_q st) (rs_uid st + 1) (rt_sset s e (rs_sess st))).
      assert (S1 : rt_sinv tr st1).
      { split; [exact F|split; [exact C|split; [|split; [|exact G]]]].
        - intros u Hu. cbn [st1 rs_uid] in Hu. apply Z0. lia.
        - cbn [st1 rs_sess]. eapply Permutation_Forall; [apply Permutation_sym; apply (P2 e)|]. cbn [e si_hold].
          eapply Permutation_Forall; [exact P1|exact H]. }
      assert (Ch : rt_chain (rt_tproj (qn_uid n) tr ++ [(rs_now st1, 0, qn_timeout n)])).
      { cbn [n qn_uid qn_timeout]. rewrite (Z0 (rs_uid st)) by lia. apply rt_ch_first. }
      assert (Oth : Forall (fun x => qn_uid x <> qn_uid n) (rt_live st1)).
      { unfold rt_live. cbn [st1 rs_q rs_sess n qn_uid]. rewrite Forall_forall in *. intros x I.
        assert (Ix : In x (rt_live st)).
        { unfold rt_live. apply in_app_or in I. apply in_or_app. destruct I as [I|I]; [left; exact I|right].
          eapply Permutation_in; [|exact I]. eapply Permutation_trans; [apply (P2 e)|]. cbn [e si_hold].
          apply Permutation_sym. exact P1. }
        specialize (Ub x Ix). lia. }
      pose proof (rt_sinv_tx tr st1 n 0 eq_refl ltac:(cbn [n st1 qn_uid rs_uid]; lia) Ch Oth S1) as S2.
      cbn [n qn_uid qn_sess qn_bytes qn_timeout st1 rs_now] in S2. rewrite Z.pow_0_r, Z.mul_1_r in S2.
      replace (tr ++ [RoTx (rs_now st) (rs_uid st) s b 0 T; RoSent m])
        with ((tr ++ [RoTx (rs_now st) (rs_uid st) s b 0 T]) ++ [RoSent m]) by (rewrite <- app_assoc; reflexivity).
      apply rt_sinv_quiet; [intros u; reflexivity|repeat constructor|exact S2].
  - unfold rt_tick. pose proof (rt_fire_all_sinv st tr R S) as H.
    destruct (rt_fire_all st) as [st1 o]. cbn [fst snd] in H. destruct (rt_wait st1) as [w hd].
    rewrite app_assoc. apply rt_sinv_quiet; [intros u; reflexivity|repeat constructor|exact H].
  - unfold rt_ack. destruct (sq_remove (rs_q st) s m) as [[[t n] q']|] eqn:Rm.
    + pose proof (rt_inv_removed tr st s m t n q' Rm R) as I0.
      set (o0 := [RoAcked (rs_now st) (qn_uid n)]).
      assert (I1 : rt_inv (tr ++ o0) (rt_set_q st q')).
      { eapply rt_invx_drop with (n := n) (tag := PAcked); [intros _; exact I| | |exact I0].
        - cbn. rewrite Z.eqb_refl. reflexivity.
        - intros u Hu. cbn. assert (X : (qn_uid n =? u) = false) by lia. rewrite X. reflexivity. }
      assert (S1 : rt_sinv (tr ++ o0) (rt_set_q st q')).
      { apply rt_sinv_quiet; [intros u; reflexivity|repeat constructor|].
        apply rt_sinv_set_q_sub; [eapply rt_removed_sub; eauto|exact S]. }
      pose proof (rt_free_slot_sinv (rt_set_q st q') s _ [] I1 S1) as S2.
      destruct (rt_free_slot_inv (rt_set_q st q') s _ [] I1) as [I2 _].
      destruct (rt_free_slot (rt_set_q st q') s) as [st1 o1]. cbn [fst snd] in *.
      pose proof (rt_fire_all_sinv st1 _ I2 S2) as S3. destruct (rt_fire_all st1) as [st2 o2]. cbn [fst snd] in S3.
      replace (tr ++ RoAcked (rs_now st) (qn_uid n) :: o1 ++ o2) with (((tr ++ o0) ++ o1) ++ o2)
        by (unfold o0; repeat rewrite <- app_assoc; reflexivity).
      exact S3.
    + pose proof (rt_fire_all_sinv st tr R S) as H. destruct (rt_fire_all st). exact H.
  - unfold rt_rst. destruct (sq_remove (rs_q st) s m) as [[[t n] q']|] eqn:Rm.
    + pose proof (rt_inv_removed tr st s m t n q' Rm R) as I0.
      assert (S0 : rt_sinv tr (rt_set_q st q')).
      { apply rt_sinv_set_q_sub; [eapply rt_removed_sub; eauto|exact S]. }
      pose proof (rt_free_slot_sinv (rt_set_q st q') s tr [n] I0 S0) as S1.
      destruct (rt_free_slot_inv (rt_set_q st q') s tr [n] I0) as [I1 _].
      destruct (rt_free_slot (rt_set_q st q') s) as [st1 o1]. cbn [fst snd] in *.
      set (o0 := [RoNack (rs_now st) (qn_uid n) (qn_sess n) rt_NACK_RST (qn_mid n) (qn_cnt n) (qn_max n)]).
      assert (I2 : rt_inv ((tr ++ o1) ++ o0) st1).
      { eapply rt_invx_drop with (n := n) (tag := PNack rt_NACK_RST (qn_cnt n) (qn_max n)); [| | |exact I1].
        - intros (A & B & M & O). cbn. repeat split; try lia; intros X; discriminate.
        - cbn. rewrite Z.eqb_refl. reflexivity.
        - intros u Hu. cbn. assert (X : (qn_uid n =? u) = false) by lia. rewrite X. reflexivity. }
      assert (S2 : rt_sinv ((tr ++ o1) ++ o0) st1).
      { apply rt_sinv_quiet; [intros u; reflexivity| |exact S1].
        constructor; [|constructor]. unfold rt_NACK_RST, rt_NACK_TOO_MANY_RETRIES. lia. }
      pose proof (rt_fire_all_sinv st1 _ I2 S2) as S3. destruct (rt_fire_all st1) as [st2 o2]. cbn [fst snd] in S3.
      replace (tr ++ o1 ++ RoNack (rs_now st) (qn_uid n) (qn_sess n) rt_NACK_RST (qn_mid n) (qn_cnt n) (qn_max n) :: o2)
        with (((tr ++ o1) ++ o0) ++ o2) by (unfold o0; repeat rewrite <- app_assoc; reflexivity).
      exact S3.
    + set (o0 := [RoNackNoPdu (rs_now st) s rt_NACK_RST m]).
      assert (S1 : rt_sinv (tr ++ o0) st) by (apply rt_sinv_quiet; [intros u; reflexivity|repeat constructor|exact S]).
      assert (R1 : rt_inv (tr ++ o0) st) by (apply rt_invx_neutral; [intros u; reflexivity|exact R]).
      pose proof (rt_fire_all_sinv st _ R1 S1) as H. destruct (rt_fire_all st) as [st1 o]. cbn [fst snd] in H.
      rewrite <- app_assoc in H. exact H.
  - unfold rt_non.
    pose proof (rt_nodes_cancel (rt_tok_match s tok) (rs_q st)) as P.
    pose proof (sq_abs_cancel (rt_tok_match s tok) (rs_q st) (rs_base st)) as [A _].
    destruct (sq_cancel (rt_tok_match s tok) (rs_q st)) as [rm q']. cbn [fst snd] in *.
    set (o0 := map (fun n => RoAcked (rs_now st) (qn_uid n)) rm).
    assert (I1 : rt_inv (tr ++ o0) (rt_set_q st q')).
    { destruct R as (Rr & H & SO). split; [|split; assumption]. cbn [app rt_set_q rs_uid].
      unfold rt_live in *. cbn [rt_set_q rs_q rs_sess app] in *.
      apply rt_rel_drop_acked. eapply rt_rel_perm; [|exact Rr].
      rewrite app_assoc. apply Permutation_app_tail. exact P. }
    assert (S1 : rt_sinv (tr ++ o0) (rt_set_q st q')).
    { apply rt_sinv_quiet; [apply rt_no_tx_acked|apply rt_no_giveup_acked|].
      apply rt_sinv_set_q_sub; [|exact S]. intros e I. rewrite A in I. apply filter_In in I. tauto. }
    pose proof (rt_free_slots_sinv (length rm) (rt_set_q st q') s _ I1 S1) as S2.
    destruct (rt_free_slots_inv (length rm) (rt_set_q st q') s _ [] I1) as [I2 _].
    destruct (rt_free_slots (length rm) (rt_set_q st q') s) as [st1 o1]. cbn [fst snd] in *.
    pose proof (rt_fire_all_sinv st1 _ I2 S2) as S3. destruct (rt_fire_all st1) as [st2 o2]. cbn [fst snd] in S3.
    replace (tr ++ o0 ++ o1 ++ o2) with (((tr ++ o0) ++ o1) ++ o2) by (repeat rewrite <- app_assoc; reflexivity).
    exact S3.
  - unfold rt_disconnect.
    pose proof (sq_abs_cancel (rt_sess_match s) (rs_q st) (rs_base st)) as [A _].
    destruct (sq_cancel (rt_sess_match s) (rs_q st)) as [rm q']. cbn [fst snd] in *.
    destruct (rt_held_get_set s (rs_sess st)) as (rest & P1 & P2).
    set (si := rt_sget s (rs_sess st)) in *. set (e := rt_mk_sinfo (si_nstart si) 0 []).
    apply rt_sinv_quiet.
    + destruct (si_hold si ++ rm); [intros u; reflexivity|apply rt_no_tx_nacked].
    + destruct (si_hold si ++ rm) eqn:Eg; [repeat constructor|]. rewrite <- Eg.
      apply rt_no_giveup_nacked. cbn in Hev. tauto.
    + apply (rt_sinv_sub tr st); [reflexivity| | |exact S].
      * intros x I. cbn [rt_set_sess rt_set_q rs_base rs_q] in I. rewrite A in I. apply filter_In in I. tauto.
      * intros n I. cbn [rt_set_sess rs_sess] in I.
        eapply Permutation_in in I; [|apply (P2 e)]. cbn [e si_hold app] in I.
        eapply Permutation_in; [apply Permutation_sym; exact P1|]. apply in_or_app. right. exact I.
  - unfold rt_delete. destruct (sq_remove (rs_q st) s m) as [[[t n] q']|] eqn:Rm.
    + apply rt_sinv_quiet; [intros u; reflexivity|repeat constructor|].
      apply rt_sinv_set_q_sub; [eapply rt_removed_sub; eauto|exact S].
    + rewrite app_nil_r. exact S.
  - unfold rt_io_process.
    pose proof (rt_fire_all_sinv st tr R S) as S1. destruct (rt_fire_all_rel st tr R) as [R1 _].
    destruct (rt_fire_all st) as [st1 o1]. cbn [fst snd] in *.
    destruct (rt_wait st1) as [w hd]. set (et := rt_epoll_timeout w tmo).
    set (st2 := rt_set_now st1 _).
    assert (S2 : rt_sinv ((tr ++ o1) ++ [RoEpoll (rs_now st1) et]) st2).
    { apply rt_sinv_quiet; [intros u; reflexivity|repeat constructor|]. apply (rt_sinv_sub _ st1); auto. }
    assert (R2 : rt_inv ((tr ++ o1) ++ [RoEpoll (rs_now st1) et]) st2).
    { apply rt_invx_neutral; [intros u; reflexivity|].
      eapply rt_invx_same; [| | |exact R1]; reflexivity || apply Permutation_refl. }
    pose proof (rt_fire_all_sinv st2 _ R2 S2) as S3. destruct (rt_fire_all st2) as [st3 o3]. cbn [fst snd] in S3.
    replace (tr ++ o1 ++ RoEpoll (rs_now st1) et :: o3 ++ [RoIoRet (rs_now st3) (rs_now st3 - rs_now st)])
      with ((((tr ++ o1) ++ [RoEpoll (rs_now st1) et]) ++ o3) ++ [RoIoRet (rs_now st3) (rs_now st3 - rs_now st)])
      by (repeat rewrite <- app_assoc; reflexivity).
    apply rt_sinv_quiet; [intros u; reflexivity|repeat constructor|exact S3].
  - apply rt_sinv_quiet; [intros u; reflexivity|repeat constructor|exact S].
Qed.

Lemma rt_run_sinv : forall evs st tr,
  Forall rt_ev_ok evs -> rt_inv tr st -> rt_sinv tr st ->
  let (st', o) := rt_run st evs in
  rt_sinv (tr ++ o) st' /\ rt_inv (tr ++ o) st'.
Proof.
  induction evs as [|ev rest IH]; intros st tr F R S; cbn [rt_run].
  - rewrite app_nil_r. auto.
  - inversion F; subst. pose proof (rt_step_sinv st ev tr H1 R S) as HS.
    pose proof (rt_step_rel st ev tr H1 R) as HR.
    destruct (rt_step st ev) as [st1 o1]. specialize (IH st1 (tr ++ o1) H2 HR HS).
    destruct (rt_run st1 rest) as [st2 o2]. rewrite app_assoc. exact IH.
Qed.

Lemma rt_sinv_init : forall t0 nst, rt_sinv [] (rt_init t0 nst).
Proof.
  intros. unfold rt_sinv, rt_init. cbn [rs_q rs_base rs_uid rs_sess sq_abs]. rewrite rt_held_init.
  split; [constructor|]. split; [intros; constructor|]. split; [intros; reflexivity|].
  split; [constructor|exact rt_giveups_nil].
Qed.

(* ------------------------------------------------------------------ reading a chain *)
Lemma rt_chain_last : forall l t c T, rt_chain (l ++ [(t, c, T)]) -> c = Z.of_nat (length l).
Proof.
  intros l t c T H. remember (l ++ [(t, c, T)]) as L eqn:E. revert l t c T E.
  induction H as [|t1 T1|l1 t1 c1 T1 t2 H IH Hc Hle]; intros l t c T E.
  - destruct l; discriminate.
  - destruct l as [|a l]; [inversion E; reflexivity|]. destruct l; discriminate.
  - apply app_inj_tail in E. destruct E as [E1 E2]. inversion E2; subst.
    rewrite app_length. cbn [length]. rewrite (IH _ _ _ _ eq_refl). lia.
Qed.

Lemma rt_chain_nth : forall L, rt_chain L ->
  forall i t c T, nth_error L i = Some (t, c, T) ->
    c = Z.of_nat i /\
    forall t' c' T', nth_error L (S i) = Some (t', c', T') -> T' = T /\ t + T * 2 ^ c <= t'.
Proof.
  intros L H. induction H as [|t1 T1|l1 t1 c1 T1 t2 H IH Hc Hle]; intros i t c T N.
  - destruct i; discriminate.
  - destruct i as [|i]; [|destruct i; discriminate]. cbn in N. inversion N; subst.
    split; [reflexivity|]. intros t' c' T' N'. discriminate.
  - set (L1 := l1 ++ [(t1, c1, T1)]) in *.
    assert (Len : length L1 = S (length l1)) by (unfold L1; rewrite app_length; cbn; lia).
    pose proof (rt_chain_last l1 t1 c1 T1 H) as Ec.
    destruct (Nat.lt_ge_cases i (length L1)) as [Lt|Ge].
    + rewrite nth_error_app1 in N by exact Lt. destruct (IH i t c T N) as [Ei Nx].
      split; [exact Ei|]. intros t' c' T' N'.
      destruct (Nat.lt_ge_cases (S i) (length L1)) as [Lt2|Ge2].
      * rewrite nth_error_app1 in N' by exact Lt2. apply (Nx t' c' T' N').
      * assert (Ei2 : i = length l1) by lia. subst i.
        rewrite nth_error_app2 in N' by lia. replace (S (length l1) - length L1)%nat with 0%nat in N' by lia.
        cbn in N'. inversion N'; subst.
        unfold L1 in N. rewrite nth_error_app2 in N by lia. rewrite Nat.sub_diag in N. cbn in N.
        inversion N; subst. split; [reflexivity|exact Hle].
    + rewrite nth_error_app2 in N by exact Ge.
      destruct (i - length L1)%nat as [|k] eqn:Ek; [|destruct k; discriminate].
      cbn in N. inversion N; subst. split; [lia|].
      intros t' c' T' N'. rewrite nth_error_app2 in N' by lia.
      replace (S i - length L1)%nat with 1%nat in N' by lia. discriminate.
Qed.

(* ------------------------------------------------------------------ the theorems *)
(* transmission number i of a message carries counter i; the next one comes with the same T,
   no earlier than T * 2^i after it *)
Theorem rt_spacing : forall t0 nst evs u,
  rt_nst_ok nst -> Forall rt_ev_ok evs ->
  let tr := snd (rt_run (rt_init t0 nst) evs) in
  forall i t c T, nth_error (rt_tproj u tr) i = Some (t, c, T) ->
    c = Z.of_nat i /\
    forall t' c' T', nth_error (rt_tproj u tr) (S i) = Some (t', c', T') ->
      T' = T /\ t + T * 2 ^ Z.of_nat i <= t'.
Proof.
  intros t0 nst evs u Hn F tr i t c T N.
  pose proof (rt_run_sinv evs (rt_init t0 nst) [] F (rt_inv_init t0 nst Hn) (rt_sinv_init t0 nst)) as H.
  unfold tr in *. destruct (rt_run (rt_init t0 nst) evs) as [st o]. cbn [app snd] in *.
  destruct H as [(_ & C & _) _]. destruct (rt_chain_nth _ (C u) i t c T N) as [Ei Nx].
  split; [exact Ei|]. intros t' c' T' N'. rewrite <- Ei. apply (Nx t' c' T' N').
Qed.

(* the deadline of every queued message: last transmission + T * 2^retransmit_cnt, where the
   last transmission is the one with counter retransmit_cnt and T is the node's timeout *)
Theorem rt_deadline_law : forall t0 nst evs d n,
  rt_nst_ok nst -> Forall rt_ev_ok evs ->
  let st := fst (rt_run (rt_init t0 nst) evs) in
  let tr := snd (rt_run (rt_init t0 nst) evs) in
  In (d, n) (sq_abs (rs_base st) (rs_q st)) ->
  exists l t, rt_tproj (qn_uid n) tr = l ++ [(t, qn_cnt n, qn_timeout n)] /\
              d = t + qn_timeout n * 2 ^ qn_cnt n.
Proof.
  intros t0 nst evs d n Hn F st tr I.
  pose proof (rt_run_sinv evs (rt_init t0 nst) [] F (rt_inv_init t0 nst Hn) (rt_sinv_init t0 nst)) as H.
  unfold st, tr in *. destruct (rt_run (rt_init t0 nst) evs) as [st' o]. cbn [app fst snd] in *.
  destruct H as [(Fa & _) _]. rewrite Forall_forall in Fa. apply (Fa (d, n) I).
Qed.

(* a message that waits for an NSTART slot has not been transmitted *)
Theorem rt_held_not_sent : forall t0 nst evs n,
  rt_nst_ok nst -> Forall rt_ev_ok evs ->
  let st := fst (rt_run (rt_init t0 nst) evs) in
  let tr := snd (rt_run (rt_init t0 nst) evs) in
  In n (rt_held (rs_sess st)) -> rt_tproj (qn_uid n) tr = [].
Proof.
  intros t0 nst evs n Hn F st tr I.
  pose proof (rt_run_sinv evs (rt_init t0 nst) [] F (rt_inv_init t0 nst Hn) (rt_sinv_init t0 nst)) as H.
  unfold st, tr in *. destruct (rt_run (rt_init t0 nst) evs) as [st' o]. cbn [app fst snd] in *.
  destruct H as [(_ & _ & _ & Hh & _) _]. rewrite Forall_forall in Hh. apply (Hh n I).
Qed.

Theorem rt_giveup_not_early : forall t0 nst evs tr1 t u s m c mx tr2,
  rt_nst_ok nst -> Forall rt_ev_ok evs ->
  snd (rt_run (rt_init t0 nst) evs) = tr1 ++ RoNack t u s rt_NACK_TOO_MANY_RETRIES m c mx :: tr2 ->
  exists l tl T, rt_tproj u tr1 = l ++ [(tl, c, T)] /\ tl + T * 2 ^ c <= t.
Proof.
  intros t0 nst evs tr1 t u s m c mx tr2 Hn F E.
  pose proof (rt_run_sinv evs (rt_init t0 nst) [] F (rt_inv_init t0 nst Hn) (rt_sinv_init t0 nst)) as H.
  destruct (rt_run (rt_init t0 nst) evs) as [st o]. cbn [app snd] in *.
  destruct H as [(_ & _ & _ & _ & G) _]. specialize (G tr1 _ tr2 E). cbn in G. apply G. reflexivity.
Qed.

(* C06 - the retransmission machine of one context: what coap_send (for a Confirmable message
   on a datagram session), coap_io_prepare_io / coap_io_prepare_epoll, coap_retransmit and the
   ACK / RST branches of coap_dispatch do to the send queue, and what the application and the
   network see.  Transcription of
     coap_send_internal (tail: coap_prng, coap_calc_timeout, coap_wait_ack),
     coap_wait_ack, coap_retransmit, the retransmit loop and the timeout computation of
     coap_io_prepare_io_lkd, coap_dispatch (case COAP_MESSAGE_ACK / COAP_MESSAGE_RST up to the
     removal from the queue and the NACK call), coap_io_do_epoll_lkd (ends with a prepare)
   of src/coap_net.c and src/coap_io.c.  Definitions only.

   NSTART: a Confirmable that finds no free slot waits in the session's delay queue (its timeout
   is drawn THEN, in coap_session_delay_pdu) and goes out when a slot is released (ACK, RST,
   give-up, cancel): coap_session_connected.  The order and fairness of NSTART are C08's subject;
   here it is about the timer a released message gets.
   Not in this model (see notes/C06.md): keep-alive clamp of next_delay (ping_timeout = 0), other timers that enter
   the reported wait (observe, async, block-wise, DTLS), wrap-around of the 64-bit tick counter
   and of the 8-bit retransmit counter beyond 255 (theorems assume max_retransmit <= 255). *)
From Coq Require Import ZArith List Bool.
From LibcoapV Require Import Sched.FixedPoint Sched.SendQueue.
Import ListNotations.
Local Open Scope Z_scope.

(* per-session transmission parameters (coap_session_set_ack_timeout & co.) *)
Record rt_cfg := rt_mk_cfg {
  rc_at_ip : Z; rc_at_fp : Z;         (* ack_timeout {integer_part, fractional_part} *)
  rc_arf_ip : Z; rc_arf_fp : Z;       (* ack_random_factor *)
  rc_max : Z                          (* max_retransmit *)
}.

(* what a session contributes: NSTART, the number of Confirmables in flight (con_active) and the
   Confirmables that wait for a slot (session->delayqueue, FIFO).  A held node has not been
   transmitted yet; the model gives it retransmit counter -1, its release is the transition to 0
   (in C the node is created with retransmit_cnt = 0 and coap_session_connected() does not touch
   it: the queue shows 0 in both). *)
Record rt_sinfo := rt_mk_sinfo {
  si_nstart : Z;
  si_active : Z;
  si_hold : list sq_node
}.
Definition rt_sinfo0 : rt_sinfo := rt_mk_sinfo 1 0 [].

Fixpoint rt_sget (s : Z) (tbl : list (Z * rt_sinfo)) : rt_sinfo :=
  match tbl with
  | [] => rt_sinfo0
  | (k, e) :: r => if k =? s then e else rt_sget s r
  end.
Fixpoint rt_sset (s : Z) (e : rt_sinfo) (tbl : list (Z * rt_sinfo)) : list (Z * rt_sinfo) :=
  match tbl with
  | [] => [(s, e)]
  | (k, e0) :: r => if k =? s then (k, e) :: r else (k, e0) :: rt_sset s e r
  end.

Record rt_state := rt_mk_state {
  rs_now : Z;                        (* the clock (coap_ticks) *)
  rs_base : Z;                       (* context->sendqueue_basetime *)
  rs_q : sq_queue;                   (* context->sendqueue *)
  rs_uid : Z;                        (* ghost: number of messages accepted so far *)
  rs_sess : list (Z * rt_sinfo)      (* the sessions that have sent something *)
}.

(* a fresh context at time t0; nst = the sessions with their NSTART setting (it is not changed
   while messages are pending; a session that is not listed has the default NSTART = 1) *)
Definition rt_init (t0 : Z) (nst : list (Z * Z)) : rt_state :=
  rt_mk_state t0 0 [] 0 (map (fun p => (fst p, rt_mk_sinfo (snd p) 0 [])) nst).
Definition rt_set_q (st : rt_state) (q : sq_queue) : rt_state :=
  rt_mk_state (rs_now st) (rs_base st) q (rs_uid st) (rs_sess st).
Definition rt_set_now (st : rt_state) (t : Z) : rt_state :=
  rt_mk_state t (rs_base st) (rs_q st) (rs_uid st) (rs_sess st).
Definition rt_set_sess (st : rt_state) (tbl : list (Z * rt_sinfo)) : rt_state :=
  rt_mk_state (rs_now st) (rs_base st) (rs_q st) (rs_uid st) tbl.

Inductive rt_event :=
| RtAdvance (dt : Z)                                       (* time passes *)
| RtSend (sess mid : Z) (bytes : list Z) (cfg : rt_cfg) (r : Z)
                                                           (* coap_send of a CON; r = PRNG byte *)
| RtTick                                                   (* coap_io_prepare_epoll(ctx, now) *)
| RtAck (sess mid : Z)                                     (* ACK with that mid read from sess *)
| RtRst (sess mid : Z)                                     (* RST with that mid read from sess *)
| RtNon (sess mid : Z) (tok : list Z)                      (* NON response with that token (and any
                                                              mid: the peer's id space) from sess *)
| RtDisconnect (sess reason : Z)                           (* coap_session_disconnected(sess, reason),
                                                              reason not ICMP_ISSUE *)
| RtDelete (sess mid : Z)                                  (* coap_delete_node() on the queued node of
                                                              that session with that mid *)
| RtIoProcess (tmo : Z)                                    (* coap_io_process(ctx, tmo) with nothing to
                                                              read: prepare, epoll_wait, prepare *)
| RtDump.                                                  (* observation of the queue *)

Definition rt_NACK_TOO_MANY_RETRIES : Z := 0.
Definition rt_NACK_RST : Z := 2.
Definition rt_NACK_ICMP_ISSUE : Z := 4.

Inductive rt_out :=
| RoTx (t uid sess : Z) (bytes : list Z) (cnt tmo : Z)
                                              (* datagram handed to the socket at time t; ghost:
                                                 retransmit_cnt and timeout of the node then *)
| RoSent (mid : Z)                             (* return value of coap_send *)
| RoNack (t uid sess reason mid cnt mx : Z)    (* nack handler called with the sent PDU;
                                                 ghost: retransmit_cnt and max_retransmit then *)
| RoNackNoPdu (t sess reason mid : Z)          (* nack handler called without PDU (RST, unknown mid) *)
| RoAcked (t uid : Z)                          (* ghost: removed from the queue by an ACK *)
| RoWait (t w hd : Z)                          (* value returned by prepare; hd: head deadline or -1 *)
| RoEpoll (t et : Z)                          (* timeout handed to epoll_wait (-1 = for ever) *)
| RoIoRet (t ret : Z)                         (* return value of coap_io_process: ms spent *)
| RoDump (t : Z) (l : list (Z * sq_node))
| RoFuel.                                      (* the model's loop bound was hit (never, see proofs) *)

(* coap_wait_ack / the re-insertion in coap_retransmit: delay from now *)
Definition rt_enqueue (st : rt_state) (n : sq_node) (delay : Z) : rt_state :=
  match rs_q st with
  | [] => rt_mk_state (rs_now st) (rs_now st) (sq_insert [] delay n) (rs_uid st) (rs_sess st)
  | _ :: _ => rt_set_q st (sq_insert (rs_q st) ((rs_now st - rs_base st) + delay) n)
  end.

Definition rt_bump_node (n : sq_node) (c : Z) : sq_node :=
  sq_mk_node (qn_uid n) (qn_sess n) (qn_mid n) c (qn_timeout n) (qn_max n) (qn_bytes n).

(* the loop of coap_session_connected(): while the head of the delay queue finds a free slot it
   takes it (con_active++), is transmitted and gets its retransmission timer (coap_wait_ack with
   the timeout that was drawn when it was held) *)
Fixpoint rt_release_go (st : rt_state) (ns ca : Z) (dq : list sq_node)
  : rt_state * Z * list sq_node * list rt_out :=
  match dq with
  | [] => (st, ca, [], [])
  | n :: rest =>
      if ns <=? ca then (st, ca, dq, [])
      else
        let c := qn_cnt n + 1 in
        let st1 := rt_enqueue st (rt_bump_node n c) (qn_timeout n * 2 ^ c) in
        let '(st2, ca2, dq2, o2) := rt_release_go st1 ns (ca + 1) rest in
        (st2, ca2, dq2, RoTx (rs_now st) (qn_uid n) (qn_sess n) (qn_bytes n) c (qn_timeout n) :: o2)
  end.

Definition rt_release (st : rt_state) (s : Z) : rt_state * list rt_out :=
  let si := rt_sget s (rs_sess st) in
  let '(st1, ca, dq, o) := rt_release_go st (si_nstart si) (si_active si) (si_hold si) in
  (rt_set_sess st1 (rt_sset s (rt_mk_sinfo (si_nstart si) ca dq) (rs_sess st1)), o).

(* if (session->con_active) { session->con_active--; coap_session_connected(session); } *)
Definition rt_free_slot (st : rt_state) (s : Z) : rt_state * list rt_out :=
  let si := rt_sget s (rs_sess st) in
  if 0 <? si_active si then
    rt_release (rt_set_sess st (rt_sset s (rt_mk_sinfo (si_nstart si) (si_active si - 1) (si_hold si))
                                        (rs_sess st))) s
  else (st, []).

(* coap_send -> coap_send_internal -> coap_send_pdu for a CON on UDP.
   A free slot (con_active < NSTART): transmit, take the slot, draw the byte, compute the timeout
   once, queue with retransmit_cnt = 0.
   No free slot: coap_session_delay_pdu - a message id that already waits is refused
   (COAP_INVALID_MID), otherwise the byte is drawn and the timeout computed HERE, the node is
   appended to the session's delay queue, and coap_send reports the mid. *)
Definition rt_send (st : rt_state) (s m : Z) (bytes : list Z) (cfg : rt_cfg) (r : Z)
  : rt_state * list rt_out :=
  let T := fp_calc_timeout (rc_at_ip cfg) (rc_at_fp cfg) (rc_arf_ip cfg) (rc_arf_fp cfg) r in
  let si := rt_sget s (rs_sess st) in
  let ns := si_nstart si in
  if ns <=? si_active si then
    if existsb (fun n => qn_mid n =? m) (si_hold si) then (st, [RoSent (-1)])
    else
      let n := sq_mk_node (rs_uid st) s m (-1) T (rc_max cfg) bytes in
      (rt_mk_state (rs_now st) (rs_base st) (rs_q st) (rs_uid st + 1)
                   (rt_sset s (rt_mk_sinfo ns (si_active si) (si_hold si ++ [n])) (rs_sess st)),
       [RoSent m])
  else
    let n := sq_mk_node (rs_uid st) s m 0 T (rc_max cfg) bytes in
    let st1 := rt_mk_state (rs_now st) (rs_base st) (rs_q st) (rs_uid st + 1)
                           (rt_sset s (rt_mk_sinfo ns (si_active si + 1) (si_hold si)) (rs_sess st)) in
    (rt_enqueue st1 n T, [RoTx (rs_now st) (rs_uid st) s bytes 0 T; RoSent m]).

(* coap_retransmit(context, node) for a node that was just popped.
   Retransmission: the node is re-inserted, gives its slot back and coap_send_pdu takes it again
   (con_active is at most NSTART, so the slot is there: the branch that would move the node to
   the delay queue is marked with RoFuel and proved unreachable).
   Give-up: the slot is released - a waiting message of the session goes out - and then the
   NACK handler is called. *)
Definition rt_retransmit (st : rt_state) (n : sq_node) : rt_state * list rt_out :=
  if qn_cnt n <? qn_max n then
    let c := (qn_cnt n + 1) mod 256 in                      (* unsigned char retransmit_cnt *)
    let st1 := rt_enqueue st (rt_bump_node n c) (qn_timeout n * 2 ^ c) in
    let si := rt_sget (qn_sess n) (rs_sess st1) in
    let ca := if 0 <? si_active si then si_active si - 1 else si_active si in
    if si_nstart si <=? ca then (st1, [RoFuel])
    else
      (rt_set_sess st1 (rt_sset (qn_sess n) (rt_mk_sinfo (si_nstart si) (ca + 1) (si_hold si)) (rs_sess st1)),
       [RoTx (rs_now st) (qn_uid n) (qn_sess n) (qn_bytes n) c (qn_timeout n)])
  else
    let (st1, o1) := rt_free_slot st (qn_sess n) in
    (st1, o1 ++ [RoNack (rs_now st) (qn_uid n) (qn_sess n) rt_NACK_TOO_MANY_RETRIES (qn_mid n) (qn_cnt n) (qn_max n)]).

(* while (nextpdu && now >= basetime && nextpdu->t <= now - basetime) *)
Definition rt_due (st : rt_state) : bool :=
  match rs_q st with
  | [] => false
  | (t0, _) :: _ => (rs_base st <=? rs_now st) && (t0 <=? rs_now st - rs_base st)
  end.

Fixpoint rt_fire (fuel : nat) (st : rt_state) : rt_state * list rt_out :=
  match fuel with
  | O => (st, if rt_due st then [RoFuel] else [])
  | S f =>
      if rt_due st then
        match sq_pop (rs_q st) with
        | None => (st, [])
        | Some ((_, n), q') =>
            let (st1, o1) := rt_retransmit (rt_set_q st q') n in
            let (st2, o2) := rt_fire f st1 in
            (st2, o1 ++ o2)
        end
      else (st, [])
  end.

(* loop bound: every iteration either gives a node up or raises its counter towards qn_max *)
Definition rt_budget (q : sq_queue) : nat :=
  fold_right (fun e acc => (S (Z.to_nat (qn_max (snd e) - qn_cnt (snd e))) + acc)%nat) O q.

(* all messages that wait for a slot, and the loop bound over queue and waiting messages (a give-up
   releases waiting messages into the queue) *)
Definition rt_held (tbl : list (Z * rt_sinfo)) : list sq_node :=
  flat_map (fun e => si_hold (snd e)) tbl.
Definition rt_budget_all (st : rt_state) : nat :=
  (rt_budget (rs_q st) + rt_budget (map (fun n => (0%Z, n)) (rt_held (rs_sess st))))%nat.

Definition rt_fire_all (st : rt_state) : rt_state * list rt_out :=
  rt_fire (rt_budget_all st) st.

(* the value returned by coap_io_prepare_io when only the send queue has timers:
   (unsigned int)((timeout * 1000 + COAP_TICKS_PER_SECOND - 1) / COAP_TICKS_PER_SECOND) *)
Definition rt_wait (st : rt_state) : Z * Z :=
  match rs_q st with
  | [] => (0, -1)
  | (t0, _) :: _ =>
      (fp_u32 (((t0 - (rs_now st - rs_base st)) * 1000 + fp_tps - 1) / fp_tps), rs_base st + t0)
  end.

Definition rt_tick (st : rt_state) : rt_state * list rt_out :=
  let (st1, o) := rt_fire_all st in
  let (w, hd) := rt_wait st1 in
  (st1, o ++ [RoWait (rs_now st1) w hd]).

(* a datagram read from a session: coap_dispatch, then (coap_io_do_epoll) a prepare whose
   return value nobody sees *)
Definition rt_ack (st : rt_state) (s m : Z) : rt_state * list rt_out :=
  match sq_remove (rs_q st) s m with
  | Some ((_, n), q') =>
      let (st1, o1) := rt_free_slot (rt_set_q st q') s in      (* a waiting message goes out *)
      let (st2, o2) := rt_fire_all st1 in
      (st2, RoAcked (rs_now st) (qn_uid n) :: o1 ++ o2)
  | None => rt_fire_all st
  end.

Definition rt_rst (st : rt_state) (s m : Z) : rt_state * list rt_out :=
  match sq_remove (rs_q st) s m with
  | Some ((_, n), q') =>
      let (st1, o1) := rt_free_slot (rt_set_q st q') s in      (* before the handler is called *)
      let (st2, o2) := rt_fire_all st1 in
      (st2, o1 ++ RoNack (rs_now st) (qn_uid n) (qn_sess n) rt_NACK_RST (qn_mid n) (qn_cnt n) (qn_max n) :: o2)
  | None =>
      let (st1, o) := rt_fire_all st in (st1, RoNackNoPdu (rs_now st) s rt_NACK_RST m :: o)
  end.

(* the token of an encoded PDU (TKL <= 8): bytes 4 .. 4+TKL *)
Definition rt_token_of (bytes : list Z) : list Z :=
  match bytes with
  | [] => []
  | b0 :: _ => firstn (Z.to_nat (b0 mod 16)) (skipn 4 bytes)
  end.

Fixpoint rt_bytes_eqb (a b : list Z) : bool :=
  match a, b with
  | [], [] => true
  | x :: a', y :: b' => (x =? y) && rt_bytes_eqb a' b'
  | _, _ => false
  end.

Definition rt_tok_match (s : Z) (tok : list Z) (n : sq_node) : bool :=
  (qn_sess n =? s) && rt_bytes_eqb (rt_token_of (qn_bytes n)) tok.

(* a Non-confirmable RESPONSE read from a session: handle_response cancels every queued message
   of that session with the response's token (coap_cancel_all_messages: the response is the
   implicit acknowledgement, RFC 7252 5.2.2), no NACK; the message id of the NON is the peer's
   and plays no role (/repo 0c2a709) *)
Fixpoint rt_free_slots (k : nat) (st : rt_state) (s : Z) : rt_state * list rt_out :=
  match k with
  | O => (st, [])
  | S k' => let (st1, o1) := rt_free_slot st s in
            let (st2, o2) := rt_free_slots k' st1 s in (st2, o1 ++ o2)
  end.

(* (every cancelled message gives its slot back, waiting messages of the session go out; exact
   when no waiting message of the session carries that token itself, see notes/C06.md) *)
Definition rt_non (st : rt_state) (s : Z) (tok : list Z) : rt_state * list rt_out :=
  let (rm, q') := sq_cancel (rt_tok_match s tok) (rs_q st) in
  let (st1, o1) := rt_free_slots (length rm) (rt_set_q st q') s in
  let (st2, o2) := rt_fire_all st1 in
  (st2, map (fun n => RoAcked (rs_now st) (qn_uid n)) rm ++ o1 ++ o2).

(* coap_session_disconnected(session, reason) for reason <> COAP_NACK_ICMP_ISSUE on a datagram
   session with an empty delay queue: coap_cancel_session_messages removes every queued message
   of the session and calls the NACK handler once for each (as repaired: before, the first one
   was reported twice - rt_disconnect_old); if the session has nothing queued the handler is
   called once without PDU and with mid 0.  No prepare call follows. *)
Definition rt_sess_match (s : Z) (n : sq_node) : bool := qn_sess n =? s.

Definition rt_nack_of (t reason : Z) (n : sq_node) : rt_out :=
  RoNack t (qn_uid n) (qn_sess n) reason (qn_mid n) (qn_cnt n) (qn_max n).

Definition rt_disconnect (st : rt_state) (s reason : Z) : rt_state * list rt_out :=
  let (rm, q') := sq_cancel (rt_sess_match s) (rs_q st) in
  let si := rt_sget s (rs_sess st) in
  let gone := si_hold si ++ rm in          (* the waiting messages are reported first *)
  (rt_set_sess (rt_set_q st q') (rt_sset s (rt_mk_sinfo (si_nstart si) 0 []) (rs_sess st)),
   match gone with
   | [] => [RoNackNoPdu (rs_now st) s reason 0]
   | _ => map (rt_nack_of (rs_now st) reason) gone
   end).

(* the function as it was: "take the first one" reported the first queued message of the session
   before the loop reported all of them *)
Definition rt_disconnect_old (st : rt_state) (s reason : Z) : rt_state * list rt_out :=
  let (rm, q') := sq_cancel (rt_sess_match s) (rs_q st) in
  (rt_set_q st q',
   match rm with
   | [] => [RoNackNoPdu (rs_now st) s reason 0]
   | n :: _ => rt_nack_of (rs_now st) reason n :: map (rt_nack_of (rs_now st) reason) rm
   end).

(* coap_io_process(ctx, timeout_ms) on the epoll build when no datagram arrives:
   coap_io_prepare_epoll, then epoll_wait for
     0                      if timeout_ms = COAP_IO_NO_WAIT
     -1 (for ever)          if nothing is pending and timeout_ms = COAP_IO_WAIT
     the reported wait, or timeout_ms if nothing is pending or timeout_ms is smaller
                            (as int: a value that does not fit becomes INT_MAX)
   then coap_io_do_epoll (no events), which ends with another prepare; returns the ms spent.
   The clock moves by what epoll_wait was told to sleep (the driver's epoll_wait does that). *)
Definition rt_IO_WAIT : Z := 0.
Definition rt_IO_NO_WAIT : Z := 4294967295.
Definition rt_INT_MAX : Z := 2147483647.

Definition rt_as_int (x : Z) : Z :=          (* unsigned int -> int *)
  if x <? 2147483648 then x else x - 4294967296.

Definition rt_epoll_timeout (w tmo : Z) : Z :=
  if tmo =? rt_IO_NO_WAIT then 0
  else if (w =? 0) && (tmo =? rt_IO_WAIT) then -1
  else let e := if (w =? 0) || (negb (tmo =? rt_IO_WAIT) && (tmo <? w)) then tmo else w in
       if rt_as_int e <? 0 then rt_INT_MAX else rt_as_int e.

Definition rt_io_process (st : rt_state) (tmo : Z) : rt_state * list rt_out :=
  let (st1, o1) := rt_fire_all st in
  let (w, _) := rt_wait st1 in
  let et := rt_epoll_timeout w tmo in
  let st2 := rt_set_now st1 (rs_now st1 + (if 0 <? et then et else 0)) in
  let (st3, o3) := rt_fire_all st2 in
  (st3, o1 ++ RoEpoll (rs_now st1) et :: o3 ++ [RoIoRet (rs_now st3) (rs_now st3 - rs_now st)]).

(* coap_delete_node(node) for a node that is still linked into the send queue (inside the library:
   the delayed multicast response that has just been sent, a node that was re-added while its
   give-up was being processed): it is unlinked and its time goes to its successor (as repaired:
   LL_DELETE alone dropped the time and every node behind became due earlier).  No handler call. *)
Definition rt_delete (st : rt_state) (s m : Z) : rt_state * list rt_out :=
  match sq_remove (rs_q st) s m with
  | Some ((_, n), q') => (rt_set_q st q', [RoAcked (rs_now st) (qn_uid n)])
  | None => (st, [])
  end.

Definition rt_step (st : rt_state) (ev : rt_event) : rt_state * list rt_out :=
  match ev with
  | RtAdvance dt => (rt_set_now st (rs_now st + dt), [])
  | RtSend s m b cfg r => rt_send st s m b cfg r
  | RtTick => rt_tick st
  | RtAck s m => rt_ack st s m
  | RtRst s m => rt_rst st s m
  | RtNon s _ tok => rt_non st s tok
  | RtDisconnect s reason => rt_disconnect st s reason
  | RtDelete s m => rt_delete st s m
  | RtIoProcess tmo => rt_io_process st tmo
  | RtDump => (st, [RoDump (rs_now st) (sq_abs (rs_base st) (rs_q st))])
  end.

Fixpoint rt_run (st : rt_state) (evs : list rt_event) : rt_state * list rt_out :=
  match evs with
  | [] => (st, [])
  | ev :: rest =>
      let (st1, o1) := rt_step st ev in
      let (st2, o2) := rt_run st1 rest in
      (st2, o1 ++ o2)
  end.

(* the bytes of a CON built by coap_pdu_init + coap_add_token (<= 8 bytes) + coap_add_data and
   encoded for UDP: Ver 1, T = 0, TKL | code | mid | token | [0xFF payload] *)
Definition rt_con_bytes (code mid : Z) (tok payload : list Z) : list Z :=
  (64 + Z.of_nat (length tok)) :: code :: (mid / 256) mod 256 :: mid mod 256 :: tok ++
  match payload with [] => [] | _ => 255 :: payload end.

(* ---- a punctual driver: tick, sleep exactly as long as told, tick, ... until told 0 ---- *)
Fixpoint rt_punctual (fuel : nat) (st : rt_state) : rt_state * list rt_out :=
  match fuel with
  | O => (st, [])
  | S f =>
      let (st1, o1) := rt_tick st in
      let (w, _) := rt_wait st1 in
      if w =? 0 then (st1, o1)
      else let (st2, o2) := rt_punctual f (rt_set_now st1 (rs_now st1 + w)) in
           (st2, o1 ++ o2)
  end.

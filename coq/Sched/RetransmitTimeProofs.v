(* C06 - timing of the retransmission machine (proofs): nothing after the outcome, the firing
   loop always terminates within its bound, soundness of the reported wait, and the exact
   schedule under a punctual driver. *)
From LibcoapV Require Import Base.Tactics Sched.FixedPoint Sched.FixedPointProofs Sched.SendQueue Sched.SendQueueProofs
  Sched.Retransmit Sched.RetransmitProofs.
From Coq Require Import Sorting.Permutation.
Local Open Scope Z_scope.

(* ------------------------------------------------------------------ nothing after the outcome *)
Lemma rt_run_app : forall e1 e2 st,
  rt_run st (e1 ++ e2) =
  let (st1, o1) := rt_run st e1 in let (st2, o2) := rt_run st1 e2 in (st2, o1 ++ o2).
Proof.
  induction e1 as [|ev rest IH]; intros e2 st; cbn [rt_run app].
  - destruct (rt_run st e2); reflexivity.
  - destruct (rt_step st ev) as [st1 o1]. rewrite IH.
    destruct (rt_run st1 rest) as [st2 o2]. destruct (rt_run st2 e2) as [st3 o3].
    rewrite app_assoc. reflexivity.
Qed.

Lemma rt_repeat_split : forall b b' a a' y y' r r',
  (forall x, y <> PTx x) -> (forall x, y' <> PTx x) ->
  repeat (PTx b) a ++ y :: r = repeat (PTx b') a' ++ y' :: r' -> a = a' /\ y = y' /\ r = r'.
Proof.
  intros b b'. induction a as [|a IH]; intros [|a'] y y' r r' Hy Hy' E; cbn in E.
  - inversion E; auto.
  - inversion E; subst. exfalso. eapply Hy; reflexivity.
  - inversion E; subst. exfalso. eapply Hy'; reflexivity.
  - injection E as Eb Et. subst b. destruct (IH a' y y' r r' Hy Hy' Et) as (A & B & C). auto.
Qed.

Lemma rt_outcome_not_tx : forall j o b, rt_outcome_ok j o -> o <> PTx b.
Proof. intros j [b'|r c mx|] b H; cbn in H; [contradiction|discriminate|discriminate]. Qed.

Lemma rt_closed_final : forall l1 l2, rt_closed l1 -> rt_shape (l1 ++ l2) -> l2 = [].
Proof.
  intros l1 l2 (b & j & o & E & _ & Ho) [Sh|[Sh|Sh]]; subst l1.
  - apply (f_equal (@length _)) in Sh. rewrite !app_length in Sh. cbn in Sh. lia.
  - destruct Sh as (b' & j' & E'). destruct E' as [E' _].
    assert (I : In o (repeat (PTx b') (S j'))).
    { rewrite <- E'. apply in_or_app. left. apply in_or_app. right. left. reflexivity. }
    apply repeat_spec in I. exfalso. eapply rt_outcome_not_tx; eauto.
  - destruct Sh as (b' & j' & o' & E' & _ & Ho').
    rewrite <- app_assoc in E'. cbn [app] in E'.
    destruct (rt_repeat_split b b' j j' o o' l2 []
                (fun x => rt_outcome_not_tx _ _ x Ho) (fun x => rt_outcome_not_tx _ _ x Ho') E') as (_ & _ & L).
    exact L.
Qed.

Theorem rt_nothing_after_outcome : forall t0 nst e1 e2 u,
  rt_nst_ok nst -> Forall rt_ev_ok (e1 ++ e2) ->
  rt_closed (rt_proj u (snd (rt_run (rt_init t0 nst) e1))) ->
  rt_proj u (snd (rt_run (rt_init t0 nst) (e1 ++ e2))) = rt_proj u (snd (rt_run (rt_init t0 nst) e1)).
Proof.
  intros t0 nst e1 e2 u Hn F C.
  pose proof (rt_one_outcome t0 nst (e1 ++ e2) u Hn F) as H.
  rewrite rt_run_app in *. destruct (rt_run (rt_init t0 nst) e1) as [st1 o1].
  destruct (rt_run st1 e2) as [st2 o2]. cbn [snd] in *. destruct H as [Sh _].
  rewrite rt_proj_app in *. rewrite (rt_closed_final _ _ C Sh). apply app_nil_r.
Qed.

(* ------------------------------------------------------------------ time invariant *)
Definition rt_nbound (n : sq_node) : Prop :=
  0 <= qn_cnt n <= qn_max n /\ qn_max n <= 255 /\ 0 <= qn_timeout n.
(* a message that waits for a slot *)
Definition rt_hbound (n : sq_node) : Prop :=
  qn_cnt n = -1 /\ 0 <= qn_max n <= 255 /\ 0 <= qn_timeout n.

(* the queue's part ... *)
Definition rt_qinv (st : rt_state) : Prop :=
  sq_wf (rs_q st) /\ (rs_q st <> [] -> rs_base st <= rs_now st) /\
  Forall rt_nbound (rt_nodes (rs_q st)).
(* ... and the sessions' part *)
Definition rt_tinv (st : rt_state) : Prop :=
  rt_qinv st /\ Forall rt_hbound (rt_held (rs_sess st)) /\ rt_slots_ok (rs_sess st).

Lemma rt_tinv_init : forall t0 nst, rt_nst_ok nst -> rt_tinv (rt_init t0 nst).
Proof.
  intros t0 nst H. unfold rt_tinv, rt_qinv, rt_init. cbn [rs_q rs_sess rs_base rs_now].
  rewrite rt_held_init. split; [split; [exact I|split; [intros X; contradiction|constructor]]|].
  split; [constructor|]. unfold rt_slots_ok. rewrite Forall_map. eapply Forall_impl; [|exact H].
  intros p Hp. unfold rt_sinfo_ok. cbn in *. lia.
Qed.

Lemma rt_enqueue_qinv : forall st n d, rt_qinv st -> rt_nbound n -> rt_qinv (rt_enqueue st n d).
Proof.
  intros st n d (W & B & F) Hn. unfold rt_qinv, rt_enqueue. destruct (rs_q st) as [|e q] eqn:E.
  - cbn. split; [constructor|]. split; [intros _; lia|]. constructor; [exact Hn|constructor].
  - cbn [rs_q rt_set_q rs_base rs_now]. split; [apply sq_insert_wf; exact W|]. split.
    + intros _. apply B. discriminate.
    + eapply Permutation_Forall; [apply Permutation_sym; apply rt_nodes_insert|].
      constructor; assumption.
Qed.

Lemma rt_enqueue_tinv : forall st n d, rt_tinv st -> rt_nbound n -> rt_tinv (rt_enqueue st n d).
Proof.
  intros st n d (Q & H & SO) Hn. destruct (rt_enqueue_nodes st n d) as (_ & _ & _ & S).
  split; [apply rt_enqueue_qinv; assumption|]. rewrite S. split; assumption.
Qed.

Lemma rt_set_q_tinv : forall st q', rt_tinv st -> sq_wf q' -> (q' <> [] -> rs_q st <> []) ->
  Forall rt_nbound (rt_nodes q') -> rt_tinv (rt_set_q st q').
Proof.
  intros st q' ((W & B & F) & H & SO) W' Hne F'. split; [|split; assumption].
  split; [exact W'|]. split; [|exact F']. cbn. intros X. apply B. apply Hne. exact X.
Qed.

(* ------------------------------------------------------------------ the loop bound suffices *)
Definition rt_cost (n : sq_node) : nat := S (Z.to_nat (qn_max n - qn_cnt n)).
Definition rt_hb (l : list sq_node) : nat := rt_budget (map (fun n => (0, n)) l).

Lemma rt_budget_cons : forall t n q, rt_budget ((t, n) :: q) = (rt_cost n + rt_budget q)%nat.
Proof. reflexivity. Qed.

Lemma rt_hb_cons : forall n l, rt_hb (n :: l) = (rt_cost n + rt_hb l)%nat.
Proof. reflexivity. Qed.

Lemma rt_hb_app : forall a b, rt_hb (a ++ b) = (rt_hb a + rt_hb b)%nat.
Proof. induction a as [|n a IH]; intros b; [reflexivity|]. cbn [app]. rewrite !rt_hb_cons, IH. lia. Qed.

Lemma rt_hb_perm : forall a b, Permutation a b -> rt_hb a = rt_hb b.
Proof.
  intros a b P. induction P.
  - reflexivity.
  - rewrite !rt_hb_cons. lia.
  - rewrite !rt_hb_cons. lia.
  - congruence.
Qed.

Lemma rt_budget_bump : forall d q, rt_budget (sq_bump d q) = rt_budget q.
Proof. intros d [|[t n] r]; reflexivity. Qed.

Lemma rt_budget_ins_go : forall q t n, rt_budget (sq_ins_go t n q) = (rt_cost n + rt_budget q)%nat.
Proof.
  induction q as [|[t1 n1] rest IH]; intros t n; [reflexivity|].
  cbn [sq_ins_go]. destruct (t1 <=? t).
  - rewrite !rt_budget_cons, IH. lia.
  - rewrite !rt_budget_cons. reflexivity.
Qed.

Lemma rt_budget_insert : forall q t n, rt_budget (sq_insert q t n) = (rt_cost n + rt_budget q)%nat.
Proof. intros. rewrite sq_insert_eq_go. apply rt_budget_ins_go. Qed.

Lemma rt_budget_enqueue : forall st n d,
  rt_budget (rs_q (rt_enqueue st n d)) = (rt_cost n + rt_budget (rs_q st))%nat.
Proof.
  intros. unfold rt_enqueue. destruct (rs_q st) as [|e q] eqn:E.
  - cbn [rs_q]. rewrite rt_budget_insert. reflexivity.
  - cbn [rs_q rt_set_q]. apply rt_budget_insert.
Qed.

Lemma rt_budget_all_eq : forall st, rt_budget_all st = (rt_budget (rs_q st) + rt_hb (rt_held (rs_sess st)))%nat.
Proof. reflexivity. Qed.

(* releasing: queue invariant kept, no marker, the bound does not grow *)
Lemma rt_release_go_t : forall dq st ns ca,
  rt_qinv st -> Forall rt_hbound dq -> 0 <= ca <= ns ->
  match rt_release_go st ns ca dq with
  | (st2, ca2, dq2, o) =>
      rt_qinv st2 /\ Forall rt_hbound dq2 /\ 0 <= ca2 <= ns /\ ~ In RoFuel o /\
      rs_sess st2 = rs_sess st /\ rs_now st2 = rs_now st /\
      (rt_budget (rs_q st2) + rt_hb dq2 <= rt_budget (rs_q st) + rt_hb dq)%nat
  end.
Proof.
  induction dq as [|n dq IH]; intros st ns ca Q H Hca; cbn [rt_release_go].
  - split; [exact Q|]. split; [constructor|]. split; [lia|]. split; [intros []|].
    split; [reflexivity|]. split; [reflexivity|lia].
  - destruct (ns <=? ca) eqn:E.
    + split; [exact Q|]. split; [exact H|]. split; [lia|]. split; [intros []|].
      split; [reflexivity|]. split; [reflexivity|lia].
    + inversion H as [|? ? (Hc & Hm & Ht) H']; subst.
      set (c := qn_cnt n + 1). set (st1 := rt_enqueue st (rt_bump_node n c) (qn_timeout n * 2 ^ c)).
      assert (Q1 : rt_qinv st1).
      { apply rt_enqueue_qinv; [exact Q|]. unfold rt_nbound, rt_bump_node. cbn [qn_cnt qn_max qn_timeout]. lia. }
      destruct (rt_enqueue_nodes st (rt_bump_node n c) (qn_timeout n * 2 ^ c)) as (_ & _ & N & S).
      pose proof (rt_budget_enqueue st (rt_bump_node n c) (qn_timeout n * 2 ^ c)) as Bq.
      fold st1 in N, S, Bq.
      specialize (IH st1 ns (ca + 1) Q1 H' ltac:(lia)).
      destruct (rt_release_go st1 ns (ca + 1) dq) as [[[st2 ca2] dq2] o2].
      destruct IH as (Q2 & H2 & C2 & NF & S2 & N2 & B2).
      split; [exact Q2|]. split; [exact H2|]. split; [lia|]. split.
      * intros [X|X]; [discriminate|exact (NF X)].
      * split; [congruence|]. split; [congruence|].
        rewrite rt_hb_cons. rewrite Bq in B2. unfold rt_cost, rt_bump_node in *. cbn [qn_max qn_cnt] in *. lia.
Qed.

Lemma rt_release_t : forall st s, rt_tinv st ->
  rt_tinv (fst (rt_release st s)) /\ ~ In RoFuel (snd (rt_release st s)) /\
  rs_now (fst (rt_release st s)) = rs_now st /\
  (rt_budget_all (fst (rt_release st s)) <= rt_budget_all st)%nat.
Proof.
  intros st s (Q & H & SO). unfold rt_release.
  destruct (rt_held_get_set s (rs_sess st)) as (rest & P1 & P2).
  pose proof (rt_sget_ok s _ SO) as [Oa On]. set (si := rt_sget s (rs_sess st)) in *.
  assert (Hs : Forall rt_hbound (si_hold si) /\ Forall rt_hbound rest).
  { eapply Permutation_Forall in H; [|exact P1]. apply Forall_app in H. exact H. }
  destruct Hs as [Hs Hr].
  pose proof (rt_release_go_t (si_hold si) st (si_nstart si) (si_active si) Q Hs Oa) as G.
  destruct (rt_release_go st (si_nstart si) (si_active si) (si_hold si)) as [[[st1 ca] dq] o].
  destruct G as (Q1 & H1 & C1 & NF & S1 & N1 & B1). cbn [fst snd].
  set (e := rt_mk_sinfo (si_nstart si) ca dq).
  split; [|split; [exact NF|split; [exact N1|]]].
  - split; [exact Q1|]. cbn [rt_set_sess rs_sess]. rewrite S1. split.
    + eapply Permutation_Forall; [apply Permutation_sym; apply (P2 e)|]. apply Forall_app. auto.
    + apply rt_sset_ok; [|exact SO]. unfold rt_sinfo_ok. cbn. lia.
  - rewrite !rt_budget_all_eq. cbn [rt_set_sess rs_q rs_sess]. rewrite S1.
    rewrite (rt_hb_perm _ _ (P2 e)), (rt_hb_perm _ _ P1), !rt_hb_app. cbn [e si_hold]. lia.
Qed.

Lemma rt_tinv_set_same_hold : forall st s e,
  si_hold e = si_hold (rt_sget s (rs_sess st)) -> rt_sinfo_ok e -> rt_tinv st ->
  rt_tinv (rt_set_sess st (rt_sset s e (rs_sess st))) /\
  rt_budget_all (rt_set_sess st (rt_sset s e (rs_sess st))) = rt_budget_all st.
Proof.
  intros st s e He Oe (Q & H & SO). destruct (rt_held_get_set s (rs_sess st)) as (rest & P1 & P2).
  assert (P : Permutation (rt_held (rt_sset s e (rs_sess st))) (rt_held (rs_sess st))).
  { eapply Permutation_trans; [apply P2|]. rewrite He. apply Permutation_sym. exact P1. }
  split.
  - split; [exact Q|]. cbn [rt_set_sess rs_sess]. split.
    + eapply Permutation_Forall; [apply Permutation_sym; exact P|exact H].
    + apply rt_sset_ok; assumption.
  - rewrite !rt_budget_all_eq. cbn [rt_set_sess rs_q rs_sess]. rewrite (rt_hb_perm _ _ P). reflexivity.
Qed.

Lemma rt_free_slot_t : forall st s, rt_tinv st ->
  rt_tinv (fst (rt_free_slot st s)) /\ ~ In RoFuel (snd (rt_free_slot st s)) /\
  rs_now (fst (rt_free_slot st s)) = rs_now st /\
  (rt_budget_all (fst (rt_free_slot st s)) <= rt_budget_all st)%nat.
Proof.
  intros st s T. unfold rt_free_slot. destruct (0 <? si_active (rt_sget s (rs_sess st))) eqn:E.
  - set (e := rt_mk_sinfo _ _ _). set (st0 := rt_set_sess st _).
    destruct (rt_tinv_set_same_hold st s e) as [T0 B0]; [reflexivity| |exact T|].
    { destruct T as (_ & _ & SO). destruct (rt_sget_ok s _ SO) as [Oa On]. unfold rt_sinfo_ok, e. cbn. lia. }
    fold st0 in T0, B0. destruct (rt_release_t st0 s T0) as (T1 & NF & N1 & B1).
    split; [exact T1|]. split; [exact NF|]. split; [rewrite N1; reflexivity|lia].
  - cbn [fst snd]. split; [exact T|]. split; [intros []|]. split; [reflexivity|lia].
Qed.

Lemma rt_free_slots_t : forall k st s, rt_tinv st ->
  rt_tinv (fst (rt_free_slots k st s)) /\ ~ In RoFuel (snd (rt_free_slots k st s)) /\
  rs_now (fst (rt_free_slots k st s)) = rs_now st.
Proof.
  induction k as [|k IH]; intros st s T; cbn [rt_free_slots].
  - cbn. split; [exact T|]. split; [intros []|reflexivity].
  - destruct (rt_free_slot_t st s T) as (T1 & NF1 & N1 & _). destruct (rt_free_slot st s) as [st1 o1].
    cbn [fst snd] in *. destruct (IH st1 s T1) as (T2 & NF2 & N2). destruct (rt_free_slots k st1 s) as [st2 o2].
    cbn [fst snd] in *. split; [exact T2|]. split; [|congruence].
    intros I. apply in_app_or in I. tauto.
Qed.

(* one iteration of the prepare loop on a node that was popped *)
Lemma rt_retransmit_t : forall st n, rt_tinv st -> rt_nbound n ->
  rt_tinv (fst (rt_retransmit st n)) /\ ~ In RoFuel (snd (rt_retransmit st n)) /\
  rs_now (fst (rt_retransmit st n)) = rs_now st /\
  (S (rt_budget_all (fst (rt_retransmit st n))) <= rt_cost n + rt_budget_all st)%nat.
Proof.
  intros st n T (C & M & TO). unfold rt_retransmit. destruct (qn_cnt n <? qn_max n) eqn:E.
  - assert (Em : (qn_cnt n + 1) mod 256 = qn_cnt n + 1) by (apply Z.mod_small; lia).
    rewrite Em. set (c := qn_cnt n + 1).
    set (st1 := rt_enqueue st (rt_bump_node n c) (qn_timeout n * 2 ^ c)).
    assert (T1 : rt_tinv st1).
    { apply rt_enqueue_tinv; [exact T|]. unfold rt_nbound, rt_bump_node. cbn [qn_cnt qn_max qn_timeout]. lia. }
    destruct (rt_enqueue_nodes st (rt_bump_node n c) (qn_timeout n * 2 ^ c)) as (_ & _ & N & S).
    pose proof (rt_budget_enqueue st (rt_bump_node n c) (qn_timeout n * 2 ^ c)) as Bq.
    fold st1 in N, S, Bq.
    destruct T1 as (Q1 & H1 & SO1). pose proof (rt_sget_ok (qn_sess n) _ SO1) as [Oa On].
    set (si := rt_sget (qn_sess n) (rs_sess st1)) in *.
    assert (Lt : (si_nstart si <=? (if 0 <? si_active si then si_active si - 1 else si_active si)) = false).
    { destruct (0 <? si_active si) eqn:E0; lia. }
    rewrite Lt. cbn [fst snd].
    set (e := rt_mk_sinfo _ _ _).
    destruct (rt_tinv_set_same_hold st1 (qn_sess n) e) as [T2 B2]; [reflexivity| |split; [exact Q1|split; assumption]|].
    { unfold rt_sinfo_ok, e. cbn. destruct (0 <? si_active si) eqn:E0; lia. }
    split; [exact T2|]. split; [intros [X|[]]; discriminate|]. split; [cbn [rt_set_sess rs_now]; exact N|].
    rewrite B2, !rt_budget_all_eq, Bq, S. unfold rt_cost, rt_bump_node. cbn [qn_max qn_cnt]. lia.
  - destruct (rt_free_slot_t st (qn_sess n) T) as (T1 & NF & N1 & B1).
    destruct (rt_free_slot st (qn_sess n)) as [st1 o1]. cbn [fst snd] in *.
    split; [exact T1|]. split.
    + intros I. apply in_app_or in I. destruct I as [I|[I|[]]]; [exact (NF I)|discriminate].
    + split; [exact N1|]. unfold rt_cost. lia.
Qed.

Lemma rt_fire_enough : forall fuel st,
  rt_tinv st -> (rt_budget_all st <= fuel)%nat ->
  let (st', o) := rt_fire fuel st in
  ~ In RoFuel o /\ rt_due st' = false /\ rt_tinv st' /\ rs_now st' = rs_now st.
Proof.
  induction fuel as [|f IH]; intros st T Bu; cbn [rt_fire].
  - assert (Q : rs_q st = []).
    { destruct (rs_q st) as [|[t n] q] eqn:E; [reflexivity|]. rewrite rt_budget_all_eq, E, rt_budget_cons in Bu.
      unfold rt_cost in Bu. lia. }
    unfold rt_due. rewrite Q. cbn. tauto.
  - destruct (rt_due st) eqn:D; [|cbn; tauto].
    destruct (sq_pop (rs_q st)) as [[[t n] q']|] eqn:P.
    + pose proof T as ((W & B & F) & H & SO).
      pose proof (rt_nodes_pop _ _ _ _ P) as EN. rewrite EN in F. inversion F as [|? ? Hn F']; subst.
      assert (T1 : rt_tinv (rt_set_q st q')).
      { apply rt_set_q_tinv; [exact T| | |exact F'].
        - eapply sq_pop_wf; eauto.
        - intros _ X. rewrite X in P. discriminate. }
      assert (Bq : rt_budget_all st = (rt_cost n + rt_budget_all (rt_set_q st q'))%nat).
      { rewrite !rt_budget_all_eq. cbn [rt_set_q rs_q rs_sess].
        destruct (rs_q st) as [|[t0 n0] rest]; [discriminate|]. cbn in P. inversion P; subst.
        rewrite rt_budget_cons, rt_budget_bump. lia. }
      destruct (rt_retransmit_t (rt_set_q st q') n T1 Hn) as (T2 & NF1 & N2 & B2).
      destruct (rt_retransmit (rt_set_q st q') n) as [st1 o1]. cbn [fst snd] in *.
      specialize (IH st1 T2 ltac:(lia)). destruct (rt_fire f st1) as [st2 o2].
      destruct IH as (NF & D2 & T3 & N3). split; [|split; [exact D2|split; [exact T3|]]].
      * intros I. apply in_app_or in I. tauto.
      * rewrite N3, N2. reflexivity.
    + apply sq_pop_none in P. unfold rt_due in D. rewrite P in D. discriminate.
Qed.

Lemma rt_fire_all_ok : forall st, rt_tinv st ->
  let (st', o) := rt_fire_all st in
  ~ In RoFuel o /\ rt_due st' = false /\ rt_tinv st' /\ rs_now st' = rs_now st.
Proof. intros st T. unfold rt_fire_all. apply rt_fire_enough; [exact T|lia]. Qed.

(* a node taken out of the queue by (session, mid) *)
Lemma rt_removed_tinv : forall st s m e q', rt_tinv st -> sq_remove (rs_q st) s m = Some (e, q') ->
  rt_tinv (rt_set_q st q').
Proof.
  intros st s m [t n] q' T Rm. pose proof T as ((W & B & F) & _ & _).
  apply rt_set_q_tinv; [exact T| | |].
  - eapply sq_remove_wf'; eauto.
  - intros _ X. rewrite X in Rm. discriminate.
  - destruct (rt_nodes_remove _ _ _ _ _ _ Rm) as [P _].
    eapply Permutation_Forall in F; [|exact P]. inversion F; assumption.
Qed.

Lemma rt_cancelled_tinv : forall st p, rt_tinv st -> rt_tinv (rt_set_q st (snd (sq_cancel p (rs_q st)))).
Proof.
  intros st p T. pose proof T as ((W & B & F) & _ & _).
  pose proof (rt_nodes_cancel p (rs_q st)) as P. pose proof (sq_cancel_wf p (rs_q st) W) as Wc.
  destruct (sq_cancel p (rs_q st)) as [rm q'] eqn:Ec. cbn [fst snd] in *.
  apply rt_set_q_tinv; [exact T|exact Wc| |].
  - intros X Y. rewrite Y in Ec. cbn in Ec. inversion Ec; subst. contradiction.
  - eapply Permutation_Forall in F; [|exact P]. apply Forall_app in F. tauto.
Qed.

(* ------------------------------------------------------------------ every step keeps the invariant *)
Lemma rt_step_tinv : forall st ev, rt_ev_ok ev -> rt_tinv st ->
  rt_tinv (fst (rt_step st ev)) /\ ~ In RoFuel (snd (rt_step st ev)).
Proof.
  intros st ev Hev T. destruct ev as [dt|s m b cfg r| |s m|s m|s m tok|s reason|s m|tmo|]; cbn [rt_step].
  - cbn [fst snd]. split; [|intros []]. destruct T as ((W & B & F) & H & SO).
    split; [|split; assumption]. split; [exact W|]. split; [|exact F].
    cbn. intros X. specialize (B X). cbn in Hev. lia.
  - unfold rt_send. pose proof T as (Q & H & SO).
    destruct (rt_held_get_set s (rs_sess st)) as (rest & P1 & P2).
    pose proof (rt_sget_ok s _ SO) as [Oa On]. set (si := rt_sget s (rs_sess st)) in *.
    set (T0 := fp_calc_timeout _ _ _ _ _).
    assert (HT : 0 <= T0) by (unfold T0, fp_calc_timeout; apply fp_calc_q_nonneg).
    destruct (si_nstart si <=? si_active si) eqn:Efull.
    + destruct (existsb (fun n => qn_mid n =? m) (si_hold si)); cbn [fst snd].
      * split; [exact T|intros [X|[]]; discriminate].
      * split; [|intros [X|[]]; discriminate].
        set (n := sq_mk_node _ _ _ _ _ _ _). set (e := rt_mk_sinfo _ _ _).
        split; [exact Q|]. cbn [rs_sess]. split.
        -- eapply Permutation_Forall; [apply Permutation_sym; apply (P2 e)|]. cbn [e si_hold].
           eapply Permutation_Forall in H; [|exact P1]. apply Forall_app in H. destruct H as [Hs Hr].
           apply Forall_app. split; [|exact Hr]. apply Forall_app. split; [exact Hs|].
           constructor; [|constructor]. unfold rt_hbound, n. cbn [qn_cnt qn_max qn_timeout]. cbn in Hev. lia.
        -- apply rt_sset_ok; [|exact SO]. unfold rt_sinfo_ok, e. cbn. lia.
    + cbn [fst snd]. split; [|intros [X|[X|[]]]; discriminate].
      set (n := sq_mk_node _ _ _ _ _ _ _). set (e := rt_mk_sinfo _ _ _).
      apply rt_enqueue_tinv.
      * split; [exact Q|]. cbn [rs_sess]. split.
        -- eapply Permutation_Forall; [apply Permutation_sym; apply (P2 e)|]. cbn [e si_hold].
           eapply Permutation_Forall in H; [|exact P1]. exact H.
        -- apply rt_sset_ok; [|exact SO]. unfold rt_sinfo_ok, e. cbn. lia.
      * unfold rt_nbound, n. cbn [qn_cnt qn_max qn_timeout]. cbn in Hev. lia.
  - unfold rt_tick. pose proof (rt_fire_all_ok st T) as H.
    destruct (rt_fire_all st) as [st1 o]. destruct H as (NF & _ & T1 & _).
    destruct (rt_wait st1) as [w hd]. cbn [fst snd]. split; [exact T1|].
    intros I. apply in_app_or in I. destruct I as [I|[I|[]]]; [exact (NF I)|discriminate].
  - unfold rt_ack. destruct (sq_remove (rs_q st) s m) as [[[t n] q']|] eqn:Rm.
    + pose proof (rt_removed_tinv st s m _ q' T Rm) as T1.
      destruct (rt_free_slot_t (rt_set_q st q') s T1) as (T2 & NF2 & _ & _).
      destruct (rt_free_slot (rt_set_q st q') s) as [st1 o1]. cbn [fst snd] in *.
      pose proof (rt_fire_all_ok _ T2) as H. destruct (rt_fire_all st1) as [st2 o2].
      destruct H as (NF & _ & T3 & _). cbn [fst snd]. split; [exact T3|].
      intros [I|I]; [discriminate|]. apply in_app_or in I. tauto.
    + pose proof (rt_fire_all_ok _ T) as H. destruct (rt_fire_all st) as [st1 o].
      destruct H as (NF & _ & T2 & _). cbn [fst snd]. tauto.
  - unfold rt_rst. destruct (sq_remove (rs_q st) s m) as [[[t n] q']|] eqn:Rm.
    + pose proof (rt_removed_tinv st s m _ q' T Rm) as T1.
      destruct (rt_free_slot_t (rt_set_q st q') s T1) as (T2 & NF2 & _ & _).
      destruct (rt_free_slot (rt_set_q st q') s) as [st1 o1]. cbn [fst snd] in *.
      pose proof (rt_fire_all_ok _ T2) as H. destruct (rt_fire_all st1) as [st2 o2].
      destruct H as (NF & _ & T3 & _). cbn [fst snd]. split; [exact T3|].
      intros I. apply in_app_or in I. destruct I as [I|[I|I]]; [exact (NF2 I)|discriminate|exact (NF I)].
    + pose proof (rt_fire_all_ok _ T) as H. destruct (rt_fire_all st) as [st1 o].
      destruct H as (NF & _ & T2 & _). cbn [fst snd]. split; [exact T2|].
      intros [I|I]; [discriminate|exact (NF I)].
  - unfold rt_non. pose proof (rt_cancelled_tinv st (rt_tok_match s tok) T) as T1.
    destruct (sq_cancel (rt_tok_match s tok) (rs_q st)) as [rm q']. cbn [fst snd] in *.
    destruct (rt_free_slots_t (length rm) (rt_set_q st q') s T1) as (T2 & NF2 & _).
    destruct (rt_free_slots (length rm) (rt_set_q st q') s) as [st1 o1]. cbn [fst snd] in *.
    pose proof (rt_fire_all_ok _ T2) as H. destruct (rt_fire_all st1) as [st2 o2].
    destruct H as (NF & _ & T3 & _). cbn [fst snd]. split; [exact T3|].
    intros I. apply in_app_or in I. destruct I as [I|I].
    + apply in_map_iff in I. destruct I as (x & X & _). discriminate.
    + apply in_app_or in I. tauto.
  - unfold rt_disconnect. pose proof (rt_cancelled_tinv st (rt_sess_match s) T) as T1.
    destruct (sq_cancel (rt_sess_match s) (rs_q st)) as [rm q']. cbn [fst snd] in *.
    destruct T1 as (Q1 & H1 & SO1). cbn [rt_set_q rs_sess] in H1, SO1.
    destruct (rt_held_get_set s (rs_sess st)) as (rest & P1 & P2).
    pose proof (rt_sget_ok s _ SO1) as [Oa On]. set (si := rt_sget s (rs_sess st)) in *.
    set (e := rt_mk_sinfo (si_nstart si) 0 []).
    split.
    + split; [exact Q1|]. cbn [rt_set_sess rs_sess]. split.
      * eapply Permutation_Forall; [apply Permutation_sym; apply (P2 e)|]. cbn [e si_hold app].
        eapply Permutation_Forall in H1; [|exact P1]. apply Forall_app in H1. tauto.
      * apply rt_sset_ok; [|exact SO1]. unfold rt_sinfo_ok, e. cbn. lia.
    + destruct (si_hold si ++ rm) as [|n0 g]; [intros [X|[]]; discriminate|].
      intros I. apply in_map_iff in I. destruct I as (x & X & _). discriminate.
  - unfold rt_delete. destruct (sq_remove (rs_q st) s m) as [[[t n] q']|] eqn:Rm; cbn [fst snd].
    + split; [|intros [X|[]]; discriminate]. eapply rt_removed_tinv; eauto.
    + split; [exact T|intros []].
  - unfold rt_io_process.
    pose proof (rt_fire_all_ok st T) as H1. destruct (rt_fire_all st) as [st1 o1].
    destruct H1 as (NF1 & _ & T1 & _). destruct (rt_wait st1) as [w hd].
    set (et := rt_epoll_timeout w tmo).
    set (st2 := rt_set_now st1 _).
    assert (T2 : rt_tinv st2).
    { destruct T1 as ((W & B & F) & H & SO). split; [|split; assumption]. split; [exact W|]. split; [|exact F].
      cbn [st2 rt_set_now rs_q rs_base rs_now]. intros X. specialize (B X). destruct (0 <? et) eqn:E; lia. }
    pose proof (rt_fire_all_ok st2 T2) as H3. destruct (rt_fire_all st2) as [st3 o3].
    destruct H3 as (NF3 & _ & T3 & _). cbn [fst snd]. split; [exact T3|].
    intros I. apply in_app_or in I. destruct I as [I|[I|I]]; [exact (NF1 I)|discriminate|].
    apply in_app_or in I. destruct I as [I|[I|[]]]; [exact (NF3 I)|discriminate].
  - cbn [fst snd]. split; [exact T|]. intros [X|[]]; discriminate.
Qed.

Theorem rt_run_tinv : forall evs st, Forall rt_ev_ok evs -> rt_tinv st ->
  rt_tinv (fst (rt_run st evs)) /\ ~ In RoFuel (snd (rt_run st evs)).
Proof.
  induction evs as [|ev rest IH]; intros st F T; cbn [rt_run].
  - cbn. tauto.
  - inversion F; subst. destruct (rt_step_tinv st ev H1 T) as [T1 NF1].
    destruct (rt_step st ev) as [st1 o1]. cbn [fst snd] in *.
    destruct (IH st1 H2 T1) as [T2 NF2]. destruct (rt_run st1 rest) as [st2 o2]. cbn [fst snd] in *.
    split; [exact T2|]. intros I. apply in_app_or in I. tauto.
Qed.

(* ------------------------------------------------------------------ C06_wait_sound *)
Lemma rt_ceil_ms : forall t, (t * 1000 + fp_tps - 1) / fp_tps = t.
Proof. intros. unfold fp_tps. lia. Qed.

(* the value reported by a prepare call in a state that satisfies the invariant *)
Definition rt_wait_ok (st' : rt_state) (w hd : Z) : Prop :=
  match sq_abs (rs_base st') (rs_q st') with
  | [] => w = 0 /\ hd = -1                       (* 0 = nothing pending *)
  | (d, _) :: rest =>
      hd = d /\ rs_now st' < d /\                 (* everything that was due has been fired *)
      Forall (fun e => d <= fst e) rest /\        (* d is the earliest pending deadline *)
      w = fp_u32 (d - rs_now st') /\              (* (unsigned int) of the distance *)
      0 <= w <= d - rs_now st' /\                 (* never later than that deadline *)
      (d - rs_now st' < 4294967296 -> w = d - rs_now st' /\ 0 < w)
  end.

Theorem rt_tick_wait_sound : forall st, rt_tinv st ->
  let (st', o) := rt_tick st in
  exists o' w hd, o = o' ++ [RoWait (rs_now st) w hd] /\ ~ In RoFuel o' /\
                  rs_now st' = rs_now st /\ rt_wait_ok st' w hd.
Proof.
  intros st T. unfold rt_tick. pose proof (rt_fire_all_ok st T) as H.
  destruct (rt_fire_all st) as [st1 o]. destruct H as (NF & D & T1 & N).
  destruct (rt_wait st1) as [w hd] eqn:Wt. exists o, w, hd.
  split; [rewrite N; reflexivity|]. split; [exact NF|]. split; [exact N|].
  unfold rt_wait_ok. unfold rt_wait in Wt. destruct T1 as ((W & B & F) & _ & _).
  destruct (rs_q st1) as [|[t0 n0] rest] eqn:Q.
  - inversion Wt; subst. cbn. tauto.
  - inversion Wt; subst. cbn [sq_abs].
    assert (Bn : rs_base st1 <= rs_now st1) by (apply B; discriminate).
    assert (Lt : rs_now st1 < rs_base st1 + t0).
    { unfold rt_due in D. rewrite Q in D. lia. }
    rewrite rt_ceil_ms.
    replace (t0 - (rs_now st1 - rs_base st1)) with (rs_base st1 + t0 - rs_now st1) by lia.
    split; [reflexivity|]. split; [exact Lt|]. split.
    + cbn in W. destruct (sq_abs_sorted_from rest (rs_base st1 + t0) W) as [_ X]. exact X.
    + unfold fp_u32. split; [reflexivity|]. split.
      * pose proof (Z.mod_pos_bound (rs_base st1 + t0 - rs_now st1) 4294967296 ltac:(lia)).
        pose proof (Z.mod_le (rs_base st1 + t0 - rs_now st1) 4294967296 ltac:(lia) ltac:(lia)). lia.
      * intros Small. rewrite Z.mod_small by lia. lia.
Qed.

(* for every reachable state *)
Theorem rt_wait_sound : forall t0 nst evs,
  rt_nst_ok nst -> Forall rt_ev_ok evs ->
  let st := fst (rt_run (rt_init t0 nst) evs) in
  let (st', o) := rt_tick st in
  exists o' w hd, o = o' ++ [RoWait (rs_now st) w hd] /\ ~ In RoFuel o' /\
                  rs_now st' = rs_now st /\ rt_wait_ok st' w hd.
Proof.
  intros t0 nst evs Hn F st. apply rt_tick_wait_sound.
  apply (rt_run_tinv evs (rt_init t0 nst) F (rt_tinv_init t0 nst Hn)).
Qed.

(* ------------------------------------------------------------------ C06_schedule *)
(* One message, nobody answers, and the driver is punctual (it sleeps exactly as long as the
   library says).  T is the timeout computed at the first transmission. *)
Section Schedule.
  Variables (t0 u s m T mx : Z) (b : list Z).
  Hypothesis T_pos : 1 <= T.
  Hypothesis mx_range : 1 <= mx <= 255.
  Hypothesis waits_fit : T * 2 ^ mx < 4294967296.   (* every wait fits the unsigned int result *)
  (* the session table while the message is in flight: its session holds one slot, nothing waits *)
  Variables (ns : Z) (tbl : list (Z * rt_sinfo)).
  Hypothesis ns_pos : 1 <= ns.
  Hypothesis tbl_s : rt_sget s tbl = rt_mk_sinfo ns 1 [].
  Hypothesis tbl_fix : rt_sset s (rt_mk_sinfo ns 1 []) tbl = tbl.

  Definition rt_sched_node (c : nat) : sq_node := sq_mk_node u s m (Z.of_nat c) T mx b.
  (* time of the transmission number j (0 = the first one) *)
  Definition rt_sched_time (j : nat) : Z := t0 + T * (2 ^ Z.of_nat j - 1).

  Lemma rt_pow2_S : forall c : nat, 2 ^ Z.of_nat (S c) = 2 * 2 ^ Z.of_nat c.
  Proof. intros. rewrite Nat2Z.inj_succ, Z.pow_succ_r by lia. reflexivity. Qed.

  Lemma rt_pow2_pos : forall c : nat, 1 <= 2 ^ Z.of_nat c.
  Proof. intros. pose proof (Z.pow_pos_nonneg 2 (Z.of_nat c) ltac:(lia) ltac:(lia)). lia. Qed.

  Lemma rt_sched_time_S : forall j, rt_sched_time (S j) = rt_sched_time j + T * 2 ^ Z.of_nat j.
  Proof. intros. unfold rt_sched_time. rewrite rt_pow2_S. lia. Qed.

  Lemma rt_wait_fits : forall c : nat, Z.of_nat c <= mx -> 1 <= T * 2 ^ Z.of_nat c < 4294967296.
  Proof.
    intros c Hc. pose proof (rt_pow2_pos c).
    assert (2 ^ Z.of_nat c <= 2 ^ mx) by (apply Z.pow_le_mono_r; lia).
    assert (T * 2 ^ Z.of_nat c <= T * 2 ^ mx) by (apply Z.mul_le_mono_nonneg_l; lia).
    split; [|lia]. assert (1 * 1 <= T * 2 ^ Z.of_nat c) by (apply Z.mul_le_mono_nonneg; lia). lia.
  Qed.

  (* the state in which transmission c has just happened at time tn *)
  Definition rt_sched_waiting (k : Z) (c : nat) : rt_state :=
    rt_mk_state (rt_sched_time c) (rt_sched_time c) [(T * 2 ^ Z.of_nat c, rt_sched_node c)] k tbl.
  (* ... and the same after sleeping for the reported wait *)
  Definition rt_sched_due (k : Z) (c : nat) : rt_state :=
    rt_mk_state (rt_sched_time (S c)) (rt_sched_time c) [(T * 2 ^ Z.of_nat c, rt_sched_node c)] k tbl.

  Lemma rt_fire_not_due : forall fuel st, rt_due st = false -> rt_fire fuel st = (st, []).
  Proof. intros [|f] st D; cbn [rt_fire]; rewrite D; reflexivity. Qed.

  Lemma rt_waiting_not_due : forall k c, Z.of_nat c <= mx -> rt_due (rt_sched_waiting k c) = false.
  Proof.
    intros k c Hc. unfold rt_due, rt_sched_waiting. cbn [rs_q rs_base rs_now].
    pose proof (rt_wait_fits c Hc). lia.
  Qed.

  Lemma rt_u32_ms : forall x, 0 <= x < 4294967296 ->
    fp_u32 (((x - 0) * 1000 + fp_tps - 1) / fp_tps) = x.
  Proof. intros. replace (x - 0) with x by lia. rewrite rt_ceil_ms. unfold fp_u32; apply Z.mod_small; lia. Qed.

  Lemma rt_wait_waiting : forall k c, Z.of_nat c <= mx ->
    rt_wait (rt_sched_waiting k c) = (T * 2 ^ Z.of_nat c, rt_sched_time (S c)).
  Proof.
    intros k c Hc. unfold rt_wait, rt_sched_waiting. cbn [rs_q rs_now rs_base].
    replace (rt_sched_time c - rt_sched_time c) with 0 by lia.
    rewrite rt_u32_ms by (pose proof (rt_wait_fits c Hc); lia).
    rewrite rt_sched_time_S. reflexivity.
  Qed.

  Lemma rt_tick_waiting : forall k c, Z.of_nat c <= mx ->
    rt_tick (rt_sched_waiting k c) =
    (rt_sched_waiting k c,
     [RoWait (rt_sched_time c) (T * 2 ^ Z.of_nat c) (rt_sched_time (S c))]).
  Proof.
    intros k c Hc. unfold rt_tick, rt_fire_all.
    rewrite rt_fire_not_due by (apply rt_waiting_not_due; exact Hc).
    unfold rt_wait, rt_sched_waiting. cbn [rs_q rs_now rs_base app].
    replace (rt_sched_time c - rt_sched_time c) with 0 by lia.
    rewrite rt_u32_ms by (pose proof (rt_wait_fits c Hc); lia).
    rewrite rt_sched_time_S. reflexivity.
  Qed.

  Lemma rt_due_due : forall k c, rt_due (rt_sched_due k c) = true.
  Proof.
    intros. unfold rt_due, rt_sched_due. cbn [rs_q rs_base rs_now]. rewrite rt_sched_time_S.
    pose proof (rt_pow2_pos c). assert (0 <= T * 2 ^ Z.of_nat c) by (apply Z.mul_nonneg_nonneg; lia). lia.
  Qed.

  (* a prepare call at the deadline of transmission c < mx: retransmission, next wait doubled *)
  Lemma rt_tick_due_retransmit : forall k c, Z.of_nat c < mx ->
    rt_tick (rt_sched_due k c) =
    (rt_sched_waiting k (S c),
     [RoTx (rt_sched_time (S c)) u s b (Z.of_nat (S c)) T;
      RoWait (rt_sched_time (S c)) (T * 2 ^ Z.of_nat (S c)) (rt_sched_time (S (S c)))]).
  Proof.
    intros k c Hc. unfold rt_tick, rt_fire_all.
    assert (Bu : exists f, rt_budget_all (rt_sched_due k c) = S f).
    { unfold rt_budget_all, rt_sched_due. cbn [rs_q rt_budget fold_right snd Nat.add]. eexists. reflexivity. }
    destruct Bu as [f Bu]. rewrite Bu. cbn [rt_fire]. rewrite rt_due_due.
    unfold rt_sched_due at 1. cbn [rs_q sq_pop sq_bump].
    unfold rt_retransmit. unfold rt_sched_node.
    cbn [qn_uid qn_sess qn_mid qn_cnt qn_timeout qn_max qn_bytes].
    assert (E : (Z.of_nat c <? mx) = true) by lia. rewrite E.
    assert (Em : (Z.of_nat c + 1) mod 256 = Z.of_nat (S c)) by (rewrite Z.mod_small; lia).
    rewrite Em. unfold rt_enqueue, rt_set_q, rt_set_sess, rt_bump_node, rt_sched_due.
    cbn [rs_q rs_now rs_base rs_uid rs_sess sq_insert qn_uid qn_sess qn_mid qn_cnt qn_timeout qn_max qn_bytes].
    rewrite tbl_s. cbn [si_active si_nstart si_hold].
    change (0 <? 1) with true. cbv iota. replace (1 - 1) with 0 by lia.
    assert (En : (ns <=? 0) = false) by lia. rewrite En. replace (0 + 1) with 1 by lia. rewrite tbl_fix.
    cbn [rs_q rs_now rs_base rs_uid rs_sess].
    change (rt_mk_state (rt_sched_time (S c)) (rt_sched_time (S c))
              [(T * 2 ^ Z.of_nat (S c), sq_mk_node u s m (Z.of_nat (S c)) T mx b)] k tbl)
      with (rt_sched_waiting k (S c)).
    rewrite rt_fire_not_due by (apply rt_waiting_not_due; lia).
    unfold rt_wait, rt_sched_waiting. cbn [rs_q rs_now rs_base app].
    replace (rt_sched_time (S c) - rt_sched_time (S c)) with 0 by lia.
    rewrite rt_u32_ms by (pose proof (rt_wait_fits (S c) ltac:(lia)); lia).
    rewrite (rt_sched_time_S (S c)). reflexivity.
  Qed.

  (* ... and at the deadline of transmission mx: give up, one NACK, nothing pending *)
  Lemma rt_tick_due_giveup : forall k c, Z.of_nat c = mx ->
    rt_tick (rt_sched_due k c) =
    (rt_mk_state (rt_sched_time (S c)) (rt_sched_time c) [] k (rt_sset s (rt_mk_sinfo ns 0 []) tbl),
     [RoNack (rt_sched_time (S c)) u s rt_NACK_TOO_MANY_RETRIES m mx mx;
      RoWait (rt_sched_time (S c)) 0 (-1)]).
  Proof.
    intros k c Hc. unfold rt_tick, rt_fire_all.
    assert (Bu : exists f, rt_budget_all (rt_sched_due k c) = S f).
    { unfold rt_budget_all, rt_sched_due. cbn [rs_q rt_budget fold_right snd Nat.add]. eexists. reflexivity. }
    destruct Bu as [f Bu]. rewrite Bu. cbn [rt_fire]. rewrite rt_due_due.
    unfold rt_sched_due at 1. cbn [rs_q sq_pop sq_bump].
    unfold rt_retransmit. unfold rt_sched_node.
    cbn [qn_uid qn_sess qn_mid qn_cnt qn_timeout qn_max qn_bytes].
    assert (E : (Z.of_nat c <? mx) = false) by lia. rewrite E.
    unfold rt_free_slot, rt_release, rt_set_q, rt_set_sess, rt_sched_due. cbn [rs_q rs_now rs_base rs_uid rs_sess].
    rewrite tbl_s. cbn [si_active si_nstart si_hold]. change (0 <? 1) with true. cbv iota.
    cbn [rs_q rs_now rs_base rs_uid rs_sess]. rewrite rt_sget_sset. cbn [si_active si_nstart si_hold rt_release_go].
    cbn [rs_q rs_now rs_base rs_uid rs_sess]. replace (1 - 1) with 0 by lia. rewrite rt_sset_sset.
    rewrite rt_fire_not_due by reflexivity.
    unfold rt_wait. cbn [rs_q rs_now app]. rewrite Hc. reflexivity.
  Qed.

  (* the outputs of the punctual driver from the deadline of transmission c on *)
  Fixpoint rt_sched_from (left : nat) (c : nat) : list rt_out :=
    match left with
    | O => [RoNack (rt_sched_time (S c)) u s rt_NACK_TOO_MANY_RETRIES m mx mx;
            RoWait (rt_sched_time (S c)) 0 (-1)]
    | S l => [RoTx (rt_sched_time (S c)) u s b (Z.of_nat (S c)) T;
              RoWait (rt_sched_time (S c)) (T * 2 ^ Z.of_nat (S c)) (rt_sched_time (S (S c)))]
             ++ rt_sched_from l (S c)
    end.

  Lemma rt_punctual_from_due : forall left c k fuel,
    Z.of_nat c + Z.of_nat left = mx -> (left < fuel)%nat ->
    rt_punctual fuel (rt_sched_due k c) =
    (rt_mk_state (rt_sched_time (S (c + left))) (rt_sched_time (c + left)) [] k
                 (rt_sset s (rt_mk_sinfo ns 0 []) tbl),
     rt_sched_from left c).
  Proof.
    induction left as [|l IH]; intros c k fuel Hc Hf; destruct fuel as [|f]; try lia; cbn [rt_punctual].
    - rewrite rt_tick_due_giveup by lia. unfold rt_wait. cbn [rs_q].
      rewrite Nat.add_0_r. reflexivity.
    - rewrite rt_tick_due_retransmit by lia. rewrite rt_wait_waiting by lia.
      assert (Ne : (T * 2 ^ Z.of_nat (S c) =? 0) = false) by (pose proof (rt_wait_fits (S c) ltac:(lia)); lia).
      rewrite Ne. cbn [rt_sched_waiting rt_set_now rs_now rs_base rs_q rs_uid rs_sess].
      rewrite <- (rt_sched_time_S (S c)).
      change (rt_set_now (rt_sched_waiting k (S c)) (rt_sched_time (S (S c)))) with (rt_sched_due k (S c)).
      rewrite (IH (S c) k f) by lia.
      replace (S c + l)%nat with (c + S l)%nat by lia. reflexivity.
  Qed.

  (* from the state right after coap_send at time t0 *)
  Theorem rt_punctual_schedule : forall k fuel, (Z.to_nat mx + 1 < fuel)%nat ->
    rt_punctual fuel (rt_sched_waiting k 0) =
    (rt_mk_state (rt_sched_time (S (Z.to_nat mx))) (rt_sched_time (Z.to_nat mx)) [] k
                 (rt_sset s (rt_mk_sinfo ns 0 []) tbl),
     RoWait t0 T (t0 + T) :: rt_sched_from (Z.to_nat mx) 0).
  Proof.
    intros k [|f] Hf; [lia|]. cbn [rt_punctual]. rewrite rt_tick_waiting by lia.
    rewrite rt_wait_waiting by lia.
    assert (Ne : (T * 2 ^ Z.of_nat 0 =? 0) = false) by (pose proof (rt_wait_fits 0%nat ltac:(lia)); lia).
    rewrite Ne. cbn [rt_sched_waiting rt_set_now rs_now rs_base rs_q rs_uid rs_sess].
    rewrite <- (rt_sched_time_S 0).
    change (rt_set_now (rt_sched_waiting k 0) (rt_sched_time 1)) with (rt_sched_due k 0).
    rewrite (rt_punctual_from_due (Z.to_nat mx) 0 k f) by lia.
    cbn [Nat.add app]. f_equal. f_equal.
    unfold rt_sched_time. change (Z.of_nat 0) with 0. change (Z.of_nat 1) with 1.
    rewrite Z.pow_0_r, Z.pow_1_r. f_equal; lia.
  Qed.

  (* the transmissions and handler calls among those outputs *)
  Definition rt_is_tx_nack (o : rt_out) : bool :=
    match o with RoTx _ _ _ _ _ _ => true | RoNack _ _ _ _ _ _ _ => true | RoNackNoPdu _ _ _ _ => true
               | _ => false end.

  Lemma rt_sched_from_filter : forall left c,
    filter rt_is_tx_nack (rt_sched_from left c) =
    map (fun j => RoTx (rt_sched_time j) u s b (Z.of_nat j) T) (seq (S c) left) ++
    [RoNack (rt_sched_time (S (c + left))) u s rt_NACK_TOO_MANY_RETRIES m mx mx].
  Proof.
    induction left as [|l IH]; intros c; cbn [rt_sched_from].
    - cbn. rewrite Nat.add_0_r. reflexivity.
    - cbn [app filter rt_is_tx_nack seq map]. rewrite IH.
      replace (S c + l)%nat with (c + S l)%nat by lia. reflexivity.
  Qed.
End Schedule.

(* C06_schedule in one statement: after coap_send at t0 on an idle context (the model's
   rt_send), a punctual driver sees exactly max_retransmit + 1 transmissions of the same bytes at
   t0 + T (2^j - 1), j = 0 .. max_retransmit, then exactly one NACK TOO_MANY_RETRIES at
   t0 + T (2^(max_retransmit+1) - 1), the queue is empty, and the last reported wait is 0. *)
Theorem rt_schedule : forall t0 base0 k s m b cfg r fuel ns tbl0,
  let T := fp_calc_timeout (rc_at_ip cfg) (rc_at_fp cfg) (rc_arf_ip cfg) (rc_arf_fp cfg) r in
  let mx := rc_max cfg in
  1 <= T -> 1 <= mx <= 255 -> T * 2 ^ mx < 4294967296 -> (Z.to_nat mx + 1 < fuel)%nat ->
  (* the session is idle: no Confirmable in flight, none waiting *)
  1 <= ns -> rt_sget s tbl0 = rt_mk_sinfo ns 0 [] ->
  let (st1, o1) := rt_send (rt_mk_state t0 base0 [] k tbl0) s m b cfg r in
  let (st2, o2) := rt_punctual fuel st1 in
  filter rt_is_tx_nack (o1 ++ o2) =
    map (fun j => RoTx (rt_sched_time t0 T j) k s b (Z.of_nat j) T) (seq 0 (S (Z.to_nat mx))) ++
    [RoNack (rt_sched_time t0 T (S (Z.to_nat mx))) k s rt_NACK_TOO_MANY_RETRIES m mx mx] /\
  rs_q st2 = [] /\ rs_now st2 = rt_sched_time t0 T (S (Z.to_nat mx)) /\
  (exists o', o2 = o' ++ [RoWait (rs_now st2) 0 (-1)]).
Proof.
  intros t0 base0 k s m b cfg r fuel ns tbl0 T mx HT Hmx Hfit Hfuel Hns Htbl.
  unfold rt_send. cbn [rs_uid rs_now rs_base rs_q rs_sess]. fold T. fold mx.
  rewrite Htbl. cbn [si_nstart si_active si_hold].
  assert (En : (ns <=? 0) = false) by lia. rewrite En.
  set (tbl := rt_sset s (rt_mk_sinfo ns (0 + 1) []) tbl0).
  unfold rt_enqueue. cbn [rs_q rs_now rs_uid rs_sess sq_insert].
  assert (Ts : rt_sget s tbl = rt_mk_sinfo ns 1 []) by (unfold tbl; rewrite rt_sget_sset; reflexivity).
  assert (Tf : rt_sset s (rt_mk_sinfo ns 1 []) tbl = tbl) by (unfold tbl; rewrite rt_sset_sset; reflexivity).
  assert (E0 : rt_mk_state t0 t0 [(T, sq_mk_node k s m 0 T mx b)] (k + 1) tbl
             = rt_sched_waiting t0 k s m T mx b tbl (k + 1) 0).
  { unfold rt_sched_waiting, rt_sched_time, rt_sched_node. change (Z.of_nat 0) with 0.
    rewrite Z.pow_0_r. replace (t0 + T * (1 - 1)) with t0 by lia. rewrite Z.mul_1_r. reflexivity. }
  rewrite E0. rewrite (rt_punctual_schedule t0 k s m T mx b HT Hmx Hfit ns tbl Hns Ts Tf (k + 1) fuel Hfuel).
  split; [|split; [reflexivity|split; [reflexivity|]]].
  - cbn [app filter rt_is_tx_nack]. rewrite rt_sched_from_filter.
    assert (Z0 : rt_sched_time t0 T 0 = t0).
    { unfold rt_sched_time. change (Z.of_nat 0) with 0. rewrite Z.pow_0_r. lia. }
    cbn [seq map Nat.add app]. rewrite Z0. reflexivity.
  - cbn [rs_now].
    assert (G : forall left c, exists o', rt_sched_from t0 k s m T mx b left c =
              o' ++ [RoWait (rt_sched_time t0 T (S (c + left))) 0 (-1)]).
    { induction left as [|l IH]; intros c; cbn [rt_sched_from].
      - rewrite Nat.add_0_r. eexists [_]. reflexivity.
      - destruct (IH (S c)) as [o' E]. rewrite E. replace (S c + l)%nat with (c + S l)%nat by lia.
        eexists (_ :: _ :: o'). reflexivity. }
    destruct (G (Z.to_nat mx) 0%nat) as [o' E]. rewrite E. cbn [Nat.add].
    exists (RoWait t0 T (t0 + T) :: o'). reflexivity.
Qed.

(* ------------------------------------------------------------------ coap_io_process *)
Lemma rt_wait_after_fire : forall st1 w hd,
  rt_tinv st1 -> rt_due st1 = false -> rt_wait st1 = (w, hd) -> rt_wait_ok st1 w hd.
Proof.
  intros st1 w hd ((W & B & F) & _ & _) D Wt. unfold rt_wait_ok. unfold rt_wait in Wt.
  destruct (rs_q st1) as [|[t0 n0] rest] eqn:Q.
  - inversion Wt; subst. cbn. tauto.
  - inversion Wt; subst. cbn [sq_abs].
    assert (Bn : rs_base st1 <= rs_now st1) by (apply B; discriminate).
    assert (Lt : rs_now st1 < rs_base st1 + t0).
    { unfold rt_due in D. rewrite Q in D. lia. }
    rewrite rt_ceil_ms.
    replace (t0 - (rs_now st1 - rs_base st1)) with (rs_base st1 + t0 - rs_now st1) by lia.
    split; [reflexivity|]. split; [exact Lt|]. split.
    + cbn in W. destruct (sq_abs_sorted_from rest (rs_base st1 + t0) W) as [_ X]. exact X.
    + unfold fp_u32. split; [reflexivity|]. split.
      * pose proof (Z.mod_pos_bound (rs_base st1 + t0 - rs_now st1) 4294967296 ltac:(lia)).
        pose proof (Z.mod_le (rs_base st1 + t0 - rs_now st1) 4294967296 ltac:(lia) ltac:(lia)). lia.
      * intros Small. rewrite Z.mod_small by lia. lia.
Qed.

Lemma rt_epoll_timeout_spec : forall w tmo, 0 <= w < 4294967296 -> 0 <= tmo < 4294967296 ->
  let et := rt_epoll_timeout w tmo in
  -1 <= et <= rt_INT_MAX /\
  (et = -1 -> w = 0 /\ tmo = rt_IO_WAIT) /\        (* sleeps for ever only if nothing is pending *)
  (0 < w < 2147483648 -> 0 <= et <= w) /\          (* never longer than the reported wait *)
  (tmo = rt_IO_WAIT -> 0 < w < 2147483648 -> et = w) /\
  (tmo = rt_IO_NO_WAIT -> et = 0).
Proof.
  intros w tmo Hw Ht. unfold rt_epoll_timeout, rt_as_int, rt_IO_WAIT, rt_IO_NO_WAIT, rt_INT_MAX.
  destruct (tmo =? 4294967295) eqn:E1; [lia|].
  destruct ((w =? 0) && (tmo =? 0)) eqn:E2; [lia|].
  destruct ((w =? 0) || (negb (tmo =? 0) && (tmo <? w))) eqn:E3.
  - destruct (tmo <? 2147483648) eqn:E4; [|destruct (tmo - 4294967296 <? 0) eqn:E5; lia].
    destruct (tmo <? 0) eqn:E5; lia.
  - destruct (w <? 2147483648) eqn:E4; [|destruct (w - 4294967296 <? 0) eqn:E5; lia].
    destruct (w <? 0) eqn:E5; lia.
Qed.

(* coap_io_process in a state that satisfies the invariant: it fires what is due, hands
   epoll_wait a sleep that is never longer than the reported wait - hence (rt_wait_ok) never past
   the earliest pending deadline - and "for ever" only when nothing is pending; afterwards again
   nothing due is left; it returns the time it slept *)
Theorem rt_io_process_sound : forall st tmo,
  rt_tinv st -> 0 <= tmo < 4294967296 ->
  let (st', o) := rt_io_process st tmo in
  exists st1 o1 w hd o3,
    rt_fire_all st = (st1, o1) /\ rt_wait st1 = (w, hd) /\ rt_wait_ok st1 w hd /\
    let et := rt_epoll_timeout w tmo in
    o = o1 ++ RoEpoll (rs_now st) et :: o3 ++ [RoIoRet (rs_now st') (rs_now st' - rs_now st)] /\
    ~ In RoFuel o /\ rt_due st' = false /\ rt_tinv st' /\
    rs_now st' = rs_now st + (if 0 <? et then et else 0) /\
    (et = -1 -> w = 0 /\ tmo = rt_IO_WAIT) /\ (0 < w < 2147483648 -> 0 <= et <= w).
Proof.
  intros st tmo T Ht. unfold rt_io_process.
  pose proof (rt_fire_all_ok st T) as H1. destruct (rt_fire_all st) as [st1 o1] eqn:F1.
  destruct H1 as (NF1 & D1 & T1 & N1). destruct (rt_wait st1) as [w hd] eqn:Wt.
  pose proof (rt_wait_after_fire st1 w hd T1 D1 Wt) as WO.
  assert (Hw : 0 <= w < 4294967296).
  { unfold rt_wait in Wt. destruct (rs_q st1) as [|[t0 n0] r]; inversion Wt; subst; [lia|].
    unfold fp_u32. apply Z.mod_pos_bound. lia. }
  destruct (rt_epoll_timeout_spec w tmo Hw Ht) as (Rg & Inf & Le & _ & _).
  set (et := rt_epoll_timeout w tmo) in *.
  set (st2 := rt_set_now st1 _).
  assert (T2 : rt_tinv st2).
  { destruct T1 as ((W & B & F) & H & SO). split; [|split; assumption]. split; [exact W|]. split; [|exact F].
    cbn [st2 rt_set_now rs_q rs_base rs_now]. intros X. specialize (B X). destruct (0 <? et) eqn:E; lia. }
  pose proof (rt_fire_all_ok st2 T2) as H3. destruct (rt_fire_all st2) as [st3 o3].
  destruct H3 as (NF3 & D3 & T3 & N3).
  exists st1, o1, w, hd, o3. split; [first [reflexivity|exact F1]|]. split; [first [reflexivity|exact Wt]|]. split; [exact WO|].
  cbv zeta. rewrite N1. split; [reflexivity|]. split.
  - intros I. apply in_app_or in I. destruct I as [I|[I|I]]; [exact (NF1 I)|discriminate|].
    apply in_app_or in I. destruct I as [I|[I|[]]]; [exact (NF3 I)|discriminate].
  - split; [exact D3|]. split; [exact T3|]. split; [rewrite N3; cbn [st2 rt_set_now rs_now]; rewrite N1; reflexivity|].
    split; [exact Inf|exact Le].
Qed.

(* A Confirmable that is accepted at the start of a prepare call - an Observe notification that
   coap_check_notify generates inside coap_io_prepare_io - is in the queue when that call's loop
   and wait computation run: the wait reported by THAT call is computed from a queue that contains
   it (rt_wait_ok on the final state: 0 only if nothing is pending, never past the earliest
   deadline). *)
Theorem rt_wait_after_accept : forall st s m b cfg r,
  rt_tinv st -> 1 <= rc_max cfg <= 255 ->
  let st1 := fst (rt_send st s m b cfg r) in
  let (st', o) := rt_tick st1 in
  exists o' w hd, o = o' ++ [RoWait (rs_now st1) w hd] /\ ~ In RoFuel o' /\
                  rs_now st' = rs_now st1 /\ rt_wait_ok st' w hd.
Proof.
  intros st s m b cfg r T Hm st1. apply rt_tick_wait_sound.
  exact (proj1 (rt_step_tinv st (RtSend s m b cfg r) Hm T)).
Qed.

(* C06 - correctness of the relative-time bookkeeping of the send queue, for every queue:
   through the abstraction sq_abs (absolute deadlines) insertion is ordered insertion that is
   FIFO among equal deadlines, pop removes the earliest entry, removal takes out exactly the
   first matching node, and in all three the deadlines of the other nodes are unchanged. *)
From LibcoapV Require Import Base.Tactics Sched.SendQueue.
From Coq Require Import Sorting.Sorted Sorting.Permutation.
Local Open Scope Z_scope.

(* lia chokes on universally quantified induction hypotheses about lists in the context *)
Ltac clia := repeat match goal with
                    | H : (forall _ : Z, _) |- _ => clear H
                    | H : (forall _ : list _, _) |- _ => clear H
                    | H : (forall _ : sq_queue, _) |- _ => clear H
                    end; lia.

Definition sq_le (a b : Z * sq_node) : Prop := fst a <= fst b.
Definition sq_sorted (l : list (Z * sq_node)) : Prop := StronglySorted sq_le l.

(* ---------------------------------------------------------------- insertion *)
Lemma sq_insert_eq_go : forall q t n, sq_insert q t n = sq_ins_go t n q.
Proof.
  intros [|[t0 n0] rest] t n; [reflexivity|].
  unfold sq_insert. cbn [sq_ins_go].
  destruct (t <? t0) eqn:E1; destruct (t0 <=? t) eqn:E2; try clia; reflexivity.
Qed.

Lemma sq_abs_ins_go : forall q base t n,
  sq_abs base (sq_ins_go t n q) = sq_spec_insert (base + t) n (sq_abs base q).
Proof.
  induction q as [|[t1 n1] rest IH]; intros base t n; [reflexivity|].
  cbn [sq_ins_go sq_abs sq_spec_insert].
  destruct (t1 <=? t) eqn:E1.
  - assert (E2 : (base + t1 <=? base + t) = true) by clia. rewrite E2.
    cbn [sq_abs]. rewrite IH. replace (base + t1 + (t - t1)) with (base + t) by clia. reflexivity.
  - assert (E2 : (base + t1 <=? base + t) = false) by clia. rewrite E2.
    cbn [sq_abs]. replace (base + t + (t1 - t)) with (base + t1) by clia. reflexivity.
Qed.

Theorem sq_abs_insert : forall q base t n,
  sq_abs base (sq_insert q t n) = sq_spec_insert (base + t) n (sq_abs base q).
Proof. intros. rewrite sq_insert_eq_go. apply sq_abs_ins_go. Qed.

(* what ordered insertion means *)
Lemma sq_spec_insert_split : forall l d n,
  exists l1 l2, l = l1 ++ l2 /\ sq_spec_insert d n l = l1 ++ (d, n) :: l2 /\
    Forall (fun e => fst e <= d) l1 /\
    match l2 with [] => True | e :: _ => d < fst e end.
Proof.
  induction l as [|[d1 n1] r IH]; intros d n.
  - exists [], []. repeat split; auto.
  - cbn [sq_spec_insert]. destruct (d1 <=? d) eqn:E.
    + destruct (IH d n) as (l1 & l2 & E1 & E2 & F & H).
      exists ((d1, n1) :: l1), l2. repeat split.
      * rewrite E1; reflexivity.
      * rewrite E2; reflexivity.
      * constructor; [cbn; clia|exact F].
      * exact H.
    + exists [], ((d1, n1) :: r). repeat split; auto. cbn. clia.
Qed.

Lemma sq_spec_insert_perm : forall l d n, Permutation ((d, n) :: l) (sq_spec_insert d n l).
Proof.
  intros. destruct (sq_spec_insert_split l d n) as (l1 & l2 & E1 & E2 & _).
  rewrite E2, E1. apply Permutation_middle.
Qed.

Lemma sq_spec_insert_sorted : forall l d n, sq_sorted l -> sq_sorted (sq_spec_insert d n l).
Proof.
  unfold sq_sorted. induction l as [|[d1 n1] r IH]; intros d n S.
  - cbn. constructor; constructor.
  - cbn [sq_spec_insert]. inversion S as [|? ? S' F]; subst.
    destruct (d1 <=? d) eqn:E.
    + constructor; [apply IH; exact S'|].
      eapply Permutation_Forall; [apply sq_spec_insert_perm|].
      constructor; [unfold sq_le; cbn; clia|exact F].
    + constructor; [exact S|].
      constructor; [unfold sq_le; cbn; clia|].
      eapply Forall_impl; [|exact F]. intros a Ha. unfold sq_le in *. cbn in *. clia.
Qed.

Lemma sq_sorted_app_r : forall l1 l2, sq_sorted (l1 ++ l2) -> sq_sorted l2.
Proof.
  unfold sq_sorted. induction l1 as [|a l1 IH]; intros l2 S; [exact S|].
  cbn in S. inversion S; subst. apply IH. assumption.
Qed.

(* in a sorted list the new entry goes after ALL entries that are not later, before all later *)
Lemma sq_spec_insert_stable : forall l d n, sq_sorted l ->
  exists l1 l2, l = l1 ++ l2 /\ sq_spec_insert d n l = l1 ++ (d, n) :: l2 /\
    Forall (fun e => fst e <= d) l1 /\ Forall (fun e => d < fst e) l2.
Proof.
  intros l d n S. destruct (sq_spec_insert_split l d n) as (l1 & l2 & E1 & E2 & F & H).
  exists l1, l2. repeat split; auto.
  destruct l2 as [|e l2']; [constructor|].
  subst l. apply sq_sorted_app_r in S. unfold sq_sorted in S.
  inversion S; subst. constructor; [exact H|].
  eapply Forall_impl; [|eassumption]. intros a Ha. unfold sq_le in Ha. clia.
Qed.

(* ---------------------------------------------------------------- well-formedness, order *)
Lemma sq_abs_sorted_from : forall q base,
  Forall (fun e => 0 <= fst e) q ->
  sq_sorted (sq_abs base q) /\ Forall (fun e => base <= fst e) (sq_abs base q).
Proof.
  induction q as [|[t n] rest IH]; intros base F.
  - split; constructor.
  - inversion F; subst. cbn in H1. destruct (IH (base + t) H2) as [S B]. cbn [sq_abs]. split.
    + constructor; [exact S|]. eapply Forall_impl; [|exact B]. intros a Ha. unfold sq_le in *; cbn in *. clia.
    + constructor; [cbn; clia|]. eapply Forall_impl; [|exact B]. intros a Ha. cbn in *. clia.
Qed.

Theorem sq_abs_sorted : forall q base, sq_wf q -> sq_sorted (sq_abs base q).
Proof.
  intros [|[t n] rest] base W; [constructor|].
  cbn in W. cbn [sq_abs]. destruct (sq_abs_sorted_from rest (base + t) W) as [S B].
  constructor; [exact S|]. eapply Forall_impl; [|exact B]. intros a Ha. unfold sq_le in *; cbn in *. clia.
Qed.

Lemma sq_ins_go_nonneg : forall q t n, 0 <= t -> Forall (fun e => 0 <= fst e) q ->
  Forall (fun e => 0 <= fst e) (sq_ins_go t n q).
Proof.
  induction q as [|[t1 n1] rest IH]; intros t n Ht F.
  - repeat constructor; cbn; clia.
  - inversion F; subst. cbn in H1. cbn [sq_ins_go]. destruct (t1 <=? t) eqn:E.
    + constructor; [cbn; clia|]. apply IH; [clia|assumption].
    + constructor; [cbn; clia|]. constructor; [cbn; clia|assumption].
Qed.

Lemma sq_insert_wf : forall q t n, sq_wf q -> sq_wf (sq_insert q t n).
Proof.
  intros [|[t0 n0] rest] t n W; [cbn; constructor|].
  cbn in W. unfold sq_insert. destruct (t <? t0) eqn:E.
  - cbn. constructor; [cbn; clia|exact W].
  - cbn. apply sq_ins_go_nonneg; [clia|exact W].
Qed.

Lemma sq_bump_wf : forall d q, Forall (fun e => 0 <= fst e) q -> sq_wf (sq_bump d q).
Proof.
  intros d [|[t n] r] F; [exact I|]. inversion F; subst. cbn. assumption.
Qed.

Lemma sq_bump_nonneg : forall d q, 0 <= d -> Forall (fun e => 0 <= fst e) q ->
  Forall (fun e => 0 <= fst e) (sq_bump d q).
Proof.
  intros d [|[t n] r] Hd F; [constructor|]. inversion F; subst. cbn in *.
  constructor; [cbn; clia|assumption].
Qed.

(* ---------------------------------------------------------------- pop *)
Lemma sq_abs_bump : forall d q base, sq_abs base (sq_bump d q) = sq_abs (base + d) q.
Proof.
  intros d [|[t n] r] base; [reflexivity|]. cbn [sq_bump sq_abs].
  replace (base + (t + d)) with (base + d + t) by clia. reflexivity.
Qed.

Theorem sq_abs_pop : forall q base t n q',
  sq_pop q = Some ((t, n), q') ->
  sq_abs base q = (base + t, n) :: sq_abs base q'.
Proof.
  intros [|[t0 n0] rest] base t n q' H; [discriminate|].
  cbn in H. inversion H; subst. cbn [sq_abs]. rewrite sq_abs_bump. reflexivity.
Qed.

Lemma sq_pop_none : forall q, sq_pop q = None <-> q = [].
Proof. intros [|[t n] r]; cbn; split; intros; congruence. Qed.

(* the popped entry is the earliest one *)
Theorem sq_pop_min : forall q base t n q', sq_wf q ->
  sq_pop q = Some ((t, n), q') ->
  Forall (fun e => base + t <= fst e) (sq_abs base q').
Proof.
  intros q base t n q' W H. pose proof (sq_abs_sorted q base W) as S.
  rewrite (sq_abs_pop _ _ _ _ _ H) in S. inversion S; subst.
  eapply Forall_impl; [|eassumption]. intros a Ha. exact Ha.
Qed.

Lemma sq_pop_wf : forall q e q', sq_wf q -> sq_pop q = Some (e, q') -> sq_wf q'.
Proof.
  intros [|[t0 n0] rest] e q' W H; [discriminate|]. cbn in H. inversion H; subst.
  apply sq_bump_wf. exact W.
Qed.

(* ---------------------------------------------------------------- removal *)
Definition sq_rm_view (base : Z) (r : option (sq_entry * sq_queue)) :=
  match r with None => None | Some (e, q') => Some (snd e, sq_abs base q') end.
Definition sq_spec_rm_view (r : option ((Z * sq_node) * list (Z * sq_node))) :=
  match r with None => None | Some (e, l') => Some (snd e, l') end.

Theorem sq_abs_remove : forall q base s m,
  sq_rm_view base (sq_remove q s m) = sq_spec_rm_view (sq_spec_remove (sq_abs base q) s m).
Proof.
  induction q as [|[t0 n0] rest IH]; intros base s m; [reflexivity|].
  cbn [sq_remove sq_abs sq_spec_remove]. destruct (sq_match s m n0) eqn:E.
  - cbn. rewrite sq_abs_bump. reflexivity.
  - specialize (IH (base + t0) s m).
    destruct (sq_remove rest s m) as [[e q']|];
      destruct (sq_spec_remove (sq_abs (base + t0) rest) s m) as [[e' l']|]; cbn in *;
      try discriminate; try reflexivity.
    inversion IH; subst. reflexivity.
Qed.

(* what removal means on the absolute view: exactly the first matching entry disappears *)
Lemma sq_spec_remove_some : forall l s m e l',
  sq_spec_remove l s m = Some (e, l') ->
  exists l1 l2, l = l1 ++ e :: l2 /\ l' = l1 ++ l2 /\ sq_match s m (snd e) = true /\
    Forall (fun x => sq_match s m (snd x) = false) l1.
Proof.
  induction l as [|[d n] r IH]; intros s m e l' H; [discriminate|].
  cbn [sq_spec_remove] in H. destruct (sq_match s m n) eqn:E.
  - inversion H; subst. exists [], l'. repeat split; auto.
  - destruct (sq_spec_remove r s m) as [[e1 r1]|] eqn:R; [|discriminate].
    inversion H; subst. destruct (IH s m e r1 R) as (l1 & l2 & E1 & E2 & M & F).
    exists ((d, n) :: l1), l2. repeat split.
    + rewrite E1; reflexivity.
    + rewrite E2; reflexivity.
    + exact M.
    + constructor; [exact E|exact F].
Qed.

Lemma sq_spec_remove_none : forall l s m,
  sq_spec_remove l s m = None <-> Forall (fun x => sq_match s m (snd x) = false) l.
Proof.
  induction l as [|[d n] r IH]; intros s m; cbn [sq_spec_remove].
  - split; auto.
  - destruct (sq_match s m n) eqn:E.
    + split; [discriminate|]. intros F. inversion F; subst. cbn in *. congruence.
    + specialize (IH s m). destruct (sq_spec_remove r s m) as [[e r']|].
      * split; [discriminate|]. intros F. inversion F; subst. apply IH in H2. discriminate.
      * split; auto. intros _. constructor; [exact E|]. apply IH. reflexivity.
Qed.

Lemma sq_remove_wf : forall q s m e q', sq_wf q -> Forall (fun e => 0 <= fst e) q ->
  sq_remove q s m = Some (e, q') -> Forall (fun e => 0 <= fst e) q'.
Proof.
  induction q as [|[t0 n0] rest IH]; intros s m e q' W F H; [discriminate|].
  inversion F; subst. cbn in H2. cbn [sq_remove] in H. destruct (sq_match s m n0).
  - inversion H; subst. apply sq_bump_nonneg; assumption.
  - destruct (sq_remove rest s m) as [[e1 r1]|] eqn:R; [|discriminate]. inversion H; subst.
    constructor; [cbn; clia|]. eapply IH; eauto. destruct rest; [exact I|].
    inversion H3; subst. cbn. assumption.
Qed.

(* version that needs only sq_wf (the head's time may be anything) *)
Lemma sq_remove_wf' : forall q s m e q', sq_wf q -> sq_remove q s m = Some (e, q') -> sq_wf q'.
Proof.
  intros [|[t0 n0] rest] s m e q' W H; [discriminate|].
  cbn in W. cbn [sq_remove] in H. destruct (sq_match s m n0).
  - inversion H; subst. apply sq_bump_wf. exact W.
  - destruct (sq_remove rest s m) as [[e1 r1]|] eqn:R; [|discriminate]. inversion H; subst.
    cbn. destruct rest as [|[t1 n1] rest']; [discriminate|].
    eapply sq_remove_wf; [| exact W | exact R].
    inversion W; subst. cbn. assumption.
Qed.

(* ---------------------------------------------------------------- cancel by predicate *)
Lemma sq_abs_cancel_go : forall p q base carry,
  sq_abs base (snd (sq_cancel_go p carry q)) =
  filter (fun e => negb (p (snd e))) (sq_abs (base + carry) q) /\
  fst (sq_cancel_go p carry q) = filter p (map snd q).
Proof.
  induction q as [|[t n] rest IH]; intros base carry; [split; reflexivity|].
  cbn [sq_cancel_go sq_abs map snd filter]. destruct (p n) eqn:E.
  - destruct (IH base (carry + t)) as [A B].
    destruct (sq_cancel_go p (carry + t) rest) as [rm q']. cbn [fst snd negb] in *.
    try rewrite E. cbn [negb]. split; [|rewrite B; reflexivity].
    rewrite A. replace (base + (carry + t)) with (base + carry + t) by clia. reflexivity.
  - destruct (IH (base + carry + t) 0) as [A B].
    destruct (sq_cancel_go p 0 rest) as [rm q']. cbn [fst snd negb] in *.
    try rewrite E. cbn [negb sq_abs]. split; [|exact B].
    replace (base + (t + carry)) with (base + carry + t) by clia.
    rewrite A. replace (base + carry + t + 0) with (base + carry + t) by clia. reflexivity.
Qed.

(* all nodes that satisfy p disappear, in queue order; every other node keeps deadline and place *)
Theorem sq_abs_cancel : forall p q base,
  sq_abs base (snd (sq_cancel p q)) = filter (fun e => negb (p (snd e))) (sq_abs base q) /\
  fst (sq_cancel p q) = filter p (map snd q).
Proof.
  intros. unfold sq_cancel. destruct (sq_abs_cancel_go p q base 0) as [A B].
  replace (base + 0) with base in A by clia. auto.
Qed.

(* before /repo f424a16 the nodes behind a cancelled one became due earlier *)
Theorem sq_cancel_nobump_shifts : exists p q base,
  sq_wf q /\
  sq_abs base (snd (sq_cancel_nobump p q)) <> filter (fun e => negb (p (snd e))) (sq_abs base q).
Proof.
  exists (fun n => qn_mid n =? 1),
         [(2000, sq_mk_node 0 0 1 0 2000 4 []); (500, sq_mk_node 1 1 2 0 2500 4 [])], 0.
  split; [repeat constructor; cbn; clia|]. cbn. intros H. inversion H.
Qed.

Lemma sq_cancel_go_wf : forall p q carry, 0 <= carry -> Forall (fun e => 0 <= fst e) q ->
  Forall (fun e => 0 <= fst e) (snd (sq_cancel_go p carry q)).
Proof.
  induction q as [|[t n] rest IH]; intros carry Hc F; [constructor|].
  inversion F; subst. cbn in H1. cbn [sq_cancel_go]. destruct (p n).
  - specialize (IH (carry + t) ltac:(clia) H2). destruct (sq_cancel_go p (carry + t) rest). exact IH.
  - specialize (IH 0 ltac:(clia) H2). destruct (sq_cancel_go p 0 rest). cbn [snd] in *.
    constructor; [cbn; clia|exact IH].
Qed.

(* (the head's time may be anything) *)
Lemma sq_cancel_wf : forall p q, sq_wf q -> sq_wf (snd (sq_cancel p q)).
Proof.
  intros p [|[t n] rest] W; [exact I|]. cbn in W. unfold sq_cancel. cbn [sq_cancel_go].
  assert (G : forall carry q0, Forall (fun e => 0 <= fst e) q0 -> sq_wf (snd (sq_cancel_go p carry q0))).
  { intros carry q0. revert carry. induction q0 as [|[t1 n1] r1 IH1]; intros carry F; [exact I|].
    inversion F; subst. cbn [sq_cancel_go]. destruct (p n1).
    - specialize (IH1 (carry + t1) H2). destruct (sq_cancel_go p (carry + t1) r1). exact IH1.
    - pose proof (sq_cancel_go_wf p r1 0 ltac:(clia) H2) as X.
      destruct (sq_cancel_go p 0 r1). cbn [snd] in *. exact X. }
  destruct (p n).
  - specialize (G (0 + t) rest W). destruct (sq_cancel_go p (0 + t) rest). exact G.
  - pose proof (sq_cancel_go_wf p rest 0 ltac:(clia) W) as X.
    destruct (sq_cancel_go p 0 rest). cbn [snd] in *. exact X.
Qed.

(* ---------------------------------------------------------------- coap_adjust_basetime *)
(* moving the base time backwards (or not at all) keeps every deadline *)
Theorem sq_adjust_back : forall base q now c b' q',
  now <= base -> sq_adjust_basetime base q now = (c, b', q') ->
  c = 0 /\ b' = now /\ sq_abs b' q' = sq_abs base q.
Proof.
  intros base [|[t0 n0] rest] now c b' q' Hn H; unfold sq_adjust_basetime in H.
  - inversion H; subst. repeat split; clia.
  - assert (E : (now - base <=? 0) = true) by clia. rewrite E in H. inversion H; subst.
    repeat split; [clia|]. cbn [sq_abs].
    replace (base + (now - base) + (t0 - (now - base))) with (base + t0) by clia. reflexivity.
Qed.

(* moving it forwards does NOT: the first node that has not expired gets t = delta - t_expired
   instead of its remaining time.  One node due at 10, base 0, adjust to now = 3: due at 6.
   (coap_adjust_basetime has no caller inside the library; tests/test_sendqueue.c asserts this
   very value, so it is recorded as a finding and not repaired.) *)
Theorem sq_adjust_shifts_deadline : exists base q now c b' q',
  sq_wf q /\ base < now /\ sq_adjust_basetime base q now = (c, b', q') /\
  Forall (fun e => now < fst e) (sq_abs base q) /\
  sq_abs b' q' <> sq_abs base q.
Proof.
  exists 0, [(10, sq_mk_node 0 0 0 0 0 0 [])], 3, 0, 3, [(3, sq_mk_node 0 0 0 0 0 0 [])].
  split; [constructor|]. split; [clia|]. split; [reflexivity|]. split.
  - repeat constructor.
  - cbn. intros H. inversion H.
Qed.

(* ---------------------------------------------------------------- non-vacuity *)
Example sq_example :
  let n k s m := sq_mk_node k s m 0 2000 4 [] in
  let q := sq_insert (sq_insert (sq_insert (sq_insert [] 100 (n 1 0 1)) 30 (n 2 0 2)) 100 (n 3 1 1)) 70 (n 4 0 4) in
  q = [(30, n 2 0 2); (40, n 4 0 4); (30, n 1 0 1); (0, n 3 1 1)] /\
  map fst (sq_abs 5 q) = [35; 75; 105; 105] /\
  sq_wf q /\
  (exists e q', sq_remove q 1 1 = Some (e, q') /\ map fst (sq_abs 5 q') = [35; 75; 105]).
Proof.
  cbv zeta. split; [reflexivity|]. split; [reflexivity|]. split.
  - cbn. repeat constructor; cbn; clia.
  - eexists _, _. split; reflexivity.
Qed.

(* removal through the abstraction, in one statement: the queue's absolute view loses exactly the
   first entry of that session with that id; every other entry keeps its deadline and place *)
Theorem sq_remove_others : forall q base s m t n q',
  sq_remove q s m = Some ((t, n), q') ->
  exists l1 l2 d, sq_abs base q = l1 ++ (d, n) :: l2 /\ sq_abs base q' = l1 ++ l2 /\
    sq_match s m n = true /\ Forall (fun x => sq_match s m (snd x) = false) l1.
Proof.
  intros q base s m t n q' H. pose proof (sq_abs_remove q base s m) as V. rewrite H in V.
  cbn [sq_rm_view snd] in V.
  destruct (sq_spec_remove (sq_abs base q) s m) as [[[d n1] l']|] eqn:R; cbn in V; [|discriminate].
  inversion V; subst. destruct (sq_spec_remove_some _ _ _ _ _ R) as (l1 & l2 & E1 & E2 & M & F).
  exists l1, l2, d. cbn in M. auto.
Qed.

Theorem sq_remove_none_iff : forall q base s m,
  sq_remove q s m = None <-> Forall (fun x => sq_match s m (snd x) = false) (sq_abs base q).
Proof.
  intros q base s m. rewrite <- sq_spec_remove_none. pose proof (sq_abs_remove q base s m) as V.
  destruct (sq_remove q s m) as [[e q']|]; destruct (sq_spec_remove (sq_abs base q) s m) as [[e' l']|];
    cbn in V; try discriminate; split; intros; try discriminate; reflexivity.
Qed.

(* C06 - range of the initial retransmission timeout (proofs). *)
From LibcoapV Require Import Base.Tactics Sched.FixedPoint.
Local Open Scope Z_scope.

Lemma fp_u32_small : forall x, 0 <= x < 4294967296 -> fp_u32 x = x.
Proof. intros; unfold fp_u32; apply Z.mod_small; lia. Qed.

Lemma fp_u64_small : forall x, 0 <= x < 18446744073709551616 -> fp_u64 x = x.
Proof. intros; unfold fp_u64; apply Z.mod_small; lia. Qed.

Lemma fp_Q_ok : forall ip fp, fp_setting_ok ip fp ->
  fp_Q ip fp = fp_Qraw ip fp /\ 64 <= fp_Q ip fp <= 4194304.
Proof.
  unfold fp_setting_ok, fp_Q, fp_u32, fp_Qraw, fp_one; intros ip fp (Hi & Hf).
  assert (0 <= (64 * fp + 500) / 1000 <= 64) by lia.
  rewrite Z.mod_small by lia. lia.
Qed.

(* the quantisation of a setting to 1/64: |Q/64 - setting| <= 1/128, in integers *)
Lemma fp_Q_quant : forall ip fp, fp_setting_ok ip fp ->
  -500 < 1000 * fp_Q ip fp - 64 * fp_ms ip fp <= 500.
Proof.
  intros ip fp H. destruct (fp_Q_ok ip fp H) as [E _]. rewrite E.
  unfold fp_setting_ok, fp_Qraw, fp_ms, fp_one in *. lia.
Qed.

(* settings with a fractional part that is a multiple of 1/8 are represented exactly *)
Lemma fp_Q_exact : forall ip fp, fp_setting_ok ip fp -> fp mod 125 = 0 ->
  1000 * fp_Q ip fp = 64 * fp_ms ip fp.
Proof.
  intros ip fp H M. destruct (fp_Q_ok ip fp H) as [E _]. rewrite E.
  unfold fp_setting_ok, fp_Qraw, fp_ms, fp_one in *. lia.
Qed.

(* step 1 stays between 0 and F - 64 *)
Lemma fp_step1_range : forall F r, 64 <= F -> 0 <= r <= 255 ->
  0 <= fp_shr8 ((F - fp_one) * r) <= F - 64.
Proof.
  intros F r HF Hr. unfold fp_shr8, fp_one.
  assert (0 <= (F - 64) * r) by (apply Z.mul_nonneg_nonneg; lia).
  assert ((F - 64) * r <= (F - 64) * 255) by (apply Z.mul_le_mono_nonneg_l; lia).
  split.
  - apply Z.div_pos; lia.
  - assert (((F - 64) * r + 128) / 256 < F - 64 + 1) by (apply Z.div_lt_upper_bound; lia). lia.
Qed.

Lemma fp_step1_mono : forall F r r', 64 <= F -> 0 <= r <= r' ->
  fp_shr8 ((F - fp_one) * r) <= fp_shr8 ((F - fp_one) * r').
Proof.
  intros. unfold fp_shr8, fp_one. apply Z.div_le_mono; [lia|].
  assert ((F - 64) * r <= (F - 64) * r') by (apply Z.mul_le_mono_nonneg_l; lia). lia.
Qed.

(* the unwrapped form of the computation *)
Definition fp_calc_plain (A F r : Z) : Z :=
  fp_shr6 (fp_tps * fp_shr6 ((fp_shr8 ((F - fp_one) * r) + fp_one) * A)).

Lemma fp_calc_plain_bounds : forall A F r,
  64 <= A <= 4194304 -> 64 <= F <= 4194304 -> 0 <= r <= 255 ->
  0 <= fp_calc_plain A F r < 18446744073709551616.
Proof.
  intros A F r HA HF Hr. unfold fp_calc_plain.
  pose proof (fp_step1_range F r ltac:(lia) Hr) as H1.
  set (s := fp_shr8 ((F - fp_one) * r)) in *. unfold fp_one, fp_shr6, fp_tps in *.
  assert (Hp : 0 <= (s + 64) * A <= 4194304 * 4194304).
  { split; [apply Z.mul_nonneg_nonneg; lia|]. apply Z.mul_le_mono_nonneg; lia. }
  set (m := ((s + 64) * A + 32) / 64).
  assert (Hm : 0 <= m <= 274877906945).
  { unfold m; split; [apply Z.div_pos; lia|]. apply Z.div_le_upper_bound; lia. }
  split; [apply Z.div_pos; lia|]. apply Z.div_lt_upper_bound; lia.
Qed.

(* no step wraps; the result is the plain value, saturated at UINT_MAX *)
Lemma fp_calc_q_plain : forall A F r,
  64 <= A <= 4194304 -> 64 <= F <= 4194304 -> 0 <= r <= 255 ->
  fp_calc_q A F r = Z.min (fp_calc_plain A F r) fp_uint_max.
Proof.
  intros A F r HA HF Hr. unfold fp_calc_q.
  pose proof (fp_step1_range F r ltac:(lia) Hr) as H1.
  pose proof (fp_calc_plain_bounds A F r HA HF Hr) as HB. unfold fp_calc_plain in *.
  unfold fp_shr8, fp_shr6, fp_one, fp_tps in *.
  rewrite (fp_u32_small (F - 64)) by lia.
  assert (H0 : 0 <= (F - 64) * r <= 4194304 * 255).
  { split; [apply Z.mul_nonneg_nonneg; lia|]. apply Z.mul_le_mono_nonneg; lia. }
  rewrite (fp_u64_small ((F - 64) * r)) by lia.
  rewrite (fp_u64_small ((F - 64) * r + 128)) by lia.
  set (s := ((F - 64) * r + 128) / 256) in *.
  rewrite (fp_u64_small (s + 64)) by lia.
  assert (Hp : 0 <= (s + 64) * A <= 4194304 * 4194304).
  { split; [apply Z.mul_nonneg_nonneg; lia|]. apply Z.mul_le_mono_nonneg; lia. }
  rewrite (fp_u64_small ((s + 64) * A)) by lia.
  rewrite (fp_u64_small ((s + 64) * A + 32)) by lia.
  set (m := ((s + 64) * A + 32) / 64) in *.
  assert (Hm : 0 <= m <= 274877906945).
  { unfold m; split; [apply Z.div_pos; lia|]. apply Z.div_le_upper_bound; lia. }
  rewrite (fp_u64_small (1000 * m)) by lia.
  rewrite (fp_u64_small (1000 * m + 32)) by lia.
  unfold fp_uint_max. destruct (4294967295 <? (1000 * m + 32) / 64) eqn:E; lia.
Qed.

Lemma fp_calc_plain_mono : forall A F r r', 0 <= A -> 64 <= F -> 0 <= r <= r' ->
  fp_calc_plain A F r <= fp_calc_plain A F r'.
Proof.
  intros A F r r' HA HF Hr. unfold fp_calc_plain.
  pose proof (fp_step1_mono F r r' HF Hr) as H1.
  set (s := fp_shr8 ((F - fp_one) * r)) in *. set (s' := fp_shr8 ((F - fp_one) * r')) in *.
  unfold fp_shr6, fp_tps, fp_one. apply Z.div_le_mono; [lia|].
  assert ((s + 64) * A <= (s' + 64) * A) by (apply Z.mul_le_mono_nonneg_r; lia).
  assert (((s + 64) * A + 32) / 64 <= ((s' + 64) * A + 32) / 64) by (apply Z.div_le_mono; lia).
  lia.
Qed.

Lemma fp_calc_plain_0 : forall A F, fp_calc_plain A F 0 = fp_lo A.
Proof.
  intros. unfold fp_calc_plain, fp_lo, fp_ticks. rewrite Z.mul_0_r.
  unfold fp_shr8, fp_one. change ((0 + 128) / 256) with 0.
  f_equal. f_equal. unfold fp_shr6. lia.
Qed.

Lemma fp_calc_plain_le_hi : forall A F r, 0 <= A -> 64 <= F -> 0 <= r <= 255 ->
  fp_calc_plain A F r <= fp_hi A F.
Proof.
  intros A F r HA HF Hr. unfold fp_calc_plain, fp_hi, fp_ticks, fp_mulq.
  pose proof (fp_step1_range F r HF Hr) as H1.
  set (s := fp_shr8 ((F - fp_one) * r)) in *.
  unfold fp_shr6, fp_tps, fp_one. apply Z.div_le_mono; [lia|].
  assert ((s + 64) * A <= F * A) by (apply Z.mul_le_mono_nonneg_r; lia).
  assert (((s + 64) * A + 32) / 64 <= (F * A + 32) / 64) by (apply Z.div_le_mono; lia).
  lia.
Qed.

(* r = 255 reaches the upper end whenever the factor is at most 3.0 *)
Lemma fp_calc_plain_255 : forall A F, 64 <= F <= 192 -> fp_calc_plain A F 255 = fp_hi A F.
Proof.
  intros A F HF. unfold fp_calc_plain, fp_hi, fp_ticks, fp_mulq.
  assert (E : fp_shr8 ((F - fp_one) * 255) = F - 64) by (unfold fp_shr8, fp_one; lia).
  rewrite E. unfold fp_one. replace (F - 64 + 64) with F by lia. reflexivity.
Qed.

Lemma fp_lo_small : forall A, 0 <= A <= 4194304 -> 0 <= fp_lo A <= 65536032.
Proof.
  intros A HA. unfold fp_lo, fp_ticks, fp_shr6, fp_tps. split; [apply Z.div_pos; lia|].
  apply Z.div_le_upper_bound; lia.
Qed.

Lemma fp_hi_small : forall A F, 0 <= A <= 4194304 -> 64 <= F <= 192 -> 0 <= fp_hi A F <= 196608048.
Proof.
  intros A F HA HF. unfold fp_hi, fp_ticks, fp_mulq, fp_shr6, fp_tps.
  assert (0 <= F * A <= 192 * 4194304) by (split; [apply Z.mul_nonneg_nonneg; lia|apply Z.mul_le_mono_nonneg; lia]).
  assert (0 <= (F * A + 32) / 64 <= 12582913) by (split; [apply Z.div_pos; lia|apply Z.div_le_upper_bound; lia]).
  split; [apply Z.div_pos; lia|]. apply Z.div_le_upper_bound; lia.
Qed.

(* ---- the range theorem on the settings: ALL settings the setters accept ---- *)
Theorem fp_timeout_range : forall at_ip at_fp arf_ip arf_fp r,
  fp_setting_ok at_ip at_fp -> fp_setting_ok arf_ip arf_fp -> 0 <= r <= 255 ->
  let A := fp_Q at_ip at_fp in
  let F := fp_Q arf_ip arf_fp in
  let T := fp_calc_timeout at_ip at_fp arf_ip arf_fp r in
  (* between the two ends computed from the quantised settings ... *)
  fp_lo A <= T <= fp_hi A F /\
  (* ... which are ACK_TIMEOUT and ACK_TIMEOUT * ACK_RANDOM_FACTOR up to the 1/64 quantisation
     of each setting and the rounding to a tick, in ms *)
  fp_ms at_ip at_fp - 8 <= fp_lo A <= fp_ms at_ip at_fp + 8 /\
  1000 * fp_hi A F <= (fp_ms at_ip at_fp + 8) * (fp_ms arf_ip arf_fp + 8) + 8313 /\
  (* the lower end is taken at r = 0 *)
  fp_calc_timeout at_ip at_fp arf_ip arf_fp 0 = fp_lo A /\
  (* the upper end at r = 255 (for factors up to 3.0; above, the largest value is below it),
     and T is the unsaturated value unless it exceeds UINT_MAX ticks (49.7 days) *)
  (F <= 192 -> fp_calc_timeout at_ip at_fp arf_ip arf_fp 255 = fp_hi A F) /\
  T = Z.min (fp_calc_plain A F r) fp_uint_max.
Proof.
  intros at_ip at_fp arf_ip arf_fp r Ha Hf Hr A F T.
  destruct (fp_Q_ok _ _ Ha) as [_ HA]. destruct (fp_Q_ok _ _ Hf) as [_ HF].
  pose proof (fp_Q_quant _ _ Ha) as QA. pose proof (fp_Q_quant _ _ Hf) as QF.
  fold A in HA, QA. fold F in HF, QF.
  unfold T, fp_calc_timeout. fold A F.
  rewrite (fp_calc_q_plain A F r HA HF Hr).
  rewrite (fp_calc_q_plain A F 0 HA HF ltac:(lia)).
  rewrite (fp_calc_q_plain A F 255 HA HF ltac:(lia)).
  pose proof (fp_lo_small A ltac:(lia)) as LS.
  assert (L0 : fp_lo A <= fp_calc_plain A F r).
  { rewrite <- (fp_calc_plain_0 A F). apply fp_calc_plain_mono; lia. }
  pose proof (fp_calc_plain_le_hi A F r ltac:(lia) ltac:(lia) Hr) as LH.
  unfold fp_uint_max.
  split; [lia|]. split; [unfold fp_lo, fp_ticks, fp_shr6, fp_tps; lia|]. split.
  - unfold fp_hi, fp_ticks, fp_mulq, fp_shr6, fp_tps.
    set (ma := fp_ms at_ip at_fp) in *. set (mf := fp_ms arf_ip arf_fp) in *.
    assert (Hprod : 1000 * F * (1000 * A) <= (64 * mf + 500) * (64 * ma + 500)).
    { apply Z.mul_le_mono_nonneg; lia. }
    assert (H64 : 64 * ((F * A + 32) / 64) <= F * A + 32) by lia.
    assert (H64' : 64 * ((1000 * ((F * A + 32) / 64) + 32) / 64) <= 1000 * ((F * A + 32) / 64) + 32) by lia.
    set (x := (F * A + 32) / 64) in *. set (y := (1000 * x + 32) / 64) in *.
    nia.
  - split; [rewrite fp_calc_plain_0; lia|]. split; [|reflexivity].
    intros HF3. rewrite fp_calc_plain_255 by lia.
    pose proof (fp_hi_small A F ltac:(lia) ltac:(lia)). lia.
Qed.

(* settings representable in Q.6 (fractional parts that are multiples of .125): exactly
   ACK_TIMEOUT at the lower end, and ACK_TIMEOUT * ACK_RANDOM_FACTOR up to the rounding of the
   product to 1/64 s and to a tick at the upper end *)
Theorem fp_timeout_range_exact : forall at_ip at_fp arf_ip arf_fp r,
  fp_setting_ok at_ip at_fp -> fp_setting_ok arf_ip arf_fp -> 0 <= r <= 255 ->
  at_fp mod 125 = 0 -> arf_fp mod 125 = 0 ->
  let T := fp_calc_timeout at_ip at_fp arf_ip arf_fp r in
  fp_ms at_ip at_fp <= T /\
  1000 * T <= fp_ms at_ip at_fp * fp_ms arf_ip arf_fp + 8313 /\
  fp_calc_timeout at_ip at_fp arf_ip arf_fp 0 = fp_ms at_ip at_fp.
Proof.
  intros at_ip at_fp arf_ip arf_fp r Ha Hf Hr Ma Mf T.
  destruct (fp_timeout_range _ _ _ _ r Ha Hf Hr) as (B & _ & _ & E0 & _ & _).
  fold T in B. destruct (fp_Q_ok _ _ Ha) as [_ HA]. destruct (fp_Q_ok _ _ Hf) as [_ HF].
  pose proof (fp_Q_exact _ _ Ha Ma) as XA. pose proof (fp_Q_exact _ _ Hf Mf) as XF.
  set (A := fp_Q at_ip at_fp) in *. set (F := fp_Q arf_ip arf_fp) in *.
  set (ma := fp_ms at_ip at_fp) in *. set (mf := fp_ms arf_ip arf_fp) in *.
  assert (L : fp_lo A = ma) by (unfold fp_lo, fp_ticks, fp_shr6, fp_tps; lia).
  repeat split.
  - lia.
  - destruct B as [_ B]. unfold fp_hi, fp_ticks, fp_mulq, fp_shr6, fp_tps in B.
    assert (Hprod : 1000 * F * (1000 * A) = (64 * mf) * (64 * ma)) by (rewrite XA, XF; reflexivity).
    set (x := (F * A + 32) / 64) in *. set (y := (1000 * x + 32) / 64) in *.
    assert (64 * x <= F * A + 32) by (unfold x; lia).
    assert (64 * y <= 1000 * x + 32) by (unfold y; lia).
    nia.
  - rewrite E0. exact L.
Qed.

(* ---- the defaults ACK_TIMEOUT = 2.0, ACK_RANDOM_FACTOR = 1.5: every byte, by computation ---- *)
Fixpoint fp_all_from (n : nat) (r : Z) (p : Z -> bool) : bool :=
  match n with O => true | S k => p r && fp_all_from k (r + 1) p end.

Lemma fp_all_from_spec : forall n r p, fp_all_from n r p = true ->
  forall x, r <= x < r + Z.of_nat n -> p x = true.
Proof.
  induction n; intros r p H x Hx; [lia|]. cbn [fp_all_from] in H.
  apply andb_true_iff in H. destruct H as [H0 H1].
  destruct (Z.eq_dec x r); [subst; auto|]. apply (IHn (r + 1) p H1). lia.
Qed.

Theorem fp_timeout_default : forall r, 0 <= r <= 255 ->
  2000 <= fp_calc_timeout 2 0 1 500 r <= 3000.
Proof.
  intros r Hr.
  assert (H : fp_all_from 256 0 (fun r => (2000 <=? fp_calc_timeout 2 0 1 500 r) &&
                                          (fp_calc_timeout 2 0 1 500 r <=? 3000)) = true)
    by (vm_compute; reflexivity).
  pose proof (fp_all_from_spec _ _ _ H r ltac:(lia)) as P. cbv beta in P. lia.
Qed.

Lemma fp_timeout_default_ends :
  fp_calc_timeout 2 0 1 500 0 = 2000 /\ fp_calc_timeout 2 0 1 500 255 = 3000.
Proof. split; vm_compute; reflexivity. Qed.

(* non-vacuity of fp_setting_ok, and what it excludes *)
Lemma fp_setting_ok_default : fp_setting_ok 2 0 /\ fp_setting_ok 1 500.
Proof. unfold fp_setting_ok. lia. Qed.

(* Before the repair the Q.6 values were cast to uint16_t: a timeout of 1024.000 s became Q.6
   value 0 and every message got T = 0 ticks. *)
Theorem fp_timeout_range_old_refuted : exists at_ip at_fp arf_ip arf_fp r,
  fp_setting_ok at_ip at_fp /\ fp_setting_ok arf_ip arf_fp /\ 0 <= r <= 255 /\
  fp_calc_timeout_old at_ip at_fp arf_ip arf_fp r < fp_ms at_ip at_fp - 8.
Proof. exists 1024, 0, 1, 500, 255. unfold fp_setting_ok. vm_compute. repeat split; discriminate. Qed.

(* ... while for settings whose Q.6 value fits 16 bits the old and the new function agree *)
Lemma fp_calc_old_eq : forall at_ip at_fp arf_ip arf_fp r,
  fp_setting_ok at_ip at_fp -> fp_setting_ok arf_ip arf_fp -> 0 <= r <= 255 ->
  fp_Qraw at_ip at_fp < 65536 -> fp_Qraw arf_ip arf_fp < 65536 ->
  fp_calc_timeout_old at_ip at_fp arf_ip arf_fp r = fp_calc_timeout at_ip at_fp arf_ip arf_fp r.
Proof.
  intros at_ip at_fp arf_ip arf_fp r Ha Hf Hr Sa Sf.
  destruct (fp_Q_ok _ _ Ha) as [Ea HA]. destruct (fp_Q_ok _ _ Hf) as [Ef HF].
  unfold fp_calc_timeout_old, fp_calc_timeout.
  assert (Oa : fp_Q_old at_ip at_fp = fp_Q at_ip at_fp).
  { rewrite Ea. unfold fp_Q_old, fp_u16. rewrite Z.mod_small; [reflexivity|]. rewrite <- Ea. lia. }
  assert (Of : fp_Q_old arf_ip arf_fp = fp_Q arf_ip arf_fp).
  { rewrite Ef. unfold fp_Q_old, fp_u16. rewrite Z.mod_small; [reflexivity|]. rewrite <- Ef. lia. }
  rewrite Oa, Of. set (A := fp_Q at_ip at_fp) in *. set (F := fp_Q arf_ip arf_fp) in *.
  rewrite (fp_calc_q_plain A F r HA HF Hr).
  assert (HA' : 64 <= A < 65536) by lia. assert (HF' : 64 <= F < 65536) by lia.
  unfold fp_calc_q_old.
  pose proof (fp_step1_range F r ltac:(lia) Hr) as H1.
  set (s := fp_shr8 ((F - fp_one) * r)) in *.
  rewrite (fp_u32_small s) by lia. unfold fp_one in *.
  rewrite (fp_u32_small (s + 64)) by lia.
  assert (Hp : 0 <= (s + 64) * A <= 65535 * 65535).
  { split; [apply Z.mul_nonneg_nonneg; lia|]. apply Z.mul_le_mono_nonneg; lia. }
  rewrite (fp_u32_small ((s + 64) * A)) by lia.
  rewrite (fp_u32_small ((s + 64) * A + 32)) by lia.
  unfold fp_calc_plain. fold s. unfold fp_one, fp_shr6, fp_tps, fp_uint_max.
  set (m := ((s + 64) * A + 32) / 64).
  assert (Hm : 0 <= m <= 67106817).
  { unfold m; split; [apply Z.div_pos; lia|]. apply Z.div_le_upper_bound; lia. }
  assert (0 <= (1000 * m + 32) / 64 < 4294967296).
  { split; [apply Z.div_pos; lia|]. apply Z.div_lt_upper_bound; lia. }
  rewrite fp_u32_small by lia. lia.
Qed.

Lemma fp_setting_ok_nonvacuous :
  fp_setting_ok 2 0 /\ fp_setting_ok 1 500 /\
  (forall ip fp, fp_setting_ok ip fp <-> (0 < ip < 65536 /\ 0 <= fp < 1000)).
Proof. unfold fp_setting_ok. repeat split; lia. Qed.

Lemma fp_calc_q_nonneg : forall A F r, 0 <= fp_calc_q A F r.
Proof.
  intros. unfold fp_calc_q, fp_uint_max.
  match goal with |- context [if ?c then _ else ?x] => destruct c; [lia|] end.
  apply Z.div_pos; [|lia]. unfold fp_u64. apply Z.mod_pos_bound. lia.
Qed.

Lemma fp_calc_row_spec : forall a b c d, fp_calc_row a b c d =
  map (fun r => fp_calc_timeout a b c d r) (map Z.of_nat (seq 0 256)).
Proof.
  intros. unfold fp_calc_row, fp_calc_timeout.
  set (A := fp_Q a b). set (F := fp_Q c d).
  assert (G : forall n r, fp_row_go n A F r =
              map (fun r => fp_calc_q A F r) (map (fun k => r + Z.of_nat k) (seq 0 n))).
  { induction n; intros r; [reflexivity|].
    cbn [fp_row_go]. rewrite IHn. cbn [seq map]. f_equal; [f_equal; lia|].
    rewrite <- seq_shift, !map_map. apply map_ext. intros. f_equal. lia. }
  rewrite G. rewrite !map_map. apply map_ext. intros. reflexivity.
Qed.

(* C09 - block-wise transfer delivers the sender's body intact, once, or fails explicitly.
   Statements only; the proofs live in Block/*Proofs.v.
   Layer 1: option codec and slicing.  Layer 2: received-block ranges and reassembly.
   Layer 3 (protocol over a lossy network): Block/BlockProtoProofs.v, see the end. *)
From LibcoapV Require Import Base.Tactics Base.Bytes Block.BlockOpt Block.BlockOptProofs
  Block.Slices Block.SlicesProofs Block.RecBlocks Block.RecBlocksProofs Block.BufProofs
  Block.ReassemblyProofs Block.BlockProto Block.BlockProtoProofs.
Local Open Scope Z_scope.

(* ---------------------------------------------------------------- layer 1: option value *)
(* every (NUM < 2^20, M, SZX <= 6) survives encode + decode *)
Theorem C09_opt_roundtrip : forall num m szx,
  0 <= num < 1048576 -> 0 <= m <= 1 -> 0 <= szx <= 6 ->
  blk_get_block (blk_opt_value num m szx) = Some (num, m, szx).
Proof. exact blk_opt_roundtrip. Qed.
Print Assumptions C09_opt_roundtrip.

Theorem C09_opt_value_fits : forall num m szx,
  0 <= num < 1048576 -> 0 <= m <= 1 -> 0 <= szx <= 6 ->
  len (blk_opt_value num m szx) <= 3 /\ wfb (blk_opt_value num m szx).
Proof. exact blk_opt_value_len. Qed.
Print Assumptions C09_opt_value_fits.

(* whatever bytes arrive, an accepted option has NUM < 2^20, one M bit, SZX <= 6 (no BERT) *)
Theorem C09_opt_decode_range : forall v num m szx,
  wfb v -> blk_get_block v = Some (num, m, szx) ->
  0 <= num < 1048576 /\ 0 <= m <= 1 /\ 0 <= szx <= 6.
Proof. exact blk_get_block_range. Qed.
Print Assumptions C09_opt_decode_range.

(* block size chosen from the space left: fits, and is the largest power of two that does *)
Theorem C09_blocksize_fits : forall avail, 16 <= avail < 2 ^ 63 ->
  let s := blk_szx_for_avail avail in
  0 <= s <= 6 /\ blk_chunk s <= avail /\ (s < 6 -> avail < blk_chunk (s + 1)).
Proof. exact blk_szx_for_avail_fits. Qed.
Print Assumptions C09_blocksize_fits.

(* ---------------------------------------------------------------- layer 1: slices *)
Theorem C09_slices_tile : forall body szx, 0 <= szx ->
  concat (map (blk_slice body szx) (blk_range (blk_nblocks body szx))) = body.
Proof. exact blk_slices_concat. Qed.
Print Assumptions C09_slices_tile.

Theorem C09_slice_nonfinal_full : forall body szx k, 0 <= szx ->
  0 <= k < blk_nblocks body szx - 1 -> len (blk_slice body szx k) = blk_chunk szx.
Proof. exact blk_slice_len_nonfinal. Qed.
Print Assumptions C09_slice_nonfinal_full.

Theorem C09_slice_final : forall body szx, 0 <= szx -> 0 < len body ->
  1 <= len (blk_slice body szx (blk_nblocks body szx - 1)) <= blk_chunk szx /\
  (blk_nblocks body szx - 1) * blk_chunk szx + len (blk_slice body szx (blk_nblocks body szx - 1))
     = len body.
Proof. exact blk_slice_len_final. Qed.
Print Assumptions C09_slice_final.

Theorem C09_more_iff_not_final : forall body szx k, 0 <= szx -> 0 <= k < blk_nblocks body szx ->
  (blk_more body szx k = true <-> k < blk_nblocks body szx - 1).
Proof. exact blk_more_iff. Qed.
Print Assumptions C09_more_iff_not_final.

Theorem C09_slice_offset : forall body szx k i d, 0 <= szx -> 0 <= k -> 0 <= i < blk_chunk szx ->
  nth (Z.to_nat i) (blk_slice body szx k) d = nth (Z.to_nat (k * blk_chunk szx + i)) body d.
Proof. exact blk_slice_offset. Qed.
Print Assumptions C09_slice_offset.

(* SZX lowered by the peer: the recomputed number continues exactly where the old size stopped *)
Theorem C09_resize_offset : forall offset szx szx', 0 <= szx' -> 0 <= szx ->
  0 <= offset -> offset mod blk_chunk szx = 0 ->
  let '(num', s') := blk_resize offset szx szx' in
  (num' + 1) * blk_chunk s' = offset + blk_chunk szx /\ 0 <= num' /\
  (s' = szx' \/ (s' = szx /\ szx <= szx')).
Proof. exact blk_resize_offset. Qed.
Print Assumptions C09_resize_offset.

Theorem C09_resize_tiles : forall body szx szx' k, 0 <= szx' < szx ->
  0 <= k -> (k + 1) * blk_chunk szx <= len body ->
  let '(num', s') := blk_resize (k * blk_chunk szx) szx szx' in
  concat (map (blk_slice body szx) (blk_range (k + 1))) ++
  concat (map (blk_slice body s')
            (blk_range_from (num' + 1) (blk_nblocks body s' - (num' + 1)))) = body.
Proof. exact blk_resize_tiles. Qed.
Print Assumptions C09_resize_tiles.

(* ---------------------------------------------------------------- layer 2: ranges *)
Theorem C09_ranges_inv : forall r n, blk_inv r -> 0 <= n ->
  forall r', blk_update r n = Some r' -> blk_inv r'.
Proof. exact blk_update_inv. Qed.
Print Assumptions C09_ranges_inv.

Theorem C09_ranges_update : forall r n, blk_inv r -> 0 <= n ->
  forall r', blk_update r n = Some r' ->
  forall k, In k (blk_abs r') <-> k = n \/ In k (blk_abs r).
Proof. exact blk_update_mem. Qed.
Print Assumptions C09_ranges_update.

(* refused exactly when all usable ranges are taken and the block is isolated *)
Theorem C09_ranges_refusal : forall r n, blk_inv r -> 0 <= n ->
  (blk_update r n = None <->
   len r = blk_rblock_cnt - 1 /\ forall b e, In (b, e) r -> n + 1 < b \/ e + 1 < n).
Proof. exact blk_update_none_iff. Qed.
Print Assumptions C09_ranges_refusal.

Theorem C09_ranges_received : forall r n, blk_inv r ->
  (blk_check_received r n = true <-> In n (blk_abs r)).
Proof. exact blk_check_received_spec. Qed.
Print Assumptions C09_ranges_received.

Theorem C09_ranges_all_in : forall r total, blk_inv r -> r <> [] ->
  (forall k, In k (blk_abs r) -> k < total) ->
  (blk_check_all_in r total = true <-> forall k, 0 <= k < total -> In k (blk_abs r)).
Proof. exact blk_check_all_in_spec. Qed.
Print Assumptions C09_ranges_all_in.

(* ---------------------------------------------------------------- layer 2: reassembly *)
(* Server (Block1), coap_handle_request_put_block as repaired by /repo commits 06a7cfe and
   e2e5ed9.  [u] is the unit in which the server counts blocks (lg_srcv->szx); an arrival is
   block k of the body cut at some size s >= u (s > u only for a first block that exceeds the
   server's configured maximum, blk_srv_init_szx).  For any sequence of such arrivals (any
   order, duplicates, gaps), any content of uninitialised storage, Size1 absent or exact:
   every delivery is the body, no block is rejected, and the number of deliveries is bounded,
   for every block j, by the number of arrivals whose payload covers block j. *)
Theorem C09_reassembly_server : forall body u (junk : Z -> Z) maxszx,
  0 <= u -> 0 < len body ->
  forall (size : option Z) (l : list blk_arr),
  size = None \/ size = Some (len body) ->
  Forall (fun a => exists s k, u <= s /\ 0 <= k < blk_nblocks body s /\
                               a = blk_arr_of body s size k /\
                               blk_srv_init_szx maxszx a = u) l ->
  Forall (fun o => match o with BoDeliver d => d = body | BoReject => False | _ => True end)
         (blk_run (blk_srv_step junk maxszx) None l) /\
  forall j, 0 <= j < blk_nblocks body u ->
    blk_count_deliveries (blk_run (blk_srv_step junk maxszx) None l) <= blk_count_cover u j l.
Proof. exact blk_srv_reassembly. Qed.
Print Assumptions C09_reassembly_server.

(* Client (Block2): same; the Size2 option may be absent or exact *)
Theorem C09_reassembly_client : forall body szx (junk : Z -> Z),
  0 <= szx -> 0 < len body ->
  forall (size : option Z) (l : list blk_arr),
  size = None \/ size = Some (len body) ->
  Forall (fun a => exists k, 0 <= k < blk_nblocks body szx /\
                             a = blk_arr_of body szx size k) l ->
  Forall (fun o => match o with BoDeliver d => d = body | BoReject => False | _ => True end)
         (blk_run (blk_cli_step junk) None l) /\
  forall j, 0 <= j < blk_nblocks body szx ->
    blk_count_deliveries (blk_run (blk_cli_step junk) None l) <= blk_count_num j l.
Proof. exact blk_cli_reassembly. Qed.
Print Assumptions C09_reassembly_client.

(* every block once, in order: continuations, then exactly one delivery of the body *)
Theorem C09_inorder_server : forall body szx (junk : Z -> Z) maxszx,
  0 <= szx -> 0 < len body -> forall size, size = None \/ size = Some (len body) ->
  2 <= blk_nblocks body szx ->
  blk_srv_init_szx maxszx (blk_arr_of body szx size 0) = szx ->
  blk_run (blk_srv_step junk maxszx) None
    (map (blk_arr_of body szx size) (blk_range (blk_nblocks body szx)))
  = repeat BoContinue (Z.to_nat (blk_nblocks body szx - 1)) ++ [BoDeliver body].
Proof. exact blk_srv_inorder. Qed.
Print Assumptions C09_inorder_server.

(* size negotiation by the server (the case repaired by e2e5ed9): first block at the client's
   size s0, the rest at the server's smaller size u, no loss: exactly one delivery *)
Theorem C09_inorder_server_renegotiated : forall body u (junk : Z -> Z) maxszx,
  0 <= u -> 0 < len body -> forall size s0, size = None \/ size = Some (len body) ->
  u < s0 -> blk_srv_init_szx maxszx (blk_arr_of body s0 size 0) = u ->
  let q := 2 ^ (s0 - u) in q < blk_nblocks body u ->
  blk_run (blk_srv_step junk maxszx) None
    (blk_arr_of body s0 size 0 ::
     map (blk_arr_of body u size) (blk_range_from q (blk_nblocks body u - q)))
  = repeat BoContinue (Z.to_nat (blk_nblocks body u - q)) ++ [BoDeliver body].
Proof. exact blk_srv_inorder_renegotiated. Qed.
Print Assumptions C09_inorder_server_renegotiated.

Theorem C09_inorder_client : forall body szx (junk : Z -> Z),
  0 <= szx -> 0 < len body -> forall size, size = None \/ size = Some (len body) ->
  blk_run (blk_cli_step junk) None
    (map (blk_arr_of body szx size) (blk_range (blk_nblocks body szx)))
  = repeat BoContinue (Z.to_nat (blk_nblocks body szx - 1)) ++ [BoDeliver body].
Proof. exact blk_cli_inorder. Qed.
Print Assumptions C09_inorder_client.

(* ---------------------------------------------------------------- layer 3: protocol *)


(* Concurrent uploads on one session, told apart by (resource, Request-Tag): the outcomes
   seen by one transfer are exactly those of its own requests run alone (the lg_srcv list and
   its lookup never let another transfer's blocks in) ... *)
Theorem C09_proto_projection : forall junk maxszx l tab (t : blk_key), blk_tab_uniq tab ->
  map snd (filter (fun p => blk_key_match t (fst p)) (blk_srv_recv_run junk maxszx tab l)) =
  blk_run (blk_srv_step junk maxszx) (blk_tab_find tab t)
          (map rq_arr (filter (fun r => blk_key_match t (rq_key r)) l)).
Proof. exact blk_srv_recv_projection. Qed.
Print Assumptions C09_proto_projection.

(* ... hence, for every interleaving, loss, duplication and delay of the requests of any
   number of transfers: every body delivered for Request-Tag t is the body of transfer t, and
   it is delivered no more often than any of its blocks arrived *)
Theorem C09_proto_safety_block1 : forall (bodies : Z -> bytes) (sizes : Z -> option Z) u junk maxszx res l,
  0 <= u ->
  Forall (fun r => exists t s k, rq_rtag r = Some t /\ rq_res r = res /\
                    u <= s /\ 0 <= k < blk_nblocks (bodies t) s /\
                    rq_arr r = blk_arr_of (bodies t) s (sizes t) k /\
                    blk_srv_init_szx maxszx (rq_arr r) = u) l ->
  forall t, 0 < len (bodies t) -> sizes t = None \/ sizes t = Some (len (bodies t)) ->
  let outs := map snd (filter (fun p => blk_key_match (res, Some t) (fst p))
                         (blk_srv_recv_run junk maxszx [] l)) in
  Forall (fun o => match o with BoDeliver d => d = bodies t | BoReject => False | _ => True end) outs /\
  forall j, 0 <= j < blk_nblocks (bodies t) u ->
    blk_count_deliveries outs <=
    blk_count_cover u j (map rq_arr (filter (fun r => blk_key_match (res, Some t) (rq_key r)) l)).
Proof. exact blk_srv_no_mix. Qed.
Print Assumptions C09_proto_safety_block1.

(* the Request-Tag is what this rests on: without it two uploads to one resource mix *)
Theorem C09_proto_mix_without_rtag_refuted :
  let b1 := map (fun i => Z.of_nat i) (seq 0 40) in
  let b2 := map (fun i => 100 + Z.of_nat i) (seq 0 40) in
  let rq b k := {| rq_res := 1; rq_rtag := None; rq_arr := blk_arr_of b 0 (Some 40) k |} in
  exists d, In ((1, None), BoDeliver d)
              (blk_srv_recv_run (fun _ => 0) 0 [] [rq b1 0; rq b2 1; rq b1 2]) /\
            d <> b1 /\ d <> b2.
Proof. exact blk_srv_mix_without_rtag. Qed.
Print Assumptions C09_proto_mix_without_rtag_refuted.

(* Block2: whatever mixture of blocks of different representations (ETags) reaches the
   client, in any order, with duplicates and gaps: a delivered body is one representation,
   complete and unmixed *)
Theorem C09_proto_safety_block2 : forall (bodies : Z -> bytes) (sizes : Z -> option Z) szx junk,
  0 <= szx -> forall l,
  Forall (fun r => exists e k, rs_etag r = Some e /\
              (0 < len (bodies e) /\ (sizes e = None \/ sizes e = Some (len (bodies e)))) /\
              0 <= k < blk_nblocks (bodies e) szx /\
              rs_arr r = blk_arr_of (bodies e) szx (sizes e) k) l ->
  Forall (fun o => match o with
                   | BoDeliver d => exists e, (0 < len (bodies e) /\
                        (sizes e = None \/ sizes e = Some (len (bodies e)))) /\ d = bodies e
                   | BoReject | BoPass => False
                   | _ => True
                   end)
         (blk_cli_recv_run junk {| cr_etag := None; cr_st := None; cr_restart := false |} l).
Proof.
  intros bodies sizes szx junk Hs l Hl.
  exact (blk_cli_epochs bodies sizes szx junk Hs l Hl {| cr_etag := None; cr_st := None; cr_restart := false |} I).
Qed.
Print Assumptions C09_proto_safety_block2.

(* no datagram lost or duplicated: exactly one delivery, of the body *)
Theorem C09_lossless_complete_block1 : forall body szx junk size,
  0 <= szx -> 0 < len body -> size = None \/ size = Some (len body) ->
  forall maxszx, 2 <= blk_nblocks body szx ->
  blk_srv_init_szx maxszx (blk_arr_of body szx size 0) = szx ->
  blk_b1_loop (Z.to_nat (blk_nblocks body szx)) junk maxszx body size
    {| sn_szx := szx; sn_last := -1; sn_off := 0 |} None 0 szx
  = repeat BoContinue (Z.to_nat (blk_nblocks body szx - 1)) ++ [BoDeliver body].
Proof. exact blk_b1_lossless. Qed.
Print Assumptions C09_lossless_complete_block1.

(* ... also when the server forces its smaller block size on the first block (the client's
   renumbering, coap_handle_response_send_block, against the server's unit conversion) *)
Theorem C09_lossless_complete_block1_renegotiated : forall body u junk size,
  0 <= u -> 0 < len body -> size = None \/ size = Some (len body) ->
  forall maxszx s0, u < s0 ->
  blk_srv_init_szx maxszx (blk_arr_of body s0 size 0) = u ->
  let q := 2 ^ (s0 - u) in q < blk_nblocks body u ->
  blk_b1_loop (Z.to_nat (blk_nblocks body u)) junk maxszx body size
    {| sn_szx := s0; sn_last := -1; sn_off := 0 |} None 0 s0
  = repeat BoContinue (Z.to_nat (blk_nblocks body u - q)) ++ [BoDeliver body].
Proof. exact blk_b1_lossless_renegotiated. Qed.
Print Assumptions C09_lossless_complete_block1_renegotiated.

Theorem C09_lossless_complete_block2 : forall body szx junk size,
  0 <= szx -> 0 < len body -> size = None \/ size = Some (len body) -> forall e,
  blk_b2_loop (Z.to_nat (blk_nblocks body szx)) junk body szx size (Some e)
    {| cr_etag := None; cr_st := None; cr_restart := false |} 0
  = repeat BoContinue (Z.to_nat (blk_nblocks body szx - 1)) ++ [BoDeliver body].
Proof. exact blk_b2_lossless. Qed.
Print Assumptions C09_lossless_complete_block2.

(* non-vacuity of the closed loops: a 100-byte body, 16-byte blocks at the server (maximum
   block size 16 cannot be configured - SZX 0 means "not set" - so 32), 64-byte first block *)
Theorem C09_lossless_example :
  let body := map (fun i => Z.of_nat i mod 251) (seq 0 100) in
  blk_b1_loop 8 (fun _ => 0) 1 body (Some 100) {| sn_szx := 2; sn_last := -1; sn_off := 0 |} None 0 2
    = [BoContinue; BoContinue; BoDeliver body] /\
  blk_b2_loop 8 (fun _ => 0) body 1 (Some 100) (Some 7) {| cr_etag := None; cr_st := None; cr_restart := false |} 0
    = [BoContinue; BoContinue; BoContinue; BoDeliver body].
Proof. vm_compute. split; reflexivity. Qed.
Print Assumptions C09_lossless_example.

(* the client-side transfer state (lg_xmit of an upload, lg_crcv of a download) is kept while
   the transfer makes progress, however long the whole transfer takes *)
Theorem C09_state_kept_while_progress : forall wait l last, blk_tev_paced wait last l ->
  fst (blk_timed_run wait true last l) = true.
Proof. exact blk_timed_kept. Qed.
Print Assumptions C09_state_kept_while_progress.

(* a timer that only counts from the creation of the state cuts a paced transfer off *)
Theorem C09_state_norefresh_refuted :
  exists l, blk_tev_paced 93 0 l /\ fst (blk_timed_run_norefresh 93 true 0 l) = false.
Proof. exact blk_timed_norefresh_refuted. Qed.
Print Assumptions C09_state_norefresh_refuted.

(* Block2, server side: stored large responses are kept per (resource, query, Request-Tag) key.
   Downloads that differ in the key, interleaved in any way, restarted, continued after the
   stored body is gone: every block sent in reply to a request is cut from the body of THAT
   request's key, and at the offset the request named (when the requested size is within the
   server's maximum). *)
Theorem C09_proto_safety_block2_server : forall bodies maxszx l t, blk_xtab_ok bodies t ->
  Forall (fun gr => match snd gr with
                    | GrError _ => True
                    | GrBlock num m szx data =>
                        exists s, data = blk_slice_c (bodies (gq_key (fst gr))) (blk_chunk s) num /\
                                  num = gq_num (fst gr) /\
                                  ((maxszx = 0 \/ gq_szx (fst gr) <= maxszx) -> gq_num (fst gr) <> 0 ->
                                   s = gq_szx (fst gr) /\ szx = gq_szx (fst gr))
                    end) (blk_srv2_run bodies maxszx t l).
Proof. exact blk_srv2_no_mix. Qed.
Print Assumptions C09_proto_safety_block2_server.

From LibcoapV Require Import Base.Tactics Base.Bytes.
Local Open Scope Z_scope.

Lemma len_nonneg {A} (l : list A) : 0 <= len l.
Proof. unfold len; lia. Qed.

Lemma len_app {A} (a b : list A) : len (a ++ b) = len a + len b.
Proof. unfold len; rewrite app_length; lia. Qed.

Lemma len_cons {A} (x : A) l : len (x :: l) = 1 + len l.
Proof. unfold len; cbn [length]; lia. Qed.

Lemma len_nil {A} : len (@nil A) = 0.
Proof. reflexivity. Qed.

Lemma take_app_exact {A} (a b : list A) : take (len a) (a ++ b) = a.
Proof.
  unfold take, len. rewrite Nat2Z.id.
  rewrite firstn_app, Nat.sub_diag, firstn_all. cbn [firstn]. apply app_nil_r.
Qed.

Lemma drop_app_exact {A} (a b : list A) : drop (len a) (a ++ b) = b.
Proof.
  unfold drop, len. rewrite Nat2Z.id.
  rewrite skipn_app, Nat.sub_diag, skipn_all. reflexivity.
Qed.

Lemma take_drop {A} n (l : list A) : take n l ++ drop n l = l.
Proof. unfold take, drop. apply firstn_skipn. Qed.

Lemma len_take {A} n (l : list A) : 0 <= n <= len l -> len (take n l) = n.
Proof. unfold take, len. intros H. rewrite firstn_length. lia. Qed.

Lemma len_drop {A} n (l : list A) : 0 <= n <= len l -> len (drop n l) = len l - n.
Proof. unfold drop, len. intros H. rewrite skipn_length. lia. Qed.

Lemma wfb_app a b : wfb (a ++ b) <-> wfb a /\ wfb b.
Proof. unfold wfb. apply Forall_app. Qed.

Lemma wfb_cons x l : wfb (x :: l) <-> is_byte x /\ wfb l.
Proof. unfold wfb. split; intros H. inversion H; auto. destruct H; constructor; auto. Qed.

Lemma wfb_take n l : wfb l -> wfb (take n l).
Proof.
  intros H. rewrite <- (take_drop n l) in H. apply wfb_app in H. tauto.
Qed.

Lemma wfb_drop n l : wfb l -> wfb (drop n l).
Proof.
  intros H. rewrite <- (take_drop n l) in H. apply wfb_app in H. tauto.
Qed.

Lemma wfbb_spec l : wfbb l = true <-> wfb l.
Proof.
  unfold wfbb, wfb. rewrite forallb_forall, Forall_forall.
  unfold is_byteb, is_byte. split; intros H x Hx; specialize (H x Hx); lia.
Qed.

(* Arithmetic set-up shared by all proof files. *)
From Coq Require Export ZArith List Lia Bool.
From Coq Require Export ZifyBool ZifyNat.
Export ListNotations.
Ltac Zify.zify_post_hook ::= Z.div_mod_to_equations.

(* destruct the first boolean comparison found in an [if] of the goal *)
Ltac case_if :=
  match goal with
  | |- context [if ?b then _ else _] => let E := fresh "E" in destruct b eqn:E
  end.
Ltac case_if_in H :=
  match type of H with
  | context [if ?b then _ else _] => let E := fresh "E" in destruct b eqn:E
  end.

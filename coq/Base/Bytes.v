(* Bytes are integers in [0,256); byte strings are lists. Lengths and indices are Z. *)
From Coq Require Import ZArith List.
Import ListNotations.
Local Open Scope Z_scope.

Definition byte := Z.
Definition bytes := list Z.

Definition is_byte (b : Z) : Prop := 0 <= b < 256.
Definition wfb (l : bytes) : Prop := Forall is_byte l.
Definition is_byteb (b : Z) : bool := (0 <=? b) && (b <? 256).
Definition wfbb (l : bytes) : bool := forallb is_byteb l.

Definition len {A} (l : list A) : Z := Z.of_nat (length l).
Definition take {A} (n : Z) (l : list A) : list A := firstn (Z.to_nat n) l.
Definition drop {A} (n : Z) (l : list A) : list A := skipn (Z.to_nat n) l.

(* big-endian encodings of fixed width *)
Definition be16 (x : Z) : bytes := [(x / 256) mod 256; x mod 256].
Definition be32 (x : Z) : bytes :=
  [(x / 16777216) mod 256; (x / 65536) mod 256; (x / 256) mod 256; x mod 256].

(* C18 - the PDU builder with an allocation oracle.
   Wire/Build.v models coap_pdu_init / coap_add_token / coap_add_option / coap_add_data on the
   abstract message under the assumption that memory is available.  Here the same operations
   are modelled together with the buffer accounting of coap_pdu_check_resize / coap_pdu_resize
   (alloc_size: 256, doubling, capped by max_size; coap_add_data asks for the exact size) and
   an oracle [fails : nat -> bool] that decides for the n-th allocation attempt (coap_malloc_type
   in coap_pdu_init, coap_realloc_type in coap_pdu_resize) whether it returns NULL.
   Definitions only; theorems in PduAtomicProofs.v. *)
From Coq Require Import ZArith List Bool.
From LibcoapV Require Import Base.Bytes Wire.OptCodec Wire.Pdu Wire.Build.
Import ListNotations.
Local Open Scope Z_scope.

Record fa_pdu := mkFaPdu { fp_pdu : pdu; fp_alloc : Z }.

(* allocation context: the failure pattern and the number of attempts made so far *)
Definition fa_try (fails : nat -> bool) (n : nat) : bool * nat := (negb (fails n), S n).

(* new_size = max(256, alloc_size * 2); while (size > new_size) new_size *= 2; *)
Fixpoint fa_grow (fuel : nat) (new size : Z) : Z :=
  match fuel with
  | O => new
  | S f => if new <? size then fa_grow f (new * 2) size else new
  end.

Definition fa_first_size (alloc size : Z) : Z :=
  fa_grow (S (Z.to_nat size)) (Z.max 256 (alloc * 2)) size.

(* coap_pdu_resize: (ok, new alloc_size, attempts) *)
Definition fa_resize (fails : nat -> bool) (n : nat) (mx alloc new : Z) : bool * Z * nat :=
  if alloc <? new then
    if negb (mx =? 0) && (mx <? new) then (false, alloc, n)
    else let (ok, n1) := fa_try fails n in
         if ok then (true, new, n1) else (false, alloc, n1)
  else (true, new, n).      (* pdu->alloc_size = new_size even when nothing is reallocated *)

(* coap_pdu_check_resize *)
Definition fa_check_resize (fails : nat -> bool) (n : nat) (mx alloc size : Z) : bool * Z * nat :=
  if alloc <? size then
    let new := fa_first_size alloc size in
    let new := if negb (mx =? 0) && (mx <? new) then mx else new in
    if new <? size then (false, alloc, n)
    else fa_resize fails n mx alloc new
  else (true, alloc, n).

Definition fa_max_init : Z := 8 * 1024 * 1024 + 256 - 6.

(* coap_pdu_init: the PDU structure, then the buffer *)
Definition fa_pdu_init (fails : nat -> bool) (n : nat) (ty code mid size : Z)
  : option fa_pdu * nat :=
  let (ok1, n1) := fa_try fails n in
  if negb ok1 then (None, n1) else
  if fa_max_init <? size then (None, n1) else
  let (ok2, n2) := fa_try fails n1 in
  if negb ok2 then (None, n2) else
  (Some (mkFaPdu (pdu_init ty code mid size) (Z.min size 256)), n2).

Definition fa_set_alloc (p : fa_pdu) (a : Z) : fa_pdu := mkFaPdu (fp_pdu p) a.

(* coap_add_option_internal / coap_insert_option without the implicit Hop-Limit step: the
   refusal rules and the size come from Build.add_opt_raw's definitions *)
Definition fa_add_opt_raw (fails : nat -> bool) (n : nat) (p : fa_pdu) (num : Z) (v : bytes)
  : bool * fa_pdu * nat :=
  let q := fp_pdu p in
  let m := p_msg q in
  let mx := last_num (m_opts m) in
  if (num =? mx) && negb (repeatable num) then (false, p, n) else
  let prev := if num <? mx then prev_num num 0 (m_opts m) else mx in
  let sz := opt_encode_size (num - prev) (len v) in
  let '(ok, a, n1) := fa_check_resize fails n (p_max q) (fp_alloc p) (used m + sz) in
  if ok then (true, mkFaPdu (set_opts q (insert_opt num v (m_opts m))) a, n1)
  else (false, fa_set_alloc p a, n1).

Definition fa_hop_step (q : pdu) (num : Z) : bool :=
  is_request (m_code (p_msg q)) && ((num =? 35) || (num =? 39)) &&
  negb (has_opt 16 (m_opts (p_msg q))).

Definition fa_apply_op (fails : nat -> bool) (n : nat) (p : fa_pdu) (o : bop)
  : bool * fa_pdu * nat :=
  let q := fp_pdu p in
  let m := p_msg q in
  match o with
  | OpToken t =>
      if negb (used m =? 0) then (false, p, n) else
      if 65804 <? len t then (false, p, n) else
      let '(ok, a, n1) := fa_check_resize fails n (p_max q) (fp_alloc p) (len (token_area t)) in
      if ok then
        (true, mkFaPdu (mkPdu (mkMsg (m_type m) (m_code m) (m_mid m) t (m_opts m) (m_payload m))
                              (p_max q)) a, n1)
      else (false, fa_set_alloc p a, n1)
  | OpOpt num v =>
      match m_payload m with
      | _ :: _ => (false, p, n)
      | [] =>
          let mx := last_num (m_opts m) in
          if (num =? mx) && negb (repeatable num) then (false, p, n) else
          if fa_hop_step q num then
            (* coap_insert_option(Hop-Limit): its result is ignored *)
            let '(_, p1, n1) := fa_add_opt_raw fails n p 16 [16] in
            fa_add_opt_raw fails n1 p1 num v
          else fa_add_opt_raw fails n p num v
      end
  | OpData d =>
      match d with
      | [] => (true, p, n)
      | _ =>
          match m_payload m with
          | _ :: _ => (false, p, n)
          | [] =>
              let '(ok, a, n1) := fa_resize fails n (p_max q) (fp_alloc p) (used m + len d + 1) in
              if ok then
                (true, mkFaPdu (mkPdu (mkMsg (m_type m) (m_code m) (m_mid m) (m_token m) (m_opts m) d)
                                      (p_max q)) a, n1)
              else (false, fa_set_alloc p a, n1)
          end
      end
  end.

Fixpoint fa_run_ops (fails : nat -> bool) (n : nat) (p : fa_pdu) (ops : list bop)
  : list bool * fa_pdu * nat :=
  match ops with
  | [] => ([], p, n)
  | o :: tl =>
      let '(r, p1, n1) := fa_apply_op fails n p o in
      let '(rs, p2, n2) := fa_run_ops fails n1 p1 tl in
      (r :: rs, p2, n2)
  end.

(* failure pattern given as the list of (0-based) attempt indices that fail *)
Definition fa_fails_of (ks : list nat) : nat -> bool := fun n => existsb (Nat.eqb n) ks.

(* what the buffer accounting must preserve *)
Definition fa_inv (p : fa_pdu) : Prop :=
  0 <= fp_alloc p /\ (p_max (fp_pdu p) <> 0 -> fp_alloc p <= p_max (fp_pdu p)).

(* C18 - the allocation-trace oracle.
   The allocator shim (harness/common/fa_alloc.h) logs every call of coap_malloc_type /
   coap_realloc_type / coap_free_type as one event; block identities are sequence numbers of
   successful allocations (id 0 / negative = a pointer the allocator never handed out).
   [fa_verdict] replays the trace over the set of live blocks.  Definitions only; the
   correctness theorem (verdict = FaClean <-> declarative specification) is in
   AllocOracleProofs.v. *)
From Coq Require Import ZArith List Bool.
Import ListNotations.
Local Open Scope Z_scope.

Inductive fa_ev :=
| FaAlloc (id : Z)              (* malloc returned block id *)
| FaAllocFail                   (* malloc returned NULL *)
| FaFree (id : Z)               (* free(p), p <> NULL *)
| FaFreeNull                    (* free(NULL) *)
| FaRealloc (old new : Z)       (* realloc(old) returned block new; old = 0: realloc(NULL, n) *)
| FaReallocFail (old : Z).      (* realloc(old) returned NULL: old is untouched *)

Inductive fa_result :=
| FaClean
| FaLeak (ids : list Z)         (* blocks still allocated at the end *)
| FaDoubleFree (id : Z)         (* released (or re-allocated from) after it was released *)
| FaBadFree (id : Z)            (* released without ever having been allocated *)
| FaBadRealloc (id : Z)         (* failed realloc of a block that is not live *)
| FaIllFormed (id : Z).         (* the shim handed out an id twice / a non-positive id *)

Definition fa_mem (i : Z) (l : list Z) : bool := existsb (Z.eqb i) l.

Fixpoint fa_remove (i : Z) (l : list Z) : list Z :=
  match l with
  | [] => []
  | x :: tl => if x =? i then tl else x :: fa_remove i tl
  end.

(* state: live blocks, every id handed out so far *)
Definition fa_state := (list Z * list Z)%type.

Definition fa_alloc_id (st : fa_state) (i : Z) : fa_state + fa_result :=
  let (live, seen) := st in
  if (i <=? 0) || fa_mem i seen then inr (FaIllFormed i) else inl (i :: live, i :: seen).

Definition fa_free_id (st : fa_state) (i : Z) : fa_state + fa_result :=
  let (live, seen) := st in
  if fa_mem i live then inl (fa_remove i live, seen)
  else if fa_mem i seen then inr (FaDoubleFree i) else inr (FaBadFree i).

Definition fa_step (st : fa_state) (e : fa_ev) : fa_state + fa_result :=
  match e with
  | FaAlloc i => fa_alloc_id st i
  | FaAllocFail => inl st
  | FaFree i => fa_free_id st i
  | FaFreeNull => inl st
  | FaRealloc o n =>
      if o =? 0 then fa_alloc_id st n
      else match fa_free_id st o with
           | inl st1 => fa_alloc_id st1 n
           | inr r => inr r
           end
  | FaReallocFail o =>
      if o =? 0 then inl st
      else if fa_mem o (fst st) then inl st else inr (FaBadRealloc o)
  end.

Fixpoint fa_run (st : fa_state) (tr : list fa_ev) : fa_result :=
  match tr with
  | [] => match fst st with [] => FaClean | l => FaLeak l end
  | e :: tl => match fa_step st e with
               | inl st1 => fa_run st1 tl
               | inr r => r
               end
  end.

Definition fa_verdict (tr : list fa_ev) : fa_result := fa_run ([], []) tr.

(* ---- the declarative reading of a trace *)
Definition fa_ev_allocs (e : fa_ev) : list Z :=
  match e with FaAlloc i => [i] | FaRealloc _ n => [n] | _ => [] end.
Definition fa_ev_frees (e : fa_ev) : list Z :=
  match e with
  | FaFree i => [i]
  | FaRealloc o _ => if o =? 0 then [] else [o]
  | _ => []
  end.
(* blocks an event needs to be live without releasing them *)
Definition fa_ev_uses (e : fa_ev) : list Z :=
  match e with FaReallocFail o => if o =? 0 then [] else [o] | _ => [] end.

Definition fa_allocs (tr : list fa_ev) : list Z := flat_map fa_ev_allocs tr.
Definition fa_frees (tr : list fa_ev) : list Z := flat_map fa_ev_frees tr.

(* "allocated earlier and not released earlier" *)
Definition fa_live_after (pre : list fa_ev) (i : Z) : Prop :=
  In i (fa_allocs pre) /\ ~ In i (fa_frees pre).

Record fa_spec (tr : list fa_ev) : Prop := {
  (* the shim's ids are positive and never handed out twice *)
  fa_sp_fresh : forall pre e post i, tr = pre ++ e :: post -> In i (fa_ev_allocs e) ->
                  0 < i /\ ~ In i (fa_allocs pre);
  (* every release (free, or the old block of a successful realloc) hits a block that was
     allocated before (no wild free) and not released before (no double free) *)
  fa_sp_free : forall pre e post i, tr = pre ++ e :: post -> In i (fa_ev_frees e) ->
                  fa_live_after pre i;
  (* realloc chains: a failing realloc is applied to a live block, which stays live *)
  fa_sp_use : forall pre e post i, tr = pre ++ e :: post -> In i (fa_ev_uses e) ->
                  fa_live_after pre i;
  (* no leak: every allocated block is released *)
  fa_sp_noleak : forall i, In i (fa_allocs tr) -> In i (fa_frees tr)
}.

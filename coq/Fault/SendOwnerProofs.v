(* C18 - in every branch of the send path, failure branches included, the PDU handed to
   coap_send is consumed: released exactly once or held by exactly one queue. *)
From Coq Require Import Bool List.
From LibcoapV Require Import Fault.SendOwner.

(* follow the decision tree: split on the next environment bit that an [if] depends on *)
Ltac fa_step v :=
  match goal with
  | |- context [if ?c then _ else _] =>
      match c with
      | context [?f v] => let E := fresh "E" in destruct (f v) eqn:E; cbn [negb andb orb xorb]
      end
  end.

Theorem fa_send_consumes : forall v, fa_env_wf v -> fa_send_ok (fa_send v) = true.
Proof.
  intros v [W1 W2].
  destruct (se_need_lg_crcv v) eqn:EN; destruct (se_request v) eqn:ER;
    try (specialize (W1 eq_refl); discriminate);
    destruct (se_is_508 v) eqn:E5; try (specialize (W2 eq_refl); discriminate);
    clear W1 W2;
    cbv beta zeta delta [fa_send fa_send_internal fa_delay fa_out]; rewrite ?EN, ?ER, ?E5;
    cbn [negb andb orb];
    repeat fa_step v; reflexivity.
Qed.

(* the caller-visible part: what the driver observes of any call is accepted *)
Theorem fa_send_obs_accepted : forall v, fa_env_wf v -> fa_obs_ok (fa_send_obs (fa_send v)) = true.
Proof.
  intros v [W1 W2].
  destruct (se_need_lg_crcv v) eqn:EN; destruct (se_request v) eqn:ER;
    try (specialize (W1 eq_refl); discriminate);
    destruct (se_is_508 v) eqn:E5; try (specialize (W2 eq_refl); discriminate);
    clear W1 W2;
    cbv beta zeta delta [fa_send fa_send_internal fa_delay fa_out]; rewrite ?EN, ?ER, ?E5;
    cbn [negb andb orb];
    repeat fa_step v; reflexivity.
Qed.

(* the acceptor is not trivially true *)
Example fa_obs_rejects_leak : fa_obs_ok (false, true, false, false) = false.
Proof. reflexivity. Qed.
Example fa_obs_rejects_double_hold : fa_obs_ok (true, true, true, true) = false.
Proof. reflexivity. Qed.
Example fa_obs_rejects_freed_in_queue : fa_obs_ok (true, false, true, false) = false.
Proof. reflexivity. Qed.

(* every kind of outcome is reachable (the hypotheses are not vacuous) *)
Definition fa_env_plain : fa_send_env :=
  Build_fa_send_env true true true false true true true false true true true false false
                    true true false false true false true true false false true true true
                    true false true false true false true false true false true.

Example fa_plain_wf : fa_env_wf fa_env_plain.
Proof. split; intros; reflexivity || discriminate. Qed.

Example fa_plain_in_sendq :
  so_ret (fa_send fa_env_plain) = RetMid /\ so_pdu (fa_send fa_env_plain) = OwSendQ /\
  so_lg (fa_send fa_env_plain) = OwListed.
Proof. vm_compute. repeat split; reflexivity. Qed.

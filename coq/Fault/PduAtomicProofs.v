(* C18 - PDU layer atomicity under any allocation-failure pattern. *)
From LibcoapV Require Import Base.Tactics Base.Bytes Wire.OptCodec Wire.Pdu Wire.Build
  Fault.PduAtomic.
Local Open Scope Z_scope.

(* ---- the growth loop terminates above the requested size (fuel is never exhausted) *)
Lemma fa_grow_ge : forall fuel new size,
  0 < new -> size <= new + Z.of_nat fuel -> size <= fa_grow fuel new size.
Proof.
  induction fuel as [|f IH]; intros new size Hn Hs; cbn [fa_grow].
  - lia.
  - destruct (new <? size) eqn:E.
    + apply IH; lia.
    + lia.
Qed.

Lemma fa_first_size_ge : forall alloc size, size <= fa_first_size alloc size.
Proof.
  intros alloc size. unfold fa_first_size. apply fa_grow_ge; [lia|].
  destruct (Z_le_gt_dec size 0); [lia|].
  rewrite Nat2Z.inj_succ, Z2Nat.id by lia. lia.
Qed.

Ltac fa_fin :=
  repeat match goal with
         | |- _ /\ _ => split
         | |- _ -> _ => intro
         end;
  subst; try discriminate; try reflexivity; try lia; try (exfalso; lia); try tauto.

(* ---- coap_pdu_resize *)
Lemma fa_resize_spec : forall fails n mx alloc new ok a n1,
  0 <= alloc -> (mx <> 0 -> alloc <= mx) -> 0 <= new ->
  fa_resize fails n mx alloc new = (ok, a, n1) ->
  (n <= n1)%nat /\ 0 <= a /\ (mx <> 0 -> a <= mx) /\
  (ok = true -> a = new /\ (mx = 0 \/ new <= mx)) /\
  (ok = false -> a = alloc /\
                 ((mx = 0 \/ new <= mx) -> n1 = S n /\ fails n = true)).
Proof.
  intros fails n mx alloc new ok a n1 Ha Hm Hn H. unfold fa_resize, fa_try in H.
  destruct (alloc <? new) eqn:E1.
  - destruct (negb (mx =? 0) && (mx <? new)) eqn:E2.
    + inversion H; subst. fa_fin.
    + destruct (fails n) eqn:EF; cbn [negb] in H; inversion H; subst; fa_fin.
  - inversion H; subst. fa_fin.
Qed.

(* ---- coap_pdu_check_resize *)
Lemma fa_check_resize_spec : forall fails n mx alloc size ok a n1,
  0 <= alloc -> (mx <> 0 -> alloc <= mx) -> 0 <= size ->
  fa_check_resize fails n mx alloc size = (ok, a, n1) ->
  (n <= n1)%nat /\ 0 <= a /\ (mx <> 0 -> a <= mx) /\
  (ok = true -> (mx = 0 \/ size <= mx)) /\
  (ok = false -> a = alloc /\
                 ((mx = 0 \/ size <= mx) -> n1 = S n /\ fails n = true)).
Proof.
  intros fails n mx alloc size ok a n1 Ha Hm Hs H. unfold fa_check_resize in H.
  destruct (alloc <? size) eqn:E1.
  - pose proof (fa_first_size_ge alloc size) as HG.
    remember (fa_first_size alloc size) as g eqn:Eg.
    destruct (negb (mx =? 0) && (mx <? g)) eqn:E2.
    + (* capped to max_size *)
      destruct (mx <? size) eqn:E3.
      * inversion H; subst. fa_fin.
      * assert (Hmx : 0 <= mx) by lia.
        destruct (fa_resize_spec _ _ _ _ _ _ _ _ Ha Hm Hmx H) as (L1 & L2 & L3 & L4 & L5).
        split; [exact L1|]. split; [exact L2|]. split; [exact L3|]. split.
        -- intros Hok. right. lia.
        -- intros Hok. destruct (L5 Hok) as [L6 L7]. split; [exact L6|].
           intros _. apply L7. right. lia.
    + destruct (g <? size) eqn:E3; [exfalso; lia|].
      assert (Hg : 0 <= g) by lia.
      destruct (fa_resize_spec _ _ _ _ _ _ _ _ Ha Hm Hg H) as (L1 & L2 & L3 & L4 & L5).
      assert (Hfit : mx = 0 \/ g <= mx).
      { apply andb_false_iff in E2. destruct E2 as [E2|E2].
        - apply negb_false_iff in E2. apply Z.eqb_eq in E2. left. exact E2.
        - apply Z.ltb_ge in E2. right. exact E2. }
      split; [exact L1|]. split; [exact L2|]. split; [exact L3|]. split.
      * intros Hok. destruct (L4 Hok) as [_ [Hz|Hl]]; [left; assumption|right; lia].
      * intros Hok. destruct (L5 Hok) as [L6 L7]. split; [exact L6|].
        intros _. apply L7. exact Hfit.
  - inversion H; subst. fa_fin.
Qed.

Lemma fits_iff : forall p size, fits p size = true <-> (p_max p = 0 \/ size <= p_max p).
Proof. intros. unfold fits. lia. Qed.

Lemma used_nonneg : forall m, 0 <= used m.
Proof. intros. unfold used, len. lia. Qed.

Lemma opt_encode_size_nonneg : forall d l, 0 <= l -> 0 <= opt_encode_size d l.
Proof. intros d l Hl. unfold opt_encode_size, ext_size. repeat case_if; lia. Qed.

Lemma len_nonneg' : forall (A : Type) (l : list A), 0 <= len l.
Proof. intros. unfold len. lia. Qed.

Definition fa_failed_between (fails : nat -> bool) (n n1 : nat) : Prop :=
  exists k, (n <= k < n1)%nat /\ fails k = true.

(* ---- one option, without the implicit Hop-Limit step *)
Lemma fa_add_opt_raw_spec : forall fails n p num v r p1 n1,
  fa_inv p -> fa_add_opt_raw fails n p num v = (r, p1, n1) ->
  fa_inv p1 /\ (n <= n1)%nat /\ p_max (fp_pdu p1) = p_max (fp_pdu p) /\
  (r = true -> add_opt_raw (fp_pdu p) num v = (true, fp_pdu p1)) /\
  (r = false -> fp_pdu p1 = fp_pdu p /\
                (fst (add_opt_raw (fp_pdu p) num v) = true -> fa_failed_between fails n n1)).
Proof.
  intros fails n [q al] num v r p1 n1 [Ha Hm] H. cbn [fp_pdu fp_alloc] in *.
  unfold fa_add_opt_raw in H. unfold add_opt_raw. cbn [fp_pdu fp_alloc] in H.
  destruct ((num =? last_num (m_opts (p_msg q))) && negb (repeatable num)) eqn:ER.
  - inversion H; subst. unfold fa_inv; cbn [fp_pdu fp_alloc].
    split; [split; assumption|]. split; [lia|]. split; [reflexivity|].
    split; [discriminate|]. intros _. split; [reflexivity|]. cbn [fst]. discriminate.
  - set (prev := if num <? last_num (m_opts (p_msg q))
                 then prev_num num 0 (m_opts (p_msg q)) else last_num (m_opts (p_msg q))) in *.
    set (sz := opt_encode_size (num - prev) (len v)) in *.
    destruct (fa_check_resize fails n (p_max q) al (used (p_msg q) + sz)) as [[ok a] n2] eqn:EC.
    assert (Hsz : 0 <= used (p_msg q) + sz).
    { pose proof (used_nonneg (p_msg q)).
      pose proof (opt_encode_size_nonneg (num - prev) (len v) (len_nonneg' _ v)). subst sz. lia. }
    destruct (fa_check_resize_spec _ _ _ _ _ _ _ _ Ha Hm Hsz EC) as (L1 & L2 & L3 & L4 & L5).
    destruct ok; inversion H; subst; unfold fa_inv, fa_set_alloc; cbn [fp_pdu fp_alloc].
    + split; [split; [exact L2|cbn [set_opts p_max]; exact L3]|]. split; [exact L1|].
      split; [reflexivity|]. split; [|discriminate]. intros _.
      assert (F : fits q (used (p_msg q) + sz) = true) by (apply fits_iff; apply L4; reflexivity).
      rewrite F. reflexivity.
    + destruct (L5 eq_refl) as [L6 L7]. subst a.
      split; [split; assumption|]. split; [exact L1|]. split; [reflexivity|].
      split; [discriminate|]. intros _. split; [reflexivity|].
      destruct (fits q (used (p_msg q) + sz)) eqn:F; cbn [fst]; [|discriminate].
      intros _. apply fits_iff in F. destruct (L7 F) as [-> Hf].
      exists n. split; [lia|exact Hf].
Qed.

Definition fa_hop_added (q : pdu) : pdu := snd (add_opt_raw q 16 [16]).

(* ---- every builder operation, under ANY failure pattern *)
Theorem fa_apply_op_atomic : forall fails n p o r p1 n1,
  fa_inv p -> fa_apply_op fails n p o = (r, p1, n1) ->
  fa_inv p1 /\ (n <= n1)%nat /\
  (* success: the result is the specified one; if the implicit Hop-Limit of a Proxy-Uri /
     Proxy-Scheme option could not be allocated, the one specified for the message without
     that step *)
  (r = true ->
     apply_op (fp_pdu p) o = (true, fp_pdu p1) \/
     (exists num v, o = OpOpt num v /\ fa_hop_step (fp_pdu p) num = true /\
                    add_opt_raw (fp_pdu p) num v = (true, fp_pdu p1))) /\
  (* failure: the abstract message is untouched, except that the implicit Hop-Limit may
     already have been inserted (as in the model without faults) *)
  (r = false ->
     fp_pdu p1 = fp_pdu p \/
     (exists num v, o = OpOpt num v /\ fa_hop_step (fp_pdu p) num = true /\
                    fp_pdu p1 = fa_hop_added (fp_pdu p))) /\
  (* a failure that the fault-free specification does not have is due to a failed attempt *)
  (r = false -> fst (apply_op (fp_pdu p) o) = true -> fa_failed_between fails n n1).
Proof.
  intros fails n p o r p1 n1 HI H. pose proof HI as [Ha Hm].
  destruct p as [q al]. cbn [fp_pdu fp_alloc] in *.
  destruct o as [t|num v|d]; unfold fa_apply_op in H; cbn [fp_pdu fp_alloc] in H; unfold apply_op.
  - (* token *)
    destruct (negb (used (p_msg q) =? 0)) eqn:E1.
    { inversion H; subst. cbn [fp_pdu fst]. split; [exact HI|]. split; [lia|].
      split; [discriminate|]. split; [intros _; left; reflexivity|]. discriminate. }
    destruct (65804 <? len t) eqn:E2.
    { inversion H; subst. cbn [fp_pdu fst]. split; [exact HI|]. split; [lia|].
      split; [discriminate|]. split; [intros _; left; reflexivity|]. discriminate. }
    destruct (fa_check_resize fails n (p_max q) al (len (token_area t))) as [[ok a] n2] eqn:EC.
    destruct (fa_check_resize_spec _ _ _ _ _ _ _ _ Ha Hm (len_nonneg' _ _) EC) as (L1 & L2 & L3 & L4 & L5).
    destruct ok; inversion H; subst; unfold fa_inv, fa_set_alloc; cbn [fp_pdu fp_alloc p_max].
    + split; [split; assumption|]. split; [exact L1|]. split; [|split; discriminate].
      intros _. left. assert (F : fits q (len (token_area t)) = true) by (apply fits_iff; auto).
      rewrite F. reflexivity.
    + destruct (L5 eq_refl) as [L6 L7]. subst a.
      split; [split; assumption|]. split; [exact L1|]. split; [discriminate|].
      split; [intros _; left; reflexivity|]. intros _.
      destruct (fits q (len (token_area t))) eqn:F; cbn [fst]; [|discriminate].
      intros _. apply fits_iff in F. destruct (L7 F) as [-> Hf]. exists n. split; [lia|exact Hf].
  - (* option *)
    destruct (m_payload (p_msg q)) as [|b pl] eqn:EP.
    2:{ inversion H; subst. cbn [fp_pdu fst]. split; [exact HI|]. split; [lia|].
        split; [discriminate|]. split; [intros _; left; reflexivity|]. discriminate. }
    destruct ((num =? last_num (m_opts (p_msg q))) && negb (repeatable num)) eqn:ER.
    { inversion H; subst. cbn [fp_pdu fst]. split; [exact HI|]. split; [lia|].
      split; [discriminate|]. split; [intros _; left; reflexivity|]. discriminate. }
    fold (fa_hop_step q num) in H.
    change (is_request (m_code (p_msg q)) && ((num =? 35) || (num =? 39)) &&
            negb (has_opt 16 (m_opts (p_msg q)))) with (fa_hop_step q num).
    destruct (fa_hop_step q num) eqn:EH.
    + (* implicit Hop-Limit first *)
      destruct (fa_add_opt_raw fails n (mkFaPdu q al) 16 [16]) as [[r0 p0] n0] eqn:E0.
      destruct (fa_add_opt_raw_spec _ _ _ _ _ _ _ _ HI E0) as (I0 & N0 & M0 & S0 & F0).
      destruct (fa_add_opt_raw_spec _ _ _ _ _ _ _ _ I0 H) as (I1 & N1 & M1 & S1 & F1).
      cbn [fp_pdu] in *.
      split; [exact I1|]. split; [lia|].
      destruct r0.
      * (* Hop-Limit inserted: exactly the specification *)
        specialize (S0 eq_refl). rewrite S0. cbn [snd].
        split; [intros Hr; left; apply S1; exact Hr|].
        split.
        -- intros Hr. destruct (F1 Hr) as [E _]. right. exists num, v.
           split; [reflexivity|]. split; [first [reflexivity | exact EH]|].
           unfold fa_hop_added. rewrite S0. cbn [snd]. exact E.
        -- intros Hr Hs. destruct (F1 Hr) as [_ G]. destruct (G Hs) as (k & Hk & Hf).
           exists k. split; [lia|exact Hf].
      * (* Hop-Limit not inserted *)
        destruct (F0 eq_refl) as [E0' G0]. rewrite E0' in *.
        split.
        -- intros Hr. specialize (S1 Hr).
           destruct (add_opt_raw q 16 [16]) as [rh qh] eqn:EHop. cbn [snd fst] in *.
           destruct rh.
           ++ (* the specification would have inserted it: success without Hop-Limit *)
              right. exists num, v. split; [reflexivity|]. split; [first [reflexivity | exact EH]|]. exact S1.
           ++ (* the specification could not insert it either *)
              left. assert (qh = q).
              { unfold add_opt_raw in EHop. repeat case_if_in EHop; inversion EHop; reflexivity. }
              subst qh. exact S1.
        -- split.
           ++ intros Hr. destruct (F1 Hr) as [E _]. left. exact E.
           ++ intros Hr Hs. destruct (F1 Hr) as [_ G].
              destruct (add_opt_raw q 16 [16]) as [rh qh] eqn:EHop. cbn [snd fst] in *.
              destruct rh.
              ** destruct (G0 eq_refl) as (k & Hk & Hf). exists k. split; [lia|exact Hf].
              ** assert (qh = q).
                 { unfold add_opt_raw in EHop. repeat case_if_in EHop; inversion EHop; reflexivity. }
                 subst qh. destruct (G Hs) as (k & Hk & Hf). exists k. split; [lia|exact Hf].
    + destruct (fa_add_opt_raw_spec _ _ _ _ _ _ _ _ HI H) as (I1 & N1 & M1 & S1 & F1).
      cbn [fp_pdu] in *. split; [exact I1|]. split; [exact N1|].
      split; [intros Hr; left; apply S1; exact Hr|].
      split; [intros Hr; left; apply F1; exact Hr|].
      intros Hr Hs. apply F1; assumption.
  - (* data *)
    destruct d as [|b d'].
    { inversion H; subst. cbn [fp_pdu]. split; [exact HI|]. split; [lia|].
      split; [intros _; left; reflexivity|]. split; discriminate. }
    destruct (m_payload (p_msg q)) as [|b0 pl] eqn:EP.
    2:{ inversion H; subst. cbn [fp_pdu fst]. split; [exact HI|]. split; [lia|].
        split; [discriminate|]. split; [intros _; left; reflexivity|]. discriminate. }
    set (need := used (p_msg q) + len (b :: d') + 1) in *.
    assert (Hn : 0 <= need).
    { pose proof (used_nonneg (p_msg q)). pose proof (len_nonneg' _ (b :: d')). subst need. lia. }
    destruct (fa_resize fails n (p_max q) al need) as [[ok a] n2] eqn:EC.
    destruct (fa_resize_spec _ _ _ _ _ _ _ _ Ha Hm Hn EC) as (L1 & L2 & L3 & L4 & L5).
    destruct ok; inversion H; subst; unfold fa_inv, fa_set_alloc; cbn [fp_pdu fp_alloc p_max].
    + split; [split; assumption|]. split; [exact L1|]. split; [|split; discriminate].
      intros _. left. assert (F : fits q need = true) by (apply fits_iff; apply L4; reflexivity).
      rewrite F. reflexivity.
    + destruct (L5 eq_refl) as [L6 L7]. subst a.
      split; [split; assumption|]. split; [exact L1|]. split; [discriminate|].
      split; [intros _; left; reflexivity|]. intros _.
      destruct (fits q need) eqn:F; cbn [fst]; [|discriminate].
      intros _. apply fits_iff in F. destruct (L7 F) as [-> Hf]. exists n. split; [lia|exact Hf].
Qed.

(* ---- without failures the model is exactly Wire/Build.v (C01's builder) *)
Lemma add_opt_raw_false : forall q num v, fst (add_opt_raw q num v) = false -> snd (add_opt_raw q num v) = q.
Proof. intros q num v. unfold add_opt_raw. repeat case_if; cbn [fst snd]; congruence. Qed.

Lemma fa_no_failure_between : forall fails n n1,
  (forall k, fails k = false) -> fa_failed_between fails n n1 -> False.
Proof. intros fails n n1 H (k & _ & Hk). rewrite H in Hk. discriminate. Qed.

Lemma fa_add_opt_raw_nofault : forall fails n p num v r p1 n1,
  (forall k, fails k = false) -> fa_inv p ->
  fa_add_opt_raw fails n p num v = (r, p1, n1) ->
  add_opt_raw (fp_pdu p) num v = (r, fp_pdu p1).
Proof.
  intros fails n p num v r p1 n1 HF HI H.
  destruct (fa_add_opt_raw_spec _ _ _ _ _ _ _ _ HI H) as (_ & _ & _ & S1 & F1).
  destruct r; [apply S1; reflexivity|].
  destruct (F1 eq_refl) as [E G]. rewrite E.
  destruct (add_opt_raw (fp_pdu p) num v) as [b x] eqn:EA. cbn [fst] in G.
  destruct b.
  - exfalso. exact (fa_no_failure_between _ _ _ HF (G eq_refl)).
  - pose proof (add_opt_raw_false (fp_pdu p) num v) as L. rewrite EA in L. cbn [fst snd] in L.
    rewrite (L eq_refl). reflexivity.
Qed.

Theorem fa_apply_op_nofault : forall fails n p o r p1 n1,
  (forall k, fails k = false) -> fa_inv p ->
  fa_apply_op fails n p o = (r, p1, n1) ->
  apply_op (fp_pdu p) o = (r, fp_pdu p1).
Proof.
  intros fails n p o r p1 n1 HF HI H.
  destruct (fa_apply_op_atomic _ _ _ _ _ _ _ HI H) as (_ & _ & S & F & G).
  destruct o as [t|num v|d].
  - (* token *)
    destruct r.
    + destruct (S eq_refl) as [E|(num & v & E & _)]; [exact E|discriminate].
    + destruct (F eq_refl) as [E|(num & v & E' & _)]; [|discriminate]. rewrite E.
      destruct (apply_op (fp_pdu p) (OpToken t)) as [b x] eqn:EA. destruct b.
      * exfalso. apply (fa_no_failure_between fails n n1 HF). apply G; reflexivity.
      * unfold apply_op in EA. repeat case_if_in EA; inversion EA; reflexivity.
  - (* option: follow the structure *)
    clear S F G. destruct p as [q al]. unfold fa_apply_op in H. cbn [fp_pdu fp_alloc] in *.
    unfold apply_op.
    destruct (m_payload (p_msg q)) as [|b pl] eqn:EP; [|inversion H; reflexivity].
    destruct ((num =? last_num (m_opts (p_msg q))) && negb (repeatable num)) eqn:ER;
      [inversion H; reflexivity|].
    fold (fa_hop_step q num) in H.
    change (is_request (m_code (p_msg q)) && ((num =? 35) || (num =? 39)) &&
            negb (has_opt 16 (m_opts (p_msg q)))) with (fa_hop_step q num).
    destruct (fa_hop_step q num) eqn:EH.
    + destruct (fa_add_opt_raw fails n (mkFaPdu q al) 16 [16]) as [[r0 p0] n0] eqn:E0.
      pose proof (fa_add_opt_raw_nofault _ _ _ _ _ _ _ _ HF HI E0) as A0. cbn [fp_pdu] in A0.
      destruct (fa_add_opt_raw_spec _ _ _ _ _ _ _ _ HI E0) as (I0 & _).
      rewrite A0. cbn [snd].
      exact (fa_add_opt_raw_nofault _ _ _ _ _ _ _ _ HF I0 H).
    + exact (fa_add_opt_raw_nofault _ _ _ _ _ _ _ _ HF HI H).
  - (* data *)
    destruct r.
    + destruct (S eq_refl) as [E|(num & v & E & _)]; [exact E|discriminate].
    + destruct (F eq_refl) as [E|(num & v & E' & _)]; [|discriminate]. rewrite E.
      destruct (apply_op (fp_pdu p) (OpData d)) as [b x] eqn:EA. destruct b.
      * exfalso. apply (fa_no_failure_between fails n n1 HF). apply G; reflexivity.
      * unfold apply_op in EA. destruct d; [inversion EA|].
        destruct (m_payload (p_msg (fp_pdu p))); [|inversion EA; reflexivity].
        case_if_in EA; inversion EA; reflexivity.
Qed.

(* ---- coap_pdu_init: a PDU or nothing *)
Theorem fa_pdu_init_atomic : forall fails n ty code mid size,
  0 <= size ->
  match fa_pdu_init fails n ty code mid size with
  | (Some p, n1) => fp_pdu p = pdu_init ty code mid size /\ fa_inv p /\ n1 = S (S n) /\
                    fails n = false /\ fails (S n) = false
  | (None, n1) => fa_max_init < size \/ fa_failed_between fails n n1
  end.
Proof.
  intros fails n ty code mid size Hs. unfold fa_pdu_init, fa_try.
  destruct (fails n) eqn:E1; cbn [negb].
  - right. exists n. split; [lia|exact E1].
  - destruct (fa_max_init <? size) eqn:E2; [left; lia|].
    destruct (fails (S n)) eqn:E3; cbn [negb].
    + right. exists (S n). split; [lia|exact E3].
    + cbn [fp_pdu]. split; [reflexivity|]. split; [|tauto].
      unfold fa_inv, pdu_init; cbn [fp_alloc fp_pdu p_max]. lia.
Qed.

(* ---- whole operation lists: every step is atomic, the invariant is kept *)
Theorem fa_run_ops_inv : forall fails ops n p rs p1 n1,
  fa_inv p -> fa_run_ops fails n p ops = (rs, p1, n1) ->
  fa_inv p1 /\ (n <= n1)%nat /\ length rs = length ops.
Proof.
  induction ops as [|o tl IH]; intros n p rs p1 n1 HI H; cbn [fa_run_ops] in H.
  - inversion H; subst. split; [exact HI|]. split; [lia|reflexivity].
  - destruct (fa_apply_op fails n p o) as [[r p2] n2] eqn:E1.
    destruct (fa_run_ops fails n2 p2 tl) as [[rs2 p3] n3] eqn:E2.
    inversion H; subst.
    destruct (fa_apply_op_atomic _ _ _ _ _ _ _ HI E1) as (I2 & N2 & _).
    destruct (IH _ _ _ _ _ I2 E2) as (I3 & N3 & L3).
    split; [exact I3|]. split; [lia|]. cbn [length]. rewrite L3. reflexivity.
Qed.

Theorem fa_run_ops_nofault : forall fails ops n p rs p1 n1,
  (forall k, fails k = false) -> fa_inv p ->
  fa_run_ops fails n p ops = (rs, p1, n1) ->
  run_ops (fp_pdu p) ops = (rs, fp_pdu p1).
Proof.
  induction ops as [|o tl IH]; intros n p rs p1 n1 HF HI H; cbn [fa_run_ops] in H; cbn [run_ops].
  - inversion H; subst. reflexivity.
  - destruct (fa_apply_op fails n p o) as [[r p2] n2] eqn:E1.
    destruct (fa_run_ops fails n2 p2 tl) as [[rs2 p3] n3] eqn:E2.
    inversion H; subst.
    rewrite (fa_apply_op_nofault _ _ _ _ _ _ _ HF HI E1).
    destruct (fa_apply_op_atomic _ _ _ _ _ _ _ HI E1) as (I2 & _).
    rewrite (IH _ _ _ _ _ HF I2 E2). reflexivity.
Qed.

(* ---- non-vacuity: a concrete failure pattern makes exactly the growing operation fail and
   leaves the message as it was; and the strict form of atomicity does not hold for the
   implicit Hop-Limit step *)
Definition fa_ex_ops : list bop :=
  [OpToken [1; 2]; OpOpt 11 (repeat 7 100%nat); OpOpt 11 (repeat 8 200%nat); OpData [9; 9]].

Example fa_example_fault_hits :
  match fa_pdu_init (fa_fails_of [2%nat]) 0 0 1 77 1152 with
  | (Some p, n) =>
      let '(rs, p1, n1) := fa_run_ops (fa_fails_of [2%nat]) n p fa_ex_ops in
      rs = [true; true; false; true] /\
      m_opts (p_msg (fp_pdu p1)) = [(11, repeat 7 100%nat)] /\ n1 = 3%nat
  | _ => False
  end.
Proof. vm_compute. repeat split; reflexivity. Qed.

(* Proxy-Uri in a request whose implicit Hop-Limit allocation fails: the operation succeeds,
   but the message is not the one the fault-free builder produces *)
Theorem fa_strict_atomicity_refuted :
  exists fails n p o r p1 n1,
    fa_inv p /\ fa_apply_op fails n p o = (r, p1, n1) /\ r = true /\
    apply_op (fp_pdu p) o <> (true, fp_pdu p1).
Proof.
  exists (fa_fails_of [0%nat]), 0%nat,
         (mkFaPdu (mkPdu (mkMsg 0 1 7 [] [(11, repeat 65 254%nat)] []) 0) 256),
         (OpOpt 35 [99]).
  eexists. eexists. eexists.
  split; [unfold fa_inv; cbn; lia|]. split; [vm_compute; reflexivity|].
  split; [reflexivity|]. vm_compute. discriminate.
Qed.

(* C18 - who owns the PDU after coap_send()?
   Control-flow model of coap_send_lkd / coap_send_internal (src/coap_net.c, with the send path
   of coap_send_pdu / coap_session_delay_pdu) as a decision tree: every test the C code makes
   on its way - validity checks, allocation results, what the socket layer reports - is one
   boolean of [fa_send_env]; the leaves say what happened to the four objects involved:
   the application's PDU, the OSCORE-encrypted PDU that may replace it, the retransmission
   queue node and the lg_crcv entry.  Definitions only; theorems in SendOwnerProofs.v. *)
From Coq Require Import Bool List.
Import ListNotations.

Inductive fa_own :=
| OwNone        (* never created *)
| OwFreed       (* released exactly once *)
| OwSendQ       (* context->sendqueue (node) / held by the node in it (PDU) *)
| OwDelayQ      (* session->delayqueue *)
| OwListed      (* session->lg_crcv list *)
| OwHeld.       (* still referenced only by a local variable of the function: a leak *)

Inductive fa_ret := RetMid | RetInvalid | RetDropped | RetOne.

Record fa_send_env := {
  (* coap_send_lkd *)
  se_code_ok : bool;            (* coap_check_code_class *)
  se_netif_ok : bool;           (* client session socket still open *)
  se_delay_first_ok : bool;     (* coap_client_delay_first *)
  se_ext_token_probe : bool;    (* extended token support still to be checked *)
  se_ext_token_sent : bool;     (* coap_send_test_extended_token succeeded *)
  se_delay_first2_ok : bool;
  se_token_len_ok : bool;
  se_oscore : bool;             (* session->oscore_encryption *)
  se_request : bool;
  se_rebuild_ok : bool;         (* coap_rebuild_pdu_for_proxy *)
  se_block_mode : bool;         (* COAP_BLOCK_USE_LIBCOAP *)
  se_observe_cancel : bool;     (* request carries Observe = 1 *)
  se_cancel_sent : bool;        (* coap_cancel_observe_lkd returned 1 *)
  se_need_lg_crcv : bool;       (* coap_check_send_need_lg_crcv *)
  se_lg_crcv_alloc : bool;      (* coap_block_new_lg_crcv succeeded *)
  (* coap_send_internal *)
  se_is_508 : bool;
  se_hop_opt : bool;            (* 5.08 with a Hop-Limit option *)
  se_hop_ok : bool;             (* its value is in 2..255 *)
  se_has_data : bool;
  se_space_ok : bool;           (* used_size + 1 <= max_size *)
  se_resize_ok : bool;          (* coap_pdu_resize(used_size + 1) *)
  se_loop_seen : bool;          (* own address already in the diagnostic payload *)
  se_echo : bool;               (* session->echo set *)
  se_echo_ok : bool;            (* coap_insert_option(ECHO) *)
  se_rebuild2_ok : bool;
  se_header_ok : bool;          (* coap_pdu_encode_header *)
  se_con : bool;                (* pdu->type == CON *)
  se_reliable : bool;           (* TCP/TLS/WS *)
  se_node_alloc : bool;         (* coap_new_node before the transmission *)
  se_empty_ack : bool;          (* ACK with code 0.00 (never encrypted) *)
  se_encrypt_ok : bool;         (* coap_oscore_new_pdu_encrypted_lkd *)
  se_must_delay : bool;         (* not established / NSTART reached / socket wants write *)
  se_delay_node_alloc : bool;   (* coap_new_node in coap_session_delay_pdu *)
  se_mid_in_delayq : bool;      (* same mid already delayed (unreliable transports) *)
  se_written_ok : bool;         (* coap_session_send_pdu >= 0 *)
  se_partial : bool;            (* reliable transport wrote only part of the message *)
  se_node_alloc_late : bool     (* coap_new_node after the transmission (node still NULL) *)
}.

Record fa_send_out := {
  so_ret : fa_ret;
  so_pdu : fa_own;       (* the PDU given to coap_send *)
  so_enc : fa_own;       (* the encrypted PDU *)
  so_node : fa_own;      (* the node allocated by coap_send_internal itself *)
  so_dnode : fa_own;     (* the node allocated by coap_session_delay_pdu *)
  so_lg : fa_own         (* the lg_crcv entry *)
}.

Definition fa_out r p e nd dn := Build_fa_send_out r p e nd dn OwNone.

(* coap_session_delay_pdu(session, pdu, NULL) -> true = COAP_PDU_DELAYED *)
Definition fa_delay (v : fa_send_env) : bool :=
  if negb (se_reliable v) && se_mid_in_delayq v then false else se_delay_node_alloc v.

(* coap_send_internal *)
Definition fa_send_internal (v : fa_send_env) : fa_send_out :=
  (* RFC 8768 loop detection of a 5.08 response: every exit releases the PDU *)
  if se_is_508 v && se_hop_opt v && negb (se_hop_ok v)
  then fa_out RetDropped OwFreed OwNone OwNone OwNone else
  if se_is_508 v && se_has_data v && negb (se_hop_opt v) && negb (se_space_ok v)
  then fa_out RetDropped OwFreed OwNone OwNone OwNone else
  if se_is_508 v && se_has_data v && negb (se_hop_opt v) && negb (se_resize_ok v)
  then fa_out RetDropped OwFreed OwNone OwNone OwNone else
  if se_is_508 v && se_has_data v && negb (se_hop_opt v) && se_loop_seen v
  then fa_out RetDropped OwFreed OwNone OwNone OwNone else
  (* error: *)
  let err_plain := fa_out RetInvalid OwFreed OwNone OwNone OwNone in
  if se_echo v && negb (se_echo_ok v) then err_plain else
  if se_oscore v && se_request v && negb (se_rebuild2_ok v) then err_plain else
  if negb (se_header_ok v) then err_plain else
  let want_node := se_con v && negb (se_reliable v) in
  if want_node && negb (se_node_alloc v) then err_plain else
  let nd := if want_node then OwHeld else OwNone in
  let encrypt := se_oscore v && negb (se_empty_ack v) in
  if encrypt && negb (se_encrypt_ok v)
  then fa_out RetInvalid OwFreed OwNone (if want_node then OwFreed else OwNone) OwNone else
  (* from here on "the pdu" is the encrypted one if there is one; the original is released
     right after the transmission attempt *)
  let fin (r : fa_ret) (cur : fa_own) (n dn : fa_own) :=
    if encrypt then fa_out r OwFreed cur n dn else fa_out r cur OwNone n dn in
  let nd_free := if want_node then OwFreed else OwNone in
  if se_must_delay v then
    if fa_delay v then fin RetMid OwDelayQ nd_free OwDelayQ      (* COAP_PDU_DELAYED *)
    else fin RetInvalid OwFreed nd_free OwNone                    (* bytes_written < 0 *)
  else
  if negb (se_written_ok v) then fin RetInvalid OwFreed nd_free OwNone else
  if se_reliable v && se_partial v then
    if fa_delay v then fin RetMid OwDelayQ nd_free OwDelayQ
    else fin RetInvalid OwFreed nd_free OwNone
  else
  if negb (se_con v) || se_reliable v then fin RetMid OwFreed nd_free OwNone else
  (* Confirmable on an unreliable transport: coap_wait_ack links node, pdu and send queue *)
  if want_node then fin RetMid OwSendQ OwSendQ OwNone
  else if se_node_alloc_late v then fin RetMid OwSendQ OwSendQ OwNone
       else fin RetInvalid OwFreed OwNone OwNone.

Definition fa_mid_valid (r : fa_ret) : bool :=
  match r with RetMid => true | _ => false end.

(* coap_send_lkd *)
Definition fa_send (v : fa_send_env) : fa_send_out :=
  let err := fa_out RetInvalid OwFreed OwNone OwNone OwNone in
  if negb (se_code_ok v) then err else
  if negb (se_netif_ok v) then err else
  if negb (se_delay_first_ok v) then err else
  if se_ext_token_probe v && negb (se_reliable v) && negb (se_ext_token_sent v) then err else
  if se_ext_token_probe v && negb (se_delay_first2_ok v) then err else
  if se_request v && negb (se_token_len_ok v) then err else
  if se_oscore v && se_request v && negb (se_rebuild_ok v) then err else
  if negb (se_block_mode v) then fa_send_internal v else
  if se_request v && se_observe_cancel v && se_cancel_sent v
  then fa_out RetOne OwFreed OwNone OwNone OwNone else
  if se_need_lg_crcv v then
    if negb (se_lg_crcv_alloc v) then err else
    let o := fa_send_internal v in
    Build_fa_send_out (so_ret o) (so_pdu o) (so_enc o) (so_node o) (so_dnode o)
                      (match so_ret o with RetInvalid => OwFreed | _ => OwListed end)
  else fa_send_internal v.

(* combinations the C code cannot meet: lg_crcv entries exist for requests only, 5.08 is a
   response code *)
Definition fa_env_wf (v : fa_send_env) : Prop :=
  (se_need_lg_crcv v = true -> se_request v = true) /\
  (se_is_508 v = true -> se_request v = false).

(* ---- what the property demands of an outcome *)
Definition fa_settled (o : fa_own) : bool :=
  match o with OwHeld => false | _ => true end.

(* the PDU that travels (the encrypted one if it exists, else the original) *)
Definition fa_cur (o : fa_send_out) : fa_own :=
  match so_enc o with OwNone => so_pdu o | e => e end.

Definition fa_own_eqb (a b : fa_own) : bool :=
  match a, b with
  | OwNone, OwNone | OwFreed, OwFreed | OwSendQ, OwSendQ | OwDelayQ, OwDelayQ
  | OwListed, OwListed | OwHeld, OwHeld => true
  | _, _ => false
  end.

Definition fa_send_ok (o : fa_send_out) : bool :=
  (* nothing is left dangling *)
  fa_settled (so_pdu o) && fa_settled (so_enc o) && fa_settled (so_node o) &&
  fa_settled (so_dnode o) && fa_settled (so_lg o) &&
  (* the caller's PDU is consumed: released, or held by exactly one queue *)
  (fa_own_eqb (so_pdu o) OwFreed || fa_own_eqb (so_pdu o) OwSendQ || fa_own_eqb (so_pdu o) OwDelayQ) &&
  (* an encrypted PDU replaces the original, which is then released *)
  (fa_own_eqb (so_enc o) OwNone || fa_own_eqb (so_pdu o) OwFreed) &&
  (* a PDU is in the send queue exactly with the node, in the delay queue exactly with the
     delay node *)
  (eqb (fa_own_eqb (fa_cur o) OwSendQ) (fa_own_eqb (so_node o) OwSendQ)) &&
  (eqb (fa_own_eqb (fa_cur o) OwDelayQ) (fa_own_eqb (so_dnode o) OwDelayQ)) &&
  (* failure is reported exactly when nothing is kept *)
  (if fa_mid_valid (so_ret o) then true
   else fa_own_eqb (fa_cur o) OwFreed &&
        negb (fa_own_eqb (so_node o) OwSendQ) && negb (fa_own_eqb (so_dnode o) OwDelayQ) &&
        negb (fa_own_eqb (so_lg o) OwListed)).

(* ---- what the driver can observe of one coap_send() call: (mid valid, original PDU block
   still allocated, original PDU in sendqueue, original PDU in delayqueue) *)
Definition fa_send_obs (o : fa_send_out) : bool * bool * bool * bool :=
  (fa_mid_valid (so_ret o) || (match so_ret o with RetOne => true | _ => false end),
   negb (fa_own_eqb (so_pdu o) OwFreed),
   fa_own_eqb (so_pdu o) OwSendQ, fa_own_eqb (so_pdu o) OwDelayQ).

(* acceptor for observed tuples *)
Definition fa_obs_ok (t : bool * bool * bool * bool) : bool :=
  let '(valid, live, inq, indq) := t in
  if live then valid && (xorb inq indq) else negb inq && negb indq.

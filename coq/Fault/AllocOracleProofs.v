(* C18 - correctness of the allocation-trace oracle:
     fa_verdict tr = FaClean  <->  fa_spec tr
   plus soundness of the reported culprits (leak ids are allocated and never released, a
   reported double free really is one). *)
From LibcoapV Require Import Base.Tactics Fault.AllocOracle.
Local Open Scope Z_scope.

Lemma fa_mem_In : forall i l, fa_mem i l = true <-> In i l.
Proof.
  unfold fa_mem. intros i l. rewrite existsb_exists. split.
  - intros (x & Hx & E). apply Z.eqb_eq in E. subst. exact Hx.
  - intros H. exists i. split; [exact H | apply Z.eqb_refl].
Qed.

Lemma fa_mem_nIn : forall i l, fa_mem i l = false <-> ~ In i l.
Proof.
  intros i l. rewrite <- fa_mem_In. destruct (fa_mem i l).
  - split; [discriminate | intros H; exfalso; apply H; reflexivity].
  - split; [intros _ H; discriminate | reflexivity].
Qed.

Lemma fa_remove_In : forall i l x, NoDup l -> (In x (fa_remove i l) <-> In x l /\ x <> i).
Proof.
  induction l as [|y tl IH]; intros x ND; cbn [fa_remove].
  - cbn. tauto.
  - inversion ND as [|? ? Hy NDt]; subst.
    destruct (y =? i) eqn:E.
    + apply Z.eqb_eq in E. subst y. cbn [In]. split.
      * intros Hx. split; [right; exact Hx|]. intros ->. contradiction.
      * intros [[->|Hx] Hn]; [congruence | exact Hx].
    + apply Z.eqb_neq in E. cbn [In]. rewrite (IH x NDt). split.
      * intros [->|[Hx Hn]]; split; auto.
      * intros [[->|Hx] Hn]; auto.
Qed.

Lemma fa_remove_NoDup : forall i l, NoDup l -> NoDup (fa_remove i l).
Proof.
  induction l as [|y tl IH]; intros ND; cbn [fa_remove]; [constructor|].
  inversion ND as [|? ? Hy NDt]; subst.
  destruct (y =? i); [exact NDt|].
  constructor; [|apply IH; exact NDt].
  intros H. apply (fa_remove_In i tl y NDt) in H. tauto.
Qed.

(* ---- recursive form of the specification, relative to what the prefix allocated/released *)
Fixpoint fa_ok_from (pa pf : list Z) (tr : list fa_ev) : Prop :=
  match tr with
  | [] => forall i, In i pa -> In i pf
  | e :: tl =>
      (forall i, In i (fa_ev_allocs e) -> 0 < i /\ ~ In i pa) /\
      (forall i, In i (fa_ev_frees e) -> In i pa /\ ~ In i pf) /\
      (forall i, In i (fa_ev_uses e) -> In i pa /\ ~ In i pf) /\
      fa_ok_from (pa ++ fa_ev_allocs e) (pf ++ fa_ev_frees e) tl
  end.

(* the oracle's state represents the prefix *)
Definition fa_repr (pa pf : list Z) (st : fa_state) : Prop :=
  (forall i, In i (snd st) <-> In i pa) /\
  (forall i, In i (fst st) <-> In i pa /\ ~ In i pf) /\
  NoDup (fst st) /\
  (forall i, In i pf -> In i pa).

Lemma fa_alloc_id_inl : forall pa pf st i st1,
  fa_repr pa pf st -> fa_alloc_id st i = inl st1 ->
  (0 < i /\ ~ In i pa) /\ fa_repr (pa ++ [i]) pf st1.
Proof.
  intros pa pf [live seen] i st1 (Hs & Hl & ND & Hsub) H. unfold fa_alloc_id in H.
  destruct ((i <=? 0) || fa_mem i seen) eqn:E; [discriminate|].
  apply orb_false_iff in E. destruct E as [E1 E2].
  apply Z.leb_gt in E1. apply fa_mem_nIn in E2. cbn [fst snd] in *.
  assert (Hn : ~ In i pa) by (intros Hc; apply E2; apply Hs; exact Hc).
  inversion H; subst st1; clear H. split; [split; assumption|].
  unfold fa_repr; cbn [fst snd]. split; [|split; [|split]].
  - intros x. cbn [In]. rewrite in_app_iff, Hs. cbn [In]. tauto.
  - intros x. cbn [In]. rewrite in_app_iff, Hl. cbn [In]. split.
    + intros [->|[Hx Hnf]]; [|tauto]. split; [tauto|].
      intros Hf. apply Hn. apply Hsub. exact Hf.
    + tauto.
  - constructor; [|exact ND]. intros Hc. apply Hl in Hc. tauto.
  - intros x Hx. rewrite in_app_iff. left. apply Hsub. exact Hx.
Qed.

Lemma fa_alloc_id_inr : forall pa pf st i r,
  fa_repr pa pf st -> fa_alloc_id st i = inr r -> ~ (0 < i /\ ~ In i pa).
Proof.
  intros pa pf [live seen] i r (Hs & _) H. unfold fa_alloc_id in H.
  destruct ((i <=? 0) || fa_mem i seen) eqn:E; [|discriminate].
  apply orb_true_iff in E. cbn [snd] in Hs. destruct E as [E|E].
  - apply Z.leb_le in E. lia.
  - apply fa_mem_In in E. apply Hs in E. tauto.
Qed.

Lemma fa_free_id_inl : forall pa pf st i st1,
  fa_repr pa pf st -> fa_free_id st i = inl st1 ->
  (In i pa /\ ~ In i pf) /\ fa_repr pa (pf ++ [i]) st1.
Proof.
  intros pa pf [live seen] i st1 (Hs & Hl & ND & Hsub) H. unfold fa_free_id in H.
  destruct (fa_mem i live) eqn:E.
  - apply fa_mem_In in E. cbn [fst snd] in *. inversion H; subst st1; clear H.
    pose proof (proj1 (Hl i) E) as Hi. split; [exact Hi|].
    unfold fa_repr; cbn [fst snd]. split; [exact Hs|split; [|split]].
    + intros x. rewrite (fa_remove_In i live x ND), Hl, in_app_iff. cbn [In]. split.
      * intros [[Ha Hf] Hne]. split; [exact Ha|]. intros [Hc|[Hc|[]]]; [tauto|congruence].
      * intros [Ha Hf]. split; [split; [exact Ha|tauto]|]. intros ->. apply Hf. right. left. reflexivity.
    + apply fa_remove_NoDup. exact ND.
    + intros x. rewrite in_app_iff. cbn [In]. intros [Hx|[<-|[]]]; [apply Hsub; exact Hx|tauto].
  - destruct (fa_mem i seen); discriminate.
Qed.

Lemma fa_free_id_inr : forall pa pf st i r,
  fa_repr pa pf st -> fa_free_id st i = inr r -> ~ (In i pa /\ ~ In i pf).
Proof.
  intros pa pf [live seen] i r (Hs & Hl & _) H. unfold fa_free_id in H.
  destruct (fa_mem i live) eqn:E; [discriminate|].
  apply fa_mem_nIn in E. cbn [fst] in Hl. intros Hc. apply E. apply Hl. exact Hc.
Qed.

Lemma fa_repr_nil_r : forall pa pf st, fa_repr pa pf st -> fa_repr (pa ++ []) (pf ++ []) st.
Proof. intros. rewrite !app_nil_r. assumption. Qed.

Ltac fa_triv_conds :=
  repeat split; try (intros ? []); try assumption.

(* one event: the step succeeds exactly when the event's conditions hold, and the new state
   represents the extended prefix *)
Lemma fa_step_spec : forall pa pf st e,
  fa_repr pa pf st ->
  match fa_step st e with
  | inl st1 =>
      (forall i, In i (fa_ev_allocs e) -> 0 < i /\ ~ In i pa) /\
      (forall i, In i (fa_ev_frees e) -> In i pa /\ ~ In i pf) /\
      (forall i, In i (fa_ev_uses e) -> In i pa /\ ~ In i pf) /\
      fa_repr (pa ++ fa_ev_allocs e) (pf ++ fa_ev_frees e) st1
  | inr _ =>
      ~ ((forall i, In i (fa_ev_allocs e) -> 0 < i /\ ~ In i pa) /\
         (forall i, In i (fa_ev_frees e) -> In i pa /\ ~ In i pf) /\
         (forall i, In i (fa_ev_uses e) -> In i pa /\ ~ In i pf))
  end.
Proof.
  intros pa pf st e HR. destruct e as [i| |i| |o n|o]; cbn [fa_step fa_ev_allocs fa_ev_frees fa_ev_uses].
  - (* alloc *)
    destruct (fa_alloc_id st i) as [st1|r] eqn:E.
    + destruct (fa_alloc_id_inl _ _ _ _ _ HR E) as [Hc HR1].
      split; [intros x [<-|[]]; exact Hc|]. split; [intros ? []|]. split; [intros ? []|].
      rewrite app_nil_r. exact HR1.
    + pose proof (fa_alloc_id_inr _ _ _ _ _ HR E) as Hn. intros (H1 & _). apply Hn. apply H1. left. reflexivity.
  - split; [intros ? []|]. split; [intros ? []|]. split; [intros ? []|]. apply fa_repr_nil_r. exact HR.
  - (* free *)
    destruct (fa_free_id st i) as [st1|r] eqn:E.
    + destruct (fa_free_id_inl _ _ _ _ _ HR E) as [Hc HR1].
      split; [intros ? []|]. split; [intros x [<-|[]]; exact Hc|]. split; [intros ? []|].
      rewrite app_nil_r. exact HR1.
    + pose proof (fa_free_id_inr _ _ _ _ _ HR E) as Hn. intros (_ & H2 & _). apply Hn. apply H2. left. reflexivity.
  - split; [intros ? []|]. split; [intros ? []|]. split; [intros ? []|]. apply fa_repr_nil_r. exact HR.
  - (* realloc *)
    destruct (o =? 0) eqn:Eo.
    + destruct (fa_alloc_id st n) as [st1|r] eqn:E.
      * destruct (fa_alloc_id_inl _ _ _ _ _ HR E) as [Hc HR1].
        split; [intros x [<-|[]]; exact Hc|]. split; [intros ? []|]. split; [intros ? []|].
        rewrite app_nil_r. exact HR1.
      * pose proof (fa_alloc_id_inr _ _ _ _ _ HR E) as Hn. intros (H1 & _). apply Hn. apply H1. left. reflexivity.
    + destruct (fa_free_id st o) as [st1|r] eqn:E.
      * destruct (fa_free_id_inl _ _ _ _ _ HR E) as [Hc HR1].
        destruct (fa_alloc_id st1 n) as [st2|r] eqn:E2.
        -- destruct (fa_alloc_id_inl _ _ _ _ _ HR1 E2) as [Hc2 HR2].
           split; [intros x [<-|[]]; exact Hc2|]. split; [intros x [<-|[]]; exact Hc|].
           split; [intros ? []|]. exact HR2.
        -- pose proof (fa_alloc_id_inr _ _ _ _ _ HR1 E2) as Hn. intros (H1 & _). apply Hn. apply H1. left. reflexivity.
      * pose proof (fa_free_id_inr _ _ _ _ _ HR E) as Hn. intros (_ & H2 & _). apply Hn. apply H2. left. reflexivity.
  - (* failing realloc *)
    destruct (o =? 0) eqn:Eo.
    + split; [intros ? []|]. split; [intros ? []|]. split; [intros ? []|]. apply fa_repr_nil_r. exact HR.
    + destruct (fa_mem o (fst st)) eqn:E.
      * apply fa_mem_In in E. destruct HR as (Hs & Hl & ND & Hsub). apply Hl in E.
        split; [intros ? []|]. split; [intros ? []|]. split; [intros x [<-|[]]; exact E|].
        apply fa_repr_nil_r. unfold fa_repr. tauto.
      * apply fa_mem_nIn in E. destruct HR as (Hs & Hl & ND & Hsub).
        intros (_ & _ & H3). apply E. apply Hl. apply H3. left. reflexivity.
Qed.

Lemma fa_step_not_clean : forall st e, fa_step st e = inr FaClean -> False.
Proof.
  intros [live seen] e. destruct e; unfold fa_step, fa_alloc_id, fa_free_id; cbn [fst snd];
    repeat case_if; try discriminate.
Qed.

Lemma fa_run_ok_from : forall tr pa pf st,
  fa_repr pa pf st -> (fa_run st tr = FaClean <-> fa_ok_from pa pf tr).
Proof.
  induction tr as [|e tl IH]; intros pa pf st HR.
  - cbn [fa_run fa_ok_from]. destruct HR as (Hs & Hl & ND & Hsub).
    destruct (fst st) as [|x l] eqn:E.
    + split; [|reflexivity]. intros _ i Hi.
      destruct (in_dec Z.eq_dec i pf) as [Hf|Hf]; [exact Hf|].
      exfalso. assert (In i []) by (apply Hl; tauto). contradiction.
    + split; [discriminate|]. intros H. exfalso.
      assert (Hx : In x (x :: l)) by (left; reflexivity).
      apply Hl in Hx. destruct Hx as [Ha Hf]. apply Hf. apply H. exact Ha.
  - cbn [fa_run fa_ok_from]. pose proof (fa_step_spec pa pf st e HR) as HS.
    destruct (fa_step st e) as [st1|r] eqn:ES.
    + destruct HS as (H1 & H2 & H3 & HR1). rewrite (IH _ _ _ HR1). tauto.
    + split.
      * intros ->. exfalso. exact (fa_step_not_clean _ _ ES).
      * intros (H1 & H2 & H3 & _). exfalso. apply HS. tauto.
Qed.

Lemma fa_repr_init : fa_repr [] [] ([], []).
Proof.
  unfold fa_repr; cbn [fst snd]. split; [tauto|]. split; [cbn; tauto|]. split; [constructor|tauto].
Qed.

Lemma fa_allocs_app : forall a b, fa_allocs (a ++ b) = fa_allocs a ++ fa_allocs b.
Proof. intros. unfold fa_allocs. apply flat_map_app. Qed.
Lemma fa_frees_app : forall a b, fa_frees (a ++ b) = fa_frees a ++ fa_frees b.
Proof. intros. unfold fa_frees. apply flat_map_app. Qed.

(* the recursive form, started after prefix p, is the positional specification of p ++ tr
   restricted to the events of tr *)
Lemma fa_ok_from_spec : forall tr p,
  fa_ok_from (fa_allocs p) (fa_frees p) tr <->
  ((forall pre e post i, tr = pre ++ e :: post -> In i (fa_ev_allocs e) ->
       0 < i /\ ~ In i (fa_allocs (p ++ pre))) /\
   (forall pre e post i, tr = pre ++ e :: post -> In i (fa_ev_frees e) ->
       fa_live_after (p ++ pre) i) /\
   (forall pre e post i, tr = pre ++ e :: post -> In i (fa_ev_uses e) ->
       fa_live_after (p ++ pre) i) /\
   (forall i, In i (fa_allocs (p ++ tr)) -> In i (fa_frees (p ++ tr)))).
Proof.
  induction tr as [|e tl IH]; intros p.
  - cbn [fa_ok_from]. rewrite app_nil_r. split.
    + intros H. split; [|split; [|split]]; try exact H;
        intros pre e post i E; destruct pre; discriminate.
    + intros (_ & _ & _ & H). exact H.
  - cbn [fa_ok_from].
    assert (EA : fa_allocs p ++ fa_ev_allocs e = fa_allocs (p ++ [e])).
    { rewrite fa_allocs_app. unfold fa_allocs at 3. cbn [flat_map]. rewrite app_nil_r. reflexivity. }
    assert (EF : fa_frees p ++ fa_ev_frees e = fa_frees (p ++ [e])).
    { rewrite fa_frees_app. unfold fa_frees at 3. cbn [flat_map]. rewrite app_nil_r. reflexivity. }
    rewrite EA, EF, (IH (p ++ [e])).
    assert (EP : forall l, (p ++ [e]) ++ l = p ++ e :: l) by (intros; rewrite <- app_assoc; reflexivity).
    rewrite EP. split.
    + intros (H1 & H2 & H3 & G1 & G2 & G3 & G4).
      split; [|split; [|split]].
      * intros pre e0 post i E Hi.
        destruct pre as [|e1 pre]; cbn [app] in E; inversion E; subst.
        -- rewrite app_nil_r. apply H1. exact Hi.
        -- rewrite <- EP. eapply G1; [reflexivity|exact Hi].
      * intros pre e0 post i E Hi.
        destruct pre as [|e1 pre]; cbn [app] in E; inversion E; subst.
        -- rewrite app_nil_r. apply H2. exact Hi.
        -- rewrite <- EP. eapply G2; [reflexivity|exact Hi].
      * intros pre e0 post i E Hi.
        destruct pre as [|e1 pre]; cbn [app] in E; inversion E; subst.
        -- rewrite app_nil_r. apply H3. exact Hi.
        -- rewrite <- EP. eapply G3; [reflexivity|exact Hi].
      * exact G4.
    + intros (G1 & G2 & G3 & G4).
      split; [|split; [|split; [|split; [|split; [|split]]]]].
      * intros i Hi. specialize (G1 [] e tl i eq_refl Hi). rewrite app_nil_r in G1. exact G1.
      * intros i Hi. specialize (G2 [] e tl i eq_refl Hi). rewrite app_nil_r in G2. exact G2.
      * intros i Hi. specialize (G3 [] e tl i eq_refl Hi). rewrite app_nil_r in G3. exact G3.
      * intros pre e0 post i E Hi. rewrite EP. apply (G1 (e :: pre) e0 post i); [cbn [app]; f_equal; exact E|exact Hi].
      * intros pre e0 post i E Hi. rewrite EP. apply (G2 (e :: pre) e0 post i); [cbn [app]; f_equal; exact E|exact Hi].
      * intros pre e0 post i E Hi. rewrite EP. apply (G3 (e :: pre) e0 post i); [cbn [app]; f_equal; exact E|exact Hi].
      * exact G4.
Qed.

Theorem fa_verdict_clean_iff : forall tr, fa_verdict tr = FaClean <-> fa_spec tr.
Proof.
  intros tr. unfold fa_verdict. rewrite (fa_run_ok_from tr [] [] _ fa_repr_init).
  pose proof (fa_ok_from_spec tr []) as HS. cbn [app] in HS.
  change (fa_allocs []) with (@nil Z) in HS. change (fa_frees []) with (@nil Z) in HS.
  rewrite HS. split.
  - intros (H1 & H2 & H3 & H4). constructor; assumption.
  - intros [H1 H2 H3 H4]. tauto.
Qed.

(* ---- the culprits the oracle names are real *)
Lemma fa_run_leak_sound : forall tr pa pf st ids,
  fa_repr pa pf st -> fa_run st tr = FaLeak ids ->
  ids <> [] /\
  forall i, In i ids <-> In i (pa ++ fa_allocs tr) /\ ~ In i (pf ++ fa_frees tr).
Proof.
  induction tr as [|e tl IH]; intros pa pf st ids HR H.
  - cbn [fa_run] in H. destruct HR as (Hs & Hl & ND & Hsub).
    destruct (fst st) as [|x l] eqn:E; [discriminate|]. inversion H; subst ids.
    split; [discriminate|]. intros i. cbn [fa_allocs fa_frees flat_map]. rewrite !app_nil_r. apply Hl.
  - cbn [fa_run] in H. pose proof (fa_step_spec pa pf st e HR) as HS.
    destruct (fa_step st e) as [st1|r] eqn:ES.
    + destruct HS as (_ & _ & _ & HR1). destruct (IH _ _ _ _ HR1 H) as [Hne Hi].
      split; [exact Hne|]. intros i. rewrite (Hi i).
      unfold fa_allocs, fa_frees. cbn [flat_map]. rewrite !app_assoc. tauto.
    + subst r. exfalso. clear - ES. destruct st as [live seen].
      destruct e; unfold fa_step, fa_alloc_id, fa_free_id in ES; cbn [fst snd] in ES;
        repeat case_if_in ES; discriminate.
Qed.

Theorem fa_verdict_leak_sound : forall tr ids,
  fa_verdict tr = FaLeak ids ->
  ids <> [] /\ forall i, In i ids <-> In i (fa_allocs tr) /\ ~ In i (fa_frees tr).
Proof.
  intros tr ids H. exact (fa_run_leak_sound tr [] [] _ ids fa_repr_init H).
Qed.

Lemma fa_run_double_free_sound : forall tr pa pf st i,
  fa_repr pa pf st -> fa_run st tr = FaDoubleFree i ->
  exists pre e post, tr = pre ++ e :: post /\ In i (fa_ev_frees e) /\
                     In i (pf ++ fa_frees pre).
Proof.
  induction tr as [|e tl IH]; intros pa pf st i HR H.
  - cbn [fa_run] in H. destruct (fst st); discriminate.
  - cbn [fa_run] in H. pose proof (fa_step_spec pa pf st e HR) as HS.
    destruct (fa_step st e) as [st1|r] eqn:ES.
    + destruct HS as (_ & _ & _ & HR1). destruct (IH _ _ _ _ HR1 H) as (pre & e0 & post & E & Hi & Hf).
      exists (e :: pre), e0, post. split; [cbn [app]; f_equal; exact E|]. split; [exact Hi|].
      unfold fa_frees in *. cbn [flat_map]. rewrite app_assoc. exact Hf.
    + subst r. exists [], e, tl. split; [reflexivity|].
      cbn [fa_frees flat_map]. rewrite app_nil_r.
      destruct HR as (Hs & Hl & ND & Hsub). destruct st as [live seen]. cbn [fst snd] in *.
      assert (FD : forall o, fa_free_id (live, seen) o = inr (FaDoubleFree i) -> o = i /\ In i pf).
      { intros o HF. unfold fa_free_id in HF.
        destruct (fa_mem o live) eqn:E1; [discriminate|].
        destruct (fa_mem o seen) eqn:E2; [|discriminate]. inversion HF; subst o. split; [reflexivity|].
        apply fa_mem_nIn in E1. apply fa_mem_In in E2. apply Hs in E2.
        destruct (in_dec Z.eq_dec i pf) as [Hf|Hf]; [exact Hf|]. exfalso. apply E1. apply Hl. tauto. }
      destruct e as [a| |a| |o n|o]; cbn [fa_step] in ES.
      * unfold fa_alloc_id in ES. case_if_in ES; discriminate.
      * discriminate.
      * destruct (FD _ ES) as [-> Hf]. cbn [fa_ev_frees]. split; [left; reflexivity|exact Hf].
      * discriminate.
      * destruct (o =? 0) eqn:Eo.
        -- unfold fa_alloc_id in ES. case_if_in ES; discriminate.
        -- destruct (fa_free_id (live, seen) o) as [st1|r] eqn:EF.
           ++ destruct st1 as [l1 s1]. unfold fa_alloc_id in ES. case_if_in ES; discriminate.
           ++ inversion ES; subst r. destruct (FD _ EF) as [-> Hf]. cbn [fa_ev_frees]. rewrite Eo.
              split; [left; reflexivity|exact Hf].
      * destruct (o =? 0); [discriminate|]. cbn [fst] in ES. destruct (fa_mem o live); discriminate.
Qed.

Theorem fa_verdict_double_free_sound : forall tr i,
  fa_verdict tr = FaDoubleFree i ->
  exists pre e post, tr = pre ++ e :: post /\ In i (fa_ev_frees e) /\ In i (fa_frees pre).
Proof.
  intros tr i H. exact (fa_run_double_free_sound tr [] [] _ i fa_repr_init H).
Qed.

(* readable consequences of the specification *)
Lemma NoDup_app_single : forall (l : list Z) x, NoDup l /\ ~ In x l -> NoDup (l ++ [x]).
Proof.
  induction l as [|y tl IH]; intros x [ND Hn]; cbn [app].
  - constructor; [intros []|constructor].
  - inversion ND; subst. constructor.
    + rewrite in_app_iff. cbn [In]. intros [Hc|[Hc|[]]]; [contradiction|]. apply Hn. left. symmetry. exact Hc.
    + apply IH. split; [assumption|]. intros Hc. apply Hn. right. exact Hc.
Qed.

Lemma fa_spec_nodup_frees_aux : forall tr p,
  (forall pre e post i, tr = pre ++ e :: post -> In i (fa_ev_frees e) -> ~ In i (fa_frees (p ++ pre))) ->
  NoDup (fa_frees p) -> NoDup (fa_frees (p ++ tr)).
Proof.
  induction tr as [|e tl IH]; intros p H ND.
  - rewrite app_nil_r. exact ND.
  - replace (p ++ e :: tl) with ((p ++ [e]) ++ tl) by (rewrite <- app_assoc; reflexivity).
    apply IH.
    + intros pre e0 post i E Hi. rewrite <- app_assoc. cbn [app].
      apply (H (e :: pre) e0 post i); [cbn [app]; f_equal; exact E|exact Hi].
    + rewrite fa_frees_app. unfold fa_frees at 2. cbn [flat_map]. rewrite app_nil_r.
      specialize (H [] e tl). rewrite app_nil_r in H.
      destruct e as [a| |a| |o n|o]; cbn [fa_ev_frees] in *; try (rewrite app_nil_r; exact ND).
      * apply NoDup_app_single. split; [exact ND|]. apply (H a eq_refl). left. reflexivity.
      * destruct (o =? 0); [rewrite app_nil_r; exact ND|].
        apply NoDup_app_single. split; [exact ND|]. apply (H o eq_refl). left. reflexivity.
Qed.

Theorem fa_spec_no_double_free : forall tr, fa_spec tr -> NoDup (fa_frees tr).
Proof.
  intros tr [_ HF _ _]. apply (fa_spec_nodup_frees_aux tr []); [|constructor].
  intros pre e post i E Hi. cbn [app]. exact (proj2 (HF pre e post i E Hi)).
Qed.

(* non-vacuity: a trace with a growing buffer, a failed allocation, a failed realloc *)
Example fa_example_clean :
  fa_spec [FaAlloc 1; FaAlloc 2; FaRealloc 2 3; FaAllocFail; FaReallocFail 3; FaFreeNull;
           FaFree 3; FaRealloc 0 4; FaFree 1; FaFree 4].
Proof. apply fa_verdict_clean_iff. vm_compute. reflexivity. Qed.

Example fa_example_leak :
  fa_verdict [FaAlloc 1; FaAlloc 2; FaRealloc 2 3; FaFree 1] = FaLeak [3].
Proof. vm_compute. reflexivity. Qed.

Example fa_example_double_free :
  fa_verdict [FaAlloc 1; FaFree 1; FaAlloc 2; FaFree 1; FaFree 2] = FaDoubleFree 1.
Proof. vm_compute. reflexivity. Qed.

Example fa_example_stale_realloc :
  fa_verdict [FaAlloc 1; FaRealloc 1 2; FaRealloc 1 3; FaFree 2] = FaDoubleFree 1.
Proof. vm_compute. reflexivity. Qed.

Example fa_example_wild_free : fa_verdict [FaAlloc 1; FaFree 0; FaFree 1] = FaBadFree 0.
Proof. vm_compute. reflexivity. Qed.

Example fa_example_not_spec :
  ~ fa_spec [FaAlloc 1; FaAlloc 2; FaFree 1].
Proof. intros H. apply fa_verdict_clean_iff in H. vm_compute in H. discriminate. Qed.

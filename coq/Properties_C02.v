(* C02 - arbitrary network input: the parser part that a theorem can carry.  The index-level
   transcription of coap_pdu_parse / coap_pdu_parse_header / coap_pdu_parse_opt /
   next_option_safe / coap_opt_parse (Wire/ParseIdx.v) reads the received bytes only through
   checked reads and loops on fuel.  Statements only; proofs in Wire/ParseIdxProofs.v. *)
From LibcoapV Require Import Base.Tactics Base.Bytes Wire.OptCodec Wire.Pdu Wire.ParseIdx
  Wire.ParseIdxProofs Wire.ParseIdxRefine Wire.PduProofs.
Local Open Scope Z_scope.

(* for every byte string and every framing: no read outside the received bytes, termination *)
Theorem C02_parse_safe : forall p buf,
  wfb buf -> ix_parse true p buf <> IxOob /\ ix_parse true p buf <> IxFuel.
Proof. exact ix_parse_safe. Qed.
Print Assumptions C02_parse_safe.

(* coap_opt_parse on any window inside the received bytes stays inside the window *)
Theorem C02_opt_parse_safe : forall buf o e,
  wfb buf -> 0 <= o -> o + e <= len buf ->
  ix_good (ix_opt_parse buf o e)
    (fun r => let '(d, l, h) := r in 0 <= d /\ 0 <= l /\ 1 <= h <= 5 /\ h + l <= e).
Proof. exact ix_opt_parse_spec. Qed.
Print Assumptions C02_opt_parse_safe.

(* the option walk: in bounds, terminates within one unit of fuel per remaining byte *)
Theorem C02_option_walk_safe : forall buf code fuel o e maxopt good,
  wfb buf -> 0 <= o -> 0 <= e -> o + e <= len buf -> e <= Z.of_nat fuel ->
  ix_good (ix_opts fuel buf code o e maxopt good)
    (fun r => let '(os, o', e', g) := r in o <= o' /\ o' + e' = o + e /\ 0 <= e' /\
                                          (0 < e -> e' <= e)).
Proof. exact ix_opts_spec. Qed.
Print Assumptions C02_option_walk_safe.

(* the code as found (before /repo commit 3b3f0fc) read the extended-token length byte of a
   datagram that ends after its header: kept as the refutation of the unrepaired variant *)
Theorem C02_as_found_refuted : exists buf, wfb buf /\ ix_parse false UDP buf = IxOob.
Proof. exact ix_parse_as_found_reads_unreceived_byte. Qed.
Print Assumptions C02_as_found_refuted.

(* what is rejected yields no message (nothing to hand to dispatch) *)
Theorem C02_reject_no_message : forall p buf,
  ix_parse true p buf = IxRej -> forall m, ix_parse true p buf <> IxOk m.
Proof. exact ix_parse_reject_no_message. Qed.
Print Assumptions C02_reject_no_message.

(* the bounds-safe index-level parser is the same function as the list-level parser that C03
   proves sound and complete: same accept/reject, same message, for every byte string *)
Theorem C02_safe_parser_is_the_reference_parser : forall p buf,
  wfb buf -> ix_opt (ix_parse true p buf) = parse p buf.
Proof. exact ix_parse_refines. Qed.
Print Assumptions C02_safe_parser_is_the_reference_parser.

Theorem C02_safe_parser_sound_udp : forall bs m,
  wfb bs -> ix_parse true UDP bs = IxOk m -> msg_wf m /\ serialize UDP m = bs.
Proof. exact ix_parse_sound_udp. Qed.
Print Assumptions C02_safe_parser_sound_udp.

Theorem C02_safe_parser_complete : forall p m,
  msg_wf m -> wfb (serialize p m) -> ix_parse true p (serialize p m) = IxOk (norm_fields p m).
Proof. exact ix_parse_complete. Qed.
Print Assumptions C02_safe_parser_complete.

(* ---- the other byte-level readers of peer-controlled data: the same safety statements, proved
        in their owners' families, collected here because C02 quantifies over all of them ---- *)
From LibcoapV Require Import Stream.TcpReader Stream.TcpReaderProofs Oscore.Replay Oscore.ReplayProofs
  Uri.Uri Uri.Split Uri.Spec Uri.SplitProofs Uri.PathProofs Uri.BufProofs Block.RecBlocks
  Block.RecBlocksProofs.

(* TCP/TLS stream reader (coap_read_session): read_header[8] is never indexed out of bounds and
   the fuel never runs out, whatever the bytes and however they are cut (C05's model) *)
Theorem C02_tcp_reader_safe : forall c s p s' evs,
  tcp_wf c s -> wfb p -> tcp_feed c s p = (s', evs) ->
  Forall tcp_ev_clean evs.
Proof. exact tcp_feed_clean. Qed.
Print Assumptions C02_tcp_reader_safe.

(* OSCORE replay window (oscore_validate_sender_seq, driven by the peer's Partial IV): no shift
   by 64 or more bits is ever evaluated (C15's model) *)
Theorem C02_replay_window_shift_safe : forall W b12 h,
  rp_undef (snd (rp_run rp_fixed W b12 rp_init h)) = false.
Proof. exact rp_no_undef. Qed.
Print Assumptions C02_replay_window_shift_safe.

(* URI path / query splitting of a received Proxy-Uri or of application strings: no read
   outside the length-delimited input, at most buflen bytes written (C16's model) *)
Theorem C02_uri_split_path_safe : forall s buflen,
  0 <= buflen ->
  uri_buf_safe true (uri_raw_path_segs s) buflen (uri_split_path s buflen).
Proof. exact uri_split_path_safe. Qed.
Print Assumptions C02_uri_split_path_safe.

Theorem C02_uri_split_query_safe : forall s buflen,
  0 <= buflen ->
  uri_buf_safe false (uri_raw_query_items s) buflen (uri_split_query s buflen).
Proof. exact uri_split_query_safe. Qed.
Print Assumptions C02_uri_split_query_safe.

(* received-block ranges (update_received_blocks, driven by the peer's Block NUM): the
   representation invariant - sorted, disjoint, at most COAP_RBLOCK_CNT ranges, i.e. the range
   array is never indexed outside - is preserved by every update (C09's model) *)
Theorem C02_received_blocks_safe : forall r n,
  blk_inv r -> 0 <= n ->
  forall r', blk_update r n = Some r' -> blk_inv r'.
Proof. exact blk_update_inv. Qed.
Print Assumptions C02_received_blocks_safe.

(* the number of blocks a body of the peer-declared size has (coap_handle_request_put_block ->
   check_all_blocks_in): for every Size1 a peer can send and every block size the count is the
   ceiling of size / block size, so a body is never declared complete - and handed to the
   application with bytes that were never received - before all of it has arrived *)
From LibcoapV Require Import Wire.BlockCount Wire.BlockCountProofs.
Theorem C02_block_count_exact : forall total chunk,
  0 <= total < U32 -> 16 <= chunk <= 1024 ->
  let n := bc_count total chunk in
  total <= n * chunk /\ (0 < total -> (n - 1) * chunk < total) /\ (total = 0 -> n = 0).
Proof. exact bc_count_exact. Qed.
Print Assumptions C02_block_count_exact.

(* the expression of the pinned tree narrowed to 32 bits before dividing: within chunk - 1
   bytes of 2^32 the count collapsed to 0 (repaired: F-C02-6) *)
Theorem C02_block_count_as_found_refuted :
  bc_count_as_found 4294967295 64 = 0 /\ bc_count 4294967295 64 = 67108864 /\
  bc_count_as_found 4294967233 64 = 0 /\ bc_count_as_found 4294967232 64 = 67108863.
Proof. exact bc_count_as_found_refuted. Qed.
Print Assumptions C02_block_count_as_found_refuted.

(* Proofs about the TCP stream reader model (Stream/TcpReader.v). *)
From LibcoapV Require Import Base.Tactics Base.Bytes Base.BytesProofs Wire.OptCodec Wire.Pdu
  Stream.TcpReader.
Local Open Scope Z_scope.

(* ------------------------------------------------------------------ list helpers *)

Lemma tcp_len_length {A} (l : list A) : len l = Z.of_nat (length l).
Proof. reflexivity. Qed.

Lemma tcp_take_nonpos {A} n (l : list A) : n <= 0 -> take n l = [].
Proof. intros H. unfold take. replace (Z.to_nat n) with 0%nat by lia. reflexivity. Qed.

Lemma tcp_drop_nonpos {A} n (l : list A) : n <= 0 -> drop n l = l.
Proof. intros H. unfold drop. replace (Z.to_nat n) with 0%nat by lia. reflexivity. Qed.

Lemma tcp_take_all {A} n (l : list A) : len l <= n -> take n l = l.
Proof. unfold take, len. intros H. apply firstn_all2. lia. Qed.

Lemma tcp_drop_all {A} n (l : list A) : len l <= n -> drop n l = [].
Proof. unfold drop, len. intros H. apply skipn_all2. lia. Qed.

Lemma tcp_take_app_le {A} n (a b : list A) : n <= len a -> take n (a ++ b) = take n a.
Proof.
  unfold take, len. intros H. rewrite firstn_app.
  replace (Z.to_nat n - length a)%nat with 0%nat by lia. cbn [firstn]. apply app_nil_r.
Qed.

Lemma tcp_take_app_ge {A} n (a b : list A) :
  len a <= n -> take n (a ++ b) = a ++ take (n - len a) b.
Proof.
  unfold take, len. intros H. rewrite firstn_app.
  rewrite firstn_all2 by lia. f_equal. f_equal. lia.
Qed.

Lemma tcp_drop_app_le {A} n (a b : list A) : n <= len a -> drop n (a ++ b) = drop n a ++ b.
Proof.
  unfold drop, len. intros H. rewrite skipn_app.
  replace (Z.to_nat n - length a)%nat with 0%nat by lia. reflexivity.
Qed.

Lemma tcp_drop_app_ge {A} n (a b : list A) :
  len a <= n -> drop n (a ++ b) = drop (n - len a) b.
Proof.
  unfold drop, len. intros H. rewrite skipn_app.
  rewrite skipn_all2 by lia. cbn [app]. f_equal. lia.
Qed.

Lemma tcp_len_take_min {A} n (l : list A) : 0 <= n -> len (take n l) = Z.min n (len l).
Proof. unfold take, len. intros H. rewrite firstn_length. lia. Qed.

Lemma tcp_len_drop_sub {A} n (l : list A) : 0 <= n -> len (drop n l) = Z.max 0 (len l - n).
Proof. unfold drop, len. intros H. rewrite skipn_length. lia. Qed.

Lemma tcp_length_drop {A} n (l : list A) :
  1 <= n -> l <> [] -> (length (drop n l) < length l)%nat.
Proof.
  intros H Hl. unfold drop. rewrite skipn_length. destruct l; [congruence|]. cbn [length]. lia.
Qed.

(* ------------------------------------------------------------------ header arithmetic *)

Lemma tcp_hdr_size_cases b0 :
  tcp_hdr_size b0 = 2 \/ tcp_hdr_size b0 = 3 \/ tcp_hdr_size b0 = 4 \/ tcp_hdr_size b0 = 6.
Proof. unfold tcp_hdr_size, header_size. repeat case_if; lia. Qed.

Lemma tcp_tok_ext_cases b0 : tcp_tok_ext b0 = 0 \/ tcp_tok_ext b0 = 1 \/ tcp_tok_ext b0 = 2.
Proof. unfold tcp_tok_ext. repeat case_if; lia. Qed.

Lemma tcp_hdr_len_range b0 : 2 <= tcp_hdr_len b0 <= 8.
Proof.
  unfold tcp_hdr_len. pose proof (tcp_hdr_size_cases b0). pose proof (tcp_tok_ext_cases b0). lia.
Qed.

Lemma tcp_hdr_size_le_len b0 : 2 <= tcp_hdr_size b0 <= tcp_hdr_len b0.
Proof.
  unfold tcp_hdr_len. pose proof (tcp_hdr_size_cases b0). pose proof (tcp_tok_ext_cases b0). lia.
Qed.

Ltac tcp_wfb_inv :=
  repeat match goal with
         | H : wfb (_ :: _) |- _ => apply wfb_cons in H; destruct H
         end.

Ltac tcp_expose r :=
  let x := fresh "x" in
  destruct r as [|x r];
  [ exfalso; repeat rewrite len_cons in *; rewrite ?len_nil in *; lia | ].

(* the token part only reads the extension bytes and is bounded below *)
Lemma tcp_tok_size_spec b0 ts t :
  wfb ts -> tcp_tok_size (b0 mod 16) ts = Some t ->
  (tcp_tok_ext b0 = 0 /\ 0 <= t <= 12) \/ (tcp_tok_ext b0 = 1 /\ 14 <= t) \/
  (tcp_tok_ext b0 = 2 /\ 271 <= t).
Proof.
  intros W. unfold tcp_tok_size, tcp_tok_ext.
  assert (0 <= b0 mod 16 < 16) by (apply Z.mod_pos_bound; lia).
  destruct (b0 mod 16 <? 13) eqn:E1.
  - intros [= <-]. left. replace (b0 mod 16 =? 13) with false by lia.
    replace (b0 mod 16 =? 14) with false by lia. lia.
  - destruct (b0 mod 16 =? 13) eqn:E2.
    + destruct ts as [|t0 ts]; [discriminate|]. intros [= <-]. tcp_wfb_inv.
      unfold is_byte in *. right; left. lia.
    + destruct (b0 mod 16 =? 14) eqn:E3.
      * destruct ts as [|t0 [|t1 ts]]; try discriminate. intros [= <-]. tcp_wfb_inv.
        unfold is_byte in *. right; right. lia.
      * intros [= <-]. left. lia.
Qed.

Lemma tcp_tok_size_defined b0 ts :
  tcp_tok_ext b0 <= len ts -> exists t, tcp_tok_size (b0 mod 16) ts = Some t.
Proof.
  unfold tcp_tok_size, tcp_tok_ext.
  destruct (b0 mod 16 <? 13) eqn:E1; [eexists; reflexivity|].
  destruct (b0 mod 16 =? 13) eqn:E2.
  - intros H. destruct ts as [|t0 ts]; [rewrite len_nil in H; lia|]. eexists; reflexivity.
  - destruct (b0 mod 16 =? 14) eqn:E3; [|eexists; reflexivity].
    intros H. destruct ts as [|t0 [|t1 ts]]; repeat rewrite len_cons in H; rewrite ?len_nil in H;
      try lia. eexists; reflexivity.
Qed.

(* tcp_tok_size depends only on the first tcp_tok_ext bytes *)
Lemma tcp_tok_size_prefix b0 ts more :
  tcp_tok_ext b0 <= len ts -> tcp_tok_size (b0 mod 16) (ts ++ more) = tcp_tok_size (b0 mod 16) ts.
Proof.
  unfold tcp_tok_size, tcp_tok_ext.
  destruct (b0 mod 16 <? 13) eqn:E1; [reflexivity|].
  destruct (b0 mod 16 =? 13) eqn:E2.
  - intros H. destruct ts as [|t0 ts]; [rewrite len_nil in H; lia|]. reflexivity.
  - destruct (b0 mod 16 =? 14) eqn:E3; [|reflexivity].
    intros H. destruct ts as [|t0 [|t1 ts]]; repeat rewrite len_cons in H; rewrite ?len_nil in H;
      try lia. reflexivity.
Qed.

(* shape of a header of exactly / at least tcp_hdr_len bytes: b0, the extended length bytes,
   the code, then the token-extension bytes *)
Lemma tcp_parse_size_split b0 r :
  tcp_hdr_len b0 <= len (b0 :: r) ->
  exists ext code ts base,
    r = ext ++ code :: ts /\ len ext = tcp_hdr_size b0 - 2 /\ tcp_tok_ext b0 <= len ts /\
    tcp_parse_size (b0 :: r) = tcp_add_tok base (b0 mod 16) ts /\
    (wfb (b0 :: ext) -> 0 <= base) /\
    (forall more, tcp_parse_size (b0 :: r ++ more) = tcp_add_tok base (b0 mod 16) (ts ++ more)).
Proof.
  unfold tcp_hdr_len, tcp_hdr_size, header_size, tcp_parse_size. rewrite len_cons.
  pose proof (tcp_tok_ext_cases b0) as Hte. pose proof (len_nonneg r) as Hr.
  destruct (b0 / 16 <? 13) eqn:E1.
  - intros H. tcp_expose r. exists [], x, r, (b0 / 16). cbn [app]. rewrite len_cons in H.
    repeat split; try reflexivity; try lia.
    intros W. tcp_wfb_inv. unfold is_byte in *. lia.
  - destruct (b0 / 16 =? 13) eqn:E2.
    + intros H. tcp_expose r. tcp_expose r. exists [x], x0, r, (x + 13). cbn [app].
      repeat rewrite len_cons in H.
      repeat split; try reflexivity; try lia.
      intros W. tcp_wfb_inv. unfold is_byte in *. lia.
    + destruct (b0 / 16 =? 14) eqn:E3.
      * intros H. tcp_expose r. tcp_expose r. tcp_expose r.
        exists [x; x0], x1, r, (x * 256 + x0 + 269). cbn [app]. repeat rewrite len_cons in H.
        repeat split; try reflexivity; try lia.
        intros W. tcp_wfb_inv. unfold is_byte in *. lia.
      * intros H. tcp_expose r. tcp_expose r. tcp_expose r. tcp_expose r. tcp_expose r.
        exists [x; x0; x1; x2], x3, r, (x * 16777216 + x0 * 65536 + x1 * 256 + x2 + 65805).
        cbn [app]. repeat rewrite len_cons in H.
        repeat split; try reflexivity; try lia.
        intros W. tcp_wfb_inv. unfold is_byte in *. lia.
Qed.

Lemma tcp_parse_size_defined b0 r :
  tcp_hdr_len b0 <= len (b0 :: r) -> exists size, tcp_parse_size (b0 :: r) = Some size.
Proof.
  intros H. destruct (tcp_parse_size_split b0 r H) as (ext & code & ts & base & _ & _ & Hts & Heq & _).
  rewrite Heq. unfold tcp_add_tok.
  destruct (tcp_tok_size_defined b0 ts Hts) as (t & ->). eexists; reflexivity.
Qed.

Lemma tcp_parse_size_lower b0 r size :
  wfb (b0 :: r) -> tcp_hdr_len b0 <= len (b0 :: r) -> tcp_parse_size (b0 :: r) = Some size ->
  (tcp_tok_ext b0 = 0 /\ 0 <= size) \/ (tcp_tok_ext b0 = 1 /\ 14 <= size) \/
  (tcp_tok_ext b0 = 2 /\ 271 <= size).
Proof.
  intros W H. destruct (tcp_parse_size_split b0 r H) as (ext & code & ts & base & Hr & _ & Hts & Heq & Hb & _).
  rewrite Heq. unfold tcp_add_tok. subst r.
  apply wfb_cons in W. destruct W as [W0 W]. apply wfb_app in W. destruct W as [We W].
  apply wfb_cons in W. destruct W as [_ Wt].
  assert (Hb' : 0 <= base) by (apply Hb; apply wfb_cons; split; assumption).
  destruct (tcp_tok_size (b0 mod 16) ts) as [t|] eqn:Et; [|discriminate].
  intros [= <-]. destruct (tcp_tok_size_spec b0 ts t Wt Et) as [?|[?|?]]; lia.
Qed.

(* the size is determined by the first tcp_hdr_len bytes *)
Lemma tcp_parse_size_prefix b0 r more :
  tcp_hdr_len b0 <= len (b0 :: r) ->
  tcp_parse_size (b0 :: r ++ more) = tcp_parse_size (b0 :: r).
Proof.
  intros H. destruct (tcp_parse_size_split b0 r H) as (ext & code & ts & base & _ & _ & Hts & Heq & _ & Hm).
  rewrite Hm, Heq. unfold tcp_add_tok. rewrite tcp_tok_size_prefix by assumption. reflexivity.
Qed.

Lemma tcp_parse_size_take bs b0 r :
  bs = b0 :: r -> tcp_hdr_len b0 <= len bs ->
  tcp_parse_size (take (tcp_hdr_len b0) bs) = tcp_parse_size bs.
Proof.
  intros -> H. pose proof (tcp_hdr_len_range b0) as Hr.
  rewrite <- (take_drop (tcp_hdr_len b0) (b0 :: r)) at 2.
  assert (Ht : exists r', take (tcp_hdr_len b0) (b0 :: r) = b0 :: r').
  { unfold take. destruct (Z.to_nat (tcp_hdr_len b0)) eqn:En; [lia|]. cbn [firstn]. eexists; reflexivity. }
  destruct Ht as (r' & Ht). rewrite Ht. cbn [app]. symmetry. apply tcp_parse_size_prefix.
  rewrite <- Ht. rewrite len_take; lia.
Qed.

(* ------------------------------------------------------------------ the splitter *)

Lemma tcp_split_S c F b0 r :
  tcp_split (S F) c (b0 :: r) =
  let bs := b0 :: r in
  let hl := tcp_hdr_len b0 in
  if len bs <? hl then ([], Some bs)
  else
    match tcp_parse_size (take hl bs) with
    | None => ([TOob], None)
    | Some size =>
        if tcp_oversize c size then ([TClose], None)
        else
          let total := tcp_hdr_size b0 + size in
          if len bs <? total then ([], Some bs)
          else
            let '(e, r) := tcp_split F c (drop total bs) in
            (TMsg (take total bs) :: e, r)
    end.
Proof. reflexivity. Qed.

Lemma tcp_split_nil c F : tcp_split F c [] = ([], Some []).
Proof. destruct F; reflexivity. Qed.

(* a complete header announces a frame that is at least as long as the header *)
Lemma tcp_total_ge b0 r size :
  wfb (b0 :: r) -> tcp_hdr_len b0 <= len (b0 :: r) ->
  tcp_parse_size (take (tcp_hdr_len b0) (b0 :: r)) = Some size ->
  tcp_hdr_len b0 <= tcp_hdr_size b0 + size /\
  (size = 0 -> tcp_tok_ext b0 = 0) /\ (0 < size -> tcp_hdr_len b0 < tcp_hdr_size b0 + size).
Proof.
  intros W H Hs. rewrite (tcp_parse_size_take _ b0 r eq_refl H) in Hs.
  pose proof (tcp_parse_size_lower b0 r size W H Hs). unfold tcp_hdr_len. lia.
Qed.

Lemma tcp_split_fuel c : forall F1 F2 bs,
  wfb bs -> (length bs <= F1)%nat -> (length bs <= F2)%nat ->
  tcp_split F1 c bs = tcp_split F2 c bs.
Proof.
  induction F1 as [|F1 IH]; intros F2 bs W H1 H2.
  - destruct bs; [|cbn [length] in H1; lia]. rewrite !tcp_split_nil. reflexivity.
  - destruct bs as [|b0 r]; [rewrite !tcp_split_nil; reflexivity|].
    destruct F2 as [|F2]; [cbn [length] in H2; lia|].
    rewrite !tcp_split_S. cbv zeta.
    destruct (len (b0 :: r) <? tcp_hdr_len b0) eqn:E1; [reflexivity|].
    destruct (tcp_parse_size (take (tcp_hdr_len b0) (b0 :: r))) as [size|] eqn:Es; [|reflexivity].
    destruct (tcp_oversize c size); [reflexivity|].
    destruct (len (b0 :: r) <? tcp_hdr_size b0 + size) eqn:E2; [reflexivity|].
    destruct (tcp_total_ge b0 r size W ltac:(lia) Es) as (Ht & _).
    pose proof (tcp_hdr_len_range b0) as Hr.
    assert (Hl : (length (drop (tcp_hdr_size b0 + size) (b0 :: r)) < length (b0 :: r))%nat)
      by (apply tcp_length_drop; [lia|congruence]).
    rewrite (IH F2 (drop (tcp_hdr_size b0 + size) (b0 :: r))); [reflexivity| |lia|lia].
    apply wfb_drop; assumption.
Qed.

Lemma tcp_frames_fuel c F bs :
  wfb bs -> (length bs <= F)%nat -> tcp_split F c bs = tcp_frames c bs.
Proof. intros W H. unfold tcp_frames. apply tcp_split_fuel; [assumption|lia|lia]. Qed.

(* the splitter is incremental: what it left over, followed by more bytes, continues the split *)
Lemma tcp_split_app c : forall F x y e1 r1,
  wfb x -> wfb y -> (length x <= F)%nat -> tcp_split F c x = (e1, r1) ->
  tcp_frames c (x ++ y) =
  match r1 with
  | None => (e1, None)
  | Some r => let '(e2, r2) := tcp_frames c (r ++ y) in (e1 ++ e2, r2)
  end.
Proof.
  induction F as [|F IH]; intros x y e1 r1 Wx Wy HF Hx.
  - destruct x; [|cbn [length] in HF; lia]. rewrite tcp_split_nil in Hx. inversion Hx; subst.
    cbn [app]. destruct (tcp_frames c y). reflexivity.
  - destruct x as [|b0 r].
    { rewrite tcp_split_nil in Hx. inversion Hx; subst. cbn [app].
      destruct (tcp_frames c y). reflexivity. }
    rewrite tcp_split_S in Hx. cbv zeta in Hx.
    destruct (len (b0 :: r) <? tcp_hdr_len b0) eqn:E1.
    { inversion Hx; subst. destruct (tcp_frames c ((b0 :: r) ++ y)). reflexivity. }
    assert (Wxy : wfb ((b0 :: r) ++ y)) by (apply wfb_app; split; assumption).
    unfold tcp_frames at 1. change ((b0 :: r) ++ y) with (b0 :: (r ++ y)) at 1 2.
    cbn [length]. rewrite tcp_split_S. cbv zeta.
    change (b0 :: r ++ y) with ((b0 :: r) ++ y).
    pose proof (len_nonneg y) as Hy. rewrite len_app.
    replace (len (b0 :: r) + len y <? tcp_hdr_len b0) with false by lia.
    rewrite tcp_take_app_le by lia.
    destruct (tcp_parse_size (take (tcp_hdr_len b0) (b0 :: r))) as [size|] eqn:Es.
    2:{ inversion Hx; subst. reflexivity. }
    destruct (tcp_oversize c size) eqn:Eo.
    { inversion Hx; subst. reflexivity. }
    destruct (len (b0 :: r) <? tcp_hdr_size b0 + size) eqn:E2.
    { inversion Hx; subst.
      (* the right-hand side is the same computation *)
      match goal with |- ?L = _ => set (lhs := L) end.
      unfold tcp_frames. change ((b0 :: r) ++ y) with (b0 :: (r ++ y)).
      cbn [length]. rewrite tcp_split_S. cbv zeta.
      change (b0 :: r ++ y) with ((b0 :: r) ++ y). rewrite len_app.
      replace (len (b0 :: r) + len y <? tcp_hdr_len b0) with false by lia.
      rewrite tcp_take_app_le by lia. rewrite Es, Eo. subst lhs.
      destruct (len (b0 :: r) + len y <? tcp_hdr_size b0 + size); [reflexivity|].
      destruct (tcp_split (length (r ++ y)) c (drop (tcp_hdr_size b0 + size) ((b0 :: r) ++ y))).
      reflexivity. }
    replace (len (b0 :: r) + len y <? tcp_hdr_size b0 + size) with false by lia.
    destruct (tcp_total_ge b0 r size Wx ltac:(lia) Es) as (Ht & _).
    pose proof (tcp_hdr_len_range b0) as Hr.
    rewrite tcp_take_app_le by lia. rewrite tcp_drop_app_le by lia.
    set (total := tcp_hdr_size b0 + size) in *.
    destruct (tcp_split F c (drop total (b0 :: r))) as [e r'] eqn:Er.
    inversion Hx; subst e1 r1.
    assert (Hl : (length (drop total (b0 :: r)) < length (b0 :: r))%nat)
      by (apply tcp_length_drop; [lia|congruence]).
    assert (Wd : wfb (drop total (b0 :: r))) by (apply wfb_drop; assumption).
    rewrite (tcp_frames_fuel c (length (r ++ y)) (drop total (b0 :: r) ++ y)).
    2:{ apply wfb_app; split; assumption. }
    2:{ rewrite !app_length. cbn [length] in *. lia. }
    rewrite (IH (drop total (b0 :: r)) y e r' Wd Wy ltac:(lia) Er).
    destruct r' as [rr|]; [|reflexivity].
    destruct (tcp_frames c (rr ++ y)). reflexivity.
Qed.

(* the splitter reports only frames and Close on byte strings *)
Definition tcp_ev_clean (e : tcp_ev) : Prop :=
  match e with TMsg _ | TClose => True | _ => False end.

Lemma tcp_split_clean c : forall F bs e r,
  wfb bs -> (length bs <= F)%nat -> tcp_split F c bs = (e, r) -> Forall tcp_ev_clean e.
Proof.
  induction F as [|F IH]; intros bs e r W HF H.
  - destruct bs; [|cbn [length] in HF; lia]. rewrite tcp_split_nil in H. inversion H. constructor.
  - destruct bs as [|b0 rr]; [rewrite tcp_split_nil in H; inversion H; constructor|].
    rewrite tcp_split_S in H. cbv zeta in H.
    destruct (len (b0 :: rr) <? tcp_hdr_len b0) eqn:E1; [inversion H; constructor|].
    assert (Hd : exists size, tcp_parse_size (take (tcp_hdr_len b0) (b0 :: rr)) = Some size).
    { rewrite (tcp_parse_size_take _ b0 rr eq_refl) by lia. apply tcp_parse_size_defined. lia. }
    destruct Hd as (size & Es). rewrite Es in H.
    destruct (tcp_oversize c size); [inversion H; repeat constructor|].
    destruct (len (b0 :: rr) <? tcp_hdr_size b0 + size) eqn:E2; [inversion H; constructor|].
    destruct (tcp_total_ge b0 rr size W ltac:(lia) Es) as (Ht & _).
    pose proof (tcp_hdr_len_range b0) as Hr.
    destruct (tcp_split F c (drop (tcp_hdr_size b0 + size) (b0 :: rr))) as [e' r'] eqn:Er.
    inversion H; subst. constructor; [exact I|].
    assert (Hl : (length (drop (tcp_hdr_size b0 + size) (b0 :: rr)) < length (b0 :: rr))%nat)
      by (apply tcp_length_drop; [lia|congruence]).
    eapply IH; [|
      |exact Er]; [apply wfb_drop; assumption|lia].
Qed.

(* ------------------------------------------------------------------ the reader refines the splitter *)

Definition tcp_wf (c : tcp_cfg) (s : tcp_rstate) : Prop :=
  match s with
  | TIdle | TClosed => True
  | THdr h => wfb h /\ exists b0 r, h = b0 :: r /\ len h < tcp_hdr_len b0
  | TBody acc total =>
      wfb acc /\ exists b0 r size,
        acc = b0 :: r /\ tcp_hdr_len b0 <= len acc < total /\
        tcp_parse_size (take (tcp_hdr_len b0) acc) = Some size /\
        tcp_oversize c size = false /\ total = tcp_hdr_size b0 + size
  end.

(* what a well-formed state holds is an incomplete frame *)
Lemma tcp_frames_pending c s pend :
  tcp_wf c s -> tcp_pending s = Some pend -> tcp_frames c pend = ([], Some pend).
Proof.
  destruct s as [|h|acc total|]; cbn [tcp_wf tcp_pending]; intros W [= <-].
  - reflexivity.
  - destruct W as (Wb & b0 & r & -> & Hl). unfold tcp_frames. cbn [length]. rewrite tcp_split_S.
    cbv zeta. replace (len (b0 :: r) <? tcp_hdr_len b0) with true by lia. reflexivity.
  - destruct W as (Wb & b0 & r & size & -> & Hl & Hs & Ho & ->). unfold tcp_frames. cbn [length].
    rewrite tcp_split_S. cbv zeta.
    replace (len (b0 :: r) <? tcp_hdr_len b0) with false by lia. rewrite Hs, Ho.
    replace (len (b0 :: r) <? tcp_hdr_size b0 + size) with true by lia. reflexivity.
Qed.

Lemma tcp_frames_cons_unfold c b0 r :
  tcp_frames c (b0 :: r) = tcp_split (S (length r)) c (b0 :: r).
Proof. reflexivity. Qed.

Lemma tcp_iter_refines c s p pend s1 e1 rest :
  tcp_wf c s -> wfb p -> p <> [] -> tcp_pending s = Some pend ->
  tcp_iter true c s p = (s1, e1, rest) ->
  tcp_wf c s1 /\ wfb rest /\ (length rest < length p)%nat /\
  (tcp_pending s1 = None -> rest = []) /\
  tcp_frames c (pend ++ p) =
  match tcp_pending s1 with
  | None => (e1, None)
  | Some pend1 => let '(e2, r2) := tcp_frames c (pend1 ++ rest) in (e1 ++ e2, r2)
  end.
Proof.
  intros W Wp Hp Hpend Hit.
  assert (Hlp : 1 <= len p).
  { destruct p; [congruence|]. rewrite len_cons. pose proof (len_nonneg p). lia. }
  destruct s as [|h|acc total|]; cbn [tcp_pending] in Hpend; inversion Hpend; subst pend; clear Hpend.
  - (* first byte *)
    destruct p as [|b r]; [congruence|]. cbn [tcp_iter] in Hit.
    pose proof (tcp_hdr_size_cases b) as Hc.
    replace (tcp_hdr_size b =? 0) with false in Hit by lia. inversion Hit; subst. clear Hit.
    apply wfb_cons in Wp. destruct Wp as [Hb Wr].
    pose proof (tcp_hdr_len_range b) as Hr.
    repeat split.
    + apply wfb_cons. split; [assumption|constructor].
    + exists b, []. split; [reflexivity|]. rewrite len_cons, len_nil. lia.
    + assumption.
    + cbn [length]. lia.
    + cbn [tcp_pending]. discriminate.
    + cbn [tcp_pending app]. destruct (tcp_frames c (b :: rest)). reflexivity.
  - (* rest of the header *)
    cbn [tcp_wf] in W. destruct W as (Wh & b0 & hr & -> & Hl).
    cbn [tcp_iter] in Hit.
    pose proof (tcp_hdr_len_range b0) as Hr.
    pose proof (len_nonneg (b0 :: hr)) as Hh0.
    set (h := b0 :: hr) in *.
    set (l := tcp_hdr_size b0 + tcp_tok_ext b0 - len h) in *.
    assert (Hl' : l = tcp_hdr_len b0 - len h) by reflexivity.
    set (n := Z.min l (len p)) in *.
    assert (Hn : 1 <= n <= len p) by lia.
    assert (Hlen' : len (h ++ take n p) = len h + n) by (rewrite len_app, len_take; lia).
    assert (Wh' : wfb (h ++ take n p)) by (apply wfb_app; split; [assumption|apply wfb_take; assumption]).
    assert (Wd : wfb (drop n p)) by (apply wfb_drop; assumption).
    assert (Hdl : (length (drop n p) < length p)%nat) by (apply tcp_length_drop; [lia|assumption]).
    replace (tcp_hdr_buf <? len (h ++ take n p)) with false in Hit by (unfold tcp_hdr_buf; lia).
    destruct (n =? l) eqn:En.
    + (* header complete *)
      assert (Hnl : n = l) by lia.
      assert (Hh' : h ++ take n p = b0 :: (hr ++ take n p)) by reflexivity.
      assert (Hfull : tcp_hdr_len b0 <= len (b0 :: (hr ++ take n p))) by (rewrite <- Hh'; lia).
      destruct (tcp_parse_size_defined b0 _ Hfull) as (size & Es).
      rewrite <- Hh' in Es. rewrite Es in Hit.
      assert (Htk : take (tcp_hdr_len b0) (h ++ p) = h ++ take n p).
      { rewrite tcp_take_app_ge by lia. f_equal. f_equal. lia. }
      assert (Hdk : drop (tcp_hdr_len b0) (h ++ p) = drop n p).
      { rewrite tcp_drop_app_ge by lia. f_equal. lia. }
      assert (Hunf : tcp_frames c (h ++ p) =
                     if tcp_oversize c size then ([TClose], None)
                     else let total := tcp_hdr_size b0 + size in
                          if len (h ++ p) <? total then ([], Some (h ++ p))
                          else let '(e, r) := tcp_split (length (hr ++ p)) c (drop total (h ++ p)) in
                               (TMsg (take total (h ++ p)) :: e, r)).
      { change (h ++ p) with (b0 :: (hr ++ p)). rewrite tcp_frames_cons_unfold, tcp_split_S. cbv zeta.
        change (b0 :: hr ++ p) with (h ++ p). rewrite len_app.
        replace (len h + len p <? tcp_hdr_len b0) with false by lia.
        rewrite Htk, Es. reflexivity. }
      assert (Wfull : wfb (b0 :: (hr ++ take n p))) by (rewrite <- Hh'; assumption).
      assert (Es' : tcp_parse_size (take (tcp_hdr_len b0) (b0 :: (hr ++ take n p))) = Some size).
      { rewrite <- Hh'. rewrite tcp_take_all by lia. exact Es. }
      destruct (tcp_total_ge b0 _ size Wfull Hfull Es') as (Hge & Hz & Hpos).
      destruct (tcp_oversize c size) eqn:Eo.
      * inversion Hit; subst. clear Hit. cbn [tcp_pending tcp_wf].
        repeat split; try exact I; try constructor. { destruct p; [congruence|]. cbn [length]. lia. }
        exact Hunf.
      * destruct (size =? 0) eqn:Ez.
        -- assert (size = 0) by lia. subst size. specialize (Hz eq_refl).
           inversion Hit; subst s1 e1 rest. clear Hit. cbn [tcp_pending tcp_wf app].
           repeat split; try exact I; try assumption; try discriminate.
           rewrite Hunf. cbv zeta. rewrite len_app.
           assert (Htot : tcp_hdr_size b0 + 0 = tcp_hdr_len b0) by (unfold tcp_hdr_len; lia).
           rewrite Htot. replace (len h + len p <? tcp_hdr_len b0) with false by lia.
           rewrite Htk, Hdk.
           rewrite (tcp_frames_fuel c (length (hr ++ p)) (drop n p)); [|assumption|].
           2:{ rewrite app_length. lia. }
           destruct (tcp_frames c (drop n p)). reflexivity.
        -- assert (Hsz : 0 < size).
           { pose proof (tcp_parse_size_lower b0 _ size Wfull Hfull) as Hlow.
             rewrite <- Hh' in Hlow. specialize (Hlow Es). lia. }
           specialize (Hpos Hsz).
           inversion Hit; subst s1 e1 rest. clear Hit. cbn [tcp_pending tcp_wf app].
           repeat split; try assumption; try discriminate.
           ++ exists b0, (hr ++ take n p), size. rewrite <- Hh'.
              repeat split; try assumption; try lia.
           ++ rewrite <- app_assoc. rewrite take_drop.
              change (b0 :: hr ++ p) with (h ++ p).
              destruct (tcp_frames c (h ++ p)). reflexivity.
    + (* still inside the header *)
      assert (Hnp : n = len p) by lia.
      assert (Hta : take n p = p) by (apply tcp_take_all; lia).
      assert (Hda : drop n p = []) by (apply tcp_drop_all; lia).
      rewrite Hta, Hda in Hit. inversion Hit; subst s1 e1 rest. clear Hit.
      cbn [tcp_pending tcp_wf].
      refine (conj _ (conj _ (conj _ (conj _ _)))).
      * split; [change (wfb (h ++ p)); apply wfb_app; split; assumption|].
        exists b0, (hr ++ p). split; [reflexivity|]. change (b0 :: hr ++ p) with (h ++ p).
        rewrite len_app. lia.
      * constructor.
      * destruct p; [congruence|]. cbn [length]. lia.
      * discriminate.
      * rewrite app_nil_r. change (b0 :: hr ++ p) with (h ++ p).
        destruct (tcp_frames c (h ++ p)). reflexivity.
  - (* body *)
    cbn [tcp_wf] in W. destruct W as (Wa & b0 & ar & size & -> & Hl & Hs & Ho & ->).
    cbn [tcp_iter] in Hit.
    pose proof (tcp_hdr_len_range b0) as Hr.
    set (acc := b0 :: ar) in *. set (total := tcp_hdr_size b0 + size) in *.
    set (l := total - len acc) in *.
    set (n := Z.min l (len p)) in *.
    assert (Hn : 1 <= n <= len p) by lia.
    assert (Wd : wfb (drop n p)) by (apply wfb_drop; assumption).
    assert (Hdl : (length (drop n p) < length p)%nat) by (apply tcp_length_drop; [lia|assumption]).
    destruct (n =? l) eqn:En.
    + assert (Hnl : n = l) by lia.
      inversion Hit; subst s1 e1 rest. clear Hit. cbn [tcp_pending tcp_wf app].
      repeat split; try exact I; try assumption; try discriminate.
      change (acc ++ p) with (b0 :: (ar ++ p)). rewrite tcp_frames_cons_unfold, tcp_split_S. cbv zeta.
      change (b0 :: ar ++ p) with (acc ++ p). rewrite len_app.
      replace (len acc + len p <? tcp_hdr_len b0) with false by lia.
      rewrite tcp_take_app_le by lia. rewrite Hs, Ho. fold total.
      replace (len acc + len p <? total) with false by lia.
      rewrite tcp_take_app_ge by lia. rewrite tcp_drop_app_ge by lia.
      replace (total - len acc) with n by lia.
      rewrite (tcp_frames_fuel c (length (ar ++ p)) (drop n p)); [|assumption|].
      2:{ rewrite app_length. lia. }
      destruct (tcp_frames c (drop n p)). reflexivity.
    + assert (Hnp : n = len p) by lia.
      assert (Hta : take n p = p) by (apply tcp_take_all; lia).
      assert (Hda : drop n p = []) by (apply tcp_drop_all; lia).
      rewrite Hta, Hda in Hit. inversion Hit; subst s1 e1 rest. clear Hit.
      cbn [tcp_pending tcp_wf].
      refine (conj _ (conj _ (conj _ (conj _ _)))).
      * split; [change (wfb (acc ++ p)); apply wfb_app; split; assumption|].
        exists b0, (ar ++ p), size.
        refine (conj eq_refl (conj _ (conj _ (conj Ho eq_refl)))).
        -- change (b0 :: ar ++ p) with (acc ++ p). rewrite len_app. lia.
        -- change (b0 :: ar ++ p) with (acc ++ p). rewrite tcp_take_app_le by lia. exact Hs.
      * constructor.
      * destruct p; [congruence|]. cbn [length]. lia.
      * discriminate.
      * rewrite app_nil_r. change (b0 :: ar ++ p) with (acc ++ p).
        destruct (tcp_frames c (acc ++ p)). reflexivity.
Qed.

Lemma tcp_loop_nil fuel fx c s : tcp_loop fuel fx c s [] = (s, []).
Proof. destruct fuel; reflexivity. Qed.

Lemma tcp_loop_closed fx c : forall fuel p,
  (length p <= fuel)%nat -> tcp_loop fuel fx c TClosed p = (TClosed, []).
Proof.
  intros fuel p H. destruct p as [|b r]; [apply tcp_loop_nil|].
  destruct fuel as [|f]; [cbn [length] in H; lia|].
  cbn [tcp_loop tcp_iter]. rewrite tcp_loop_nil. reflexivity.
Qed.

Lemma tcp_pending_none s : tcp_pending s = None -> s = TClosed.
Proof. destruct s; cbn [tcp_pending]; congruence. Qed.

Lemma tcp_loop_refines c : forall fuel s p s' evs,
  tcp_wf c s -> wfb p -> (length p <= fuel)%nat ->
  tcp_loop fuel true c s p = (s', evs) ->
  tcp_wf c s' /\
  match tcp_pending s with
  | None => s' = TClosed /\ evs = []
  | Some pend => tcp_frames c (pend ++ p) = (evs, tcp_pending s')
  end.
Proof.
  induction fuel as [|f IH]; intros s p s' evs W Wp HF Hl.
  - destruct p; [|cbn [length] in HF; lia]. rewrite tcp_loop_nil in Hl. inversion Hl; subst.
    split; [assumption|]. destruct (tcp_pending s') as [pend|] eqn:Ep.
    + rewrite app_nil_r. eapply tcp_frames_pending; eassumption.
    + split; [apply tcp_pending_none; assumption|reflexivity].
  - destruct p as [|b r].
    { rewrite tcp_loop_nil in Hl. inversion Hl; subst.
      split; [assumption|]. destruct (tcp_pending s') as [pend|] eqn:Ep.
      + rewrite app_nil_r. eapply tcp_frames_pending; eassumption.
      + split; [apply tcp_pending_none; assumption|reflexivity]. }
    destruct (tcp_pending s) as [pend|] eqn:Ep.
    2:{ apply tcp_pending_none in Ep. subst s. rewrite tcp_loop_closed in Hl by assumption.
        inversion Hl; subst. split; [exact I|split; reflexivity]. }
    cbn [tcp_loop] in Hl.
    destruct (tcp_iter true c s (b :: r)) as [[s1 e1] rest] eqn:Hit.
    destruct (tcp_loop f true c s1 rest) as [s2 e2] eqn:Hl2.
    inversion Hl; subst s' evs. clear Hl.
    destruct (tcp_iter_refines c s (b :: r) pend s1 e1 rest W Wp ltac:(congruence) Ep Hit)
      as (W1 & Wr & Hlen & Hnone & Hfr).
    cbn [length] in HF, Hlen.
    destruct (IH s1 rest s2 e2 W1 Wr ltac:(lia) Hl2) as (W2 & Hrec).
    split; [assumption|]. rewrite Hfr.
    destruct (tcp_pending s1) as [pend1|] eqn:Ep1.
    + rewrite Hrec. reflexivity.
    + destruct Hrec as (-> & ->). rewrite app_nil_r. reflexivity.
Qed.

(* ---- main statements ---- *)

(* the events of a run are the frames of (what was pending ++ what was fed): a function of the
   bytes alone *)
Theorem tcp_feed_frames c s p pend s' evs :
  tcp_wf c s -> wfb p -> tcp_pending s = Some pend -> tcp_feed c s p = (s', evs) ->
  tcp_frames c (pend ++ p) = (evs, tcp_pending s') /\ tcp_wf c s'.
Proof.
  intros W Wp Ep Hf. unfold tcp_feed, tcp_feed_gen in Hf.
  destruct (tcp_loop_refines c (length p) s p s' evs W Wp (le_n _) Hf) as (W' & H).
  rewrite Ep in H. split; assumption.
Qed.

Lemma tcp_feed_closed c p : tcp_feed c TClosed p = (TClosed, []).
Proof. unfold tcp_feed, tcp_feed_gen. apply tcp_loop_closed. lia. Qed.

Lemma tcp_feed_wf c s p s' evs :
  tcp_wf c s -> wfb p -> tcp_feed c s p = (s', evs) -> tcp_wf c s'.
Proof.
  intros W Wp Hf. unfold tcp_feed, tcp_feed_gen in Hf.
  destruct (tcp_loop_refines c (length p) s p s' evs W Wp (le_n _) Hf) as (W' & _). exact W'.
Qed.

Lemma tcp_wf_pending_wfb c s pend : tcp_wf c s -> tcp_pending s = Some pend -> wfb pend.
Proof.
  destruct s; cbn [tcp_wf tcp_pending]; intros W [= <-]; try constructor; destruct W; assumption.
Qed.

Lemma tcp_pending_inj c s1 s2 :
  tcp_wf c s1 -> tcp_wf c s2 -> tcp_pending s1 = tcp_pending s2 -> s1 = s2.
Proof.
  destruct s1 as [|h1|a1 t1|]; destruct s2 as [|h2|a2 t2|]; cbn [tcp_wf tcp_pending];
    intros W1 W2 H; try reflexivity; try discriminate; inversion H; subst.
  - destruct W2 as (_ & b0 & r & E & _). discriminate.
  - destruct W2 as (_ & b0 & r & size & E & _). discriminate.
  - destruct W1 as (_ & b0 & r & E & _). discriminate.
  - reflexivity.
  - destruct W1 as (_ & b0 & r & E1 & H1). destruct W2 as (_ & b0' & r' & size & E2 & H2 & _).
    rewrite E1 in E2. inversion E2; subst. lia.
  - destruct W1 as (_ & b0 & r & size & E & _). discriminate.
  - destruct W2 as (_ & b0 & r & E2 & H2). destruct W1 as (_ & b0' & r' & size & E1 & H1 & _).
    rewrite E1 in E2. inversion E2; subst. lia.
  - destruct W1 as (_ & b0 & r & size & E1 & _ & Hs1 & _ & ->).
    destruct W2 as (_ & b0' & r' & size' & E2 & _ & Hs2 & _ & ->).
    rewrite E1 in E2. inversion E2; subst. rewrite Hs1 in Hs2. inversion Hs2. reflexivity.
Qed.

(* C05_tcp_split: feeding a ++ b is feeding a, then b *)
Theorem tcp_feed_app c s a b :
  tcp_wf c s -> wfb a -> wfb b ->
  tcp_feed c s (a ++ b) =
  let '(s1, e1) := tcp_feed c s a in
  let '(s2, e2) := tcp_feed c s1 b in (s2, e1 ++ e2).
Proof.
  intros W Wa Wb.
  destruct (tcp_feed c s (a ++ b)) as [s3 e3] eqn:H3.
  destruct (tcp_feed c s a) as [s1 e1] eqn:H1.
  destruct (tcp_feed c s1 b) as [s2 e2] eqn:H2.
  destruct (tcp_pending s) as [pend|] eqn:Ep.
  2:{ apply tcp_pending_none in Ep. subst s. rewrite tcp_feed_closed in H3, H1.
      inversion H1; subst. rewrite tcp_feed_closed in H2. inversion H2; inversion H3; subst.
      reflexivity. }
  assert (Wab : wfb (a ++ b)) by (apply wfb_app; split; assumption).
  pose proof (tcp_wf_pending_wfb c s pend W Ep) as Wpend.
  destruct (tcp_feed_frames c s (a ++ b) pend s3 e3 W Wab Ep H3) as (F3 & W3).
  destruct (tcp_feed_frames c s a pend s1 e1 W Wa Ep H1) as (F1 & W1).
  rewrite app_assoc in F3.
  assert (Wpa : wfb (pend ++ a)) by (apply wfb_app; split; assumption).
  pose proof (tcp_split_app c (length (pend ++ a)) (pend ++ a) b e1 (tcp_pending s1) Wpa Wb
                (le_n _) F1) as Hinc.
  rewrite F3 in Hinc.
  destruct (tcp_pending s1) as [p1|] eqn:Ep1.
  - destruct (tcp_feed_frames c s1 b p1 s2 e2 W1 Wb Ep1 H2) as (F2 & W2).
    rewrite F2 in Hinc. inversion Hinc; subst e3.
    f_equal. apply (tcp_pending_inj c); assumption.
  - apply tcp_pending_none in Ep1. subst s1. rewrite tcp_feed_closed in H2.
    inversion H2; subst. inversion Hinc; subst e3.
    rewrite app_nil_r. f_equal. apply tcp_pending_none. assumption.
Qed.

(* C05_tcp_chunking: any list of reads is equivalent to one read of the concatenation *)
Theorem tcp_feed_chunks_concat c : forall chunks s,
  tcp_wf c s -> Forall wfb chunks ->
  tcp_feed_chunks true c s chunks = tcp_feed c s (concat chunks).
Proof.
  induction chunks as [|p tl IH]; intros s W Wc.
  - cbn [tcp_feed_chunks concat]. unfold tcp_feed, tcp_feed_gen. reflexivity.
  - inversion Wc as [|? ? Wp Wtl]; subst.
    assert (Wcc : wfb (concat tl)).
    { clear -Wtl. induction Wtl; cbn [concat]; [constructor|apply wfb_app; split; assumption]. }
    cbn [tcp_feed_chunks concat]. rewrite tcp_feed_app by assumption.
    fold (tcp_feed c s p). destruct (tcp_feed c s p) as [s1 e1] eqn:H1.
    rewrite IH; [reflexivity| |assumption].
    apply (tcp_feed_wf c s p s1 e1); assumption.
Qed.

Corollary tcp_chunking_independent c s ch1 ch2 :
  tcp_wf c s -> Forall wfb ch1 -> Forall wfb ch2 -> concat ch1 = concat ch2 ->
  tcp_feed_chunks true c s ch1 = tcp_feed_chunks true c s ch2.
Proof.
  intros W W1 W2 H. rewrite !tcp_feed_chunks_concat by assumption. rewrite H. reflexivity.
Qed.

(* no out-of-bounds access to read_header[], no fuel exhaustion *)
Theorem tcp_feed_clean c s p s' evs :
  tcp_wf c s -> wfb p -> tcp_feed c s p = (s', evs) -> Forall tcp_ev_clean evs.
Proof.
  intros W Wp Hf. destruct (tcp_pending s) as [pend|] eqn:Ep.
  - destruct (tcp_feed_frames c s p pend s' evs W Wp Ep Hf) as (F & _).
    pose proof (tcp_wf_pending_wfb c s pend W Ep) as Wpend.
    eapply tcp_split_clean; [| |exact F]; [apply wfb_app; split; assumption|lia].
  - apply tcp_pending_none in Ep. subst s. rewrite tcp_feed_closed in Hf. inversion Hf. constructor.
Qed.

(* ------------------------------------------------------------------ read buffer, retry loop, event loop *)

Lemma tcp_feed_nil c s : tcp_feed c s [] = (s, []).
Proof. reflexivity. Qed.

(* one call of coap_read_session = the reader fed with everything that was available (the
   socket is drained unless the session was closed) *)
Lemma tcp_read_session_feed c : 0 < tcp_rxbuf c -> forall fuel s avail s' e' rest',
  tcp_wf c s -> wfb avail -> (length avail < fuel)%nat ->
  tcp_read_session fuel true c s avail = (s', e', rest') ->
  tcp_feed c s avail = (s', e') /\ (rest' = [] \/ s' = TClosed).
Proof.
  intros HR. induction fuel as [|f IH]; intros s avail s' e' rest' W Wa HF H; [lia|].
  cbn [tcp_read_session] in H.
  set (chunk := take (tcp_rxbuf c) avail) in *. set (rest := drop (tcp_rxbuf c) avail) in *.
  assert (Hsplit : avail = chunk ++ rest) by (symmetry; apply take_drop).
  assert (Wc : wfb chunk) by (apply wfb_take; assumption).
  assert (Wr : wfb rest) by (apply wfb_drop; assumption).
  fold (tcp_feed c s chunk) in H.
  destruct (tcp_feed c s chunk) as [s1 e1] eqn:H1.
  pose proof (tcp_feed_wf c s chunk s1 e1 W Wc H1) as W1.
  assert (Happ : tcp_feed c s avail = let '(s2, e2) := tcp_feed c s1 rest in (s2, e1 ++ e2)).
  { rewrite Hsplit at 1. rewrite tcp_feed_app by assumption. rewrite H1. reflexivity. }
  assert (Hclosed : s1 = TClosed -> tcp_feed c s avail = (TClosed, e1)).
  { intros ->. rewrite Happ, tcp_feed_closed, app_nil_r. reflexivity. }
  assert (Hshort : (len chunk =? tcp_rxbuf c) = false -> rest = []).
  { intros E. subst chunk rest. pose proof (len_nonneg avail).
    rewrite tcp_len_take_min in E by lia. apply tcp_drop_all. lia. }
  assert (Hrec : (len chunk =? tcp_rxbuf c) = true -> (length rest < f)%nat).
  { intros E. subst chunk rest. pose proof (len_nonneg avail).
    rewrite tcp_len_take_min in E by lia. unfold drop. rewrite skipn_length.
    unfold len in *. lia. }
  destruct s1 as [|h|acc total|].
  4:{ inversion H; subst s' e' rest'. split; [apply Hclosed; reflexivity|right; reflexivity]. }
  all: destruct (len chunk =? tcp_rxbuf c) eqn:E;
     [ destruct (tcp_read_session f true c _ rest) as [[s2 e2] r2] eqn:H2;
       inversion H; subst s' e' rest'; clear H;
       destruct (IH _ rest s2 e2 r2 W1 Wr (Hrec eq_refl) H2) as (F2 & Hr2);
       split; [rewrite Happ, F2; reflexivity|exact Hr2]
     | inversion H; subst s' e' rest'; clear H;
       split; [rewrite Happ, (Hshort eq_refl), tcp_feed_nil, app_nil_r; reflexivity
              |left; apply Hshort; reflexivity] ].
Qed.

(* the level-triggered event loop delivers exactly what one big read would *)
Theorem tcp_pump_feed c : 0 < tcp_rxbuf c -> forall fuel s avail,
  tcp_wf c s -> wfb avail -> (length avail < fuel)%nat ->
  tcp_pump fuel true c s avail = tcp_feed c s avail.
Proof.
  intros HR fuel s avail W Wa HF.
  destruct avail as [|b r]; [destruct fuel; reflexivity|].
  destruct fuel as [|f]; [lia|].
  destruct s as [|h|acc total|].
  4:{ cbn [tcp_pump]. rewrite tcp_feed_closed. reflexivity. }
  all: cbn [tcp_pump];
     destruct (tcp_read_session (S (length (b :: r))) true c _ (b :: r)) as [[s1 e1] rest] eqn:H1;
     destruct (tcp_read_session_feed c HR _ _ (b :: r) s1 e1 rest W Wa (Nat.lt_succ_diag_r _) H1)
       as (F1 & Hrest);
     rewrite F1;
     destruct Hrest as [-> | ->];
     [ destruct f; cbn [tcp_pump]; rewrite app_nil_r; reflexivity
     | idtac ].
  all: destruct rest; [destruct f|destruct f]; cbn [tcp_pump]; rewrite ?app_nil_r; try reflexivity.

Qed.

Lemma tcp_concat_wfb chunks : Forall wfb chunks -> wfb (concat chunks).
Proof. induction 1; cbn [concat]; [constructor|apply wfb_app; split; assumption]. Qed.

(* C05_tcp_arrivals: however the kernel delivers the stream, the result is that of one read *)
Theorem tcp_arrivals_feed c : 0 < tcp_rxbuf c -> forall arr s,
  tcp_wf c s -> Forall wfb arr ->
  tcp_arrivals true c s arr = tcp_feed c s (concat arr).
Proof.
  intros HR. induction arr as [|a tl IH]; intros s W Wc.
  - reflexivity.
  - inversion Wc as [|? ? Wa Wtl]; subst.
    cbn [tcp_arrivals concat]. rewrite tcp_pump_feed by (try assumption; lia).
    rewrite tcp_feed_app; [|assumption|assumption|apply tcp_concat_wfb; assumption].
    destruct (tcp_feed c s a) as [s1 e1] eqn:H1.
    rewrite IH; [reflexivity| |assumption].
    apply (tcp_feed_wf c s a s1 e1); assumption.
Qed.

Corollary tcp_arrivals_independent c s arr1 arr2 :
  0 < tcp_rxbuf c -> tcp_wf c s -> Forall wfb arr1 -> Forall wfb arr2 ->
  concat arr1 = concat arr2 -> tcp_arrivals true c s arr1 = tcp_arrivals true c s arr2.
Proof.
  intros HR W W1 W2 H. rewrite !tcp_arrivals_feed by assumption. rewrite H. reflexivity.
Qed.

(* ------------------------------------------------------------------ streams of serialised messages *)
From LibcoapV Require Import Wire.OptCodecProofs Wire.PduProofs.

Lemma tcp_opts_enc_wfb l : forall prev,
  0 <= prev -> ascending prev l -> Forall opt_wf l -> wfb (opts_enc prev l).
Proof.
  induction l as [|[n v] tl IH]; intros prev Hp Ha Hw; cbn [opts_enc]; [constructor|].
  cbn [ascending fst] in Ha. destruct Ha as [Hpn Ha].
  inversion Hw as [|? ? Ho Hw']; subst. destruct Ho as (Hn & Hv & Hvb). cbn [fst snd] in *.
  apply wfb_app. split; [|apply IH; [lia|assumption|assumption]].
  unfold opt_enc. apply wfb_app. split; [|assumption].
  pose proof (len_nonneg v). apply opt_hdr_wfb; lia.
Qed.

Lemma tcp_token_area_wfb t : len t <= 65804 -> wfb t -> wfb (token_area t).
Proof.
  intros Hl W. pose proof (len_nonneg t). unfold token_area. repeat case_if; try assumption.
  - apply wfb_cons. split; [unfold is_byte; lia|assumption].
  - apply wfb_app. split; [|assumption]. unfold be16. repeat constructor; unfold is_byte; lia.
Qed.

Lemma tcp_content_area_wfb m : msg_wf m -> wfb (content_area m).
Proof.
  intros [_ _ _ _ [Hof Hasc] _ Hpl _]. unfold content_area. apply wfb_app. split.
  - apply tcp_opts_enc_wfb; [lia|assumption|assumption].
  - unfold payload_area. destruct (m_payload m); [constructor|].
    apply wfb_cons. split; [unfold is_byte, PAYLOAD_START; lia|assumption].
Qed.

Definition tcp_msg_size (m : msg) : Z := len (token_area (m_token m)) + len (content_area m).

(* the message fits the 32-bit length form and both caps *)
Definition tcp_msg_fits (c : tcp_cfg) (m : msg) : Prop :=
  len (content_area m) < 65805 + 4294967296 /\ tcp_oversize c (tcp_msg_size m) = false.

Lemma tcp_header_wfb m :
  msg_wf m -> len (content_area m) < 65805 + 4294967296 -> wfb (header TCP m).
Proof.
  intros W Hfit. pose proof (tkl_nib_range (m_token m)) as Ht.
  pose proof (len_nonneg (content_area m)) as Hl. destruct W as [_ Hco _ _ _ _ _ _].
  unfold header. repeat case_if; unfold be16, be32; repeat (apply wfb_cons; split);
    try constructor; unfold is_byte; try lia.
Qed.

Lemma tcp_serialize_wfb m :
  msg_wf m -> len (content_area m) < 65805 + 4294967296 -> wfb (serialize TCP m).
Proof.
  intros W Hfit. unfold serialize. apply wfb_app. split; [apply tcp_header_wfb; assumption|].
  apply wfb_app. split; [|apply tcp_content_area_wfb; assumption].
  destruct W as [_ _ _ [Htl Htb] _ _ _ _]. apply tcp_token_area_wfb; assumption.
Qed.

Lemma tcp_tok_size_token_area t more :
  len t <= 65804 ->
  tcp_tok_size (tkl_nib t) (token_area t ++ more) = Some (len (token_area t)) /\
  (if tkl_nib t =? 13 then 1 else if tkl_nib t =? 14 then 2 else 0) <= len (token_area t).
Proof.
  intros Hl. pose proof (len_nonneg t) as H0. unfold tcp_tok_size, tkl_nib, token_area.
  destruct (len t <? 13) eqn:E1.
  - rewrite E1. replace (len t =? 13) with false by lia. replace (len t =? 14) with false by lia.
    split; [reflexivity|lia].
  - destruct (len t <? 269) eqn:E2.
    + cbn [Z.ltb Z.eqb Z.compare Pos.compare Pos.compare_cont Pos.eqb app].
      rewrite len_cons. split; [f_equal; lia|lia].
    + cbn [Z.ltb Z.eqb Z.compare Pos.compare Pos.compare_cont Pos.eqb app be16].
      rewrite !len_cons. split; [f_equal; lia|lia].
Qed.

Lemma tcp_serialize_shape m :
  msg_wf m -> len (content_area m) < 65805 + 4294967296 ->
  exists b0 r, serialize TCP m = b0 :: r /\
    tcp_hdr_len b0 <= len (serialize TCP m) /\
    tcp_parse_size (serialize TCP m) = Some (tcp_msg_size m) /\
    tcp_hdr_size b0 + tcp_msg_size m = len (serialize TCP m).
Proof.
  intros W Hfit. pose proof W as W0. destruct W0 as [_ Hco _ [Htl Htb] _ _ _ _].
  pose proof (tkl_nib_range (m_token m)) as Ht.
  pose proof (len_nonneg (content_area m)) as Hl.
  set (t := m_token m) in *. set (ca := content_area m) in *.
  destruct (tcp_tok_size_token_area t ca Htl) as (Htok & Hte).
  assert (Hmod : forall k, 0 <= k < 16 -> (16 * k + tkl_nib t) mod 16 = tkl_nib t /\
                                         (16 * k + tkl_nib t) / 16 = k) by (intros; lia).
  unfold tcp_msg_size, serialize, header, tcp_hdr_len, tcp_hdr_size, header_size, tcp_tok_ext.
  fold t ca.
  destruct (len ca <=? 12) eqn:E1; [|destruct (len ca <=? 268) eqn:E2; [|destruct (len ca <=? 65804) eqn:E3]].
  - destruct (Hmod (len ca) ltac:(lia)) as (Hm & Hd).
    eexists; eexists; split; [reflexivity|]. rewrite Hm, Hd.
    replace (len ca <? 13) with true by lia.
    cbn [app]. rewrite !len_cons, len_app.
    split; [lia|]. split; [|lia].
    unfold tcp_parse_size. rewrite Hm, Hd. replace (len ca <? 13) with true by lia.
    unfold tcp_add_tok. rewrite Htok. f_equal. lia.
  - replace (208 + tkl_nib t) with (16 * 13 + tkl_nib t) by lia.
    destruct (Hmod 13 ltac:(lia)) as (Hm & Hd).
    eexists; eexists; split; [reflexivity|]. rewrite Hm, Hd.
    cbn [Z.ltb Z.eqb Z.compare Pos.compare Pos.compare_cont Pos.eqb app].
    rewrite !len_cons, len_app.
    split; [lia|]. split; [|lia].
    unfold tcp_parse_size. rewrite Hm, Hd.
    cbn [Z.ltb Z.eqb Z.compare Pos.compare Pos.compare_cont Pos.eqb].
    unfold tcp_add_tok. rewrite Htok. f_equal. lia.
  - replace (224 + tkl_nib t) with (16 * 14 + tkl_nib t) by lia.
    destruct (Hmod 14 ltac:(lia)) as (Hm & Hd).
    eexists; eexists; split; [reflexivity|]. rewrite Hm, Hd.
    cbn [Z.ltb Z.eqb Z.compare Pos.compare Pos.compare_cont Pos.eqb app be16].
    rewrite !len_cons, len_app.
    split; [lia|]. split; [|lia].
    unfold tcp_parse_size. rewrite Hm, Hd.
    cbn [Z.ltb Z.eqb Z.compare Pos.compare Pos.compare_cont Pos.eqb].
    unfold tcp_add_tok. rewrite Htok. f_equal. lia.
  - replace (240 + tkl_nib t) with (16 * 15 + tkl_nib t) by lia.
    destruct (Hmod 15 ltac:(lia)) as (Hm & Hd).
    eexists; eexists; split; [reflexivity|]. rewrite Hm, Hd.
    cbn [Z.ltb Z.eqb Z.compare Pos.compare Pos.compare_cont Pos.eqb app be32].
    rewrite !len_cons, len_app.
    split; [lia|]. split; [|lia].
    unfold tcp_parse_size. rewrite Hm, Hd.
    cbn [Z.ltb Z.eqb Z.compare Pos.compare Pos.compare_cont Pos.eqb].
    unfold tcp_add_tok. rewrite Htok. f_equal. lia.
Qed.

(* one serialised message in front of a stream is split off as exactly that message *)
Lemma tcp_frames_serialize c m rest :
  msg_wf m -> tcp_msg_fits c m -> wfb rest ->
  tcp_frames c (serialize TCP m ++ rest) =
  let '(e, r) := tcp_frames c rest in (TMsg (serialize TCP m) :: e, r).
Proof.
  intros W (Hfit & Hover) Wr.
  destruct (tcp_serialize_shape m W Hfit) as (b0 & r & Hs & Hhl & Hsz & Htot).
  pose proof (tcp_serialize_wfb m W Hfit) as Wf.
  set (f := serialize TCP m) in *. pose proof (len_nonneg rest) as Hrest.
  rewrite Hs. change ((b0 :: r) ++ rest) with (b0 :: (r ++ rest)).
  rewrite tcp_frames_cons_unfold, tcp_split_S. cbv zeta.
  change (b0 :: r ++ rest) with ((b0 :: r) ++ rest). rewrite <- Hs. rewrite len_app.
  replace (len f + len rest <? tcp_hdr_len b0) with false by lia.
  rewrite tcp_take_app_le by lia.
  rewrite (tcp_parse_size_take f b0 r Hs Hhl), Hsz, Hover, Htot.
  replace (len f + len rest <? len f) with false by lia.
  rewrite take_app_exact, drop_app_exact.
  rewrite (tcp_frames_fuel c (length (r ++ rest)) rest Wr) by (rewrite app_length; lia).
  reflexivity.
Qed.

(* C05_tcp_frames *)
Theorem tcp_frames_stream c : forall ms,
  Forall (fun m => msg_wf m /\ tcp_msg_fits c m) ms ->
  tcp_frames c (concat (map (serialize TCP) ms)) = (map (fun m => TMsg (serialize TCP m)) ms, Some []).
Proof.
  induction ms as [|m tl IH]; intros H; [reflexivity|].
  inversion H as [|? ? [W F] Htl]; subst. cbn [map concat].
  rewrite tcp_frames_serialize; [|assumption|assumption|].
  - rewrite IH by assumption. reflexivity.
  - apply tcp_concat_wfb. clear -Htl. induction Htl as [|x l [Wx [Fx _]] _ IHl]; cbn [map]; constructor;
      [apply tcp_serialize_wfb; assumption|assumption].
Qed.

Theorem tcp_feed_stream c ms :
  Forall (fun m => msg_wf m /\ tcp_msg_fits c m) ms ->
  tcp_feed c TIdle (concat (map (serialize TCP) ms)) =
  (TIdle, map (fun m => TMsg (serialize TCP m)) ms).
Proof.
  intros H.
  assert (Wc : wfb (concat (map (serialize TCP) ms))).
  { apply tcp_concat_wfb. clear -H. induction H as [|x l [Wx [Fx _]] _ IHl]; cbn [map]; constructor;
      [apply tcp_serialize_wfb; assumption|assumption]. }
  destruct (tcp_feed c TIdle (concat (map (serialize TCP) ms))) as [s' evs] eqn:Hf.
  destruct (tcp_feed_frames c TIdle _ [] s' evs I Wc eq_refl Hf) as (F & W').
  cbn [app] in F. rewrite tcp_frames_stream in F by assumption. inversion F; subst.
  f_equal. apply (tcp_pending_inj c); [assumption|exact I|symmetry; assumption].
Qed.

(* every one of these frames is accepted by the PDU parser and decodes to the message *)
Theorem tcp_observe_stream ms :
  Forall msg_wf ms ->
  tcp_observe (map (fun m => TMsg (serialize TCP m)) ms) = map (fun m => TDeliver (norm_fields TCP m)) ms.
Proof.
  induction 1 as [|m tl W _ IH]; [reflexivity|].
  cbn [map tcp_observe tcp_observe_ev]. rewrite parse_serialize by assumption.
  f_equal. exact IH.
Qed.

(* ------------------------------------------------------------------ oversize *)

(* C05_tcp_oversize: as soon as the header of an oversized frame is complete the session is
   closed; nothing of the frame is kept and later bytes are ignored *)
Theorem tcp_oversize_closes c h b0 r size rest :
  h = b0 :: r -> wfb h -> wfb rest -> len h = tcp_hdr_len b0 ->
  tcp_parse_size h = Some size -> tcp_oversize c size = true ->
  tcp_feed c TIdle (h ++ rest) = (TClosed, [TClose]).
Proof.
  intros Hh Wh Wr Hlen Hs Ho.
  assert (Wc : wfb (h ++ rest)) by (apply wfb_app; split; assumption).
  destruct (tcp_feed c TIdle (h ++ rest)) as [s' evs] eqn:Hf.
  destruct (tcp_feed_frames c TIdle _ [] s' evs I Wc eq_refl Hf) as (F & W').
  cbn [app] in F. pose proof (len_nonneg rest) as Hrest.
  assert (F' : tcp_frames c (h ++ rest) = ([TClose], None)).
  { subst h. change ((b0 :: r) ++ rest) with (b0 :: (r ++ rest)).
    rewrite tcp_frames_cons_unfold, tcp_split_S. cbv zeta.
    change (b0 :: r ++ rest) with ((b0 :: r) ++ rest). rewrite len_app.
    replace (len (b0 :: r) + len rest <? tcp_hdr_len b0) with false by lia.
    rewrite tcp_take_app_le by lia. rewrite tcp_take_all by lia. rewrite Hs, Ho. reflexivity. }
  rewrite F' in F. inversion F; subst. f_equal. apply tcp_pending_none. congruence.
Qed.

(* ------------------------------------------------------------------ the line as found *)

(* "partial_read += bytes_read" after "bytes_read -= n": a TCP8 message (3-byte header) read as
   1 + 1 + rest loses the second byte *)
Definition tcp_wit_cfg := tcp_cfg_of_mtu tcp_hard_cap_default.
Definition tcp_wit_msg : bytes := [208; 1; 1; 177; 97; 255; 1; 2; 3; 4; 5; 6; 7; 8; 9; 10; 11].
Definition tcp_wit_chunks : list bytes := [[208]; [1]; [1; 177; 97; 255; 1; 2; 3; 4; 5; 6; 7; 8; 9; 10; 11]].

Theorem tcp_orig_refuted :
  exists c chunks, snd (tcp_feed_chunks false c TIdle chunks) <> snd (tcp_feed_orig c TIdle (concat chunks)).
Proof. exists tcp_wit_cfg, tcp_wit_chunks. vm_compute. discriminate. Qed.

(* non-vacuity: the same chunking of the same message on the repaired reader *)
Example tcp_fixed_witness :
  tcp_feed_chunks true tcp_wit_cfg TIdle tcp_wit_chunks = (TIdle, [TMsg tcp_wit_msg]) /\
  tcp_feed tcp_wit_cfg TIdle tcp_wit_msg = (TIdle, [TMsg tcp_wit_msg]).
Proof. vm_compute. split; reflexivity. Qed.

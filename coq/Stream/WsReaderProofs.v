(* Proofs about the WebSocket reader model (Stream/WsReader.v): the repaired reader refines the
   byte-at-a-time automaton, hence what it delivers does not depend on how the stream arrives. *)
From LibcoapV Require Import Base.Tactics Base.Bytes Base.BytesProofs Stream.WsReader
  Stream.TcpReaderProofs.
Local Open Scope Z_scope.

(* ------------------------------------------------------------------ the automaton *)

Lemma ws_run_app c : forall a m b,
  ws_run c m (a ++ b) =
  let '(m1, e1) := ws_run c m a in
  let '(m2, e2) := ws_run c m1 b in (m2, e1 ++ e2).
Proof.
  induction a as [|x a IH]; intros m b.
  - cbn [app ws_run]. destruct (ws_run c m b). reflexivity.
  - cbn [app ws_run]. destruct (ws_step c m x) as [m1 e1]. rewrite IH.
    destruct (ws_run c m1 a) as [m2 e2]. destruct (ws_run c m2 b) as [m3 e3].
    rewrite app_assoc. reflexivity.
Qed.

Lemma ws_run_nil c m : ws_run c m [] = (m, []).
Proof. reflexivity. Qed.

Lemma ws_run_closed c : forall bs, ws_run c MClosed bs = (MClosed, []).
Proof. induction bs as [|b r IH]; [reflexivity|]. cbn [ws_run ws_step]. rewrite IH. reflexivity. Qed.

Lemma ws_run_snoc c m a b :
  ws_run c m (a ++ [b]) =
  let '(m1, e1) := ws_run c m a in
  let '(m2, e2) := ws_step c m1 b in (m2, e1 ++ e2).
Proof.
  rewrite ws_run_app. destruct (ws_run c m a) as [m1 e1]. cbn [ws_run].
  destruct (ws_step c m1 b) as [m2 e2]. rewrite app_nil_r. reflexivity.
Qed.

(* ---- body: macro steps ---- *)

Lemma ws_run_body_short c mask size : forall x acc,
  len acc + len x < size ->
  ws_run c (MBody mask size acc) x = (MBody mask size (acc ++ x), []).
Proof.
  induction x as [|b x IH]; intros acc H.
  - rewrite app_nil_r. reflexivity.
  - rewrite len_cons in H. pose proof (len_nonneg x).
    cbn [ws_run ws_step]. rewrite len_app, len_cons, len_nil.
    replace (len acc + (1 + 0) =? size) with false by lia.
    rewrite IH by (rewrite len_app, len_cons, len_nil; lia).
    rewrite <- app_assoc. reflexivity.
Qed.

Lemma ws_run_body_full c mask size rest : forall x acc,
  len acc < size -> len acc + len x = size ->
  ws_run c (MBody mask size acc) (x ++ rest) =
  let '(m, e) := ws_run c (MHdr []) rest in (m, WMsg (ws_unmask c mask (acc ++ x)) :: e).
Proof.
  induction x as [|b x IH]; intros acc Hlt Hsum.
  - rewrite len_nil in Hsum. lia.
  - rewrite len_cons in Hsum. pose proof (len_nonneg x) as Hx.
    cbn [app ws_run ws_step]. rewrite len_app, len_cons, len_nil.
    destruct (len acc + (1 + 0) =? size) eqn:E.
    + assert (x = []) by (destruct x; [reflexivity|rewrite len_cons in Hsum; pose proof (len_nonneg x); lia]).
      subst x. cbn [app]. destruct (ws_run c (MHdr []) rest) as [m e]. reflexivity.
    + rewrite IH by (rewrite len_app, len_cons, len_nil; lia).
      destruct (ws_run c (MHdr []) rest) as [m e]. rewrite <- app_assoc. reflexivity.
Qed.

(* ---- handshake lines ---- *)

Lemma ws_find_nl_range : forall buf i, ws_find_nl buf = Some i -> 0 <= i < len buf.
Proof.
  induction buf as [|b r IH]; intros i H; cbn [ws_find_nl] in H; [discriminate|].
  rewrite len_cons. pose proof (len_nonneg r).
  destruct (b =? 10); [inversion H; lia|]. destruct (b =? 0); [discriminate|].
  destruct (ws_find_nl r) as [j|]; [|discriminate]. inversion H; subst. specialize (IH j eq_refl). lia.
Qed.

(* the bytes before the newline found contain neither NUL nor LF; the byte at i is LF *)
Lemma ws_find_nl_split : forall buf i,
  ws_find_nl buf = Some i ->
  buf = take i buf ++ 10 :: drop (i + 1) buf /\ ws_find_nl (take i buf) = None /\
  ws_has_nul (take i buf) = false.
Proof.
  induction buf as [|b r IH]; intros i H; cbn [ws_find_nl] in H; [discriminate|].
  destruct (b =? 10) eqn:E10.
  - inversion H; subst. assert (b = 10) by lia. subst b. repeat split.
  - destruct (b =? 0) eqn:E0; [discriminate|].
    destruct (ws_find_nl r) as [j|] eqn:Ej; [|discriminate]. inversion H; subst i.
    destruct (IH j eq_refl) as (Hs & Hn & Hz). pose proof (ws_find_nl_range r j Ej) as Hr.
    unfold take, drop in *. replace (Z.to_nat (j + 1)) with (S (Z.to_nat j)) by lia.
    replace (Z.to_nat (j + 1 + 1)) with (S (Z.to_nat (j + 1))) by lia.
    cbn [firstn skipn app]. repeat split.
    + f_equal. exact Hs.
    + cbn [ws_find_nl]. rewrite E10, E0, Hn. reflexivity.
    + cbn [ws_has_nul existsb]. rewrite E0. exact Hz.
Qed.

Lemma ws_find_nl_app : forall l r,
  ws_find_nl (l ++ r) =
  match ws_find_nl l with
  | Some i => Some i
  | None => if ws_has_nul l then None
            else match ws_find_nl r with Some j => Some (j + len l) | None => None end
  end.
Proof.
  induction l as [|b l IH]; intros r.
  - cbn [app ws_find_nl ws_has_nul existsb]. rewrite len_nil.
    destruct (ws_find_nl r); [f_equal; lia|reflexivity].
  - cbn [app ws_find_nl ws_has_nul existsb]. destruct (b =? 10); [reflexivity|].
    destruct (b =? 0); [reflexivity|]. cbn [orb]. rewrite IH.
    destruct (ws_find_nl l); [reflexivity|]. fold (ws_has_nul l). destruct (ws_has_nul l); [reflexivity|].
    rewrite len_cons. destruct (ws_find_nl r); [f_equal; lia|reflexivity].
Qed.

Lemma ws_has_nul_app l r : ws_has_nul (l ++ r) = ws_has_nul l || ws_has_nul r.
Proof. unfold ws_has_nul. apply existsb_app. Qed.

(* no visible newline and room left: the automaton just collects the bytes *)
Lemma ws_run_hs_wait c f : forall x line,
  ws_find_nl (line ++ x) = None -> len (line ++ x) < ws_http_buf - 1 ->
  ws_run c (MHs f line) x = (MHs f (line ++ x), []).
Proof.
  induction x as [|b x IH]; intros line Hn Hl.
  - rewrite app_nil_r. reflexivity.
  - cbn [ws_run ws_step].
    assert (Hstep : (b =? 10) && negb (ws_has_nul line) = false).
    { destruct (b =? 10) eqn:E; [|reflexivity]. assert (b = 10) by lia. subst b.
      rewrite ws_find_nl_app in Hn. destruct (ws_find_nl line); [discriminate|].
      destruct (ws_has_nul line); [reflexivity|]. cbn [ws_find_nl Z.eqb] in Hn. discriminate. }
    rewrite Hstep.
    replace (line ++ b :: x) with ((line ++ [b]) ++ x) in Hn, Hl by (rewrite <- app_assoc; reflexivity).
    pose proof (len_nonneg x). rewrite len_app in Hl.
    replace (ws_http_buf - 1 <=? len (line ++ [b])) with false by lia.
    rewrite IH; [rewrite <- app_assoc; reflexivity|assumption|rewrite len_app; lia].
Qed.

(* the buffer is full and still holds no end of line: the handshake fails *)
Lemma ws_run_hs_full c f x more :
  ws_find_nl x = None -> len x = ws_http_buf - 1 ->
  ws_run c (MHs f []) (x ++ more) = (MClosed, [WFail]).
Proof.
  intros Hn Hl. destruct (exists_last (l := x)) as (x0 & b & ->).
  { intros ->. unfold ws_http_buf in Hl. rewrite len_nil in Hl. lia. }
  rewrite <- app_assoc. rewrite ws_run_app.
  rewrite len_app, len_cons, len_nil in Hl.
  assert (Hn0 : ws_find_nl x0 = None).
  { rewrite ws_find_nl_app in Hn. destruct (ws_find_nl x0); [discriminate|reflexivity]. }
  rewrite (ws_run_hs_wait c f x0 []) by (cbn [app]; first [assumption | lia]).
  cbn [app ws_run ws_step].
  assert (Hstep : (b =? 10) && negb (ws_has_nul x0) = false).
  { destruct (b =? 10) eqn:E; [|reflexivity]. assert (b = 10) by lia. subst b.
    rewrite ws_find_nl_app, Hn0 in Hn. destruct (ws_has_nul x0); [reflexivity|].
    cbn [ws_find_nl Z.eqb] in Hn. discriminate. }
  rewrite Hstep. rewrite len_app, len_cons, len_nil.
  replace (ws_http_buf - 1 <=? len x0 + (1 + 0)) with true by lia.
  rewrite ws_run_closed. reflexivity.
Qed.

(* a complete line in front: it is processed, the rest continues *)
Lemma ws_run_hs_line c f buf i more :
  ws_find_nl buf = Some i -> i < ws_http_buf - 1 ->
  ws_run c (MHs f []) (buf ++ more) =
  match ws_process_line c f (ws_strip_cr (take i buf)) with
  | PFail => (MClosed, [WFail])
  | PUp f' => let '(m, e) := ws_run c (MHdr []) (drop (i + 1) buf ++ more) in (m, WConnected :: e)
  | PNext f' => ws_run c (MHs f' []) (drop (i + 1) buf ++ more)
  end.
Proof.
  intros Hf Hi. destruct (ws_find_nl_split buf i Hf) as (Hs & Hn & Hz).
  pose proof (ws_find_nl_range buf i Hf) as Hr.
  rewrite Hs at 1. rewrite <- app_assoc. rewrite ws_run_app.
  rewrite (ws_run_hs_wait c f (take i buf) []); cbn [app]; try assumption.
  2:{ rewrite len_take; lia. }
  cbn [ws_run ws_step]. change (10 =? 10) with true. rewrite Hz. cbn [negb andb].
  destruct (ws_process_line c f (ws_strip_cr (take i buf))) as [|f'|f']; cbv beta iota.
  - rewrite ws_run_closed. reflexivity.
  - destruct (ws_run c (MHdr []) (drop (i + 1) buf ++ more)). reflexivity.
  - destruct (ws_run c (MHs f' []) (drop (i + 1) buf ++ more)). reflexivity.
Qed.

Lemma ws_lines_spec c more : forall fuel f buf,
  len buf <= ws_http_buf - 1 -> (length buf < fuel)%nat ->
  match ws_lines fuel c f buf with
  | LFail => ws_run c (MHs f []) (buf ++ more) = (MClosed, [WFail])
  | LUp lft f' =>
      ws_run c (MHs f []) (buf ++ more) =
      (let '(m, e) := ws_run c (MHdr []) (lft ++ more) in (m, WConnected :: e)) /\
      exists i, ws_find_nl buf = Some i /\ len lft <= len buf - i - 1
  | LMore buf' f' =>
      ws_run c (MHs f []) (buf ++ more) = ws_run c (MHs f' []) (buf' ++ more) /\
      ws_find_nl buf' = None /\ len buf' <= len buf
  end.
Proof.
  induction fuel as [|fu IH]; intros f buf Hl Hf; [lia|].
  cbn [ws_lines]. destruct (ws_find_nl buf) as [i|] eqn:Ei.
  2:{ repeat split; [assumption|lia]. }
  pose proof (ws_find_nl_range buf i Ei) as Hr.
  rewrite (ws_run_hs_line c f buf i more Ei) by lia.
  assert (Hlr : len (drop (i + 1) buf) = len buf - i - 1) by (rewrite len_drop; lia).
  destruct (ws_process_line c f (ws_strip_cr (take i buf))) as [|f'|f'].
  - reflexivity.
  - split; [reflexivity|]. exists i. split; [reflexivity|lia].
  - assert (Hlen : (length (drop (i + 1) buf) < fu)%nat).
    { unfold len in Hlr. lia. }
    specialize (IH f' (drop (i + 1) buf) ltac:(lia) Hlen).
    destruct (ws_lines fu c f' (drop (i + 1) buf)) as [lft f2|buf' f2|].
    + destruct IH as (H1 & j & Hj & Hlj). split; [exact H1|]. exists i. split; [reflexivity|].
      pose proof (ws_find_nl_range _ j Hj). lia.
    + destruct IH as (H1 & H2 & H3). repeat split; [exact H1|exact H2|lia].
    + exact IH.
Qed.

Lemma ws_rd_spec n avail chunk a' :
  ws_rd n avail = (chunk, a') -> avail = chunk ++ a' /\ (0 <= n -> len chunk = Z.min n (len avail)).
Proof.
  unfold ws_rd. intros [= <- <-]. split; [symmetry; apply take_drop|apply tcp_len_take_min].
Qed.

Lemma ws_rd_short n avail chunk a' :
  ws_rd n avail = (chunk, a') -> 0 <= n -> len chunk < n -> a' = [].
Proof.
  unfold ws_rd. intros [= <- <-] Hn Hl. rewrite tcp_len_take_min in Hl by assumption.
  apply tcp_drop_all. lia.
Qed.

Lemma ws_len_zero_nil {A} (l : list A) : len l = 0 -> l = [].
Proof. destruct l; [reflexivity|]. rewrite len_cons. pose proof (len_nonneg l). lia. Qed.

Lemma ws_hs_spec c : wsc_fix c = ws_fixed -> forall fuel f http avail,
  ws_find_nl http = None -> len http <= ws_http_buf - 1 -> (length avail < fuel)%nat ->
  match ws_hs fuel c f http avail false with
  | (HFuel, _) => False
  | (HFail a', oob) => oob = false /\ ws_run c (MHs f []) (http ++ avail) = (MClosed, [WFail])
  | (HUp lft f' a', oob) =>
      oob = false /\ len lft <= 13 /\
      ws_run c (MHs f []) (http ++ avail) =
      (let '(m, e) := ws_run c (MHdr []) (lft ++ a') in (m, WConnected :: e))
  | (HMore http' f' a', oob) =>
      oob = false /\ a' = [] /\ ws_find_nl http' = None /\ len http' < ws_http_buf - 1 /\
      ws_run c (MHs f []) (http ++ avail) = (MHs f' http', [])
  end.
Proof.
  intros Hfix. induction fuel as [|fu IH]; intros f http avail Hn Hl Hf; [lia|].
  cbn [ws_hs]. rewrite Hfix. cbn [wsf_line ws_fixed]. cbv zeta.
  pose proof (len_nonneg http) as Hk. unfold ws_http_buf, ws_max_fs in *.
  set (rem := if 160 - 1 - 14 <? len http then 160 - 1 - len http else 14).
  assert (Hrem : 0 <= rem <= 14 /\ len http + rem <= 159) by (subst rem; case_if; lia).
  destruct (rem <=? 0) eqn:Er; cbn [andb].
  - (* buffer full *)
    assert (len http = 159) by (subst rem; case_if_in Er; lia).
    split; [reflexivity|]. apply ws_run_hs_full; [assumption|unfold ws_http_buf; lia].
  - destruct (ws_rd rem avail) as [chunk avail'] eqn:Erd.
    destruct (ws_rd_spec _ _ _ _ Erd) as (Hav & Hlc). specialize (Hlc ltac:(lia)).
    destruct chunk as [|c0 ch].
    + rewrite len_nil in Hlc. assert (Ha0 : avail = []) by (apply ws_len_zero_nil; lia).
      cbn [app] in Hav. rewrite Ha0 in Hav. rewrite <- Hav. rewrite Ha0.
      repeat split; try reflexivity; try assumption; [unfold ws_http_buf; lia|].
      rewrite app_nil_r. rewrite <- (app_nil_l http) at 2.
      apply ws_run_hs_wait; cbn [app]; [assumption|unfold ws_http_buf; lia].
    + set (chunk := c0 :: ch) in *.
      assert (Hlb : len (http ++ chunk) <= 159) by (rewrite len_app; lia).
      replace (false || (160 <=? len (http ++ chunk))) with false by lia.
      assert (Heq : http ++ avail = (http ++ chunk) ++ avail') by (rewrite Hav, app_assoc; reflexivity).
      pose proof (ws_lines_spec c avail' (S (length (http ++ chunk))) f (http ++ chunk)
                    ltac:(unfold ws_http_buf; lia) ltac:(lia)) as Hls.
      destruct (ws_lines (S (length (http ++ chunk))) c f (http ++ chunk)) as [lft f'|buf' f'|].
      * destruct Hls as (Hrun & i & Hi & Hli). split; [reflexivity|]. split.
        -- rewrite ws_find_nl_app, Hn in Hi. destruct (ws_has_nul http); [discriminate|].
           destruct (ws_find_nl chunk) as [j|] eqn:Ej; [|discriminate]. inversion Hi; subst i.
           pose proof (ws_find_nl_range chunk j Ej). rewrite len_app in Hli. lia.
        -- rewrite Heq. exact Hrun.
      * destruct Hls as (Hrun & Hn' & Hl').
        assert (Hfu : (length avail' < fu)%nat).
        { rewrite Hav, app_length in Hf. subst chunk. cbn [length] in Hf. lia. }
        specialize (IH f' buf' avail' Hn' ltac:(unfold ws_http_buf; lia) Hfu).
        rewrite Heq, Hrun.
        destruct (ws_hs fu c f' buf' avail' false) as [[l2 f2 a2|h2 f2 a2|a2|] o2]; exact IH.
      * split; [reflexivity|]. rewrite Heq. exact Hls.
Qed.

(* ---- frame header: macro steps ---- *)

Definition ws_hdr_ok (c : ws_cfg) (h : bytes) : bool :=
  negb (wsc_server c && negb (fh_masked (ws_fh (nth 1 h 0)))).

Definition ws_hdr_waiting (c : ws_cfg) (h : bytes) : Prop :=
  len h < 2 \/ (ws_hdr_ok c h = true /\ len h < fh_hl (ws_fh (nth 1 h 0))).

Lemma ws_fh_hl_range b1 : 2 <= fh_hl (ws_fh b1) <= 14 /\ 0 <= fh_ext (ws_fh b1) <= 8 /\
  fh_hl (ws_fh b1) = 2 + fh_ext (ws_fh b1) + (if fh_masked (ws_fh b1) then 4 else 0).
Proof. unfold ws_fh. cbn [fh_hl fh_ext fh_masked]. repeat case_if; lia. Qed.

Lemma ws_nth_app_lt (l r : bytes) n : (n < length l)%nat -> nth n (l ++ r) 0 = nth n l 0.
Proof. intros H. apply app_nth1. assumption. Qed.

Lemma ws_run_hdr_wait c : forall x h,
  ws_hdr_waiting c (h ++ x) -> ws_run c (MHdr h) x = (MHdr (h ++ x), []).
Proof.
  induction x as [|b x IH]; intros h W.
  - rewrite app_nil_r. reflexivity.
  - cbn [ws_run ws_step].
    replace (h ++ b :: x) with ((h ++ [b]) ++ x) in W by (rewrite <- app_assoc; reflexivity).
    pose proof (len_nonneg x) as Hx.
    destruct (len (h ++ [b]) <? 2) eqn:E2.
    + rewrite IH by assumption. rewrite <- app_assoc. reflexivity.
    + assert (Hnth : nth 1 ((h ++ [b]) ++ x) 0 = nth 1 (h ++ [b]) 0).
      { apply ws_nth_app_lt. unfold len in E2. lia. }
      destruct W as [W|(Wok & Wl)]; [rewrite len_app in W; lia|].
      unfold ws_hdr_ok in Wok. rewrite Hnth in Wok, Wl. rewrite len_app in Wl.
      destruct (wsc_server c && negb (fh_masked (ws_fh (nth 1 (h ++ [b]) 0)))) eqn:Esrv; [discriminate|].
      replace (len (h ++ [b]) <? fh_hl (ws_fh (nth 1 (h ++ [b]) 0))) with true by lia.
      rewrite IH.
      * rewrite <- app_assoc. reflexivity.
      * right. unfold ws_hdr_ok. rewrite Hnth, Esrv. rewrite len_app. split; [reflexivity|lia].
Qed.

Lemma ws_run_hdr_unmasked c a b1 more :
  wsc_server c = true -> fh_masked (ws_fh b1) = false ->
  ws_run c (MHdr []) (a :: b1 :: more) = (MClosed, [WClose 1002]).
Proof.
  intros Hs Hm. cbn [ws_run ws_step app]. change (len [a] <? 2) with true. cbv iota beta.
  cbn [ws_step app]. change (len [a; b1] <? 2) with false. cbv iota beta. cbn [nth]. rewrite Hs, Hm.
  cbn [negb andb]. rewrite ws_run_closed. reflexivity.
Qed.

Lemma ws_run_hdr_done c hd more :
  2 <= len hd -> ws_hdr_ok c hd = true -> len hd = fh_hl (ws_fh (nth 1 hd 0)) ->
  ws_run c (MHdr []) (hd ++ more) =
  let '(m1, e1) := ws_hdr_done c hd in
  let '(m2, e2) := ws_run c m1 more in (m2, e1 ++ e2).
Proof.
  intros H2 Hok Hl.
  destruct (exists_last (l := hd)) as (hd0 & b & ->).
  { intros ->. rewrite len_nil in H2. lia. }
  rewrite <- app_assoc. rewrite ws_run_app.
  rewrite len_app, len_cons, len_nil in H2, Hl. pose proof (len_nonneg hd0) as H0.
  rewrite (ws_run_hdr_wait c hd0 []).
  2:{ cbn [app]. destruct (len hd0 <? 2) eqn:E; [left; lia|]. right.
      assert (Hnth : nth 1 (hd0 ++ [b]) 0 = nth 1 hd0 0) by (apply ws_nth_app_lt; unfold len in E; lia).
      unfold ws_hdr_ok in *. rewrite Hnth in Hok, Hl. split; [assumption|lia]. }
  cbn [app ws_run ws_step].
  replace (len (hd0 ++ [b]) <? 2) with false by (rewrite len_app, len_cons, len_nil; lia).
  unfold ws_hdr_ok in Hok.
  destruct (wsc_server c && negb (fh_masked (ws_fh (nth 1 (hd0 ++ [b]) 0)))); [discriminate|].
  replace (len (hd0 ++ [b]) <? fh_hl (ws_fh (nth 1 (hd0 ++ [b]) 0))) with false
    by (rewrite len_app, len_cons, len_nil; lia).
  destruct (ws_hdr_done c (hd0 ++ [b])) as [m1 e1]. destruct (ws_run c m1 more) as [m2 e2]. reflexivity.
Qed.

(* what the header functions look at lies within the header *)
Lemma ws_take_drop_take {A} k j n (l : list A) :
  0 <= j -> 0 <= k -> j + k <= n -> take k (drop j (take n l)) = take k (drop j l).
Proof.
  intros Hj Hk Hn. unfold take, drop. rewrite skipn_firstn_comm. rewrite firstn_firstn.
  f_equal. lia.
Qed.

Lemma ws_nth_take (l : bytes) n i : (i < Z.to_nat n)%nat -> nth i (take n l) 0 = nth i l 0.
Proof.
  intros H. unfold take. rewrite <- (firstn_skipn (Z.to_nat n) l) at 2.
  destruct (Nat.lt_ge_cases i (length (firstn (Z.to_nat n) l))) as [Hlt|Hge].
  - rewrite app_nth1 by assumption. reflexivity.
  - rewrite firstn_length in Hge. rewrite !nth_overflow; try reflexivity.
    + rewrite app_length, firstn_length, skipn_length. lia.
    + rewrite firstn_length. lia.
Qed.

Lemma ws_hdr_done_take c h :
  fh_hl (ws_fh (nth 1 h 0)) <= len h ->
  ws_hdr_done c (take (fh_hl (ws_fh (nth 1 h 0))) h) = ws_hdr_done c h.
Proof.
  intros Hl. pose proof (ws_fh_hl_range (nth 1 h 0)) as (Hr & He & Hhl).
  set (hl := fh_hl (ws_fh (nth 1 h 0))) in *.
  assert (H0 : nth 0 (take hl h) 0 = nth 0 h 0) by (apply ws_nth_take; lia).
  assert (H1 : nth 1 (take hl h) 0 = nth 1 h 0) by (apply ws_nth_take; lia).
  unfold ws_hdr_done, ws_fsize. rewrite H0, H1.
  assert (Hs8 : (nth 1 h 0) mod 128 =? 127 = true -> take 8 (drop 2 (take hl h)) = take 8 (drop 2 h)).
  { intros E. apply ws_take_drop_take; try lia. unfold ws_fh in Hhl, He. cbn [fh_ext fh_masked] in Hhl.
    rewrite E in Hhl. destruct (128 <=? nth 1 h 0); lia. }
  assert (Hs2 : (nth 1 h 0) mod 128 =? 127 = false -> (nth 1 h 0) mod 128 =? 126 = true ->
                take 2 (drop 2 (take hl h)) = take 2 (drop 2 h)).
  { intros E E'. apply ws_take_drop_take; try lia. unfold ws_fh in Hhl. cbn [fh_ext fh_masked] in Hhl.
    rewrite E, E' in Hhl. destruct (128 <=? nth 1 h 0); lia. }
  assert (Hm : fh_masked (ws_fh (nth 1 h 0)) = true ->
               take 4 (drop (2 + fh_ext (ws_fh (nth 1 h 0))) (take hl h)) =
               take 4 (drop (2 + fh_ext (ws_fh (nth 1 h 0))) h)).
  { intros E. apply ws_take_drop_take; try lia. rewrite E in Hhl. lia. }
  destruct ((nth 1 h 0) mod 128 =? 127) eqn:E7.
  - rewrite Hs8 by reflexivity. destruct (fh_masked (ws_fh (nth 1 h 0))) eqn:Em;
      [rewrite Hm by reflexivity|]; reflexivity.
  - destruct ((nth 1 h 0) mod 128 =? 126) eqn:E6.
    + rewrite Hs2 by reflexivity. destruct (fh_masked (ws_fh (nth 1 h 0))) eqn:Em;
        [rewrite Hm by reflexivity|]; reflexivity.
    + destruct (fh_masked (ws_fh (nth 1 h 0))) eqn:Em; [rewrite Hm by reflexivity|]; reflexivity.
Qed.

(* Proofs about the WebSocket reader model (Stream/WsReader.v): the repaired reader refines the
   byte-at-a-time automaton, hence what it delivers does not depend on how the stream arrives. *)
From LibcoapV Require Import Base.Tactics Base.Bytes Base.BytesProofs Stream.WsReader
  Stream.TcpReaderProofs.
Local Open Scope Z_scope.

(* ------------------------------------------------------------------ the automaton *)

Lemma ws_run_app c : forall a m b,
  ws_run c m (a ++ b) =
  let '(m1, e1) := ws_run c m a in
  let '(m2, e2) := ws_run c m1 b in (m2, e1 ++ e2).
Proof.
  induction a as [|x a IH]; intros m b.
  - cbn [app ws_run]. destruct (ws_run c m b). reflexivity.
  - cbn [app ws_run]. destruct (ws_step c m x) as [m1 e1]. rewrite IH.
    destruct (ws_run c m1 a) as [m2 e2]. destruct (ws_run c m2 b) as [m3 e3].
    rewrite app_assoc. reflexivity.
Qed.

Lemma ws_run_nil c m : ws_run c m [] = (m, []).
Proof. reflexivity. Qed.

Lemma ws_run_closed c : forall bs, ws_run c MClosed bs = (MClosed, []).
Proof. induction bs as [|b r IH]; [reflexivity|]. cbn [ws_run ws_step]. rewrite IH. reflexivity. Qed.

Lemma ws_run_snoc c m a b :
  ws_run c m (a ++ [b]) =
  let '(m1, e1) := ws_run c m a in
  let '(m2, e2) := ws_step c m1 b in (m2, e1 ++ e2).
Proof.
  rewrite ws_run_app. destruct (ws_run c m a) as [m1 e1]. cbn [ws_run].
  destruct (ws_step c m1 b) as [m2 e2]. rewrite app_nil_r. reflexivity.
Qed.

(* ---- body: macro steps ---- *)

Lemma ws_run_body_short c mask size : forall x acc,
  len acc + len x < size ->
  ws_run c (MBody mask size acc) x = (MBody mask size (acc ++ x), []).
Proof.
  induction x as [|b x IH]; intros acc H.
  - rewrite app_nil_r. reflexivity.
  - rewrite len_cons in H. pose proof (len_nonneg x).
    cbn [ws_run ws_step]. rewrite len_app, len_cons, len_nil.
    replace (len acc + (1 + 0) =? size) with false by lia.
    rewrite IH by (rewrite len_app, len_cons, len_nil; lia).
    rewrite <- app_assoc. reflexivity.
Qed.

Lemma ws_run_body_full c mask size rest : forall x acc,
  len acc < size -> len acc + len x = size ->
  ws_run c (MBody mask size acc) (x ++ rest) =
  let '(m, e) := ws_run c (MHdr []) rest in (m, WMsg (ws_unmask c mask (acc ++ x)) :: e).
Proof.
  induction x as [|b x IH]; intros acc Hlt Hsum.
  - rewrite len_nil in Hsum. lia.
  - rewrite len_cons in Hsum. pose proof (len_nonneg x) as Hx.
    cbn [app ws_run ws_step]. rewrite len_app, len_cons, len_nil.
    destruct (len acc + (1 + 0) =? size) eqn:E.
    + assert (x = []) by (destruct x; [reflexivity|rewrite len_cons in Hsum; pose proof (len_nonneg x); lia]).
      subst x. cbn [app]. destruct (ws_run c (MHdr []) rest) as [m e]. reflexivity.
    + rewrite IH by (rewrite len_app, len_cons, len_nil; lia).
      destruct (ws_run c (MHdr []) rest) as [m e]. rewrite <- app_assoc. reflexivity.
Qed.

(* ---- handshake lines ---- *)

Lemma ws_find_nl_range : forall buf i, ws_find_nl buf = Some i -> 0 <= i < len buf.
Proof.
  induction buf as [|b r IH]; intros i H; cbn [ws_find_nl] in H; [discriminate|].
  rewrite len_cons. pose proof (len_nonneg r).
  destruct (b =? 10); [inversion H; lia|]. destruct (b =? 0); [discriminate|].
  destruct (ws_find_nl r) as [j|]; [|discriminate]. inversion H; subst. specialize (IH j eq_refl). lia.
Qed.

(* the bytes before the newline found contain neither NUL nor LF; the byte at i is LF *)
Lemma ws_find_nl_split : forall buf i,
  ws_find_nl buf = Some i ->
  buf = take i buf ++ 10 :: drop (i + 1) buf /\ ws_find_nl (take i buf) = None /\
  ws_has_nul (take i buf) = false.
Proof.
  induction buf as [|b r IH]; intros i H; cbn [ws_find_nl] in H; [discriminate|].
  destruct (b =? 10) eqn:E10.
  - inversion H; subst. assert (b = 10) by lia. subst b. repeat split.
  - destruct (b =? 0) eqn:E0; [discriminate|].
    destruct (ws_find_nl r) as [j|] eqn:Ej; [|discriminate]. inversion H; subst i.
    destruct (IH j eq_refl) as (Hs & Hn & Hz). pose proof (ws_find_nl_range r j Ej) as Hr.
    unfold take, drop in *. replace (Z.to_nat (j + 1)) with (S (Z.to_nat j)) by lia.
    replace (Z.to_nat (j + 1 + 1)) with (S (Z.to_nat (j + 1))) by lia.
    cbn [firstn skipn app]. repeat split.
    + f_equal. exact Hs.
    + cbn [ws_find_nl]. rewrite E10, E0, Hn. reflexivity.
    + cbn [ws_has_nul existsb]. rewrite E0. exact Hz.
Qed.

Lemma ws_find_nl_app : forall l r,
  ws_find_nl (l ++ r) =
  match ws_find_nl l with
  | Some i => Some i
  | None => if ws_has_nul l then None
            else match ws_find_nl r with Some j => Some (j + len l) | None => None end
  end.
Proof.
  induction l as [|b l IH]; intros r.
  - cbn [app ws_find_nl ws_has_nul existsb]. rewrite len_nil.
    destruct (ws_find_nl r); [f_equal; lia|reflexivity].
  - cbn [app ws_find_nl ws_has_nul existsb]. destruct (b =? 10); [reflexivity|].
    destruct (b =? 0); [reflexivity|]. cbn [orb]. rewrite IH.
    destruct (ws_find_nl l); [reflexivity|]. fold (ws_has_nul l). destruct (ws_has_nul l); [reflexivity|].
    rewrite len_cons. destruct (ws_find_nl r); [f_equal; lia|reflexivity].
Qed.

Lemma ws_has_nul_app l r : ws_has_nul (l ++ r) = ws_has_nul l || ws_has_nul r.
Proof. unfold ws_has_nul. apply existsb_app. Qed.

(* no visible newline and room left: the automaton just collects the bytes *)
Lemma ws_run_hs_wait c f : forall x line,
  ws_find_nl (line ++ x) = None -> len (line ++ x) < ws_http_buf - 1 ->
  ws_run c (MHs f line) x = (MHs f (line ++ x), []).
Proof.
  induction x as [|b x IH]; intros line Hn Hl.
  - rewrite app_nil_r. reflexivity.
  - cbn [ws_run ws_step].
    assert (Hstep : (b =? 10) && negb (ws_has_nul line) = false).
    { destruct (b =? 10) eqn:E; [|reflexivity]. assert (b = 10) by lia. subst b.
      rewrite ws_find_nl_app in Hn. destruct (ws_find_nl line); [discriminate|].
      destruct (ws_has_nul line); [reflexivity|]. cbn [ws_find_nl Z.eqb] in Hn. discriminate. }
    rewrite Hstep.
    replace (line ++ b :: x) with ((line ++ [b]) ++ x) in Hn, Hl by (rewrite <- app_assoc; reflexivity).
    pose proof (len_nonneg x). rewrite len_app in Hl.
    replace (ws_http_buf - 1 <=? len (line ++ [b])) with false by lia.
    rewrite IH; [rewrite <- app_assoc; reflexivity|assumption|rewrite len_app; lia].
Qed.

(* the buffer is full and still holds no end of line: the handshake fails *)
Lemma ws_run_hs_full c f x more :
  ws_find_nl x = None -> len x = ws_http_buf - 1 ->
  ws_run c (MHs f []) (x ++ more) = (MClosed, [WFail]).
Proof.
  intros Hn Hl. destruct (exists_last (l := x)) as (x0 & b & ->).
  { intros ->. unfold ws_http_buf in Hl. rewrite len_nil in Hl. lia. }
  rewrite <- app_assoc. rewrite ws_run_app.
  rewrite len_app, len_cons, len_nil in Hl.
  assert (Hn0 : ws_find_nl x0 = None).
  { rewrite ws_find_nl_app in Hn. destruct (ws_find_nl x0); [discriminate|reflexivity]. }
  rewrite (ws_run_hs_wait c f x0 []) by (cbn [app]; first [assumption | lia]).
  cbn [app ws_run ws_step].
  assert (Hstep : (b =? 10) && negb (ws_has_nul x0) = false).
  { destruct (b =? 10) eqn:E; [|reflexivity]. assert (b = 10) by lia. subst b.
    rewrite ws_find_nl_app, Hn0 in Hn. destruct (ws_has_nul x0); [reflexivity|].
    cbn [ws_find_nl Z.eqb] in Hn. discriminate. }
  rewrite Hstep. rewrite len_app, len_cons, len_nil.
  replace (ws_http_buf - 1 <=? len x0 + (1 + 0)) with true by lia.
  rewrite ws_run_closed. reflexivity.
Qed.

(* a complete line in front: it is processed, the rest continues *)
Lemma ws_run_hs_line c f buf i more :
  ws_find_nl buf = Some i -> i < ws_http_buf - 1 ->
  ws_run c (MHs f []) (buf ++ more) =
  match ws_process_line c f (ws_strip_cr (take i buf)) with
  | PFail => (MClosed, [WFail])
  | PUp f' => let '(m, e) := ws_run c (MHdr []) (drop (i + 1) buf ++ more) in (m, WConnected :: e)
  | PNext f' => ws_run c (MHs f' []) (drop (i + 1) buf ++ more)
  end.
Proof.
  intros Hf Hi. destruct (ws_find_nl_split buf i Hf) as (Hs & Hn & Hz).
  pose proof (ws_find_nl_range buf i Hf) as Hr.
  rewrite Hs at 1. rewrite <- app_assoc. rewrite ws_run_app.
  rewrite (ws_run_hs_wait c f (take i buf) []); cbn [app]; try assumption.
  2:{ rewrite len_take; lia. }
  cbn [ws_run ws_step]. change (10 =? 10) with true. rewrite Hz. cbn [negb andb].
  destruct (ws_process_line c f (ws_strip_cr (take i buf))) as [|f'|f']; cbv beta iota.
  - rewrite ws_run_closed. reflexivity.
  - destruct (ws_run c (MHdr []) (drop (i + 1) buf ++ more)). reflexivity.
  - destruct (ws_run c (MHs f' []) (drop (i + 1) buf ++ more)). reflexivity.
Qed.

Lemma ws_lines_spec c more : forall fuel f buf,
  len buf <= ws_http_buf - 1 -> (length buf < fuel)%nat ->
  match ws_lines fuel c f buf with
  | LFail => ws_run c (MHs f []) (buf ++ more) = (MClosed, [WFail])
  | LUp lft f' =>
      ws_run c (MHs f []) (buf ++ more) =
      (let '(m, e) := ws_run c (MHdr []) (lft ++ more) in (m, WConnected :: e)) /\
      exists i, ws_find_nl buf = Some i /\ len lft <= len buf - i - 1
  | LMore buf' f' =>
      ws_run c (MHs f []) (buf ++ more) = ws_run c (MHs f' []) (buf' ++ more) /\
      ws_find_nl buf' = None /\ len buf' <= len buf
  end.
Proof.
  induction fuel as [|fu IH]; intros f buf Hl Hf; [lia|].
  cbn [ws_lines]. destruct (ws_find_nl buf) as [i|] eqn:Ei.
  2:{ repeat split; [assumption|lia]. }
  pose proof (ws_find_nl_range buf i Ei) as Hr.
  rewrite (ws_run_hs_line c f buf i more Ei) by lia.
  assert (Hlr : len (drop (i + 1) buf) = len buf - i - 1) by (rewrite len_drop; lia).
  destruct (ws_process_line c f (ws_strip_cr (take i buf))) as [|f'|f'].
  - reflexivity.
  - split; [reflexivity|]. exists i. split; [reflexivity|lia].
  - assert (Hlen : (length (drop (i + 1) buf) < fu)%nat).
    { unfold len in Hlr. lia. }
    specialize (IH f' (drop (i + 1) buf) ltac:(lia) Hlen).
    destruct (ws_lines fu c f' (drop (i + 1) buf)) as [lft f2|buf' f2|].
    + destruct IH as (H1 & j & Hj & Hlj). split; [exact H1|]. exists i. split; [reflexivity|].
      pose proof (ws_find_nl_range _ j Hj). lia.
    + destruct IH as (H1 & H2 & H3). repeat split; [exact H1|exact H2|lia].
    + exact IH.
Qed.

Lemma ws_rd_spec n avail chunk a' :
  ws_rd n avail = (chunk, a') -> avail = chunk ++ a' /\ (0 <= n -> len chunk = Z.min n (len avail)).
Proof.
  unfold ws_rd. intros [= <- <-]. split; [symmetry; apply take_drop|apply tcp_len_take_min].
Qed.

Lemma ws_rd_short n avail chunk a' :
  ws_rd n avail = (chunk, a') -> 0 <= n -> len chunk < n -> a' = [].
Proof.
  unfold ws_rd. intros [= <- <-] Hn Hl. rewrite tcp_len_take_min in Hl by assumption.
  apply tcp_drop_all. lia.
Qed.

Lemma ws_len_zero_nil {A} (l : list A) : len l = 0 -> l = [].
Proof. destruct l; [reflexivity|]. rewrite len_cons. pose proof (len_nonneg l). lia. Qed.

Lemma ws_hs_spec c : wsc_fix c = ws_fixed -> forall fuel f http avail,
  ws_find_nl http = None -> len http <= ws_http_buf - 1 -> (length avail < fuel)%nat ->
  match ws_hs fuel c f http avail false with
  | (HFuel, _) => False
  | (HFail a', oob) => oob = false /\ ws_run c (MHs f []) (http ++ avail) = (MClosed, [WFail])
  | (HUp lft f' a', oob) =>
      oob = false /\ len lft <= 13 /\
      ws_run c (MHs f []) (http ++ avail) =
      (let '(m, e) := ws_run c (MHdr []) (lft ++ a') in (m, WConnected :: e))
  | (HMore http' f' a', oob) =>
      oob = false /\ a' = [] /\ ws_find_nl http' = None /\ len http' < ws_http_buf - 1 /\
      ws_run c (MHs f []) (http ++ avail) = (MHs f' http', [])
  end.
Proof.
  intros Hfix. induction fuel as [|fu IH]; intros f http avail Hn Hl Hf; [lia|].
  cbn [ws_hs]. rewrite Hfix. cbn [wsf_line ws_fixed]. cbv zeta.
  pose proof (len_nonneg http) as Hk. unfold ws_http_buf, ws_max_fs in *.
  set (rem := if 160 - 1 - 14 <? len http then 160 - 1 - len http else 14).
  assert (Hrem : 0 <= rem <= 14 /\ len http + rem <= 159) by (subst rem; case_if; lia).
  destruct (rem <=? 0) eqn:Er; cbn [andb].
  - (* buffer full *)
    assert (len http = 159) by (subst rem; case_if_in Er; lia).
    split; [reflexivity|]. apply ws_run_hs_full; [assumption|unfold ws_http_buf; lia].
  - destruct (ws_rd rem avail) as [chunk avail'] eqn:Erd.
    destruct (ws_rd_spec _ _ _ _ Erd) as (Hav & Hlc). specialize (Hlc ltac:(lia)).
    destruct chunk as [|c0 ch].
    + rewrite len_nil in Hlc. assert (Ha0 : avail = []) by (apply ws_len_zero_nil; lia).
      cbn [app] in Hav. rewrite Ha0 in Hav. rewrite <- Hav. rewrite Ha0.
      repeat split; try reflexivity; try assumption; [unfold ws_http_buf; lia|].
      rewrite app_nil_r. rewrite <- (app_nil_l http) at 2.
      apply ws_run_hs_wait; cbn [app]; [assumption|unfold ws_http_buf; lia].
    + set (chunk := c0 :: ch) in *.
      assert (Hlb : len (http ++ chunk) <= 159) by (rewrite len_app; lia).
      replace (false || (160 <=? len (http ++ chunk))) with false by lia.
      assert (Heq : http ++ avail = (http ++ chunk) ++ avail') by (rewrite Hav, app_assoc; reflexivity).
      pose proof (ws_lines_spec c avail' (S (length (http ++ chunk))) f (http ++ chunk)
                    ltac:(unfold ws_http_buf; lia) ltac:(lia)) as Hls.
      destruct (ws_lines (S (length (http ++ chunk))) c f (http ++ chunk)) as [lft f'|buf' f'|].
      * destruct Hls as (Hrun & i & Hi & Hli). split; [reflexivity|]. split.
        -- rewrite ws_find_nl_app, Hn in Hi. destruct (ws_has_nul http); [discriminate|].
           destruct (ws_find_nl chunk) as [j|] eqn:Ej; [|discriminate]. inversion Hi; subst i.
           pose proof (ws_find_nl_range chunk j Ej). rewrite len_app in Hli. lia.
        -- rewrite Heq. exact Hrun.
      * destruct Hls as (Hrun & Hn' & Hl').
        assert (Hfu : (length avail' < fu)%nat).
        { rewrite Hav, app_length in Hf. subst chunk. cbn [length] in Hf. lia. }
        specialize (IH f' buf' avail' Hn' ltac:(unfold ws_http_buf; lia) Hfu).
        rewrite Heq, Hrun.
        destruct (ws_hs fu c f' buf' avail' false) as [[l2 f2 a2|h2 f2 a2|a2|] o2]; exact IH.
      * split; [reflexivity|]. rewrite Heq. exact Hls.
Qed.

(* ---- frame header: macro steps ---- *)

Definition ws_hdr_ok (c : ws_cfg) (h : bytes) : bool :=
  negb (wsc_server c && negb (fh_masked (ws_fh (nth 1 h 0)))).

Definition ws_hdr_waiting (c : ws_cfg) (h : bytes) : Prop :=
  len h < 2 \/ (ws_hdr_ok c h = true /\ len h < fh_hl (ws_fh (nth 1 h 0))).

Lemma ws_fh_hl_range b1 : 2 <= fh_hl (ws_fh b1) <= 14 /\ 0 <= fh_ext (ws_fh b1) <= 8 /\
  fh_hl (ws_fh b1) = 2 + fh_ext (ws_fh b1) + (if fh_masked (ws_fh b1) then 4 else 0).
Proof. unfold ws_fh. cbn [fh_hl fh_ext fh_masked]. repeat case_if; lia. Qed.

Lemma ws_nth_app_lt (l r : bytes) n : (n < length l)%nat -> nth n (l ++ r) 0 = nth n l 0.
Proof. intros H. apply app_nth1. assumption. Qed.

Lemma ws_run_hdr_wait c : forall x h,
  ws_hdr_waiting c (h ++ x) -> ws_run c (MHdr h) x = (MHdr (h ++ x), []).
Proof.
  induction x as [|b x IH]; intros h W.
  - rewrite app_nil_r. reflexivity.
  - cbn [ws_run ws_step].
    replace (h ++ b :: x) with ((h ++ [b]) ++ x) in W by (rewrite <- app_assoc; reflexivity).
    pose proof (len_nonneg x) as Hx.
    destruct (len (h ++ [b]) <? 2) eqn:E2.
    + rewrite IH by assumption. rewrite <- app_assoc. reflexivity.
    + assert (Hnth : nth 1 ((h ++ [b]) ++ x) 0 = nth 1 (h ++ [b]) 0).
      { apply ws_nth_app_lt. unfold len in E2. lia. }
      destruct W as [W|(Wok & Wl)]; [rewrite len_app in W; lia|].
      unfold ws_hdr_ok in Wok. rewrite Hnth in Wok, Wl. rewrite len_app in Wl.
      destruct (wsc_server c && negb (fh_masked (ws_fh (nth 1 (h ++ [b]) 0)))) eqn:Esrv; [discriminate|].
      replace (len (h ++ [b]) <? fh_hl (ws_fh (nth 1 (h ++ [b]) 0))) with true by lia.
      rewrite IH.
      * rewrite <- app_assoc. reflexivity.
      * right. unfold ws_hdr_ok. rewrite Hnth, Esrv. rewrite len_app. split; [reflexivity|lia].
Qed.

Lemma ws_run_hdr_unmasked c a b1 more :
  wsc_server c = true -> fh_masked (ws_fh b1) = false ->
  ws_run c (MHdr []) (a :: b1 :: more) = (MClosed, [WClose 1002]).
Proof.
  intros Hs Hm. cbn [ws_run ws_step app]. change (len [a] <? 2) with true. cbv iota beta.
  cbn [ws_step app]. change (len [a; b1] <? 2) with false. cbv iota beta. cbn [nth]. rewrite Hs, Hm.
  cbn [negb andb]. rewrite ws_run_closed. reflexivity.
Qed.

Lemma ws_run_hdr_done c hd more :
  2 <= len hd -> ws_hdr_ok c hd = true -> len hd = fh_hl (ws_fh (nth 1 hd 0)) ->
  ws_run c (MHdr []) (hd ++ more) =
  let '(m1, e1) := ws_hdr_done c hd in
  let '(m2, e2) := ws_run c m1 more in (m2, e1 ++ e2).
Proof.
  intros H2 Hok Hl.
  destruct (exists_last (l := hd)) as (hd0 & b & ->).
  { intros ->. rewrite len_nil in H2. lia. }
  rewrite <- app_assoc. rewrite ws_run_app.
  rewrite len_app, len_cons, len_nil in H2, Hl. pose proof (len_nonneg hd0) as H0.
  rewrite (ws_run_hdr_wait c hd0 []).
  2:{ cbn [app]. destruct (len hd0 <? 2) eqn:E; [left; lia|]. right.
      assert (Hnth : nth 1 (hd0 ++ [b]) 0 = nth 1 hd0 0) by (apply ws_nth_app_lt; unfold len in E; lia).
      unfold ws_hdr_ok in *. rewrite Hnth in Hok, Hl. split; [assumption|lia]. }
  cbn [app ws_run ws_step].
  replace (len (hd0 ++ [b]) <? 2) with false by (rewrite len_app, len_cons, len_nil; lia).
  unfold ws_hdr_ok in Hok.
  destruct (wsc_server c && negb (fh_masked (ws_fh (nth 1 (hd0 ++ [b]) 0)))); [discriminate|].
  replace (len (hd0 ++ [b]) <? fh_hl (ws_fh (nth 1 (hd0 ++ [b]) 0))) with false
    by (rewrite len_app, len_cons, len_nil; lia).
  destruct (ws_hdr_done c (hd0 ++ [b])) as [m1 e1]. destruct (ws_run c m1 more) as [m2 e2]. reflexivity.
Qed.

(* what the header functions look at lies within the header *)
Lemma ws_take_drop_take {A} k j n (l : list A) :
  0 <= j -> 0 <= k -> j + k <= n -> take k (drop j (take n l)) = take k (drop j l).
Proof.
  intros Hj Hk Hn. unfold take, drop. rewrite skipn_firstn_comm. rewrite firstn_firstn.
  f_equal. lia.
Qed.

Lemma ws_nth_take (l : bytes) n i : (i < Z.to_nat n)%nat -> nth i (take n l) 0 = nth i l 0.
Proof.
  intros H. unfold take. rewrite <- (firstn_skipn (Z.to_nat n) l) at 2.
  destruct (Nat.lt_ge_cases i (length (firstn (Z.to_nat n) l))) as [Hlt|Hge].
  - rewrite app_nth1 by assumption. reflexivity.
  - rewrite firstn_length in Hge. rewrite !nth_overflow; try reflexivity.
    + rewrite app_length, firstn_length, skipn_length. lia.
    + rewrite firstn_length. lia.
Qed.

Lemma ws_hdr_done_take c h :
  fh_hl (ws_fh (nth 1 h 0)) <= len h ->
  ws_hdr_done c (take (fh_hl (ws_fh (nth 1 h 0))) h) = ws_hdr_done c h.
Proof.
  intros Hl. pose proof (ws_fh_hl_range (nth 1 h 0)) as (Hr & He & Hhl).
  set (hl := fh_hl (ws_fh (nth 1 h 0))) in *.
  assert (H0 : nth 0 (take hl h) 0 = nth 0 h 0) by (apply ws_nth_take; lia).
  assert (H1 : nth 1 (take hl h) 0 = nth 1 h 0) by (apply ws_nth_take; lia).
  unfold ws_hdr_done, ws_fsize. rewrite H0, H1.
  assert (Hs8 : (nth 1 h 0) mod 128 =? 127 = true -> take 8 (drop 2 (take hl h)) = take 8 (drop 2 h)).
  { intros E. apply ws_take_drop_take; try lia. unfold ws_fh in Hhl, He. cbn [fh_ext fh_masked] in Hhl.
    rewrite E in Hhl. destruct (128 <=? nth 1 h 0); lia. }
  assert (Hs2 : (nth 1 h 0) mod 128 =? 127 = false -> (nth 1 h 0) mod 128 =? 126 = true ->
                take 2 (drop 2 (take hl h)) = take 2 (drop 2 h)).
  { intros E E'. apply ws_take_drop_take; try lia. unfold ws_fh in Hhl. cbn [fh_ext fh_masked] in Hhl.
    rewrite E, E' in Hhl. destruct (128 <=? nth 1 h 0); lia. }
  assert (Hm : fh_masked (ws_fh (nth 1 h 0)) = true ->
               take 4 (drop (2 + fh_ext (ws_fh (nth 1 h 0))) (take hl h)) =
               take 4 (drop (2 + fh_ext (ws_fh (nth 1 h 0))) h)).
  { intros E. apply ws_take_drop_take; try lia. rewrite E in Hhl. lia. }
  destruct ((nth 1 h 0) mod 128 =? 127) eqn:E7.
  - rewrite Hs8 by reflexivity. destruct (fh_masked (ws_fh (nth 1 h 0))) eqn:Em;
      [rewrite Hm by reflexivity|]; reflexivity.
  - destruct ((nth 1 h 0) mod 128 =? 126) eqn:E6.
    + rewrite Hs2 by reflexivity. destruct (fh_masked (ws_fh (nth 1 h 0))) eqn:Em;
        [rewrite Hm by reflexivity|]; reflexivity.
    + destruct (fh_masked (ws_fh (nth 1 h 0))) eqn:Em; [rewrite Hm by reflexivity|]; reflexivity.
Qed.

(* ------------------------------------------------------------------ the repaired reader refines the automaton *)

Definition ws_evr (r : ws_ret) : list ws_ev := match r with RFrame p => [WMsg p] | _ => [] end.

Definition ws_sim (c : ws_cfg) (m : ws_mode) (input : bytes) (evs : list ws_ev)
                  (m' : ws_mode) (input' : bytes) : Prop :=
  ws_run c m input = let '(m2, e2) := ws_run c m' input' in (m2, evs ++ e2).

Lemma ws_sim_refl c m input : ws_sim c m input [] m input.
Proof. unfold ws_sim. destruct (ws_run c m input). reflexivity. Qed.

Lemma ws_sim_trans c m1 i1 e1 m2 i2 e2 m3 i3 :
  ws_sim c m1 i1 e1 m2 i2 -> ws_sim c m2 i2 e2 m3 i3 -> ws_sim c m1 i1 (e1 ++ e2) m3 i3.
Proof.
  unfold ws_sim. intros H1 H2. rewrite H1, H2. destruct (ws_run c m3 i3).
  rewrite app_assoc. reflexivity.
Qed.

(* between two calls of coap_ws_read *)
Definition ws_winv (c : ws_cfg) (s : ws_rstate) : Prop :=
  w_closed s = true \/
  (w_closed s = false /\ w_up s = false /\ wfb (w_http s) /\ ws_find_nl (w_http s) = None /\
   len (w_http s) < ws_http_buf - 1) \/
  (w_closed s = false /\ w_up s = true /\ w_allhdr s = true /\ 0 < w_dsize s <= wsc_rxbuf c /\
   len (w_data s) < w_dsize s) \/
  (w_closed s = false /\ w_up s = true /\ w_allhdr s = false /\ wfb (w_rdh s) /\ len (w_rdh s) <= ws_max_fs).

(* between two arrivals: nothing that is buffered can be processed further *)
Definition ws_qinv (c : ws_cfg) (s : ws_rstate) : Prop :=
  w_closed s = true \/
  (w_closed s = false /\ w_up s = false /\ wfb (w_http s) /\ ws_find_nl (w_http s) = None /\
   len (w_http s) < ws_http_buf - 1) \/
  (w_closed s = false /\ w_up s = true /\ w_allhdr s = true /\ 0 < w_dsize s <= wsc_rxbuf c /\
   len (w_data s) < w_dsize s) \/
  (w_closed s = false /\ w_up s = true /\ w_allhdr s = false /\ wfb (w_rdh s) /\ ws_hdr_waiting c (w_rdh s)).

Lemma ws_waiting_len c h : ws_hdr_waiting c h -> len h < ws_max_fs.
Proof.
  unfold ws_hdr_waiting, ws_max_fs. pose proof (ws_fh_hl_range (nth 1 h 0)) as Hr. intros [H|[_ H]]; lia.
Qed.

Lemma ws_qinv_winv c s : ws_qinv c s -> ws_winv c s.
Proof.
  unfold ws_qinv, ws_winv. intros [H|[H|[H|(H1 & H2 & H3 & H4 & H5)]]]; auto.
  right; right; right. pose proof (ws_waiting_len c _ H5). repeat split; try assumption. lia.
Qed.

Lemma ws_qinv_run c s :
  ws_qinv c s -> ws_run c (fst (ws_abs s)) (snd (ws_abs s)) = (ws_mode_of s, []).
Proof.
  unfold ws_qinv, ws_abs, ws_mode_of.
  intros [H|[(H0 & H1 & _ & H2 & H3)|[(H0 & H1 & H2 & H3)|(H0 & H1 & H2 & _ & H3)]]].
  - rewrite H. reflexivity.
  - rewrite H0, H1. cbn [negb fst snd]. rewrite <- (app_nil_l (w_http s)) at 2.
    apply ws_run_hs_wait; cbn [app]; assumption.
  - rewrite H0, H1, H2. reflexivity.
  - rewrite H0, H1, H2. cbn [negb fst snd]. rewrite <- (app_nil_l (w_rdh s)) at 2.
    apply ws_run_hdr_wait. cbn [app]. assumption.
Qed.

Lemma ws_data_stage_spec c s datalen avail s1 r a1 e1 :
  wsc_fix c = ws_fixed -> w_closed s = false -> w_up s = true -> w_allhdr s = true ->
  0 < w_dsize s <= datalen -> len (w_data s) < w_dsize s ->
  ws_data_stage c s datalen avail = (s1, r, a1, e1) ->
  e1 = [] /\ w_closed s1 = false /\ w_up s1 = true /\ (length a1 <= length avail)%nat /\
  match r with
  | RErr => False
  | RNone =>
      a1 = [] /\ w_allhdr s1 = true /\ w_dsize s1 = w_dsize s /\ w_mask s1 = w_mask s /\
      len (w_data s1) < w_dsize s /\ w_data s1 = w_data s ++ avail
  | RFrame p =>
      w_allhdr s1 = false /\ w_rdh s1 = [] /\ (length a1 < length avail)%nat /\
      ws_sim c (MBody (w_mask s) (w_dsize s) (w_data s)) avail [WMsg p] (MHdr []) a1
  end.
Proof.
  intros Hfix Hc Hup Hall Hsz Hd H. unfold ws_data_stage in H. rewrite Hfix in H.
  cbn [wsf_drain ws_fixed andb] in H. replace (datalen <? w_dsize s) with false in H by lia.
  destruct (ws_rd (w_dsize s - len (w_data s)) avail) as [chunk a'] eqn:Erd.
  destruct (ws_rd_spec _ _ _ _ Erd) as (Hav & Hlc). specialize (Hlc ltac:(lia)).
  pose proof (len_nonneg (w_data s)) as Hd0.
  assert (Hla : (length a' <= length avail)%nat) by (rewrite Hav, app_length; lia).
  destruct chunk as [|c0 ch].
  - rewrite len_nil in Hlc. assert (Ha0 : avail = []) by (apply ws_len_zero_nil; lia).
    cbn [app] in Hav. assert (Ha' : a' = []) by congruence.
    inversion H; subst s1 r a1 e1. clear H. rewrite Ha', Ha0.
    repeat split; try assumption; try reflexivity. rewrite app_nil_r. reflexivity.
  - set (chunk := c0 :: ch) in *.
    assert (Hcl : 1 <= len chunk) by (subst chunk; rewrite len_cons; pose proof (len_nonneg ch); lia).
    replace (datalen <? len (w_data s ++ chunk)) with false in H by (rewrite len_app; lia).
    destruct (len (w_data s ++ chunk) =? w_dsize s) eqn:Ef.
    + inversion H; subst s1 r a1 e1. clear H. cbn [w_closed w_up w_allhdr w_rdh].
      repeat split; try assumption; try reflexivity.
      * rewrite Hav, app_length. subst chunk. cbn [length]. lia.
      * unfold ws_sim. rewrite Hav. rewrite len_app in Ef.
        rewrite (ws_run_body_full c (w_mask s) (w_dsize s) a' chunk (w_data s)) by lia.
        destruct (ws_run c (MHdr []) a'). reflexivity.
    + inversion H; subst s1 r a1 e1. clear H. cbn [w_closed w_up w_allhdr w_dsize w_mask w_data].
      rewrite len_app in Ef.
      assert (a' = []) by (apply (ws_rd_short _ _ _ _ Erd); lia). subst a'.
      rewrite app_nil_r in Hav. subst avail.
      repeat split; try assumption; try reflexivity. rewrite len_app. lia.
Qed.

Lemma ws_data_stage_wfb c s datalen avail s1 r a1 e1 :
  wfb avail -> ws_data_stage c s datalen avail = (s1, r, a1, e1) -> wfb a1.
Proof.
  intros Wa H. unfold ws_data_stage, ws_rd in H.
  destruct (wsf_drain (wsc_fix c) && (datalen <? w_dsize s)); [inversion H; subst; assumption|].
  destruct (take (w_dsize s - len (w_data s)) avail) as [|z l];
    [inversion H; subst; apply wfb_drop; assumption|].
  destruct (len (w_data s ++ z :: l) =? w_dsize s); inversion H; subst; apply wfb_drop; assumption.
Qed.

Lemma ws_abs_closed s : w_closed s = true -> ws_abs s = (MClosed, []).
Proof. unfold ws_abs. intros ->. reflexivity. Qed.

Lemma ws_sim_closed c m input e a :
  ws_run c m input = (MClosed, e) -> ws_sim c m input (e ++ []) MClosed ([] ++ a).
Proof. unfold ws_sim. intros ->. rewrite ws_run_closed. rewrite !app_nil_r. reflexivity. Qed.

Lemma ws_be_nonneg : forall l acc, wfb l -> 0 <= acc -> 0 <= fold_left (fun a b : Z => a * 256 + b) l acc.
Proof.
  induction l as [|b l IH]; intros acc W Ha; cbn [fold_left]; [assumption|].
  apply wfb_cons in W. destruct W as [Hb W]. apply IH; [assumption|]. unfold is_byte in Hb. lia.
Qed.

Lemma ws_fsize_nonneg h : wfb h -> 0 <= ws_fsize h.
Proof.
  intros W. unfold ws_fsize, ws_be. repeat case_if.
  - apply ws_be_nonneg; [apply wfb_take, wfb_drop; assumption|lia].
  - apply ws_be_nonneg; [apply wfb_take, wfb_drop; assumption|lia].
  - apply Z.mod_pos_bound. lia.
Qed.

Lemma ws_after_hdr_spec c s h a1 s1 r a2 e1 :
  wsc_fix c = ws_fixed -> ws_drain_buf <= wsc_rxbuf c ->
  w_closed s = false -> w_up s = true -> wfb h -> wfb a1 ->
  len h <= ws_max_fs -> fh_hl (ws_fh (nth 1 h 0)) <= len h -> ws_hdr_ok c h = true ->
  ~ In WZero (snd (ws_run c (MHdr []) (h ++ a1))) ->
  ws_after_hdr c s h (wsc_rxbuf c) a1 = (s1, r, a2, e1) ->
  w_up s1 = true /\ r <> RErr /\ (length a2 <= length a1)%nat /\ wfb a2 /\
  ws_sim c (MHdr []) (h ++ a1) (e1 ++ ws_evr r) (fst (ws_abs s1)) (snd (ws_abs s1) ++ a2) /\
  (w_closed s1 = true \/
   (w_closed s1 = false /\
    match r with
    | RErr => False
    | RNone => a2 = [] /\ w_allhdr s1 = true /\ 0 < w_dsize s1 <= wsc_rxbuf c /\ len (w_data s1) < w_dsize s1
    | RFrame p => w_allhdr s1 = false /\ wfb (w_rdh s1) /\ len (w_rdh s1) <= ws_max_fs /\
                  (length (w_rdh s1) + length a2 < length h + length a1)%nat
    end)).
Proof.
  intros Hfix Hdb Hc Hup Wh Wa Hlen Hhl Hok Hz H.
  pose proof (ws_fh_hl_range (nth 1 h 0)) as (Hr & He & Hhleq).
  set (hl := fh_hl (ws_fh (nth 1 h 0))) in *.
  set (body := drop hl h) in *.
  assert (Hsplit : h ++ a1 = take hl h ++ (body ++ a1)).
  { rewrite app_assoc. subst body. rewrite take_drop. reflexivity. }
  assert (Hbl : len body = len h - hl) by (subst body; rewrite len_drop; lia).
  assert (Wb : wfb body) by (subst body; apply wfb_drop; assumption).
  assert (Hnth1 : nth 1 (take hl h) 0 = nth 1 h 0) by (apply ws_nth_take; lia).
  assert (Hrun : ws_run c (MHdr []) (h ++ a1) =
                 let '(m1, ee) := ws_hdr_done c h in
                 let '(m2, e2) := ws_run c m1 (body ++ a1) in (m2, ee ++ e2)).
  { rewrite Hsplit. rewrite ws_run_hdr_done.
    - subst hl. rewrite ws_hdr_done_take by assumption. reflexivity.
    - rewrite len_take; lia.
    - unfold ws_hdr_ok in *. rewrite Hnth1. assumption.
    - rewrite Hnth1. rewrite len_take; lia. }
  unfold ws_after_hdr in H. unfold ws_hdr_done in Hrun. cbv zeta in H, Hrun.
  fold hl in H. fold body in H.
  destruct (negb (nth 0 h 0 mod 16 =? 2) && negb (nth 0 h 0 mod 16 =? 8)) eqn:Eop.
  { inversion H; subst s1 r a2 e1. clear H. rewrite ws_run_closed in Hrun.
    cbn [ws_set_closed w_up w_closed]. rewrite ws_abs_closed by reflexivity. cbn [fst snd ws_evr].
    repeat split; try assumption; try discriminate; try lia.
    all: try (apply ws_sim_closed; rewrite Hrun; reflexivity).
    all: try (left; reflexivity). }
  destruct (nth 0 h 0 mod 16 =? 8) eqn:Eop8.
  { inversion H; subst s1 r a2 e1. clear H. rewrite ws_run_closed in Hrun.
    cbn [ws_set_closed w_up w_closed]. rewrite ws_abs_closed by reflexivity. cbn [fst snd ws_evr].
    repeat split; try assumption; try discriminate; try lia.
    all: try (apply ws_sim_closed; rewrite Hrun; reflexivity).
    all: try (left; reflexivity). }
  pose proof (ws_fsize_nonneg h Wh) as Hsz0.
  set (size := ws_fsize h) in *.
  set (mask := if fh_masked (ws_fh (nth 1 h 0)) then take 4 (drop (2 + fh_ext (ws_fh (nth 1 h 0))) h) else []) in *.
  destruct (wsc_rxbuf c <? size) eqn:Ebig.
  { (* oversize: close 1009, the drain loop refuses to read *)
    rewrite ws_run_closed in Hrun.
    assert (Hdr : forall st, w_allhdr st = true -> w_dsize st = size ->
                  ws_drain 5 c st a1 = (st, a1, false)).
    { intros st Ha Hd. cbn [ws_drain]. destruct a1; [reflexivity|]. rewrite Ha. cbn [negb].
      rewrite Hfix. cbn [wsf_drain ws_fixed andb]. rewrite Hd.
      replace (ws_drain_buf <? size) with true by lia. reflexivity. }
    rewrite Hdr in H by reflexivity. inversion H; subst s1 r a2 e1. clear H.
    cbn [w_up w_closed]. rewrite ws_abs_closed by reflexivity. cbn [fst snd ws_evr].
    repeat split; try assumption; try discriminate; try lia.
    all: try (apply ws_sim_closed; rewrite Hrun; reflexivity).
    all: try (left; reflexivity). }
  destruct (size =? 0) eqn:Ez.
  { exfalso. apply Hz. rewrite Hrun. destruct (ws_run c (MHdr []) (body ++ a1)). cbn [snd app]. left. reflexivity. }
  cbn [app] in Hrun.
  assert (Hrun' : ws_run c (MHdr []) (h ++ a1) = ws_run c (MBody mask size []) (body ++ a1)).
  { rewrite Hrun. destruct (ws_run c (MBody mask size []) (body ++ a1)). reflexivity. }
  clear Hrun. pose proof (len_nonneg body) as Hb0. assert (Hszpos : 0 < size) by lia.
  assert (Hlh : (length body <= length h)%nat) by (subst body; unfold drop; rewrite skipn_length; lia).
  destruct (0 <? len body) eqn:Eret.
  - destruct (len body <=? size) eqn:Ele.
    + destruct (len body =? size) eqn:Eeq.
      * (* the header buffer holds exactly the frame *)
        inversion H; subst s1 r a2 e1. clear H. cbn [w_up w_closed w_allhdr w_rdh ws_evr app].
        unfold ws_abs. cbn [w_closed w_up w_allhdr w_rdh]. rewrite Hc, Hup. cbn [negb fst snd app].
        repeat split; try assumption; try discriminate; try lia.
        -- unfold ws_sim. rewrite Hrun'.
           rewrite (ws_run_body_full c mask size a1 body []) by (rewrite ?len_nil; lia).
           destruct (ws_run c (MHdr []) a1). reflexivity.
        -- right. split; [reflexivity|]. repeat split; try constructor; try (rewrite len_nil; unfold ws_max_fs; lia).
           cbn [length]. unfold len in Hbl. lia.
      * (* part of the payload came with the header: continue with the data stage *)
        set (s' := mkWs (w_up s) (w_flags s) (w_http s) h true mask size body (w_closed s)) in *.
        pose proof (ws_data_stage_spec c s' (wsc_rxbuf c) a1 s1 r a2 e1 Hfix Hc Hup eq_refl
                      ltac:(cbn [w_dsize s']; lia) ltac:(cbn [w_dsize w_data s']; lia) H)
          as (He1 & Hc1 & Hup1 & Hla & Hres).
        subst e1. cbn [w_mask w_dsize w_data s'] in Hres.
        assert (Hpre : ws_run c (MBody mask size []) (body ++ a1) = ws_run c (MBody mask size body) a1).
        { rewrite ws_run_app. rewrite ws_run_body_short by (rewrite len_nil; lia). cbn [app].
          destruct (ws_run c (MBody mask size body) a1). reflexivity. }
        assert (Wa2 : wfb a2) by (eapply ws_data_stage_wfb; [exact Wa|exact H]).
        repeat split; try assumption.
        -- destruct r; [discriminate|discriminate|contradiction].
        -- destruct r as [p| |]; [| |contradiction].
           ++ destruct Hres as (Ha & Hrd & Hlt & Hs). cbn [ws_evr app].
              unfold ws_abs. rewrite Hc1, Hup1, Ha, Hrd. cbn [negb fst snd app].
              unfold ws_sim in *. rewrite Hrun', Hpre. exact Hs.
           ++ destruct Hres as (-> & Ha & Hds & Hm & Hl & Hd). cbn [ws_evr app].
              unfold ws_abs. rewrite Hc1, Hup1, Ha, Hds, Hm, Hd. cbn [negb fst snd app].
              unfold ws_sim. rewrite Hrun', Hpre. cbn [app]. rewrite ws_run_nil.
              rewrite Hd, len_app in Hl.
              rewrite ws_run_body_short by lia. reflexivity.
        -- right. split; [assumption|]. destruct r as [p| |]; [| |contradiction].
           ++ destruct Hres as (Ha & Hrd & Hlt & Hs). rewrite Hrd. repeat split; try assumption; try constructor.
              ** rewrite len_nil. unfold ws_max_fs. lia.
              ** cbn [length]. lia.
           ++ destruct Hres as (-> & Ha & Hds & Hm & Hl & Hd). rewrite Hds. repeat split; try assumption; lia.
    + (* more than the frame: hand it over, keep the rest as the next header *)
      inversion H; subst s1 r a2 e1. clear H. cbn [w_up w_closed w_allhdr w_rdh ws_evr app].
      unfold ws_abs. cbn [w_closed w_up w_allhdr w_rdh]. rewrite Hc, Hup. cbn [negb fst snd].
      assert (Hbs : body = take size body ++ drop size body) by (symmetry; apply take_drop).
      repeat split; try assumption; try discriminate; try lia.
      * unfold ws_sim. rewrite Hrun'. rewrite Hbs at 1. rewrite <- app_assoc.
        rewrite (ws_run_body_full c mask size (drop size body ++ a1) (take size body) [])
          by (rewrite ?len_nil, ?len_take; lia).
        destruct (ws_run c (MHdr []) (drop size body ++ a1)). reflexivity.
      * right. split; [reflexivity|]. repeat split.
        -- apply wfb_drop; assumption.
        -- rewrite len_drop by lia. unfold ws_max_fs in *. lia.
        -- unfold drop. rewrite skipn_length. unfold len in *. lia.
  - (* no payload byte yet *)
    assert (Hbn : body = []) by (apply ws_len_zero_nil; lia).
    set (s' := mkWs (w_up s) (w_flags s) (w_http s) h true mask size [] (w_closed s)) in *.
    destruct (ws_data_stage c s' (wsc_rxbuf c) a1) as [[[s2 r2] a2'] e2] eqn:Hds.
    pose proof (ws_data_stage_spec c s' (wsc_rxbuf c) a1 s2 r2 a2' e2 Hfix Hc Hup eq_refl
                  ltac:(cbn [w_dsize s']; lia) ltac:(cbn [w_dsize w_data s']; rewrite len_nil; lia) Hds)
      as (He1 & Hc1 & Hup1 & Hla & Hres).
    inversion H; subst s1 r a2 e1. clear H. subst e2. cbn [app].
    cbn [w_mask w_dsize w_data s'] in Hres. rewrite Hbn in Hrun'. cbn [app] in Hrun'.
    assert (Wa2 : wfb a2') by (eapply ws_data_stage_wfb; [exact Wa|exact Hds]).
    repeat split; try assumption.
    + destruct r2; [discriminate|discriminate|contradiction].
    + destruct r2 as [p| |]; [| |contradiction].
      * destruct Hres as (Ha & Hrd & Hlt & Hs). cbn [ws_evr app].
        unfold ws_abs. rewrite Hc1, Hup1, Ha, Hrd. cbn [negb fst snd app].
        unfold ws_sim in *. rewrite Hrun'. exact Hs.
      * destruct Hres as (-> & Ha & Hds' & Hm & Hl & Hd). cbn [ws_evr app].
        unfold ws_abs. rewrite Hc1, Hup1, Ha, Hds', Hm, Hd. cbn [negb fst snd app].
        unfold ws_sim. rewrite Hrun'. cbn [app]. rewrite ws_run_nil.
        rewrite Hd in Hl. cbn [app] in Hl.
        rewrite ws_run_body_short by (rewrite len_nil; lia).
        reflexivity.
    + right. split; [assumption|]. destruct r2 as [p| |]; [| |contradiction].
      * destruct Hres as (Ha & Hrd & Hlt & Hs). rewrite Hrd. repeat split; try assumption; try constructor.
        -- rewrite len_nil. unfold ws_max_fs. lia.
        -- cbn [length]. lia.
      * destruct Hres as (-> & Ha & Hds' & Hm & Hl & Hd). rewrite Hds'. repeat split; try assumption; lia.
Qed.

Lemma ws_len_ge2 (l : bytes) : (len l <? 2) = false -> exists x0 x1 l', l = x0 :: x1 :: l'.
Proof.
  destruct l as [|x0 [|x1 l']]; intros H.
  - rewrite len_nil in H. lia.
  - rewrite len_cons, len_nil in H. lia.
  - eexists; eexists; eexists; reflexivity.
Qed.

(* what one call of coap_ws_read leaves behind; mu0 bounds what is still to be processed *)
Definition ws_post (c : ws_cfg) (s1 : ws_rstate) (r : ws_ret) (a1 : bytes) (la0 mu0 : nat) : Prop :=
  w_closed s1 = true \/
  (w_closed s1 = false /\
   match r with
   | RErr => False
   | RNone => ws_qinv c s1 /\ (a1 = [] \/ (length a1 < la0)%nat)
   | RFrame p => ws_winv c s1 /\ w_up s1 = true /\ w_allhdr s1 = false /\
                 (length (w_rdh s1) + length a1 < mu0)%nat
   end).

Lemma ws_frame_part_spec c s avail s1 r a1 e1 :
  wsc_fix c = ws_fixed -> ws_drain_buf <= wsc_rxbuf c ->
  ws_winv c s -> w_closed s = false -> w_up s = true -> wfb avail ->
  ~ In WZero (snd (ws_run c (fst (ws_abs s)) (snd (ws_abs s) ++ avail))) ->
  ws_frame_part c s (wsc_rxbuf c) avail = (s1, r, a1, e1) ->
  (length a1 <= length avail)%nat /\ wfb a1 /\
  ws_sim c (fst (ws_abs s)) (snd (ws_abs s) ++ avail) (e1 ++ ws_evr r)
           (fst (ws_abs s1)) (snd (ws_abs s1) ++ a1) /\
  ws_post c s1 r a1 (length avail) (length (snd (ws_abs s)) + length avail).
Proof.
  intros Hfix Hdb W Hc Hup Wa Hz H.
  destruct W as [W|[(W0 & W1 & _)|[(W0 & W1 & W2 & W3 & W4)|(W0 & W1 & W2 & W3 & W4)]]];
    try congruence.
  - (* a frame is in progress *)
    unfold ws_frame_part in H. rewrite W2 in H.
    unfold ws_abs in Hz |- *. rewrite Hc, Hup, W2 in Hz |- *. cbn [negb fst snd app] in Hz |- *.
    pose proof (ws_data_stage_spec c s (wsc_rxbuf c) avail s1 r a1 e1 Hfix Hc Hup W2 W3 W4 H)
      as (He1 & Hc1 & Hup1 & Hla & Hres).
    subst e1. cbn [app]. split; [assumption|].
    assert (Wa1 : wfb a1) by (eapply ws_data_stage_wfb; [exact Wa|exact H]).
    split; [assumption|].
    destruct r as [p| |]; [| |contradiction].
    + destruct Hres as (Ha & Hrd & Hlt & Hs). split.
      * cbn [ws_evr]. rewrite Hc1, Hup1, Ha, Hrd. cbn [negb fst snd app]. exact Hs.
      * right. split; [assumption|]. split; [|split; [assumption|split; [assumption|]]].
        -- right; right; right. rewrite Hrd. repeat split; try assumption; try constructor.
           rewrite len_nil. unfold ws_max_fs. lia.
        -- rewrite Hrd. cbn [length]. lia.
    + destruct Hres as (-> & Ha & Hds & Hm & Hl & Hd). split.
      * cbn [ws_evr]. rewrite Hc1, Hup1, Ha, Hds, Hm, Hd. cbn [negb fst snd app].
        unfold ws_sim. rewrite ws_run_nil. rewrite Hd, len_app in Hl.
        rewrite ws_run_body_short by lia. reflexivity.
      * right. split; [assumption|]. split; [|left; reflexivity].
        right; right; left. rewrite Hds. repeat split; try assumption; lia.
  - (* header stage *)
    unfold ws_frame_part in H. rewrite W2 in H.
    unfold ws_abs in Hz |- *. rewrite Hc, Hup, W2 in Hz |- *. cbn [negb fst snd] in Hz |- *.
    destruct (ws_rd (ws_max_fs - len (w_rdh s)) avail) as [chunk a'] eqn:Erd.
    destruct (ws_rd_spec _ _ _ _ Erd) as (Hav & Hlc). specialize (Hlc ltac:(lia)).
    pose proof (len_nonneg (w_rdh s)) as Hr0. pose proof (len_nonneg chunk) as Hc0.
    set (h := w_rdh s ++ chunk) in *.
    assert (Hin : w_rdh s ++ avail = h ++ a') by (subst h; rewrite Hav, app_assoc; reflexivity).
    assert (Hlh : len h = len (w_rdh s) + len chunk) by (subst h; apply len_app).
    assert (Hlh14 : len h <= ws_max_fs) by lia.
    assert (Wh : wfb h).
    { subst h. apply wfb_app. split; [assumption|]. unfold ws_rd in Erd. inversion Erd. apply wfb_take. assumption. }
    assert (Wa' : wfb a') by (unfold ws_rd in Erd; inversion Erd; apply wfb_drop; assumption).
    assert (Hla' : (length a' <= length avail)%nat) by (rewrite Hav, app_length; lia).
    assert (Hshort : len h < ws_max_fs -> a' = []).
    { intros Hs. apply (ws_rd_short _ _ _ _ Erd); lia. }
    assert (Hmu : (length h + length a' = length (w_rdh s) + length avail)%nat).
    { subst h. rewrite Hav, !app_length. lia. }
    rewrite Hin in Hz |- *.
    pose proof (ws_fh_hl_range (nth 1 h 0)) as (Hr & _ & _).
    destruct (len h <? 2) eqn:E2.
    { inversion H; subst s1 r a1 e1. clear H. rewrite (Hshort ltac:(unfold ws_max_fs; lia)) in *.
      cbn [w_closed w_up w_allhdr w_rdh ws_evr app]. rewrite Hc, Hup. cbn [negb fst snd].
      split; [cbn [length]; lia|]. split; [constructor|]. split; [apply ws_sim_refl|].
      right. split; [reflexivity|]. split; [|left; reflexivity].
      right; right; right. cbn [w_closed w_up w_allhdr w_rdh]. repeat split; try assumption. left. lia. }
    destruct (wsc_server c && negb (fh_masked (ws_fh (nth 1 h 0)))) eqn:Esrv.
    { inversion H; subst s1 r a1 e1. clear H. cbn [ws_set_closed w_closed]. cbn [fst snd ws_evr].
      apply andb_prop in Esrv. destruct Esrv as (Es & Em). apply negb_true_iff in Em.
      destruct (ws_len_ge2 h E2) as (x0 & x1 & h' & Hh). rewrite Hh in Em |- *.
      cbn [nth] in Em.
      split; [assumption|]. split; [assumption|]. split.
      - apply ws_sim_closed. cbn [app]. apply ws_run_hdr_unmasked; assumption.
      - left. reflexivity. }
    destruct (len h <? fh_hl (ws_fh (nth 1 h 0))) eqn:Ehl.
    { inversion H; subst s1 r a1 e1. clear H. rewrite (Hshort ltac:(unfold ws_max_fs in *; lia)) in *.
      cbn [w_closed w_up w_allhdr w_rdh ws_evr app]. rewrite Hc, Hup. cbn [negb fst snd].
      split; [cbn [length]; lia|]. split; [constructor|]. split; [apply ws_sim_refl|].
      right. split; [reflexivity|]. split; [|left; reflexivity].
      right; right; right. cbn [w_closed w_up w_allhdr w_rdh]. repeat split; try assumption.
      right. unfold ws_hdr_ok. rewrite Esrv. split; [reflexivity|lia]. }
    assert (Hok : ws_hdr_ok c h = true) by (unfold ws_hdr_ok; rewrite Esrv; reflexivity).
    pose proof (ws_after_hdr_spec c s h a' s1 r a1 e1 Hfix Hdb Hc Hup Wh Wa' Hlh14 ltac:(lia) Hok Hz H)
      as (Hup1 & Hr1 & Hla & Wa1 & Hsim & Hpost).
    split; [lia|]. split; [assumption|]. split; [exact Hsim|].
    destruct Hpost as [Hcl|(Hc1 & Hm)]; [left; assumption|].
    right. split; [assumption|].
    destruct r as [p| |]; [| |contradiction].
    + destruct Hm as (Ha & Wr & Hl & Hlt). split; [|split; [assumption|split; [assumption|lia]]].
      right; right; right. repeat split; assumption.
    + destruct Hm as (-> & Ha & Hds & Hl). split; [|left; reflexivity].
      right; right; left. repeat split; try assumption; lia.
Qed.

(* ---- the handshake part of coap_ws_read ---- *)

Lemma ws_lines_wfb c : forall fuel f buf,
  wfb buf ->
  match ws_lines fuel c f buf with
  | LUp lft _ => wfb lft
  | LMore buf' _ => wfb buf'
  | LFail => True
  end.
Proof.
  induction fuel as [|fu IH]; intros f buf W; cbn [ws_lines];
    destruct (ws_find_nl buf) as [i|]; try assumption; try exact I.
  destruct (ws_process_line c f (ws_strip_cr (take i buf))) as [|f'|f']; [exact I| |].
  - apply wfb_drop. assumption.
  - apply IH. apply wfb_drop. assumption.
Qed.

Lemma ws_hs_aux c : forall fuel f http avail oob,
  wfb http -> wfb avail ->
  match ws_hs fuel c f http avail oob with
  | (HUp lft _ a', _) =>
      wfb lft /\ wfb a' /\ (length a' < length avail)%nat /\
      (length lft + length a' < length http + length avail)%nat
  | (HMore http' _ a', _) => wfb http' /\ wfb a'
  | (HFail a', _) => wfb a' /\ (length a' <= length avail)%nat
  | (HFuel, _) => True
  end.
Proof.
  induction fuel as [|fu IH]; intros f http avail oob Wh Wa; cbn [ws_hs]; [exact I|]. cbv zeta.
  destruct (wsf_line (wsc_fix c) &&
            ((if ws_http_buf - 1 - ws_max_fs <? len http
              then (if wsf_line (wsc_fix c) then ws_http_buf - 1 else ws_http_buf) - len http
              else ws_max_fs) <=? 0)); [split; [assumption|lia]|].
  unfold ws_rd.
  set (rem := if ws_http_buf - 1 - ws_max_fs <? len http
              then (if wsf_line (wsc_fix c) then ws_http_buf - 1 else ws_http_buf) - len http
              else ws_max_fs).
  destruct (take rem avail) as [|c0 ch] eqn:Et.
  - split; [assumption|apply wfb_drop; assumption].
  - assert (Wc : wfb (c0 :: ch)) by (rewrite <- Et; apply wfb_take; assumption).
    assert (Wd : wfb (drop rem avail)) by (apply wfb_drop; assumption).
    assert (Hav : avail = (c0 :: ch) ++ drop rem avail) by (rewrite <- Et; symmetry; apply take_drop).
    assert (Wb : wfb (http ++ c0 :: ch)) by (apply wfb_app; split; assumption).
    pose proof (f_equal (@length Z) Hav) as Hlav. rewrite app_length in Hlav. cbn [length] in Hlav.
    pose proof (ws_lines_wfb c (S (length (http ++ c0 :: ch))) f (http ++ c0 :: ch) Wb) as Hw.
    pose proof (ws_lines_spec c [] (S (length (http ++ c0 :: ch))) f (http ++ c0 :: ch)) as Hs.
    destruct (ws_lines (S (length (http ++ c0 :: ch))) c f (http ++ c0 :: ch)) as [lft f'|buf' f'|] eqn:El.
    + repeat split; try assumption.
      * lia.
      * (* lft is a proper suffix of the buffer *)
        assert (Hlt : (length lft < length (http ++ c0 :: ch))%nat).
        { clear -El. revert El. generalize (S (length (http ++ c0 :: ch))) as fuel.
          generalize (http ++ c0 :: ch) as buf. clear. intros buf fuel. revert f buf.
          induction fuel as [|fu IH]; intros f buf; cbn [ws_lines];
            destruct (ws_find_nl buf) as [i|] eqn:Ei; try discriminate.
          pose proof (ws_find_nl_range buf i Ei) as Hr.
          assert (Hd : (length (drop (i + 1) buf) < length buf)%nat).
          { unfold drop. rewrite skipn_length. unfold len in Hr. lia. }
          destruct (ws_process_line c f (ws_strip_cr (take i buf))) as [|f2|f2]; try discriminate.
          - intros [= <- _]. assumption.
          - intros H. specialize (IH _ _ H). lia. }
        rewrite app_length in Hlt. cbn [length] in Hlt. lia.
    + assert (Hle : (length buf' <= length (http ++ c0 :: ch))%nat).
      { clear -El. revert El. generalize (S (length (http ++ c0 :: ch))) as fuel.
        generalize (http ++ c0 :: ch) as buf. clear. intros buf fuel. revert f buf.
        induction fuel as [|fu IH]; intros f buf; cbn [ws_lines];
          destruct (ws_find_nl buf) as [i|] eqn:Ei; try discriminate;
          try (intros [= <- _]; lia).
        pose proof (ws_find_nl_range buf i Ei) as Hr.
        assert (Hd : (length (drop (i + 1) buf) < length buf)%nat).
        { unfold drop. rewrite skipn_length. unfold len in Hr. lia. }
        destruct (ws_process_line c f (ws_strip_cr (take i buf))) as [|f2|f2]; try discriminate.
        intros H. specialize (IH _ _ H). lia. }
      specialize (IH f' buf' (drop rem avail) (oob || (ws_http_buf <=? len (http ++ c0 :: ch))) Hw Wd).
      destruct (ws_hs fu c f' buf' (drop rem avail) (oob || (ws_http_buf <=? len (http ++ c0 :: ch))))
        as [[l2 f2 a2|h2 f2 a2|a2|] o2]; try assumption.
      * destruct IH as (I1 & I2 & I3 & I4). repeat split; try assumption.
        -- lia.
        -- rewrite app_length in Hle. cbn [length] in Hle. lia.
      * destruct IH as (I1 & I2). split; [assumption|lia].
    + split; [assumption|lia].
Qed.

Lemma ws_sim_nozero c m i e m' i' :
  ws_sim c m i e m' i' -> ~ In WZero (snd (ws_run c m i)) -> ~ In WZero (snd (ws_run c m' i')).
Proof.
  unfold ws_sim. intros H Hz Hin. apply Hz. rewrite H. destruct (ws_run c m' i'). cbn [snd] in *.
  apply in_or_app. right. assumption.
Qed.

(* one call of coap_ws_read *)
Lemma ws_read_spec c s avail s1 r a1 e1 :
  wsc_fix c = ws_fixed -> ws_drain_buf <= wsc_rxbuf c ->
  ws_winv c s -> w_closed s = false -> wfb avail ->
  ~ In WZero (snd (ws_run c (fst (ws_abs s)) (snd (ws_abs s) ++ avail))) ->
  ws_read c s (wsc_rxbuf c) avail = (s1, r, a1, e1) ->
  (length a1 <= length avail)%nat /\ wfb a1 /\
  ws_sim c (fst (ws_abs s)) (snd (ws_abs s) ++ avail) (e1 ++ ws_evr r)
           (fst (ws_abs s1)) (snd (ws_abs s1) ++ a1) /\
  ws_post c s1 r a1 (length avail) (length (snd (ws_abs s)) + length avail).
Proof.
  intros Hfix Hdb W Hc Wa Hz H. unfold ws_read in H.
  destruct (w_up s) eqn:Hup.
  { eapply ws_frame_part_spec; eassumption. }
  destruct W as [W|[(W0 & W1 & W2 & W3 & W4)|[(W0 & W1 & _)|(W0 & W1 & _)]]]; try congruence.
  pose proof (ws_hs_spec c Hfix (S (length avail)) (w_flags s) (w_http s) avail W3
                ltac:(unfold ws_http_buf in *; lia) ltac:(lia)) as Hs.
  pose proof (ws_hs_aux c (S (length avail)) (w_flags s) (w_http s) avail false W2 Wa) as Hx.
  unfold ws_abs in Hz |- *. rewrite Hc, Hup in Hz |- *. cbn [negb fst snd] in Hz |- *.
  destruct (ws_hs (S (length avail)) c (w_flags s) (w_http s) avail false) as [res oob].
  destruct res as [lft f' a'|http' f' a'|a'|]; [| | |contradiction].
  - (* handshake complete *)
    destruct Hs as (-> & Hl13 & Hrun). destruct Hx as (Wl & Wa' & Hlt & Hmu). cbn [app] in H.
    set (s' := mkWs true f' [] lft false (w_mask s) (w_dsize s) (w_data s) (w_closed s)) in *.
    assert (Hsim1 : ws_sim c (MHs (w_flags s) []) (w_http s ++ avail) [WConnected] (MHdr []) (lft ++ a')).
    { unfold ws_sim. rewrite Hrun. destruct (ws_run c (MHdr []) (lft ++ a')). reflexivity. }
    destruct lft as [|l0 lf].
    + inversion H; subst s1 r a1 e1. clear H. cbn [ws_evr app].
      split; [lia|]. split; [assumption|]. split.
      * unfold ws_abs. cbn [w_closed w_up w_allhdr w_rdh s']. rewrite Hc. cbn [negb fst snd]. exact Hsim1.
      * right. split; [exact Hc|]. split; [|right; assumption].
        right; right; right. cbn [w_closed w_up w_allhdr w_rdh s']. repeat split; try assumption.
        left. rewrite len_nil. lia.
    + set (lft := l0 :: lf) in *.
      destruct (ws_frame_part c s' (wsc_rxbuf c) a') as [[[s2 r2] a2] e2] eqn:Hfp.
      inversion H; subst s1 r a1 e1. clear H.
      assert (Ws' : ws_winv c s').
      { right; right; right. cbn [w_closed w_up w_allhdr w_rdh s']. repeat split; try assumption.
        unfold ws_max_fs. lia. }
      assert (Habs' : ws_abs s' = (MHdr [], lft)).
      { unfold ws_abs. cbn [w_closed w_up w_allhdr w_rdh s']. rewrite Hc. reflexivity. }
      assert (Hz' : ~ In WZero (snd (ws_run c (fst (ws_abs s')) (snd (ws_abs s') ++ a')))).
      { rewrite Habs'. cbn [fst snd]. eapply ws_sim_nozero; eassumption. }
      pose proof (ws_frame_part_spec c s' a' s2 r2 a2 e2 Hfix Hdb Ws' Hc eq_refl Wa' Hz' Hfp)
        as (Hla & Wa2 & Hsim2 & Hpost).
      rewrite Habs' in Hsim2, Hpost. cbn [fst snd] in Hsim2, Hpost.
      split; [lia|]. split; [assumption|]. split.
      * cbn [app]. change (WConnected :: e2 ++ ws_evr r2) with ([WConnected] ++ (e2 ++ ws_evr r2)).
        eapply ws_sim_trans; eassumption.
      * destruct Hpost as [Hcl|(Hc2 & Hm)]; [left; assumption|]. right. split; [assumption|].
        destruct r2 as [p| |]; [| |contradiction].
        -- destruct Hm as (Hw & Hu & Ha & Hlt2). repeat split; try assumption. lia.
        -- destruct Hm as (Hq & Hp). split; [assumption|]. destruct Hp as [->|Hp]; [left; reflexivity|right; lia].
  - (* more of the handshake needed *)
    destruct Hs as (-> & -> & Hn & Hl & Hrun). destruct Hx as (Wh' & _).
    inversion H; subst s1 r a1 e1. clear H. cbn [ws_evr app].
    split; [cbn [length]; lia|]. split; [constructor|]. split.
    + unfold ws_abs. cbn [w_closed w_up w_http]. rewrite Hc. cbn [negb fst snd]. rewrite app_nil_r.
      unfold ws_sim. rewrite Hrun. rewrite <- (app_nil_l http') at 2.
      rewrite ws_run_hs_wait by (cbn [app]; assumption). reflexivity.
    + right. split; [exact Hc|]. split; [|left; reflexivity].
      right; left. cbn [w_closed w_up w_http]. repeat split; assumption.
  - (* handshake failed *)
    destruct Hs as (-> & Hrun).
    inversion H; subst s1 r a1 e1. clear H. cbn [ws_evr app ws_set_closed w_closed].
    destruct Hx as (Wa' & Hla).
    split; [assumption|]. split; [assumption|]. split.
    + cbn [fst snd app]. unfold ws_sim. rewrite Hrun, ws_run_closed. reflexivity.
    + left. reflexivity.
Qed.

(* ---- coap_read_session: keep reading while frames are returned ---- *)

Lemma ws_step_closed_inv c m b : ws_step c m b = (MClosed, []) -> m = MClosed.
Proof.
  destruct m as [f line|h|mask size acc|]; cbn [ws_step]; try reflexivity.
  - destruct ((b =? 10) && negb (ws_has_nul line)).
    + destruct (ws_process_line c f (ws_strip_cr line)); discriminate.
    + destruct (ws_http_buf - 1 <=? len (line ++ [b])); discriminate.
  - destruct (len (h ++ [b]) <? 2); [discriminate|].
    destruct (wsc_server c && negb (fh_masked (ws_fh (nth 1 (h ++ [b]) 0)))); [discriminate|].
    destruct (len (h ++ [b]) <? fh_hl (ws_fh (nth 1 (h ++ [b]) 0))); [discriminate|].
    unfold ws_hdr_done. repeat case_if; discriminate.
  - destruct (len (acc ++ [b]) =? size); discriminate.
Qed.

Lemma ws_run_closed_inv c : forall x m, ws_run c m x = (MClosed, []) -> m = MClosed.
Proof.
  induction x as [|b x IH]; intros m H; cbn [ws_run] in H; [inversion H; reflexivity|].
  destruct (ws_step c m b) as [m1 e1] eqn:Es. destruct (ws_run c m1 x) as [m2 e2] eqn:Er.
  inversion H; subst m2. apply app_eq_nil in H2. destruct H2 as (-> & ->).
  specialize (IH m1 Er). subst m1. eapply ws_step_closed_inv. eassumption.
Qed.

Lemma ws_abs_len s : (length (snd (ws_abs s)) <= length (w_http s) + length (w_rdh s))%nat.
Proof.
  unfold ws_abs. destruct (w_closed s); cbn [snd length]; [lia|].
  destruct (w_up s); cbn [negb snd]; [|lia]. destruct (w_allhdr s); cbn [snd length]; lia.
Qed.

Lemma ws_session_loop_spec c :
  wsc_fix c = ws_fixed -> ws_drain_buf <= wsc_rxbuf c ->
  forall fuel s avail s' a' evs,
  ws_winv c s -> w_closed s = false -> wfb avail ->
  (length (snd (ws_abs s)) + length avail < fuel)%nat ->
  ~ In WZero (snd (ws_run c (fst (ws_abs s)) (snd (ws_abs s) ++ avail))) ->
  ws_session_loop fuel c s avail = (s', a', evs) ->
  ws_sim c (fst (ws_abs s)) (snd (ws_abs s) ++ avail) evs (fst (ws_abs s')) (snd (ws_abs s') ++ a') /\
  ws_qinv c s' /\ wfb a' /\ (length a' <= length avail)%nat /\
  (w_closed s' = false -> a' = [] \/ (length a' < length avail)%nat).
Proof.
  intros Hfix Hdb. induction fuel as [|fu IH]; intros s avail s' a' evs W Hc Wa Hfu Hz H; [lia|].
  cbn [ws_session_loop] in H.
  destruct (ws_read c s (wsc_rxbuf c) avail) as [[[s1 r] a1] e1] eqn:Hrd.
  pose proof (ws_read_spec c s avail s1 r a1 e1 Hfix Hdb W Hc Wa Hz Hrd) as (Hla & Wa1 & Hsim & Hpost).
  destruct r as [p| |].
  - (* a frame *)
    rewrite Hfix in H. cbn [wsf_strand ws_fixed andb] in H. cbn [ws_evr] in Hsim.
    destruct (w_closed s1) eqn:Hc1; cbn [negb] in H.
    + inversion H; subst s' a' evs. clear H.
      repeat split; try assumption. { left. assumption. } intros; congruence.
    + destruct Hpost as [Hcl|(_ & Hw & Hu & Ha & Hmu)]; [congruence|].
      destruct (ws_session_loop fu c s1 a1) as [[s2 a2] e2] eqn:Hl.
      inversion H; subst s' a' evs. clear H.
      assert (Habs1 : ws_abs s1 = (MHdr [], w_rdh s1)).
      { unfold ws_abs. rewrite Hc1, Hu, Ha. reflexivity. }
      assert (Hz1 : ~ In WZero (snd (ws_run c (fst (ws_abs s1)) (snd (ws_abs s1) ++ a1))))
        by (eapply ws_sim_nozero; eassumption).
      assert (Hfu1 : (length (snd (ws_abs s1)) + length a1 < fu)%nat) by (rewrite Habs1; cbn [snd]; lia).
      destruct (IH s1 a1 s2 a2 e2 Hw Hc1 Wa1 Hfu1 Hz1 Hl) as (Hsim2 & Hq & Wa2 & Hla2 & Hp2).
      repeat split; try assumption; try lia.
      * replace (e1 ++ WMsg p :: e2) with ((e1 ++ [WMsg p]) ++ e2) by (rewrite <- app_assoc; reflexivity).
        eapply ws_sim_trans; eassumption.
      * intros Hc2. destruct (Hp2 Hc2) as [->|Hlt]; [left; reflexivity|right; lia].
  - (* nothing to hand over *)
    inversion H; subst s' a' evs. clear H. cbn [ws_evr] in Hsim. rewrite app_nil_r in Hsim.
    destruct Hpost as [Hcl|(Hc1 & Hq & Hp)].
    + repeat split; try assumption. { left. assumption. } intros; congruence.
    + repeat split; try assumption. intros _. exact Hp.
  - (* error: the session is disconnected *)
    destruct Hpost as [Hcl|(_ & Hf)]; [|contradiction].
    rewrite Hcl in H. inversion H; subst s' a' evs. clear H. cbn [ws_evr] in Hsim.
    rewrite !app_nil_r in *. rewrite (ws_abs_closed s1) in Hsim by assumption.
    rewrite (ws_abs_closed (ws_set_closed s1)) by reflexivity.
    repeat split; try assumption. { left. reflexivity. } cbn [ws_set_closed w_closed]. intros; congruence.
Qed.

(* ---- the event loop between two arrivals ---- *)

Lemma ws_qinv_run_app c s avail :
  ws_qinv c s ->
  ws_run c (fst (ws_abs s)) (snd (ws_abs s) ++ avail) = ws_run c (ws_mode_of s) avail.
Proof.
  intros Hq. rewrite ws_run_app, (ws_qinv_run c s Hq). cbn [app].
  destruct (ws_run c (ws_mode_of s) avail). reflexivity.
Qed.

Lemma ws_mode_of_closed s : ws_mode_of s = MClosed -> w_closed s = true.
Proof.
  unfold ws_mode_of. destruct (w_closed s); [reflexivity|]. destruct (w_up s); cbn [negb]; [|discriminate].
  destruct (w_allhdr s); discriminate.
Qed.

Theorem ws_pump_spec c :
  wsc_fix c = ws_fixed -> ws_drain_buf <= wsc_rxbuf c ->
  forall fuel s avail s' evs,
  ws_qinv c s -> wfb avail -> (length avail < fuel)%nat ->
  ~ In WZero (snd (ws_run c (ws_mode_of s) avail)) ->
  ws_pump fuel c s avail = (s', evs) ->
  ws_run c (ws_mode_of s) avail = (ws_mode_of s', evs) /\ ws_qinv c s'.
Proof.
  intros Hfix Hdb. induction fuel as [|fu IH]; intros s avail s' evs Hq Wa Hfu Hz H; [lia|].
  destruct avail as [|b0 av].
  { cbn [ws_pump] in H. inversion H; subst. split; [reflexivity|assumption]. }
  set (avail := b0 :: av) in *.
  cbn [ws_pump] in H. fold avail in H.
  destruct (w_closed s) eqn:Hc.
  { inversion H; subst. unfold ws_mode_of at 1. rewrite Hc. rewrite ws_run_closed.
    unfold ws_mode_of. rewrite Hc. split; [reflexivity|assumption]. }
  unfold ws_session_read in H. rewrite Hfix in H. cbn [wsf_buf ws_fixed] in H.
  destruct (ws_session_loop (S (S (length (w_http s) + length (w_rdh s) + length avail))) c s avail)
    as [[s1 a1] e1] eqn:Hl.
  rewrite <- (ws_qinv_run_app c s avail Hq) in Hz |- *.
  pose proof (ws_abs_len s) as Habl.
  assert (Hfu0 : (length (snd (ws_abs s)) + length avail <
                  S (S (length (w_http s) + length (w_rdh s) + length avail)))%nat) by lia.
  destruct (ws_session_loop_spec c Hfix Hdb _ s avail s1 a1 e1 (ws_qinv_winv c s Hq) Hc Wa Hfu0 Hz Hl)
    as (Hsim & Hq1 & Wa1 & Hla & Hp).
  assert (Hz1 : ~ In WZero (snd (ws_run c (ws_mode_of s1) a1))).
  { rewrite <- (ws_qinv_run_app c s1 a1 Hq1). eapply ws_sim_nozero; eassumption. }
  unfold ws_sim in Hsim. rewrite (ws_qinv_run_app c s1 a1 Hq1) in Hsim.
  assert (Hstuck : e1 = [] -> len a1 = len avail -> False).
  { intros -> Hlen. destruct (w_closed s1) eqn:Hc1.
    - (* closing emits an event *)
      unfold ws_mode_of at 1 in Hsim. rewrite Hc1 in Hsim. rewrite ws_run_closed in Hsim. cbn [app] in Hsim.
      rewrite (ws_qinv_run_app c s avail Hq) in Hsim. apply ws_run_closed_inv in Hsim.
      apply ws_mode_of_closed in Hsim. congruence.
    - destruct (Hp eq_refl) as [->|Hlt]; unfold len in Hlen; subst avail; cbn [length] in *; lia. }
  assert (Hrec : forall s2 e2, ws_pump fu c s1 a1 = (s2, e2) ->
                 ws_run c (fst (ws_abs s)) (snd (ws_abs s) ++ avail) = (ws_mode_of s2, e1 ++ e2) /\ ws_qinv c s2).
  { intros s2 e2 Hp2.
    destruct (w_closed s1) eqn:Hc1.
    - (* closed: the rest is ignored *)
      assert (Hp2' : (s2, e2) = (s1, [])).
      { destruct fu; destruct a1 as [|x a1']; cbn [ws_pump] in Hp2; rewrite ?Hc1 in Hp2; congruence. }
      inversion Hp2'; subst s2 e2.
      rewrite Hsim. unfold ws_mode_of at 1. rewrite Hc1, ws_run_closed.
      unfold ws_mode_of. rewrite Hc1. split; [reflexivity|assumption].
    - assert (Hfu1 : (length a1 < fu)%nat).
      { destruct (Hp eq_refl) as [->|Hlt]; subst avail; cbn [length] in *; lia. }
      destruct (IH s1 a1 s2 e2 Hq1 Wa1 Hfu1 Hz1 Hp2) as (Hr2 & Hq2).
      rewrite Hsim, Hr2. split; [reflexivity|assumption]. }
  destruct e1 as [|ev e1'].
  - destruct (len a1 =? len avail) eqn:El.
    + exfalso. apply Hstuck; [reflexivity|lia].
    + destruct (Hrec s' evs H) as (Hr & Hq'). cbn [app] in Hr. split; assumption.
  - destruct (ws_pump fu c s1 a1) as [s2 e2] eqn:Hp2. inversion H; subst s' evs.
    destruct (Hrec s2 e2 eq_refl) as (Hr & Hq'). split; assumption.
Qed.

(* ---- arrivals ---- *)

Lemma ws_nozero_prefix c m a b :
  ~ In WZero (snd (ws_run c m (a ++ b))) ->
  ~ In WZero (snd (ws_run c m a)) /\ ~ In WZero (snd (ws_run c (fst (ws_run c m a)) b)).
Proof.
  rewrite ws_run_app. destruct (ws_run c m a) as [m1 e1]. cbn [fst snd].
  destruct (ws_run c m1 b) as [m2 e2]. cbn [fst snd]. intros H. split; intros Hin; apply H; apply in_or_app; [left|right]; assumption.
Qed.

(* C05_ws_arrivals: what the repaired reader delivers is what the automaton delivers for the
   concatenation of the arrivals *)
Theorem ws_arrivals_spec c :
  wsc_fix c = ws_fixed -> ws_drain_buf <= wsc_rxbuf c ->
  forall arr s s' evs,
  ws_qinv c s -> Forall wfb arr ->
  ~ In WZero (snd (ws_run c (ws_mode_of s) (concat arr))) ->
  ws_arrivals c s arr = (s', evs) ->
  ws_run c (ws_mode_of s) (concat arr) = (ws_mode_of s', evs) /\ ws_qinv c s'.
Proof.
  intros Hfix Hdb. induction arr as [|a tl IH]; intros s s' evs Hq Wf Hz H.
  - cbn [ws_arrivals concat] in *. inversion H; subst. split; [reflexivity|assumption].
  - inversion Wf as [|? ? Wa Wtl]; subst. cbn [ws_arrivals concat] in *.
    destruct (ws_pump (16 + 2 * length a) c s a) as [s1 e1] eqn:Hp.
    destruct (ws_arrivals c s1 tl) as [s2 e2] eqn:Ha. inversion H; subst s' evs. clear H.
    destruct (ws_nozero_prefix c _ _ _ Hz) as (Hz1 & Hz2).
    assert (Hfu : (length a < 16 + 2 * length a)%nat) by lia.
    destruct (ws_pump_spec c Hfix Hdb _ s a s1 e1 Hq Wa Hfu Hz1 Hp) as (Hr1 & Hq1).
    rewrite Hr1 in Hz2. cbn [fst] in Hz2.
    destruct (IH s1 s2 e2 Hq1 Wtl Hz2 Ha) as (Hr2 & Hq2).
    rewrite ws_run_app, Hr1, Hr2. split; [reflexivity|assumption].
Qed.

(* C05_ws_chunking *)
Corollary ws_arrivals_independent c s arr1 arr2 :
  wsc_fix c = ws_fixed -> ws_drain_buf <= wsc_rxbuf c ->
  ws_qinv c s -> Forall wfb arr1 -> Forall wfb arr2 -> concat arr1 = concat arr2 ->
  ~ In WZero (snd (ws_run c (ws_mode_of s) (concat arr1))) ->
  snd (ws_arrivals c s arr1) = snd (ws_arrivals c s arr2) /\
  ws_mode_of (fst (ws_arrivals c s arr1)) = ws_mode_of (fst (ws_arrivals c s arr2)).
Proof.
  intros Hfix Hdb Hq W1 W2 Hc Hz.
  destruct (ws_arrivals c s arr1) as [s1 e1] eqn:H1. destruct (ws_arrivals c s arr2) as [s2 e2] eqn:H2.
  destruct (ws_arrivals_spec c Hfix Hdb arr1 s s1 e1 Hq W1 Hz H1) as (R1 & _).
  rewrite Hc in Hz. destruct (ws_arrivals_spec c Hfix Hdb arr2 s s2 e2 Hq W2 Hz H2) as (R2 & _).
  rewrite Hc, R2 in R1. inversion R1 as [[Hm He]]. cbn [fst snd]. split; congruence.
Qed.

(* the automaton reports neither an out-of-bounds write, nor a stuck reader, nor exhausted fuel *)
Definition ws_ev_clean (e : ws_ev) : Prop :=
  match e with WOob | WStuck | WFuel => False | _ => True end.

Lemma ws_step_clean c m b : Forall ws_ev_clean (snd (ws_step c m b)).
Proof.
  destruct m as [f line|h|mask size acc|]; cbn [ws_step].
  - destruct ((b =? 10) && negb (ws_has_nul line)).
    + destruct (ws_process_line c f (ws_strip_cr line)); repeat constructor.
    + destruct (ws_http_buf - 1 <=? len (line ++ [b])); repeat constructor.
  - destruct (len (h ++ [b]) <? 2); [constructor|].
    destruct (wsc_server c && negb (fh_masked (ws_fh (nth 1 (h ++ [b]) 0)))); [repeat constructor|].
    destruct (len (h ++ [b]) <? fh_hl (ws_fh (nth 1 (h ++ [b]) 0))); [constructor|].
    unfold ws_hdr_done. repeat case_if; repeat constructor.
  - destruct (len (acc ++ [b]) =? size); repeat constructor.
  - constructor.
Qed.

Lemma ws_run_clean c : forall x m, Forall ws_ev_clean (snd (ws_run c m x)).
Proof.
  induction x as [|b x IH]; intros m; cbn [ws_run]; [constructor|].
  pose proof (ws_step_clean c m b) as Hs. destruct (ws_step c m b) as [m1 e1]. specialize (IH m1).
  destruct (ws_run c m1 x) as [m2 e2]. cbn [snd] in *. apply Forall_app. split; assumption.
Qed.

(* C05_ws_no_oob *)
Corollary ws_arrivals_clean c s arr :
  wsc_fix c = ws_fixed -> ws_drain_buf <= wsc_rxbuf c ->
  ws_qinv c s -> Forall wfb arr ->
  ~ In WZero (snd (ws_run c (ws_mode_of s) (concat arr))) ->
  Forall ws_ev_clean (snd (ws_arrivals c s arr)).
Proof.
  intros Hfix Hdb Hq W Hz. destruct (ws_arrivals c s arr) as [s1 e1] eqn:H1.
  destruct (ws_arrivals_spec c Hfix Hdb arr s s1 e1 Hq W Hz H1) as (R1 & _).
  pose proof (ws_run_clean c (concat arr) (ws_mode_of s)) as Hc. rewrite R1 in Hc. exact Hc.
Qed.

Lemma ws_init_qinv c : ws_qinv c ws_init.
Proof.
  right; left. cbn [ws_init w_closed w_up w_http]. repeat split; try constructor.
Qed.

(* C05_ws_longline: a handshake line that fills the buffer closes the session *)
Theorem ws_longline_closes c arr x more s' evs :
  wsc_fix c = ws_fixed -> ws_drain_buf <= wsc_rxbuf c -> Forall wfb arr ->
  concat arr = x ++ more -> ws_find_nl x = None -> len x = ws_http_buf - 1 ->
  ws_arrivals c ws_init arr = (s', evs) ->
  evs = [WFail] /\ w_closed s' = true.
Proof.
  intros Hfix Hdb W Hc Hn Hl H.
  assert (Hrun : ws_run c (ws_mode_of ws_init) (concat arr) = (MClosed, [WFail])).
  { rewrite Hc. unfold ws_mode_of, ws_init. cbn [w_closed w_up w_flags w_http negb].
    apply ws_run_hs_full; assumption. }
  assert (Hz : ~ In WZero (snd (ws_run c (ws_mode_of ws_init) (concat arr)))).
  { rewrite Hrun. cbn [snd In]. intros [E|[]]. discriminate. }
  destruct (ws_arrivals_spec c Hfix Hdb arr ws_init s' evs (ws_init_qinv c) W Hz H) as (R & _).
  rewrite Hrun in R. inversion R; subst. split; [reflexivity|].
  apply ws_mode_of_closed. congruence.
Qed.

(* ------------------------------------------------------------------ frames of messages *)

Inductive ws_lform := L7 | L16 | L64.
Definition ws_lenbytes (lf : ws_lform) (n : Z) : bytes :=
  match lf with
  | L7 => [128 + n]
  | L16 => [254; n / 256; n mod 256]
  | L64 => [255; 0; 0; 0; 0; (n / 16777216) mod 256; (n / 65536) mod 256; (n / 256) mod 256; n mod 256]
  end.
Definition ws_lform_ok (lf : ws_lform) (n : Z) : Prop :=
  match lf with L7 => n <= 125 | L16 => n < 65536 | L64 => n < 4294967296 end.

(* a masked binary frame as a client sends it (FIN set, opcode 2) *)
Definition ws_mk_frame (lf : ws_lform) (mask p : bytes) : bytes :=
  130 :: ws_lenbytes lf (len p) ++ mask ++ ws_xor mask 0 p.

Lemma ws_xor_len mask : forall p i, len (ws_xor mask i p) = len p.
Proof. induction p as [|b p IH]; intros i; cbn [ws_xor]; [reflexivity|]. rewrite !len_cons, IH. reflexivity. Qed.

Lemma ws_xor_invol mask : wfb mask -> forall p i, wfb p -> ws_xor mask i (ws_xor mask i p) = p.
Proof.
  intros Wm. induction p as [|b p IH]; intros i Wp; cbn [ws_xor]; [reflexivity|].
  apply wfb_cons in Wp. destruct Wp as [Hb Wp]. unfold is_byte in Hb.
  replace (b <? 0) with false by lia.
  set (m := nth (Z.to_nat (i mod 4)) mask 0).
  assert (Hm : 0 <= m).
  { subst m. destruct (nth_in_or_default (Z.to_nat (i mod 4)) mask 0) as [Hin|Hd]; [|rewrite Hd; lia].
    unfold wfb in Wm. rewrite Forall_forall in Wm. specialize (Wm _ Hin). unfold is_byte in Wm. lia. }
  assert (Hx : 0 <= Z.lxor b m) by (apply Z.lxor_nonneg; lia).
  replace (Z.lxor b m <? 0) with false by lia.
  rewrite Z.lxor_assoc, Z.lxor_nilpotent, Z.lxor_0_r. rewrite IH by assumption. reflexivity.
Qed.

Lemma ws_frame_run c lf mask p rest :
  wsc_server c = true -> len mask = 4 -> wfb mask -> wfb p ->
  1 <= len p <= wsc_rxbuf c -> ws_lform_ok lf (len p) ->
  ws_run c (MHdr []) (ws_mk_frame lf mask p ++ rest) =
  let '(m, e) := ws_run c (MHdr []) rest in (m, WMsg p :: e).
Proof.
  intros Hsrv Hlm Wm Wp Hn Hok. set (n := len p) in *.
  set (lb := ws_lenbytes lf n).
  set (hd := 130 :: lb ++ mask).
  assert (Hframe : ws_mk_frame lf mask p ++ rest = hd ++ (ws_xor mask 0 p ++ rest)).
  { unfold ws_mk_frame, hd. fold n. fold lb. cbn [app]. rewrite <- !app_assoc. reflexivity. }
  assert (Hlb : exists b1 tl, lb = b1 :: tl /\ 128 <= b1 /\
              fh_ext (ws_fh b1) = len tl /\ fh_masked (ws_fh b1) = true /\
              ws_fsize (130 :: lb ++ mask) = n).
  { subst lb. destruct lf; cbn [ws_lenbytes ws_lform_ok] in *.
    - exists (128 + n), []. repeat split; try lia.
      + unfold ws_fh. cbn [fh_ext]. replace ((128 + n) mod 128 =? 127) with false by lia.
        replace ((128 + n) mod 128 =? 126) with false by lia. reflexivity.
      + unfold ws_fh. cbn [fh_masked]. lia.
      + unfold ws_fsize. cbn [app nth]. replace ((128 + n) mod 128 =? 127) with false by lia.
        replace ((128 + n) mod 128 =? 126) with false by lia. lia.
    - exists 254, [n / 256; n mod 256].
      split; [reflexivity|]. split; [lia|]. split; [reflexivity|]. split; [reflexivity|].
      unfold ws_fsize. cbn [app nth]. change (254 mod 128 =? 127) with false. change (254 mod 128 =? 126) with true.
      cbv iota. unfold take, drop, ws_be. cbn [Z.to_nat]. change (Pos.to_nat 2) with 2%nat.
      cbn [skipn firstn fold_left]. lia.
    - exists 255, [0; 0; 0; 0; (n / 16777216) mod 256; (n / 65536) mod 256; (n / 256) mod 256; n mod 256].
      split; [reflexivity|]. split; [lia|]. split; [reflexivity|]. split; [reflexivity|].
      unfold ws_fsize. cbn [app nth]. change (255 mod 128 =? 127) with true. cbv iota.
      unfold take, drop, ws_be. cbn [Z.to_nat]. change (Pos.to_nat 2) with 2%nat. change (Pos.to_nat 8) with 8%nat.
      cbn [skipn firstn fold_left]. lia. }
  destruct Hlb as (b1 & tl & Elb & Hb1 & Hext & Hmask & Hsize).
  pose proof (ws_fh_hl_range b1) as (_ & _ & Hhl). rewrite Hmask, Hext in Hhl.
  pose proof (len_nonneg tl) as Htl.
  assert (Hnth1 : nth 1 hd 0 = b1) by (unfold hd; rewrite Elb; reflexivity).
  assert (Hlhd : len hd = fh_hl (ws_fh b1)).
  { unfold hd. rewrite Elb. rewrite len_cons. cbn [app]. rewrite len_cons, len_app. lia. }
  rewrite Hframe. rewrite ws_run_hdr_done.
  2:{ rewrite Hlhd. lia. }
  2:{ unfold ws_hdr_ok. rewrite Hnth1, Hmask. cbn [negb]. rewrite andb_false_r. reflexivity. }
  2:{ rewrite Hnth1. exact Hlhd. }
  assert (Hdone : ws_hdr_done c hd = (MBody mask n [], [])).
  { unfold ws_hdr_done. rewrite Hnth1, Hmask. change (nth 0 hd 0) with 130.
    change (130 mod 16) with 2. cbn [Z.eqb Pos.eqb negb andb].
    change (ws_fsize hd) with (ws_fsize (130 :: lb ++ mask)). rewrite Hsize.
    replace (wsc_rxbuf c <? n) with false by lia. replace (n =? 0) with false by lia.
    assert (Hmk : take 4 (drop (2 + fh_ext (ws_fh b1)) hd) = mask).
    { replace (2 + fh_ext (ws_fh b1)) with (len (130 :: lb)) by (rewrite Elb, !len_cons; lia).
      unfold hd. change (130 :: lb ++ mask) with ((130 :: lb) ++ mask). rewrite drop_app_exact.
      apply tcp_take_all. lia. }
    rewrite Hmk. reflexivity. }
  rewrite Hdone. cbn [app].
  rewrite (ws_run_body_full c mask n rest (ws_xor mask 0 p) []).
  2:{ rewrite len_nil. lia. }
  2:{ rewrite len_nil, ws_xor_len. reflexivity. }
  cbn [app]. unfold ws_unmask. rewrite Hsrv. rewrite ws_xor_invol by assumption.
  destruct (ws_run c (MHdr []) rest) as [m e]. reflexivity.
Qed.

Fixpoint ws_frames_of (l : list (ws_lform * bytes * bytes)) : bytes :=
  match l with
  | [] => []
  | (lf, mask, p) :: tl => ws_mk_frame lf mask p ++ ws_frames_of tl
  end.

Definition ws_frame_ok (c : ws_cfg) (x : ws_lform * bytes * bytes) : Prop :=
  let '(lf, mask, p) := x in
  len mask = 4 /\ wfb mask /\ wfb p /\ 1 <= len p <= wsc_rxbuf c /\ ws_lform_ok lf (len p).

(* C05_ws_frames (automaton): a sequence of frames is delivered as exactly their payloads *)
Theorem ws_frames_run c : wsc_server c = true -> forall l,
  Forall (ws_frame_ok c) l ->
  ws_run c (MHdr []) (ws_frames_of l) = (MHdr [], map (fun x => WMsg (snd x)) l).
Proof.
  intros Hsrv. induction l as [|[[lf mask] p] tl IH]; intros H; [reflexivity|].
  inversion H as [|? ? Hx Htl]; subst. destruct Hx as (H1 & H2 & H3 & H4 & H5).
  cbn [ws_frames_of map snd]. rewrite ws_frame_run by assumption. rewrite IH by assumption. reflexivity.
Qed.

(* C05_ws_frames: an accepted handshake followed by frames of messages, arriving in any pieces, is
   delivered as "connected" and exactly the payloads, in order *)
Theorem ws_stream_delivered c hs l arr :
  wsc_fix c = ws_fixed -> ws_drain_buf <= wsc_rxbuf c -> wsc_server c = true ->
  ws_run c (MHs ws_flags0 []) hs = (MHdr [], [WConnected]) ->
  Forall (ws_frame_ok c) l -> Forall wfb arr -> concat arr = hs ++ ws_frames_of l ->
  snd (ws_arrivals c ws_init arr) = WConnected :: map (fun x => WMsg (snd x)) l /\
  ws_mode_of (fst (ws_arrivals c ws_init arr)) = MHdr [].
Proof.
  intros Hfix Hdb Hsrv Hhs Hl W Hc.
  assert (Hrun : ws_run c (ws_mode_of ws_init) (concat arr) =
                 (MHdr [], WConnected :: map (fun x => WMsg (snd x)) l)).
  { rewrite Hc. unfold ws_mode_of, ws_init. cbn [w_closed w_up w_flags w_http negb].
    rewrite ws_run_app, Hhs. rewrite ws_frames_run by assumption. reflexivity. }
  assert (Hz : ~ In WZero (snd (ws_run c (ws_mode_of ws_init) (concat arr)))).
  { rewrite Hrun. cbn [snd In]. intros [E|Hin]; [discriminate|].
    apply in_map_iff in Hin. destruct Hin as (x & E & _). discriminate. }
  destruct (ws_arrivals c ws_init arr) as [s1 e1] eqn:H1.
  destruct (ws_arrivals_spec c Hfix Hdb arr ws_init s1 e1 (ws_init_qinv c) W Hz H1) as (R & _).
  rewrite Hrun in R. inversion R as [[Hm He]]. cbn [fst snd]. split; congruence.
Qed.

(* ------------------------------------------------------------------ what reaches coap_dispatch *)
From LibcoapV Require Import Wire.OptCodec Wire.Pdu Wire.PduProofs.

(* coap_read_session hands a returned frame of at least 2 bytes (the size of a CoAP-over-WebSocket
   header) to coap_pdu_parse *)
Inductive ws_obs := WDeliver (m : msg) | WIgnored (p : bytes) | WOther (e : ws_ev).
Definition ws_observe_ev (e : ws_ev) : ws_obs :=
  match e with
  | WMsg p => if 2 <=? len p then match parse WS p with Some m => WDeliver m | None => WIgnored p end
              else WIgnored p
  | _ => WOther e
  end.
Definition ws_observe (evs : list ws_ev) : list ws_obs := map ws_observe_ev evs.

Lemma ws_serialize_len m : 2 <= len (serialize WS m).
Proof.
  unfold serialize, header. rewrite len_app, !len_cons, len_nil.
  pose proof (len_nonneg (token_area (m_token m) ++ content_area m)). lia.
Qed.

Theorem ws_observe_messages ms :
  Forall msg_wf ms ->
  ws_observe (map (fun m => WMsg (serialize WS m)) ms) = map (fun m => WDeliver (norm_fields WS m)) ms.
Proof.
  induction 1 as [|m tl W _ IH]; [reflexivity|].
  cbn [map ws_observe ws_observe_ev]. pose proof (ws_serialize_len m).
  replace (2 <=? len (serialize WS m)) with true by lia.
  rewrite parse_serialize by assumption. f_equal. exact IH.
Qed.

(* Model of the TCP/TLS branch of coap_read_session (src/coap_net.c): the three-state stream
   reader (first byte / rest of header / body) over session->read_header[8], partial_read and
   partial_pdu, with coap_pdu_parse_header_size / coap_pdu_parse_size (src/coap_pdu.c), the
   two size caps, the read loop over a COAP_RXBUFFER_SIZE buffer with its retry, and the
   level-triggered event loop that calls the reader while the socket is readable.

   Definitions only.  Proofs: Stream/TcpReaderProofs.v.  All globals carry the prefix tcp_. *)
From Coq Require Import ZArith List Bool.
From LibcoapV Require Import Base.Bytes Wire.Pdu.
Import ListNotations.
Local Open Scope Z_scope.

(* ---- configuration (constants of the build and of the session) ---- *)
Record tcp_cfg := mkTcpCfg {
  tcp_hard_cap : Z;    (* COAP_DEFAULT_MAX_PDU_RX_SIZE *)
  tcp_sess_cap : Z;    (* coap_session_max_pdu_rcv_size(session); 0 = coap_pdu_resize unlimited *)
  tcp_rxbuf : Z        (* COAP_RXBUFFER_SIZE: size of the stack buffer handed to l_read *)
}.

Definition tcp_hdr_buf : Z := 8.         (* sizeof(session->read_header) *)
Definition tcp_hard_cap_default : Z := 8 * 1024 * 1024 + 256.
Definition tcp_rxbuf_default : Z := 1472.

(* coap_session_max_pdu_size_internal for a reliable session (max_with_header = csm_rcv_mtu,
   already limited to COAP_DEFAULT_MAX_PDU_RX_SIZE by coap_context_set_csm_max_message_size) *)
Definition tcp_max_rcv (mtu : Z) : Z :=
  if mtu <=? 2 then 0
  else if mtu <=? 12 + 2 then mtu - 2
  else if mtu <=? 268 + 3 then mtu - 3
  else if mtu <=? 65804 + 4 then mtu - 4
  else mtu - 6.

Definition tcp_cfg_of_mtu (mtu : Z) : tcp_cfg :=
  mkTcpCfg tcp_hard_cap_default (tcp_max_rcv mtu) tcp_rxbuf_default.

(* ---- what the reader hands upwards ---- *)
Inductive tcp_ev :=
| TMsg (frame : bytes)   (* a complete frame: handed to coap_pdu_parse_header/_opt + coap_dispatch *)
| TClose                 (* bytes_read = -1: coap_session_disconnected_lkd *)
| TOob                   (* the C would access read_header[] out of bounds (shown unreachable) *)
| TFuel.                 (* recursion fuel exhausted (shown unreachable) *)

(* ---- header arithmetic ---- *)
Definition tcp_hdr_size (b0 : Z) : Z := header_size TCP b0.   (* coap_pdu_parse_header_size *)
Definition tcp_tok_ext (b0 : Z) : Z :=
  let tkl := b0 mod 16 in if tkl =? 13 then 1 else if tkl =? 14 then 2 else 0.
Definition tcp_hdr_len (b0 : Z) : Z := tcp_hdr_size b0 + tcp_tok_ext b0.

(* token part of coap_pdu_parse_size; [ts] = bytes from token_start.  None = read past the
   bytes that were passed in *)
Definition tcp_tok_size (tkl : Z) (ts : bytes) : option Z :=
  if tkl <? 13 then Some tkl
  else if tkl =? 13 then
    match ts with t0 :: _ => Some (t0 + 13 + 1) | [] => None end
  else if tkl =? 14 then
    match ts with t0 :: t1 :: _ => Some (t0 * 256 + t1 + 269 + 2) | _ => None end
  else Some 0.     (* "Invalid at this point - caught later as undersized" *)

Definition tcp_add_tok (base : Z) (tkl : Z) (ts : bytes) : option Z :=
  match tcp_tok_size tkl ts with Some t => Some (base + t) | None => None end.

(* coap_pdu_parse_size(proto, read_header, hdr_size + tok_ext_bytes): bytes that follow the
   header (extended token length bytes + token + options + payload) *)
Definition tcp_parse_size (h : bytes) : option Z :=
  match h with
  | [] => None
  | b0 :: r =>
      let l := b0 / 16 in
      let tkl := b0 mod 16 in
      if l <? 13 then
        match r with _ :: ts => tcp_add_tok l tkl ts | _ => None end
      else if l =? 13 then
        match r with e0 :: _ :: ts => tcp_add_tok (e0 + 13) tkl ts | _ => None end
      else if l =? 14 then
        match r with e0 :: e1 :: _ :: ts => tcp_add_tok (e0 * 256 + e1 + 269) tkl ts | _ => None end
      else
        match r with
        | e0 :: e1 :: e2 :: e3 :: _ :: ts =>
            tcp_add_tok (e0 * 16777216 + e1 * 65536 + e2 * 256 + e3 + 65805) tkl ts
        | _ => None
        end
  end.

(* size > COAP_DEFAULT_MAX_PDU_RX_SIZE, or coap_pdu_init(.., max_rcv) fails because
   max_rcv > COAP_DEFAULT_MAX_PDU_RX_SIZE - max_hdr_size, or it is followed by
   "alloc_size < size && !coap_pdu_resize(pdu, size)" (alloc_size = min(max_rcv,256) <= max_size =
   max_rcv; resize refuses new_size > max_size when max_size != 0) *)
Definition tcp_pdu_max_hdr : Z := 6.     (* COAP_PDU_MAX_TCP_HEADER_SIZE: pdu->max_hdr_size *)
Definition tcp_oversize (c : tcp_cfg) (size : Z) : bool :=
  (tcp_hard_cap c <? size)
  || (tcp_hard_cap c - tcp_pdu_max_hdr <? tcp_sess_cap c)      (* coap_pdu_init returns NULL *)
  || ((0 <? tcp_sess_cap c) && (tcp_sess_cap c <? size)).

(* ---- reader state: the session fields ---- *)
Inductive tcp_rstate :=
| TIdle                               (* partial_pdu = NULL, partial_read = 0 *)
| THdr (h : bytes)                    (* partial_pdu = NULL, read_header[0..partial_read) = h *)
| TBody (acc : bytes) (total : Z)     (* partial_pdu: hdr_size + used_size = total, the first
                                         partial_read bytes of the PDU buffer are acc *)
| TClosed.                            (* session disconnected (server sessions are freed) *)

(* One pass through the body of "while (bytes_read > 0)" with p = the unprocessed bytes
   (bytes_read = len p > 0).  Result: new state, events, bytes still unprocessed.
   [fx] = true : "session->partial_read += n" (the repaired line 2219)
   [fx] = false: "session->partial_read += bytes_read" evaluated after "bytes_read -= n",
                 i.e. += 0 whenever n < len (the line as found). *)
Definition tcp_iter (fx : bool) (c : tcp_cfg) (s : tcp_rstate) (p : bytes)
  : tcp_rstate * list tcp_ev * bytes :=
  match s with
  | TClosed => (TClosed, [], [])
  | TBody acc total =>
      let l := total - len acc in
      let n := Z.min l (len p) in
      let acc' := acc ++ take n p in            (* memcpy(pdu->token - hdr_size + partial_read, p, n) *)
      if n =? l then (TIdle, [TMsg acc'], drop n p)
      else (TBody acc' total, [], drop n p)
  | THdr h =>
      match h with
      | [] => (TClosed, [TOob], [])
      | b0 :: _ =>
          let hs := tcp_hdr_size b0 in
          let te := tcp_tok_ext b0 in
          let l := hs + te - len h in
          let n := Z.min l (len p) in
          let h' := h ++ take n p in            (* memcpy(read_header + partial_read, p, n) *)
          if tcp_hdr_buf <? len h' then (TClosed, [TOob], [])
          else if n =? l then
            match tcp_parse_size h' with
            | None => (TClosed, [TOob], [])
            | Some size =>
                if tcp_oversize c size then (TClosed, [TClose], [])
                else if size =? 0 then (TIdle, [TMsg h'], drop n p)
                else (TBody h' (hs + size), [], drop n p)
            end
          else ((if fx then THdr h' else THdr h), [], drop n p)
      end
  | TIdle =>
      match p with
      | [] => (TIdle, [], [])
      | b :: r =>
          if tcp_hdr_size b =? 0 then (TClosed, [TClose], [])
          else (THdr [b], [], r)
      end
  end.

(* while (bytes_read > 0) { ... }  ; "break" with bytes_read = -1 is the TClosed state, which
   discards the rest of the buffer *)
Fixpoint tcp_loop (fuel : nat) (fx : bool) (c : tcp_cfg) (s : tcp_rstate) (p : bytes)
  : tcp_rstate * list tcp_ev :=
  match p with
  | [] => (s, [])
  | _ =>
      match fuel with
      | O => (TClosed, [TFuel])
      | S f =>
          let '(s1, e1, rest) := tcp_iter fx c s p in
          let '(s2, e2) := tcp_loop f fx c s1 rest in
          (s2, e1 ++ e2)
      end
  end.

(* the bytes of one l_read result processed by the loop *)
Definition tcp_feed_gen (fx : bool) (c : tcp_cfg) (s : tcp_rstate) (p : bytes) :=
  tcp_loop (length p) fx c s p.
Definition tcp_feed := tcp_feed_gen true.
Definition tcp_feed_orig := tcp_feed_gen false.

(* a list of reads, one after the other *)
Fixpoint tcp_feed_chunks (fx : bool) (c : tcp_cfg) (s : tcp_rstate) (chunks : list bytes)
  : tcp_rstate * list tcp_ev :=
  match chunks with
  | [] => (s, [])
  | p :: tl =>
      let '(s1, e1) := tcp_feed_gen fx c s p in
      let '(s2, e2) := tcp_feed_chunks fx c s1 tl in
      (s2, e1 ++ e2)
  end.

(* ---- one call of coap_read_session on a socket that holds [avail] unread bytes ----
   do { bytes_read = l_read(payload, rxbuf); retry = bytes_read == rxbuf; while (...) {...} }
   while (bytes_read == 0 && retry);
   l_read returns min(rxbuf, available) bytes, 0 (EAGAIN) when nothing is available.
   Result: state, events, bytes left in the socket. *)
Fixpoint tcp_read_session (fuel : nat) (fx : bool) (c : tcp_cfg) (s : tcp_rstate) (avail : bytes)
  : tcp_rstate * list tcp_ev * bytes :=
  match fuel with
  | O => (TClosed, [TFuel], avail)
  | S f =>
      let chunk := take (tcp_rxbuf c) avail in
      let rest := drop (tcp_rxbuf c) avail in
      let '(s1, e1) := tcp_feed_gen fx c s chunk in
      match s1 with
      | TClosed => (TClosed, e1, rest)
      | _ =>
          if len chunk =? tcp_rxbuf c then
            let '(s2, e2, r2) := tcp_read_session f fx c s1 rest in (s2, e1 ++ e2, r2)
          else (s1, e1, rest)
      end
  end.

(* level-triggered event loop: the reader is called again while unread bytes remain and the
   session is still there *)
Fixpoint tcp_pump (fuel : nat) (fx : bool) (c : tcp_cfg) (s : tcp_rstate) (avail : bytes)
  : tcp_rstate * list tcp_ev :=
  match avail with
  | [] => (s, [])
  | _ =>
      match s with
      | TClosed => (TClosed, [])
      | _ =>
          match fuel with
          | O => (TClosed, [TFuel])
          | S f =>
              let '(s1, e1, rest) := tcp_read_session (S (length avail)) fx c s avail in
              let '(s2, e2) := tcp_pump f fx c s1 rest in
              (s2, e1 ++ e2)
          end
      end
  end.

(* the kernel makes the stream available in pieces (arrivals); after each arrival the event
   loop runs until the socket is drained *)
Fixpoint tcp_arrivals (fx : bool) (c : tcp_cfg) (s : tcp_rstate) (arr : list bytes)
  : tcp_rstate * list tcp_ev :=
  match arr with
  | [] => (s, [])
  | a :: tl =>
      let '(s1, e1) := tcp_pump (S (length a)) fx c s a in
      let '(s2, e2) := tcp_arrivals fx c s1 tl in
      (s2, e1 ++ e2)
  end.

(* ---- specification: the frames of a whole byte string, independent of any state machine ----
   result: events, and the incomplete tail (None once the stream has been closed) *)
Fixpoint tcp_split (fuel : nat) (c : tcp_cfg) (bs : bytes) : list tcp_ev * option bytes :=
  match bs with
  | [] => ([], Some [])
  | b0 :: _ =>
      let hl := tcp_hdr_len b0 in
      if len bs <? hl then ([], Some bs)
      else
        match tcp_parse_size (take hl bs) with
        | None => ([TOob], None)
        | Some size =>
            if tcp_oversize c size then ([TClose], None)
            else
              let total := tcp_hdr_size b0 + size in
              if len bs <? total then ([], Some bs)
              else
                match fuel with
                | O => ([TFuel], None)
                | S f =>
                    let '(e, r) := tcp_split f c (drop total bs) in
                    (TMsg (take total bs) :: e, r)
                end
        end
  end.

Definition tcp_frames (c : tcp_cfg) (bs : bytes) := tcp_split (length bs) c bs.

(* the bytes of the current incomplete frame *)
Definition tcp_pending (s : tcp_rstate) : option bytes :=
  match s with
  | TIdle => Some []
  | THdr h => Some h
  | TBody acc _ => Some acc
  | TClosed => None
  end.

(* ---- what reaches coap_dispatch: frames that coap_pdu_parse_header && coap_pdu_parse_opt
   accept (Wire/Pdu.v: parse TCP, tied to the code by C03) ---- *)
Inductive tcp_obs := TDeliver (m : msg) | TDropped (frame : bytes) | TClosedObs | TBroken.

Definition tcp_observe_ev (e : tcp_ev) : tcp_obs :=
  match e with
  | TMsg f => match parse TCP f with Some m => TDeliver m | None => TDropped f end
  | TClose => TClosedObs
  | _ => TBroken
  end.
Definition tcp_observe (evs : list tcp_ev) : list tcp_obs := map tcp_observe_ev evs.

(* The per-line checks of the WebSocket opening handshake: coap_ws_split_rd_header,
   coap_ws_rd_http_header_server, coap_ws_rd_http_header_client (src/coap_ws.c), as instances of
   the [wsc_check]/[wsc_done] fields of Stream/WsReader.v.  A line is the bytes before the
   newline (CR stripped); it contains neither NUL nor LF. *)
From Coq Require Import ZArith List Bool String Ascii.
From LibcoapV Require Import Base.Bytes Stream.WsReader.
Import ListNotations.
Local Open Scope Z_scope.

Definition ws_str (s : string) : bytes :=
  map (fun a => Z.of_N (N_of_ascii a)) (list_ascii_of_string s).

(* the string constants, as byte lists (so that the extracted code does not mention [string]) *)
Definition ws_s0 : bytes := Eval vm_compute in ws_str "13".
Definition ws_s1 : bytes := Eval vm_compute in ws_str "Connection:".
Definition ws_s2 : bytes := Eval vm_compute in ws_str "Connection: Upgrade".
Definition ws_s3 : bytes := Eval vm_compute in ws_str "GET /.well-known/coap HTTP/1.1".
Definition ws_s4 : bytes := Eval vm_compute in ws_str "Host:".
Definition ws_s5 : bytes := Eval vm_compute in ws_str "Host: localhost".
Definition ws_s6 : bytes := Eval vm_compute in ws_str "Sec-WebSocket-Key:".
Definition ws_s7 : bytes := Eval vm_compute in ws_str "Sec-WebSocket-Key: AAECAwQFBgcICQoLDA0ODw==".
Definition ws_s8 : bytes := Eval vm_compute in ws_str "Sec-WebSocket-Protocol:".
Definition ws_s9 : bytes := Eval vm_compute in ws_str "Sec-WebSocket-Protocol: coap".
Definition ws_s10 : bytes := Eval vm_compute in ws_str "Sec-WebSocket-Version:".
Definition ws_s11 : bytes := Eval vm_compute in ws_str "Sec-WebSocket-Version: 13".
Definition ws_s12 : bytes := Eval vm_compute in ws_str "Upgrade".
Definition ws_s13 : bytes := Eval vm_compute in ws_str "Upgrade:".
Definition ws_s14 : bytes := Eval vm_compute in ws_str "Upgrade: websocket".
Definition ws_s15 : bytes := Eval vm_compute in ws_str "coap".
Definition ws_s16 : bytes := Eval vm_compute in ws_str "keep-alive, Upgrade".
Definition ws_s17 : bytes := Eval vm_compute in ws_str "websocket".

Definition ws_c_http : bytes := Eval vm_compute in ws_str "HTTP/1.1".
Definition ws_c_accept_name : bytes := Eval vm_compute in ws_str "Sec-WebSocket-Accept:".
Definition ws_c_accept_val : bytes := Eval vm_compute in ws_str "Bz3qJYTGdOe8gUSpLosEdiLKDrk=".
Definition ws_c_resp1 : bytes := Eval vm_compute in ws_str "HTTP/1.1 101 Switching Protocols".
Definition ws_c_resp4 : bytes := Eval vm_compute in ws_str "Sec-WebSocket-Accept: Bz3qJYTGdOe8gUSpLosEdiLKDrk=".

(* tolower in the C locale *)
Definition ws_lower (b : Z) : Z := if (65 <=? b) && (b <=? 90) then b + 32 else b.

(* strcasecmp(a, b) == 0 *)
Fixpoint ws_ieq (a b : bytes) : bool :=
  match a, b with
  | [], [] => true
  | x :: a', y :: b' => (ws_lower x =? ws_lower y) && ws_ieq a' b'
  | _, _ => false
  end.

Fixpoint ws_index (ch : Z) (l : bytes) : option nat :=
  match l with
  | [] => None
  | b :: r => if b =? ch then Some O else match ws_index ch r with Some i => Some (S i) | None => None end
  end.

Fixpoint ws_skip_blank (l : bytes) : bytes :=
  match l with
  | b :: r => if (b =? 32) || (b =? 9) then ws_skip_blank r else l
  | [] => []
  end.

(* coap_ws_split_rd_header: name = up to the first space (first tab when there is no space),
   value = what follows, leading blanks skipped *)
Definition ws_split (line : bytes) : option (bytes * bytes) :=
  let pos := match ws_index 32 line with Some i => Some i | None => ws_index 9 line end in
  match pos with
  | None => None
  | Some i => Some (firstn i line, ws_skip_blank (skipn (S i) line))
  end.

(* coap_base64_decode_buffer(value, &len, key, 16) && len == 16: the number of leading base64
   characters must be 22 *)
Definition ws_is_b64 (b : Z) : bool :=
  ((65 <=? b) && (b <=? 90)) || ((97 <=? b) && (b <=? 122)) || ((48 <=? b) && (b <=? 57))
  || (b =? 43) || (b =? 47).
Fixpoint ws_b64_prefix (l : bytes) : Z :=
  match l with
  | b :: r => if ws_is_b64 b then 1 + ws_b64_prefix r else 0
  | [] => 0
  end.
Definition ws_key_ok (value : bytes) : bool := ws_b64_prefix value =? 22.

Definition ws_is_nil (l : bytes) : bool := match l with [] => true | _ => false end.

Definition ws_server_check (f : ws_flags) (line : bytes) : option (ws_flags * bool) :=
  if negb (wf_first f) then
    if ws_ieq line ws_s3
    then Some (mkWsFlags true (wf_host f) (wf_upg f) (wf_conn f) (wf_key f) (wf_proto f) (wf_ver f), false)
    else None
  else
    match ws_split line with
    | None => None
    | Some (name, value) =>
        let e := ws_is_nil name in
        if ws_ieq name ws_s4 then
          if wf_host f then None
          else Some (mkWsFlags (wf_first f) true (wf_upg f) (wf_conn f) (wf_key f) (wf_proto f) (wf_ver f), e)
        else if ws_ieq name ws_s13 then
          if wf_upg f then None
          else if ws_ieq value ws_s17
          then Some (mkWsFlags (wf_first f) (wf_host f) true (wf_conn f) (wf_key f) (wf_proto f) (wf_ver f), e)
          else None
        else if ws_ieq name ws_s1 then
          if wf_conn f then None
          else if ws_ieq value ws_s12 || ws_ieq value ws_s16
          then Some (mkWsFlags (wf_first f) (wf_host f) (wf_upg f) true (wf_key f) (wf_proto f) (wf_ver f), e)
          else None
        else if ws_ieq name ws_s6 then
          if wf_key f then None
          else if ws_key_ok value
          then Some (mkWsFlags (wf_first f) (wf_host f) (wf_upg f) (wf_conn f) true (wf_proto f) (wf_ver f), e)
          else None
        else if ws_ieq name ws_s8 then
          if wf_proto f then None
          else if ws_ieq value ws_s15
          then Some (mkWsFlags (wf_first f) (wf_host f) (wf_upg f) (wf_conn f) (wf_key f) true (wf_ver f), e)
          else None
        else if ws_ieq name ws_s10 then
          if wf_ver f then None
          else if ws_ieq value ws_s0
          then Some (mkWsFlags (wf_first f) (wf_host f) (wf_upg f) (wf_conn f) (wf_key f) (wf_proto f) true, e)
          else None
        else Some (f, e)
    end.

Definition ws_server_done (f : ws_flags) : bool :=
  wf_first f && wf_host f && wf_upg f && wf_conn f && wf_key f && wf_proto f && wf_ver f.

Definition ws_server_cfg (fx : ws_fix) : ws_cfg :=
  mkWsCfg true 1472 fx ws_server_check ws_server_done.

(* the canonical client request (COAP_WS_REQUEST) with a fixed key *)
Definition ws_crlf : bytes := [13; 10].
Definition ws_request_lines : list bytes :=
  [ws_s3; ws_s5; ws_s14;
   ws_s2; ws_s7;
   ws_s9; ws_s11; []].
Definition ws_request : bytes := List.concat (List.map (fun l => l ++ ws_crlf) ws_request_lines).

(* ---- client side: coap_ws_rd_http_header_client ---- *)

Fixpoint ws_beq (a b : bytes) : bool :=      (* strcmp(a, b) == 0 *)
  match a, b with
  | [], [] => true
  | x :: a', y :: b' => (x =? y) && ws_beq a' b'
  | _, _ => false
  end.

(* atoi: leading white space, optional sign, digits *)
Fixpoint ws_skip_space (l : bytes) : bytes :=
  match l with
  | b :: r => if (b =? 32) || ((9 <=? b) && (b <=? 13)) then ws_skip_space r else l
  | [] => []
  end.
Fixpoint ws_digits (acc : Z) (l : bytes) : Z :=
  match l with
  | b :: r => if (48 <=? b) && (b <=? 57) then ws_digits (acc * 10 + (b - 48)) r else acc
  | [] => acc
  end.
Definition ws_atoi (l : bytes) : Z :=
  match ws_skip_space l with
  | 45 :: r => - ws_digits 0 r
  | 43 :: r => ws_digits 0 r
  | r => ws_digits 0 r
  end.

(* The Sec-WebSocket-Accept value is compared with the hash of the key the client sent; the
   driver makes the client's key deterministic (bytes 0..15), so the expected value is a constant. *)
Definition ws_client_check (f : ws_flags) (line : bytes) : option (ws_flags * bool) :=
  if negb (wf_first f) then
    match ws_split line with
    | None => None      (* the C dereferences a null pointer for exactly "HTTP/1.1"; see notes *)
    | Some (name, value) =>
        if ws_beq name ws_c_http && (ws_atoi value =? 101)
        then Some (mkWsFlags true (wf_host f) (wf_upg f) (wf_conn f) (wf_key f) (wf_proto f) (wf_ver f), false)
        else None
    end
  else
    match ws_split line with
    | None => None
    | Some (name, value) =>
        let e := ws_is_nil name in
        if ws_ieq name ws_s13 then
          if wf_upg f then None
          else if ws_ieq value ws_s17
          then Some (mkWsFlags (wf_first f) (wf_host f) true (wf_conn f) (wf_key f) (wf_proto f) (wf_ver f), e)
          else None
        else if ws_ieq name ws_s1 then
          if wf_conn f then None
          else if ws_ieq value ws_s12
          then Some (mkWsFlags (wf_first f) (wf_host f) (wf_upg f) true (wf_key f) (wf_proto f) (wf_ver f), e)
          else None
        else if ws_ieq name ws_c_accept_name then
          if wf_key f then None
          else if ws_beq value ws_c_accept_val
          then Some (mkWsFlags (wf_first f) (wf_host f) (wf_upg f) (wf_conn f) true (wf_proto f) (wf_ver f), e)
          else None
        else if ws_ieq name ws_s8 then
          if wf_proto f then None
          else if ws_ieq value ws_s15
          then Some (mkWsFlags (wf_first f) (wf_host f) (wf_upg f) (wf_conn f) (wf_key f) true (wf_ver f), e)
          else None
        else Some (f, e)
    end.

Definition ws_client_done (f : ws_flags) : bool :=
  wf_first f && wf_upg f && wf_conn f && wf_key f && wf_proto f.

Definition ws_client_cfg (fx : ws_fix) : ws_cfg :=
  mkWsCfg false 1472 fx ws_client_check ws_client_done.

(* the response libcoap's own server sends (COAP_WS_RESPONSE) for the key 00 01 .. 0f *)
Definition ws_response_lines : list bytes :=
  [ws_c_resp1; ws_s14; ws_s2; ws_c_resp4; ws_s9; []].
Definition ws_response : bytes := List.concat (List.map (fun l => l ++ ws_crlf) ws_response_lines).

(* Concrete runs of the WebSocket reader model with the server-side handshake checks:
   the four defects of the code as found (each refutes the chunking statement or the "closes
   instead of being buffered" statement) and the same inputs on the repaired reader. *)
From LibcoapV Require Import Base.Tactics Base.Bytes Stream.WsReader Stream.WsHandshake
  Stream.WsReaderProofs.
Local Open Scope Z_scope.

Definition ws_w_mask : bytes := [1; 2; 3; 4].
Definition ws_w_get : bytes := [0; 1; 177; 97].          (* GET /a *)
Definition ws_w_ping : bytes := [0; 226; 32].            (* 7.02 Ping with Custody option *)
Definition ws_w_frame (p : bytes) : bytes := ws_mk_frame L7 ws_w_mask p.
Definition ws_w_stream : bytes := ws_request ++ ws_w_frame ws_w_get ++ ws_w_frame ws_w_ping.

Definition ws_w_cut (n : Z) (s : bytes) : list bytes := [take n s; drop n s].

Definition ws_has_undef (evs : list ws_ev) : bool :=
  existsb (fun e => match e with WMsg p => existsb (fun b => b <? 0) p | _ => false end) evs.
Definition ws_has_ev (x : ws_ev -> bool) (evs : list ws_ev) : bool := existsb x evs.
Definition ws_is_oob (e : ws_ev) := match e with WOob => true | _ => false end.
Definition ws_is_stuck (e : ws_ev) := match e with WStuck => true | _ => false end.
Definition ws_is_close (e : ws_ev) := match e with WClose _ => true | WFail => true | _ => false end.

(* the canonical client request is accepted *)
Lemma ws_request_accepted :
  ws_run (ws_server_cfg ws_fixed) (MHs ws_flags0 []) ws_request = (MHdr [], [WConnected]).
Proof. vm_compute. reflexivity. Qed.

(* (1) as found: a frame received over two calls is assembled from an indeterminate buffer *)
Theorem ws_orig_stack_buffer_refuted :
  exists arr1 arr2, concat arr1 = concat arr2 /\
    snd (ws_arrivals (ws_server_cfg ws_orig) ws_init arr1) <>
    snd (ws_arrivals (ws_server_cfg ws_orig) ws_init arr2) /\
    ws_has_undef (snd (ws_arrivals (ws_server_cfg ws_orig) ws_init arr2)) = true.
Proof.
  exists [ws_w_stream], (ws_w_cut (len ws_request + 8) ws_w_stream).
  split; [vm_compute; reflexivity|]. split; [vm_compute; discriminate|vm_compute; reflexivity].
Qed.

(* (2) as found: a 160-byte handshake line writes http_hdr[160] and the session spins for ever *)
Definition ws_w_longline : bytes := ws_s3 ++ ws_crlf ++ repeat 76 200.
Theorem ws_orig_longline_refuted :
  let evs := snd (ws_arrivals (ws_server_cfg ws_orig) ws_init [ws_w_longline]) in
  ws_has_ev ws_is_oob evs = true /\ ws_has_ev ws_is_stuck evs = true /\ ws_has_ev ws_is_close evs = false.
Proof. vm_compute. split; [reflexivity|split; reflexivity]. Qed.

(* (3) as found: the body of a refused oversized frame is read into the 100-byte buffer of
   coap_ws_close *)
Definition ws_w_oversize : bytes := ws_request ++ [130; 254; 16; 0; 1; 2; 3; 4] ++ repeat 122 300.
Theorem ws_orig_oversize_refuted :
  ws_has_ev ws_is_oob (snd (ws_arrivals (ws_server_cfg ws_orig) ws_init [ws_w_oversize])) = true.
Proof. vm_compute. reflexivity. Qed.

(* (4) as found: what the read-ahead holds is processed only when more bytes arrive - the close
   for an unmasked frame behind a Ping depends on the segmentation *)
Definition ws_w_strand : bytes := ws_request ++ ws_w_frame ws_w_ping ++ [130; 2; 0; 1].
Theorem ws_orig_strand_refuted :
  exists arr1 arr2, concat arr1 = concat arr2 /\
    snd (ws_arrivals (ws_server_cfg ws_orig) ws_init arr1) <>
    snd (ws_arrivals (ws_server_cfg ws_orig) ws_init arr2).
Proof.
  exists [ws_w_strand], (ws_w_cut (len ws_request + 9) ws_w_strand).
  split; [vm_compute; reflexivity|vm_compute; discriminate].
Qed.

(* the same inputs on the repaired reader (non-vacuity of the positive theorems) *)
Example ws_fixed_witnesses :
  snd (ws_arrivals (ws_server_cfg ws_fixed) ws_init (ws_w_cut (len ws_request + 8) ws_w_stream)) =
    [WConnected; WMsg ws_w_get; WMsg ws_w_ping] /\
  snd (ws_arrivals (ws_server_cfg ws_fixed) ws_init [ws_w_stream]) =
    [WConnected; WMsg ws_w_get; WMsg ws_w_ping] /\
  snd (ws_arrivals (ws_server_cfg ws_fixed) ws_init [ws_w_longline]) = [WFail] /\
  snd (ws_arrivals (ws_server_cfg ws_fixed) ws_init [ws_w_oversize]) = [WConnected; WClose 1009] /\
  snd (ws_arrivals (ws_server_cfg ws_fixed) ws_init [ws_w_strand]) =
    snd (ws_arrivals (ws_server_cfg ws_fixed) ws_init (ws_w_cut (len ws_request + 9) ws_w_strand)).
Proof. vm_compute. split; [reflexivity|]. split; [reflexivity|]. split; [reflexivity|]. split; reflexivity. Qed.

Lemma ws_server_cfg_fixed_ok :
  wsc_fix (ws_server_cfg ws_fixed) = ws_fixed /\ ws_drain_buf <= wsc_rxbuf (ws_server_cfg ws_fixed) /\
  wsc_server (ws_server_cfg ws_fixed) = true.
Proof. repeat split. unfold ws_drain_buf. cbn. lia. Qed.

(* ---- client session: frames from the server are not masked ---- *)
Definition ws_w_uframe (p : bytes) : bytes := 130 :: len p :: p.
Definition ws_w_content : bytes := [0; 69; 255; 97].      (* 2.05 Content "a" *)
Definition ws_w_cstream : bytes := ws_response ++ ws_w_uframe ws_w_content ++ ws_w_uframe ws_w_ping.

Lemma ws_response_accepted :
  ws_run (ws_client_cfg ws_fixed) (MHs ws_flags0 []) ws_response = (MHdr [], [WConnected]).
Proof. vm_compute. reflexivity. Qed.

(* (4') as found, client session: two small frames that arrive together - the second one sits in
   the read-ahead buffer and is not delivered until further bytes arrive *)
Theorem ws_orig_client_strand_refuted :
  exists arr1 arr2, concat arr1 = concat arr2 /\
    snd (ws_arrivals (ws_client_cfg ws_orig) ws_init arr1) = [WConnected; WMsg ws_w_content] /\
    snd (ws_arrivals (ws_client_cfg ws_orig) ws_init arr2) = [WConnected; WMsg ws_w_content; WMsg ws_w_ping].
Proof.
  exists [ws_w_cstream], (ws_w_cut (len ws_response + 6) ws_w_cstream).
  split; [vm_compute; reflexivity|]. split; vm_compute; reflexivity.
Qed.

Example ws_fixed_client_witness :
  snd (ws_arrivals (ws_client_cfg ws_fixed) ws_init [ws_w_cstream]) =
    [WConnected; WMsg ws_w_content; WMsg ws_w_ping] /\
  wsc_fix (ws_client_cfg ws_fixed) = ws_fixed /\ ws_drain_buf <= wsc_rxbuf (ws_client_cfg ws_fixed).
Proof. split; [vm_compute; reflexivity|]. split; [reflexivity|]. unfold ws_drain_buf. cbn. lia. Qed.

(* Model of the WebSocket receive path: coap_ws_rd_http_header, coap_ws_read (src/coap_ws.c) and the
   WS/WSS branch of coap_read_session (src/coap_net.c), over an explicit source of bytes:
   a read of n bytes returns at most n of the bytes that have arrived (none = EAGAIN).

   The four repairs made in /repo are switches of the model ([ws_fix]); all on = the code as it is
   now, all off = the code as found:
     wsf_line   coap_ws_rd_http_header: a handshake line that fills the 160-byte buffer fails the
                handshake (before: http_hdr[160] = 0 was written and the session spun for ever)
     wsf_drain  coap_ws_read refuses to continue a frame that does not fit the caller's buffer
                (before: coap_ws_close's 100-byte stack buffer received the oversized frame body)
     wsf_buf    the frame payload is assembled in the WS state (before: in the caller's stack
                buffer, whose contents are indeterminate in the next call)
     wsf_strand coap_read_session keeps reading while frames are returned (before: one frame per
                call, a complete frame in the read-ahead buffer waited for the next byte to arrive)

   Definitions only; proofs in Stream/WsReaderProofs.v.  Globals carry the prefix ws_ / w_. *)
From Coq Require Import ZArith List Bool.
From LibcoapV Require Import Base.Bytes.
Import ListNotations.
Local Open Scope Z_scope.

Definition ws_http_buf : Z := 160.    (* sizeof(ws->http_hdr) *)
Definition ws_max_fs : Z := 14.       (* COAP_MAX_FS = sizeof(ws->rd_header) *)
Definition ws_drain_buf : Z := 100.   (* uint8_t buf[100] in coap_ws_close *)
Definition ws_undef : Z := -1.        (* an indeterminate byte of a stack buffer *)

Record ws_fix := mkWsFix { wsf_line : bool; wsf_drain : bool; wsf_buf : bool; wsf_strand : bool }.
Definition ws_fixed := mkWsFix true true true true.
Definition ws_orig := mkWsFix false false false false.

(* which handshake headers have been seen: first line, Host, Upgrade, Connection, Key, Protocol,
   Version *)
Record ws_flags := mkWsFlags {
  wf_first : bool; wf_host : bool; wf_upg : bool; wf_conn : bool; wf_key : bool; wf_proto : bool;
  wf_ver : bool }.
Definition ws_flags0 := mkWsFlags false false false false false false false.

Record ws_cfg := mkWsCfg {
  wsc_server : bool;          (* ws->state == COAP_SESSION_TYPE_SERVER *)
  wsc_rxbuf : Z;              (* COAP_RXBUFFER_SIZE: datalen passed by coap_read_session *)
  wsc_fix : ws_fix;
  (* coap_ws_rd_http_header_server/_client on one non-empty line: None = return 0; the boolean is
     "http_hdr[0] is NUL afterwards" (the line started with the separator) *)
  wsc_check : ws_flags -> bytes -> option (ws_flags * bool);
  wsc_done : ws_flags -> bool (* all required headers seen *)
}.

Inductive ws_ev :=
| WConnected            (* handshake complete: 101 written, COAP_EVENT_WS_CONNECTED, l_establish *)
| WMsg (payload : bytes)(* coap_ws_read returned a frame: > 2 bytes go to coap_pdu_parse + dispatch *)
| WClose (reason : Z)   (* coap_ws_close *)
| WFail                 (* handshake failed / read error: coap_session_disconnected_lkd *)
| WZero                 (* a frame header announcing 0 payload bytes was completed *)
| WOob                  (* write outside http_hdr[] / the frame buffer *)
| WStuck                (* readable socket, but the reader makes no progress: busy event loop *)
| WFuel.

(* ---- the source ---- *)
Definition ws_rd (n : Z) (avail : bytes) : bytes * bytes := (take n avail, drop n avail).

(* ---- handshake lines ---- *)

(* strchr(http_hdr, '\n'): index of the first 10 before any 0 *)
Fixpoint ws_find_nl (buf : bytes) : option Z :=
  match buf with
  | [] => None
  | b :: r =>
      if b =? 10 then Some 0
      else if b =? 0 then None
      else match ws_find_nl r with Some i => Some (i + 1) | None => None end
  end.

(* if (cp != http_hdr && cp[-1] == '\r') cp[-1] = 0 *)
Definition ws_strip_cr (line : bytes) : bytes :=
  match rev line with
  | 13 :: r => rev r
  | _ => line
  end.

Inductive ws_pres := PFail | PUp (f : ws_flags) | PNext (f : ws_flags).

Definition ws_trailing (c : ws_cfg) (f : ws_flags) : ws_pres :=
  if wsc_done c f then PUp f else PFail.

Definition ws_process_line (c : ws_cfg) (f : ws_flags) (line : bytes) : ws_pres :=
  match line with
  | [] => ws_trailing c f
  | _ =>
      match wsc_check c f line with
      | None => PFail
      | Some (f', emptied) => if emptied then ws_trailing c f' else PNext f'
      end
  end.

Inductive ws_lres := LUp (lft : bytes) (f : ws_flags) | LMore (buf : bytes) (f : ws_flags) | LFail.

(* while (cp) { cp = strchr(...); ... } *)
Fixpoint ws_lines (fuel : nat) (c : ws_cfg) (f : ws_flags) (buf : bytes) : ws_lres :=
  match ws_find_nl buf with
  | None => LMore buf f
  | Some i =>
      match fuel with
      | O => LFail
      | S fu =>
          let line := ws_strip_cr (take i buf) in
          let rest := drop (i + 1) buf in
          match ws_process_line c f line with
          | PFail => LFail
          | PUp f' => LUp rest f'
          | PNext f' => ws_lines fu c f' rest
          end
      end
  end.

Inductive ws_hres :=
| HUp (lft : bytes) (f : ws_flags) (avail : bytes)
| HMore (http : bytes) (f : ws_flags) (avail : bytes)
| HFail (avail : bytes)
| HFuel.

(* coap_ws_rd_http_header: while (!ws->up) { read at most COAP_MAX_FS bytes; split lines }.
   The boolean result is "http_hdr[160] was written". *)
Fixpoint ws_hs (fuel : nat) (c : ws_cfg) (f : ws_flags) (http : bytes) (avail : bytes) (oob : bool)
  : ws_hres * bool :=
  match fuel with
  | O => (HFuel, oob)
  | S fu =>
      let k := len http in
      let cap := if wsf_line (wsc_fix c) then ws_http_buf - 1 else ws_http_buf in
      let rem := if ws_http_buf - 1 - ws_max_fs <? k then cap - k else ws_max_fs in
      if wsf_line (wsc_fix c) && (rem <=? 0) then (HFail avail, oob)
      else
        let '(chunk, avail') := ws_rd rem avail in
        match chunk with
        | [] => (HMore http f avail', oob)
        | _ =>
            let buf := http ++ chunk in
            let oob' := oob || (ws_http_buf <=? len buf) in
            match ws_lines (S (length buf)) c f buf with
            | LFail => (HFail avail', oob')
            | LUp lft f' => (HUp lft f' avail', oob')
            | LMore buf' f' => ws_hs fu c f' buf' avail' oob'
            end
        end
  end.

(* ---- reader state: the fields of coap_ws_state_t that the receive path uses ---- *)
Record ws_rstate := mkWs {
  w_up : bool;
  w_flags : ws_flags;
  w_http : bytes;        (* http_hdr[0 .. http_ofs) *)
  w_rdh : bytes;         (* rd_header[0 .. hdr_ofs) while all_hdr_in = 0 *)
  w_allhdr : bool;       (* all_hdr_in *)
  w_mask : bytes;        (* mask_key of the frame in progress *)
  w_dsize : Z;           (* data_size *)
  w_data : bytes;        (* frame buffer [0 .. data_ofs) of the frame in progress *)
  w_closed : bool        (* socket closed (coap_ws_close / coap_session_disconnected_lkd) *)
}.
Definition ws_init := mkWs false ws_flags0 [] [] false [] 0 [] false.

Definition ws_set_closed (s : ws_rstate) : ws_rstate :=
  mkWs (w_up s) (w_flags s) (w_http s) (w_rdh s) (w_allhdr s) (w_mask s) (w_dsize s) (w_data s) true.

Inductive ws_ret := RFrame (payload : bytes) | RNone | RErr.

(* coap_ws_mask_data; an indeterminate byte stays indeterminate *)
Fixpoint ws_xor (mask : bytes) (i : Z) (d : bytes) : bytes :=
  match d with
  | [] => []
  | b :: r => (if b <? 0 then b else Z.lxor b (nth (Z.to_nat (i mod 4)) mask 0)) :: ws_xor mask (i + 1) r
  end.
Definition ws_unmask (c : ws_cfg) (mask : bytes) (d : bytes) : bytes :=
  if wsc_server c then ws_xor mask 0 d else d.

Definition ws_be (l : bytes) : Z := fold_left (fun acc b => acc * 256 + b) l 0.

(* parsed frame header: hl = header length, size = payload length *)
Record ws_fhdr := mkFh { fh_masked : bool; fh_ext : Z; fh_hl : Z }.
Definition ws_fh (b1 : Z) : ws_fhdr :=
  let l7 := b1 mod 128 in
  let ext := if l7 =? 127 then 8 else if l7 =? 126 then 2 else 0 in
  let m := 128 <=? b1 in
  mkFh m ext (2 + ext + (if m then 4 else 0)).
Definition ws_fsize (h : bytes) : Z :=
  let b1 := nth 1 h 0 in
  let l7 := b1 mod 128 in
  if l7 =? 127 then ws_be (take 8 (drop 2 h))
  else if l7 =? 126 then ws_be (take 2 (drop 2 h))
  else l7.

(* the drain loop of coap_ws_close after an oversized frame was announced (all_hdr_in = 1):
   up to 5 times, if the socket is readable, coap_ws_read(session, buf, 100) continues the frame.
   Only this case of the loop is modelled (what follows another kind of close is traffic after the
   close).  Result: state, bytes left, "wrote outside the buffer". *)
Fixpoint ws_drain (count : nat) (c : ws_cfg) (s : ws_rstate) (avail : bytes) : ws_rstate * bytes * bool :=
  match count with
  | O => (s, avail, false)
  | S n =>
      match avail with
      | [] => (s, avail, false)                       (* select: not readable *)
      | _ =>
          if negb (w_allhdr s) then (s, avail, false) (* frame finished: next header = not modelled *)
          else if wsf_drain (wsc_fix c) && (ws_drain_buf <? w_dsize s) then (s, avail, false)
          else
            let '(chunk, a1) := ws_rd (w_dsize s - len (w_data s)) avail in
            let d := w_data s ++ chunk in
            let bound := if wsf_buf (wsc_fix c) then wsc_rxbuf c else ws_drain_buf in
            let oob := bound <? len d in
            let s1 := if len d =? w_dsize s
                      then mkWs (w_up s) (w_flags s) (w_http s) [] false (w_mask s) (w_dsize s) [] (w_closed s)
                      else mkWs (w_up s) (w_flags s) (w_http s) (w_rdh s) true (w_mask s) (w_dsize s) d (w_closed s) in
            let '(s2, a2, oob2) := ws_drain n c s1 a1 in
            (s2, a2, oob || oob2)
      end
  end.

(* "Get in (remaining) data" *)
Definition ws_data_stage (c : ws_cfg) (s : ws_rstate) (datalen : Z) (avail : bytes)
  : ws_rstate * ws_ret * bytes * list ws_ev :=
  if wsf_drain (wsc_fix c) && (datalen <? w_dsize s) then (s, RErr, avail, [])
  else
    let '(chunk, a1) := ws_rd (w_dsize s - len (w_data s)) avail in
    match chunk with
    | [] => (s, RNone, a1, [])
    | _ =>
        let d := w_data s ++ chunk in
        let ev := if datalen <? len d then [WOob] else [] in
        if len d =? w_dsize s then
          (mkWs (w_up s) (w_flags s) (w_http s) [] false (w_mask s) (w_dsize s) [] (w_closed s),
           RFrame (ws_unmask c (w_mask s) d), a1, ev)
        else
          (mkWs (w_up s) (w_flags s) (w_http s) (w_rdh s) true (w_mask s) (w_dsize s) d (w_closed s),
           RNone, a1, ev)
    end.

(* coap_ws_read, the frame header h = rd_header[0 .. hdr_ofs) is complete: opcode, size, and the
   payload bytes that were read in along with the header *)
Definition ws_after_hdr (c : ws_cfg) (s : ws_rstate) (h : bytes) (datalen : Z) (a1 : bytes)
  : ws_rstate * ws_ret * bytes * list ws_ev :=
  let keep := mkWs (w_up s) (w_flags s) (w_http s) h false (w_mask s) (w_dsize s) (w_data s) (w_closed s) in
  let b0 := nth 0 h 0 in
  let fh := ws_fh (nth 1 h 0) in
  let op := b0 mod 16 in
  if negb (op =? 2) && negb (op =? 8) then (ws_set_closed keep, RNone, a1, [WClose 1003])
  else if op =? 8 then (ws_set_closed keep, RNone, a1, [WClose 1000])
  else
    let size := ws_fsize h in
    let mask := if fh_masked fh then take 4 (drop (2 + fh_ext fh) h) else [] in
    let zero := if size =? 0 then [WZero] else [] in
    if datalen <? size then
      (* COAP_EVENT_WS_PACKET_SIZE, close 1009; all_hdr_in and data_size stay set *)
      let s1 := mkWs (w_up s) (w_flags s) (w_http s) h true mask size [] true in
      let '(s2, a2, oob) := ws_drain 5 c s1 a1 in
      (s2, RNone, a2, WClose 1009 :: (if oob then [WOob] else []))
    else
      let body := drop (fh_hl fh) h in
      let ret := len body in
      if 0 <? ret then
        if ret <=? size then
          if ret =? size then
            (mkWs (w_up s) (w_flags s) (w_http s) [] false mask size [] (w_closed s),
             RFrame (ws_unmask c mask body), a1, zero)
          else
            ws_data_stage c (mkWs (w_up s) (w_flags s) (w_http s) h true mask size body (w_closed s))
              datalen a1
        else
          (mkWs (w_up s) (w_flags s) (w_http s) (drop size body) false mask size [] (w_closed s),
           RFrame (ws_unmask c mask (take size body)), a1, zero)
      else
        let '(s2, r2, a2, e2) :=
          ws_data_stage c (mkWs (w_up s) (w_flags s) (w_http s) h true mask size [] (w_closed s))
            datalen a1 in
        (s2, r2, a2, zero ++ e2).

(* coap_ws_read once the handshake is done *)
Definition ws_frame_part (c : ws_cfg) (s : ws_rstate) (datalen : Z) (avail : bytes)
  : ws_rstate * ws_ret * bytes * list ws_ev :=
  if w_allhdr s then ws_data_stage c s datalen avail
  else
    let '(chunk, a1) := ws_rd (ws_max_fs - len (w_rdh s)) avail in
    let h := w_rdh s ++ chunk in
    let keep := mkWs (w_up s) (w_flags s) (w_http s) h false (w_mask s) (w_dsize s) (w_data s) (w_closed s) in
    if len h <? 2 then (keep, RNone, a1, [])
    else
      let fh := ws_fh (nth 1 h 0) in
      if wsc_server c && negb (fh_masked fh) then (ws_set_closed keep, RNone, a1, [WClose 1002])
      else if len h <? fh_hl fh then (keep, RNone, a1, [])
      else ws_after_hdr c s h datalen a1.

(* coap_ws_read *)
Definition ws_read (c : ws_cfg) (s : ws_rstate) (datalen : Z) (avail : bytes)
  : ws_rstate * ws_ret * bytes * list ws_ev :=
  if w_up s then ws_frame_part c s datalen avail
  else
    let '(res, oob) := ws_hs (S (length avail)) c (w_flags s) (w_http s) avail false in
    let eo := if oob then [WOob] else [] in
    match res with
    | HFuel => (ws_set_closed s, RErr, avail, eo ++ [WFuel])
    | HFail a1 => (ws_set_closed s, RErr, a1, eo ++ [WFail])
    | HMore http f a1 =>
        (mkWs false f http (w_rdh s) (w_allhdr s) (w_mask s) (w_dsize s) (w_data s) (w_closed s),
         RNone, a1, eo)
    | HUp lft f a1 =>
        let s1 := mkWs true f [] lft false (w_mask s) (w_dsize s) (w_data s) (w_closed s) in
        match lft with
        | [] => (s1, RNone, a1, eo ++ [WConnected])
        | _ =>
            let '(s2, r2, a2, e2) := ws_frame_part c s1 datalen a1 in
            (s2, r2, a2, eo ++ WConnected :: e2)
        end
    end.

(* the WS/WSS branch of coap_read_session: one call (as found) or "while a frame was returned" *)
Fixpoint ws_session_loop (fuel : nat) (c : ws_cfg) (s : ws_rstate) (avail : bytes)
  : ws_rstate * bytes * list ws_ev :=
  match fuel with
  | O => (ws_set_closed s, avail, [WFuel])
  | S fu =>
      let '(s1, r, a1, e1) := ws_read c s (wsc_rxbuf c) avail in
      match r with
      | RErr => (ws_set_closed s1, a1, e1 ++ (if w_closed s1 then [] else [WFail]))
      | RNone => (s1, a1, e1)
      | RFrame p =>
          if wsf_strand (wsc_fix c) && negb (w_closed s1) then
            let '(s2, a2, e2) := ws_session_loop fu c s1 a1 in (s2, a2, e1 ++ WMsg p :: e2)
          else (s1, a1, e1 ++ [WMsg p])
      end
  end.

Definition ws_session_read (c : ws_cfg) (s : ws_rstate) (avail : bytes) : ws_rstate * bytes * list ws_ev :=
  (* the caller's buffer is a fresh stack array: what an earlier call left in it is indeterminate *)
  let s0 := if wsf_buf (wsc_fix c) then s
            else mkWs (w_up s) (w_flags s) (w_http s) (w_rdh s) (w_allhdr s) (w_mask s) (w_dsize s)
                      (map (fun _ => ws_undef) (w_data s)) (w_closed s) in
  ws_session_loop (S (S (length (w_http s) + length (w_rdh s) + length avail))) c s0 avail.

(* level-triggered event loop *)
Fixpoint ws_pump (fuel : nat) (c : ws_cfg) (s : ws_rstate) (avail : bytes) : ws_rstate * list ws_ev :=
  match avail with
  | [] => (s, [])
  | _ =>
      if w_closed s then (s, [])
      else
        match fuel with
        | O => (ws_set_closed s, [WFuel])
        | S fu =>
            let '(s1, a1, e1) := ws_session_read c s avail in
            match e1 with
            | [] => if len a1 =? len avail then (s1, [WStuck])
                    else ws_pump fu c s1 a1
            | _ => let '(s2, e2) := ws_pump fu c s1 a1 in (s2, e1 ++ e2)
            end
        end
  end.

Fixpoint ws_arrivals (c : ws_cfg) (s : ws_rstate) (arr : list bytes) : ws_rstate * list ws_ev :=
  match arr with
  | [] => (s, [])
  | a :: tl =>
      let '(s1, e1) := ws_pump (16 + 2 * length a) c s a in
      let '(s2, e2) := ws_arrivals c s1 tl in (s2, e1 ++ e2)
  end.

(* ---- specification: a byte-at-a-time automaton, no buffers, no read sizes ----
   It describes the repaired behaviour: a handshake line may hold at most
   ws_http_buf - 2 = 158 bytes before its end of line. *)
Inductive ws_mode :=
| MHs (f : ws_flags) (line : bytes)                 (* handshake, bytes of the current line *)
| MHdr (h : bytes)                                  (* frame header bytes so far *)
| MBody (mask : bytes) (size : Z) (acc : bytes)     (* payload bytes (still masked) so far *)
| MClosed.

Definition ws_has_nul (l : bytes) : bool := existsb (fun b => b =? 0) l.

Definition ws_hdr_done (c : ws_cfg) (h : bytes) : ws_mode * list ws_ev :=
  let b0 := nth 0 h 0 in
  let fh := ws_fh (nth 1 h 0) in
  let op := b0 mod 16 in
  if negb (op =? 2) && negb (op =? 8) then (MClosed, [WClose 1003])
  else if op =? 8 then (MClosed, [WClose 1000])
  else
    let size := ws_fsize h in
    let mask := if fh_masked fh then take 4 (drop (2 + fh_ext fh) h) else [] in
    if wsc_rxbuf c <? size then (MClosed, [WClose 1009])
    else if size =? 0 then (MHdr [], [WZero])
    else (MBody mask size [], []).

Definition ws_step (c : ws_cfg) (m : ws_mode) (b : Z) : ws_mode * list ws_ev :=
  match m with
  | MClosed => (MClosed, [])
  | MHs f line =>
      if (b =? 10) && negb (ws_has_nul line) then
        match ws_process_line c f (ws_strip_cr line) with
        | PFail => (MClosed, [WFail])
        | PUp f' => (MHdr [], [WConnected])
        | PNext f' => (MHs f' [], [])
        end
      else
        let line' := line ++ [b] in
        if ws_http_buf - 1 <=? len line' then (MClosed, [WFail]) else (MHs f line', [])
  | MHdr h =>
      let h' := h ++ [b] in
      if len h' <? 2 then (MHdr h', [])
      else
        let fh := ws_fh (nth 1 h' 0) in
        if wsc_server c && negb (fh_masked fh) then (MClosed, [WClose 1002])
        else if len h' <? fh_hl fh then (MHdr h', [])
        else ws_hdr_done c h'
  | MBody mask size acc =>
      let acc' := acc ++ [b] in
      if len acc' =? size then (MHdr [], [WMsg (ws_unmask c mask acc')])
      else (MBody mask size acc', [])
  end.

Fixpoint ws_run (c : ws_cfg) (m : ws_mode) (bs : bytes) : ws_mode * list ws_ev :=
  match bs with
  | [] => (m, [])
  | b :: r =>
      let '(m1, e1) := ws_step c m b in
      let '(m2, e2) := ws_run c m1 r in
      (m2, e1 ++ e2)
  end.

(* the reader state as (mode at the start of what it buffers, the buffered bytes) *)
Definition ws_abs (s : ws_rstate) : ws_mode * bytes :=
  if w_closed s then (MClosed, [])
  else if negb (w_up s) then (MHs (w_flags s) [], w_http s)
  else if w_allhdr s then (MBody (w_mask s) (w_dsize s) (w_data s), [])
  else (MHdr [], w_rdh s).

(* the mode of a reader that has processed everything it can (between two arrivals) *)
Definition ws_mode_of (s : ws_rstate) : ws_mode :=
  if w_closed s then MClosed
  else if negb (w_up s) then MHs (w_flags s) (w_http s)
  else if w_allhdr s then MBody (w_mask s) (w_dsize s) (w_data s)
  else MHdr (w_rdh s).
